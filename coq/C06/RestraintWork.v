(* Accumulated work of a continuously changing restraint (R instance of the model): for every run
   segmentation the reported work is the sum, over the steps of the history (each counted once), of
   dU/dk x (increment of the scheduled force constant), resp. of force x (closest-image increment of the
   scheduled centre). *)
From Coq Require Import ZArith List Bool Reals Lra Lia Psatz.
From Flocq Require Import Core.Raux.
From CV Require Import Base.Num Base.RNum C06.RestraintModel C06.RestraintSched C06.RestraintTI.
Import ListNotations.
Local Open Scope Z_scope.

Section WorkR.
  Notation rcfg := (@rcfg R). Notation rstate := (@rstate R). Notation mstate := (@mstate R). Notation event := (@event R).
  Ltac rops := cbn [nadd nsub nmul ndiv nneg nofZ nfloor nltb nleb n0 n1 nsqrt Rops nhalf half two].

  Lemma rstep_W (c : rcfg) s t rel cont xs :
    s_W (fst (rstep Rops c s t rel cont xs)) =
    s_W (work_k Rops c (work_centers Rops c (upd Rops c s t rel cont xs) t rel
                                     (map (@frc3 R) (terms Rops c (upd Rops c s t rel cont xs) xs))) rel xs).
  Proof.
    unfold rstep, upd. destruct (k_update Rops c (centers_update Rops c s t rel cont) t rel cont xs) as [s2 line].
    reflexivity.
  Qed.

  Lemma fold_Rplus_snoc (l : list R) x : fold_left Rplus (l ++ [x]) 0%R = (fold_left Rplus l 0 + x)%R.
  Proof. rewrite fold_left_app. reflexivity. Qed.

  (* ================================================================ changing force constant *)
  (* dU/dk at a step x (scheduled k at that step - scheduled k at the previous step) *)
  Definition wk_term (c : rcfg) (p : Z * list R) : R :=
    (dUdk_sum Rops c (init_state Rops c) (snd p) * (closed_k Rops c (fst p) - closed_k Rops c (fst p - 1)))%R.
  Definition wk_spec (c : rcfg) (evs : list event) : R := fold_left Rplus (map (wk_term c) (steps_of c evs)) 0%R.

  Lemma k_update_cont_spec (c : rcfg) s t rel cont xs :
    c_chg_k c = true -> c_nstages c = 0 -> s_first s = c_it0 c -> 0 <= c_nsteps c ->
    let s' := fst (k_update Rops c s t rel cont xs) in
    s_k s' = (if t - c_it0 c <=? c_nsteps c then closed_k Rops c t else s_k s) /\
    s_kincr s' = (if t - c_it0 c <=? c_nsteps c then closed_k Rops c t - s_k s else 0)%R /\
    s_centers s' = s_centers s /\ s_W s' = s_W s.
  Proof.
    intros Hc Hn Hf HN. unfold k_update. rewrite Hc, Hn, Hf. cbn [Z.eqb negb].
    destruct (t - c_it0 c <=? c_nsteps c) eqn:E; cbn [fst set_k s_k s_kincr s_centers s_W].
    - apply Z.leb_le in E. unfold closed_k, sched_lambda. rewrite Z.min_l by lia. rops. repeat split; reflexivity.
    - rops. repeat split; reflexivity.
  Qed.

  Lemma closed_k_const (c : rcfg) t : 0 <= c_nsteps c -> c_nsteps c <= t - 1 - c_it0 c ->
    closed_k Rops c t = closed_k Rops c (t - 1).
  Proof. intros HN H. unfold closed_k, sched_lambda. rewrite !Z.min_r by lia. reflexivity. Qed.

  Definition inv_wk (c : rcfg) (evs : list event) : Prop :=
    let m := run Rops c evs in
    s_W (m_st m) = wk_spec c evs /\ s_centers (m_st m) = c_centers0 c.

  Lemma work_k_sum_inv (c : rcfg) evs :
    c_chg_k c = true -> c_chg_centers c = false -> c_nstages c = 0 -> 0 <= c_nsteps c -> c_acc_work c = true ->
    inv_wk c evs.
  Proof.
    intros Hc Hcc Hn HN Hacc.
    assert (Hmov : c_chg_centers c || c_chg_k c = true) by (rewrite Hc; apply orb_true_r).
    induction evs as [|e evs IH] using rev_ind.
    - unfold inv_wk, run, wk_spec. cbn. split; reflexivity.
    - destruct IH as [IW IC]. unfold inv_wk. rewrite run_snoc. set (m := run Rops c evs) in *.
      pose proof (run_inv_p Rops c evs) as Hp. fold m in Hp.
      destruct (mstep_unfold Rops c m e) as [_ [_ [Hst _]]]. rewrite Hst.
      destruct (inv_kc_run Rops c evs Hc Hn HN) as [Kf [_ [_ Kk]]]. fold m in Kf, Kk.
      set (t := ev_it m e). set (rel := t - ev_itr m e).
      assert (Hs0f : s_first (ev_s0 Rops c m e) = c_it0 c) by (rewrite ev_s0_first; assumption).
      assert (Hs0c : s_centers (ev_s0 Rops c m e) = c_centers0 c).
      { destruct e; cbn [ev_s0]; try exact IC. unfold restore. rewrite Hcc. reflexivity. }
      assert (Hs0W : s_W (ev_s0 Rops c m e) = s_W (m_st m)) by (apply ev_s0_W; assumption).
      assert (Hs0k : s_k (ev_s0 Rops c m e) = s_k (m_st m)) by (apply ev_s0_k; assumption).
      rewrite rstep_W, rstep_centers, centers_update_off by exact Hcc.
      split; [|exact Hs0c].
      unfold upd. rewrite centers_update_off by exact Hcc. fold t. fold rel.
      destruct (k_update_cont_spec c (ev_s0 Rops c m e) t rel (ev_cont e) (ev_xs e) Hc Hn Hs0f HN) as [S1 [S2 [S3 S4]]].
      set (s2 := fst (k_update Rops c (ev_s0 Rops c m e) t rel (ev_cont e) (ev_xs e))) in *.
      unfold work_centers. rewrite Hcc. cbn [andb].
      unfold work_k. rewrite Hc, Hacc. cbn [andb].
      assert (Hdk : dUdk_sum Rops c s2 (ev_xs e) = dUdk_sum Rops c (init_state Rops c) (ev_xs e)).
      { apply dUdk_sum_ext. rewrite S3, Hs0c. reflexivity. }
      assert (Hcase : evs = [] \/ evs <> []) by (destruct evs; [left; reflexivity | right; discriminate]).
      destruct Hcase as [Hnil | Hnemp].
      + (* first event: step_relative = 0, nothing is accumulated *)
        assert (Hm : m = init_m Rops c) by (unfold m; rewrite Hnil; reflexivity).
        assert (Hrel : rel = 0).
        { unfold rel, t. rewrite Hm. destruct e; cbn [ev_it ev_itr init_m m_fresh m_it m_itr]; lia. }
        rewrite Hrel. cbn [Z.ltb Z.compare]. rewrite S4, Hs0W, IW, Hnil. unfold wk_spec. cbn. reflexivity.
      + assert (Hnf : m_fresh m = false) by (apply run_not_fresh; exact Hnemp).
        specialize (Kk Hnf).
        unfold wk_spec. rewrite (steps_of_snoc Rops) by exact Hnemp. fold m. rewrite map_app, fold_left_app.
        fold (wk_spec c evs). rewrite <- IW.
        destruct (is_new m e) eqn:Enew.
        * destruct (ev_new Rops c m e Hp Enew) as [Ht [_ [Hrel [Hs0 _]]]]. fold t in Ht. fold t in Hrel. fold rel in Hrel.
          rewrite Hrel. cbn [set_W s_W]. rewrite S4, Hs0W, S2, Hdk, Hs0k, Kk.
          destruct e as [xs| |]; cbn [is_new] in Enew; try discriminate.
          cbn [new_step map fold_left ev_xs]. unfold wk_term. cbn [fst snd]. rops.
          replace (m_it m + 1 - 1) with (m_it m) by lia. rewrite <- Ht.
          destruct (t - c_it0 c <=? c_nsteps c) eqn:E; [reflexivity|].
          apply Z.leb_gt in E. rewrite (closed_k_const c t HN) by lia. rewrite Ht.
          replace (m_it m + 1 - 1) with (m_it m) by lia. ring.
        * destruct (ev_again Rops c m e Hp Enew) as [Ht _]. fold t in Ht.
          assert (Hns : new_step (m_it m) e = []).
          { destruct e as [xs| |]; try reflexivity. cbn [is_new] in Enew. rewrite Hnf in Enew. discriminate. }
          rewrite Hns. cbn [map fold_left].
          destruct (0 <? rel); [|rewrite S4, Hs0W; reflexivity].
          cbn [set_W s_W]. rewrite S4, Hs0W, S2, Hs0k, Kk, Ht. rops.
          destruct (m_it m - c_it0 c <=? c_nsteps c); ring.
  Qed.

  Lemma work_k_sum (c : rcfg) evs :
    c_chg_k c = true -> c_chg_centers c = false -> c_nstages c = 0 -> 0 <= c_nsteps c -> c_acc_work c = true ->
    s_W (m_st (run Rops c evs)) = wk_spec c evs.
  Proof. intros. apply work_k_sum_inv; assumption. Qed.

  (* ================================================================ moving centres *)
  Definition var_ok (v : @var R) : Prop := v_periodic v = true -> (0 < v_period v)%R.

  Lemma pdiff_p_shift (P d : R) (n : Z) : (0 < P)%R -> pdiff_p Rops P (d + IZR n * P)%R = pdiff_p Rops P d.
  Proof.
    intros HP. unfold pdiff_p, pshift, half, nhalf. rops.
    replace ((d + IZR n * P) / P + 1 / 2)%R with (d / P + 1 / 2 + IZR n)%R by (field; lra).
    rewrite Zfloor_add_IZR, plus_IZR. ring.
  Qed.

  Lemma pdiff_wrap (v : @var R) (a b : R) : var_ok v -> pdiff Rops v a (wrapv Rops v b) = pdiff Rops v a b.
  Proof.
    intros Hv. unfold pdiff, wrapv. destruct (v_periodic v) eqn:E; [|reflexivity]. specialize (Hv E). rops.
    set (n := Zfloor ((b - v_wrap_center v) / v_period v + 1 / 2)).
    replace (a - (b - IZR n * v_period v))%R with (a - b + IZR n * v_period v)%R by ring.
    apply pdiff_p_shift. exact Hv.
  Qed.

  Lemma pdiff_self (v : @var R) (a : R) : pdiff Rops v a a = 0%R.
  Proof.
    unfold pdiff. rops. replace (a - a)%R with 0%R by ring. destruct (v_periodic v); [|reflexivity].
    unfold pdiff_p, pshift, half, nhalf. rops.
    replace (0 / v_period v + 1 / 2)%R with (1 / 2)%R by (unfold Rdiv; ring).
    assert (H : Zfloor (1 / 2) = 0) by (apply Zfloor_spec; simpl; lra).
    rewrite H. simpl. ring.
  Qed.

  (* the increments the model uses = closest-image differences of the unwrapped scheduled centres *)
  Lemma incr_closed (vars : list (@var R)) a b : Forall var_ok vars ->
    map3 (fun v n o => nmul Rops (half Rops) (dist2_lgrad Rops v n o)) vars a (map2 (wrapv Rops) vars b) =
    map3 (fun v n o => pdiff Rops v n o) vars a b.
  Proof.
    intros Hv. revert a b. induction Hv as [|v vars Hv1 Hv2 IH]; intros a b; [reflexivity|].
    destruct a as [|x a]; [reflexivity|]. destruct b as [|y b]; [reflexivity|].
    cbn [map2 map3]. rewrite IH. f_equal.
    unfold dist2_lgrad, half, two, nhalf. rops. rewrite (pdiff_wrap v x y Hv1). field.
  Qed.

  Lemma incr_zero (vars : list (@var R)) a : Forall var_ok vars ->
    Forall (fun d => d = 0%R)
      (map3 (fun v n o => nmul Rops (half Rops) (dist2_lgrad Rops v n o)) vars a (map2 (wrapv Rops) vars a)).
  Proof.
    intros Hv. rewrite incr_closed by exact Hv. clear Hv. revert a.
    induction vars as [|v vars IH]; intros a; [constructor|].
    destruct a as [|x a]; [constructor|]. cbn [map3]. constructor; [apply pdiff_self | apply IH].
  Qed.

  Definition dotw (w : R) (fd : R * R) : R := (w + fst fd * snd fd)%R.

  Lemma fold_dotw_shift (l : list (R * R)) w : fold_left dotw l w = (w + fold_left dotw l 0)%R.
  Proof.
    revert w. induction l as [|p l IH]; intros w; cbn [fold_left]; [ring|].
    rewrite IH, (IH (dotw 0 p)). unfold dotw. ring.
  Qed.

  Lemma fold_dotw_zero (f d : list R) w : Forall (fun x => x = 0%R) d -> fold_left dotw (combine f d) w = w.
  Proof.
    intros Hd. revert f w. induction Hd as [|x d Hx Hd IH]; intros f w.
    - destruct f; reflexivity.
    - destruct f as [|y f]; [reflexivity|]. cbn [combine fold_left]. rewrite IH. unfold dotw. cbn [fst snd]. subst x. ring.
  Qed.

  Lemma terms_ext (c : rcfg) s s' xs : s_k s = s_k s' -> s_centers s = s_centers s' -> terms Rops c s xs = terms Rops c s' xs.
  Proof. intros H1 H2. unfold terms. rewrite H1, H2. reflexivity. Qed.

  (* unwrapped scheduled centres, and a state carrying the scheduled (wrapped) centres and the constant k *)
  Definition unwrapped (c : rcfg) (t : Z) : list R := new_centers Rops c (sched_lambda Rops c t).
  Definition sched_st (c : rcfg) (t : Z) : rstate := mkSt (closed_centers Rops c t) [] (c_k0 c) 0%R 0 0 0%R 0%R.
  (* force at a step . closest-image increment of the scheduled centre at that step *)
  Definition wc_term (c : rcfg) (p : Z * list R) : R :=
    if fst p - c_it0 c <=? c_nsteps c then
      fold_left dotw
        (combine (map (@frc3 R) (terms Rops c (sched_st c (fst p)) (snd p)))
                 (map3 (fun v n o => pdiff Rops v n o) (c_vars c) (unwrapped c (fst p)) (unwrapped c (fst p - 1)))) 0%R
    else 0%R.
  Definition wc_spec (c : rcfg) (evs : list event) : R := fold_left Rplus (map (wc_term c) (steps_of c evs)) 0%R.

  Lemma centers_update_cont_spec (c : rcfg) s t rel cont :
    c_chg_centers c = true -> c_nstages c = 0 -> s_first s = c_it0 c ->
    let s' := centers_update Rops c s t rel cont in
    s_incr s' = (if (rel =? 0) || negb (t - c_it0 c <=? c_nsteps c) then zeros Rops (s_incr s' ) else
                 map3 (fun v n o => nmul Rops (half Rops) (dist2_lgrad Rops v n o)) (c_vars c)
                      (new_centers Rops c (ratio Rops (t - c_it0 c) (c_nsteps c))) (s_centers s)) /\
    s_k s' = s_k s /\ s_W s' = s_W s.
  Proof.
    intros Hc Hn Hf. unfold centers_update. rewrite Hc, Hn, Hf. cbn [Z.eqb negb].
    destruct (t - c_it0 c <=? c_nsteps c) eqn:E; destruct (rel =? 0) eqn:Er;
      cbn [orb negb set_incr update_centers s_incr s_k s_W]; repeat split; try reflexivity.
    all: unfold zeros; rewrite map_map; try reflexivity.
    all: rewrite map_map; reflexivity.
  Qed.

  Lemma zeros_all l : Forall (fun x => x = 0%R) (zeros Rops l).
  Proof. unfold zeros. induction l; cbn [map]; constructor; auto. Qed.

  Definition inv_wc (c : rcfg) (evs : list event) : Prop :=
    let m := run Rops c evs in s_W (m_st m) = wc_spec c evs /\ s_k (m_st m) = c_k0 c.

  Lemma work_centers_sum_inv (c : rcfg) evs :
    c_chg_centers c = true -> c_chg_k c = false -> c_nstages c = 0 -> 0 <= c_nsteps c -> c_acc_work c = true ->
    Forall var_ok (c_vars c) -> inv_wc c evs.
  Proof.
    intros Hc Hck Hn HN Hacc Hvars.
    assert (Hmov : c_chg_centers c || c_chg_k c = true) by (rewrite Hc; reflexivity).
    induction evs as [|e evs IH] using rev_ind.
    - unfold inv_wc, run, wc_spec. cbn. split; reflexivity.
    - destruct IH as [IW IK]. unfold inv_wc. rewrite run_snoc. set (m := run Rops c evs) in *.
      pose proof (run_inv_p Rops c evs) as Hp. fold m in Hp.
      destruct (mstep_unfold Rops c m e) as [_ [_ [Hst _]]]. rewrite Hst.
      destruct (inv_cc_run Rops c evs Hc Hn HN) as [Kf [_ [_ Kc]]]. fold m in Kf, Kc.
      set (t := ev_it m e). set (rel := t - ev_itr m e).
      assert (Hs0f : s_first (ev_s0 Rops c m e) = c_it0 c) by (rewrite ev_s0_first; assumption).
      assert (Hs0k : s_k (ev_s0 Rops c m e) = c_k0 c).
      { destruct e; cbn [ev_s0]; try exact IK. unfold restore. rewrite Hck. reflexivity. }
      assert (Hs0W : s_W (ev_s0 Rops c m e) = s_W (m_st m)) by (apply ev_s0_W; assumption).
      assert (Hs0c : s_centers (ev_s0 Rops c m e) = s_centers (m_st m)) by (apply ev_s0_centers; assumption).
      rewrite rstep_W, rstep_k. unfold upd. rewrite k_update_off by exact Hck. cbn [fst]. fold t. fold rel.
      destruct (centers_update_cont_spec c (ev_s0 Rops c m e) t rel (ev_cont e) Hc Hn Hs0f) as [S1 [S2 S3]].
      set (s2 := centers_update Rops c (ev_s0 Rops c m e) t rel (ev_cont e)) in *.
      split; [|rewrite S2; exact Hs0k].
      unfold work_k. rewrite Hck. cbn [andb]. unfold work_centers. rewrite Hc, Hacc. cbn [andb].
      assert (Hs2f : s_first s2 = c_it0 c) by (unfold s2; rewrite centers_update_first; exact Hs0f).
      rewrite Hs2f.
      assert (Hcase : evs = [] \/ evs <> []) by (destruct evs; [left; reflexivity | right; discriminate]).
      destruct Hcase as [Hnil | Hnemp].
      + assert (Hm : m = init_m Rops c) by (unfold m; rewrite Hnil; reflexivity).
        assert (Hrel : rel = 0).
        { unfold rel, t. rewrite Hm. destruct e; cbn [ev_it ev_itr init_m m_fresh m_it m_itr]; lia. }
        rewrite Hrel. cbn [Z.ltb Z.compare andb]. rewrite S3, Hs0W, IW, Hnil. unfold wc_spec. cbn. reflexivity.
      + assert (Hnf : m_fresh m = false) by (apply run_not_fresh; exact Hnemp).
        specialize (Kc Hnf).
        unfold wc_spec. rewrite (steps_of_snoc Rops) by exact Hnemp. fold m. rewrite map_app, fold_left_app.
        fold (wc_spec c evs). rewrite <- IW.
        assert (Hcen2 : s_centers s2 = closed_centers Rops c t).
        { assert (H := inv_cc_run Rops c (evs ++ [e]) Hc Hn HN). destruct H as [_ [_ [_ H]]].
          rewrite run_snoc in H. fold m in H. rewrite mstep_not_fresh in H. specialize (H eq_refl).
          destruct (mstep_unfold Rops c m e) as [Hit' [_ [Hst' _]]]. rewrite Hit', Hst', rstep_centers in H. exact H. }
        destruct (is_new m e) eqn:Enew.
        * destruct (ev_new Rops c m e Hp Enew) as [Ht [_ [Hrel [Hs0 _]]]]. fold t in Ht. fold t in Hrel. fold rel in Hrel.
          rewrite Hrel. cbn [andb].
          destruct e as [xs| |]; cbn [is_new] in Enew; try discriminate.
          cbn [new_step map fold_left ev_xs]. unfold wc_term. cbn [fst snd]. rewrite <- Ht.
          destruct (t - c_it0 c <=? c_nsteps c) eqn:E.
          -- cbn [set_W s_W]. rewrite S3, Hs0W.
             assert (Hrel0 : rel =? 0 = false). { apply Z.ltb_lt in Hrel. apply Z.eqb_neq. lia. }
             rewrite Hrel0 in S1. cbn [orb negb] in S1. rewrite S1, Hs0c, Kc.
             apply Z.leb_le in E.
             unfold closed_centers. rewrite (incr_closed (c_vars c) _ _ Hvars).
             fold (dotw). change (fun (w : R) (fd : R * R) => nadd Rops w (nmul Rops (fst fd) (snd fd))) with dotw.
             rewrite fold_dotw_shift. rops.
             assert (A1 : terms Rops c s2 xs = terms Rops c (sched_st c t) xs).
             { apply terms_ext; [rewrite S2, Hs0k; reflexivity | rewrite Hcen2; reflexivity]. }
             assert (A2 : new_centers Rops c (ratio Rops (t - c_it0 c) (c_nsteps c)) = unwrapped c t).
             { unfold unwrapped, sched_lambda. rewrite Z.min_l by lia. reflexivity. }
             assert (A3 : new_centers Rops c (sched_lambda Rops c (m_it m)) = unwrapped c (t - 1)).
             { unfold unwrapped. replace (t - 1) with (m_it m) by lia. reflexivity. }
             cbn [ev_xs] in A1. rewrite A1, A2, A3. reflexivity.
          -- rewrite S3, Hs0W. rops. ring.
        * destruct (ev_again Rops c m e Hp Enew) as [Ht _]. fold t in Ht.
          assert (Hns : new_step (m_it m) e = []).
          { destruct e as [xs| |]; try reflexivity. cbn [is_new] in Enew. rewrite Hnf in Enew. discriminate. }
          rewrite Hns. cbn [map fold_left].
          destruct ((0 <? rel) && (t - c_it0 c <=? c_nsteps c)) eqn:Eg; [|rewrite S3, Hs0W; reflexivity].
          apply andb_true_iff in Eg as [Eg1 Eg2].
          cbn [set_W s_W]. rewrite S3, Hs0W.
          change (fun (w : R) (fd : R * R) => nadd Rops w (nmul Rops (fst fd) (snd fd))) with dotw.
          apply fold_dotw_zero.
          assert (Hrel0 : rel =? 0 = false). { apply Z.ltb_lt in Eg1. apply Z.eqb_neq. lia. }
          rewrite Hrel0, Eg2 in S1. cbn [orb negb] in S1. rewrite S1, Hs0c, Kc, Ht.
          unfold closed_centers, sched_lambda. apply Z.leb_le in Eg2. rewrite Ht in Eg2. rewrite Z.min_l by lia.
          apply incr_zero. exact Hvars.
  Qed.

  Lemma work_centers_sum (c : rcfg) evs :
    c_chg_centers c = true -> c_chg_k c = false -> c_nstages c = 0 -> 0 <= c_nsteps c -> c_acc_work c = true ->
    Forall var_ok (c_vars c) ->
    s_W (m_st (run Rops c evs)) = wc_spec c evs.
  Proof. intros. apply work_centers_sum_inv; assumption. Qed.

  (* when consecutive scheduled centres are less than half a period apart the closest-image increment is the plain difference *)
  Lemma pdiff_small (v : @var R) (a b : R) : var_ok v ->
    (v_periodic v = true -> - v_period v / 2 <= a - b < v_period v / 2)%R -> pdiff Rops v a b = (a - b)%R.
  Proof.
    intros Hv Hs. unfold pdiff. rops. destruct (v_periodic v) eqn:E; [|reflexivity].
    specialize (Hv E). specialize (Hs eq_refl). unfold pdiff_p, pshift, half, nhalf. rops.
    assert (H : Zfloor ((a - b) / v_period v + 1 / 2) = 0).
    { apply Zfloor_spec. simpl.
      assert (H1 : (-(1/2) <= (a - b) / v_period v)%R).
      { apply Rmult_le_reg_r with (v_period v); [lra|]. unfold Rdiv. rewrite Rmult_assoc, Rinv_l by lra. lra. }
      assert (H2 : ((a - b) / v_period v < 1/2)%R).
      { apply Rmult_lt_reg_r with (v_period v); [lra|]. unfold Rdiv at 1. rewrite Rmult_assoc, Rinv_l by lra. lra. }
      lra. }
    rewrite H. simpl. ring.
  Qed.
End WorkR.
