(* timeStepFactor f: the bias is awake (updated) only at steps that are multiples of f (colvarmodule::calc_colvars);
   at the other steps its state, energy and forces are those of its last update.  Run protocol with this rule and the
   theorem that continuously moving centres are then the scheduled centres of the LAST UPDATED step not beyond the end of
   the schedule - in particular they stop short of the target when targetNumSteps is not a multiple of f. *)
From Coq Require Import ZArith List Bool Lia.
From CV Require Import Base.Num C06.RestraintModel C06.RestraintSched.
Import ListNotations.
Local Open Scope Z_scope.

Section TSF.
  Context {T : Type} (O : NumOps T).
  Notation rcfg := (@rcfg T). Notation mstate := (@mstate T). Notation event := (@event T).

  Definition mstep_tsf (f : Z) (c : rcfg) (m : mstate) (e : event) : mstate :=
    if ev_it m e mod f =? 0 then mstep O c m e
    else mkM (ev_it m e) (ev_itr m e) false (ev_s0 O c m e) (m_outs m).
  Definition run_tsf (f : Z) (c : rcfg) (evs : list event) : mstate := fold_left (mstep_tsf f c) evs (init_m O c).

  (* the last updated step that is not beyond the end of the schedule *)
  Definition last_update (f : Z) (c : rcfg) (t : Z) : Z := f * (Z.min t (c_it0 c + c_nsteps c) / f).

  Definition inv_tsf (f : Z) (c : rcfg) (m : mstate) : Prop :=
    s_first (m_st m) = c_it0 c /\ c_it0 c <= m_it m /\
    (m_fresh m = true -> m = init_m O c) /\
    (m_fresh m = false ->
       (c_it0 c <= last_update f c (m_it m) -> s_centers (m_st m) = closed_centers O c (last_update f c (m_it m))) /\
       (last_update f c (m_it m) < c_it0 c -> s_centers (m_st m) = c_centers0 c)).

  Lemma div_same a f : 0 < f -> 0 < a -> a mod f <> 0 -> a / f = (a - 1) / f.
  Proof.
    intros Hf Ha Hm. destruct (div_succ (a - 1) f ltac:(lia) Hf) as [_ D]. replace (a - 1 + 1) with a in D by lia. apply D. exact Hm.
  Qed.

  Lemma inv_tsf_step f c m e :
    0 < f -> c_chg_centers c = true -> c_nstages c = 0 -> 0 <= c_nsteps c -> 0 <= c_it0 c ->
    inv_tsf f c m -> inv_tsf f c (mstep_tsf f c m e).
  Proof.
    intros Hf Hc Hn HN H0 [If [Ile [Ifr Icen]]].
    assert (Hmov : c_chg_centers c || c_chg_k c = true) by (rewrite Hc; reflexivity).
    assert (Hit' : ev_it m e = m_it m \/ (ev_it m e = m_it m + 1 /\ m_fresh m = false)).
    { unfold ev_it. destruct e; auto. destruct (m_fresh m); auto. }
    set (t := ev_it m e) in *.
    assert (Hs0c : s_centers (ev_s0 O c m e) = s_centers (m_st m)) by (apply ev_s0_centers; exact Hc).
    assert (Hs0f : s_first (ev_s0 O c m e) = c_it0 c) by (rewrite ev_s0_first; assumption).
    assert (Ht0 : c_it0 c <= t) by lia.
    (* centres before this event, in terms of t *)
    assert (Hprev : m_fresh m = false -> t mod f <> 0 \/ c_nsteps c < t - c_it0 c ->
              (c_it0 c <= last_update f c t -> s_centers (m_st m) = closed_centers O c (last_update f c t)) /\
              (last_update f c t < c_it0 c -> s_centers (m_st m) = c_centers0 c)).
    { intros Hnf Hcase. destruct (Icen Hnf) as [J1 J2].
      assert (Hlu : last_update f c t = last_update f c (m_it m)).
      { destruct Hit' as [E | [E _]]; [rewrite E; reflexivity|]. unfold last_update.
        destruct Hcase as [Hm | Hend].
        - destruct (Z_le_gt_dec t (c_it0 c + c_nsteps c)) as [L | G].
          + rewrite !Z.min_l by lia. rewrite E in *. f_equal. replace (m_it m) with (m_it m + 1 - 1) at 2 by lia.
            apply div_same; lia.
          + rewrite !Z.min_r by lia. reflexivity.
        - rewrite !Z.min_r by lia. reflexivity. }
      rewrite Hlu. split; assumption. }
    unfold mstep_tsf. fold t.
    destruct (t mod f =? 0) eqn:Em.
    - (* awake: a regular update at step t *)
      apply Z.eqb_eq in Em.
      destruct (mstep_unfold O c m e) as [Hit [_ [Hst _]]]. fold t in Hit, Hst.
      unfold inv_tsf. rewrite Hit, Hst, rstep_first, mstep_not_fresh, Hs0f.
      split; [reflexivity|]. split; [exact Ht0|]. split; [discriminate|]. intros _.
      rewrite rstep_centers. unfold centers_update. rewrite Hc, Hn. cbn [Z.eqb negb]. rewrite Hs0f.
      destruct (t - c_it0 c <=? c_nsteps c) eqn:Ele.
      + apply Z.leb_le in Ele.
        assert (Hlu : last_update f c t = t).
        { unfold last_update. rewrite Z.min_l by lia. pose proof (Z.div_mod t f ltac:(lia)). lia. }
        rewrite Hlu.
        assert (Hcc : s_centers (update_centers O c (ev_s0 O c m e) (ratio O (t - c_it0 c) (c_nsteps c))) = closed_centers O c t).
        { unfold update_centers, closed_centers, sched_lambda. cbn [s_centers]. rewrite Z.min_l by lia. reflexivity. }
        split; [intros _ | intros Hlt; lia].
        destruct (_ =? 0); [cbn [set_incr s_centers]|]; exact Hcc.
      + apply Z.leb_gt in Ele.
        assert (Hnf : m_fresh m = false).
        { destruct (m_fresh m) eqn:F; auto. exfalso. rewrite (Ifr eq_refl) in Hit'. cbn [init_m m_it m_fresh] in Hit'.
          destruct Hit' as [H | [_ H]]; [lia | discriminate]. }
        destruct (Hprev Hnf (or_intror Ele)) as [J1 J2].
        assert (Hsame : forall s', s_centers (if t - ev_itr m e =? 0 then set_incr (set_incr (ev_s0 O c m e) s') (zeros O (s_incr (set_incr (ev_s0 O c m e) s'))) else set_incr (ev_s0 O c m e) s') = s_centers (m_st m)).
        { intros s'. destruct (_ =? 0); cbn [set_incr s_centers]; exact Hs0c. }
        rewrite Hsame. split; assumption.
    - (* asleep: nothing is updated *)
      apply Z.eqb_neq in Em. unfold inv_tsf. cbn [m_st m_it m_fresh].
      split; [exact Hs0f|]. split; [exact Ht0|]. split; [discriminate|]. intros _.
      rewrite Hs0c.
      destruct (m_fresh m) eqn:F.
      + (* first event at a step that is not a multiple of f: the configured centres *)
        rewrite (Ifr eq_refl) in *. cbn [init_m m_it m_st init_state s_centers m_fresh] in *.
        assert (Ht : t = c_it0 c) by (destruct Hit' as [H | [_ H]]; [exact H | discriminate]).
        assert (Hlt : last_update f c t < c_it0 c).
        { unfold last_update. rewrite Ht, Z.min_l by lia.
          pose proof (Z.div_mod (c_it0 c) f ltac:(lia)). pose proof (Z.mod_pos_bound (c_it0 c) f Hf). rewrite Ht in Em. lia. }
        split; [intros H; lia | intros _; reflexivity].
      + apply (Hprev eq_refl). left. exact Em.
  Qed.

  Lemma center_schedule_tsf f c evs :
    0 < f -> c_chg_centers c = true -> c_nstages c = 0 -> 0 <= c_nsteps c -> 0 <= c_it0 c -> evs <> [] ->
    let m := run_tsf f c evs in
    (c_it0 c <= last_update f c (m_it m) -> s_centers (m_st m) = closed_centers O c (last_update f c (m_it m))) /\
    (last_update f c (m_it m) < c_it0 c -> s_centers (m_st m) = c_centers0 c).
  Proof.
    intros Hf Hc Hn HN H0 Hne m.
    assert (H : inv_tsf f c m).
    { unfold m, run_tsf. clear Hne m. induction evs as [|e evs IH] using rev_ind.
      - unfold inv_tsf, init_m, init_state; cbn. repeat split; try lia; try discriminate.
      - rewrite fold_left_app. cbn [fold_left]. apply inv_tsf_step; assumption. }
    destruct H as [_ [_ [_ Hcen]]]. apply Hcen.
    unfold m, run_tsf. destruct (exists_last Hne) as [l [e ->]]. rewrite fold_left_app. cbn [fold_left].
    unfold mstep_tsf. destruct (_ =? 0); [apply mstep_not_fresh | reflexivity].
  Qed.
End TSF.
