(* timeStepFactor f: the bias is awake (updated) only at steps that are multiples of f (colvarmodule::calc_colvars); at the
   other steps its state, energy and forces are those of its last update.  The schedule tests of
   colvarbias_restraint_centers_moving::update carry the factor: a continuous schedule is updated while
   step - first < N + f with lambda = min(step - first, N)/N (the last update may fall after the end and brings the centres
   to their targets), a staged one moves at the first awake step at or after the first step of a stage
   ((step - first - 1) mod N < f).  For f = 1 these are the tests of RestraintModel.centers_update.
   Theorem: continuously moving centres are, after any history, the scheduled centres of the last updated step. *)
From Coq Require Import ZArith List Bool Lia.
From CV Require Import Base.Num C06.RestraintModel C06.RestraintSched.
Import ListNotations.
Local Open Scope Z_scope.

Section TSF.
  Context {T : Type} (O : NumOps T).
  Notation rcfg := (@rcfg T). Notation rstate := (@rstate T). Notation mstate := (@mstate T). Notation event := (@event T).

  (* colvarbias_restraint_centers_moving::update with time_step_factor = f *)
  Definition centers_update_tsf (f : Z) (c : rcfg) (s : rstate) (t rel : Z) (cont : bool) : rstate :=
    if c_chg_centers c then
      let s1 :=
        if negb (c_nstages c =? 0) then
          if s_stage s <=? c_nstages c then
            if first_time rel cont && (s_first s <? t) && (Z.rem (t - s_first s - 1) (c_nsteps c) <? f)
            then let s' := update_centers O c s (ratio O (s_stage s) (c_nstages c)) in set_stage s' (s_stage s + 1)
            else set_incr s (zeros O (s_incr s))
          else s
        else
          if t - s_first s <? c_nsteps c + f
          then update_centers O c s (ratio O (Z.min (t - s_first s) (c_nsteps c)) (c_nsteps c))
          else set_incr s (zeros O (s_incr s)) in
      if rel =? 0 then set_incr s1 (zeros O (s_incr s1)) else s1
    else s.

  (* f = 1: the tests of the model without the factor *)
  Lemma centers_update_tsf_1 c s t rel cont : 0 < c_nsteps c ->
    centers_update_tsf 1 c s t rel cont = centers_update O c s t rel cont.
  Proof.
    intros HN. unfold centers_update_tsf, centers_update.
    destruct (c_chg_centers c); [|reflexivity].
    destruct (negb (c_nstages c =? 0)).
    - destruct (s_stage s <=? c_nstages c); [|reflexivity].
      destruct (first_time rel cont); cbn [andb]; [|reflexivity].
      destruct (s_first s <? t) eqn:E; cbn [andb]; [|reflexivity].
      apply Z.ltb_lt in E.
      assert (H : (Z.rem (t - s_first s - 1) (c_nsteps c) <? 1) = (Z.rem (t - s_first s - 1) (c_nsteps c) =? 0)).
      { rewrite Z.rem_mod_nonneg by lia. pose proof (Z.mod_pos_bound (t - s_first s - 1) (c_nsteps c) HN).
        destruct (_ =? 0) eqn:E0; [apply Z.eqb_eq in E0; apply Z.ltb_lt; lia | apply Z.eqb_neq in E0; apply Z.ltb_ge; lia]. }
      rewrite H. reflexivity.
    - assert (H : (t - s_first s <? c_nsteps c + 1) = (t - s_first s <=? c_nsteps c)).
      { destruct (t - s_first s <=? c_nsteps c) eqn:E; [apply Z.leb_le in E; apply Z.ltb_lt; lia | apply Z.leb_gt in E; apply Z.ltb_ge; lia]. }
      rewrite H. destruct (t - s_first s <=? c_nsteps c) eqn:E; [|reflexivity].
      apply Z.leb_le in E. rewrite Z.min_l by lia. reflexivity.
  Qed.

  (* colvarbias_restraint_k_moving::update with time_step_factor = f: a stage ends at the first awake step at or after its
     last step ((t - first) mod N < f); the continuous change is updated while t - first < N + f with lambda clamped *)
  Definition k_update_tsf (f : Z) (c : rcfg) (s : rstate) (t rel : Z) (cont : bool) (xs : list T) : rstate * option (T * T) :=
    if c_chg_k c then
      if negb (c_nstages c =? 0) then
        let s1 :=
          if t =? s_first s then
            let lam0 := match c_lambda_sched c with
                        | [] => if c_decoupling c then n1 O else n0 O
                        | l0 :: _ => l0 end in
            set_k s (k_of_lambda O c lam0) (s_kincr s) (s_stage s) (s_FE s)
          else s in
        let lam := stage_lambda O c (s_stage s1) in
        let s2 :=
          if (s_first s1 <? t) && first_time rel cont &&
             ((c_equil c =? 0) || (Z.rem (t - s_first s1) (c_nsteps c) >=? c_equil c))
          then set_k s1 (s_k s1) (s_kincr s1) (s_stage s1)
                     (nadd O (s_FE s1) (nmul O (dlambda_factor O c lam) (dUdk_sum O c s1 xs)))
          else s1 in
        if (Z.rem (t - s_first s2) (c_nsteps c) <? f) && (s_first s2 <? t) && first_time rel cont then
          let line := (lam, ndiv O (s_FE s2) (nofZ O (c_nsteps c - c_equil c))) in
          if s_stage s2 <? c_nstages c then
            let g := s_stage s2 + 1 in
            (set_k s2 (k_of_lambda O c (stage_lambda O c g)) (s_kincr s2) g (n0 O), Some line)
          else (s2, Some line)
        else (s2, None)
      else if t - s_first s <? c_nsteps c + f then
        let l := ratio O (Z.min (t - s_first s) (c_nsteps c)) (c_nsteps c) in
        let lam := if c_decoupling c then nsub O (n1 O) l else l in
        let k := k_of_lambda O c lam in
        (set_k s k (nsub O k (s_k s)) (s_stage s) (s_FE s), None)
      else (set_k s (s_k s) (n0 O) (s_stage s) (s_FE s), None)
    else (s, None).

  Lemma k_update_tsf_centers f c s t rel cont xs : s_centers (fst (k_update_tsf f c s t rel cont xs)) = s_centers s.
  Proof. unfold k_update_tsf. split_ifs; reflexivity. Qed.
  Lemma k_update_tsf_first f c s t rel cont xs : s_first (fst (k_update_tsf f c s t rel cont xs)) = s_first s.
  Proof. unfold k_update_tsf. split_ifs; reflexivity. Qed.

  Lemma k_update_tsf_1 c s t rel cont xs : 0 < c_nsteps c ->
    k_update_tsf 1 c s t rel cont xs = k_update O c s t rel cont xs.
  Proof.
    intros HN. unfold k_update_tsf, k_update.
    destruct (c_chg_k c); [|reflexivity].
    destruct (negb (c_nstages c =? 0)).
    - set (s1 := if t =? s_first s then _ else s).
      set (s2 := if (s_first s1 <? t) && _ && _ then _ else s1).
      assert (H : (Z.rem (t - s_first s2) (c_nsteps c) <? 1) && (s_first s2 <? t) = (Z.rem (t - s_first s2) (c_nsteps c) =? 0) && (s_first s2 <? t)).
      { destruct (s_first s2 <? t) eqn:E; [|rewrite !andb_false_r; reflexivity]. rewrite !andb_true_r.
        apply Z.ltb_lt in E. rewrite Z.rem_mod_nonneg by lia.
        pose proof (Z.mod_pos_bound (t - s_first s2) (c_nsteps c) HN).
        destruct ((t - s_first s2) mod c_nsteps c =? 0) eqn:E0; [apply Z.eqb_eq in E0; apply Z.ltb_lt; lia | apply Z.eqb_neq in E0; apply Z.ltb_ge; lia]. }
      rewrite H. reflexivity.
    - assert (H : (t - s_first s <? c_nsteps c + 1) = (t - s_first s <=? c_nsteps c)).
      { destruct (t - s_first s <=? c_nsteps c) eqn:E; [apply Z.leb_le in E; apply Z.ltb_lt; lia | apply Z.leb_gt in E; apply Z.ltb_ge; lia]. }
      rewrite H. destruct (t - s_first s <=? c_nsteps c) eqn:E; [|reflexivity].
      apply Z.leb_le in E. rewrite Z.min_l by lia. reflexivity.
  Qed.

  Lemma tsf_one c s t rel cont xs : 0 < c_nsteps c ->
    centers_update_tsf 1 c s t rel cont = centers_update O c s t rel cont /\
    k_update_tsf 1 c s t rel cont xs = k_update O c s t rel cont xs.
  Proof. intros H. split; [apply centers_update_tsf_1 | apply k_update_tsf_1]; exact H. Qed.

  (* one update of the restraint with the factor (rstep with centers_update_tsf and k_update_tsf), and the run protocol *)
  Definition rstep_tsf (f : Z) (c : rcfg) (s : rstate) (t rel : Z) (cont : bool) (xs : list T) : rstate * rout :=
    let s1 := centers_update_tsf f c s t rel cont in
    let '(s2, line) := k_update_tsf f c s1 t rel cont xs in
    let tm := terms O c s2 xs in
    let forces := map (@frc3 T) tm in
    let s3 := work_centers O c s2 t rel forces in
    let s4 := work_k O c s3 rel xs in
    (s4, mkOut (sumT O (map (@pot3 T) tm)) forces line).
  Definition mstep_tsf (f : Z) (c : rcfg) (m : mstate) (e : event) : mstate :=
    if ev_it m e mod f =? 0
    then let '(s1, o) := rstep_tsf f c (ev_s0 O c m e) (ev_it m e) (ev_it m e - ev_itr m e) (ev_cont e) (ev_xs e) in
         mkM (ev_it m e) (ev_itr m e) false s1 (m_outs m ++ [(ev_it m e, s1, o)])
    else mkM (ev_it m e) (ev_itr m e) false (ev_s0 O c m e) (m_outs m).
  Definition run_tsf (f : Z) (c : rcfg) (evs : list event) : mstate := fold_left (mstep_tsf f c) evs (init_m O c).

  Lemma rstep_tsf_centers f c s t rel cont xs :
    s_centers (fst (rstep_tsf f c s t rel cont xs)) = s_centers (centers_update_tsf f c s t rel cont) /\
    s_first (fst (rstep_tsf f c s t rel cont xs)) = s_first (centers_update_tsf f c s t rel cont).
  Proof.
    unfold rstep_tsf.
    pose proof (k_update_tsf_centers f c (centers_update_tsf f c s t rel cont) t rel cont xs) as Hc.
    pose proof (k_update_tsf_first f c (centers_update_tsf f c s t rel cont) t rel cont xs) as Hf.
    destruct (k_update_tsf f c (centers_update_tsf f c s t rel cont) t rel cont xs) as [s2 line]; cbn [fst] in *.
    destruct (work_k_fields O c (work_centers O c s2 t rel (map (@frc3 T) (terms O c s2 xs))) rel xs) as [A1 [_ [A3 _]]].
    destruct (work_centers_fields O c s2 t rel (map (@frc3 T) (terms O c s2 xs))) as [B1 [_ [B3 _]]].
    rewrite A1, A3, B1, B3. split; assumption.
  Qed.

  Lemma centers_update_tsf_first f c s t rel cont : s_first (centers_update_tsf f c s t rel cont) = s_first s.
  Proof. unfold centers_update_tsf. split_ifs; reflexivity. Qed.

  (* the last updated step *)
  Definition last_update (f : Z) (t : Z) : Z := f * (t / f).

  Definition inv_tsf (f : Z) (c : rcfg) (m : mstate) : Prop :=
    s_first (m_st m) = c_it0 c /\ c_it0 c <= m_it m /\
    (m_fresh m = true -> m = init_m O c) /\
    (m_fresh m = false ->
       (c_it0 c <= last_update f (m_it m) -> s_centers (m_st m) = closed_centers O c (last_update f (m_it m))) /\
       (last_update f (m_it m) < c_it0 c -> s_centers (m_st m) = c_centers0 c)).

  Lemma div_same a f : 0 < f -> 0 < a -> a mod f <> 0 -> a / f = (a - 1) / f.
  Proof.
    intros Hf Ha Hm. destruct (div_succ (a - 1) f ltac:(lia) Hf) as [_ D]. replace (a - 1 + 1) with a in D by lia. apply D. exact Hm.
  Qed.

  Lemma inv_tsf_step f c m e :
    0 < f -> c_chg_centers c = true -> c_nstages c = 0 -> 0 <= c_nsteps c -> 0 <= c_it0 c ->
    inv_tsf f c m -> inv_tsf f c (mstep_tsf f c m e).
  Proof.
    intros Hf Hc Hn HN H0 [If [Ile [Ifr Icen]]].
    assert (Hmov : c_chg_centers c || c_chg_k c = true) by (rewrite Hc; reflexivity).
    assert (Hit' : ev_it m e = m_it m \/ (ev_it m e = m_it m + 1 /\ m_fresh m = false)).
    { unfold ev_it. destruct e; auto. destruct (m_fresh m); auto. }
    set (t := ev_it m e) in *.
    assert (Hs0c : s_centers (ev_s0 O c m e) = s_centers (m_st m)) by (apply ev_s0_centers; exact Hc).
    assert (Hs0f : s_first (ev_s0 O c m e) = c_it0 c) by (rewrite ev_s0_first; assumption).
    assert (Ht0 : c_it0 c <= t) by lia.
    unfold mstep_tsf. fold t.
    destruct (t mod f =? 0) eqn:Em.
    - (* awake *)
      apply Z.eqb_eq in Em.
      assert (Hlu : last_update f t = t).
      { unfold last_update. pose proof (Z.div_mod t f ltac:(lia)). lia. }
      destruct (rstep_tsf_centers f c (ev_s0 O c m e) t (t - ev_itr m e) (ev_cont e) (ev_xs e)) as [Rc Rf].
      destruct (rstep_tsf f c (ev_s0 O c m e) t (t - ev_itr m e) (ev_cont e) (ev_xs e)) as [s1 o]; cbn [fst] in Rc, Rf.
      unfold inv_tsf. cbn [m_st m_it m_fresh]. rewrite Rf, centers_update_tsf_first, Hs0f, Rc, Hlu.
      split; [reflexivity|]. split; [exact Ht0|]. split; [discriminate|]. intros _.
      split; [intros _ | intros Hlt; lia].
      unfold centers_update_tsf. rewrite Hc, Hn. cbn [Z.eqb negb]. rewrite Hs0f.
      destruct (t - c_it0 c <? c_nsteps c + f) eqn:Ele.
      + assert (Hcc : s_centers (update_centers O c (ev_s0 O c m e) (ratio O (Z.min (t - c_it0 c) (c_nsteps c)) (c_nsteps c))) = closed_centers O c t).
        { unfold update_centers, closed_centers, sched_lambda. cbn [s_centers]. reflexivity. }
        destruct (_ =? 0); [cbn [set_incr s_centers]|]; exact Hcc.
      + apply Z.ltb_ge in Ele.
        assert (Hnf : m_fresh m = false).
        { destruct (m_fresh m) eqn:F; auto. exfalso. rewrite (Ifr eq_refl) in Hit'. cbn [init_m m_it m_fresh] in Hit'.
          destruct Hit' as [H | [_ H]]; [lia | discriminate]. }
        destruct (Icen Hnf) as [J1 _].
        (* the previous update was at t - f (or at t itself), already beyond the end of the schedule *)
        assert (Hprev : c_it0 c <= last_update f (m_it m) /\ c_nsteps c <= last_update f (m_it m) - c_it0 c).
        { destruct Hit' as [E | [E _]].
          - rewrite <- E. fold t. rewrite Hlu. lia.
          - unfold last_update. assert (Hq : (m_it m) / f = t / f - 1).
            { pose proof (Z.div_mod t f ltac:(lia)) as D1. rewrite Em in D1.
              assert (m_it m = f * (t / f - 1) + (f - 1)) by lia.
              symmetry. apply (Z.div_unique_pos (m_it m) f (t / f - 1) (f - 1)); lia. }
            rewrite Hq. pose proof (Z.div_mod t f ltac:(lia)) as D1. rewrite Em in D1. nia. }
        destruct Hprev as [P1 P2].
        assert (Hsame : forall s', s_centers (if t - ev_itr m e =? 0 then set_incr (set_incr (ev_s0 O c m e) s') (zeros O (s_incr (set_incr (ev_s0 O c m e) s'))) else set_incr (ev_s0 O c m e) s') = s_centers (m_st m)).
        { intros s'. destruct (_ =? 0); cbn [set_incr s_centers]; exact Hs0c. }
        rewrite Hsame, (J1 P1). unfold closed_centers, sched_lambda.
        rewrite (Z.min_r (last_update f (m_it m) - c_it0 c)) by lia. rewrite (Z.min_r (t - c_it0 c)) by lia. reflexivity.
    - (* asleep *)
      apply Z.eqb_neq in Em. unfold inv_tsf. cbn [m_st m_it m_fresh].
      split; [exact Hs0f|]. split; [exact Ht0|]. split; [discriminate|]. intros _.
      rewrite Hs0c.
      destruct (m_fresh m) eqn:F.
      + rewrite (Ifr eq_refl) in *. cbn [init_m m_it m_st init_state s_centers m_fresh] in *.
        assert (Ht : t = c_it0 c) by (destruct Hit' as [H | [_ H]]; [exact H | discriminate]).
        assert (Hlt : last_update f t < c_it0 c).
        { unfold last_update. rewrite Ht. pose proof (Z.div_mod (c_it0 c) f ltac:(lia)). pose proof (Z.mod_pos_bound (c_it0 c) f Hf). rewrite Ht in Em. lia. }
        split; [intros H; lia | intros _; reflexivity].
      + assert (Hlu : last_update f t = last_update f (m_it m)).
        { destruct Hit' as [E | [E _]]; [rewrite E; reflexivity|]. unfold last_update. rewrite E in *. f_equal.
          replace (m_it m) with (m_it m + 1 - 1) at 2 by lia. apply div_same; lia. }
        rewrite Hlu. exact (Icen eq_refl).
  Qed.

  Lemma center_schedule_tsf f c evs :
    0 < f -> c_chg_centers c = true -> c_nstages c = 0 -> 0 <= c_nsteps c -> 0 <= c_it0 c -> evs <> [] ->
    let m := run_tsf f c evs in
    (c_it0 c <= last_update f (m_it m) -> s_centers (m_st m) = closed_centers O c (last_update f (m_it m))) /\
    (last_update f (m_it m) < c_it0 c -> s_centers (m_st m) = c_centers0 c).
  Proof.
    intros Hf Hc Hn HN H0 Hne m.
    assert (H : inv_tsf f c m).
    { unfold m, run_tsf. clear Hne m. induction evs as [|e evs IH] using rev_ind.
      - unfold inv_tsf, init_m, init_state; cbn. repeat split; try lia; try discriminate.
      - rewrite fold_left_app. cbn [fold_left]. apply inv_tsf_step; assumption. }
    destruct H as [_ [_ [_ Hcen]]]. apply Hcen.
    unfold m, run_tsf. destruct (exists_last Hne) as [l [e ->]]. rewrite fold_left_app. cbn [fold_left].
    unfold mstep_tsf. destruct (_ =? 0); [destruct (rstep_tsf _ _ _ _ _ _ _)|]; reflexivity.
  Qed.
End TSF.
