(* Harmonic restraint on manifold-valued variables (R instance): the energy 0.5 k / w^2 * dist2 with the squared
   distances of coq/C18/ValueModel.v is k/(2 w^2) times the squared GEODESIC distance: the angle between two unit
   vectors, half the rotation angle between two orientations (q and -q being the same one), the Euclidean distance
   of 3-vectors. *)
From Coq Require Import ZArith List Bool Reals Lra Lia Psatz.
From CV Require Import Base.Num Base.RNum C06.RestraintModel C18.ValueModel C18.ValueProofs C18.ExtraProofs C06.RestraintGen.
Local Open Scope R_scope.

Lemma harm_d2_closed k w d2 : w <> 0 -> harm_potential_d2 Rops k w d2 = k / (2 * w ^ 2) * d2.
Proof. intros Hw. unfold harm_potential_d2, half, nhalf. cbn [nmul ndiv n1 nofZ Rops]. field. exact Hw. Qed.

Lemma harm_unit_vector k w (a b : vec3) : w <> 0 -> is_unit a -> is_unit b ->
  exists th, 0 <= th <= PI /\ cos th = v3dot Rops a b /\
    harm_potential_d2 Rops k w (uv_dist2 Rops a b) = k / (2 * w ^ 2) * th ^ 2.
Proof.
  intros Hw Ha Hb. pose proof (unit_dot_bound a b Ha Hb) as Hd.
  exists (acos (v3dot Rops a b)). split; [apply acos_bound|]. split; [apply cos_acos; lra|].
  rewrite harm_d2_closed by exact Hw. unfold uv_dist2. rewrite clamp1_id by exact Hd.
  cbn [nacos nmul Rops]. ring.
Qed.

Lemma harm_quaternion k w (a b : quat) : w <> 0 -> q_unit a -> q_unit b ->
  exists om, 0 <= om <= PI / 2 /\ cos om = Rabs (qdot Rops a b) /\
    harm_potential_d2 Rops k w (q_dist2 Rops PI a b) = k / (2 * w ^ 2) * om ^ 2.
Proof.
  intros Hw Ha Hb. pose proof (q_dot_bound a b Ha Hb) as Hd.
  rewrite harm_d2_closed by exact Hw. rewrite q_dist2_qd2. unfold qd2. rewrite clamp1_id by exact Hd.
  set (c := qdot Rops a b) in *.
  pose proof (acos_bound c) as Hb1. pose proof (cos_acos c Hd) as Hc. pose proof PI_RGT_0 as HPI.
  destruct (Rltb 0 c) eqn:E.
  - apply Rltb_true in E. exists (acos c). split; [|split].
    + split; [lra|]. destruct (Rle_dec (acos c) (PI / 2)) as [H|H]; [exact H|]. exfalso.
      assert (cos (acos c) < 0) by (apply cos_lt_0; lra). lra.
    + rewrite Hc, Rabs_right by lra. reflexivity.
    + ring.
  - apply Rltb_false in E. exists (PI - acos c). split; [|split].
    + split; [lra|]. destruct (Rle_dec (PI / 2) (acos c)) as [H|H]; [lra|]. exfalso.
      assert (0 < cos (acos c)) by (apply cos_gt_0; lra). lra.
    + rewrite cos_minus, cos_PI, sin_PI, Hc, Rabs_left1 by lra. ring.
    + ring.
Qed.

Lemma harm_vector3 k w (a b : vec3) : w <> 0 ->
  harm_potential_d2 Rops k w (v3_dist2 Rops a b) =
  let '(ax, ay, az) := a in let '(bx, by_, bz) := b in
  k / (2 * w ^ 2) * ((ax - bx) ^ 2 + (ay - by_) ^ 2 + (az - bz) ^ 2).
Proof.
  intros Hw. rewrite harm_d2_closed by exact Hw. destruct a as [[ax ay] az]. destruct b as [[bx by_] bz].
  unfold v3_dist2, v3norm2, v3dot, v3sub. cbn. ring.
Qed.

Lemma scheduled_center_on_manifold (a b : vec3) (q1 q2 : quat) (l : R) :
  (uv_interp_undefined Rops a b l = false -> cv_interp Rops KUnit (V3 a) (V3 b) l = V3 (uv_interp Rops a b l) /\ is_unit (uv_interp Rops a b l)) /\
  (q_interp_undefined Rops PI q1 q2 l = false -> cv_interp Rops KQuat (VQ q1) (VQ q2) l = VQ (q_interp Rops q1 q2 l) /\ q_unit (q_interp Rops q1 q2 l)).
Proof.
  split; intros H; (split; [reflexivity|]).
  - apply uv_interp_defined_unit; exact H.
  - apply q_interp_defined_unit; exact H.
Qed.
