(* Harmonic restraint on manifold-valued variables (R instance): the energy 0.5 k / w^2 * dist2 with the squared
   distances of coq/C18/ValueModel.v is k/(2 w^2) times the squared GEODESIC distance: the angle between two unit
   vectors, half the rotation angle between two orientations (q and -q being the same one), the Euclidean distance
   of 3-vectors. *)
From Coq Require Import ZArith List Bool Reals Lra Lia Psatz.
From CV Require Import Base.Num Base.RNum C06.RestraintModel C18.ValueModel C18.ValueProofs C18.ExtraProofs C06.RestraintGen.
Local Open Scope R_scope.

Lemma harm_d2_closed k w d2 : w <> 0 -> harm_potential_d2 Rops k w d2 = k / (2 * w ^ 2) * d2.
Proof. intros Hw. unfold harm_potential_d2, half, nhalf. cbn [nmul ndiv n1 nofZ Rops]. field. exact Hw. Qed.

Lemma harm_unit_vector k w (a b : vec3) : w <> 0 -> is_unit a -> is_unit b ->
  exists th, 0 <= th <= PI /\ cos th = v3dot Rops a b /\
    harm_potential_d2 Rops k w (uv_dist2 Rops a b) = k / (2 * w ^ 2) * th ^ 2.
Proof.
  intros Hw Ha Hb. pose proof (unit_dot_bound a b Ha Hb) as Hd.
  exists (acos (v3dot Rops a b)). split; [apply acos_bound|]. split; [apply cos_acos; lra|].
  rewrite harm_d2_closed by exact Hw. unfold uv_dist2. rewrite clamp1_id by exact Hd.
  cbn [nacos nmul Rops]. ring.
Qed.

Lemma harm_quaternion k w (a b : quat) : w <> 0 -> q_unit a -> q_unit b ->
  exists om, 0 <= om <= PI / 2 /\ cos om = Rabs (qdot Rops a b) /\
    harm_potential_d2 Rops k w (q_dist2 Rops PI a b) = k / (2 * w ^ 2) * om ^ 2.
Proof.
  intros Hw Ha Hb. pose proof (q_dot_bound a b Ha Hb) as Hd.
  rewrite harm_d2_closed by exact Hw. rewrite q_dist2_qd2. unfold qd2. rewrite clamp1_id by exact Hd.
  set (c := qdot Rops a b) in *.
  pose proof (acos_bound c) as Hb1. pose proof (cos_acos c Hd) as Hc. pose proof PI_RGT_0 as HPI.
  destruct (Rltb 0 c) eqn:E.
  - apply Rltb_true in E. exists (acos c). split; [|split].
    + split; [lra|]. destruct (Rle_dec (acos c) (PI / 2)) as [H|H]; [exact H|]. exfalso.
      assert (cos (acos c) < 0) by (apply cos_lt_0; lra). lra.
    + rewrite Hc, Rabs_right by lra. reflexivity.
    + ring.
  - apply Rltb_false in E. exists (PI - acos c). split; [|split].
    + split; [lra|]. destruct (Rle_dec (PI / 2) (acos c)) as [H|H]; [lra|]. exfalso.
      assert (0 < cos (acos c)) by (apply cos_gt_0; lra). lra.
    + rewrite cos_minus, cos_PI, sin_PI, Hc, Rabs_left1 by lra. ring.
    + ring.
Qed.

Lemma harm_vector3 k w (a b : vec3) : w <> 0 ->
  harm_potential_d2 Rops k w (v3_dist2 Rops a b) =
  let '(ax, ay, az) := a in let '(bx, by_, bz) := b in
  k / (2 * w ^ 2) * ((ax - bx) ^ 2 + (ay - by_) ^ 2 + (az - bz) ^ 2).
Proof.
  intros Hw. rewrite harm_d2_closed by exact Hw. destruct a as [[ax ay] az]. destruct b as [[bx by_] bz].
  unfold v3_dist2, v3norm2, v3dot, v3sub. cbn. ring.
Qed.

Lemma scheduled_center_on_manifold (a b : vec3) (q1 q2 : quat) (l : R) :
  (uv_interp_undefined Rops a b l = false -> cv_interp Rops KUnit (V3 a) (V3 b) l = V3 (uv_interp Rops a b l) /\ is_unit (uv_interp Rops a b l)) /\
  (q_interp_undefined Rops PI q1 q2 l = false -> cv_interp Rops KQuat (VQ q1) (VQ q2) l = VQ (q_interp Rops q1 q2 l) /\ q_unit (q_interp Rops q1 q2 l)).
Proof.
  split; intros H; (split; [reflexivity|]).
  - apply uv_interp_defined_unit; exact H.
  - apply q_interp_defined_unit; exact H.
Qed.

(* ---- reduction of a restraint with a FIXED centre on a manifold-valued variable to the scalar model: its energy and
   dU/dk are those of the scalar harmonic restraint (centre 0, same width, not periodic) on the geodesic distance, so the
   force-constant schedules, the accumulated work of a changing k and the staged TI theorems of the scalar model apply to
   the history of geodesic distances ---- *)
Lemma manifold_reduction (k w th : R) : w <> 0 ->
  let v := mkVar w false 0 0 in
  harm_potential Rops k v th 0 = harm_potential_d2 Rops k w (th * th) /\
  harm_dUdk Rops v th 0 = harm_potential_d2 Rops 1 w (th * th) /\
  harm_potential Rops k v th 0 = k / (2 * w ^ 2) * th ^ 2.
Proof.
  intros Hw v. unfold harm_potential, harm_dUdk, harm_potential_d2, dist2, RestraintModel.pdiff, wsq, v, half, nhalf.
  cbn. repeat split; field; exact Hw.
Qed.

Lemma manifold_reduction_unit (k w : R) (a b : vec3) : w <> 0 -> is_unit a -> is_unit b ->
  exists th, 0 <= th <= PI /\ cos th = v3dot Rops a b /\
    harm_potential_d2 Rops k w (uv_dist2 Rops a b) = harm_potential Rops k (mkVar w false 0 0) th 0 /\
    harm_potential_d2 Rops 1 w (uv_dist2 Rops a b) = harm_dUdk Rops (mkVar w false 0 0) th 0.
Proof.
  intros Hw Ha Hb. pose proof (unit_dot_bound a b Ha Hb) as Hd.
  exists (acos (v3dot Rops a b)). split; [apply acos_bound|]. split; [apply cos_acos; lra|].
  destruct (manifold_reduction k w (acos (v3dot Rops a b)) Hw) as [E1 [E2 _]]. cbv zeta in E1, E2.
  rewrite E1, E2. unfold uv_dist2. rewrite clamp1_id by exact Hd. cbn [nacos nmul Rops]. split; reflexivity.
Qed.

Lemma manifold_reduction_quat (k w : R) (a b : quat) : w <> 0 -> q_unit a -> q_unit b ->
  exists om, 0 <= om <= PI / 2 /\ cos om = Rabs (qdot Rops a b) /\
    harm_potential_d2 Rops k w (q_dist2 Rops PI a b) = harm_potential Rops k (mkVar w false 0 0) om 0 /\
    harm_potential_d2 Rops 1 w (q_dist2 Rops PI a b) = harm_dUdk Rops (mkVar w false 0 0) om 0.
Proof.
  intros Hw Ha Hb.
  destruct (harm_quaternion k w a b Hw Ha Hb) as [om [H1 [H2 H3]]].
  destruct (harm_quaternion 1 w a b Hw Ha Hb) as [om' [H1' [H2' H3']]].
  exists om. split; [exact H1|]. split; [exact H2|].
  destruct (manifold_reduction k w om Hw) as [_ [E2 E3]]. cbv zeta in E2, E3.
  split; [rewrite H3, E3; reflexivity|].
  (* om and om' are the same angle: both in [0, pi/2] with the same cosine *)
  assert (Hom : om' = om).
  { assert (Hc : cos om' = cos om) by (rewrite H2, H2'; reflexivity).
    destruct (Rtotal_order om om') as [Hlt | [He | Hgt]]; [|symmetry; exact He|]; exfalso; pose proof PI_RGT_0.
    - assert (cos om' < cos om) by (apply cos_decreasing_1; lra). lra.
    - assert (cos om < cos om') by (apply cos_decreasing_1; lra). lra. }
  rewrite H3', Hom. destruct (manifold_reduction 1 w om Hw) as [_ [_ E3']]. cbv zeta in E3'.
  rewrite E2. unfold harm_potential_d2, half, nhalf. cbn [nmul ndiv n1 nofZ Rops]. field. exact Hw.
Qed.
