(* Moving centres of ANY value type are a function of the step number alone, for every run segmentation
   (every numeric carrier): the generic machine of RestraintGen.v. *)
From Coq Require Import ZArith List Bool Lia.
From CV Require Import Base.Num C06.RestraintModel C06.RestraintSched C18.ValueModel C06.RestraintGen.
Import ListNotations.
Local Open Scope Z_scope.

Section GenProofs.
  Context {T : Type} (O : NumOps T) (pi : T).
  Local Notation cval := (@cval T).
  Notation gcfg := (@gcfg T). Notation gstate := (@gstate T). Notation gm := (@gm T). Notation gevent := (@gevent T).

  Lemma grun_snoc (c : gcfg) evs e : grun O pi c (evs ++ [e]) = gmstep O pi c (grun O pi c evs) e.
  Proof. unfold grun. rewrite fold_left_app. reflexivity. Qed.

  Definition gev_it (m : gm) (e : gevent) : Z :=
    match e with GStep _ => if gm_fresh m then gm_it m else gm_it m + 1 | _ => gm_it m end.
  Definition gev_itr (m : gm) (e : gevent) : Z := match e with GRestart _ => gev_it m e | _ => gm_itr m end.
  Definition gev_s0 (c : gcfg) (m : gm) (e : gevent) : gstate :=
    match e with GRestart _ => grestore O c (gm_st m) | _ => gm_st m end.
  Definition gev_cont (e : gevent) : bool := match e with GBoundary _ => true | _ => false end.
  Definition gis_new (m : gm) (e : gevent) : bool := match e with GStep _ => negb (gm_fresh m) | _ => false end.

  Lemma gwork_fields c s t rel f :
    gs_centers (gwork O c s t rel f) = gs_centers s /\ gs_stage (gwork O c s t rel f) = gs_stage s /\
    gs_first (gwork O c s t rel f) = gs_first s.
  Proof. unfold gwork. destruct (_ && _); repeat split; reflexivity. Qed.

  Lemma gmstep_unfold c m e :
    gm_it (gmstep O pi c m e) = gev_it m e /\ gm_itr (gmstep O pi c m e) = gev_itr m e /\
    gm_fresh (gmstep O pi c m e) = false /\
    gs_centers (gm_st (gmstep O pi c m e)) = gs_centers (gcenters_update O pi c (gev_s0 c m e) (gev_it m e) (gev_it m e - gev_itr m e) (gev_cont e)) /\
    gs_stage (gm_st (gmstep O pi c m e)) = gs_stage (gcenters_update O pi c (gev_s0 c m e) (gev_it m e) (gev_it m e - gev_itr m e) (gev_cont e)) /\
    gs_first (gm_st (gmstep O pi c m e)) = gs_first (gcenters_update O pi c (gev_s0 c m e) (gev_it m e) (gev_it m e - gev_itr m e) (gev_cont e)).
  Proof.
    unfold gmstep, gstep, gev_it, gev_itr, gev_s0, gev_cont.
    destruct e; cbn [gm_it gm_itr gm_fresh gm_st];
      match goal with |- context [gwork O c ?s ?t ?r ?f] => destruct (gwork_fields c s t r f) as [A [B C]]; rewrite A, B, C end;
      repeat split; reflexivity.
  Qed.

  Definition ginv_p (c : gcfg) (m : gm) : Prop :=
    gm_itr m <= gm_it m /\ g_it0 c <= gm_it m /\ (gm_fresh m = true -> m = ginit_m O c).

  Lemma ginv_p_run c evs : ginv_p c (grun O pi c evs).
  Proof.
    induction evs as [|e evs IH] using rev_ind.
    - unfold ginv_p, grun, ginit_m; cbn. repeat split; lia || auto.
    - rewrite grun_snoc. destruct IH as [H1 [H2 H3]].
      destruct (gmstep_unfold c (grun O pi c evs) e) as [A [B [C _]]]. unfold ginv_p. rewrite A, B, C.
      repeat split; try discriminate; destruct e; cbn [gev_it gev_itr]; destruct (gm_fresh _); lia.
  Qed.

  Lemma gev_new c m e : ginv_p c m -> gis_new m e = true ->
    gev_it m e = gm_it m + 1 /\ first_time (gev_it m e - gev_itr m e) (gev_cont e) = true /\
    gev_s0 c m e = gm_st m /\ gm_fresh m = false.
  Proof.
    intros [H1 _] Hn. destruct e as [xs|xs|xs]; cbn [gis_new] in Hn; try discriminate.
    apply negb_true_iff in Hn. unfold gev_it, gev_itr, gev_cont, gev_s0, first_time. rewrite Hn.
    assert (E : 0 <? gm_it m + 1 - gm_itr m = true) by (apply Z.ltb_lt; lia).
    rewrite E. repeat split; reflexivity.
  Qed.

  Lemma gev_again c m e : ginv_p c m -> gis_new m e = false ->
    gev_it m e = gm_it m /\ first_time (gev_it m e - gev_itr m e) (gev_cont e) = false.
  Proof.
    intros [H1 [_ H3]] Hn. unfold first_time.
    destruct e as [xs|xs|xs]; cbn [gis_new gev_it gev_itr gev_cont] in *.
    - apply negb_false_iff in Hn. rewrite Hn. specialize (H3 Hn). rewrite H3. cbn [ginit_m gm_it gm_itr].
      rewrite Z.sub_diag. split; reflexivity.
    - rewrite andb_false_r. split; reflexivity.
    - rewrite Z.sub_diag. split; reflexivity.
  Qed.

  (* what a restart keeps *)
  Lemma gev_s0_keep c m e : g_chg c = true ->
    gs_first (gev_s0 c m e) = gs_first (gm_st m) /\ gs_centers (gev_s0 c m e) = gs_centers (gm_st m) /\
    (negb (g_nstages c =? 0) = true -> gs_stage (gev_s0 c m e) = gs_stage (gm_st m)).
  Proof.
    intros H. destruct e; cbn [gev_s0]; repeat split; auto; unfold grestore; rewrite H; cbn [andb gs_first gs_centers gs_stage];
      try reflexivity. intros ->. reflexivity.
  Qed.

  (* what the update does to centres, stage and first_step *)
  Lemma gcenters_update_spec c s t rel cont : g_chg c = true ->
    let s' := gcenters_update O pi c s t rel cont in
    gs_first s' = gs_first s /\
    (g_nstages c = 0 ->
       gs_centers s' = (if t - gs_first s <=? g_nsteps c then gplace O c (ratio O (t - gs_first s) (g_nsteps c)) else gs_centers s)) /\
    (negb (g_nstages c =? 0) = true ->
       let mv := (gs_stage s <=? g_nstages c) && first_time rel cont && (gs_first s <? t) && (Z.rem (t - gs_first s - 1) (g_nsteps c) =? 0) in
       gs_stage s' = (if mv then gs_stage s + 1 else gs_stage s) /\
       gs_centers s' = (if mv then gplace O c (ratio O (gs_stage s) (g_nstages c)) else gs_centers s)).
  Proof.
    intros Hc. unfold gcenters_update. rewrite Hc. split; [|split].
    - destruct (negb (g_nstages c =? 0)); [destruct (gs_stage s <=? g_nstages c); [destruct (_ && _ && _)|]
                                          | destruct (t - gs_first s <=? g_nsteps c)];
        destruct (rel =? 0); reflexivity.
    - intros Hn. rewrite Hn. cbn [Z.eqb negb].
      destruct (t - gs_first s <=? g_nsteps c); destruct (rel =? 0); reflexivity.
    - intros Hne. rewrite Hne.
      destruct (gs_stage s <=? g_nstages c); cbn [andb].
      + destruct (first_time rel cont && (gs_first s <? t) && (Z.rem (t - gs_first s - 1) (g_nsteps c) =? 0));
          destruct (rel =? 0); split; reflexivity.
      + destruct (rel =? 0); split; reflexivity.
  Qed.

  (* ---------------------------------------------------------------- closed forms *)
  Definition gsched_lambda (c : gcfg) (t : Z) : T := ratio O (Z.min (t - g_it0 c) (g_nsteps c)) (g_nsteps c).
  Definition gclosed_centers (c : gcfg) (t : Z) : list cval := gplace O c (gsched_lambda c t).
  Definition gnmoves (c : gcfg) (t : Z) : Z :=
    if t - g_it0 c <=? 0 then 0 else Z.min (g_nstages c + 1) ((t - g_it0 c - 1) / g_nsteps c + 1).
  Definition gclosed_centers_staged (c : gcfg) (t : Z) : list cval :=
    if gnmoves c t =? 0 then g_c0 c else gplace O c (ratio O (gnmoves c t - 1) (g_nstages c)).

  (* ---------------------------------------------------------------- continuous *)
  Definition ginv_cc (c : gcfg) (m : gm) : Prop :=
    gs_first (gm_st m) = g_it0 c /\ (gm_fresh m = false -> gs_centers (gm_st m) = gclosed_centers c (gm_it m)).

  Lemma gcenter_schedule_continuous c evs :
    g_chg c = true -> g_nstages c = 0 -> 0 <= g_nsteps c -> evs <> [] ->
    gs_centers (gm_st (grun O pi c evs)) = gclosed_centers c (gm_it (grun O pi c evs)) /\
    gs_first (gm_st (grun O pi c evs)) = g_it0 c.
  Proof.
    intros Hc Hn HN Hne.
    assert (H : ginv_cc c (grun O pi c evs) /\ gm_fresh (grun O pi c evs) = false).
    { assert (G : forall evs, ginv_cc c (grun O pi c evs)).
      { intros l. induction l as [|e l IH] using rev_ind.
        - unfold ginv_cc, grun, ginit_m; cbn. split; [reflexivity | discriminate].
        - rewrite grun_snoc. set (m := grun O pi c l) in *. destruct IH as [Hf Hcen].
          pose proof (ginv_p_run c l) as Hp. fold m in Hp.
          destruct (gmstep_unfold c m e) as [A [_ [_ [Cc [_ Cf]]]]].
          destruct (gev_s0_keep c m e Hc) as [K1 [K2 _]].
          destruct (gcenters_update_spec c (gev_s0 c m e) (gev_it m e) (gev_it m e - gev_itr m e) (gev_cont e) Hc) as [S1 [S2 _]].
          specialize (S2 Hn). unfold ginv_cc. rewrite A, Cc, Cf, S1, S2, K1, K2, Hf. split; [reflexivity|]. intros _.
          set (t := gev_it m e).
          destruct (t - g_it0 c <=? g_nsteps c) eqn:E.
          + apply Z.leb_le in E. unfold gclosed_centers, gsched_lambda. rewrite Z.min_l by lia. reflexivity.
          + apply Z.leb_gt in E.
            assert (Hit' : t = gm_it m \/ (t = gm_it m + 1 /\ gm_fresh m = false)).
            { unfold t, gev_it. destruct e; auto. destruct (gm_fresh m); auto. }
            destruct Hp as [_ [Hle Hin]].
            assert (Hnf : gm_fresh m = false).
            { destruct (gm_fresh m) eqn:F; auto. exfalso. rewrite (Hin eq_refl) in *. cbn [ginit_m gm_it gm_fresh] in *.
              destruct Hit' as [H|[_ H]]; [lia | discriminate]. }
            rewrite (Hcen Hnf). unfold gclosed_centers, gsched_lambda.
            assert (H1 : g_nsteps c <= gm_it m - g_it0 c) by (destruct Hit' as [H|[H _]]; lia).
            assert (H2 : g_nsteps c <= t - g_it0 c) by lia.
            rewrite (Z.min_r _ _ H1), (Z.min_r _ _ H2). reflexivity. }
      split; [apply G|].
      destruct evs as [|e0 r]; [exfalso; apply Hne; reflexivity|].
      destruct (@exists_last _ (e0 :: r)) as [l [e ->]]; [discriminate|]. rewrite grun_snoc.
      destruct (gmstep_unfold c (grun O pi c l) e) as [_ [_ [F _]]]. exact F. }
    destruct H as [[Hf Hcen] Hnf]. split; [apply Hcen; exact Hnf | exact Hf].
  Qed.

  (* ---------------------------------------------------------------- staged, every N >= 1 *)
  Definition ginv_cs (c : gcfg) (m : gm) : Prop :=
    gs_first (gm_st m) = g_it0 c /\
    (gm_fresh m = false -> gs_stage (gm_st m) = gnmoves c (gm_it m) /\ gs_centers (gm_st m) = gclosed_centers_staged c (gm_it m)).

  Lemma ginv_cs_all c evs : g_chg c = true -> 0 < g_nstages c -> 0 < g_nsteps c -> ginv_cs c (grun O pi c evs).
  Proof.
    intros Hc Hn HN.
    assert (Hne : negb (g_nstages c =? 0) = true) by (apply negb_true_iff, Z.eqb_neq; lia).
    induction evs as [|e evs IH] using rev_ind.
    - unfold ginv_cs, grun, ginit_m; cbn. split; [reflexivity | discriminate].
    - rewrite grun_snoc. set (m := grun O pi c evs) in *. destruct IH as [Hf Hk].
      pose proof (ginv_p_run c evs) as Hp. fold m in Hp.
      destruct (gmstep_unfold c m e) as [A [_ [_ [Cc [Cs Cf]]]]].
      destruct (gev_s0_keep c m e Hc) as [K1 [K2 K3]]. specialize (K3 Hne).
      destruct (gcenters_update_spec c (gev_s0 c m e) (gev_it m e) (gev_it m e - gev_itr m e) (gev_cont e) Hc) as [S1 [_ S3]].
      destruct (S3 Hne) as [S4 S5]. clear S3.
      unfold ginv_cs. rewrite A, Cc, Cs, Cf, S1, S4, S5, K1, K2, K3, Hf. split; [reflexivity|]. intros _.
      set (t := gev_it m e).
      destruct (gis_new m e) eqn:Enew.
      + destruct (gev_new c m e Hp Enew) as [Ht [Hft [_ Hnf]]]. fold t in Ht, Hft. rewrite Hft.
        destruct (Hk Hnf) as [Hs Hcen]. destruct Hp as [_ [Hle _]].
        set (a := gm_it m - g_it0 c). assert (Ha : 0 <= a) by (unfold a; lia).
        assert (Hta : t - g_it0 c - 1 = a) by (unfold a; lia).
        assert (Hlt : (g_it0 c <? t) = true) by (apply Z.ltb_lt; lia).
        rewrite Hlt, Hta, Z.rem_mod_nonneg by lia. cbn [andb]. rewrite andb_true_r.
        assert (Hnm : gnmoves c t = Z.min (g_nstages c + 1) (a / g_nsteps c + 1)).
        { unfold gnmoves. destruct (t - g_it0 c <=? 0) eqn:E; [apply Z.leb_le in E; lia|]. rewrite Hta. reflexivity. }
        assert (Hz : 0 <= a / g_nsteps c) by (apply Z.div_pos; lia).
        assert (Hprev : gs_stage (gm_st m) = if a <=? 0 then 0 else Z.min (g_nstages c + 1) ((a - 1) / g_nsteps c + 1)).
        { rewrite Hs. unfold gnmoves. fold a. reflexivity. }
        unfold gclosed_centers_staged. rewrite Hnm.
        destruct (a mod g_nsteps c =? 0) eqn:Em.
        * apply Z.eqb_eq in Em.
          assert (Hdiv : a <=? 0 = false -> a / g_nsteps c = (a - 1) / g_nsteps c + 1).
          { intros Hpos. apply Z.leb_gt in Hpos. destruct (div_succ (a - 1) (g_nsteps c) ltac:(lia) HN) as [D1 _].
            replace (a - 1 + 1) with a in D1 by lia. apply D1. exact Em. }
          destruct (gs_stage (gm_st m) <=? g_nstages c) eqn:El; cbn [andb].
          -- apply Z.leb_le in El.
             assert (Hnext : Z.min (g_nstages c + 1) (a / g_nsteps c + 1) = gs_stage (gm_st m) + 1).
             { destruct (a <=? 0) eqn:E0.
               - apply Z.leb_le in E0. assert (a = 0) by lia. rewrite Hprev.
                 replace (a / g_nsteps c) with 0 by (replace a with 0 by lia; symmetry; apply Z.div_0_l; lia). lia.
               - specialize (Hdiv eq_refl). rewrite Hprev in *. lia. }
             rewrite Hnext. split; [reflexivity|].
             destruct (gs_stage (gm_st m) + 1 =? 0) eqn:Ez.
             { apply Z.eqb_eq in Ez. rewrite Hprev in Ez. destruct (a <=? 0); lia. }
             replace (gs_stage (gm_st m) + 1 - 1) with (gs_stage (gm_st m)) by lia. reflexivity.
          -- apply Z.leb_gt in El.
             assert (Hpos : a <=? 0 = false). { destruct (a <=? 0) eqn:E0; [rewrite Hprev in El; lia | reflexivity]. }
             specialize (Hdiv Hpos). rewrite Hpos in Hprev.
             assert (Hsame : Z.min (g_nstages c + 1) (a / g_nsteps c + 1) = gs_stage (gm_st m)) by lia.
             rewrite Hsame. split; [reflexivity|].
             rewrite Hcen. unfold gclosed_centers_staged. rewrite Hs. reflexivity.
        * apply Z.eqb_neq in Em. rewrite andb_false_r.
          assert (Hpos : a <=? 0 = false).
          { destruct (a <=? 0) eqn:E0; [|reflexivity]. apply Z.leb_le in E0. assert (a = 0) by lia.
            exfalso. apply Em. replace a with 0 by lia. apply Z.mod_0_l. lia. }
          rewrite Hpos in Hprev. apply Z.leb_gt in Hpos.
          destruct (div_succ (a - 1) (g_nsteps c) ltac:(lia) HN) as [_ D2].
          replace (a - 1 + 1) with a in D2 by lia. specialize (D2 Em).
          assert (Hsame : Z.min (g_nstages c + 1) (a / g_nsteps c + 1) = gs_stage (gm_st m)) by (rewrite D2, Hprev; reflexivity).
          rewrite Hsame. split; [reflexivity|].
          rewrite Hcen. unfold gclosed_centers_staged. rewrite Hs. reflexivity.
      + destruct (gev_again c m e Hp Enew) as [Ht Hft]. fold t in Ht, Hft. rewrite Hft.
        rewrite andb_false_r. cbn [andb]. rewrite Ht.
        destruct (gm_fresh m) eqn:F.
        * destruct Hp as [_ [_ Hin]]. rewrite (Hin F). cbn [ginit_m gm_it gm_st ginit gs_stage gs_centers].
          unfold gclosed_centers_staged, gnmoves. rewrite Z.sub_diag. cbn. split; reflexivity.
        * exact (Hk eq_refl).
  Qed.

  Lemma gcenter_schedule_staged c evs :
    g_chg c = true -> 0 < g_nstages c -> 0 < g_nsteps c -> evs <> [] ->
    gs_centers (gm_st (grun O pi c evs)) = gclosed_centers_staged c (gm_it (grun O pi c evs)) /\
    gs_stage (gm_st (grun O pi c evs)) = gnmoves c (gm_it (grun O pi c evs)) /\
    gs_first (gm_st (grun O pi c evs)) = g_it0 c.
  Proof.
    intros Hc Hn HN Hne. destruct (ginv_cs_all c evs Hc Hn HN) as [Hf Hk].
    assert (Hnf : gm_fresh (grun O pi c evs) = false).
    { destruct evs as [|e0 r]; [exfalso; apply Hne; reflexivity|].
      destruct (@exists_last _ (e0 :: r)) as [l [e ->]]; [discriminate|]. rewrite grun_snoc.
      destruct (gmstep_unfold c (grun O pi c l) e) as [_ [_ [F _]]]. exact F. }
    destruct (Hk Hnf) as [H1 H2]. auto.
  Qed.
End GenProofs.
