(* Model of the restraint biases of src/colvarbias_restraint.cpp (harmonic, harmonicWalls, linear
   on scalar variables, with the moving-centre / changing-force-constant machinery, accumulated
   work and staged TI) and of src/colvarbias_abmd.cpp, together with the run protocol under which
   an engine drives them (plain step, repeated step at an in-process run boundary, restart from a
   saved state).  Definitions only; generic over the numeric carrier.  The model mirrors the code
   that exists: same state variables, same order of updates, same guards. *)
From Coq Require Import ZArith List Bool.
From CV Require Import Base.Num.
Import ListNotations.
Local Open Scope Z_scope.

Fixpoint map2 {A B C} (f : A -> B -> C) (la : list A) (lb : list B) : list C :=
  match la, lb with
  | a :: ra, b :: rb => f a b :: map2 f ra rb
  | _, _ => []
  end.

Fixpoint map3 {A B C D} (f : A -> B -> C -> D) (la : list A) (lb : list B) (lc : list C) : list D :=
  match la, lb, lc with
  | a :: ra, b :: rb, c :: rc => f a b c :: map3 f ra rb rc
  | _, _, _ => []
  end.

Fixpoint map4 {A B C D E} (f : A -> B -> C -> D -> E) (la : list A) (lb : list B) (lc : list C) (ld : list D) : list E :=
  match la, lb, lc, ld with
  | a :: ra, b :: rb, c :: rc, d :: rd => f a b c d :: map4 f ra rb rc rd
  | _, _, _, _ => []
  end.

Inductive rkind := Harmonic | Walls | Linear.

Section Restraint.
  Context {T : Type} (O : NumOps T).

  Definition two : T := nofZ O 2.
  Definition half : T := nhalf O.          (* the literal 0.5 *)

  (* a scalar variable as the restraint sees it: width, and the periodicity of its component *)
  Record var := mkVar { v_width : T; v_periodic : bool; v_period : T; v_wrap_center : T }.

  (* colvar::cvc::dist2 / dist2_lgrad : diff = x1 - x2; if periodic, diff -= floor(diff/period + 0.5)*period *)
  Definition pshift (P d : T) : Z := nfloor O (nadd O (ndiv O d P) half).
  Definition pdiff_p (P d : T) : T := nsub O d (nmul O (nofZ O (pshift P d)) P).
  Definition pdiff (v : var) (x1 x2 : T) : T :=
    let d := nsub O x1 x2 in if v_periodic v then pdiff_p (v_period v) d else d.
  Definition dist2 (v : var) (x1 x2 : T) : T := let d := pdiff v x1 x2 in nmul O d d.
  Definition dist2_lgrad (v : var) (x1 x2 : T) : T := nmul O two (pdiff v x1 x2).

  (* colvar::cvc::wrap : x -= floor((x - wrap_center)/period + 0.5)*period *)
  Definition wrapv (v : var) (x : T) : T :=
    if v_periodic v
    then nsub O x (nmul O (nofZ O (nfloor O (nadd O (ndiv O (nsub O x (v_wrap_center v)) (v_period v)) half))) (v_period v))
    else x.

  Definition wsq (v : var) : T := nmul O (v_width v) (v_width v).

  (* ---- harmonic: restraint_potential, restraint_force, d_restraint_potential_dk ---- *)
  Definition harm_potential (k : T) (v : var) (x c : T) : T :=
    nmul O (ndiv O (nmul O half k) (wsq v)) (dist2 v x c).
  Definition harm_force (k : T) (v : var) (x c : T) : T :=
    nmul O (ndiv O (nmul O (nneg O half) k) (wsq v)) (dist2_lgrad v x c).
  Definition harm_dUdk (v : var) (x c : T) : T :=
    nmul O (ndiv O half (wsq v)) (dist2 v x c).

  (* harmonic energy from the squared distance of the variable's value type (unit vectors, quaternions, vectors:
     the squared distances are those of coq/C18/ValueModel.v): 0.5 * force_k / (w*w) * dist2 *)
  Definition harm_potential_d2 (k w d2 : T) : T := nmul O (ndiv O (nmul O half k) (nmul O w w)) d2.

  (* ---- linear ---- *)
  Definition lin_potential (k : T) (v : var) (x c : T) : T := nmul O (ndiv O k (v_width v)) (nsub O x c).
  Definition lin_force (k : T) (v : var) : T := nmul O (ndiv O (nmul O (nneg O (n1 O)) k) (v_width v)) (n1 O).
  Definition lin_dUdk (v : var) (x c : T) : T := nmul O (ndiv O (n1 O) (v_width v)) (nsub O x c).

  (* ---- harmonicWalls: colvar_distance (signed distance beyond the applicable wall, else 0) ---- *)
  Definition walls_dist (has_lower has_upper : bool) (v : var) (x lw uw : T) : T :=
    if v_periodic v then
      if nltb O (dist2 v x lw) (dist2 v x uw)
      then (let g := dist2_lgrad v x lw in if nltb O g (n0 O) then nmul O half g else n0 O)
      else (let g := dist2_lgrad v x uw in if nltb O (n0 O) g then nmul O half g else n0 O)
    else
      if has_lower && nltb O (dist2_lgrad v x lw) (n0 O) then nmul O half (dist2_lgrad v x lw)
      else if has_upper && nltb O (n0 O) (dist2_lgrad v x uw) then nmul O half (dist2_lgrad v x uw)
      else n0 O.
  Definition walls_scale (lk uk d : T) : T := if nltb O (n0 O) d then uk else lk.
  Definition walls_potential (k lk uk : T) (hl hu : bool) (v : var) (x lw uw : T) : T :=
    let d := walls_dist hl hu v x lw uw in
    nmul O (nmul O (ndiv O (nmul O (nmul O half k) (walls_scale lk uk d)) (wsq v)) d) d.
  Definition walls_force (k lk uk : T) (hl hu : bool) (v : var) (x lw uw : T) : T :=
    let d := walls_dist hl hu v x lw uw in
    nmul O (ndiv O (nmul O (nneg O k) (walls_scale lk uk d)) (wsq v)) d.
  Definition walls_dUdk (lk uk : T) (hl hu : bool) (v : var) (x lw uw : T) : T :=
    let d := walls_dist hl hu v x lw uw in
    nmul O (nmul O (ndiv O (nmul O half (walls_scale lk uk d)) (wsq v)) d) d.

  (* harmonic_walls::init : (force_k, lower_wall_k, upper_wall_k) from the configured constants *)
  Definition walls_init (hl hu : bool) (lk uk : T) : T * T * T :=
    if hl && hu then let k := nsqrt O (nmul O lk uk) in (k, ndiv O lk k, ndiv O uk k)
    else if hu then (uk, lk, n1 O)
    else (lk, n1 O, uk).

  (* ---- configuration (as it stands after init) ---- *)
  Record rcfg := mkCfg {
    c_kind : rkind;
    c_vars : list var;
    c_centers0 : list T;               (* centers = initial_centers *)
    c_chg_centers : bool;              (* b_chg_centers *)
    c_target_centers : list T;
    c_k0 : T;                          (* force_k after init *)
    c_chg_k : bool;                    (* b_chg_force_k *)
    c_decoupling : bool;
    c_start_k : T; c_target_k : T;     (* starting_force_k, target_force_k *)
    c_lambda_exp : T;
    c_lambda_sched : list T;
    c_nsteps : Z; c_nstages : Z; c_equil : Z;   (* target_nsteps, target_nstages, target_equil_steps *)
    c_acc_work : bool;                 (* f_cvb_output_acc_work *)
    c_has_lower : bool; c_has_upper : bool;
    c_lower : list T; c_upper : list T; c_lower_k : T; c_upper_k : T;
    c_it0 : Z                          (* step number when the configuration is parsed *)
  }.

  Record rstate := mkSt {
    s_centers : list T; s_incr : list T;       (* colvar_centers, centers_incr *)
    s_k : T; s_kincr : T;                      (* force_k, force_k_incr *)
    s_stage : Z; s_first : Z;                  (* stage, first_step *)
    s_W : T; s_FE : T                          (* acc_work, restraint_FE *)
  }.

  Definition zeros (l : list T) : list T := map (fun _ => n0 O) l.

  Definition init_state (c : rcfg) : rstate :=
    mkSt (c_centers0 c) (zeros (c_centers0 c)) (c_k0 c) (n0 O) 0 (c_it0 c) (n0 O) (n0 O).

  (* colvarvalue::interpolate on scalars : (1 - lambda)*x1 + lambda*x2 *)
  Definition interp (x1 x2 lam : T) : T := nadd O (nmul O (nsub O (n1 O) lam) x1) (nmul O lam x2).
  Definition ratio (a b : Z) : T := ndiv O (nofZ O a) (nofZ O b).

  (* update_centers(lambda) *)
  Definition new_centers (c : rcfg) (lam : T) : list T :=
    map2 (fun c0 c1 => interp c0 c1 lam) (c_centers0 c) (c_target_centers c).
  Definition update_centers (c : rcfg) (s : rstate) (lam : T) : rstate :=
    let cn := new_centers c lam in
    mkSt (map2 wrapv (c_vars c) cn)
         (map3 (fun v n o => nmul O half (dist2_lgrad v n o)) (c_vars c) cn (s_centers s))
         (s_k s) (s_kincr s) (s_stage s) (s_first s) (s_W s) (s_FE s).
  Definition set_incr (s : rstate) (i : list T) : rstate :=
    mkSt (s_centers s) i (s_k s) (s_kincr s) (s_stage s) (s_first s) (s_W s) (s_FE s).
  Definition set_stage (s : rstate) (g : Z) : rstate :=
    mkSt (s_centers s) (s_incr s) (s_k s) (s_kincr s) g (s_first s) (s_W s) (s_FE s).

  (* a step that is computed for the first time: step_relative() > 0 && !simulation_continuing() *)
  Definition first_time (rel : Z) (cont : bool) : bool := (0 <? rel) && negb cont.

  (* colvarbias_restraint_centers_moving::update ; t = step_absolute, rel = step_relative,
     cont = proxy->simulation_continuing() *)
  Definition centers_update (c : rcfg) (s : rstate) (t rel : Z) (cont : bool) : rstate :=
    if c_chg_centers c then
      let s1 :=
        if negb (c_nstages c =? 0) then
          if s_stage s <=? c_nstages c then
            if first_time rel cont && (s_first s <? t) && (Z.rem (t - s_first s - 1) (c_nsteps c) =? 0)
            then let s' := update_centers c s (ratio (s_stage s) (c_nstages c)) in set_stage s' (s_stage s + 1)
            else set_incr s (zeros (s_incr s))
          else s
        else
          if t - s_first s <=? c_nsteps c
          then update_centers c s (ratio (t - s_first s) (c_nsteps c))
          else set_incr s (zeros (s_incr s)) in
      if rel =? 0 then set_incr s1 (zeros (s_incr s1)) else s1
    else s.

  (* the three per-variable terms (potential, force, dU/dk) of the restraint at the current parameters *)
  Definition terms (c : rcfg) (s : rstate) (xs : list T) : list (T * T * T) :=
    match c_kind c with
    | Harmonic => map3 (fun v x ce => (harm_potential (s_k s) v x ce, harm_force (s_k s) v x ce, harm_dUdk v x ce))
                       (c_vars c) xs (s_centers s)
    | Linear => map3 (fun v x ce => (lin_potential (s_k s) v x ce, lin_force (s_k s) v, lin_dUdk v x ce))
                     (c_vars c) xs (s_centers s)
    | Walls => map4 (fun v x lw uw =>
                       (walls_potential (s_k s) (c_lower_k c) (c_upper_k c) (c_has_lower c) (c_has_upper c) v x lw uw,
                        walls_force (s_k s) (c_lower_k c) (c_upper_k c) (c_has_lower c) (c_has_upper c) v x lw uw,
                        walls_dUdk (c_lower_k c) (c_upper_k c) (c_has_lower c) (c_has_upper c) v x lw uw))
                    (c_vars c) xs (c_lower c) (c_upper c)
    end.
  Definition pot3 (p : T * T * T) : T := fst (fst p).
  Definition frc3 (p : T * T * T) : T := snd (fst p).
  Definition duk3 (p : T * T * T) : T := snd p.
  Definition sumT (l : list T) : T := fold_left (nadd O) l (n0 O).
  Definition dUdk_sum (c : rcfg) (s : rstate) (xs : list T) : T := sumT (map duk3 (terms c s xs)).

  (* lambda of a stage (k_moving::update) *)
  Definition stage_lambda (c : rcfg) (g : Z) : T :=
    match c_lambda_sched c with
    | [] => let l := ratio g (c_nstages c) in if c_decoupling c then nsub O (n1 O) l else l
    | _ => nth (Z.to_nat g) (c_lambda_sched c) (n0 O)
    end.
  Definition k_of_lambda (c : rcfg) (lam : T) : T :=
    nadd O (c_start_k c) (nmul O (nsub O (c_target_k c) (c_start_k c)) (npow O lam (c_lambda_exp c))).
  Definition dlambda_factor (c : rcfg) (lam : T) : T :=
    nmul O (nmul O (c_lambda_exp c) (npow O lam (nsub O (c_lambda_exp c) (n1 O)))) (nsub O (c_target_k c) (c_start_k c)).

  Definition set_k (s : rstate) (k ki : T) (g : Z) (fe : T) : rstate :=
    mkSt (s_centers s) (s_incr s) k ki g (s_first s) (s_W s) fe.

  (* colvarbias_restraint_k_moving::update ; returns the new state and the "Lambda= .. dA/dLambda= .." log line, if any *)
  Definition k_update (c : rcfg) (s : rstate) (t rel : Z) (cont : bool) (xs : list T) : rstate * option (T * T) :=
    if c_chg_k c then
      if negb (c_nstages c =? 0) then
        let s1 :=
          if t =? s_first s then
            let lam0 := match c_lambda_sched c with
                        | [] => if c_decoupling c then n1 O else n0 O
                        | l0 :: _ => l0 end in
            set_k s (k_of_lambda c lam0) (s_kincr s) (s_stage s) (s_FE s)
          else s in
        let lam := stage_lambda c (s_stage s1) in
        let s2 :=
          if (s_first s1 <? t) && first_time rel cont &&
             ((c_equil c =? 0) || (Z.rem (t - s_first s1) (c_nsteps c) >=? c_equil c))
          then set_k s1 (s_k s1) (s_kincr s1) (s_stage s1)
                     (nadd O (s_FE s1) (nmul O (dlambda_factor c lam) (dUdk_sum c s1 xs)))
          else s1 in
        if (Z.rem (t - s_first s2) (c_nsteps c) =? 0) && (s_first s2 <? t) && first_time rel cont then
          let line := (lam, ndiv O (s_FE s2) (nofZ O (c_nsteps c - c_equil c))) in
          if s_stage s2 <? c_nstages c then
            let g := s_stage s2 + 1 in
            (set_k s2 (k_of_lambda c (stage_lambda c g)) (s_kincr s2) g (n0 O), Some line)
          else (s2, Some line)
        else (s2, None)
      else if t - s_first s <=? c_nsteps c then
        let l := ratio (t - s_first s) (c_nsteps c) in
        let lam := if c_decoupling c then nsub O (n1 O) l else l in
        let k := k_of_lambda c lam in
        (set_k s k (nsub O k (s_k s)) (s_stage s) (s_FE s), None)
      else (set_k s (s_k s) (n0 O) (s_stage s) (s_FE s), None)
    else (s, None).

  Definition set_W (s : rstate) (w : T) : rstate :=
    mkSt (s_centers s) (s_incr s) (s_k s) (s_kincr s) (s_stage s) (s_first s) w (s_FE s).

  (* centers_moving::update_acc_work *)
  Definition work_centers (c : rcfg) (s : rstate) (t rel : Z) (forces : list T) : rstate :=
    if c_chg_centers c && c_acc_work c && (0 <? rel) && (t - s_first s <=? c_nsteps c)
    then set_W s (fold_left (fun w fd => nadd O w (nmul O (fst fd) (snd fd))) (combine forces (s_incr s)) (s_W s))
    else s.
  (* k_moving::update_acc_work *)
  Definition work_k (c : rcfg) (s : rstate) (rel : Z) (xs : list T) : rstate :=
    if c_chg_k c && c_acc_work c && (0 <? rel)
    then set_W s (nadd O (s_W s) (nmul O (dUdk_sum c s xs) (s_kincr s)))
    else s.

  Record rout := mkOut { o_energy : T; o_forces : list T; o_log : option (T * T) }.

  (* harmonic::update / linear::update / harmonic_walls::update (walls have no centres: chg_centers = false) *)
  Definition rstep (c : rcfg) (s : rstate) (t rel : Z) (cont : bool) (xs : list T) : rstate * rout :=
    let s1 := centers_update c s t rel cont in
    let '(s2, line) := k_update c s1 t rel cont xs in
    let tm := terms c s2 xs in
    let forces := map frc3 tm in
    let s3 := work_centers c s2 t rel forces in
    let s4 := work_k c s3 rel xs in
    (s4, mkOut (sumT (map pot3 tm)) forces line).

  (* what get_state_params writes and set_state_params reads back (firstStep, stage, centers, forceConstant,
     restraintFE, accumulatedWork); everything else is as after init *)
  Definition restore (c : rcfg) (s : rstate) : rstate :=
    let moving := c_chg_centers c || c_chg_k c in
    mkSt (if c_chg_centers c then s_centers s else c_centers0 c)
         (zeros (c_centers0 c))
         (if c_chg_k c then s_k s else c_k0 c) (n0 O)
         (if moving && negb (c_nstages c =? 0) then s_stage s else 0)
         (if moving then s_first s else 0)
         (if moving && c_acc_work c then s_W s else n0 O)
         (if c_chg_k c && negb (c_nstages c =? 0) then s_FE s else n0 O).

  (* colvarbias_restraint_harmonic::energy_difference / colvarbias_restraint_linear::energy_difference (replica exchange:
     colvarmodule::energy_difference) of a restraint whose parameters do not move: the energy with the alternative force
     constant (and, harmonic only, centres) at the current values minus the current energy; force constant, centres and
     energy are put back.  (linear::change_configuration reads the force constant only.) *)
  Definition rediff (c : rcfg) (s : rstate) (xs : list T) (k' : option T) (cen' : option (list T)) : T :=
    let cen2 := match c_kind c, cen' with Harmonic, Some l => l | _, _ => s_centers s end in
    let k2 := match k' with Some k => k | None => s_k s end in
    let s' := mkSt cen2 (s_incr s) k2 (s_kincr s) (s_stage s) (s_first s) (s_W s) (s_FE s) in
    nsub O (sumT (map pot3 (terms c s' xs))) (sumT (map pot3 (terms c s xs))).

  (* ---- run protocol ---- *)
  Inductive event :=
  | EStep (xs : list T)        (* the engine advances one step *)
  | EBoundary (xs : list T)    (* new run statement in the same process: the step is computed again with simulation_continuing() *)
  | ERestart (xs : list T).    (* state saved, new process, state loaded: step computed again with step_relative = 0 *)

  Definition ev_xs (e : event) : list T := match e with EStep x | EBoundary x | ERestart x => x end.

  Record mstate := mkM { m_it : Z; m_itr : Z; m_fresh : bool; m_st : rstate; m_outs : list (Z * rstate * rout) }.

  Definition init_m (c : rcfg) : mstate := mkM (c_it0 c) (c_it0 c) true (init_state c) [].

  Definition mstep (c : rcfg) (m : mstate) (e : event) : mstate :=
    let it := match e with EStep _ => if m_fresh m then m_it m else m_it m + 1 | _ => m_it m end in
    let itr := match e with ERestart _ => it | _ => m_itr m end in
    let s0 := match e with ERestart _ => restore c (m_st m) | _ => m_st m end in
    let cont := match e with EBoundary _ => true | _ => false end in
    let '(s1, o) := rstep c s0 it (it - itr) cont (ev_xs e) in
    mkM it itr false s1 (m_outs m ++ [(it, s1, o)]).

  Definition run (c : rcfg) (evs : list event) : mstate := fold_left (mstep c) evs (init_m c).

  (* ---- histogramRestraint (colvarbias_restraint_histogram::update) on scalar variables ----
     xs = the values of the variables (vector_size = their number), refp = the (normalised) reference histogram,
     grid point g at lower + (g + 0.5) width; pi is passed in (the C++ uses the constant PI). *)
  Definition hist_grid (lower width : T) (G : nat) : list T :=
    map (fun g => nadd O lower (nmul O (nadd O (nofZ O (Z.of_nat g)) half) width)) (seq 0 G).
  Definition hist_norm (pi sigma : T) (n : nat) : T :=
    ndiv O (n1 O) (nmul O (nmul O (nsqrt O (nmul O two pi)) sigma) (nofZ O (Z.of_nat n))).
  Definition hist_gauss (sigma xg x : T) : T :=
    nexp O (ndiv O (nmul O (nmul O (nneg O (n1 O)) (nsub O xg x)) (nsub O xg x)) (nmul O (nmul O two sigma) sigma)).
  Definition hist_p (pi sigma lower width : T) (G : nat) (xs : list T) : list T :=
    map (fun xg => fold_left (fun a x => nadd O a (nmul O (hist_norm pi sigma (length xs)) (hist_gauss sigma xg x))) xs (n0 O))
        (hist_grid lower width G).
  Definition hist_diff (pi sigma lower width : T) (refp xs : list T) : list T :=
    map2 (nsub O) (hist_p pi sigma lower width (length refp) xs) refp.
  Definition hist_kcv (k : T) (xs : list T) : T := nmul O k (nofZ O (Z.of_nat (length xs))).
  Definition hist_energy (k pi sigma lower width : T) (refp xs : list T) : T :=
    fold_left (fun a d => nadd O a (nmul O (nmul O (nmul O half (hist_kcv k xs)) d) d))
              (hist_diff pi sigma lower width refp xs) (n0 O).
  Definition hist_forces (k pi sigma lower width : T) (refp xs : list T) : list T :=
    map (fun x =>
           fold_left (fun a gd =>
                        nadd O a (nmul O (nmul O (nmul O (nmul O (hist_kcv k xs) (snd gd)) (hist_norm pi sigma (length xs)))
                                                 (hist_gauss sigma (fst gd) x))
                                         (ndiv O (nmul O (nneg O (n1 O)) (nsub O (fst gd) x)) (nmul O sigma sigma))))
                     (combine (hist_grid lower width (length refp)) (hist_diff pi sigma lower width refp xs)) (n0 O))
        xs.

  (* ---- ABMD (colvarbias_abmd::update) ---- *)
  Record abmd_state := mkAb { ab_init : bool; ab_ref : T }.
  Definition abmd_step (k stop : T) (decreasing : bool) (s : abmd_state) (x : T) : abmd_state * (T * T) :=
    let ref := if ab_init s then ab_ref s else x in
    let sign := if decreasing then nneg O (n1 O) else n1 O in
    let diff := nmul O (nsub O x ref) sign in
    if nltb O (n0 O) diff
    then (mkAb true (if nleb O (nmul O (nsub O ref stop) sign) (n0 O) then x else ref), (n0 O, n0 O))
    else (mkAb true ref, (nmul O (nmul O (nmul O half k) diff) diff, nmul O (nmul O (nneg O sign) k) diff)).
  Fixpoint abmd_run (k stop : T) (decreasing : bool) (s : abmd_state) (xs : list T) : list (T * T * T) :=
    match xs with
    | [] => []
    | x :: r => let '(s', (e, f)) := abmd_step k stop decreasing s x in (e, f, ab_ref s') :: abmd_run k stop decreasing s' r
    end.
End Restraint.
