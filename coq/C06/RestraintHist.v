(* histogramRestraint (R instance): the energy is the closed form 1/2 (k M) sum_g (h(xi_g) - h0_g)^2 with h the sum of
   normalised Gaussians centred at the M values, and the force on each value is minus the derivative of the energy. *)
From Coq Require Import ZArith List Bool Reals Lra Lia Psatz.
From Coquelicot Require Import Coquelicot.
From CV Require Import Base.Num Base.RNum C06.RestraintModel.
Import ListNotations.
Local Open Scope R_scope.

Fixpoint Rsum (l : list R) : R := match l with [] => 0 | x :: r => x + Rsum r end.

Lemma fold_add_Rsum {A} (f : A -> R) (l : list A) (a : R) :
  fold_left (fun acc x => acc + f x) l a = a + Rsum (map f l).
Proof.
  revert a. induction l as [|x l IH]; intros a; cbn [fold_left map Rsum]; [ring|]. rewrite IH. ring.
Qed.

Ltac rops := cbn [nadd nsub nmul ndiv nneg nofZ nexp nsqrt n0 n1 Rops nhalf half two].

(* the Gaussian and the normalisation as documented *)
Definition gauss_doc (sigma xi x : R) : R := exp (- (xi - x) ^ 2 / (2 * sigma ^ 2)).
Definition hist_h (sigma : R) (xs : list R) (xi : R) : R :=
  / (INR (length xs) * sqrt (2 * PI * sigma ^ 2)) * Rsum (map (gauss_doc sigma xi) xs).

Lemma hist_gauss_doc sigma xg x : sigma <> 0 -> hist_gauss Rops sigma xg x = gauss_doc sigma xg x.
Proof. intros Hs. unfold hist_gauss, gauss_doc, two. rops. f_equal. field. exact Hs. Qed.

Lemma hist_norm_doc sigma n : 0 < sigma -> (0 < n)%nat ->
  hist_norm Rops PI sigma n = / (INR n * sqrt (2 * PI * sigma ^ 2)).
Proof.
  intros Hs Hn. unfold hist_norm, two. rops. rewrite <- INR_IZR_INZ.
  assert (Hpi : 0 < 2 * PI) by (pose proof PI_RGT_0; lra).
  assert (Hsq : sqrt (2 * PI * sigma ^ 2) = sqrt (2 * PI) * sigma).
  { rewrite sqrt_mult by nra. f_equal. replace (sigma ^ 2) with (sigma * sigma) by ring. apply sqrt_square. lra. }
  rewrite Hsq.
  assert (0 < sqrt (2 * PI)) by (apply sqrt_lt_R0; exact Hpi).
  assert (0 < INR n) by (apply lt_0_INR; exact Hn).
  field. repeat split; lra.
Qed.

Lemma Rsum_gauss c sigma xg l : sigma <> 0 ->
  Rsum (map (fun x0 => c * hist_gauss Rops sigma xg x0) l) = c * Rsum (map (gauss_doc sigma xg) l).
Proof.
  intros Hs. induction l as [|a l IHl]; cbn [map Rsum]; [ring|]. rewrite IHl, hist_gauss_doc by exact Hs. ring.
Qed.

(* ---- p at one grid point, as a function of one of the values ---- *)
Section OnePoint.
  Variables (nrm sigma : R) (pre post : list R).
  Definition pterm (xg x : R) : R := nrm * hist_gauss Rops sigma xg x.
  Definition p_at (xg y : R) : R :=
    fold_left (fun a x => nadd Rops a (nmul Rops nrm (hist_gauss Rops sigma xg x))) (pre ++ y :: post) (n0 Rops).
  Definition pA (xg : R) : R := Rsum (map (pterm xg) pre).
  Definition pB (xg : R) : R := Rsum (map (pterm xg) post).
  Lemma p_at_split xg y : p_at xg y = pA xg + pterm xg y + pB xg.
  Proof.
    unfold p_at. rops. change (fun a x => a + nrm * hist_gauss Rops sigma xg x) with (fun a x => a + pterm xg x).
    rewrite fold_add_Rsum, map_app. cbn [map].
    assert (H : forall l1 l2, Rsum (l1 ++ l2) = Rsum l1 + Rsum l2).
    { induction l1 as [|a l1 IH]; intros l2; cbn [app Rsum]; [ring|]. rewrite IH. ring. }
    rewrite H. cbn [Rsum]. unfold pA, pB. ring.
  Qed.
End OnePoint.

(* ---- energy and its derivative as sums over the grid ---- *)
Section Energy.
  Variables (kcv nrm sigma : R) (pre post : list R).
  Hypothesis Hs : sigma <> 0.

  Definition eterm (y xg r : R) : R := 1 / 2 * kcv * (p_at nrm sigma pre post xg y - r) * (p_at nrm sigma pre post xg y - r).
  (* derivative of eterm with respect to y *)
  Definition dterm (y xg r : R) : R :=
    kcv * (p_at nrm sigma pre post xg y - r) * nrm * hist_gauss Rops sigma xg y * ((xg - y) / (sigma * sigma)).

  Fixpoint Esum (y : R) (grid refp : list R) : R :=
    match grid, refp with xg :: g, r :: rp => eterm y xg r + Esum y g rp | _, _ => 0 end.
  Fixpoint Dsum (y : R) (grid refp : list R) : R :=
    match grid, refp with xg :: g, r :: rp => dterm y xg r + Dsum y g rp | _, _ => 0 end.

  Lemma eterm_derive x xg r : is_derive (fun y => eterm y xg r) x (dterm x xg r).
  Proof.
    apply (is_derive_ext (fun y => 1 / 2 * kcv * (pA nrm sigma pre xg + nrm * exp (-1 * (xg - y) * (xg - y) / (2 * sigma * sigma)) + pB nrm sigma post xg - r)
                                             * (pA nrm sigma pre xg + nrm * exp (-1 * (xg - y) * (xg - y) / (2 * sigma * sigma)) + pB nrm sigma post xg - r))).
    - intros y. unfold eterm. rewrite p_at_split. unfold pterm, hist_gauss, two. rops.
      replace (- (1)) with (-1) by ring. reflexivity.
    - unfold dterm. rewrite p_at_split. unfold pterm, hist_gauss, two. rops. replace (- (1)) with (-1) by ring.
      auto_derive; [exact I|]. unfold Rminus, Rdiv.
      set (E := exp _). field. exact Hs.
  Qed.

  Lemma Esum_derive x grid refp : is_derive (fun y => Esum y grid refp) x (Dsum x grid refp).
  Proof.
    revert refp. induction grid as [|xg g IH]; intros refp; cbn [Esum Dsum]; [auto_derive; [exact I | ring]|].
    destruct refp as [|r rp]; [auto_derive; [exact I | ring]|].
    apply (is_derive_plus (fun y => eterm y xg r) (fun y => Esum y g rp)); [apply eterm_derive | apply IH].
  Qed.
End Energy.

(* ---- the model in terms of these sums ---- *)
Section Model.
  Variables (k sigma lower width : R) (refp pre post : list R).
  Hypothesis Hs : sigma <> 0.
  Let n := length (pre ++ 0 :: post).
  Let nrm := hist_norm Rops PI sigma n.
  Let kcv (y : R) := hist_kcv Rops k (pre ++ y :: post).

  Lemma len_y y : length (pre ++ y :: post) = n.
  Proof. unfold n. rewrite !app_length. reflexivity. Qed.

  Lemma kcv_const y : kcv y = k * IZR (Z.of_nat n).
  Proof. unfold kcv, hist_kcv. rops. rewrite len_y. reflexivity. Qed.

  (* the differences p_g - ref_g, zipped with the grid *)
  Lemma diff_zip (grid : list R) y :
    map2 (nsub Rops)
         (map (fun xg => fold_left (fun a x => nadd Rops a (nmul Rops (hist_norm Rops PI sigma (length (pre ++ y :: post))) (hist_gauss Rops sigma xg x)))
                                   (pre ++ y :: post) (n0 Rops)) grid) refp =
    map2 (fun xg r => p_at nrm sigma pre post xg y - r) grid refp.
  Proof.
    rewrite len_y. fold nrm. revert refp. induction grid as [|xg g IH]; intros rp; [reflexivity|].
    destruct rp as [|r rp]; [reflexivity|]. cbn [map map2]. rewrite IH. reflexivity.
  Qed.

  Lemma energy_as_Esum y :
    hist_energy Rops k PI sigma lower width refp (pre ++ y :: post) =
    Esum (k * IZR (Z.of_nat n)) nrm sigma pre post y (hist_grid Rops lower width (length refp)) refp.
  Proof.
    unfold hist_energy, hist_diff, hist_p. rewrite diff_zip. fold (kcv y). rewrite kcv_const.
    set (K := k * IZR (Z.of_nat n)). rops.
    change (fun a d => a + 1 / 2 * K * d * d) with (fun a d => a + (fun d => 1 / 2 * K * d * d) d).
    rewrite fold_add_Rsum. rewrite Rplus_0_l.
    generalize (hist_grid Rops lower width (length refp)) as grid. intros grid. generalize refp as rp.
    induction grid as [|xg g IH]; intros rp; [reflexivity|]. destruct rp as [|r rp]; [reflexivity|].
    cbn [map2 map Rsum Esum]. rewrite IH. unfold eterm. reflexivity.
  Qed.

  Lemma nth_mid {A B} (F : A -> B) (l1 l2 : list A) (a : A) (d : B) : nth (length l1) (map F (l1 ++ a :: l2)) d = F a.
  Proof. rewrite map_app, app_nth2 by (rewrite map_length; lia). rewrite map_length, Nat.sub_diag. reflexivity. Qed.

  Lemma force_as_Dsum x :
    nth (length pre) (hist_forces Rops k PI sigma lower width refp (pre ++ x :: post)) 0 =
    - Dsum (k * IZR (Z.of_nat n)) nrm sigma pre post x (hist_grid Rops lower width (length refp)) refp.
  Proof.
    unfold hist_forces. rewrite nth_mid. unfold hist_diff, hist_p. rewrite diff_zip. fold (kcv x). rewrite kcv_const, len_y.
    fold nrm. set (K := k * IZR (Z.of_nat n)). rops.
    change (fun (a : R) (gd : R * R) => a + K * snd gd * nrm * hist_gauss Rops sigma (fst gd) x * (- (1) * (fst gd - x) / (sigma * sigma)))
      with (fun (a : R) (gd : R * R) => a + (fun gd => K * snd gd * nrm * hist_gauss Rops sigma (fst gd) x * (- (1) * (fst gd - x) / (sigma * sigma))) gd).
    rewrite fold_add_Rsum, Rplus_0_l.
    generalize (hist_grid Rops lower width (length refp)) as grid. intros grid. generalize refp as rp.
    induction grid as [|xg g IH]; intros rp; cbn [map2 combine map Rsum Dsum]; [ring|].
    destruct rp as [|r rp]; cbn [map2 combine map Rsum Dsum]; [ring|].
    rewrite IH. unfold dterm. cbn [fst snd]. field. exact Hs.
  Qed.

  Lemma force_is_minus_derivative x :
    is_derive (fun y => hist_energy Rops k PI sigma lower width refp (pre ++ y :: post)) x
              (- nth (length pre) (hist_forces Rops k PI sigma lower width refp (pre ++ x :: post)) 0).
  Proof.
    rewrite force_as_Dsum, Ropp_involutive.
    apply (is_derive_ext (fun y => Esum (k * IZR (Z.of_nat n)) nrm sigma pre post y (hist_grid Rops lower width (length refp)) refp)).
    - intros y. symmetry. apply energy_as_Esum.
    - apply Esum_derive. exact Hs.
  Qed.

  (* documented closed form of the energy *)
  Lemma energy_closed x : 0 < sigma ->
    let xs := pre ++ x :: post in
    hist_energy Rops k PI sigma lower width refp xs =
    Rsum (map2 (fun xg r => 1 / 2 * (k * INR (length xs)) * (hist_h sigma xs xg - r) ^ 2)
               (hist_grid Rops lower width (length refp)) refp).
  Proof.
    intros Hpos xs. unfold xs. rewrite energy_as_Esum, len_y, <- INR_IZR_INZ.
    assert (Hn : (0 < n)%nat) by (unfold n; rewrite app_length; cbn [length]; lia).
    generalize (hist_grid Rops lower width (length refp)) as grid. intros grid. generalize refp as rp.
    induction grid as [|xg g IH]; intros rp; [reflexivity|]. destruct rp as [|r rp]; [reflexivity|].
    cbn [map2 Rsum Esum]. rewrite IH. f_equal. unfold eterm.
    assert (Hp : p_at nrm sigma pre post xg x = hist_h sigma (pre ++ x :: post) xg).
    { unfold p_at, hist_h. rops.
      change (fun a x0 => a + nrm * hist_gauss Rops sigma xg x0) with (fun a x0 => a + (fun x0 => nrm * hist_gauss Rops sigma xg x0) x0).
      rewrite fold_add_Rsum, Rplus_0_l, len_y. unfold nrm. rewrite hist_norm_doc by assumption.
      apply Rsum_gauss. exact Hs. }
    rewrite Hp. ring.
  Qed.
End Model.

Lemma hist_statement (k sigma lower width : R) (refp pre post : list R) (x : R) : 0 < sigma ->
  let xs := pre ++ x :: post in
  hist_energy Rops k PI sigma lower width refp xs =
    Rsum (map2 (fun xg r => 1 / 2 * (k * INR (length xs)) * (hist_h sigma xs xg - r) ^ 2)
               (hist_grid Rops lower width (length refp)) refp) /\
  is_derive (fun y => hist_energy Rops k PI sigma lower width refp (pre ++ y :: post)) x
            (- nth (length pre) (hist_forces Rops k PI sigma lower width refp xs) 0).
Proof.
  intros Hs xs. assert (Hne : sigma <> 0) by lra. split.
  - apply energy_closed; assumption.
  - apply force_is_minus_derivative. exact Hne.
Qed.
