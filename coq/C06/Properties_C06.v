(* C06 (placeholder while the tie is being brought up) *)
From Coq Require Import ZArith List Bool Reals Lia.
From CV Require Import Base.Num Base.RNum C06.RestraintModel.
