(* C06: restraints implement their documented potentials and time schedules.
   Statements only; proofs in RestraintProofs.v, model in RestraintModel.v. *)
From Coq Require Import ZArith List Bool Reals QArith Lia Lra.
From CV Require Import Base.Num Base.RNum C06.RestraintModel C06.RestraintProofs.
Import ListNotations.

(* ---- closed-form potentials (R instance of the model) ------------------------------------------ *)

(* Harmonic restraint on a periodic scalar: energy k/(2 w^2) d^2, force -k/w^2 d, where d = x - c - m P is
   the image of the difference of SMALLEST absolute value over all integers (shortest-image distance). *)
Theorem C06_harmonic_periodic_min : forall (k : R) (v : var) (x c : R),
  (v_width v <> 0)%R -> v_periodic v = true -> (0 < v_period v)%R ->
  exists m : Z,
    (harm_potential Rops k v x c = k / (2 * v_width v ^ 2) * (x - c - IZR m * v_period v) ^ 2 /\
     harm_force Rops k v x c = - (k / v_width v ^ 2) * (x - c - IZR m * v_period v) /\
     harm_dUdk Rops v x c = 1 / (2 * v_width v ^ 2) * (x - c - IZR m * v_period v) ^ 2 /\
     - v_period v / 2 <= x - c - IZR m * v_period v < v_period v / 2 /\
     forall n : Z, (x - c - IZR m * v_period v) ^ 2 <= (x - c - IZR n * v_period v) ^ 2)%R.
Proof. exact harmonic_periodic. Qed.
Print Assumptions C06_harmonic_periodic_min.

Theorem C06_harmonic_nonperiodic : forall (k : R) (v : var) (x c : R),
  (v_width v <> 0)%R -> v_periodic v = false ->
  (harm_potential Rops k v x c = k / (2 * v_width v ^ 2) * (x - c) ^ 2 /\
   harm_force Rops k v x c = - (k / v_width v ^ 2) * (x - c) /\
   harm_dUdk Rops v x c = 1 / (2 * v_width v ^ 2) * (x - c) ^ 2)%R.
Proof. exact harmonic_nonperiodic. Qed.
Print Assumptions C06_harmonic_nonperiodic.

Theorem C06_linear : forall (k : R) (v : var) (x c : R), (v_width v <> 0)%R ->
  (lin_potential Rops k v x c = k / v_width v * (x - c) /\ lin_force Rops k v = - (k / v_width v) /\
   lin_dUdk Rops v x c = (x - c) / v_width v)%R.
Proof. exact linear_closed. Qed.
Print Assumptions C06_linear.

(* One- and two-sided walls on a non-periodic variable: half-harmonic below the lower wall (constant
   k*lk), above the upper wall (constant k*uk), zero in between. *)
Theorem C06_walls_nonperiodic : forall (k lk uk : R) (hl hu : bool) (v : var) (x L U : R),
  (v_width v <> 0)%R -> v_periodic v = false ->
  (hl = true -> (x < L)%R ->
     (walls_potential Rops k lk uk hl hu v x L U = k * lk / (2 * v_width v ^ 2) * (x - L) ^ 2 /\
      walls_force Rops k lk uk hl hu v x L U = - (k * lk / v_width v ^ 2) * (x - L))%R) /\
  ((hl = false \/ (L <= x)%R) -> hu = true -> (U < x)%R ->
     (walls_potential Rops k lk uk hl hu v x L U = k * uk / (2 * v_width v ^ 2) * (x - U) ^ 2 /\
      walls_force Rops k lk uk hl hu v x L U = - (k * uk / v_width v ^ 2) * (x - U))%R) /\
  ((hl = false \/ (L <= x)%R) -> (hu = false \/ (x <= U)%R) ->
     (walls_potential Rops k lk uk hl hu v x L U = 0 /\ walls_force Rops k lk uk hl hu v x L U = 0)%R).
Proof. exact walls_nonperiodic. Qed.
Print Assumptions C06_walls_nonperiodic.

(* the rescaling done at initialisation keeps the configured lower/upper wall constants *)
Theorem C06_walls_constants : forall lk uk : R, (0 < lk)%R -> (0 < uk)%R ->
  let '(k, a, b) := walls_init Rops true true lk uk in (k * a = lk /\ k * b = uk /\ 0 < k)%R.
Proof. exact walls_init_products. Qed.
Print Assumptions C06_walls_constants.

(* ABMD ratchet: energy 1/2 k min(0, s (x - ref))^2, force minus its derivative; the reference never moves
   backwards, and it moves (to the current value) only while it has not passed the stopping value. *)
Theorem C06_abmd_ratchet : forall (k stop : R) (dec : bool) (s : abmd_state) (x : R),
  let ref := if ab_init s then ab_ref s else x in
  let sg := (if dec then -1 else 1)%R in
  let '(s', (e, f)) := abmd_step Rops k stop dec s x in
  (e = k / 2 * (Rmin 0 ((x - ref) * sg)) ^ 2 /\
   f = - sg * k * Rmin 0 ((x - ref) * sg) /\
   0 <= (ab_ref s' - ref) * sg /\
   (0 < (ab_ref s' - ref) * sg -> ab_ref s' = x /\ (ref - stop) * sg <= 0))%R /\
  ab_init s' = true.
Proof. exact abmd_ratchet_stmt. Qed.
Print Assumptions C06_abmd_ratchet.

(* ---- schedules: functions of the step number alone, for every segmentation --------------------- *)
(* A history is any non-empty list of events: plain engine steps, steps recomputed at an in-process run
   boundary, steps recomputed after save / new process / load.  These theorems hold for EVERY numeric
   carrier (in particular R and IEEE doubles): the parameters are the same expression of the step number. *)

(* the step number after a history = start + number of plain steps after the first event *)
Theorem C06_step_number : forall T (O : NumOps T) (c : rcfg) e evs,
  m_it (run O c (e :: evs)) = (c_it0 c + count_steps evs)%Z.
Proof. exact @run_it. Qed.
Print Assumptions C06_step_number.

(* continuous moving centres: centre(t) = wrap (interpolate c0 c1 (min(t - t0, N)/N)) *)
Theorem C06_center_schedule_any_segmentation : forall T (O : NumOps T) (c : rcfg) (evs : list event),
  c_chg_centers c = true -> c_nstages c = 0%Z -> (0 <= c_nsteps c)%Z -> evs <> [] ->
  s_centers (m_st (run O c evs)) = closed_centers O c (m_it (run O c evs)) /\
  s_first (m_st (run O c evs)) = c_it0 c.
Proof. exact @center_schedule_continuous. Qed.
Print Assumptions C06_center_schedule_any_segmentation.

(* continuously changing force constant: k(t) = k0 + (k1 - k0) lambda^e, lambda = min(t - t0, N)/N (1 - that when decoupling) *)
Theorem C06_k_schedule_any_segmentation : forall T (O : NumOps T) (c : rcfg) (evs : list event),
  c_chg_k c = true -> c_nstages c = 0%Z -> (0 <= c_nsteps c)%Z -> evs <> [] ->
  s_k (m_st (run O c evs)) = closed_k O c (m_it (run O c evs)) /\
  s_first (m_st (run O c evs)) = c_it0 c.
Proof. exact @k_schedule_continuous. Qed.
Print Assumptions C06_k_schedule_any_segmentation.

(* Staged force constant.  FULL STATEMENT (false of the code, see the two refutations):
     forall c evs, c_chg_k c = true -> 0 < c_nstages c -> 0 < c_nsteps c -> evs <> [] ->
       s_stage (run c evs) = min nstages ((t - t0)/N)  /\  s_k (run c evs) = closed_k_staged c t,   t = m_it (run c evs).
   It holds when the run is one segment (no run boundary, no restart): *)
Theorem C06_k_schedule_staged_partial : forall T (O : NumOps T) (c : rcfg) (evs : list event),
  c_chg_k c = true -> c_chg_centers c = false -> (0 < c_nstages c)%Z -> (0 < c_nsteps c)%Z ->
  Forall is_step evs -> evs <> [] ->
  s_stage (m_st (run O c evs)) = stage_closed c (m_it (run O c evs)) /\
  s_k (m_st (run O c evs)) = closed_k_staged O c (m_it (run O c evs)).
Proof. exact @k_schedule_staged_one_segment. Qed.
Print Assumptions C06_k_schedule_staged_partial.

(* ... and fails when a run boundary, or a restart, falls on the last step of a stage: the stage advances twice *)
Theorem C06_k_schedule_staged_refuted_boundary :
  exists (c : @rcfg Q) evs, c_chg_k c = true /\ c_chg_centers c = false /\ (0 < c_nstages c)%Z /\ (0 < c_nsteps c)%Z /\ evs <> [] /\
    has_restart evs = false /\
    Qeq_bool (s_k (m_st (run Qops c evs))) (closed_k_staged Qops c (m_it (run Qops c evs))) = false.
Proof. exact k_schedule_staged_refuted_boundary. Qed.
Print Assumptions C06_k_schedule_staged_refuted_boundary.

Theorem C06_k_schedule_staged_refuted_restart :
  exists (c : @rcfg Q) evs, c_chg_k c = true /\ c_chg_centers c = false /\ (0 < c_nstages c)%Z /\ (0 < c_nsteps c)%Z /\ evs <> [] /\
    has_boundary evs = false /\
    Qeq_bool (s_k (m_st (run Qops c evs))) (closed_k_staged Qops c (m_it (run Qops c evs))) = false.
Proof. exact k_schedule_staged_refuted_restart. Qed.
Print Assumptions C06_k_schedule_staged_refuted_restart.

(* Staged centres.  FULL STATEMENT (false of the code):
     forall c evs, c_chg_centers c = true -> 0 < c_nstages c -> 0 < c_nsteps c -> evs <> [] ->
       s_centers (run c evs) = closed_centers_staged c (m_it (run c evs)).
   Refuted by a run boundary on the first step of a stage, and by targetNumSteps = 1 in a single segment.
   (The _partial version - N >= 2, no run boundary on a step = 1 mod N - is checked by the oracle of the
   check on every generated history; it is not proved yet, see NOTES.md.) *)
Theorem C06_center_schedule_staged_refuted_boundary :
  exists (c : @rcfg Q) evs, c_chg_centers c = true /\ (0 < c_nstages c)%Z /\ (2 <= c_nsteps c)%Z /\ evs <> [] /\
    s_centers (m_st (run Qops c evs)) <> closed_centers_staged Qops c (m_it (run Qops c evs)).
Proof. exact center_schedule_staged_refuted_boundary. Qed.
Print Assumptions C06_center_schedule_staged_refuted_boundary.

Theorem C06_center_schedule_staged_refuted_N1 :
  exists (c : @rcfg Q) evs, c_chg_centers c = true /\ (0 < c_nstages c)%Z /\ c_nsteps c = 1%Z /\ evs <> [] /\
    Forall (fun e => match e with EStep _ => True | _ => False end) evs /\
    s_centers (m_st (run Qops c evs)) <> closed_centers_staged Qops c (m_it (run Qops c evs)).
Proof. exact center_schedule_staged_refuted_N1. Qed.
Print Assumptions C06_center_schedule_staged_refuted_N1.

(* ---- accumulated work and TI ------------------------------------------------------------------- *)
(* FULL STATEMENT (C06_acc_work_is_sum): W(t) = sum over the steps s <= t of dU/dk(s) (k(s) - k(s-1))
   [resp. F(s).(c(s) - c(s-1))].  False of the code in two ways: *)

(* after the end of the force-constant schedule k no longer changes, yet W keeps growing *)
Theorem C06_acc_work_k_refuted :
  exists (c : @rcfg Q) evs1 evs2, c_chg_k c = true /\ c_nstages c = 0%Z /\ c_acc_work c = true /\
    (c_it0 c + c_nsteps c <= m_it (run Qops c evs1))%Z /\
    s_k (m_st (run Qops c (evs1 ++ evs2))) = s_k (m_st (run Qops c evs1)) /\
    Qeq_bool (s_W (m_st (run Qops c (evs1 ++ evs2)))) (s_W (m_st (run Qops c evs1))) = false.
Proof. exact work_k_refuted. Qed.
Print Assumptions C06_acc_work_k_refuted.

(* periodic variable: the interpolated centre moves from 2 to 5/2 at step 2, the increment used is 9/2 *)
Theorem C06_acc_work_centers_periodic_refuted :
  exists (c : @rcfg Q) evs, c_chg_centers c = true /\ c_nstages c = 0%Z /\ c_acc_work c = true /\
    new_centers Qops c (ratio Qops 2 4) = [5#2]%Q /\ new_centers Qops c (ratio Qops 1 4) = [2]%Q /\
    m_it (run Qops c evs) = 2%Z /\ s_incr (m_st (run Qops c evs)) = [9#2]%Q.
Proof. exact work_centers_periodic_refuted. Qed.
Print Assumptions C06_acc_work_centers_periodic_refuted.

(* FULL STATEMENT (C06_ti_stage_mean): the value written at the end of a stage is the mean of dU/dlambda over
   the stage's sampled steps.  With targetEquilSteps 0 the first stage sums the N+1 steps t0..t0+N (each
   sample is 1 here) and divides by N = 3: 4/3 is written. *)
Theorem C06_ti_stage_mean_refuted :
  exists (c : @rcfg Q) evs o, c_chg_k c = true /\ c_equil c = 0%Z /\ c_nsteps c = 3%Z /\
    Forall (fun e => match e with EStep _ => True | _ => False end) evs /\
    (forall e, In e evs -> (dlambda_factor Qops c (stage_lambda Qops c 0) * dUdk_sum Qops c (init_state Qops c) (ev_xs e) == 1)%Q) /\
    nth_error (m_outs (run Qops c evs)) 3 = Some o /\ o_log (snd o) = Some (0, 4#3)%Q.
Proof. exact ti_first_stage_refuted. Qed.
Print Assumptions C06_ti_stage_mean_refuted.

(* ---- non-vacuity ------------------------------------------------------------------------------- *)
(* a 3-stage lambda schedule run in one segment reaches the last stage with the last force constant *)
Example C06_example_three_stages :
  let c := mkCfg Harmonic [wv] [1%Q] false [1%Q] 2%Q true false 2%Q 4%Q 1%Q [0; 1#4; 1#2; 1]%Q 2%Z 3%Z 0%Z
                 false false false [0%Q] [0%Q] (-1)%Q (-1)%Q 0%Z in
  let evs := half_steps 8 in
  c_chg_k c = true /\ Forall is_step evs /\ m_it (run Qops c evs) = 7%Z /\
  s_stage (m_st (run Qops c evs)) = 3%Z /\ s_k (m_st (run Qops c evs)) = 4%Q /\
  stage_closed c 7 = 3%Z.
Proof. vm_compute. repeat split; repeat constructor. Qed.

(* continuous centre with a boundary and a restart in the history: the hypotheses are satisfiable and the centre is at 2 at step 2 *)
Example C06_example_continuous_segmented :
  let c := mkCfg Harmonic [wv] [1%Q] true [3%Q] 2%Q false false (-1)%Q (-1)%Q 1%Q [] 4%Z 0%Z 0%Z
                 true false false [0%Q] [0%Q] (-1)%Q (-1)%Q 0%Z in
  let evs := [S (1#2); S (1#2); EBoundary [1#2]; S (1#2); ERestart [1#2]]%Q in
  c_chg_centers c = true /\ m_it (run Qops c evs) = 2%Z /\ s_centers (m_st (run Qops c evs)) = [2%Q] /\
  closed_centers Qops c 2 = [2%Q].
Proof. vm_compute. repeat split. Qed.

(* periodic harmonic: x = 3.5, c = 0, P = 4: shortest image is -0.5 *)
Example C06_example_periodic : pshift Rops 4%R (3.5 - 0)%R = 1%Z.
Proof. unfold pshift, half, nhalf; cbn. apply Zfloor_spec. simpl. lra. Qed.
