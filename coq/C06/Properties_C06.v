(* C06: restraints implement their documented potentials and time schedules.
   Statements only; model in RestraintModel.v, proofs in RestraintSched.v (schedules), RestraintTI.v (staged TI),
   RestraintWork.v (accumulated work), RestraintHist.v (histogram restraint), RestraintProofs.v (potentials). *)
From Coq Require Import ZArith List Bool Reals QArith Lia Lra.
From Coquelicot Require Import Coquelicot.
From CV Require Import Base.Num Base.RNum C06.RestraintModel C06.RestraintSched C06.RestraintTI C06.RestraintWork
  C06.RestraintHist C06.RestraintProofs C18.ValueModel C18.ValueProofs C18.ExtraProofs C06.RestraintManifold
  C06.RestraintGen C06.RestraintGenProofs C06.TIEstimator C06.RestraintTSF.
Import ListNotations.

(* ---- closed-form potentials (R instance of the model) ------------------------------------------ *)

(* Harmonic restraint on a periodic scalar: energy k/(2 w^2) d^2, force -k/w^2 d, where d = x - c - m P is
   the image of the difference of SMALLEST absolute value over all integers (shortest-image distance). *)
Theorem C06_harmonic_periodic_min : forall (k : R) (v : var) (x c : R),
  (v_width v <> 0)%R -> v_periodic v = true -> (0 < v_period v)%R ->
  exists m : Z,
    (harm_potential Rops k v x c = k / (2 * v_width v ^ 2) * (x - c - IZR m * v_period v) ^ 2 /\
     harm_force Rops k v x c = - (k / v_width v ^ 2) * (x - c - IZR m * v_period v) /\
     harm_dUdk Rops v x c = 1 / (2 * v_width v ^ 2) * (x - c - IZR m * v_period v) ^ 2 /\
     - v_period v / 2 <= x - c - IZR m * v_period v < v_period v / 2 /\
     forall n : Z, (x - c - IZR m * v_period v) ^ 2 <= (x - c - IZR n * v_period v) ^ 2)%R.
Proof. exact harmonic_periodic. Qed.
Print Assumptions C06_harmonic_periodic_min.

Theorem C06_harmonic_nonperiodic : forall (k : R) (v : var) (x c : R),
  (v_width v <> 0)%R -> v_periodic v = false ->
  (harm_potential Rops k v x c = k / (2 * v_width v ^ 2) * (x - c) ^ 2 /\
   harm_force Rops k v x c = - (k / v_width v ^ 2) * (x - c) /\
   harm_dUdk Rops v x c = 1 / (2 * v_width v ^ 2) * (x - c) ^ 2)%R.
Proof. exact harmonic_nonperiodic. Qed.
Print Assumptions C06_harmonic_nonperiodic.

(* Harmonic restraint on manifold-valued variables (squared distances of coq/C18/ValueModel.v, which C18 proves to be
   metrics): the energy is k/(2 w^2) x the squared geodesic distance - the angle theta between unit vectors ... *)
Theorem C06_harmonic_unit_vector : forall (k w : R) (a b : vec3), (w <> 0)%R -> is_unit a -> is_unit b ->
  exists th : R, (0 <= th <= PI /\ cos th = v3dot Rops a b /\
    harm_potential_d2 Rops k w (uv_dist2 Rops a b) = k / (2 * w ^ 2) * th ^ 2)%R.
Proof. exact harm_unit_vector. Qed.
Print Assumptions C06_harmonic_unit_vector.

(* ... the angle omega in [0, pi/2] with cos omega = |q1.q2| between two orientations (half the rotation angle; q and -q
   are the same orientation) ... *)
Theorem C06_harmonic_quaternion : forall (k w : R) (a b : quat), (w <> 0)%R -> q_unit a -> q_unit b ->
  exists om : R, (0 <= om <= PI / 2 /\ cos om = Rabs (qdot Rops a b) /\
    harm_potential_d2 Rops k w (q_dist2 Rops PI a b) = k / (2 * w ^ 2) * om ^ 2)%R.
Proof. exact harm_quaternion. Qed.
Print Assumptions C06_harmonic_quaternion.

(* ... and the Euclidean distance of 3-vectors *)
Theorem C06_harmonic_vector3 : forall (k w : R) (a b : vec3), (w <> 0)%R ->
  harm_potential_d2 Rops k w (v3_dist2 Rops a b) =
  let '(ax, ay, az) := a in let '(bx, by_, bz) := b in
  (k / (2 * w ^ 2) * ((ax - bx) ^ 2 + (ay - by_) ^ 2 + (az - bz) ^ 2))%R.
Proof. exact harm_vector3. Qed.
Print Assumptions C06_harmonic_vector3.

Theorem C06_linear : forall (k : R) (v : var) (x c : R), (v_width v <> 0)%R ->
  (lin_potential Rops k v x c = k / v_width v * (x - c) /\ lin_force Rops k v = - (k / v_width v) /\
   lin_dUdk Rops v x c = (x - c) / v_width v)%R.
Proof. exact linear_closed. Qed.
Print Assumptions C06_linear.

(* One- and two-sided walls on a non-periodic variable: half-harmonic below the lower wall (constant
   k*lk), above the upper wall (constant k*uk), zero in between. *)
Theorem C06_walls_nonperiodic : forall (k lk uk : R) (hl hu : bool) (v : var) (x L U : R),
  (v_width v <> 0)%R -> v_periodic v = false ->
  (hl = true -> (x < L)%R ->
     (walls_potential Rops k lk uk hl hu v x L U = k * lk / (2 * v_width v ^ 2) * (x - L) ^ 2 /\
      walls_force Rops k lk uk hl hu v x L U = - (k * lk / v_width v ^ 2) * (x - L))%R) /\
  ((hl = false \/ (L <= x)%R) -> hu = true -> (U < x)%R ->
     (walls_potential Rops k lk uk hl hu v x L U = k * uk / (2 * v_width v ^ 2) * (x - U) ^ 2 /\
      walls_force Rops k lk uk hl hu v x L U = - (k * uk / v_width v ^ 2) * (x - U))%R) /\
  ((hl = false \/ (L <= x)%R) -> (hu = false \/ (x <= U)%R) ->
     (walls_potential Rops k lk uk hl hu v x L U = 0 /\ walls_force Rops k lk uk hl hu v x L U = 0)%R).
Proof. exact walls_nonperiodic. Qed.
Print Assumptions C06_walls_nonperiodic.

(* Two walls on a PERIODIC variable (period P, L < U, U - L < P), dL and dU the shortest-image signed distances
   of x to the walls.  Inside the walls (an image of x lies in [L, U]) there is no energy and no force.  Outside,
   the CLOSER wall (in shortest-image distance) acts: x is then on its outer side (dL < 0, resp. 0 < dU) and the
   energy is the half-harmonic k*(lk|uk)/(2 w^2) d^2 in that distance, the force minus its derivative. *)
Theorem C06_walls_closest : forall (k lk uk : R) (hl hu : bool) (v : var) (x L U : R),
  (v_width v <> 0)%R -> v_periodic v = true -> (0 < v_period v)%R -> (L < U)%R -> (U - L < v_period v)%R ->
  let dL := RestraintModel.pdiff Rops v x L in let dU := RestraintModel.pdiff Rops v x U in
  ((exists n : Z, (L <= x - IZR n * v_period v <= U)%R) ->
     (walls_potential Rops k lk uk hl hu v x L U = 0 /\ walls_force Rops k lk uk hl hu v x L U = 0)%R) /\
  ((~ exists n : Z, (L <= x - IZR n * v_period v <= U)%R) ->
     ((dL ^ 2 < dU ^ 2)%R -> (dL < 0 /\
        walls_potential Rops k lk uk hl hu v x L U = k * lk / (2 * v_width v ^ 2) * dL ^ 2 /\
        walls_force Rops k lk uk hl hu v x L U = - (k * lk / v_width v ^ 2) * dL)%R) /\
     ((dU ^ 2 <= dL ^ 2)%R -> (0 < dU /\
        walls_potential Rops k lk uk hl hu v x L U = k * uk / (2 * v_width v ^ 2) * dU ^ 2 /\
        walls_force Rops k lk uk hl hu v x L U = - (k * uk / v_width v ^ 2) * dU)%R)).
Proof. exact walls_periodic. Qed.
Print Assumptions C06_walls_closest.

(* the rescaling done at initialisation keeps the configured lower/upper wall constants *)
Theorem C06_walls_constants : forall lk uk : R, (0 < lk)%R -> (0 < uk)%R ->
  let '(k, a, b) := walls_init Rops true true lk uk in (k * a = lk /\ k * b = uk /\ 0 < k)%R.
Proof. exact walls_init_products. Qed.
Print Assumptions C06_walls_constants.

(* ABMD ratchet: energy 1/2 k min(0, s (x - ref))^2, force minus its derivative; the reference never moves
   backwards, and it moves (to the current value) only while it has not passed the stopping value. *)
Theorem C06_abmd_ratchet : forall (k stop : R) (dec : bool) (s : abmd_state) (x : R),
  let ref := if ab_init s then ab_ref s else x in
  let sg := (if dec then -1 else 1)%R in
  let '(s', (e, f)) := abmd_step Rops k stop dec s x in
  (e = k / 2 * (Rmin 0 ((x - ref) * sg)) ^ 2 /\
   f = - sg * k * Rmin 0 ((x - ref) * sg) /\
   0 <= (ab_ref s' - ref) * sg /\
   (0 < (ab_ref s' - ref) * sg -> ab_ref s' = x /\ (ref - stop) * sg <= 0))%R /\
  ab_init s' = true.
Proof. exact abmd_ratchet_stmt. Qed.
Print Assumptions C06_abmd_ratchet.

(* histogramRestraint on M scalar values xs (grid points xi_g = lower + (g + 1/2) width, reference histogram refp):
   the energy is 1/2 (k M) sum_g (h(xi_g) - h0_g)^2 with h(xi) = 1/(M sqrt(2 pi sigma^2)) sum_i exp(-(xi - x_i)^2/(2 sigma^2))
   (hist_h), and the force on each value is MINUS THE DERIVATIVE of that energy with respect to that value.
   NOTE the factor k M: the manual used to give 1/2 k INTEGRAL (h - h0)^2 dxi ~ 1/2 k width sum_g (...)^2; its equation was
   corrected to this sum (fix commit, finding potential:histogram:energy-scale). *)
Theorem C06_histogram_restraint : forall (k sigma lower width : R) (refp pre post : list R) (x : R), (0 < sigma)%R ->
  let xs := pre ++ x :: post in
  hist_energy Rops k PI sigma lower width refp xs =
    Rsum (map2 (fun xg r => 1 / 2 * (k * INR (length xs)) * (hist_h sigma xs xg - r) ^ 2)%R
               (hist_grid Rops lower width (length refp)) refp) /\
  is_derive (fun y => hist_energy Rops k PI sigma lower width refp (pre ++ y :: post)) x
            (- nth (length pre) (hist_forces Rops k PI sigma lower width refp xs) 0)%R.
Proof. exact hist_statement. Qed.
Print Assumptions C06_histogram_restraint.

(* ---- schedules: functions of the step number alone, for every segmentation --------------------- *)
(* A history is any non-empty list of events: plain engine steps, steps computed again at an in-process run
   boundary (simulation_continuing), steps computed again after save / new process / load (step_relative = 0).
   These theorems hold for EVERY numeric carrier (in particular R and IEEE doubles): the parameters are the same
   expression of the step number whatever the segmentation. *)

(* the step number after a history = start + number of plain steps after the first event *)
Theorem C06_step_number : forall T (O : NumOps T) (c : rcfg) e evs,
  m_it (run O c (e :: evs)) = (c_it0 c + count_steps evs)%Z.
Proof. exact @run_it. Qed.
Print Assumptions C06_step_number.

(* continuous moving centres: centre(t) = wrap (interpolate c0 c1 (min(t - t0, N)/N)) *)
Theorem C06_center_schedule_any_segmentation : forall T (O : NumOps T) (c : rcfg) (evs : list event),
  c_chg_centers c = true -> c_nstages c = 0%Z -> (0 <= c_nsteps c)%Z -> evs <> [] ->
  s_centers (m_st (run O c evs)) = closed_centers O c (m_it (run O c evs)) /\
  s_first (m_st (run O c evs)) = c_it0 c.
Proof. exact @center_schedule_continuous. Qed.
Print Assumptions C06_center_schedule_any_segmentation.

(* continuously changing force constant: k(t) = k0 + (k1 - k0) lambda^e, lambda = min(t - t0, N)/N (1 - that when decoupling) *)
Theorem C06_k_schedule_any_segmentation : forall T (O : NumOps T) (c : rcfg) (evs : list event),
  c_chg_k c = true -> c_nstages c = 0%Z -> (0 <= c_nsteps c)%Z -> evs <> [] ->
  s_k (m_st (run O c evs)) = closed_k O c (m_it (run O c evs)) /\
  s_first (m_st (run O c evs)) = c_it0 c.
Proof. exact @k_schedule_continuous. Qed.
Print Assumptions C06_k_schedule_any_segmentation.

(* staged force constant (targetNumStages or lambdaSchedule, with decoupling / lambdaExponent): after ANY history
   stage = min(nstages, (t - t0)/N) and k = k0 + (k1 - k0) lambda_stage^e *)
Theorem C06_k_schedule_staged : forall T (O : NumOps T) (c : rcfg) (evs : list event),
  c_chg_k c = true -> c_chg_centers c = false -> (0 < c_nstages c)%Z -> (0 < c_nsteps c)%Z -> evs <> [] ->
  s_stage (m_st (run O c evs)) = stage_closed c (m_it (run O c evs)) /\
  s_k (m_st (run O c evs)) = closed_k_staged O c (m_it (run O c evs)) /\
  s_first (m_st (run O c evs)) = c_it0 c.
Proof. exact @k_schedule_staged. Qed.
Print Assumptions C06_k_schedule_staged.

(* staged centres, every targetNumSteps >= 1: after ANY history the centres have moved
   nmoves(t) = min(nstages + 1, (t - t0 - 1)/N + 1) times (0 at t0) and are at wrap(interpolate c0 c1 ((nmoves - 1)/nstages)) *)
Theorem C06_center_schedule_staged : forall T (O : NumOps T) (c : rcfg) (evs : list event),
  c_chg_centers c = true -> c_chg_k c = false -> (0 < c_nstages c)%Z -> (0 < c_nsteps c)%Z -> evs <> [] ->
  s_centers (m_st (run O c evs)) = closed_centers_staged O c (m_it (run O c evs)) /\
  s_stage (m_st (run O c evs)) = nmoves c (m_it (run O c evs)) /\
  s_first (m_st (run O c evs)) = c_it0 c.
Proof. exact @center_schedule_staged. Qed.
Print Assumptions C06_center_schedule_staged.

(* ---- centres of ANY value type (generic machine RestraintGen.v: scalar, periodic, 3-vector, unit vector, quaternion, vector
   centres; colvarvalue::interpolate incl. the normalisation of unit vectors and quaternions, colvar::wrap) ---------------- *)
(* continuous: after ANY history centre_i(t) = wrap_i (interpolate_i c0_i c1_i (min(t - t0, N)/N)) *)
Theorem C06_center_schedule_any_type : forall T (O : NumOps T) (pi : T) (c : gcfg) (evs : list gevent),
  g_chg c = true -> g_nstages c = 0%Z -> (0 <= g_nsteps c)%Z -> evs <> [] ->
  gs_centers (gm_st (grun O pi c evs)) = gclosed_centers O c (gm_it (grun O pi c evs)) /\
  gs_first (gm_st (grun O pi c evs)) = g_it0 c.
Proof. exact @gcenter_schedule_continuous. Qed.
Print Assumptions C06_center_schedule_any_type.

(* staged, every targetNumSteps >= 1 *)
Theorem C06_center_schedule_staged_any_type : forall T (O : NumOps T) (pi : T) (c : gcfg) (evs : list gevent),
  g_chg c = true -> (0 < g_nstages c)%Z -> (0 < g_nsteps c)%Z -> evs <> [] ->
  gs_centers (gm_st (grun O pi c evs)) = gclosed_centers_staged O c (gm_it (grun O pi c evs)) /\
  gs_stage (gm_st (grun O pi c evs)) = gnmoves c (gm_it (grun O pi c evs)) /\
  gs_first (gm_st (grun O pi c evs)) = g_it0 c.
Proof. exact @gcenter_schedule_staged. Qed.
Print Assumptions C06_center_schedule_staged_any_type.

(* the scheduled centre of a unit-vector / quaternion variable is on the manifold whenever the interpolation is defined
   (the code raises "interpolation ... is undefined" otherwise): C18's lemmas about colvarvalue::interpolate *)
Theorem C06_scheduled_center_on_manifold : forall (a b : vec3) (q1 q2 : quat) (l : R),
  (uv_interp_undefined Rops a b l = false -> cv_interp Rops KUnit (V3 a) (V3 b) l = V3 (uv_interp Rops a b l) /\ is_unit (uv_interp Rops a b l)) /\
  (q_interp_undefined Rops PI q1 q2 l = false -> cv_interp Rops KQuat (VQ q1) (VQ q2) l = VQ (q_interp Rops q1 q2 l) /\ q_unit (q_interp Rops q1 q2 l)).
Proof. exact scheduled_center_on_manifold. Qed.
Print Assumptions C06_scheduled_center_on_manifold.

(* ---- changing force constant / staged TI on manifold-valued variables (fixed centre): reduction to the scalar model ----
   The energy and dU/dk of the harmonic restraint on a unit-vector (quaternion) variable are, step by step, those of the
   scalar harmonic restraint (centre 0, same width, not periodic) on the geodesic distance theta (omega); hence
   C06_k_schedule_any_segmentation, C06_k_schedule_staged, C06_acc_work_k_is_sum, C06_ti_stage_mean and
   C06_ti_line_once_per_stage hold for such a restraint with the history of geodesic distances as values. *)
Theorem C06_k_moving_on_unit_vector : forall (k w : R) (a b : vec3), (w <> 0)%R -> is_unit a -> is_unit b ->
  exists th : R, (0 <= th <= PI /\ cos th = v3dot Rops a b /\
    harm_potential_d2 Rops k w (uv_dist2 Rops a b) = harm_potential Rops k (mkVar w false 0 0) th 0 /\
    harm_potential_d2 Rops 1 w (uv_dist2 Rops a b) = harm_dUdk Rops (mkVar w false 0 0) th 0)%R.
Proof. exact manifold_reduction_unit. Qed.
Print Assumptions C06_k_moving_on_unit_vector.

Theorem C06_k_moving_on_quaternion : forall (k w : R) (a b : quat), (w <> 0)%R -> q_unit a -> q_unit b ->
  exists om : R, (0 <= om <= PI / 2 /\ cos om = Rabs (qdot Rops a b) /\
    harm_potential_d2 Rops k w (q_dist2 Rops PI a b) = harm_potential Rops k (mkVar w false 0 0) om 0 /\
    harm_potential_d2 Rops 1 w (q_dist2 Rops PI a b) = harm_dUdk Rops (mkVar w false 0 0) om 0)%R.
Proof. exact manifold_reduction_quat. Qed.
Print Assumptions C06_k_moving_on_quaternion.

(* the order of updates inside one step: centres -> force constant (TI accumulation with dU/dk at the CURRENT values and the
   updated centres) -> energy and forces at the CURRENT values with the updated parameters -> accumulated work *)
Theorem C06_update_order : forall T (O : NumOps T) (c : rcfg) (s : rstate) (t rel : Z) (cont : bool) (xs : list T),
  let s1 := centers_update O c s t rel cont in
  let s2 := fst (k_update O c s1 t rel cont xs) in
  o_energy (snd (rstep O c s t rel cont xs)) = sumT O (map (@pot3 T) (terms O c s2 xs)) /\
  o_forces (snd (rstep O c s t rel cont xs)) = map (@frc3 T) (terms O c s2 xs) /\
  o_log (snd (rstep O c s t rel cont xs)) = snd (k_update O c s1 t rel cont xs) /\
  fst (rstep O c s t rel cont xs) = work_k O c (work_centers O c s2 t rel (map (@frc3 T) (terms O c s2 xs))) rel xs.
Proof. exact @rstep_order. Qed.
Print Assumptions C06_update_order.

(* ---- accumulated work (R instance) ------------------------------------------------------------- *)
(* steps_of c evs = the steps of the history with their values, each step once (run boundaries and restarts
   compute a step again and add nothing).  W = sum over the steps s of dU/dk(x_s) (k(s) - k(s-1)), k the schedule. *)
Theorem C06_acc_work_k_is_sum : forall (c : @rcfg R) (evs : list event),
  c_chg_k c = true -> c_chg_centers c = false -> c_nstages c = 0%Z -> (0 <= c_nsteps c)%Z -> c_acc_work c = true ->
  s_W (m_st (run Rops c evs)) =
  fold_left Rplus
    (map (fun p => dUdk_sum Rops c (init_state Rops c) (snd p) * (closed_k Rops c (fst p) - closed_k Rops c (fst p - 1)))%R
         (steps_of c evs)) 0%R.
Proof. exact work_k_sum. Qed.
Print Assumptions C06_acc_work_k_is_sum.

(* W = sum over the steps s <= t0 + N of sum_i F_i(s) d_i(s): F the restraint force at the scheduled centres of
   step s, d_i(s) the closest-image difference between the scheduled (unwrapped) centres of steps s and s - 1 *)
Theorem C06_acc_work_centers_is_sum : forall (c : @rcfg R) (evs : list event),
  c_chg_centers c = true -> c_chg_k c = false -> c_nstages c = 0%Z -> (0 <= c_nsteps c)%Z -> c_acc_work c = true ->
  List.Forall var_ok (c_vars c) ->
  s_W (m_st (run Rops c evs)) = fold_left Rplus (map (wc_term c) (steps_of c evs)) 0%R.
Proof. exact work_centers_sum. Qed.
Print Assumptions C06_acc_work_centers_is_sum.

(* ... and the closest-image difference is the plain difference whenever the centre moves by less than half a period per step *)
Theorem C06_acc_work_small_increment : forall (v : @var R) (a b : R), var_ok v ->
  (v_periodic v = true -> (- v_period v / 2 <= a - b < v_period v / 2)%R) -> RestraintModel.pdiff Rops v a b = (a - b)%R.
Proof. exact pdiff_small. Qed.
Print Assumptions C06_acc_work_small_increment.

(* ---- staged TI (every carrier, every segmentation) --------------------------------------------- *)
(* When the new step t' ends a stage of the documented transformation (t' - t0 a multiple of N, at most (nstages+1) N),
   the line written is (lambda of the stage, S / (N - equil)) where S is the sum of dU/dlambda over the sampled steps of
   the stage (steps t' - N < s <= t' with equil = 0 or (s - t0) mod N >= equil, each step once), and there are exactly
   N - equil of them: the value is the MEAN of dU/dlambda over the stage's post-equilibration steps. *)
Theorem C06_ti_stage_mean : forall T (O : NumOps T) (c : rcfg) (evs : list event) (xs : list T),
  c_chg_k c = true -> c_chg_centers c = false -> (0 < c_nstages c)%Z -> (0 < c_nsteps c)%Z ->
  (0 <= c_equil c < c_nsteps c)%Z -> evs <> [] ->
  let m := run O c evs in
  let t' := (m_it m + 1)%Z in
  ((t' - c_it0 c) mod c_nsteps c = 0)%Z -> (t' - c_it0 c <= (c_nstages c + 1) * c_nsteps c)%Z ->
  let hist := evs ++ [EStep xs] in
  exists st out, m_outs (run O c hist) = m_outs m ++ [(t', st, out)] /\
    o_log out = Some (stage_lambda O c ((t' - c_it0 c) / c_nsteps c - 1),
                      ndiv O (ti_sum O c (t' - c_nsteps c) hist) (nofZ O (c_nsteps c - c_equil c))) /\
    ti_cnt c (t' - c_nsteps c) hist = (c_nsteps c - c_equil c)%Z.
Proof. intros T O c evs xs H1 H2 H3 H4 H5 H6. exact (ti_stage_mean O c H1 H2 H3 H4 H5 evs xs H6). Qed.
Print Assumptions C06_ti_stage_mean.

(* a dA/dLambda line is written only by a NEW step that ends a stage: once per stage, whatever the segmentation *)
Theorem C06_ti_line_once_per_stage : forall T (O : NumOps T) (c : rcfg) (evs : list event) (e : event),
  c_chg_k c = true -> c_chg_centers c = false -> (0 < c_nstages c)%Z -> (0 < c_nsteps c)%Z ->
  (0 <= c_equil c < c_nsteps c)%Z -> evs <> [] ->
  line_of O c evs e <> None ->
  is_new (run O c evs) e = true /\ ((m_it (run O c evs) + 1 - c_it0 c) mod c_nsteps c = 0)%Z.
Proof. intros T O c evs e H1 H2 H3 H4 H5 H6. exact (ti_line_only_at_stage_end O c H1 H2 H3 H4 H5 evs e H6). Qed.
Print Assumptions C06_ti_line_once_per_stage.

(* ---- timeStepFactor f (the bias is updated only at steps that are multiples of f; run protocol run_tsf) ----------------
   The schedule tests carry the factor (centers_update_tsf: continuous update while t - t0 < N + f with lambda = min(t - t0, N)/N,
   staged move when (t - t0 - 1) mod N < f); for f = 1 they are the tests of the model used everywhere else: *)
Theorem C06_timestepfactor_one : forall T (O : NumOps T) (c : rcfg) (s : rstate) (t rel : Z) (cont : bool) (xs : list T),
  (0 < c_nsteps c)%Z ->
  centers_update_tsf O 1 c s t rel cont = centers_update O c s t rel cont /\
  k_update_tsf O 1 c s t rel cont xs = k_update O c s t rel cont xs.
Proof. exact @tsf_one. Qed.
Print Assumptions C06_timestepfactor_one.

(* Continuously moving centres are, after ANY history, the scheduled centres of the last updated step f * (t / f) (the
   configured centres before the first update); in particular they reach their targets whatever targetNumSteps is. *)
Theorem C06_center_schedule_timestepfactor : forall T (O : NumOps T) (f : Z) (c : rcfg) (evs : list event),
  (0 < f)%Z -> c_chg_centers c = true -> c_nstages c = 0%Z -> (0 <= c_nsteps c)%Z -> (0 <= c_it0 c)%Z -> evs <> [] ->
  let m := run_tsf O f c evs in
  ((c_it0 c <= last_update f (m_it m))%Z -> s_centers (m_st m) = closed_centers O c (last_update f (m_it m))) /\
  ((last_update f (m_it m) < c_it0 c)%Z -> s_centers (m_st m) = c_centers0 c).
Proof. exact @center_schedule_tsf. Qed.
Print Assumptions C06_center_schedule_timestepfactor.

(* ---- the TI estimator attached to a bias (colvarbias_ti, writeTISamples / writeTIPMF), every carrier, every segmentation ----
   After ANY history the count and sum grids hold exactly the samples of the specification ti_samples: every NEW step (an
   engine step that is not the first computation) contributes ONE sample - with same-step total forces its own total force
   in the bin of its own value; with lagged total forces (its total force - the force this bias applied at the preceding
   computation) in the bin of the preceding computation's value; steps computed again (run boundary, restart) add nothing. *)
Theorem C06_ti_estimator_samples : forall T (O : NumOps T) (c : ticfg) (it0 : Z) (evs : list tievent) (b : Z),
  ts_cnt (tm_st (ti_run O c it0 evs)) b = cnt_of (ti_samples O c None evs) b /\
  ts_sum (tm_st (ti_run O c it0 evs)) b = sum_of O (ti_samples O c None evs) b.
Proof. exact @ti_estimator_samples. Qed.
Print Assumptions C06_ti_estimator_samples.

(* ... and with lagged forces that sample is the SYSTEM force of the preceding computation whenever the engine's total force
   is system force + the force this bias applied there *)
Theorem C06_ti_estimator_lagged_system_force : forall (c : @ticfg R) (p i : @tiin R) (sys : R),
  ti_same c = false -> in_tf i = (sys + in_fb p)%R ->
  ti_here Rops c (Some p) (TStep i) = if bin_ok c (bin_of Rops c (in_x p)) then [(bin_of Rops c (in_x p), sys)] else [].
Proof. exact ti_lagged_sample_is_system_force. Qed.
Print Assumptions C06_ti_estimator_lagged_system_force.

(* energy_difference (replica exchange entry point colvarmodule::energy_difference) of a harmonic restraint with fixed
   parameters: the alternative energy minus the current one, both in closed form (rediff never touches the state) *)
Theorem C06_energy_difference : forall (c : @rcfg R) (s : @rstate R) (v : @var R) (x ce k' ce' : R),
  c_kind c = Harmonic -> c_vars c = [v] -> s_centers s = [ce] -> (v_width v <> 0)%R -> v_periodic v = false ->
  rediff Rops c s [x] (Some k') (Some [ce']) =
  (k' / (2 * v_width v ^ 2) * (x - ce') ^ 2 - s_k s / (2 * v_width v ^ 2) * (x - ce) ^ 2)%R.
Proof. exact rediff_harmonic_closed. Qed.
Print Assumptions C06_energy_difference.

(* ---- non-vacuity and regression examples (rational carrier, vm_compute) ------------------------- *)
(* a 3-stage lambda schedule run in one segment reaches the last stage with the last force constant *)
Example C06_example_three_stages :
  let c := mkCfg Harmonic [wv] [1%Q] false [1%Q] 2%Q true false 2%Q 4%Q 1%Q [0; 1#4; 1#2; 1]%Q 2%Z 3%Z 0%Z
                 false false false [0%Q] [0%Q] (-1)%Q (-1)%Q 0%Z in
  let evs := half_steps 8 in
  c_chg_k c = true /\ m_it (run Qops c evs) = 7%Z /\
  s_stage (m_st (run Qops c evs)) = 3%Z /\ s_k (m_st (run Qops c evs)) = 4%Q /\
  stage_closed c 7 = 3%Z.
Proof. vm_compute. repeat split; repeat constructor. Qed.

(* continuous centre with a boundary and a restart in the history: the hypotheses are satisfiable and the centre is at 2 at step 2 *)
Example C06_example_continuous_segmented :
  let c := mkCfg Harmonic [wv] [1%Q] true [3%Q] 2%Q false false (-1)%Q (-1)%Q 1%Q [] 4%Z 0%Z 0%Z
                 true false false [0%Q] [0%Q] (-1)%Q (-1)%Q 0%Z in
  let evs := [S (1#2); S (1#2); EBoundary [1#2]; S (1#2); ERestart [1#2]]%Q in
  c_chg_centers c = true /\ m_it (run Qops c evs) = 2%Z /\ s_centers (m_st (run Qops c evs)) = [2%Q] /\
  closed_centers Qops c 2 = [2%Q].
Proof. vm_compute. repeat split. Qed.

(* the histories that broke the unrepaired code (k 2 -> 4, N 3, 2 stages; run boundary resp. restart exactly at the end of
   stage 0): the stage advances once, k = 3 at step 3 *)
Example C06_example_staged_k_boundary_and_restart :
  s_k (m_st (run Qops (cfg_ks 1) (half_steps 4 ++ [EBoundary [1#2]%Q]))) = 3%Q /\
  s_k (m_st (run Qops (cfg_ks 1) (half_steps 4 ++ [ERestart [1#2]%Q]))) = 3%Q /\
  closed_k_staged Qops (cfg_ks 1) 3 = 3%Q /\
  c_chg_k (cfg_ks 1) = true /\ c_chg_centers (cfg_ks 1) = false /\ (0 < c_nstages (cfg_ks 1))%Z /\ (0 <= c_equil (cfg_ks 1) < c_nsteps (cfg_ks 1))%Z.
Proof. vm_compute. repeat split; discriminate. Qed.

(* staged centres 1 -> 3 in 2 stages: a run boundary on the first step of a stage does not move them twice (N = 2),
   and with targetNumSteps 1 they move at every step: 1, 1, 2, 3, 3 at steps 0..4 *)
Example C06_example_staged_centres :
  s_centers (m_st (run Qops (cfg_cs 2) (half_steps 2 ++ [EBoundary [1#2]%Q]))) = [1%Q] /\
  map (fun n => s_centers (m_st (run Qops (cfg_cs 1) (half_steps n)))) [1; 2; 3; 4; 5]%nat = [[1]; [1]; [2]; [3]; [3]]%Q /\
  c_chg_centers (cfg_cs 1) = true /\ c_chg_k (cfg_cs 1) = false /\ c_nsteps (cfg_cs 1) = 1%Z.
Proof. vm_compute. repeat split. Qed.

(* work of k 1 -> 3 in 2 steps stays at its final value after the schedule's end; work of a centre moving across the
   wrapping boundary of a periodic variable uses increments of 1/2 *)
Example C06_example_work :
  s_W (m_st (run Qops cfg_kc (half_steps 3))) = 1%Q /\ s_W (m_st (run Qops cfg_kc (half_steps 6))) = 1%Q /\
  s_incr (m_st (run Qops cfg_ccp (half_steps 3))) = [1#2]%Q /\
  c_acc_work cfg_kc = true /\ c_acc_work cfg_ccp = true.
Proof. vm_compute. repeat split. Qed.

(* TI, no equilibration, dU/dlambda = 1 at every step: the first stage's line is (0, 1); with a run boundary inside the
   stage (equil 1, N 3) the line of stage 0 is (0, 1) as well, and so it is with a restart *)
Example C06_example_ti :
  option_map (fun p => (fst p, Qred (snd p))) (o_log (snd (last (m_outs (run Qops (cfg_ks 0) (half_steps 4))) (0%Z, init_state Qops (cfg_ks 0), mkOut 0%Q [] None)))) = Some (0, 1)%Q /\
  o_log (snd (last (m_outs (run Qops (cfg_ks 1) (half_steps 3 ++ [EBoundary [1#2]%Q; S (1#2)%Q]))) (0%Z, init_state Qops (cfg_ks 1), mkOut 0%Q [] None))) = Some (0, 1)%Q /\
  o_log (snd (last (m_outs (run Qops (cfg_ks 1) (half_steps 3 ++ [ERestart [1#2]%Q; S (1#2)%Q]))) (0%Z, init_state Qops (cfg_ks 1), mkOut 0%Q [] None))) = Some (0, 1)%Q.
Proof. vm_compute. repeat split. Qed.

(* periodic harmonic: x = 3.5, c = 0, P = 4: shortest image is -0.5 *)
Example C06_example_periodic : RestraintModel.pshift Rops 4%R (3.5 - 0)%R = 1%Z.
Proof. unfold pshift, half, nhalf; cbn. apply Zfloor_spec. simpl. lra. Qed.

(* unit vectors and unit quaternions exist: premises of the manifold theorems are satisfiable *)
Example C06_example_manifold : is_unit (0, 1, 0)%R /\ is_unit (1, 0, 0)%R /\ q_unit (1, 0, 0, 0)%R /\ q_unit (0, 0, 1, 0)%R.
Proof. unfold is_unit, q_unit, v3norm2, v3dot, qdot; cbn. repeat split; lra. Qed.

(* periodic walls: period 4, walls 1 and 2, x = 3.75: outside, the upper wall is 1.75 away, the lower one 1.25 (through
   the boundary): premises of the "outside, lower wall closer" case are satisfiable *)
Example C06_example_walls_closest :
  let v := mkVar 1%R true 4%R 0%R in
  (RestraintModel.pdiff Rops v 3.75 1 = -1.25 /\ RestraintModel.pdiff Rops v 3.75 2 = 1.75 /\ ~ exists n : Z, 1 <= 3.75 - IZR n * 4 <= 2)%R.
Proof. exact example_walls_closest. Qed.
