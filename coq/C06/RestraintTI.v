(* Staged thermodynamic integration: the value written at the end of a stage is the mean of dU/dlambda over
   the stage's sampled (post-equilibration) steps, for every run segmentation.  Holds for every numeric
   carrier: the accumulator is the left-to-right sum of the samples of the stage's steps, each step counted
   once however many times it is computed. *)
From Coq Require Import ZArith List Bool Lia.
From CV Require Import Base.Num C06.RestraintModel C06.RestraintSched.
Import ListNotations.
Local Open Scope Z_scope.

Section TI.
  Context {T : Type} (O : NumOps T).
  Notation rcfg := (@rcfg T). Notation rstate := (@rstate T). Notation mstate := (@mstate T). Notation event := (@event T).

  (* ---- the new steps of a history with their step numbers: every EStep after the first event ---- *)
  Fixpoint steps_from (t : Z) (evs : list event) : list (Z * list T) :=
    match evs with
    | [] => []
    | EStep xs :: r => (t + 1, xs) :: steps_from (t + 1) r
    | _ :: r => steps_from t r
    end.
  Definition steps_of (c : rcfg) (evs : list event) : list (Z * list T) :=
    match evs with [] => [] | _ :: r => steps_from (c_it0 c) r end.

  Definition new_step (t : Z) (e : event) : list (Z * list T) :=
    match e with EStep xs => [(t + 1, xs)] | _ => [] end.

  Lemma steps_from_app t a e : steps_from t (a ++ [e]) = steps_from t a ++ new_step (t + count_steps a) e.
  Proof.
    revert t. induction a as [|e0 a IH]; intros t; cbn [app steps_from count_steps].
    - rewrite Z.add_0_r. destruct e; reflexivity.
    - destruct e0; rewrite IH; cbn [app]; try reflexivity. f_equal. f_equal. f_equal. lia.
  Qed.

  Lemma steps_of_snoc c evs e : evs <> [] ->
    steps_of c (evs ++ [e]) = steps_of c evs ++ new_step (m_it (run O c evs)) e.
  Proof.
    intros Hne. destruct evs as [|e0 r]; [contradiction|]. cbn [app steps_of].
    rewrite steps_from_app, run_it. reflexivity.
  Qed.

  Lemma steps_from_bound t evs p : In p (steps_from t evs) -> t < fst p <= t + count_steps evs.
  Proof.
    revert t. induction evs as [|e r IH]; intros t Hin; cbn [steps_from count_steps] in *; [contradiction|].
    destruct e as [xs|xs|xs].
    - destruct Hin as [<-|Hin]; cbn [fst].
      + assert (0 <= count_steps r). { clear. induction r as [|e r IH]; cbn [count_steps]; [lia|]. destruct e; lia. }
        lia.
      + specialize (IH _ Hin). lia.
    - specialize (IH _ Hin). lia.
    - specialize (IH _ Hin). lia.
  Qed.

  Lemma steps_of_bound c evs p : evs <> [] -> In p (steps_of c evs) -> c_it0 c < fst p <= m_it (run O c evs).
  Proof.
    intros Hne Hin. destruct evs as [|e0 r]; [contradiction|]. cbn [steps_of] in Hin. rewrite run_it.
    apply steps_from_bound. exact Hin.
  Qed.

  (* ---- dU/dk depends on the centres only ---- *)
  Lemma map_duk3_map3 {A B C} (f g h : A -> B -> C -> T) la lb lc :
    map (@duk3 T) (map3 (fun a b c => (f a b c, g a b c, h a b c)) la lb lc) = map3 h la lb lc.
  Proof.
    revert lb lc. induction la as [|a la IH]; intros lb lc; [reflexivity|].
    destruct lb as [|b lb]; [reflexivity|]. destruct lc as [|x lc]; [reflexivity|].
    cbn [map3 map duk3 snd]. rewrite IH. reflexivity.
  Qed.
  Lemma map_duk3_map4 {A B C D} (f g h : A -> B -> C -> D -> T) la lb lc ld :
    map (@duk3 T) (map4 (fun a b c d => (f a b c d, g a b c d, h a b c d)) la lb lc ld) = map4 h la lb lc ld.
  Proof.
    revert lb lc ld. induction la as [|a la IH]; intros lb lc ld; [reflexivity|].
    destruct lb as [|b lb]; [reflexivity|]. destruct lc as [|x lc]; [reflexivity|]. destruct ld as [|y ld]; [reflexivity|].
    cbn [map4 map duk3 snd]. rewrite IH. reflexivity.
  Qed.

  Lemma dUdk_sum_ext c s s' xs : s_centers s = s_centers s' -> dUdk_sum O c s xs = dUdk_sum O c s' xs.
  Proof.
    intros H. unfold dUdk_sum, terms. destruct (c_kind c).
    - rewrite !map_duk3_map3, H. reflexivity.
    - rewrite !map_duk3_map4. reflexivity.
    - rewrite !map_duk3_map3, H. reflexivity.
  Qed.

  (* ---- what the staged update does to the accumulator and which line it writes ---- *)
  Lemma k_update_staged_FE_spec c s t rel cont xs :
    c_chg_k c = true -> negb (c_nstages c =? 0) = true ->
    let smp := (s_first s <? t) && first_time rel cont &&
               ((c_equil c =? 0) || (Z.rem (t - s_first s) (c_nsteps c) >=? c_equil c)) in
    let FE1 := if smp then nadd O (s_FE s) (nmul O (dlambda_factor O c (stage_lambda O c (s_stage s))) (dUdk_sum O c s xs))
               else s_FE s in
    let fin := (Z.rem (t - s_first s) (c_nsteps c) =? 0) && (s_first s <? t) && first_time rel cont in
    s_FE (fst (k_update O c s t rel cont xs)) = (if fin && (s_stage s <? c_nstages c) then n0 O else FE1) /\
    snd (k_update O c s t rel cont xs) =
      (if fin then Some (stage_lambda O c (s_stage s), ndiv O FE1 (nofZ O (c_nsteps c - c_equil c))) else None).
  Proof.
    intros Hc Hne. unfold k_update. rewrite Hc, Hne.
    destruct (t =? s_first s) eqn:E1; cbn [set_k s_first s_stage s_k s_FE s_kincr].
    - apply Z.eqb_eq in E1. subst t. rewrite Z.ltb_irrefl. cbn [andb set_k s_first s_stage s_k s_FE s_kincr].
      rewrite Z.ltb_irrefl, !andb_false_r. cbn [andb fst snd set_k s_first s_stage s_k s_FE s_kincr].
      split; reflexivity.
    - destruct (s_first s <? t) eqn:E4; destruct (first_time rel cont) eqn:E0; cbn [andb];
        try destruct (_ || _); cbn [set_k s_first s_stage s_k s_FE s_kincr];
        rewrite ?E4, ?E0; rewrite ?andb_true_r, ?andb_false_r; cbn [andb];
        destruct (Z.rem (t - s_first s) (c_nsteps c) =? 0) eqn:E3; cbn [andb];
        destruct (s_stage s <? c_nstages c) eqn:E5; cbn [fst snd set_k s_first s_stage s_k s_FE s_kincr]; auto.
  Qed.

  (* ---- the specification: which steps are sampled into the window that starts after step lo ---- *)
  Definition ti_sampled (c : rcfg) (lo : Z) (p : Z * list T) : bool :=
    (lo <? fst p) && ((c_equil c =? 0) || (Z.rem (fst p - c_it0 c) (c_nsteps c) >=? c_equil c)).
  (* dU/dlambda at a step: lambda is the one of the stage in effect during the previous step, i.e. the one
     under which the configuration of this step was generated *)
  Definition ti_sample (c : rcfg) (p : Z * list T) : T :=
    nmul O (dlambda_factor O c (stage_lambda O c (stage_closed c (fst p - 1)))) (dUdk_sum O c (init_state O c) (snd p)).
  Definition ti_window (c : rcfg) (lo : Z) (evs : list event) : list (Z * list T) :=
    filter (ti_sampled c lo) (steps_of c evs).
  Definition ti_sum (c : rcfg) (lo : Z) (evs : list event) : T :=
    fold_left (nadd O) (map (ti_sample c) (ti_window c lo evs)) (n0 O).
  Definition ti_cnt (c : rcfg) (lo : Z) (evs : list event) : Z := Z.of_nat (length (ti_window c lo evs)).
  (* start of the current accumulation window after step t *)
  Definition ti_lo (c : rcfg) (t : Z) : Z := c_it0 c + c_nsteps c * ((t - c_it0 c) / c_nsteps c).
  (* number of sampled steps in the current window after step t *)
  Definition ti_cnt_closed (c : rcfg) (t : Z) : Z :=
    let r := (t - c_it0 c) mod c_nsteps c in
    if c_equil c =? 0 then r else Z.max 0 (r - c_equil c + 1).

  Lemma ti_window_snoc c lo evs e : evs <> [] ->
    ti_window c lo (evs ++ [e]) = ti_window c lo evs ++ filter (ti_sampled c lo) (new_step (m_it (run O c evs)) e).
  Proof. intros Hne. unfold ti_window. rewrite steps_of_snoc by exact Hne. apply filter_app. Qed.

  Lemma ti_window_empty c lo evs : evs <> [] -> m_it (run O c evs) <= lo -> ti_window c lo evs = [].
  Proof.
    intros Hne Hle. unfold ti_window.
    assert (H : forall p, In p (steps_of c evs) -> ti_sampled c lo p = false).
    { intros p Hin. pose proof (steps_of_bound c evs p Hne Hin) as B. unfold ti_sampled.
      destruct (lo <? fst p) eqn:E; [apply Z.ltb_lt in E; lia | reflexivity]. }
    induction (steps_of c evs) as [|p l IH]; [reflexivity|]. cbn [filter].
    rewrite (H p (or_introl eq_refl)). apply IH. intros q Hq. apply H. right. exact Hq.
  Qed.

  Lemma fold_nadd_snoc (l : list T) x : fold_left (nadd O) (l ++ [x]) (n0 O) = nadd O (fold_left (nadd O) l (n0 O)) x.
  Proof. rewrite fold_left_app. reflexivity. Qed.

  (* ---- invariant ---- *)
  Definition inv_ti (c : rcfg) (evs : list event) : Prop :=
    let m := run O c evs in
    m_it m - c_it0 c < (c_nstages c + 1) * c_nsteps c ->
    s_FE (m_st m) = ti_sum c (ti_lo c (m_it m)) evs /\ ti_cnt c (ti_lo c (m_it m)) evs = ti_cnt_closed c (m_it m).

  (* the line written by the event e after the history evs *)
  Definition line_of (c : rcfg) (evs : list event) (e : event) : option (T * T) :=
    let m := run O c evs in
    snd (k_update O c (centers_update O c (ev_s0 O c m e) (ev_it m e) (ev_it m e - ev_itr m e) (ev_cont e))
                  (ev_it m e) (ev_it m e - ev_itr m e) (ev_cont e) (ev_xs e)).

  Lemma rstep_log c s t rel cont xs :
    o_log (snd (rstep O c s t rel cont xs)) = snd (k_update O c (centers_update O c s t rel cont) t rel cont xs).
  Proof.
    unfold rstep. destruct (k_update O c (centers_update O c s t rel cont) t rel cont xs) as [s2 line].
    cbn [snd o_log]. reflexivity.
  Qed.

  Lemma arith_window a N : 0 <= a -> 0 < N ->
    ((a + 1) mod N = 0 -> N * (a / N) = a + 1 - N /\ a mod N = N - 1 /\ N * ((a + 1) / N) = a + 1) /\
    ((a + 1) mod N <> 0 -> (a + 1) / N = a / N /\ (a + 1) mod N = a mod N + 1).
  Proof.
    intros Ha HN.
    pose proof (Z.div_mod a N ltac:(lia)) as E1. pose proof (Z.div_mod (a + 1) N ltac:(lia)) as E2.
    pose proof (Z.mod_pos_bound a N HN) as B1. pose proof (Z.mod_pos_bound (a + 1) N HN) as B2.
    split; intros H.
    - assert ((a + 1) / N = a / N + 1) by nia. repeat split; nia.
    - assert ((a + 1) / N = a / N) by nia. split; nia.
  Qed.

  Section Step.
    Variable c : rcfg.
    Hypothesis Hc : c_chg_k c = true.
    Hypothesis Hcc : c_chg_centers c = false.
    Hypothesis Hn : 0 < c_nstages c.
    Hypothesis HN : 0 < c_nsteps c.
    Hypothesis Heq : 0 <= c_equil c < c_nsteps c.

    Let Hne : negb (c_nstages c =? 0) = true.
    Proof. apply negb_true_iff, Z.eqb_neq; lia. Qed.
    Let Hmov : c_chg_centers c || c_chg_k c = true.
    Proof. rewrite Hc; apply orb_true_r. Qed.

    (* the state the staged update starts from at the event e after a non-empty history *)
    Lemma pre_state evs e : evs <> [] ->
      let m := run O c evs in
      let s := centers_update O c (ev_s0 O c m e) (ev_it m e) (ev_it m e - ev_itr m e) (ev_cont e) in
      s_first s = c_it0 c /\ s_stage s = stage_closed c (m_it m) /\ s_FE s = s_FE (m_st m) /\
      s_centers s = c_centers0 c.
    Proof.
      intros Hnemp m s. unfold s. rewrite centers_update_off by exact Hcc.
      destruct (k_schedule_staged O c evs Hc Hcc Hn HN Hnemp) as [K1 [_ K3]]. fold m in K1, K3.
      rewrite (ev_s0_first O c m e Hmov), (ev_s0_stage O c m e Hmov Hne), (ev_s0_FE O c m e Hc Hne).
      repeat split; auto.
      assert (Hcen : forall evs', s_centers (m_st (run O c evs')) = c_centers0 c).
      { intros evs'. apply run_inv.
        - reflexivity.
        - intros m' e' IH. destruct (mstep_unfold O c m' e') as [_ [_ [Hst _]]]. rewrite Hst, rstep_centers.
          rewrite centers_update_off by exact Hcc.
          destruct e'; cbn [ev_s0]; try exact IH. unfold restore. rewrite Hcc. reflexivity. }
      destruct e; cbn [ev_s0]; try apply Hcen. unfold restore. rewrite Hcc. reflexivity.
    Qed.

    Lemma inv_ti_nil : inv_ti c [].
    Proof.
      unfold inv_ti, run; cbn [fold_left init_m m_it m_st init_state s_FE]. intros _.
      unfold ti_sum, ti_cnt, ti_window, steps_of, ti_cnt_closed. cbn [filter map fold_left length Z.of_nat].
      rewrite Z.sub_diag, Z.mod_0_l by lia. split; [reflexivity|]. destruct (c_equil c =? 0) eqn:E0; [lia | apply Z.eqb_neq in E0; lia].
    Qed.

    Lemma inv_ti_first e : inv_ti c [e].
    Proof.
      unfold inv_ti. intros _.
      assert (Hrun : run O c [e] = mstep O c (init_m O c) e) by reflexivity.
      destruct (mstep_unfold O c (init_m O c) e) as [Hit [_ [Hst _]]]. rewrite Hrun, Hit, Hst.
      assert (Hit0 : ev_it (init_m O c) e = c_it0 c) by (destruct e; reflexivity).
      rewrite Hit0.
      assert (Hft : first_time (c_it0 c - ev_itr (init_m O c) e) (ev_cont e) = false).
      { destruct (ev_again O c (init_m O c) e (inv_p_init O c)) as [_ H]; [destruct e; reflexivity|].
        rewrite Hit0 in H. exact H. }
      destruct (rstep_fields O c (ev_s0 O c (init_m O c) e) (c_it0 c) (c_it0 c - ev_itr (init_m O c) e) (ev_cont e) (ev_xs e))
        as [_ [_ [_ [_ [F5 _]]]]]. rewrite F5. unfold upd. rewrite centers_update_off by exact Hcc.
      destruct (k_update_staged_FE_spec c (ev_s0 O c (init_m O c) e) (c_it0 c) (c_it0 c - ev_itr (init_m O c) e) (ev_cont e) (ev_xs e) Hc Hne)
        as [S1 _]. rewrite S1, Hft, !andb_false_r. cbn [andb].
      unfold ti_sum, ti_cnt, ti_window, steps_of, ti_cnt_closed. cbn [steps_from filter map fold_left length Z.of_nat].
      rewrite Z.sub_diag, Z.mod_0_l by lia. split.
      - destruct e; cbn [ev_s0 init_m m_st init_state s_FE]; try reflexivity.
        unfold restore. cbn [s_FE]. destruct (c_chg_k c && negb (c_nstages c =? 0)); reflexivity.
      - destruct (c_equil c =? 0) eqn:E0; [lia | apply Z.eqb_neq in E0; lia].
    Qed.

    (* main step: the invariant is kept, and the line written is the one of the specification *)
    Lemma inv_ti_step evs e : evs <> [] -> inv_ti c evs ->
      inv_ti c (evs ++ [e]) /\
      let m := run O c evs in
      (m_it m - c_it0 c < (c_nstages c + 1) * c_nsteps c ->
       line_of c evs e =
         if is_new m e && ((m_it m + 1 - c_it0 c) mod c_nsteps c =? 0)
         then Some (stage_lambda O c (stage_closed c (m_it m)),
                    ndiv O (ti_sum c (m_it m + 1 - c_nsteps c) (evs ++ [e])) (nofZ O (c_nsteps c - c_equil c)))
         else None) /\
      (line_of c evs e <> None -> is_new m e = true /\ (m_it m + 1 - c_it0 c) mod c_nsteps c = 0).
    Proof.
      intros Hnemp Hinv.
      pose proof (run_inv_p O c evs) as Hp.
      set (m := run O c evs) in *.
      destruct (pre_state evs e Hnemp) as [P1 [P2 [P3 P4]]]. fold m in P1, P2, P3, P4.
      set (s := centers_update O c (ev_s0 O c m e) (ev_it m e) (ev_it m e - ev_itr m e) (ev_cont e)) in *.
      destruct (k_update_staged_FE_spec c s (ev_it m e) (ev_it m e - ev_itr m e) (ev_cont e) (ev_xs e) Hc Hne) as [S1 S2].
      rewrite P1, P2, P3 in S1, S2.
      assert (Hdk : dUdk_sum O c s (ev_xs e) = dUdk_sum O c (init_state O c) (ev_xs e)).
      { apply dUdk_sum_ext. rewrite P4. reflexivity. }
      rewrite Hdk in S1, S2.
      assert (HFE : s_FE (m_st (run O c (evs ++ [e]))) = s_FE (fst (k_update O c s (ev_it m e) (ev_it m e - ev_itr m e) (ev_cont e) (ev_xs e)))).
      { rewrite run_snoc. fold m. destruct (mstep_unfold O c m e) as [_ [_ [Hst _]]]. rewrite Hst.
        destruct (rstep_fields O c (ev_s0 O c m e) (ev_it m e) (ev_it m e - ev_itr m e) (ev_cont e) (ev_xs e))
          as [_ [_ [_ [_ [F5 _]]]]]. rewrite F5. reflexivity. }
      assert (Hit : m_it (run O c (evs ++ [e])) = ev_it m e).
      { rewrite run_snoc. fold m. destruct (mstep_unfold O c m e) as [H _]. exact H. }
      assert (Hnf : m_fresh m = false) by (apply run_not_fresh; exact Hnemp).
      destruct (is_new m e) eqn:Enew.
      - (* a new step t' = t + 1 *)
        destruct (ev_new O c m e Hp Enew) as [Ht [Hft _]].
        destruct e as [xs| |]; cbn [is_new] in Enew; try discriminate. cbn [ev_xs] in *.
        destruct Hp as [_ [Hle _]].
        set (t := m_it m) in *. set (a := t - c_it0 c). assert (Ha : 0 <= a) by (unfold a; lia).
        rewrite Hft in S1, S2. rewrite Ht in S1, S2, HFE.
        assert (Hlt : c_it0 c <? t + 1 = true) by (apply Z.ltb_lt; lia).
        rewrite Hlt in S1, S2. cbn [andb] in S1, S2. rewrite !andb_true_r in S1, S2.
        replace (t + 1 - c_it0 c) with (a + 1) in S1, S2 by (unfold a; lia).
        rewrite Z.rem_mod_nonneg in S1, S2 by lia.
        destruct (arith_window a (c_nsteps c) Ha HN) as [W0 W1].
        (* the window of the history with the new step *)
        assert (Hwin : forall lo, ti_window c lo (evs ++ [EStep xs]) =
                       ti_window c lo evs ++ (if ti_sampled c lo (t + 1, xs) then [(t + 1, xs)] else [])).
        { intros lo. rewrite ti_window_snoc by exact Hnemp. fold m. fold t. cbn [new_step filter]. reflexivity. }
        assert (Hsmp : forall lo, lo < t + 1 -> ti_sampled c lo (t + 1, xs) =
                                  ((c_equil c =? 0) || ((a + 1) mod c_nsteps c >=? c_equil c))).
        { intros lo Hlo. unfold ti_sampled. cbn [fst].
          replace (t + 1 - c_it0 c) with (a + 1) by (unfold a; lia). rewrite Z.rem_mod_nonneg by lia.
          destruct (lo <? t + 1) eqn:E; [reflexivity | apply Z.ltb_ge in E; lia]. }
        assert (Hsample : ti_sample c (t + 1, xs) =
                          nmul O (dlambda_factor O c (stage_lambda O c (stage_closed c t))) (dUdk_sum O c (init_state O c) xs)).
        { unfold ti_sample. cbn [fst snd]. replace (t + 1 - 1) with t by lia. reflexivity. }
        assert (Hlo_lt : ti_lo c t < t + 1).
        { unfold ti_lo. fold a. pose proof (Z.mul_div_le a (c_nsteps c) HN). lia. }
        (* accumulator after sampling, in terms of the specification *)
        set (smp := (c_equil c =? 0) || ((a + 1) mod c_nsteps c >=? c_equil c)) in *.
        assert (HFE1 : a < (c_nstages c + 1) * c_nsteps c ->
                 (if smp then nadd O (s_FE (m_st m)) (nmul O (dlambda_factor O c (stage_lambda O c (stage_closed c t))) (dUdk_sum O c (init_state O c) xs))
                  else s_FE (m_st m)) = ti_sum c (ti_lo c t) (evs ++ [EStep xs]) /\
                 ti_cnt c (ti_lo c t) (evs ++ [EStep xs]) = ti_cnt_closed c t + (if smp then 1 else 0)).
        { intros Hin. destruct (Hinv Hin) as [I1 I2]. fold m in I1, I2. fold t in I1, I2.
          unfold ti_sum, ti_cnt. rewrite Hwin, (Hsmp _ Hlo_lt). fold smp.
          destruct smp.
          - rewrite map_app, fold_nadd_snoc || (rewrite map_app; cbn [map]; rewrite fold_nadd_snoc).
            all: try (cbn [map]). rewrite Hsample. fold (ti_sum c (ti_lo c t) evs). rewrite <- I1.
            split; [reflexivity|]. rewrite app_length. cbn [length]. fold (ti_window c (ti_lo c t) evs).
            unfold ti_cnt in I2. lia.
          - rewrite app_nil_r. fold (ti_sum c (ti_lo c t) evs). split; [exact I1|].
            unfold ti_cnt in I2. lia. }
        split.
        + (* invariant at t + 1 *)
          unfold inv_ti. rewrite Hit, Ht. fold t. rewrite HFE, S1. intros Hin'.
          assert (Hin : a < (c_nstages c + 1) * c_nsteps c) by (unfold a; lia).
          destruct (HFE1 Hin) as [E1 E2].
          destruct ((a + 1) mod c_nsteps c =? 0) eqn:Em; cbn [andb].
          * apply Z.eqb_eq in Em. destruct (W0 Em) as [Wa [Wb Wc]].
            assert (Hlo' : ti_lo c (t + 1) = t + 1).
            { unfold ti_lo. replace (t + 1 - c_it0 c) with (a + 1) by (unfold a; lia). rewrite Wc. unfold a. lia. }
            assert (Hstage : stage_closed c t <? c_nstages c = true).
            { apply Z.ltb_lt. unfold stage_closed. fold a.
              replace (t + 1 - c_it0 c) with (a + 1) in Hin' by (unfold a; lia).
              set (q := (a + 1) / c_nsteps c) in *. set (q0 := a / c_nsteps c) in *.
              assert (q < c_nstages c + 1) by nia.
              assert (q0 = q - 1) by nia. lia. }
            rewrite Hstage, Hlo'.
            assert (Hemp : ti_window c (t + 1) (evs ++ [EStep xs]) = []).
            { apply ti_window_empty; [destruct evs; discriminate|]. rewrite Hit, Ht. fold t. lia. }
            unfold ti_sum, ti_cnt. rewrite Hemp. cbn [map fold_left length Z.of_nat].
            split; [reflexivity|]. unfold ti_cnt_closed.
            replace (t + 1 - c_it0 c) with (a + 1) by (unfold a; lia). rewrite Em.
            destruct (c_equil c =? 0) eqn:E0; [lia | apply Z.eqb_neq in E0; lia].
          * apply Z.eqb_neq in Em. destruct (W1 Em) as [Wa Wb].
            assert (Hlo' : ti_lo c (t + 1) = ti_lo c t).
            { unfold ti_lo. replace (t + 1 - c_it0 c) with (a + 1) by (unfold a; lia). fold a. rewrite Wa. reflexivity. }
            rewrite Hlo'. split; [exact E1|]. rewrite E2. unfold ti_cnt_closed.
            replace (t + 1 - c_it0 c) with (a + 1) by (unfold a; lia). fold a. rewrite Wb.
            unfold smp. rewrite Wb.
            pose proof (Z.mod_pos_bound a (c_nsteps c) HN) as Bm.
            destruct (c_equil c =? 0) eqn:E0; cbn [orb]; [lia|].
            apply Z.eqb_neq in E0.
            destruct (a mod c_nsteps c + 1 >=? c_equil c) eqn:Ege.
            -- apply Z.geb_le in Ege. lia.
            -- rewrite Z.geb_leb in Ege. apply Z.leb_gt in Ege. lia.
        + (* the line *)
          cbv zeta. unfold line_of. fold m. fold s. rewrite Ht. fold t. cbn [ev_xs is_new]. rewrite S2, Hnf.
          cbn [andb negb]. replace (t + 1 - c_it0 c) with (a + 1) by (unfold a; lia). split.
          * intros Ein. fold a in Ein.
            destruct ((a + 1) mod c_nsteps c =? 0) eqn:Em; [|reflexivity].
            apply Z.eqb_eq in Em. destruct (W0 Em) as [Wa [Wb Wc]].
            f_equal. f_equal. f_equal.
            destruct (HFE1 Ein) as [E1 _].
            assert (Hlo : ti_lo c t = t + 1 - c_nsteps c). { unfold ti_lo. fold a. rewrite Wa. unfold a. lia. }
            rewrite Hlo in E1. exact E1.
          * intros Hl. destruct ((a + 1) mod c_nsteps c =? 0) eqn:Em; [|contradiction].
            apply Z.eqb_eq in Em. split; [reflexivity | exact Em].
      - (* the step the module is at is computed again: nothing is sampled, nothing is written *)
        destruct (ev_again O c m e Hp Enew) as [Ht Hft].
        rewrite Hft in S1, S2. repeat rewrite andb_false_r in S1. repeat rewrite andb_false_r in S2.
        cbn [andb] in S1, S2.
        split.
        + unfold inv_ti. rewrite Hit, Ht, HFE, S1. intros Hin. destruct (Hinv Hin) as [I1 I2]. fold m in I1, I2.
          assert (Hsame : forall lo, ti_window c lo (evs ++ [e]) = ti_window c lo evs).
          { intros lo. rewrite ti_window_snoc by exact Hnemp. fold m.
            destruct e as [xs| |]; cbn [new_step filter]; try apply app_nil_r.
            cbn [is_new] in Enew. rewrite Hnf in Enew. discriminate. }
          unfold ti_sum, ti_cnt. rewrite Hsame. split; [exact I1 | exact I2].
        + cbv zeta. unfold line_of. fold m. fold s. rewrite S2, Enew. cbn [andb]. split; [intros _; reflexivity | intros Hl; contradiction].
    Qed.

    Lemma inv_ti_all evs : inv_ti c evs.
    Proof.
      induction evs as [|e evs IH] using rev_ind; [apply inv_ti_nil|].
      destruct evs as [|e0 r]; [apply inv_ti_first|].
      apply inv_ti_step; [discriminate | exact IH].
    Qed.

    (* FULL STATEMENT: at the end of every stage of the documented transformation (steps first + N, ..., first + (nstages+1) N)
       the line written is (lambda of the stage, sum of the samples of the stage / (N - equil)) and the number of sampled steps
       of the stage is N - equil: the written value is the mean of dU/dlambda over the stage's sampled steps. *)
    Lemma ti_stage_mean evs xs : evs <> [] ->
      let m := run O c evs in
      let t' := m_it m + 1 in
      (t' - c_it0 c) mod c_nsteps c = 0 -> t' - c_it0 c <= (c_nstages c + 1) * c_nsteps c ->
      let hist := evs ++ [EStep xs] in
      exists st out, m_outs (run O c hist) = m_outs m ++ [(t', st, out)] /\
        o_log out = Some (stage_lambda O c ((t' - c_it0 c) / c_nsteps c - 1),
                          ndiv O (ti_sum c (t' - c_nsteps c) hist) (nofZ O (c_nsteps c - c_equil c))) /\
        ti_cnt c (t' - c_nsteps c) hist = c_nsteps c - c_equil c.
    Proof.
      intros Hnemp m t' Hmod Hend hist.
      pose proof (run_inv_p O c evs) as Hp. fold m in Hp.
      assert (Hnf : m_fresh m = false) by (apply run_not_fresh; exact Hnemp).
      assert (Hnew : is_new m (EStep xs) = true) by (cbn [is_new]; rewrite Hnf; reflexivity).
      destruct (ev_new O c m (EStep xs) Hp Hnew) as [Ht _].
      destruct (mstep_unfold O c m (EStep xs)) as [_ [_ [_ Hout]]].
      unfold hist. rewrite run_snoc. fold m. rewrite Hout, Ht. fold t'.
      eexists. eexists. split; [reflexivity|].
      destruct (inv_ti_step evs (EStep xs) Hnemp (inv_ti_all evs)) as [Hinv [Hline _]]. fold m in Hline.
      destruct Hp as [_ [Hle _]].
      set (a := m_it m - c_it0 c) in *. assert (Ha : 0 <= a) by (unfold a; lia).
      assert (Hta : t' - c_it0 c = a + 1) by (unfold t', a; lia).
      rewrite Hta in Hmod, Hend.
      destruct (arith_window a (c_nsteps c) Ha HN) as [W0 _]. destruct (W0 Hmod) as [Wa [Wb Wc]].
      assert (Hin : a < (c_nstages c + 1) * c_nsteps c) by lia.
      specialize (Hline Hin).
      rewrite rstep_log. unfold line_of in Hline. fold m in Hline. rewrite Ht in Hline. fold t' in Hline.
      rewrite Hline, Hnew. cbn [andb]. fold t'. rewrite Hta, Hmod. cbn [Z.eqb].
      assert (Hq : (a + 1) / c_nsteps c = a / c_nsteps c + 1) by nia.
      assert (Hstage : stage_closed c (m_it m) = (a + 1) / c_nsteps c - 1).
      { unfold stage_closed. fold a. rewrite Hq.
        assert ((a + 1) / c_nsteps c <= c_nstages c + 1) by (apply Z.div_le_upper_bound; lia). lia. }
      rewrite Hstage. split; [reflexivity|].
      (* the count, from the invariant at the previous step *)
      pose proof (inv_ti_all evs Hin) as [_ I2]. fold m in I2.
      assert (Hlo : ti_lo c (m_it m) = t' - c_nsteps c). { unfold ti_lo. fold a. rewrite Wa. unfold t', a. lia. }
      rewrite Hlo in I2. unfold ti_cnt in *. rewrite ti_window_snoc by exact Hnemp. fold m. cbn [new_step filter].
      rewrite app_length, Nat2Z.inj_add, I2. unfold ti_cnt_closed. fold a. rewrite Wb.
      unfold ti_sampled. cbn [fst]. fold t'. rewrite Hta, Z.rem_mod_nonneg, Hmod by lia.
      assert (Hlt : t' - c_nsteps c <? t' = true) by (apply Z.ltb_lt; lia). rewrite Hlt. cbn [andb].
      destruct (c_equil c =? 0) eqn:E0; cbn [orb length Z.of_nat].
      - apply Z.eqb_eq in E0. lia.
      - apply Z.eqb_neq in E0. destruct (0 >=? c_equil c) eqn:Ege.
        + apply Z.geb_le in Ege. lia.
        + cbn [length Z.of_nat]. lia.
    Qed.

    (* a line is written only when a NEW step ends a stage: once per stage whatever the segmentation *)
    Lemma ti_line_only_at_stage_end evs e : evs <> [] ->
      line_of c evs e <> None ->
      is_new (run O c evs) e = true /\ (m_it (run O c evs) + 1 - c_it0 c) mod c_nsteps c = 0.
    Proof.
      intros Hnemp Hl. destruct (inv_ti_step evs e Hnemp (inv_ti_all evs)) as [_ [_ H]]. exact (H Hl).
    Qed.
  End Step.
End TI.
