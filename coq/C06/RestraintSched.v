(* Schedules of the restraint model are functions of the step number alone, for every run segmentation.
   Everything here holds for every numeric carrier (no algebraic law of the carrier is used): the model
   evaluates the same expression of the step number whatever the history of run boundaries and restarts. *)
From Coq Require Import ZArith List Bool Lia.
From CV Require Import Base.Num C06.RestraintModel.
Import ListNotations.
Local Open Scope Z_scope.

Ltac split_ifs :=
  repeat match goal with
         | |- context [if ?b then _ else _] => destruct b
         | |- context [match ?l with [] => _ | _ :: _ => _ end] => destruct l
         end.

Section Generic.
  Context {T : Type} (O : NumOps T).
  Notation rcfg := (@rcfg T). Notation rstate := (@rstate T). Notation mstate := (@mstate T). Notation event := (@event T).

  Lemma run_snoc (c : rcfg) evs e : run O c (evs ++ [e]) = mstep O c (run O c evs) e.
  Proof. unfold run. rewrite fold_left_app. reflexivity. Qed.

  Lemma run_inv (P : mstate -> Prop) (c : rcfg) :
    P (init_m O c) -> (forall m e, P m -> P (mstep O c m e)) -> forall evs, P (run O c evs).
  Proof.
    intros H0 Hs evs. induction evs as [|e evs IH] using rev_ind.
    - exact H0.
    - rewrite run_snoc. apply Hs, IH.
  Qed.

  Lemma mstep_not_fresh (c : rcfg) m e : m_fresh (mstep O c m e) = false.
  Proof. unfold mstep. destruct (rstep O c _ _ _ _ _). reflexivity. Qed.

  Lemma run_not_fresh (c : rcfg) evs : evs <> [] -> m_fresh (run O c evs) = false.
  Proof.
    intros H. destruct (exists_last H) as [l [e ->]]. rewrite run_snoc. apply mstep_not_fresh.
  Qed.

  (* ---------------------------------------------------------------- which fields each sub-update touches *)
  Lemma k_update_centers c s t rel cont xs : s_centers (fst (k_update O c s t rel cont xs)) = s_centers s.
  Proof. unfold k_update. split_ifs; reflexivity. Qed.
  Lemma k_update_first c s t rel cont xs : s_first (fst (k_update O c s t rel cont xs)) = s_first s.
  Proof. unfold k_update. split_ifs; reflexivity. Qed.
  Lemma k_update_W c s t rel cont xs : s_W (fst (k_update O c s t rel cont xs)) = s_W s.
  Proof. unfold k_update. split_ifs; reflexivity. Qed.
  Lemma k_update_incr c s t rel cont xs : s_incr (fst (k_update O c s t rel cont xs)) = s_incr s.
  Proof. unfold k_update. split_ifs; reflexivity. Qed.
  Lemma k_update_off c s t rel cont xs : c_chg_k c = false -> k_update O c s t rel cont xs = (s, None).
  Proof. unfold k_update. intros ->. reflexivity. Qed.

  Lemma centers_update_k c s t rel cont : s_k (centers_update O c s t rel cont) = s_k s.
  Proof. unfold centers_update. split_ifs; reflexivity. Qed.
  Lemma centers_update_first c s t rel cont : s_first (centers_update O c s t rel cont) = s_first s.
  Proof. unfold centers_update. split_ifs; reflexivity. Qed.
  Lemma centers_update_W c s t rel cont : s_W (centers_update O c s t rel cont) = s_W s.
  Proof. unfold centers_update. split_ifs; reflexivity. Qed.
  Lemma centers_update_FE c s t rel cont : s_FE (centers_update O c s t rel cont) = s_FE s.
  Proof. unfold centers_update. split_ifs; reflexivity. Qed.
  Lemma centers_update_kincr c s t rel cont : s_kincr (centers_update O c s t rel cont) = s_kincr s.
  Proof. unfold centers_update. split_ifs; reflexivity. Qed.
  Lemma centers_update_off c s t rel cont : c_chg_centers c = false -> centers_update O c s t rel cont = s.
  Proof. unfold centers_update. intros ->. reflexivity. Qed.

  Lemma work_centers_fields c s t rel f :
    s_centers (work_centers O c s t rel f) = s_centers s /\ s_k (work_centers O c s t rel f) = s_k s /\
    s_first (work_centers O c s t rel f) = s_first s /\ s_stage (work_centers O c s t rel f) = s_stage s /\
    s_FE (work_centers O c s t rel f) = s_FE s /\ s_incr (work_centers O c s t rel f) = s_incr s /\
    s_kincr (work_centers O c s t rel f) = s_kincr s.
  Proof. unfold work_centers. split_ifs; repeat split; reflexivity. Qed.
  Lemma work_k_fields c s rel xs :
    s_centers (work_k O c s rel xs) = s_centers s /\ s_k (work_k O c s rel xs) = s_k s /\
    s_first (work_k O c s rel xs) = s_first s /\ s_stage (work_k O c s rel xs) = s_stage s /\
    s_FE (work_k O c s rel xs) = s_FE s /\ s_incr (work_k O c s rel xs) = s_incr s /\
    s_kincr (work_k O c s rel xs) = s_kincr s.
  Proof. unfold work_k. split_ifs; repeat split; reflexivity. Qed.

  (* one restraint update, seen through its parameters: the work updates do not touch them *)
  Definition upd (c : rcfg) (s : rstate) (t rel : Z) (cont : bool) (xs : list T) : rstate :=
    fst (k_update O c (centers_update O c s t rel cont) t rel cont xs).

  Lemma rstep_fields c s t rel cont xs :
    let s' := fst (rstep O c s t rel cont xs) in
    s_centers s' = s_centers (upd c s t rel cont xs) /\ s_k s' = s_k (upd c s t rel cont xs) /\
    s_first s' = s_first (upd c s t rel cont xs) /\ s_stage s' = s_stage (upd c s t rel cont xs) /\
    s_FE s' = s_FE (upd c s t rel cont xs) /\ s_incr s' = s_incr (upd c s t rel cont xs) /\
    s_kincr s' = s_kincr (upd c s t rel cont xs).
  Proof.
    unfold rstep, upd.
    destruct (k_update O c (centers_update O c s t rel cont) t rel cont xs) as [s2 line]; cbn [fst].
    destruct (work_k_fields c (work_centers O c s2 t rel (map frc3 (terms O c s2 xs))) rel xs)
      as [A1 [A2 [A3 [A4 [A5 [A6 A7]]]]]].
    destruct (work_centers_fields c s2 t rel (map frc3 (terms O c s2 xs))) as [B1 [B2 [B3 [B4 [B5 [B6 B7]]]]]].
    rewrite A1, A2, A3, A4, A5, A6, A7, B1, B2, B3, B4, B5, B6, B7. repeat split; reflexivity.
  Qed.

  Lemma rstep_centers c s t rel cont xs :
    s_centers (fst (rstep O c s t rel cont xs)) = s_centers (centers_update O c s t rel cont).
  Proof.
    destruct (rstep_fields c s t rel cont xs) as [H _]. rewrite H. unfold upd. apply k_update_centers.
  Qed.

  Lemma rstep_first c s t rel cont xs : s_first (fst (rstep O c s t rel cont xs)) = s_first s.
  Proof.
    destruct (rstep_fields c s t rel cont xs) as [_ [_ [H _]]]. rewrite H. unfold upd.
    rewrite k_update_first. apply centers_update_first.
  Qed.

  Lemma rstep_k c s t rel cont xs :
    s_k (fst (rstep O c s t rel cont xs)) = s_k (upd c s t rel cont xs).
  Proof. destruct (rstep_fields c s t rel cont xs) as [_ [H _]]. exact H. Qed.

  (* the ORDER of updates inside one step (harmonic::update / harmonic_walls::update / linear::update): centres, then the
     force constant - whose TI accumulation reads dU/dk at the CURRENT values xs and at the centres just updated - then
     energy and forces at the CURRENT values with the centres and force constant just updated, then the accumulated work
     with those forces.  Nothing of the previous step's values enters. *)
  Lemma rstep_order c s t rel cont xs :
    let s1 := centers_update O c s t rel cont in
    let s2 := fst (k_update O c s1 t rel cont xs) in
    o_energy (snd (rstep O c s t rel cont xs)) = sumT O (map (@pot3 T) (terms O c s2 xs)) /\
    o_forces (snd (rstep O c s t rel cont xs)) = map (@frc3 T) (terms O c s2 xs) /\
    o_log (snd (rstep O c s t rel cont xs)) = snd (k_update O c s1 t rel cont xs) /\
    fst (rstep O c s t rel cont xs) = work_k O c (work_centers O c s2 t rel (map (@frc3 T) (terms O c s2 xs))) rel xs.
  Proof.
    cbv zeta. unfold rstep. destruct (k_update O c (centers_update O c s t rel cont) t rel cont xs) as [s2 line].
    cbn [fst snd o_energy o_forces o_log]. repeat split; reflexivity.
  Qed.

  (* ---------------------------------------------------------------- the run protocol *)
  Definition ev_it (m : mstate) (e : event) : Z :=
    match e with EStep _ => if m_fresh m then m_it m else m_it m + 1 | _ => m_it m end.
  Definition ev_itr (m : mstate) (e : event) : Z :=
    match e with ERestart _ => ev_it m e | _ => m_itr m end.
  Definition ev_s0 (c : rcfg) (m : mstate) (e : event) : rstate :=
    match e with ERestart _ => restore O c (m_st m) | _ => m_st m end.
  Definition ev_cont (e : event) : bool := match e with EBoundary _ => true | _ => false end.

  Lemma mstep_unfold c m e :
    m_it (mstep O c m e) = ev_it m e /\ m_itr (mstep O c m e) = ev_itr m e /\
    m_st (mstep O c m e) = fst (rstep O c (ev_s0 c m e) (ev_it m e) (ev_it m e - ev_itr m e) (ev_cont e) (ev_xs e)) /\
    m_outs (mstep O c m e) = m_outs m ++
      [(ev_it m e, fst (rstep O c (ev_s0 c m e) (ev_it m e) (ev_it m e - ev_itr m e) (ev_cont e) (ev_xs e)),
        snd (rstep O c (ev_s0 c m e) (ev_it m e) (ev_it m e - ev_itr m e) (ev_cont e) (ev_xs e)))].
  Proof.
    unfold mstep, ev_it, ev_itr, ev_s0, ev_cont.
    destruct e; destruct (rstep O c _ _ _ _ _) as [s1 o]; cbn [m_it m_itr m_st m_outs fst snd]; auto.
  Qed.

  (* an event either computes a NEW step (an engine step that is not the first event of the history) or
     computes again the step the module is at (first event, run boundary, restart) *)
  Definition is_new (m : mstate) (e : event) : bool :=
    match e with EStep _ => negb (m_fresh m) | _ => false end.

  (* protocol invariant: the restart step is not ahead of the current step; a fresh module is the initial one *)
  Definition inv_p (c : rcfg) (m : mstate) : Prop :=
    m_itr m <= m_it m /\ c_it0 c <= m_it m /\ (m_fresh m = true -> m = init_m O c).

  Lemma inv_p_init c : inv_p c (init_m O c).
  Proof. unfold inv_p, init_m; cbn [m_itr m_it m_fresh]. repeat split; lia || auto. Qed.

  Lemma ev_new c m e : inv_p c m -> is_new m e = true ->
    ev_it m e = m_it m + 1 /\ first_time (ev_it m e - ev_itr m e) (ev_cont e) = true /\
    0 <? ev_it m e - ev_itr m e = true /\ ev_s0 c m e = m_st m /\ m_fresh m = false.
  Proof.
    intros [H1 _] Hn. destruct e as [xs|xs|xs]; cbn [is_new] in Hn; try discriminate.
    apply negb_true_iff in Hn. unfold ev_it, ev_itr, ev_cont, ev_s0, first_time. rewrite Hn.
    assert (E : 0 <? m_it m + 1 - m_itr m = true) by (apply Z.ltb_lt; lia).
    rewrite E. repeat split; reflexivity.
  Qed.

  Lemma ev_again c m e : inv_p c m -> is_new m e = false ->
    ev_it m e = m_it m /\ first_time (ev_it m e - ev_itr m e) (ev_cont e) = false.
  Proof.
    intros [H1 [_ H3]] Hn. unfold first_time.
    destruct e as [xs|xs|xs]; cbn [is_new ev_it ev_itr ev_cont] in *.
    - apply negb_false_iff in Hn. rewrite Hn. specialize (H3 Hn). rewrite H3. cbn [init_m m_it m_itr].
      rewrite Z.sub_diag. split; reflexivity.
    - rewrite andb_false_r. split; reflexivity.
    - rewrite Z.sub_diag. split; reflexivity.
  Qed.

  Lemma inv_p_step c m e : inv_p c m -> inv_p c (mstep O c m e).
  Proof.
    intros [H1 [H2 H3]]. destruct (mstep_unfold c m e) as [Hit [Hitr _]].
    unfold inv_p. rewrite Hit, Hitr, mstep_not_fresh.
    repeat split; try discriminate; destruct e; cbn [ev_it ev_itr]; destruct (m_fresh m); lia.
  Qed.

  Lemma run_inv_p c evs : inv_p c (run O c evs).
  Proof. apply run_inv; [apply inv_p_init | intros m e; apply inv_p_step]. Qed.

  (* the engine's step counter after a history: the number of EStep events after the first event *)
  Fixpoint count_steps (evs : list event) : Z :=
    match evs with
    | [] => 0
    | EStep _ :: r => 1 + count_steps r
    | _ :: r => count_steps r
    end.
  Lemma count_steps_app a b : count_steps (a ++ b) = count_steps a + count_steps b.
  Proof. induction a as [|e a IH]; cbn [app count_steps]; [lia|]. destruct e; lia. Qed.

  Lemma run_it (c : rcfg) e evs : m_it (run O c (e :: evs)) = c_it0 c + count_steps evs.
  Proof.
    induction evs as [|e' evs IH] using rev_ind.
    - unfold run; cbn [fold_left]. destruct (mstep_unfold c (init_m O c) e) as [H _]. rewrite H.
      unfold ev_it, init_m; cbn [m_fresh m_it count_steps]. destruct e; lia.
    - rewrite app_comm_cons, run_snoc. destruct (mstep_unfold c (run O c (e :: evs)) e') as [H _]. rewrite H.
      unfold ev_it. rewrite run_not_fresh by discriminate. rewrite IH, count_steps_app.
      destruct e'; cbn [count_steps]; lia.
  Qed.

  (* what a restart keeps *)
  Lemma restore_first c s : c_chg_centers c || c_chg_k c = true -> s_first (restore O c s) = s_first s.
  Proof. unfold restore. intros ->. reflexivity. Qed.
  Lemma ev_s0_first c m e : c_chg_centers c || c_chg_k c = true -> s_first (ev_s0 c m e) = s_first (m_st m).
  Proof. intros H. destruct e; cbn [ev_s0]; auto using restore_first. Qed.
  Lemma ev_s0_centers c m e : c_chg_centers c = true -> s_centers (ev_s0 c m e) = s_centers (m_st m).
  Proof. intros H. destruct e; cbn [ev_s0]; try reflexivity. unfold restore. rewrite H. reflexivity. Qed.
  Lemma ev_s0_k c m e : c_chg_k c = true -> s_k (ev_s0 c m e) = s_k (m_st m).
  Proof. intros H. destruct e; cbn [ev_s0]; try reflexivity. unfold restore. rewrite H. reflexivity. Qed.
  Lemma ev_s0_stage c m e : c_chg_centers c || c_chg_k c = true -> negb (c_nstages c =? 0) = true ->
    s_stage (ev_s0 c m e) = s_stage (m_st m).
  Proof. intros H1 H2. destruct e; cbn [ev_s0]; try reflexivity. unfold restore. rewrite H1, H2. reflexivity. Qed.
  Lemma ev_s0_FE c m e : c_chg_k c = true -> negb (c_nstages c =? 0) = true ->
    s_FE (ev_s0 c m e) = s_FE (m_st m).
  Proof. intros H1 H2. destruct e; cbn [ev_s0]; try reflexivity. unfold restore. rewrite H1, H2. reflexivity. Qed.
  Lemma ev_s0_W c m e : c_chg_centers c || c_chg_k c = true -> c_acc_work c = true ->
    s_W (ev_s0 c m e) = s_W (m_st m).
  Proof. intros H1 H2. destruct e; cbn [ev_s0]; try reflexivity. unfold restore. rewrite H1, H2. reflexivity. Qed.

  (* ---------------------------------------------------------------- continuous moving centres *)
  Definition sched_lambda (c : rcfg) (t : Z) : T :=
    ratio O (Z.min (t - c_it0 c) (c_nsteps c)) (c_nsteps c).
  Definition closed_centers (c : rcfg) (t : Z) : list T :=
    map2 (wrapv O) (c_vars c) (new_centers O c (sched_lambda c t)).

  Definition inv_cc (c : rcfg) (m : mstate) : Prop :=
    s_first (m_st m) = c_it0 c /\ c_it0 c <= m_it m /\
    (m_fresh m = true -> m_it m = c_it0 c) /\
    (m_fresh m = false -> s_centers (m_st m) = closed_centers c (m_it m)).

  Lemma inv_cc_step c m e :
    c_chg_centers c = true -> c_nstages c = 0 -> 0 <= c_nsteps c ->
    inv_cc c m -> inv_cc c (mstep O c m e).
  Proof.
    intros Hc Hn HN [Hf [Hle [Hfr Hcen]]].
    destruct (mstep_unfold c m e) as [Hit [_ [Hst _]]].
    assert (Hmov : c_chg_centers c || c_chg_k c = true) by (rewrite Hc; reflexivity).
    assert (Hit' : ev_it m e = m_it m \/ (ev_it m e = m_it m + 1 /\ m_fresh m = false)).
    { unfold ev_it. destruct e; auto. destruct (m_fresh m); auto. }
    unfold inv_cc. rewrite Hit, Hst, rstep_first, ev_s0_first, mstep_not_fresh by assumption.
    split; [exact Hf|]. split; [lia|]. split; [discriminate|]. intros _.
    rewrite rstep_centers.
    assert (Hs0c : s_centers (ev_s0 c m e) = s_centers (m_st m)) by (apply ev_s0_centers; exact Hc).
    assert (Hs0f : s_first (ev_s0 c m e) = c_it0 c) by (rewrite ev_s0_first; assumption).
    unfold centers_update. rewrite Hc, Hn. cbn [Z.eqb negb].
    set (t := ev_it m e) in *. rewrite Hs0f.
    destruct (t - c_it0 c <=? c_nsteps c) eqn:Ele.
    - apply Z.leb_le in Ele.
      assert (Hcc : s_centers (update_centers O c (ev_s0 c m e) (ratio O (t - c_it0 c) (c_nsteps c))) = closed_centers c t).
      { unfold update_centers, closed_centers, sched_lambda. cbn [s_centers]. rewrite Z.min_l by lia. reflexivity. }
      destruct (_ =? 0); [cbn [set_incr s_centers]|]; exact Hcc.
    - apply Z.leb_gt in Ele.
      assert (Hnf : m_fresh m = false).
      { destruct (m_fresh m) eqn:F; auto. specialize (Hfr eq_refl). destruct Hit' as [H|[_ H]]; [lia|discriminate]. }
      assert (Hcc : s_centers (ev_s0 c m e) = closed_centers c t).
      { rewrite Hs0c, (Hcen Hnf). unfold closed_centers, sched_lambda.
        assert (H1 : c_nsteps c <= m_it m - c_it0 c). { destruct Hit' as [H|[H _]]; lia. }
        assert (H2 : c_nsteps c <= t - c_it0 c) by lia.
        rewrite (Z.min_r _ _ H1), (Z.min_r _ _ H2). reflexivity. }
      destruct (_ =? 0); cbn [set_incr s_centers]; exact Hcc.
  Qed.

  Lemma inv_cc_run c evs : c_chg_centers c = true -> c_nstages c = 0 -> 0 <= c_nsteps c -> inv_cc c (run O c evs).
  Proof.
    intros Hc Hn HN. apply run_inv.
    - unfold inv_cc, init_m, init_state; cbn [m_st m_it m_fresh s_first s_centers].
      repeat split; try lia; try discriminate.
    - intros m e. apply inv_cc_step; assumption.
  Qed.

  Lemma center_schedule_continuous (c : rcfg) (evs : list event) :
    c_chg_centers c = true -> c_nstages c = 0 -> 0 <= c_nsteps c -> evs <> [] ->
    s_centers (m_st (run O c evs)) = closed_centers c (m_it (run O c evs)) /\
    s_first (m_st (run O c evs)) = c_it0 c.
  Proof.
    intros Hc Hn HN Hne.
    destruct (inv_cc_run c evs Hc Hn HN) as [Hf [_ [_ Hcen]]].
    split; [apply Hcen, run_not_fresh; assumption | exact Hf].
  Qed.

  (* ---------------------------------------------------------------- continuously changing force constant *)
  Definition closed_k (c : rcfg) (t : Z) : T :=
    k_of_lambda O c (if c_decoupling c then nsub O (n1 O) (sched_lambda c t) else sched_lambda c t).

  Definition inv_kc (c : rcfg) (m : mstate) : Prop :=
    s_first (m_st m) = c_it0 c /\ c_it0 c <= m_it m /\
    (m_fresh m = true -> m_it m = c_it0 c) /\
    (m_fresh m = false -> s_k (m_st m) = closed_k c (m_it m)).

  Lemma inv_kc_step c m e :
    c_chg_k c = true -> c_nstages c = 0 -> 0 <= c_nsteps c ->
    inv_kc c m -> inv_kc c (mstep O c m e).
  Proof.
    intros Hc Hn HN [Hf [Hle [Hfr Hk]]].
    destruct (mstep_unfold c m e) as [Hit [_ [Hst _]]].
    assert (Hmov : c_chg_centers c || c_chg_k c = true) by (rewrite Hc; apply orb_true_r).
    assert (Hit' : ev_it m e = m_it m \/ (ev_it m e = m_it m + 1 /\ m_fresh m = false)).
    { unfold ev_it. destruct e; auto. destruct (m_fresh m); auto. }
    unfold inv_kc. rewrite Hit, Hst, rstep_first, ev_s0_first, mstep_not_fresh by assumption.
    split; [exact Hf|]. split; [lia|]. split; [discriminate|]. intros _.
    rewrite rstep_k. unfold upd.
    assert (Hs0k : s_k (ev_s0 c m e) = s_k (m_st m)) by (apply ev_s0_k; exact Hc).
    assert (Hs0f : s_first (ev_s0 c m e) = c_it0 c) by (rewrite ev_s0_first; assumption).
    set (t := ev_it m e) in *.
    set (s1 := centers_update O c (ev_s0 c m e) t (t - ev_itr m e) (ev_cont e)).
    assert (H1f : s_first s1 = c_it0 c) by (unfold s1; rewrite centers_update_first; exact Hs0f).
    assert (H1k : s_k s1 = s_k (m_st m)) by (unfold s1; rewrite centers_update_k; exact Hs0k).
    unfold k_update. rewrite Hc, Hn. cbn [Z.eqb negb]. rewrite H1f.
    destruct (t - c_it0 c <=? c_nsteps c) eqn:Ele.
    - apply Z.leb_le in Ele. cbn [fst set_k s_k]. unfold closed_k, sched_lambda.
      rewrite Z.min_l by lia. reflexivity.
    - apply Z.leb_gt in Ele. cbn [fst set_k s_k].
      assert (Hnf : m_fresh m = false).
      { destruct (m_fresh m) eqn:F; auto. specialize (Hfr eq_refl). destruct Hit' as [H|[_ H]]; [lia|discriminate]. }
      rewrite H1k, (Hk Hnf). unfold closed_k, sched_lambda.
      assert (H1 : c_nsteps c <= m_it m - c_it0 c) by (destruct Hit' as [H|[H _]]; lia).
      assert (H2 : c_nsteps c <= t - c_it0 c) by lia.
      rewrite (Z.min_r _ _ H1), (Z.min_r _ _ H2). reflexivity.
  Qed.

  Lemma inv_kc_run c evs : c_chg_k c = true -> c_nstages c = 0 -> 0 <= c_nsteps c -> inv_kc c (run O c evs).
  Proof.
    intros Hc Hn HN. apply run_inv.
    - unfold inv_kc, init_m, init_state; cbn [m_st m_it m_fresh s_first s_k].
      repeat split; try lia; try discriminate.
    - intros m e. apply inv_kc_step; assumption.
  Qed.

  Lemma k_schedule_continuous (c : rcfg) (evs : list event) :
    c_chg_k c = true -> c_nstages c = 0 -> 0 <= c_nsteps c -> evs <> [] ->
    s_k (m_st (run O c evs)) = closed_k c (m_it (run O c evs)) /\
    s_first (m_st (run O c evs)) = c_it0 c.
  Proof.
    intros Hc Hn HN Hne.
    destruct (inv_kc_run c evs Hc Hn HN) as [Hf [_ [_ Hk]]].
    split; [apply Hk, run_not_fresh; assumption | exact Hf].
  Qed.

  (* ---------------------------------------------------------------- staged schedules: closed forms *)
  (* force constant: stage s is in effect from step first + s*N on, s <= nstages *)
  Definition stage_closed (c : rcfg) (t : Z) : Z := Z.min (c_nstages c) ((t - c_it0 c) / c_nsteps c).
  Definition lambda0 (c : rcfg) : T :=
    match c_lambda_sched c with [] => if c_decoupling c then n1 O else n0 O | l0 :: _ => l0 end.
  Definition closed_k_staged (c : rcfg) (t : Z) : T :=
    if stage_closed c t =? 0 then k_of_lambda O c (lambda0 c)
    else k_of_lambda O c (stage_lambda O c (stage_closed c t)).
  (* centres: the (j+1)-th move, to lambda = j/nstages, happens at step first + j*N + 1, j <= nstages *)
  Definition nmoves (c : rcfg) (t : Z) : Z :=
    if t - c_it0 c <=? 0 then 0 else Z.min (c_nstages c + 1) ((t - c_it0 c - 1) / c_nsteps c + 1).
  Definition closed_centers_staged (c : rcfg) (t : Z) : list T :=
    if nmoves c t =? 0 then c_centers0 c
    else map2 (wrapv O) (c_vars c) (new_centers O c (ratio O (nmoves c t - 1) (c_nstages c))).

  Lemma div_succ a N : 0 <= a -> 0 < N ->
    ((a + 1) mod N = 0 -> (a + 1) / N = a / N + 1) /\ ((a + 1) mod N <> 0 -> (a + 1) / N = a / N).
  Proof.
    intros Ha HN.
    pose proof (Z.div_mod a N ltac:(lia)) as E1. pose proof (Z.div_mod (a + 1) N ltac:(lia)) as E2.
    pose proof (Z.mod_pos_bound a N HN) as B1. pose proof (Z.mod_pos_bound (a + 1) N HN) as B2.
    split; intros H; nia.
  Qed.

  (* ---------------------------------------------------------------- staged force constant, every segmentation *)
  Lemma k_update_staged_spec c s t rel cont xs :
    c_chg_k c = true -> negb (c_nstages c =? 0) = true ->
    let s' := fst (k_update O c s t rel cont xs) in
    let adv := (Z.rem (t - s_first s) (c_nsteps c) =? 0) && (s_first s <? t) && first_time rel cont && (s_stage s <? c_nstages c) in
    s_stage s' = (if adv then s_stage s + 1 else s_stage s) /\
    s_k s' = (if adv then k_of_lambda O c (stage_lambda O c (s_stage s + 1))
              else if t =? s_first s then k_of_lambda O c (lambda0 c) else s_k s).
  Proof.
    intros Hc Hne. unfold k_update, lambda0. rewrite Hc, Hne.
    destruct (t =? s_first s) eqn:E1; cbn [set_k s_first s_stage s_k s_FE s_kincr];
      destruct (s_first s <? t) eqn:E4; destruct (first_time rel cont) eqn:E0; cbn [andb];
      try destruct (_ || _); cbn [set_k s_first s_stage s_k s_FE s_kincr];
      rewrite ?E4, ?E0; rewrite ?andb_true_r, ?andb_false_r; cbn [andb];
      destruct (Z.rem (t - s_first s) (c_nsteps c) =? 0) eqn:E3; cbn [andb];
      destruct (s_stage s <? c_nstages c) eqn:E5; cbn [fst set_k s_first s_stage s_k s_FE s_kincr]; auto.
  Qed.

  Definition inv_ks (c : rcfg) (m : mstate) : Prop :=
    s_first (m_st m) = c_it0 c /\
    (m_fresh m = false -> s_stage (m_st m) = stage_closed c (m_it m) /\ s_k (m_st m) = closed_k_staged c (m_it m)).

  Lemma stage_closed_first c : 0 < c_nstages c -> 0 < c_nsteps c -> stage_closed c (c_it0 c) = 0.
  Proof. intros. unfold stage_closed. rewrite Z.sub_diag, Z.div_0_l by lia. lia. Qed.

  Lemma inv_ks_step c m e :
    c_chg_k c = true -> c_chg_centers c = false -> 0 < c_nstages c -> 0 < c_nsteps c ->
    inv_p c m -> inv_ks c m -> inv_ks c (mstep O c m e).
  Proof.
    intros Hc Hcc Hn HN Hp [Hf Hk].
    destruct (mstep_unfold c m e) as [Hit [_ [Hst _]]].
    assert (Hmov : c_chg_centers c || c_chg_k c = true) by (rewrite Hc; apply orb_true_r).
    assert (Hne : negb (c_nstages c =? 0) = true) by (apply negb_true_iff, Z.eqb_neq; lia).
    unfold inv_ks. rewrite Hit, Hst, rstep_first, ev_s0_first, mstep_not_fresh by assumption.
    split; [exact Hf|]. intros _.
    destruct (rstep_fields c (ev_s0 c m e) (ev_it m e) (ev_it m e - ev_itr m e) (ev_cont e) (ev_xs e))
      as [_ [Fk [_ [Fs _]]]]. rewrite Fk, Fs. unfold upd. rewrite centers_update_off by exact Hcc.
    set (t := ev_it m e) in *.
    destruct (k_update_staged_spec c (ev_s0 c m e) t (t - ev_itr m e) (ev_cont e) (ev_xs e) Hc Hne) as [S1 S2].
    rewrite S1, S2. clear S1 S2 Fk Fs.
    rewrite (ev_s0_first c m e Hmov), Hf, (ev_s0_stage c m e Hmov Hne), (ev_s0_k c m e Hc).
    destruct (is_new m e) eqn:Enew.
    - destruct (ev_new c m e Hp Enew) as [Ht [Hft [_ [_ Hnf]]]]. fold t in Ht, Hft. rewrite Hft.
      destruct (Hk Hnf) as [Hs Hkk]. destruct Hp as [_ [Hle _]].
      assert (Hneq : (t =? c_it0 c) = false) by (apply Z.eqb_neq; lia).
      rewrite Hneq.
      set (a := m_it m - c_it0 c). assert (Ha : 0 <= a) by (unfold a; lia).
      assert (Hta : t - c_it0 c = a + 1) by (unfold a; lia).
      destruct (div_succ a (c_nsteps c) Ha HN) as [D1 D2].
      assert (Hlt : (c_it0 c <? t) = true) by (apply Z.ltb_lt; lia).
      assert (Hz : 0 <= a / c_nsteps c) by (apply Z.div_pos; lia).
      rewrite Hlt, !andb_true_r, Hta, Z.rem_mod_nonneg by lia.
      assert (Hsa : s_stage (m_st m) = Z.min (c_nstages c) (a / c_nsteps c)) by (rewrite Hs; reflexivity).
      assert (Hka : s_k (m_st m) = (if Z.min (c_nstages c) (a / c_nsteps c) =? 0 then k_of_lambda O c (lambda0 c)
                                     else k_of_lambda O c (stage_lambda O c (Z.min (c_nstages c) (a / c_nsteps c)))))
        by (rewrite Hkk; reflexivity).
      unfold closed_k_staged, stage_closed. rewrite Hta.
      destruct ((a + 1) mod c_nsteps c =? 0) eqn:Em; cbn [andb].
      + apply Z.eqb_eq in Em. specialize (D1 Em). rewrite D1.
        destruct (s_stage (m_st m) <? c_nstages c) eqn:El.
        * apply Z.ltb_lt in El.
          replace (Z.min (c_nstages c) (a / c_nsteps c + 1)) with (s_stage (m_st m) + 1) by lia.
          destruct (s_stage (m_st m) + 1 =? 0) eqn:Ez; [apply Z.eqb_eq in Ez; lia|]. split; reflexivity.
        * apply Z.ltb_ge in El.
          replace (Z.min (c_nstages c) (a / c_nsteps c + 1)) with (Z.min (c_nstages c) (a / c_nsteps c)) by lia.
          split; [exact Hsa | exact Hka].
      + apply Z.eqb_neq in Em. specialize (D2 Em). rewrite D2. split; [exact Hsa | exact Hka].
    - destruct (ev_again c m e Hp Enew) as [Ht Hft]. fold t in Ht, Hft. rewrite Hft, !andb_false_r.
      rewrite Ht.
      destruct (m_fresh m) eqn:F.
      + destruct Hp as [_ [_ Hin]]. rewrite (Hin F). cbn [init_m m_it m_st init_state s_stage s_k].
        rewrite Z.eqb_refl. unfold closed_k_staged. rewrite stage_closed_first by assumption. cbn [Z.eqb].
        split; reflexivity.
      + destruct (Hk eq_refl) as [Hs Hkk]. split; [exact Hs|].
        destruct (m_it m =? c_it0 c) eqn:E; [|exact Hkk].
        apply Z.eqb_eq in E. rewrite E. unfold closed_k_staged. rewrite stage_closed_first by assumption.
        reflexivity.
  Qed.

  Lemma inv_ks_run c evs :
    c_chg_k c = true -> c_chg_centers c = false -> 0 < c_nstages c -> 0 < c_nsteps c -> inv_ks c (run O c evs).
  Proof.
    intros Hc Hcc Hn HN.
    enough (H : inv_p c (run O c evs) /\ inv_ks c (run O c evs)) by apply H.
    apply run_inv.
    - split; [apply inv_p_init|]. unfold inv_ks, init_m, init_state; cbn [m_st m_fresh s_first]. split; [reflexivity|discriminate].
    - intros m e [Hp Hi]. split; [apply inv_p_step; exact Hp | apply inv_ks_step; assumption].
  Qed.

  Lemma k_schedule_staged (c : rcfg) (evs : list event) :
    c_chg_k c = true -> c_chg_centers c = false -> 0 < c_nstages c -> 0 < c_nsteps c -> evs <> [] ->
    s_stage (m_st (run O c evs)) = stage_closed c (m_it (run O c evs)) /\
    s_k (m_st (run O c evs)) = closed_k_staged c (m_it (run O c evs)) /\
    s_first (m_st (run O c evs)) = c_it0 c.
  Proof.
    intros Hc Hcc Hn HN Hne.
    destruct (inv_ks_run c evs Hc Hcc Hn HN) as [Hf Hk].
    destruct (Hk (run_not_fresh c evs Hne)) as [H1 H2]. auto.
  Qed.

  (* ---------------------------------------------------------------- staged centres, every segmentation, N >= 1 *)
  Definition inv_cs (c : rcfg) (m : mstate) : Prop :=
    s_first (m_st m) = c_it0 c /\
    (m_fresh m = false -> s_stage (m_st m) = nmoves c (m_it m) /\ s_centers (m_st m) = closed_centers_staged c (m_it m)).

  Lemma centers_update_staged_spec c s t rel cont :
    c_chg_centers c = true -> negb (c_nstages c =? 0) = true ->
    let s' := centers_update O c s t rel cont in
    let mv := (s_stage s <=? c_nstages c) && first_time rel cont && (s_first s <? t) && (Z.rem (t - s_first s - 1) (c_nsteps c) =? 0) in
    s_stage s' = (if mv then s_stage s + 1 else s_stage s) /\
    s_centers s' = (if mv then map2 (wrapv O) (c_vars c) (new_centers O c (ratio O (s_stage s) (c_nstages c))) else s_centers s).
  Proof.
    intros Hc Hne. unfold centers_update. rewrite Hc, Hne.
    destruct (s_stage s <=? c_nstages c); cbn [andb].
    - destruct (first_time rel cont && (s_first s <? t) && (Z.rem (t - s_first s - 1) (c_nsteps c) =? 0));
        destruct (rel =? 0); cbn [set_incr set_stage update_centers s_stage s_centers]; auto.
    - destruct (rel =? 0); cbn [set_incr s_stage s_centers]; auto.
  Qed.

  Lemma nmoves_first c : nmoves c (c_it0 c) = 0.
  Proof. unfold nmoves. rewrite Z.sub_diag. reflexivity. Qed.

  Lemma inv_cs_step c m e :
    c_chg_centers c = true -> c_chg_k c = false -> 0 < c_nstages c -> 0 < c_nsteps c ->
    inv_p c m -> inv_cs c m -> inv_cs c (mstep O c m e).
  Proof.
    intros Hc Hck Hn HN Hp [Hf Hk].
    destruct (mstep_unfold c m e) as [Hit [_ [Hst _]]].
    assert (Hmov : c_chg_centers c || c_chg_k c = true) by (rewrite Hc; reflexivity).
    assert (Hne : negb (c_nstages c =? 0) = true) by (apply negb_true_iff, Z.eqb_neq; lia).
    unfold inv_cs. rewrite Hit, Hst, rstep_first, ev_s0_first, mstep_not_fresh by assumption.
    split; [exact Hf|]. intros _.
    destruct (rstep_fields c (ev_s0 c m e) (ev_it m e) (ev_it m e - ev_itr m e) (ev_cont e) (ev_xs e))
      as [Fc [_ [_ [Fs _]]]]. rewrite Fc, Fs. unfold upd. rewrite k_update_off by exact Hck. cbn [fst].
    set (t := ev_it m e) in *.
    destruct (centers_update_staged_spec c (ev_s0 c m e) t (t - ev_itr m e) (ev_cont e) Hc Hne) as [S1 S2].
    rewrite S1, S2. clear S1 S2 Fc Fs.
    rewrite (ev_s0_first c m e Hmov), Hf, (ev_s0_stage c m e Hmov Hne), (ev_s0_centers c m e Hc).
    destruct (is_new m e) eqn:Enew.
    - destruct (ev_new c m e Hp Enew) as [Ht [Hft [_ [_ Hnf]]]]. fold t in Ht, Hft. rewrite Hft.
      destruct (Hk Hnf) as [Hs Hcen]. destruct Hp as [_ [Hle _]].
      set (a := m_it m - c_it0 c). assert (Ha : 0 <= a) by (unfold a; lia).
      assert (Hta : t - c_it0 c - 1 = a) by (unfold a; lia).
      assert (Hlt : (c_it0 c <? t) = true) by (apply Z.ltb_lt; lia).
      rewrite Hlt, Hta, Z.rem_mod_nonneg by lia. cbn [andb]. rewrite andb_true_r.
      assert (Hnm : nmoves c t = Z.min (c_nstages c + 1) (a / c_nsteps c + 1)).
      { unfold nmoves. destruct (t - c_it0 c <=? 0) eqn:E; [apply Z.leb_le in E; lia|]. rewrite Hta. reflexivity. }
      assert (Hz : 0 <= a / c_nsteps c) by (apply Z.div_pos; lia).
      assert (Hprev : s_stage (m_st m) = if a <=? 0 then 0 else Z.min (c_nstages c + 1) ((a - 1) / c_nsteps c + 1)).
      { rewrite Hs. unfold nmoves. fold a. reflexivity. }
      unfold closed_centers_staged. rewrite Hnm.
      destruct (a mod c_nsteps c =? 0) eqn:Em.
      + apply Z.eqb_eq in Em.
        assert (Hdiv : a <=? 0 = false -> a / c_nsteps c = (a - 1) / c_nsteps c + 1).
        { intros Hpos. apply Z.leb_gt in Hpos. destruct (div_succ (a - 1) (c_nsteps c) ltac:(lia) HN) as [D1 _].
          replace (a - 1 + 1) with a in D1 by lia. apply D1. exact Em. }
        destruct (s_stage (m_st m) <=? c_nstages c) eqn:El; cbn [andb].
        * apply Z.leb_le in El.
          assert (Hnext : Z.min (c_nstages c + 1) (a / c_nsteps c + 1) = s_stage (m_st m) + 1).
          { destruct (a <=? 0) eqn:E0.
            - apply Z.leb_le in E0. assert (a = 0) by lia. subst a. rewrite Hprev.
              replace (m_it m - c_it0 c) with 0 by lia. rewrite Z.div_0_l by lia. lia.
            - specialize (Hdiv eq_refl). rewrite Hprev in *. lia. }
          rewrite Hnext. split; [reflexivity|].
          destruct (s_stage (m_st m) + 1 =? 0) eqn:Ez.
          { apply Z.eqb_eq in Ez. rewrite Hprev in Ez. destruct (a <=? 0); lia. }
          replace (s_stage (m_st m) + 1 - 1) with (s_stage (m_st m)) by lia. reflexivity.
        * apply Z.leb_gt in El.
          assert (Hpos : a <=? 0 = false). { destruct (a <=? 0) eqn:E0; [rewrite Hprev in El; lia | reflexivity]. }
          specialize (Hdiv Hpos). rewrite Hpos in Hprev.
          assert (Hsame : Z.min (c_nstages c + 1) (a / c_nsteps c + 1) = s_stage (m_st m)) by lia.
          rewrite Hsame. split; [reflexivity|].
          rewrite Hcen. unfold closed_centers_staged. rewrite Hs. reflexivity.
      + apply Z.eqb_neq in Em. rewrite andb_false_r.
        assert (Hpos : a <=? 0 = false).
        { destruct (a <=? 0) eqn:E0; [|reflexivity]. apply Z.leb_le in E0. assert (a = 0) by lia.
          exfalso. apply Em. replace a with 0 by lia. apply Z.mod_0_l. lia. }
        rewrite Hpos in Hprev. apply Z.leb_gt in Hpos.
        destruct (div_succ (a - 1) (c_nsteps c) ltac:(lia) HN) as [_ D2].
        replace (a - 1 + 1) with a in D2 by lia. specialize (D2 Em).
        assert (Hsame : Z.min (c_nstages c + 1) (a / c_nsteps c + 1) = s_stage (m_st m)) by (rewrite D2, Hprev; reflexivity).
        rewrite Hsame. split; [reflexivity|].
        rewrite Hcen. unfold closed_centers_staged. rewrite Hs. reflexivity.
    - destruct (ev_again c m e Hp Enew) as [Ht Hft]. fold t in Ht, Hft. rewrite Hft.
      rewrite andb_false_r. cbn [andb]. rewrite Ht.
      destruct (m_fresh m) eqn:F.
      + destruct Hp as [_ [_ Hin]]. rewrite (Hin F). cbn [init_m m_it m_st init_state s_stage s_centers].
        unfold closed_centers_staged. rewrite nmoves_first. split; reflexivity.
      + exact (Hk eq_refl).
  Qed.

  Lemma inv_cs_run c evs :
    c_chg_centers c = true -> c_chg_k c = false -> 0 < c_nstages c -> 0 < c_nsteps c -> inv_cs c (run O c evs).
  Proof.
    intros Hc Hck Hn HN.
    enough (H : inv_p c (run O c evs) /\ inv_cs c (run O c evs)) by apply H.
    apply run_inv.
    - split; [apply inv_p_init|]. unfold inv_cs, init_m, init_state; cbn [m_st m_fresh s_first]. split; [reflexivity|discriminate].
    - intros m e [Hp Hi]. split; [apply inv_p_step; exact Hp | apply inv_cs_step; assumption].
  Qed.

  Lemma center_schedule_staged (c : rcfg) (evs : list event) :
    c_chg_centers c = true -> c_chg_k c = false -> 0 < c_nstages c -> 0 < c_nsteps c -> evs <> [] ->
    s_centers (m_st (run O c evs)) = closed_centers_staged c (m_it (run O c evs)) /\
    s_stage (m_st (run O c evs)) = nmoves c (m_it (run O c evs)) /\
    s_first (m_st (run O c evs)) = c_it0 c.
  Proof.
    intros Hc Hck Hn HN Hne.
    destruct (inv_cs_run c evs Hc Hck Hn HN) as [Hf Hk].
    destruct (Hk (run_not_fresh c evs Hne)) as [H1 H2]. auto.
  Qed.
End Generic.
