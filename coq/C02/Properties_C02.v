(* C02: variable values equal their mathematical definition and respect its symmetries.
   Statements only (proofs in ValueProofs.v); all over the real-number instance Rops of C02.ValueModel,
   for ALL coordinates, masses, charges, group sizes, rotations, translations, lattice vectors, permutations.
   shift_group t g / rot_group M g: every atom of g moved by the translation t / the matrix M;
   proper_rotation M: M^T M = I and det M = 1;  lshift (n1,n2,n3) g: g moved by n1 a + n2 b + n3 c. *)
From Coq Require Import ZArith List Bool Reals Lra Lia Permutation.
From CV Require Import Base.Num Base.RNum C18.ValueModel C02.ValueModel C02.ValueProofs.
Import ListNotations.
Local Open Scope R_scope.

(* ================= the definitions (closed forms of the model's accumulating loops) ================= *)
Theorem C02_definition_centres : forall g : list atomR,
  total_mass Rops g = rsum a_mass g /\
  com Rops g = (rsum (fun a => a_mass a * px a) g / total_mass Rops g, rsum (fun a => a_mass a * py a) g / total_mass Rops g,
                rsum (fun a => a_mass a * pz a) g / total_mass Rops g) /\
  cog Rops g = (rsum px g / INR (length g), rsum py g / INR (length g), rsum pz g / INR (length g)).
Proof. intros g. split; [apply total_mass_R | split; [apply com_R | apply cog_R]]. Qed.
Print Assumptions C02_definition_centres.
(* variable = sum_i c_i q_i^n_i, with q^n the integer power (0^0 = 1) *)
Theorem C02_definition_combination : forall l : list (R * Z * R),
  cv_combine Rops l = rsum term_value l /\
  (forall (x : R) (n : Z), x <> 0 -> ipow Rops x n = powerRZ x n) /\
  (forall n : Z, ipow Rops 0 n = if Z.eqb n 0 then 1 else 0).
Proof. intros l. split; [apply cv_combine_sum | split; [exact ipow_spec | exact ipow_zero]]. Qed.
Print Assumptions C02_definition_combination.

(* ================= rigid translations (any cell, minimum image on or off) ================= *)
Theorem C02_translation_invariant_distance : forall pbc cell t g1 g2, total_mass Rops g1 <> 0 -> total_mass Rops g2 <> 0 ->
  cv_distance Rops pbc cell (shift_group t g1) (shift_group t g2) = cv_distance Rops pbc cell g1 g2.
Proof. exact tr_distance. Qed.
Print Assumptions C02_translation_invariant_distance.
Theorem C02_translation_invariant_distanceVec : forall pbc cell t g1 g2, total_mass Rops g1 <> 0 -> total_mass Rops g2 <> 0 ->
  cv_distance_vec Rops pbc cell (shift_group t g1) (shift_group t g2) = cv_distance_vec Rops pbc cell g1 g2.
Proof. exact tr_distance_vec. Qed.
Print Assumptions C02_translation_invariant_distanceVec.
Theorem C02_translation_invariant_distanceDir : forall pbc cell t g1 g2, total_mass Rops g1 <> 0 -> total_mass Rops g2 <> 0 ->
  cv_distance_dir Rops pbc cell (shift_group t g1) (shift_group t g2) = cv_distance_dir Rops pbc cell g1 g2.
Proof. exact tr_distance_dir. Qed.
Print Assumptions C02_translation_invariant_distanceDir.
Theorem C02_translation_invariant_distanceZ : forall pbc cell t axis main ref ref2,
  total_mass Rops main <> 0 -> total_mass Rops ref <> 0 ->
  cv_distance_z_fixed Rops pbc cell axis (shift_group t main) (shift_group t ref) = cv_distance_z_fixed Rops pbc cell axis main ref /\
  (total_mass Rops ref2 <> 0 ->
   cv_distance_z_ref2 Rops pbc cell (shift_group t main) (shift_group t ref) (shift_group t ref2) =
   cv_distance_z_ref2 Rops pbc cell main ref ref2).
Proof. intros; split; [apply tr_distance_z_fixed | intros; apply tr_distance_z_ref2]; assumption. Qed.
Print Assumptions C02_translation_invariant_distanceZ.
Theorem C02_translation_invariant_distanceXY : forall pbc cell t axis main ref ref2,
  total_mass Rops main <> 0 -> total_mass Rops ref <> 0 ->
  cv_distance_xy_fixed Rops pbc cell axis (shift_group t main) (shift_group t ref) = cv_distance_xy_fixed Rops pbc cell axis main ref /\
  (total_mass Rops ref2 <> 0 ->
   cv_distance_xy_ref2 Rops pbc cell (shift_group t main) (shift_group t ref) (shift_group t ref2) =
   cv_distance_xy_ref2 Rops pbc cell main ref ref2).
Proof. intros; split; [apply tr_distance_xy_fixed | intros; apply tr_distance_xy_ref2]; assumption. Qed.
Print Assumptions C02_translation_invariant_distanceXY.
Theorem C02_translation_invariant_distanceInv : forall pbc cell t n g1 g2,
  cv_distance_inv Rops pbc cell n (shift_group t g1) (shift_group t g2) = cv_distance_inv Rops pbc cell n g1 g2.
Proof. exact tr_distance_inv. Qed.
Print Assumptions C02_translation_invariant_distanceInv.
Theorem C02_translation_invariant_dipoleMagnitude : forall t g, total_mass Rops g <> 0 ->
  cv_dipole_magnitude Rops (shift_group t g) = cv_dipole_magnitude Rops g.
Proof. exact tr_dipole_magnitude. Qed.
Print Assumptions C02_translation_invariant_dipoleMagnitude.
Theorem C02_translation_invariant_gyration : forall t g, g <> [] ->
  cv_gyration Rops (shift_group t g) = cv_gyration Rops g /\ cv_inertia Rops (shift_group t g) = cv_inertia Rops g /\
  (forall axis, cv_inertia_z Rops axis (shift_group t g) = cv_inertia_z Rops axis g).
Proof. intros t g H. split; [apply tr_gyration | split; [apply tr_inertia | intros; apply tr_inertia_z]]; exact H. Qed.
Print Assumptions C02_translation_invariant_gyration.
Theorem C02_translation_invariant_angle : forall pbc cell t g1 g2 g3,
  total_mass Rops g1 <> 0 -> total_mass Rops g2 <> 0 -> total_mass Rops g3 <> 0 ->
  cv_angle Rops PI pbc cell (shift_group t g1) (shift_group t g2) (shift_group t g3) = cv_angle Rops PI pbc cell g1 g2 g3.
Proof. exact tr_angle. Qed.
Print Assumptions C02_translation_invariant_angle.
Theorem C02_translation_invariant_dipoleAngle : forall pbc cell t g1 g2 g3,
  total_mass Rops g1 <> 0 -> total_mass Rops g2 <> 0 -> total_mass Rops g3 <> 0 ->
  cv_dipole_angle Rops PI pbc cell (shift_group t g1) (shift_group t g2) (shift_group t g3) = cv_dipole_angle Rops PI pbc cell g1 g2 g3.
Proof. exact tr_dipole_angle. Qed.
Print Assumptions C02_translation_invariant_dipoleAngle.
Theorem C02_translation_invariant_dihedral : forall pbc cell t g1 g2 g3 g4,
  total_mass Rops g1 <> 0 -> total_mass Rops g2 <> 0 -> total_mass Rops g3 <> 0 -> total_mass Rops g4 <> 0 ->
  cv_dihedral Rops PI pbc cell (shift_group t g1) (shift_group t g2) (shift_group t g3) (shift_group t g4) =
  cv_dihedral Rops PI pbc cell g1 g2 g3 g4.
Proof. exact tr_dihedral. Qed.
Print Assumptions C02_translation_invariant_dihedral.
Theorem C02_translation_invariant_coordNum : forall cell t r0 r0v en ed tol g1 g2,
  cv_coordnum Rops r0 r0v en ed tol cell (shift_group t g1) (shift_group t g2) = cv_coordnum Rops r0 r0v en ed tol cell g1 g2 /\
  (total_mass Rops g2 <> 0 ->
   cv_coordnum_center Rops r0 r0v en ed tol cell (shift_group t g1) (shift_group t g2) = cv_coordnum_center Rops r0 r0v en ed tol cell g1 g2).
Proof. intros; split; [apply tr_coordnum | intros; apply tr_coordnum_center; assumption]. Qed.
Print Assumptions C02_translation_invariant_coordNum.
Theorem C02_translation_invariant_selfCoordNum : forall cell t r0 en ed tol g,
  cv_selfcoordnum Rops r0 en ed tol cell (shift_group t g) = cv_selfcoordnum Rops r0 en ed tol cell g.
Proof. exact tr_selfcoordnum. Qed.
Print Assumptions C02_translation_invariant_selfCoordNum.
Theorem C02_translation_invariant_groupCoord : forall cell t r0 r0v en ed g1 g2, total_mass Rops g1 <> 0 -> total_mass Rops g2 <> 0 ->
  cv_groupcoord Rops r0 r0v en ed cell (shift_group t g1) (shift_group t g2) = cv_groupcoord Rops r0 r0v en ed cell g1 g2.
Proof. exact tr_groupcoord. Qed.
Print Assumptions C02_translation_invariant_groupCoord.
Theorem C02_translation_invariant_hBond : forall cell t r0 en ed a d,
  cv_hbond Rops r0 en ed cell (shift_atom t a) (shift_atom t d) = cv_hbond Rops r0 en ed cell a d.
Proof. exact tr_hbond. Qed.
Print Assumptions C02_translation_invariant_hBond.

(* ================= proper rotations (no cell): every orthogonal matrix with determinant 1 ================= *)
Theorem C02_rotation_invariant_distance : forall pbc M, proper_rotation M -> forall g1 g2,
  cv_distance Rops pbc None (rot_group M g1) (rot_group M g2) = cv_distance Rops pbc None g1 g2.
Proof. exact rot_distance. Qed.
Print Assumptions C02_rotation_invariant_distance.
(* vector-valued components turn with the system *)
Theorem C02_rotation_equivariant_distanceVec : forall pbc M, proper_rotation M -> forall g1 g2,
  cv_distance_vec Rops pbc None (rot_group M g1) (rot_group M g2) = mat_vec Rops M (cv_distance_vec Rops pbc None g1 g2) /\
  (v3norm2 Rops (cv_distance_vec Rops pbc None g1 g2) <> 0 ->
   cv_distance_dir Rops pbc None (rot_group M g1) (rot_group M g2) = mat_vec Rops M (cv_distance_dir Rops pbc None g1 g2)).
Proof. intros pbc M HM g1 g2. split; [apply rot_distance_vec | apply rot_distance_dir]; exact HM. Qed.
Print Assumptions C02_rotation_equivariant_distanceVec.
(* axis defined by two groups (ref, ref2) whose centres do not coincide *)
Theorem C02_rotation_invariant_distanceZ : forall pbc M, proper_rotation M -> forall main ref ref2,
  v3norm2 Rops (pdist Rops pbc None (com Rops ref) (com Rops ref2)) <> 0 ->
  cv_distance_z_ref2 Rops pbc None (rot_group M main) (rot_group M ref) (rot_group M ref2) = cv_distance_z_ref2 Rops pbc None main ref ref2 /\
  cv_distance_xy_ref2 Rops pbc None (rot_group M main) (rot_group M ref) (rot_group M ref2) = cv_distance_xy_ref2 Rops pbc None main ref ref2.
Proof. intros pbc M HM main ref ref2 H. split; [apply rot_distance_z_ref2 | apply rot_distance_xy_ref2]; assumption. Qed.
Print Assumptions C02_rotation_invariant_distanceZ.
Theorem C02_rotation_invariant_distanceInv : forall pbc M, proper_rotation M -> forall n g1 g2,
  cv_distance_inv Rops pbc None n (rot_group M g1) (rot_group M g2) = cv_distance_inv Rops pbc None n g1 g2.
Proof. exact rot_distance_inv. Qed.
Print Assumptions C02_rotation_invariant_distanceInv.
Theorem C02_rotation_invariant_dipoleMagnitude : forall M, proper_rotation M -> forall g,
  cv_dipole_magnitude Rops (rot_group M g) = cv_dipole_magnitude Rops g.
Proof. exact rot_dipole_magnitude. Qed.
Print Assumptions C02_rotation_invariant_dipoleMagnitude.
Theorem C02_rotation_invariant_gyration : forall M, proper_rotation M -> forall g,
  cv_gyration Rops (rot_group M g) = cv_gyration Rops g /\ cv_inertia Rops (rot_group M g) = cv_inertia Rops g.
Proof. intros M HM g. split; [apply rot_gyration | apply rot_inertia]; exact HM. Qed.
Print Assumptions C02_rotation_invariant_gyration.
Theorem C02_rotation_invariant_angle : forall pbc M, proper_rotation M -> forall g1 g2 g3,
  cv_angle Rops PI pbc None (rot_group M g1) (rot_group M g2) (rot_group M g3) = cv_angle Rops PI pbc None g1 g2 g3.
Proof. exact rot_angle. Qed.
Print Assumptions C02_rotation_invariant_angle.
Theorem C02_rotation_invariant_dipoleAngle : forall pbc M, proper_rotation M -> forall g1 g2 g3,
  cv_dipole_angle Rops PI pbc None (rot_group M g1) (rot_group M g2) (rot_group M g3) = cv_dipole_angle Rops PI pbc None g1 g2 g3.
Proof. exact rot_dipole_angle. Qed.
Print Assumptions C02_rotation_invariant_dipoleAngle.
(* the sign of the dihedral needs det M = +1 (a reflection reverses it) *)
Theorem C02_rotation_invariant_dihedral : forall pbc M, proper_rotation M -> forall g1 g2 g3 g4,
  cv_dihedral Rops PI pbc None (rot_group M g1) (rot_group M g2) (rot_group M g3) (rot_group M g4) =
  cv_dihedral Rops PI pbc None g1 g2 g3 g4.
Proof. exact rot_dihedral. Qed.
Print Assumptions C02_rotation_invariant_dihedral.
(* isotropic cut-off (cutoff3 is not rotation invariant by definition) *)
Theorem C02_rotation_invariant_coordNum : forall M, proper_rotation M -> forall r0 en ed tol g1 g2,
  cv_coordnum Rops r0 None en ed tol None (rot_group M g1) (rot_group M g2) = cv_coordnum Rops r0 None en ed tol None g1 g2 /\
  cv_coordnum_center Rops r0 None en ed tol None (rot_group M g1) (rot_group M g2) = cv_coordnum_center Rops r0 None en ed tol None g1 g2.
Proof. intros M HM r0 en ed tol g1 g2. split; [apply rot_coordnum | apply rot_coordnum_center]; exact HM. Qed.
Print Assumptions C02_rotation_invariant_coordNum.
Theorem C02_rotation_invariant_selfCoordNum : forall M, proper_rotation M -> forall r0 en ed tol g,
  cv_selfcoordnum Rops r0 en ed tol None (rot_group M g) = cv_selfcoordnum Rops r0 en ed tol None g.
Proof. exact rot_selfcoordnum. Qed.
Print Assumptions C02_rotation_invariant_selfCoordNum.
Theorem C02_rotation_invariant_groupCoord : forall M, proper_rotation M -> forall r0 en ed g1 g2,
  cv_groupcoord Rops r0 None en ed None (rot_group M g1) (rot_group M g2) = cv_groupcoord Rops r0 None en ed None g1 g2.
Proof. exact rot_groupcoord. Qed.
Print Assumptions C02_rotation_invariant_groupCoord.
Theorem C02_rotation_invariant_hBond : forall M, proper_rotation M -> forall r0 en ed a d,
  cv_hbond Rops r0 en ed None (rot_atom M a) (rot_atom M d) = cv_hbond Rops r0 en ed None a d.
Proof. exact rot_hbond. Qed.
Print Assumptions C02_rotation_invariant_hBond.

(* ================= reordering and duplicate listing of the atoms of a group ================= *)
Theorem C02_permutation_invariant : forall g g' : list atomR, Permutation g g' ->
  total_mass Rops g = total_mass Rops g' /\ total_charge Rops g = total_charge Rops g' /\
  com Rops g = com Rops g' /\ cog Rops g = cog Rops g' /\
  cv_gyration Rops g = cv_gyration Rops g' /\ cv_inertia Rops g = cv_inertia Rops g' /\
  (forall ax, cv_inertia_z Rops ax g = cv_inertia_z Rops ax g') /\
  (forall c, dipole Rops g c = dipole Rops g' c) /\
  (forall r0 r0v en ed tol cell h h', Permutation h h' ->
     cv_coordnum Rops r0 r0v en ed tol cell g h = cv_coordnum Rops r0 r0v en ed tol cell g' h') /\
  (forall pbc cell n h h', Permutation h h' ->
     cv_distance_inv Rops pbc cell n g h = cv_distance_inv Rops pbc cell n g' h') /\
  (forall r0 en ed tol cell, cell_ok cell ->
     cv_selfcoordnum Rops r0 en ed tol cell g = cv_selfcoordnum Rops r0 en ed tol cell g').
Proof.
  intros g g' H. repeat split.
  - apply total_mass_perm, H.  - apply total_charge_perm, H.  - apply com_perm, H.  - apply cog_perm, H.
  - apply gyration_perm, H.  - apply inertia_perm, H.  - intros; apply inertia_z_perm, H.
  - intros; apply dipole_perm, H.  - intros; apply coordnum_perm; assumption.
  - intros; apply distance_inv_perm; assumption.  - intros; apply selfcoordnum_perm; assumption.
Qed.
Print Assumptions C02_permutation_invariant.
(* add_atom: an atom listed again after its first occurrence is ignored; the group never holds an id twice;
   a listing without repetitions is taken as it is (any carrier, so also the float instance of the tie) *)
Theorem C02_duplicates_ignored : forall (T : Type) (l1 l2 : list (@atom T)) (a : @atom T),
  In (a_id a) (map a_id l1) ->
  mk_group (l1 ++ a :: l2) = mk_group (l1 ++ l2) /\ NoDup (map a_id (mk_group (l1 ++ a :: l2))).
Proof. intros T l1 l2 a H. split; [apply mk_group_duplicate, H | apply mk_group_nodup]. Qed.
Print Assumptions C02_duplicates_ignored.
Theorem C02_listing_without_duplicates_kept : forall (T : Type) (l : list (@atom T)),
  NoDup (map a_id l) -> (forall a, In a l -> (0 <= a_id a)%Z) -> mk_group l = l.
Proof. intros T. exact mk_group_id. Qed.
Print Assumptions C02_listing_without_duplicates_kept.

(* ================= minimum image ================= *)
Theorem C02_min_image : forall (L d : R) (n : Z), 0 < L ->
  min_image1 Rops L (d + IZR n * L) = min_image1 Rops L d /\ Rabs (min_image1 Rops L d) <= L / 2 /\
  (exists k : Z, min_image1 Rops L d = d - IZR k * L) /\ (min_image1 Rops L d) ^ 2 <= (d - IZR n * L) ^ 2.
Proof.
  intros L d n HL. split; [apply min_image1_period, HL | split; [apply min_image1_abs, HL | split;
    [apply min_image1_congruent | apply min_image1_shortest, HL]]].
Qed.
Print Assumptions C02_min_image.
Theorem C02_min_image_vector : forall lx ly lz (p1 p2 : V3) n1 n2 n3 m1 m2 m3, 0 < lx -> 0 < ly -> 0 < lz ->
  position_distance Rops (Some (lx, ly, lz)) (v3add Rops p1 (lattice (lx, ly, lz) n1 n2 n3))
                    (v3add Rops p2 (lattice (lx, ly, lz) m1 m2 m3)) = position_distance Rops (Some (lx, ly, lz)) p1 p2 /\
  (let '(x, y, z) := position_distance Rops (Some (lx, ly, lz)) p1 p2 in
   Rabs x <= lx / 2 /\ Rabs y <= ly / 2 /\ Rabs z <= lz / 2).
Proof. intros. split; [apply pd_lattice | apply pd_range]; assumption. Qed.
Print Assumptions C02_min_image_vector.
(* whole groups translated by (independent) lattice vectors *)
Theorem C02_lattice_invariant_distance : forall lx ly lz, 0 < lx -> 0 < ly -> 0 < lz -> forall n m g1 g2,
  total_mass Rops g1 <> 0 -> total_mass Rops g2 <> 0 ->
  cv_distance Rops true (Some (lx, ly, lz)) (lshift lx ly lz n g1) (lshift lx ly lz m g2) = cv_distance Rops true (Some (lx, ly, lz)) g1 g2 /\
  cv_distance_vec Rops true (Some (lx, ly, lz)) (lshift lx ly lz n g1) (lshift lx ly lz m g2) = cv_distance_vec Rops true (Some (lx, ly, lz)) g1 g2 /\
  cv_distance_dir Rops true (Some (lx, ly, lz)) (lshift lx ly lz n g1) (lshift lx ly lz m g2) = cv_distance_dir Rops true (Some (lx, ly, lz)) g1 g2.
Proof.
  intros lx ly lz Hx Hy Hz n m g1 g2 H1 H2.
  split; [apply lat_distance | split; [apply lat_distance_vec | apply lat_distance_dir]]; assumption.
Qed.
Print Assumptions C02_lattice_invariant_distance.
(* distanceZ / distanceXY: also the reference groups may sit in any periodic image (for the two-group axis this was
   refuted by the code before the fix of distance_z::calc_value, see known_findings.txt) *)
Theorem C02_lattice_invariant_distanceZ : forall lx ly lz, 0 < lx -> 0 < ly -> 0 < lz -> forall axis n m k main ref ref2,
  total_mass Rops main <> 0 -> total_mass Rops ref <> 0 ->
  (cv_distance_z_fixed Rops true (Some (lx, ly, lz)) axis (lshift lx ly lz n main) (lshift lx ly lz m ref) =
   cv_distance_z_fixed Rops true (Some (lx, ly, lz)) axis main ref /\
   cv_distance_xy_fixed Rops true (Some (lx, ly, lz)) axis (lshift lx ly lz n main) (lshift lx ly lz m ref) =
   cv_distance_xy_fixed Rops true (Some (lx, ly, lz)) axis main ref) /\
  (total_mass Rops ref2 <> 0 ->
   cv_distance_z_ref2 Rops true (Some (lx, ly, lz)) (lshift lx ly lz n main) (lshift lx ly lz m ref) (lshift lx ly lz k ref2) =
   cv_distance_z_ref2 Rops true (Some (lx, ly, lz)) main ref ref2 /\
   cv_distance_xy_ref2 Rops true (Some (lx, ly, lz)) (lshift lx ly lz n main) (lshift lx ly lz m ref) (lshift lx ly lz k ref2) =
   cv_distance_xy_ref2 Rops true (Some (lx, ly, lz)) main ref ref2).
Proof.
  intros lx ly lz Hx Hy Hz axis n m k main ref ref2 H1 H2.
  split; [apply lat_distance_z_fixed | intros H3; apply lat_distance_z_ref2]; assumption.
Qed.
Print Assumptions C02_lattice_invariant_distanceZ.
Theorem C02_lattice_invariant_angle : forall lx ly lz, 0 < lx -> 0 < ly -> 0 < lz -> forall n1 n2 n3 g1 g2 g3,
  total_mass Rops g1 <> 0 -> total_mass Rops g2 <> 0 -> total_mass Rops g3 <> 0 ->
  cv_angle Rops PI true (Some (lx, ly, lz)) (lshift lx ly lz n1 g1) (lshift lx ly lz n2 g2) (lshift lx ly lz n3 g3) =
  cv_angle Rops PI true (Some (lx, ly, lz)) g1 g2 g3.
Proof. exact lat_angle. Qed.
Print Assumptions C02_lattice_invariant_angle.
Theorem C02_lattice_invariant_dihedral : forall lx ly lz, 0 < lx -> 0 < ly -> 0 < lz -> forall n1 n2 n3 n4 g1 g2 g3 g4,
  total_mass Rops g1 <> 0 -> total_mass Rops g2 <> 0 -> total_mass Rops g3 <> 0 -> total_mass Rops g4 <> 0 ->
  cv_dihedral Rops PI true (Some (lx, ly, lz)) (lshift lx ly lz n1 g1) (lshift lx ly lz n2 g2) (lshift lx ly lz n3 g3) (lshift lx ly lz n4 g4) =
  cv_dihedral Rops PI true (Some (lx, ly, lz)) g1 g2 g3 g4.
Proof. exact lat_dihedral. Qed.
Print Assumptions C02_lattice_invariant_dihedral.
Theorem C02_lattice_invariant_coordNum : forall lx ly lz, 0 < lx -> 0 < ly -> 0 < lz -> forall r0 r0v en ed tol k n m g1 g2,
  cv_coordnum Rops r0 r0v en ed tol (Some (lx, ly, lz)) (lshift lx ly lz n g1) (lshift lx ly lz m g2) =
  cv_coordnum Rops r0 r0v en ed tol (Some (lx, ly, lz)) g1 g2 /\
  cv_distance_inv Rops true (Some (lx, ly, lz)) k (lshift lx ly lz n g1) (lshift lx ly lz m g2) =
  cv_distance_inv Rops true (Some (lx, ly, lz)) k g1 g2.
Proof. intros lx ly lz Hx Hy Hz r0 r0v en ed tol k n m g1 g2. split; [apply lat_coordnum | apply lat_distance_inv]; assumption. Qed.
Print Assumptions C02_lattice_invariant_coordNum.

(* ================= quaternion sign and the optimal rotation ================= *)
Theorem C02_quaternion_sign : forall (q : Q4) (v : V3),
  rotation_matrix Rops (qneg Rops q) = rotation_matrix Rops q /\ rotate Rops (qneg Rops q) v = rotate Rops q v.
Proof. intros q v. split; [apply rotation_matrix_neg | apply rotate_neg]. Qed.
Print Assumptions C02_quaternion_sign.
Theorem C02_unit_quaternion_is_rotation : forall q : Q4, qnorm2 q = 1 -> proper_rotation (rotation_matrix Rops q).
Proof. exact rotation_matrix_proper. Qed.
Print Assumptions C02_unit_quaternion_is_rotation.
(* (i) with S built as in rotation::build_correlation_matrix / compute_overlap_matrix from the pairs (x_i, y_i):
   sum_i |R(q) x_i - y_i|^2 = |q|^4 sum |x_i|^2 + sum |y_i|^2 - 2 q^T S q   for every quaternion q *)
Theorem C02_rotation_optimal_quadratic_form : forall (q : Q4) (l : list (V3 * V3)),
  sq_dev Rops q l = qnorm2 q * qnorm2 q * fst (sq_norms Rops l) + snd (sq_norms Rops l)
                    - 2 * quad_form Rops (overlap_matrix Rops (corr_matrix Rops l)) q.
Proof. exact sq_dev_quadratic. Qed.
Print Assumptions C02_rotation_optimal_quadratic_form.
(* (ii) if (e_k, v_k) is an orthonormal eigen-decomposition of S with e0 the largest eigenvalue (this is what the Jacobi
   routine is ASSUMED to deliver; the check verifies it numerically on every case), then v0 gives the least deviation
   among all unit quaternions, i.e. among all rotations *)
Theorem C02_rotation_optimal : forall (l : list (V3 * V3)) (v0 v1 v2 v3 : Q4) (e0 e1 e2 e3 : R),
  overlap_matrix Rops (corr_matrix Rops l) =
    madd4 (madd4 (mscale4 e0 (outer4 v0)) (mscale4 e1 (outer4 v1))) (madd4 (mscale4 e2 (outer4 v2)) (mscale4 e3 (outer4 v3))) ->
  madd4 (madd4 (outer4 v0) (outer4 v1)) (madd4 (outer4 v2) (outer4 v3)) = identity4 ->
  qnorm2 v0 = 1 -> qdot Rops v1 v0 = 0 /\ qdot Rops v2 v0 = 0 /\ qdot Rops v3 v0 = 0 ->
  e1 <= e0 /\ e2 <= e0 /\ e3 <= e0 ->
  forall q : Q4, qnorm2 q = 1 -> sq_dev Rops v0 l <= sq_dev Rops q l.
Proof. exact optimal_rotation_minimises. Qed.
Print Assumptions C02_rotation_optimal.

(* ================= non-vacuity of the premises ================= *)
Example C02_example_rotation : proper_rotation ((0, -1, 0), (1, 0, 0), (0, 0, 1)) /\
  proper_rotation (rotation_matrix Rops (1 / 2, 1 / 2, 1 / 2, 1 / 2)) /\ qnorm2 (1 / 2, 1 / 2, 1 / 2, 1 / 2) = 1.
Proof.
  assert (Hq : qnorm2 (1 / 2, 1 / 2, 1 / 2, 1 / 2) = 1) by (unfold qnorm2, qdot; cbn; lra).
  split; [|split; [apply rotation_matrix_proper, Hq | exact Hq]].
  split; [unfold orthogonal, mmul, mtrans, midentity, v3dot; cbn; tuple_eq; lra | unfold det3; lra].
Qed.
Example C02_example_group : exists g : list atomR, total_mass Rops g <> 0 /\ g <> [] /\ NoDup (map a_id g) /\
  cell_ok (Some (8, 16, 8)) /\ Permutation g (rev g).
Proof.
  exists [mkAtom 0%Z 2 1 (0, 0, 0); mkAtom 1%Z 3 (-1) (1, 0, 0)]. repeat split.
  - rewrite total_mass_R. cbn. lra.
  - discriminate.
  - cbn. repeat constructor; cbn; intuition lia.
  - lra.  - lra.  - lra.
  - apply Permutation_rev.
Qed.
(* one pair x = y = (1,0,0): C = diag(1,0,0), S = diag(1,1,-1,-1), eigenvectors = the standard basis *)
Example C02_example_decomposition :
  let l := [((1, 0, 0), (1, 0, 0))] : list (V3 * V3) in
  overlap_matrix Rops (corr_matrix Rops l) =
    madd4 (madd4 (mscale4 1 (outer4 (1, 0, 0, 0))) (mscale4 1 (outer4 (0, 1, 0, 0))))
          (madd4 (mscale4 (-1) (outer4 (0, 0, 1, 0))) (mscale4 (-1) (outer4 (0, 0, 0, 1)))) /\
  madd4 (madd4 (outer4 (1, 0, 0, 0)) (outer4 (0, 1, 0, 0))) (madd4 (outer4 (0, 0, 1, 0)) (outer4 (0, 0, 0, 1))) = identity4.
Proof.
  cbv zeta. split.
  - unfold overlap_matrix, corr_matrix, corr_add, vzero, madd4, mscale4, outer4, qscale, qadd. cbn. tuple_eq; lra.
  - unfold madd4, outer4, qscale, qadd, identity4. tuple_eq; lra.
Qed.
