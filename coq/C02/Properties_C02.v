(* C02: variable values equal their mathematical definition and respect its symmetries.
   Statements only (proofs in ValueProofs.v); all over the real-number instance Rops of C02.ValueModel,
   for ALL coordinates, masses, charges, group sizes, rotations, translations, lattice vectors, permutations.
   shift_group t g / rot_group M g: every atom of g moved by the translation t / the matrix M;
   proper_rotation M: M^T M = I and det M = 1;  lshift (n1,n2,n3) g: g moved by n1 a + n2 b + n3 c. *)
From Coq Require Import ZArith List Bool Reals Lra Lia Permutation.
From CV Require Import Base.Num Base.RNum C18.ValueModel C02.ValueModel C02.ValueProofs.
Import ListNotations.
Local Open Scope R_scope.

(* C02 is stated in three files compiled in parallel by the check: Properties_C02.v (definitions, translations),
   Properties_C02_rot.v (proper rotations), Properties_C02_sym.v (permutation, duplicates, minimum image, lattice,
   quaternion sign, optimal rotation). *)
(* ================= the definitions (closed forms of the model's accumulating loops) ================= *)
Theorem C02_definition_centres : forall g : list atomR,
  total_mass Rops g = rsum a_mass g /\
  com Rops g = (rsum (fun a => a_mass a * px a) g / total_mass Rops g, rsum (fun a => a_mass a * py a) g / total_mass Rops g,
                rsum (fun a => a_mass a * pz a) g / total_mass Rops g) /\
  cog Rops g = (rsum px g / INR (length g), rsum py g / INR (length g), rsum pz g / INR (length g)).
Proof. intros g. split; [apply total_mass_R | split; [apply com_R | apply cog_R]]. Qed.
Print Assumptions C02_definition_centres.
(* variable = sum_i c_i q_i^n_i, with q^n the integer power (0^0 = 1) *)
Theorem C02_definition_combination : forall l : list (R * Z * R),
  cv_combine Rops l = rsum term_value l /\
  (forall (x : R) (n : Z), x <> 0 -> ipow Rops x n = powerRZ x n) /\
  (forall n : Z, ipow Rops 0 n = if Z.eqb n 0 then 1 else 0).
Proof. intros l. split; [apply cv_combine_sum | split; [exact ipow_spec | exact ipow_zero]]. Qed.
Print Assumptions C02_definition_combination.

(* ================= rigid translations (any cell, minimum image on or off) ================= *)
Theorem C02_translation_invariant_distance : forall pbc cell t g1 g2, total_mass Rops g1 <> 0 -> total_mass Rops g2 <> 0 ->
  cv_distance Rops pbc cell (shift_group t g1) (shift_group t g2) = cv_distance Rops pbc cell g1 g2.
Proof. exact tr_distance. Qed.
Print Assumptions C02_translation_invariant_distance.
Theorem C02_translation_invariant_distanceVec : forall pbc cell t g1 g2, total_mass Rops g1 <> 0 -> total_mass Rops g2 <> 0 ->
  cv_distance_vec Rops pbc cell (shift_group t g1) (shift_group t g2) = cv_distance_vec Rops pbc cell g1 g2.
Proof. exact tr_distance_vec. Qed.
Print Assumptions C02_translation_invariant_distanceVec.
Theorem C02_translation_invariant_distanceDir : forall pbc cell t g1 g2, total_mass Rops g1 <> 0 -> total_mass Rops g2 <> 0 ->
  cv_distance_dir Rops pbc cell (shift_group t g1) (shift_group t g2) = cv_distance_dir Rops pbc cell g1 g2.
Proof. exact tr_distance_dir. Qed.
Print Assumptions C02_translation_invariant_distanceDir.
Theorem C02_translation_invariant_distanceZ : forall pbc cell t axis main ref ref2,
  total_mass Rops main <> 0 -> total_mass Rops ref <> 0 ->
  cv_distance_z_fixed Rops pbc cell axis (shift_group t main) (shift_group t ref) = cv_distance_z_fixed Rops pbc cell axis main ref /\
  (total_mass Rops ref2 <> 0 ->
   cv_distance_z_ref2 Rops pbc cell (shift_group t main) (shift_group t ref) (shift_group t ref2) =
   cv_distance_z_ref2 Rops pbc cell main ref ref2).
Proof. intros; split; [apply tr_distance_z_fixed | intros; apply tr_distance_z_ref2]; assumption. Qed.
Print Assumptions C02_translation_invariant_distanceZ.
Theorem C02_translation_invariant_distanceXY : forall pbc cell t axis main ref ref2,
  total_mass Rops main <> 0 -> total_mass Rops ref <> 0 ->
  cv_distance_xy_fixed Rops pbc cell axis (shift_group t main) (shift_group t ref) = cv_distance_xy_fixed Rops pbc cell axis main ref /\
  (total_mass Rops ref2 <> 0 ->
   cv_distance_xy_ref2 Rops pbc cell (shift_group t main) (shift_group t ref) (shift_group t ref2) =
   cv_distance_xy_ref2 Rops pbc cell main ref ref2).
Proof. intros; split; [apply tr_distance_xy_fixed | intros; apply tr_distance_xy_ref2]; assumption. Qed.
Print Assumptions C02_translation_invariant_distanceXY.
Theorem C02_translation_invariant_distanceInv : forall pbc cell t n g1 g2,
  cv_distance_inv Rops pbc cell n (shift_group t g1) (shift_group t g2) = cv_distance_inv Rops pbc cell n g1 g2.
Proof. exact tr_distance_inv. Qed.
Print Assumptions C02_translation_invariant_distanceInv.
Theorem C02_translation_invariant_dipoleMagnitude : forall t g, total_mass Rops g <> 0 ->
  cv_dipole_magnitude Rops (shift_group t g) = cv_dipole_magnitude Rops g.
Proof. exact tr_dipole_magnitude. Qed.
Print Assumptions C02_translation_invariant_dipoleMagnitude.
Theorem C02_translation_invariant_gyration : forall t g, g <> [] ->
  cv_gyration Rops (shift_group t g) = cv_gyration Rops g /\ cv_inertia Rops (shift_group t g) = cv_inertia Rops g /\
  (forall axis, cv_inertia_z Rops axis (shift_group t g) = cv_inertia_z Rops axis g).
Proof. intros t g H. split; [apply tr_gyration | split; [apply tr_inertia | intros; apply tr_inertia_z]]; exact H. Qed.
Print Assumptions C02_translation_invariant_gyration.
Theorem C02_translation_invariant_angle : forall pbc cell t g1 g2 g3,
  total_mass Rops g1 <> 0 -> total_mass Rops g2 <> 0 -> total_mass Rops g3 <> 0 ->
  cv_angle Rops PI pbc cell (shift_group t g1) (shift_group t g2) (shift_group t g3) = cv_angle Rops PI pbc cell g1 g2 g3.
Proof. exact tr_angle. Qed.
Print Assumptions C02_translation_invariant_angle.
Theorem C02_translation_invariant_dipoleAngle : forall pbc cell t g1 g2 g3,
  total_mass Rops g1 <> 0 -> total_mass Rops g2 <> 0 -> total_mass Rops g3 <> 0 ->
  cv_dipole_angle Rops PI pbc cell (shift_group t g1) (shift_group t g2) (shift_group t g3) = cv_dipole_angle Rops PI pbc cell g1 g2 g3.
Proof. exact tr_dipole_angle. Qed.
Print Assumptions C02_translation_invariant_dipoleAngle.
Theorem C02_translation_invariant_dihedral : forall pbc cell t g1 g2 g3 g4,
  total_mass Rops g1 <> 0 -> total_mass Rops g2 <> 0 -> total_mass Rops g3 <> 0 -> total_mass Rops g4 <> 0 ->
  cv_dihedral Rops PI pbc cell (shift_group t g1) (shift_group t g2) (shift_group t g3) (shift_group t g4) =
  cv_dihedral Rops PI pbc cell g1 g2 g3 g4.
Proof. exact tr_dihedral. Qed.
Print Assumptions C02_translation_invariant_dihedral.
Theorem C02_translation_invariant_coordNum : forall cell t r0 r0v en ed tol g1 g2,
  cv_coordnum Rops r0 r0v en ed tol cell (shift_group t g1) (shift_group t g2) = cv_coordnum Rops r0 r0v en ed tol cell g1 g2 /\
  (total_mass Rops g2 <> 0 ->
   cv_coordnum_center Rops r0 r0v en ed tol cell (shift_group t g1) (shift_group t g2) = cv_coordnum_center Rops r0 r0v en ed tol cell g1 g2).
Proof. intros; split; [apply tr_coordnum | intros; apply tr_coordnum_center; assumption]. Qed.
Print Assumptions C02_translation_invariant_coordNum.
Theorem C02_translation_invariant_selfCoordNum : forall cell t r0 en ed tol g,
  cv_selfcoordnum Rops r0 en ed tol cell (shift_group t g) = cv_selfcoordnum Rops r0 en ed tol cell g.
Proof. exact tr_selfcoordnum. Qed.
Print Assumptions C02_translation_invariant_selfCoordNum.
Theorem C02_translation_invariant_groupCoord : forall cell t r0 r0v en ed g1 g2, total_mass Rops g1 <> 0 -> total_mass Rops g2 <> 0 ->
  cv_groupcoord Rops r0 r0v en ed cell (shift_group t g1) (shift_group t g2) = cv_groupcoord Rops r0 r0v en ed cell g1 g2.
Proof. exact tr_groupcoord. Qed.
Print Assumptions C02_translation_invariant_groupCoord.
Theorem C02_translation_invariant_hBond : forall cell t r0 en ed a d,
  cv_hbond Rops r0 en ed cell (shift_atom t a) (shift_atom t d) = cv_hbond Rops r0 en ed cell a d.
Proof. exact tr_hbond. Qed.
Print Assumptions C02_translation_invariant_hBond.

(* ================= non-vacuity of the premises ================= *)
Example C02_example_group : exists g : list atomR, total_mass Rops g <> 0 /\ g <> [] /\ NoDup (map a_id g) /\
  cell_ok (Some (8, 16, 8)) /\ Permutation g (rev g).
Proof.
  exists [mkAtom 0%Z 2 1 (0, 0, 0); mkAtom 1%Z 3 (-1) (1, 0, 0)]. repeat split.
  - rewrite total_mass_R. cbn. lra.
  - discriminate.
  - cbn. repeat constructor; cbn; intuition lia.
  - lra.  - lra.  - lra.
  - apply Permutation_rev.
Qed.
