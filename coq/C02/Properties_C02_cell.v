(* C02, eighth file: minimum-image displacement in a general (triclinic) cell with vectors a, b, c
   (colvarproxy_system::update_pbc_lattice / position_distance), for every non-degenerate cell (a . (b x c) <> 0). *)
From Coq Require Import ZArith List Bool Reals Lra.
From CV Require Import Base.Num Base.RNum C18.ValueModel C02.ValueModel C02.ValueProofs C02.CellProofs.
Import ListNotations.
Local Open Scope R_scope.

Theorem C02_min_image_triclinic : forall (a b c p1 p2 : V3) (n1 n2 n3 : Z), triple a b c <> 0 ->
  pd_cell Rops a b c p1 (v3add Rops p2 (lattice3 a b c n1 n2 n3)) = pd_cell Rops a b c p1 p2 /\
  (exists m1 m2 m3 : Z, pd_cell Rops a b c p1 p2 = v3sub Rops (v3sub Rops p2 p1) (lattice3 a b c m1 m2 m3)) /\
  (let '(x, y, z) := reduced a b c (pd_cell Rops a b c p1 p2) in
   - 1 / 2 <= x < 1 / 2 /\ - 1 / 2 <= y < 1 / 2 /\ - 1 / 2 <= z < 1 / 2).
Proof. intros. split; [apply pd_cell_lattice; assumption | split; [apply pd_cell_congruent | apply pd_cell_range; assumption]]. Qed.
Print Assumptions C02_min_image_triclinic.
Theorem C02_triclinic_extends_orthorhombic : forall lx ly lz (p1 p2 : V3), lx <> 0 -> ly <> 0 -> lz <> 0 ->
  pd_cell Rops (lx, 0, 0) (0, ly, 0) (0, 0, lz) p1 p2 = position_distance Rops (Some (lx, ly, lz)) p1 p2.
Proof. exact pd_cell_orthorhombic. Qed.
Print Assumptions C02_triclinic_extends_orthorhombic.
(* polarPhi is the azimuth of the centre of mass: rho cos(phi) = x, rho sin(phi) = y, -180 < phi <= 180 (phi in degrees);
   a rotation of all atoms about z by alpha adds alpha to it modulo 360 (equal cosine and sine) *)
Theorem C02_definition_polarPhi : forall g : list atomR,
  let '(x, y, z) := com Rops g in (x <> 0 \/ y <> 0) ->
  sqrt (x * x + y * y) * cos (cv_polar_phi Rops PI g * (PI / 180)) = x /\
  sqrt (x * x + y * y) * sin (cv_polar_phi Rops PI g * (PI / 180)) = y /\
  - 180 < cv_polar_phi Rops PI g <= 180.
Proof. exact polar_phi_polar. Qed.
Print Assumptions C02_definition_polarPhi.
Theorem C02_rotation_shifts_polarPhi : forall (alpha : R) (g : list atomR),
  let '(x, y, z) := com Rops g in (x <> 0 \/ y <> 0) ->
  cos (cv_polar_phi Rops PI (rot_group (rot_z alpha) g) * (PI / 180)) = cos (cv_polar_phi Rops PI g * (PI / 180) + alpha) /\
  sin (cv_polar_phi Rops PI (rot_group (rot_z alpha) g) * (PI / 180)) = sin (cv_polar_phi Rops PI g * (PI / 180) + alpha).
Proof. exact polar_phi_rot_z. Qed.
Print Assumptions C02_rotation_shifts_polarPhi.
Example C02_example_triclinic : triple (8, 0, 0) (2, 8, 0) (1, 3, 8) <> 0.
Proof. unfold triple, v3dot, v3cross. cbn. lra. Qed.
