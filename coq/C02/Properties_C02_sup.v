(* C02, seventh file: the value of a variable over histories of run-time changes of its components
   (cv colvar <name> modifycvcs / cvcflags): at every point of every history the reported value is the sum over the
   ENABLED components of coeff_i * q_i^(n_i) with the LIVE coefficients and exponents. *)
From Coq Require Import ZArith List Bool Reals Lra Lia.
From CV Require Import Base.Num Base.RNum C18.ValueModel C02.ValueModel C02.ValueProofs C02.SupProofs.
Import ListNotations.
Local Open Scope R_scope.

Theorem C02_value_over_histories_scalar : forall (h : list (@sup_event R)) (comps0 : list supR) (qs : list R),
  sup_scalar Rops (sup_run h comps0) qs =
  rsum (fun cq => term_of (fst cq) (snd cq)) (combine (sup_run h comps0) qs) /\
  length (sup_run h comps0) = length comps0.
Proof. intros. split; [apply sup_scalar_sum | apply sup_run_length]. Qed.
Print Assumptions C02_value_over_histories_scalar.
Theorem C02_value_over_histories_vector : forall (h : list (@sup_event R)) (comps0 : list supR) n (qs : list (list R)) j,
  Forall (fun q => length q = n) qs ->
  nth j (sup_vector Rops n (sup_run h comps0) qs) 0 =
  rsum (fun cq => if su_active (fst cq) then su_coeff (fst cq) * nth j (snd cq) 0 else 0) (combine (sup_run h comps0) qs).
Proof. intros. apply sup_vector_sum. assumption. Qed.
Print Assumptions C02_value_over_histories_vector.
(* what the events do to the live parameters *)
Theorem C02_live_component_parameters : forall (comps : list supR) confs flags i d dc, (i < length comps)%nat ->
  (length confs = length comps ->
   nth i (sup_apply comps (SupModify confs)) d = sup_modify (nth i confs dc) (nth i comps d)) /\
  (length flags = length comps ->
   nth i (sup_apply comps (SupFlags flags)) d = mkSupComp (su_coeff (nth i comps d)) (su_exp (nth i comps d)) (nth i flags false)) /\
  (length confs <> length comps -> sup_apply comps (SupModify confs) = comps) /\
  (length flags <> length comps -> sup_apply comps (SupFlags flags) = comps) /\
  (forall h1 h2, sup_run (h1 ++ h2) comps = sup_run h2 (sup_run h1 comps)).
Proof.
  intros comps confs flags i d dc Hi. split; [intros; apply sup_modify_nth; assumption|].
  split; [intros; apply sup_flags_nth; assumption|].
  split; [intros H; cbn [sup_apply]; apply Nat.eqb_neq in H; rewrite H; reflexivity|].
  split; [intros H; cbn [sup_apply]; apply Nat.eqb_neq in H; rewrite H; reflexivity|].
  intros; apply sup_run_app.
Qed.
Print Assumptions C02_live_component_parameters.
(* a single component configured with the defaults and then given coefficient 2: the value is 2 q, not q *)
Example C02_example_single_component_modified :
  sup_scalar Rops (sup_run [SupModify [(Some 2, None)]] [mkSupComp 1 1%Z true]) [3] = 6.
Proof. rewrite sup_scalar_sum. cbn. unfold term_of. cbn. lra. Qed.
