(* C02 lemmas: all about the real-number instance Rops of C02.ValueModel. *)
From Coq Require Import ZArith List Bool Reals Lra Lia Psatz Permutation.
From Flocq Require Import Core.Raux.
From CV Require Import Base.Num Base.RNum C18.ValueModel C18.ValueProofs C02.ValueModel.
Import ListNotations.
Local Open Scope R_scope.

Notation V3 := (@vec3 R).
Notation Q4 := (@quat R).
Notation atomR := (@atom R).

Ltac rs := cbn [nadd nsub nmul ndiv nneg n0 n1 nofZ nsqrt nltb nleb neqb nacos natan2 npow nfloor nexp nlog ncos nsin Rops] in *.

(* ------------------------------------------------------------------ sums *)
Fixpoint rsum {A : Type} (f : A -> R) (l : list A) : R :=
  match l with [] => 0 | a :: r => f a + rsum f r end.

Lemma lsum_from_eq {A} (f : A -> R) l acc : lsum_from Rops acc f l = acc + rsum f l.
Proof.
  unfold lsum_from. revert acc. induction l as [|a l IH]; intros acc; cbn [fold_left rsum].
  - lra.
  - rewrite IH. rs. lra.
Qed.
Lemma lsum_eq {A} (f : A -> R) l : lsum Rops f l = rsum f l.
Proof. unfold lsum. rewrite lsum_from_eq. rs. lra. Qed.

Lemma vsum_eq {A} (f : A -> V3) l :
  vsum Rops f l = (rsum (fun a => fst (fst (f a))) l, rsum (fun a => snd (fst (f a))) l, rsum (fun a => snd (f a)) l).
Proof.
  unfold vsum.
  assert (H : forall acc : V3, fold_left (fun s a => v3add Rops s (f a)) l acc =
            (fst (fst acc) + rsum (fun a => fst (fst (f a))) l, snd (fst acc) + rsum (fun a => snd (fst (f a))) l,
             snd acc + rsum (fun a => snd (f a)) l)).
  { induction l as [|a l IH]; intros [[x y] z]; cbn [fold_left rsum fst snd].
    - f_equal; [f_equal|]; lra.
    - rewrite IH. destruct (f a) as [[u v] w]. unfold v3add. rs. cbn [fst snd]. f_equal; [f_equal|]; lra. }
  rewrite H. unfold vzero. rs. cbn [fst snd]. f_equal; [f_equal|]; lra.
Qed.

Lemma pair_sum_eq {A B} (f : A -> B -> R) l1 l2 : pair_sum Rops f l1 l2 = rsum (fun a => rsum (f a) l2) l1.
Proof.
  unfold pair_sum.
  assert (H : forall acc, fold_left (fun s a => lsum_from Rops s (f a) l2) l1 acc = acc + rsum (fun a => rsum (f a) l2) l1).
  { induction l1 as [|a l1 IH]; intros acc; cbn [fold_left rsum]; [lra|]. rewrite IH, lsum_from_eq. lra. }
  rewrite H. rs. lra.
Qed.

Fixpoint self_rsum {A : Type} (f : A -> A -> R) (l : list A) : R :=
  match l with [] => 0 | a :: r => rsum (f a) r + self_rsum f r end.
Lemma self_sum_from_eq {A} (f : A -> A -> R) l acc : self_sum_from Rops acc f l = acc + self_rsum f l.
Proof.
  revert acc. induction l as [|a l IH]; intros acc; cbn [self_sum_from self_rsum]; [lra|].
  rewrite IH, lsum_from_eq. lra.
Qed.

Lemma rsum_ext {A} (f g : A -> R) l : (forall a, In a l -> f a = g a) -> rsum f l = rsum g l.
Proof.
  induction l as [|a l IH]; intros H; cbn [rsum]; [reflexivity|].
  rewrite (H a (or_introl eq_refl)), IH; [reflexivity|]. intros b Hb. apply H. right; exact Hb.
Qed.
Lemma rsum_map {A B} (g : A -> B) (f : B -> R) l : rsum f (map g l) = rsum (fun a => f (g a)) l.
Proof. induction l as [|a l IH]; cbn [map rsum]; [reflexivity|]. rewrite IH. reflexivity. Qed.
Lemma rsum_plus {A} (f g : A -> R) l : rsum (fun a => f a + g a) l = rsum f l + rsum g l.
Proof. induction l as [|a l IH]; cbn [rsum]; [lra|]. rewrite IH. lra. Qed.
Lemma rsum_scal {A} (c : R) (f : A -> R) l : rsum (fun a => c * f a) l = c * rsum f l.
Proof. induction l as [|a l IH]; cbn [rsum]; [lra|]. rewrite IH. lra. Qed.
Lemma rsum_scal_r {A} (c : R) (f : A -> R) l : rsum (fun a => f a * c) l = rsum f l * c.
Proof. induction l as [|a l IH]; cbn [rsum]; [lra|]. rewrite IH. lra. Qed.
Lemma rsum_const {A} (c : R) (l : list A) : rsum (fun _ => c) l = INR (length l) * c.
Proof. induction l as [|a l IH]; [cbn; lra|]. cbn [rsum length]. rewrite IH, S_INR. lra. Qed.
Lemma rsum_app {A} (f : A -> R) l1 l2 : rsum f (l1 ++ l2) = rsum f l1 + rsum f l2.
Proof. induction l1 as [|a l1 IH]; cbn [app rsum]; [lra|]. rewrite IH. lra. Qed.
Lemma rsum_perm {A} (f : A -> R) l l' : Permutation l l' -> rsum f l = rsum f l'.
Proof.
  intros H. induction H as [|a l l' H IH|a b l|l l' l'' H1 IH1 H2 IH2]; cbn [rsum]; lra.
Qed.
Lemma self_rsum_map {A B} (g : A -> B) (f : B -> B -> R) l :
  self_rsum f (map g l) = self_rsum (fun a b => f (g a) (g b)) l.
Proof. induction l as [|a l IH]; cbn [map self_rsum]; [reflexivity|]. rewrite IH, rsum_map. reflexivity. Qed.
Lemma self_rsum_ext {A} (f g : A -> A -> R) l : (forall a b, f a b = g a b) -> self_rsum f l = self_rsum g l.
Proof.
  intros H. induction l as [|a l IH]; cbn [self_rsum]; [reflexivity|]. rewrite IH.
  rewrite (rsum_ext (f a) (g a)); [reflexivity|]. intros b _. apply H.
Qed.
(* a symmetric pair function: the i<j sum does not depend on the order of the list *)
Lemma self_rsum_perm {A} (f : A -> A -> R) l l' : (forall a b, f a b = f b a) ->
  Permutation l l' -> self_rsum f l = self_rsum f l'.
Proof.
  intros Hs H. induction H as [|a l l' H IH|a b l|l l' l'' H1 IH1 H2 IH2]; cbn [self_rsum rsum].
  - reflexivity.
  - rewrite IH, (rsum_perm (f a) l l' H). reflexivity.
  - rewrite (Hs b a). lra.
  - rewrite IH1. exact IH2.
Qed.

Lemma INR_nofnat n : nofnat Rops n = INR n.
Proof. unfold nofnat. rs. symmetry. apply INR_IZR_INZ. Qed.

(* ------------------------------------------------------------------ vectors *)
Lemma v3_eq (a b c d e f : R) : a = d -> b = e -> c = f -> (a, b, c) = (d, e, f).
Proof. intros -> -> ->. reflexivity. Qed.
Ltac v3ring := apply v3_eq; rs; try ring.
Ltac tuple_eq := repeat match goal with |- (_, _) = (_, _) => apply f_equal2 end.
Ltac dv v := let x := fresh v "x" in let y := fresh v "y" in let z := fresh v "z" in destruct v as [[x y] z].

Definition v3opp (a : V3) : V3 := v3scale Rops (-1) a.

Lemma v3sub_shift (a b t : V3) : v3sub Rops (v3add Rops a t) (v3add Rops b t) = v3sub Rops a b.
Proof. dv a; dv b; dv t. unfold v3sub, v3add. v3ring. Qed.
Lemma v3add_sub (a t : V3) : v3sub Rops (v3add Rops a t) t = a.
Proof. dv a; dv t. unfold v3sub, v3add. v3ring. Qed.

Definition M3 := (@mat3 R).
Definition mtrans (M : M3) : M3 :=
  let '((a, b, c), (d, e, f), (g, h, i)) := M in ((a, d, g), (b, e, h), (c, f, i)).
Definition midentity : M3 := ((1, 0, 0), (0, 1, 0), (0, 0, 1)).
Definition mmul (A B : M3) : M3 :=
  let '(c1, c2, c3) := mtrans B in
  let '(r1, r2, r3) := A in
  ((v3dot Rops r1 c1, v3dot Rops r1 c2, v3dot Rops r1 c3),
   (v3dot Rops r2 c1, v3dot Rops r2 c2, v3dot Rops r2 c3),
   (v3dot Rops r3 c1, v3dot Rops r3 c2, v3dot Rops r3 c3)).
Definition det3 (M : M3) : R :=
  let '((a, b, c), (d, e, f), (g, h, i)) := M in
  a * (e * i - f * h) - b * (d * i - f * g) + c * (d * h - e * g).
(* every orthogonal matrix (M^T M = I) with determinant 1 *)
Definition orthogonal (M : M3) : Prop := mmul (mtrans M) M = midentity.
Definition proper_rotation (M : M3) : Prop := orthogonal M /\ det3 M = 1.

Ltac dm M := let a := fresh M "a" in let b := fresh M "b" in let c := fresh M "c" in
             let d := fresh M "d" in let e := fresh M "e" in let f := fresh M "f" in
             let g := fresh M "g" in let h := fresh M "h" in let i := fresh M "i" in
             destruct M as [[[[a b] c] [[d e] f]] [[g h] i]].

Lemma orthogonal_eqs (a b c d e f g h i : R) : orthogonal ((a, b, c), (d, e, f), (g, h, i)) ->
  a * a + d * d + g * g = 1 /\ a * b + d * e + g * h = 0 /\ a * c + d * f + g * i = 0 /\
  b * b + e * e + h * h = 1 /\ b * c + e * f + h * i = 0 /\ c * c + f * f + i * i = 1.
Proof.
  unfold orthogonal, mmul, mtrans, midentity, v3dot. rs. intros H. inversion H as [[H1 H2 H3 H4 H5 H6 H7 H8 H9]].
  repeat split; lra.
Qed.

Lemma mat_vec_sub (M : M3) (a b : V3) : v3sub Rops (mat_vec Rops M a) (mat_vec Rops M b) = mat_vec Rops M (v3sub Rops a b).
Proof. dm M; dv a; dv b. unfold v3sub, mat_vec, v3dot. v3ring. Qed.
Lemma mat_vec_add (M : M3) (a b : V3) : v3add Rops (mat_vec Rops M a) (mat_vec Rops M b) = mat_vec Rops M (v3add Rops a b).
Proof. dm M; dv a; dv b. unfold v3add, mat_vec, v3dot. v3ring. Qed.
Lemma mat_vec_scale (M : M3) s (a : V3) : mat_vec Rops M (v3scale Rops s a) = v3scale Rops s (mat_vec Rops M a).
Proof. dm M; dv a. unfold v3scale, mat_vec, v3dot. v3ring. Qed.
Lemma mat_vec_id (a : V3) : mat_vec Rops midentity a = a.
Proof. dv a. unfold midentity, mat_vec, v3dot. v3ring. Qed.

Lemma dot_rot (M : M3) (u v : V3) : orthogonal M -> v3dot Rops (mat_vec Rops M u) (mat_vec Rops M v) = v3dot Rops u v.
Proof.
  dm M; dv u; dv v. intros H. apply orthogonal_eqs in H. destruct H as (H1 & H2 & H3 & H4 & H5 & H6).
  unfold mat_vec, v3dot. rs.
  replace ((Ma * ux + Mb * uy + Mc * uz) * (Ma * vx + Mb * vy + Mc * vz) +
           (Md * ux + Me * uy + Mf * uz) * (Md * vx + Me * vy + Mf * vz) +
           (Mg * ux + Mh * uy + Mi * uz) * (Mg * vx + Mh * vy + Mi * vz))
    with (ux * vx * (Ma * Ma + Md * Md + Mg * Mg) + (ux * vy + uy * vx) * (Ma * Mb + Md * Me + Mg * Mh) +
          (ux * vz + uz * vx) * (Ma * Mc + Md * Mf + Mg * Mi) + uy * vy * (Mb * Mb + Me * Me + Mh * Mh) +
          (uy * vz + uz * vy) * (Mb * Mc + Me * Mf + Mh * Mi) + uz * vz * (Mc * Mc + Mf * Mf + Mi * Mi)) by ring.
  rewrite H1, H2, H3, H4, H5, H6. ring.
Qed.
Lemma norm2_rot (M : M3) (u : V3) : orthogonal M -> v3norm2 Rops (mat_vec Rops M u) = v3norm2 Rops u.
Proof. intros H. unfold v3norm2. apply dot_rot; exact H. Qed.
Lemma norm_rot (M : M3) (u : V3) : orthogonal M -> v3norm Rops (mat_vec Rops M u) = v3norm Rops u.
Proof. intros H. unfold v3norm. rewrite norm2_rot by exact H. reflexivity. Qed.

(* the scalar triple product is multiplied by the determinant *)
Lemma triple_rot (M : M3) (u v w : V3) :
  v3dot Rops (v3cross Rops (mat_vec Rops M u) (mat_vec Rops M v)) (mat_vec Rops M w) =
  det3 M * v3dot Rops (v3cross Rops u v) w.
Proof. dm M; dv u; dv v; dv w. unfold mat_vec, v3cross, v3dot, det3. rs. ring. Qed.
(* Binet-Cauchy: the dot product of two cross products in terms of dot products *)
Lemma dot_cross_cross (a b c d : V3) :
  v3dot Rops (v3cross Rops a b) (v3cross Rops c d) =
  v3dot Rops a c * v3dot Rops b d - v3dot Rops a d * v3dot Rops b c.
Proof. dv a; dv b; dv c; dv d. unfold v3cross, v3dot. rs. ring. Qed.

Lemma v3div_scale (v : V3) s : v3div Rops v s = v3scale Rops (/ s) v.
Proof. dv v. unfold v3div, v3scale. v3ring; unfold Rdiv; ring. Qed.
Lemma v3norm2_nonneg (v : V3) : 0 <= v3norm2 Rops v.
Proof. dv v. unfold v3norm2, v3dot. rs. nra. Qed.
Lemma v3norm_nonneg (v : V3) : 0 <= v3norm Rops v.
Proof. unfold v3norm. rs. apply sqrt_pos. Qed.

Lemma v3unit_rot (M : M3) (u : V3) : orthogonal M -> v3norm2 Rops u <> 0 ->
  v3unit Rops (mat_vec Rops M u) = mat_vec Rops M (v3unit Rops u).
Proof.
  intros H Hu. unfold v3unit. rewrite norm_rot by exact H.
  assert (Hn : 0 < v3norm Rops u).
  { unfold v3norm. rs. apply sqrt_lt_R0. pose proof (v3norm2_nonneg u). lra. }
  rs. assert (Rltb 0 (v3norm Rops u) = true) as -> by (apply Rltb_true; exact Hn).
  rewrite !v3div_scale, mat_vec_scale. reflexivity.
Qed.

(* ------------------------------------------------------------------ groups under rigid motions *)
Definition shift_atom (t : V3) (a : atomR) : atomR :=
  mkAtom (a_id a) (a_mass a) (a_charge a) (v3add Rops (a_pos a) t).
Definition rot_atom (M : M3) (a : atomR) : atomR :=
  mkAtom (a_id a) (a_mass a) (a_charge a) (mat_vec Rops M (a_pos a)).
Definition shift_group (t : V3) (g : list atomR) : list atomR := map (shift_atom t) g.
Definition rot_group (M : M3) (g : list atomR) : list atomR := map (rot_atom M) g.

Definition px (a : atomR) : R := fst (fst (a_pos a)).
Definition py (a : atomR) : R := snd (fst (a_pos a)).
Definition pz (a : atomR) : R := snd (a_pos a).

Lemma rsum_lin3 {A} c1 c2 c3 (f1 f2 f3 : A -> R) l :
  rsum (fun a => c1 * f1 a + c2 * f2 a + c3 * f3 a) l = c1 * rsum f1 l + c2 * rsum f2 l + c3 * rsum f3 l.
Proof. induction l as [|a l IH]; cbn [rsum]; [lra|]. rewrite IH. lra. Qed.

Lemma total_mass_R g : total_mass Rops g = rsum a_mass g.
Proof. unfold total_mass. apply lsum_eq. Qed.
Lemma total_charge_R g : total_charge Rops g = rsum a_charge g.
Proof. unfold total_charge. apply lsum_eq. Qed.

Lemma com_R g : com Rops g =
  (rsum (fun a => a_mass a * px a) g / total_mass Rops g, rsum (fun a => a_mass a * py a) g / total_mass Rops g,
   rsum (fun a => a_mass a * pz a) g / total_mass Rops g).
Proof.
  unfold com. rewrite vsum_eq. unfold v3div. rs.
  apply v3_eq; f_equal; apply rsum_ext; intros a _; unfold px, py, pz; destruct (a_pos a) as [[x y] z]; reflexivity.
Qed.
Lemma cog_R g : cog Rops g = (rsum px g / INR (length g), rsum py g / INR (length g), rsum pz g / INR (length g)).
Proof. unfold cog. rewrite INR_nofnat, vsum_eq. unfold v3div. rs. reflexivity. Qed.

Lemma total_mass_shift t g : total_mass Rops (shift_group t g) = total_mass Rops g.
Proof. rewrite !total_mass_R. unfold shift_group. rewrite rsum_map. reflexivity. Qed.
Lemma total_mass_rot M g : total_mass Rops (rot_group M g) = total_mass Rops g.
Proof. rewrite !total_mass_R. unfold rot_group. rewrite rsum_map. reflexivity. Qed.
Lemma length_shift t g : length (shift_group t g) = length g.
Proof. apply map_length. Qed.
Lemma length_rot M g : length (rot_group M g) = length g.
Proof. apply map_length. Qed.

Lemma com_shift t g : total_mass Rops g <> 0 -> com Rops (shift_group t g) = v3add Rops (com Rops g) t.
Proof.
  intros HM. rewrite !com_R, total_mass_shift. unfold shift_group. rewrite !rsum_map. dv t.
  cbn [a_mass shift_atom]. unfold v3add. rs.
  apply v3_eq.
  - rewrite (rsum_ext _ (fun a => a_mass a * px a + a_mass a * tx)), rsum_plus, rsum_scal_r; [rewrite <- total_mass_R; field; exact HM|].
    intros a _. unfold px. cbn [a_pos shift_atom]. destruct (a_pos a) as [[x y] z]. unfold v3add. rs. cbn [fst snd]. ring.
  - rewrite (rsum_ext _ (fun a => a_mass a * py a + a_mass a * ty)), rsum_plus, rsum_scal_r; [rewrite <- total_mass_R; field; exact HM|].
    intros a _. unfold py. cbn [a_pos shift_atom]. destruct (a_pos a) as [[x y] z]. unfold v3add. rs. cbn [fst snd]. ring.
  - rewrite (rsum_ext _ (fun a => a_mass a * pz a + a_mass a * tz)), rsum_plus, rsum_scal_r; [rewrite <- total_mass_R; field; exact HM|].
    intros a _. unfold pz. cbn [a_pos shift_atom]. destruct (a_pos a) as [[x y] z]. unfold v3add. rs. cbn [fst snd]. ring.
Qed.

Lemma com_rot M g : com Rops (rot_group M g) = mat_vec Rops M (com Rops g).
Proof.
  rewrite !com_R, total_mass_rot. unfold rot_group. rewrite !rsum_map. dm M.
  cbn [a_mass rot_atom]. unfold mat_vec, v3dot. rs.
  set (S := total_mass Rops g).
  apply v3_eq.
  - rewrite (rsum_ext _ (fun a => Ma * (a_mass a * px a) + Mb * (a_mass a * py a) + Mc * (a_mass a * pz a))), rsum_lin3;
      [unfold Rdiv; ring|].
    intros a _. unfold px, py, pz. cbn [a_pos rot_atom]. destruct (a_pos a) as [[x y] z]. unfold mat_vec, v3dot. rs. cbn [fst snd]. ring.
  - rewrite (rsum_ext _ (fun a => Md * (a_mass a * px a) + Me * (a_mass a * py a) + Mf * (a_mass a * pz a))), rsum_lin3;
      [unfold Rdiv; ring|].
    intros a _. unfold px, py, pz. cbn [a_pos rot_atom]. destruct (a_pos a) as [[x y] z]. unfold mat_vec, v3dot. rs. cbn [fst snd]. ring.
  - rewrite (rsum_ext _ (fun a => Mg * (a_mass a * px a) + Mh * (a_mass a * py a) + Mi * (a_mass a * pz a))), rsum_lin3;
      [unfold Rdiv; ring|].
    intros a _. unfold px, py, pz. cbn [a_pos rot_atom]. destruct (a_pos a) as [[x y] z]. unfold mat_vec, v3dot. rs. cbn [fst snd]. ring.
Qed.

Lemma length_INR_pos {A} (g : list A) : g <> [] -> INR (length g) <> 0.
Proof. destruct g as [|a g]; [congruence|]. intros _. cbn [length]. rewrite S_INR. pose proof (pos_INR (length g)). lra. Qed.

Lemma cog_shift t g : g <> [] -> cog Rops (shift_group t g) = v3add Rops (cog Rops g) t.
Proof.
  intros Hg. apply length_INR_pos in Hg. rewrite !cog_R, length_shift. unfold shift_group. rewrite !rsum_map. dv t.
  unfold v3add. rs.
  apply v3_eq.
  - rewrite (rsum_ext _ (fun a => px a + tx)), rsum_plus, rsum_const; [field; exact Hg|].
    intros a _. unfold px. cbn [a_pos shift_atom]. destruct (a_pos a) as [[x y] z]. reflexivity.
  - rewrite (rsum_ext _ (fun a => py a + ty)), rsum_plus, rsum_const; [field; exact Hg|].
    intros a _. unfold py. cbn [a_pos shift_atom]. destruct (a_pos a) as [[x y] z]. reflexivity.
  - rewrite (rsum_ext _ (fun a => pz a + tz)), rsum_plus, rsum_const; [field; exact Hg|].
    intros a _. unfold pz. cbn [a_pos shift_atom]. destruct (a_pos a) as [[x y] z]. reflexivity.
Qed.

Lemma cog_rot M g : cog Rops (rot_group M g) = mat_vec Rops M (cog Rops g).
Proof.
  rewrite !cog_R, length_rot. unfold rot_group. rewrite !rsum_map. dm M.
  unfold mat_vec, v3dot. rs.
  apply v3_eq.
  - rewrite (rsum_ext _ (fun a => Ma * px a + Mb * py a + Mc * pz a)), rsum_lin3; [unfold Rdiv; ring|].
    intros a _. unfold px, py, pz. cbn [a_pos rot_atom]. destruct (a_pos a) as [[x y] z]. reflexivity.
  - rewrite (rsum_ext _ (fun a => Md * px a + Me * py a + Mf * pz a)), rsum_lin3; [unfold Rdiv; ring|].
    intros a _. unfold px, py, pz. cbn [a_pos rot_atom]. destruct (a_pos a) as [[x y] z]. reflexivity.
  - rewrite (rsum_ext _ (fun a => Mg * px a + Mh * py a + Mi * pz a)), rsum_lin3; [unfold Rdiv; ring|].
    intros a _. unfold px, py, pz. cbn [a_pos rot_atom]. destruct (a_pos a) as [[x y] z]. reflexivity.
Qed.

(* ------------------------------------------------------------------ displacements *)
Lemma pd_shift cell (a b t : V3) :
  position_distance Rops cell (v3add Rops a t) (v3add Rops b t) = position_distance Rops cell a b.
Proof. unfold position_distance. rewrite v3sub_shift. reflexivity. Qed.
Lemma pdist_shift pbc cell (a b t : V3) :
  pdist Rops pbc cell (v3add Rops a t) (v3add Rops b t) = pdist Rops pbc cell a b.
Proof. unfold pdist. rewrite pd_shift, v3sub_shift. reflexivity. Qed.
Lemma pd_rot (M : M3) (a b : V3) :
  position_distance Rops None (mat_vec Rops M a) (mat_vec Rops M b) = mat_vec Rops M (position_distance Rops None a b).
Proof. unfold position_distance. apply mat_vec_sub. Qed.
Lemma pdist_rot pbc (M : M3) (a b : V3) :
  pdist Rops pbc None (mat_vec Rops M a) (mat_vec Rops M b) = mat_vec Rops M (pdist Rops pbc None a b).
Proof. unfold pdist. destruct pbc; [apply pd_rot | apply mat_vec_sub]. Qed.

Lemma vsum_map_ext {A B} (h : A -> B) (f : B -> V3) (f' : A -> V3) l :
  (forall a, In a l -> f (h a) = f' a) -> vsum Rops f (map h l) = vsum Rops f' l.
Proof.
  intros H. rewrite !vsum_eq, !rsum_map.
  apply v3_eq; apply rsum_ext; intros a Ha; rewrite (H a Ha); reflexivity.
Qed.
Lemma vsum_mat_vec {A} (M : M3) (f : A -> V3) l :
  vsum Rops (fun a => mat_vec Rops M (f a)) l = mat_vec Rops M (vsum Rops f l).
Proof.
  rewrite !vsum_eq. dm M. unfold mat_vec, v3dot. rs.
  apply v3_eq.
  - rewrite <- rsum_lin3. apply rsum_ext. intros a _. destruct (f a) as [[x y] z]. reflexivity.
  - rewrite <- rsum_lin3. apply rsum_ext. intros a _. destruct (f a) as [[x y] z]. reflexivity.
  - rewrite <- rsum_lin3. apply rsum_ext. intros a _. destruct (f a) as [[x y] z]. reflexivity.
Qed.

Lemma dipole_shift t g (c : V3) : dipole Rops (shift_group t g) (v3add Rops c t) = dipole Rops g c.
Proof.
  unfold dipole, shift_group. apply vsum_map_ext. intros a _. cbn [a_charge a_pos shift_atom].
  rewrite v3sub_shift. reflexivity.
Qed.
Lemma dipole_rot M g (c : V3) : dipole Rops (rot_group M g) (mat_vec Rops M c) = mat_vec Rops M (dipole Rops g c).
Proof.
  unfold dipole, rot_group. rewrite <- vsum_mat_vec. apply vsum_map_ext. intros a _. cbn [a_charge a_pos rot_atom].
  rewrite mat_vec_sub, mat_vec_scale. reflexivity.
Qed.

Lemma centered_shift t g : g <> [] -> centered Rops (shift_group t g) = centered Rops g.
Proof.
  intros Hg. unfold centered. rewrite cog_shift by exact Hg. unfold shift_group. rewrite map_map.
  apply map_ext. intros a. cbn [a_pos shift_atom]. apply v3sub_shift.
Qed.
Lemma centered_rot M g : centered Rops (rot_group M g) = map (mat_vec Rops M) (centered Rops g).
Proof.
  unfold centered. rewrite cog_rot. unfold rot_group. rewrite !map_map.
  apply map_ext. intros a. cbn [a_pos rot_atom]. apply mat_vec_sub.
Qed.

(* ------------------------------------------------------------------ components: translations *)
Section Translation.
  Variables (pbc : bool) (cell : option V3) (t : V3).
  Local Notation sh := (shift_group t).

  Lemma tr_distance_vec g1 g2 : total_mass Rops g1 <> 0 -> total_mass Rops g2 <> 0 ->
    cv_distance_vec Rops pbc cell (sh g1) (sh g2) = cv_distance_vec Rops pbc cell g1 g2.
  Proof. intros H1 H2. unfold cv_distance_vec. rewrite !com_shift by assumption. apply pdist_shift. Qed.
  Lemma tr_distance g1 g2 : total_mass Rops g1 <> 0 -> total_mass Rops g2 <> 0 ->
    cv_distance Rops pbc cell (sh g1) (sh g2) = cv_distance Rops pbc cell g1 g2.
  Proof. intros H1 H2. unfold cv_distance. rewrite tr_distance_vec by assumption. reflexivity. Qed.
  Lemma tr_distance_dir g1 g2 : total_mass Rops g1 <> 0 -> total_mass Rops g2 <> 0 ->
    cv_distance_dir Rops pbc cell (sh g1) (sh g2) = cv_distance_dir Rops pbc cell g1 g2.
  Proof. intros H1 H2. unfold cv_distance_dir. rewrite tr_distance_vec by assumption. reflexivity. Qed.

  Lemma tr_distance_z_fixed axis main ref : total_mass Rops main <> 0 -> total_mass Rops ref <> 0 ->
    cv_distance_z_fixed Rops pbc cell axis (sh main) (sh ref) = cv_distance_z_fixed Rops pbc cell axis main ref.
  Proof. intros H1 H2. unfold cv_distance_z_fixed. rewrite !com_shift by assumption. rewrite pdist_shift. reflexivity. Qed.
  Lemma tr_distance_xy_fixed axis main ref : total_mass Rops main <> 0 -> total_mass Rops ref <> 0 ->
    cv_distance_xy_fixed Rops pbc cell axis (sh main) (sh ref) = cv_distance_xy_fixed Rops pbc cell axis main ref.
  Proof. intros H1 H2. unfold cv_distance_xy_fixed. rewrite !com_shift by assumption. rewrite pdist_shift. reflexivity. Qed.

  Lemma half_sum_shift (a b : V3) :
    v3scale Rops (nhalf Rops) (v3add Rops (v3add Rops a t) (v3add Rops b t)) =
    v3add Rops (v3scale Rops (nhalf Rops) (v3add Rops a b)) t.
  Proof. dv a; dv b; dv t. unfold v3scale, v3add, nhalf. v3ring; field. Qed.
  Lemma v3add_swap (a b c : V3) : v3add Rops (v3add Rops a b) c = v3add Rops (v3add Rops a c) b.
  Proof. dv a; dv b; dv c. unfold v3add. v3ring. Qed.
  Lemma tr_distance_z_ref2 main ref ref2 :
    total_mass Rops main <> 0 -> total_mass Rops ref <> 0 -> total_mass Rops ref2 <> 0 ->
    cv_distance_z_ref2 Rops pbc cell (sh main) (sh ref) (sh ref2) = cv_distance_z_ref2 Rops pbc cell main ref ref2.
  Proof.
    intros H1 H2 H3. unfold cv_distance_z_ref2. rewrite !com_shift by assumption.
    cbv zeta. rewrite pdist_shift. destruct pbc.
    - rewrite v3add_swap, pdist_shift. reflexivity.
    - rewrite half_sum_shift, pdist_shift. reflexivity.
  Qed.
  Lemma tr_distance_xy_ref2 main ref ref2 :
    total_mass Rops main <> 0 -> total_mass Rops ref <> 0 -> total_mass Rops ref2 <> 0 ->
    cv_distance_xy_ref2 Rops pbc cell (sh main) (sh ref) (sh ref2) = cv_distance_xy_ref2 Rops pbc cell main ref ref2.
  Proof.
    intros H1 H2 H3. unfold cv_distance_xy_ref2. rewrite !com_shift by assumption.
    cbv zeta. rewrite !pdist_shift. reflexivity.
  Qed.

  Lemma tr_distance_inv n g1 g2 :
    cv_distance_inv Rops pbc cell n (sh g1) (sh g2) = cv_distance_inv Rops pbc cell n g1 g2.
  Proof.
    unfold cv_distance_inv. rewrite !length_shift, !pair_sum_eq. unfold shift_group. rewrite rsum_map.
    cbv zeta. f_equal. f_equal. apply rsum_ext. intros a1 _. rewrite rsum_map. apply rsum_ext. intros a2 _.
    cbn [a_pos shift_atom]. rewrite pdist_shift. reflexivity.
  Qed.

  Lemma tr_dipole_magnitude g : total_mass Rops g <> 0 ->
    cv_dipole_magnitude Rops (sh g) = cv_dipole_magnitude Rops g.
  Proof. intros H. unfold cv_dipole_magnitude. rewrite com_shift by exact H. rewrite dipole_shift. reflexivity. Qed.

  Lemma tr_inertia g : g <> [] -> cv_inertia Rops (sh g) = cv_inertia Rops g.
  Proof. intros H. unfold cv_inertia. rewrite centered_shift by exact H. reflexivity. Qed.
  Lemma tr_gyration g : g <> [] -> cv_gyration Rops (sh g) = cv_gyration Rops g.
  Proof. intros H. unfold cv_gyration. rewrite tr_inertia by exact H. rewrite length_shift. reflexivity. Qed.
  Lemma tr_inertia_z axis g : g <> [] -> cv_inertia_z Rops axis (sh g) = cv_inertia_z Rops axis g.
  Proof. intros H. unfold cv_inertia_z. rewrite centered_shift by exact H. reflexivity. Qed.

  Lemma tr_angle g1 g2 g3 : total_mass Rops g1 <> 0 -> total_mass Rops g2 <> 0 -> total_mass Rops g3 <> 0 ->
    cv_angle Rops PI pbc cell (sh g1) (sh g2) (sh g3) = cv_angle Rops PI pbc cell g1 g2 g3.
  Proof. intros H1 H2 H3. unfold cv_angle. rewrite !com_shift by assumption. cbv zeta. rewrite !pdist_shift. reflexivity. Qed.
  Lemma tr_dipole_angle g1 g2 g3 : total_mass Rops g1 <> 0 -> total_mass Rops g2 <> 0 -> total_mass Rops g3 <> 0 ->
    cv_dipole_angle Rops PI pbc cell (sh g1) (sh g2) (sh g3) = cv_dipole_angle Rops PI pbc cell g1 g2 g3.
  Proof.
    intros H1 H2 H3. unfold cv_dipole_angle. rewrite !com_shift by assumption.
    rewrite dipole_shift, pdist_shift. reflexivity.
  Qed.
  Lemma tr_dihedral g1 g2 g3 g4 :
    total_mass Rops g1 <> 0 -> total_mass Rops g2 <> 0 -> total_mass Rops g3 <> 0 -> total_mass Rops g4 <> 0 ->
    cv_dihedral Rops PI pbc cell (sh g1) (sh g2) (sh g3) (sh g4) = cv_dihedral Rops PI pbc cell g1 g2 g3 g4.
  Proof.
    intros H1 H2 H3 H4. unfold cv_dihedral. rewrite !com_shift by assumption. cbv zeta. rewrite !pdist_shift. reflexivity.
  Qed.

  Lemma switching_shift r0 r0v en ed tol (p1 p2 : V3) :
    switching Rops r0 r0v en ed tol cell (v3add Rops p1 t) (v3add Rops p2 t) = switching Rops r0 r0v en ed tol cell p1 p2.
  Proof. unfold switching. rewrite pd_shift. reflexivity. Qed.
  Lemma tr_coordnum r0 r0v en ed tol g1 g2 :
    cv_coordnum Rops r0 r0v en ed tol cell (sh g1) (sh g2) = cv_coordnum Rops r0 r0v en ed tol cell g1 g2.
  Proof.
    unfold cv_coordnum. rewrite !pair_sum_eq. unfold shift_group. rewrite rsum_map.
    apply rsum_ext. intros a1 _. rewrite rsum_map. apply rsum_ext. intros a2 _.
    cbn [a_pos shift_atom]. apply switching_shift.
  Qed.
  Lemma tr_coordnum_center r0 r0v en ed tol g1 g2 : total_mass Rops g2 <> 0 ->
    cv_coordnum_center Rops r0 r0v en ed tol cell (sh g1) (sh g2) = cv_coordnum_center Rops r0 r0v en ed tol cell g1 g2.
  Proof.
    intros H. unfold cv_coordnum_center. rewrite com_shift by exact H. cbv zeta. rewrite !lsum_eq.
    unfold shift_group. rewrite rsum_map. apply rsum_ext. intros a1 _. cbn [a_pos shift_atom]. apply switching_shift.
  Qed.
  Lemma tr_selfcoordnum r0 en ed tol g :
    cv_selfcoordnum Rops r0 en ed tol cell (sh g) = cv_selfcoordnum Rops r0 en ed tol cell g.
  Proof.
    unfold cv_selfcoordnum. rewrite !self_sum_from_eq. f_equal. unfold shift_group. rewrite self_rsum_map.
    apply self_rsum_ext. intros a b. cbn [a_pos shift_atom]. apply switching_shift.
  Qed.
  Lemma tr_groupcoord r0 r0v en ed g1 g2 : total_mass Rops g1 <> 0 -> total_mass Rops g2 <> 0 ->
    cv_groupcoord Rops r0 r0v en ed cell (sh g1) (sh g2) = cv_groupcoord Rops r0 r0v en ed cell g1 g2.
  Proof. intros H1 H2. unfold cv_groupcoord. rewrite !com_shift by assumption. apply switching_shift. Qed.
  Lemma tr_hbond r0 en ed a d :
    cv_hbond Rops r0 en ed cell (shift_atom t a) (shift_atom t d) = cv_hbond Rops r0 en ed cell a d.
  Proof. unfold cv_hbond. cbn [a_pos shift_atom]. apply switching_shift. Qed.
End Translation.

(* ------------------------------------------------------------------ components: proper rotations (no cell) *)
Section Rotation.
  Variables (pbc : bool) (M : M3).
  Hypothesis HM : proper_rotation M.
  Local Notation ro := (rot_group M).
  Let Horth : orthogonal M := proj1 HM.
  Let Hdet : det3 M = 1 := proj2 HM.

  (* distanceVec and distanceDir rotate with the system *)
  Lemma rot_distance_vec g1 g2 :
    cv_distance_vec Rops pbc None (ro g1) (ro g2) = mat_vec Rops M (cv_distance_vec Rops pbc None g1 g2).
  Proof. unfold cv_distance_vec. rewrite !com_rot. apply pdist_rot. Qed.
  Lemma rot_distance g1 g2 : cv_distance Rops pbc None (ro g1) (ro g2) = cv_distance Rops pbc None g1 g2.
  Proof. unfold cv_distance. rewrite rot_distance_vec. apply norm_rot. exact Horth. Qed.
  Lemma rot_distance_dir g1 g2 : v3norm2 Rops (cv_distance_vec Rops pbc None g1 g2) <> 0 ->
    cv_distance_dir Rops pbc None (ro g1) (ro g2) = mat_vec Rops M (cv_distance_dir Rops pbc None g1 g2).
  Proof. intros H. unfold cv_distance_dir. rewrite rot_distance_vec. apply v3unit_rot; assumption. Qed.

  Lemma rot_distance_z_ref2 main ref ref2 : v3norm2 Rops (pdist Rops pbc None (com Rops ref) (com Rops ref2)) <> 0 ->
    cv_distance_z_ref2 Rops pbc None (ro main) (ro ref) (ro ref2) = cv_distance_z_ref2 Rops pbc None main ref ref2.
  Proof.
    intros H. unfold cv_distance_z_ref2. rewrite !com_rot. cbv zeta.
    rewrite pdist_rot, v3unit_rot by assumption.
    assert (E : (if pbc then v3add Rops (mat_vec Rops M (com Rops ref))
                               (v3scale Rops (nhalf Rops) (mat_vec Rops M (pdist Rops pbc None (com Rops ref) (com Rops ref2))))
                 else v3scale Rops (nhalf Rops) (v3add Rops (mat_vec Rops M (com Rops ref)) (mat_vec Rops M (com Rops ref2)))) =
                mat_vec Rops M (if pbc then v3add Rops (com Rops ref) (v3scale Rops (nhalf Rops) (pdist Rops pbc None (com Rops ref) (com Rops ref2)))
                                else v3scale Rops (nhalf Rops) (v3add Rops (com Rops ref) (com Rops ref2)))).
    { destruct pbc.
      - rewrite <- mat_vec_scale, mat_vec_add. reflexivity.
      - rewrite mat_vec_add, <- mat_vec_scale. reflexivity. }
    rewrite E, pdist_rot. apply dot_rot. exact Horth.
  Qed.
  Lemma ortho_norm_rot (ax d : V3) : ortho_norm Rops (mat_vec Rops M ax) (mat_vec Rops M d) = ortho_norm Rops ax d.
  Proof.
    unfold ortho_norm. rewrite dot_rot by exact Horth. rewrite <- mat_vec_scale, mat_vec_sub. apply norm_rot. exact Horth.
  Qed.
  Lemma rot_distance_xy_ref2 main ref ref2 : v3norm2 Rops (pdist Rops pbc None (com Rops ref) (com Rops ref2)) <> 0 ->
    cv_distance_xy_ref2 Rops pbc None (ro main) (ro ref) (ro ref2) = cv_distance_xy_ref2 Rops pbc None main ref ref2.
  Proof.
    intros H. unfold cv_distance_xy_ref2. rewrite !com_rot. cbv zeta.
    rewrite !pdist_rot, v3unit_rot by assumption. apply ortho_norm_rot.
  Qed.

  Lemma rot_distance_inv n g1 g2 : cv_distance_inv Rops pbc None n (ro g1) (ro g2) = cv_distance_inv Rops pbc None n g1 g2.
  Proof.
    unfold cv_distance_inv. rewrite !length_rot, !pair_sum_eq. unfold rot_group. rewrite rsum_map.
    cbv zeta. f_equal. f_equal. apply rsum_ext. intros a1 _. rewrite rsum_map. apply rsum_ext. intros a2 _.
    cbn [a_pos rot_atom]. rewrite pdist_rot, norm2_rot by exact Horth. reflexivity.
  Qed.

  Lemma rot_dipole_magnitude g : cv_dipole_magnitude Rops (ro g) = cv_dipole_magnitude Rops g.
  Proof. unfold cv_dipole_magnitude. rewrite com_rot, dipole_rot. apply norm_rot. exact Horth. Qed.

  Lemma rot_inertia g : cv_inertia Rops (ro g) = cv_inertia Rops g.
  Proof.
    unfold cv_inertia. rewrite centered_rot, !lsum_eq, rsum_map. apply rsum_ext. intros p _. apply norm2_rot. exact Horth.
  Qed.
  Lemma rot_gyration g : cv_gyration Rops (ro g) = cv_gyration Rops g.
  Proof. unfold cv_gyration. rewrite rot_inertia, length_rot. reflexivity. Qed.

  Lemma angle_of_rot (u v : V3) : angle_of Rops PI (mat_vec Rops M u) (mat_vec Rops M v) = angle_of Rops PI u v.
  Proof. unfold angle_of. rewrite dot_rot, !norm_rot by exact Horth. reflexivity. Qed.
  Lemma rot_angle g1 g2 g3 : cv_angle Rops PI pbc None (ro g1) (ro g2) (ro g3) = cv_angle Rops PI pbc None g1 g2 g3.
  Proof. unfold cv_angle. rewrite !com_rot. cbv zeta. rewrite !pdist_rot. apply angle_of_rot. Qed.
  Lemma rot_dipole_angle g1 g2 g3 :
    cv_dipole_angle Rops PI pbc None (ro g1) (ro g2) (ro g3) = cv_dipole_angle Rops PI pbc None g1 g2 g3.
  Proof. unfold cv_dipole_angle. rewrite !com_rot, dipole_rot, pdist_rot. apply angle_of_rot. Qed.

  Lemma dihedral_of_rot (a b c : V3) :
    dihedral_of Rops PI (mat_vec Rops M a) (mat_vec Rops M b) (mat_vec Rops M c) = dihedral_of Rops PI a b c.
  Proof.
    unfold dihedral_of. cbv zeta. rewrite !dot_cross_cross, triple_rot, Hdet, norm_rot, !dot_rot by exact Horth.
    rewrite Rmult_1_l. reflexivity.
  Qed.
  Lemma rot_dihedral g1 g2 g3 g4 :
    cv_dihedral Rops PI pbc None (ro g1) (ro g2) (ro g3) (ro g4) = cv_dihedral Rops PI pbc None g1 g2 g3 g4.
  Proof. unfold cv_dihedral. rewrite !com_rot. cbv zeta. rewrite !pdist_rot. apply dihedral_of_rot. Qed.

  (* isotropic cut-off only: cutoff3 scales the axes differently and is not rotation invariant *)
  Lemma switching_rot r0 en ed tol (p1 p2 : V3) :
    switching Rops r0 None en ed tol None (mat_vec Rops M p1) (mat_vec Rops M p2) = switching Rops r0 None en ed tol None p1 p2.
  Proof.
    unfold switching. rewrite pd_rot.
    set (d := position_distance Rops None p1 p2).
    assert (H : forall v : V3, (let '(dx, dy, dz) := v in v3norm2 Rops (ndiv Rops dx r0, ndiv Rops dy r0, ndiv Rops dz r0)) =
                               v3norm2 Rops (v3div Rops v r0)).
    { intros [[x y] z]. reflexivity. }
    assert (E : v3norm2 Rops (v3div Rops (mat_vec Rops M d) r0) = v3norm2 Rops (v3div Rops d r0)).
    { rewrite !v3div_scale, <- mat_vec_scale. apply norm2_rot. exact Horth. }
    destruct (mat_vec Rops M d) as [[x y] z] eqn:Emd. destruct d as [[x' y'] z'] eqn:Ed.
    unfold v3div in E. rewrite E. reflexivity.
  Qed.
  Lemma rot_coordnum r0 en ed tol g1 g2 :
    cv_coordnum Rops r0 None en ed tol None (ro g1) (ro g2) = cv_coordnum Rops r0 None en ed tol None g1 g2.
  Proof.
    unfold cv_coordnum. rewrite !pair_sum_eq. unfold rot_group. rewrite rsum_map.
    apply rsum_ext. intros a1 _. rewrite rsum_map. apply rsum_ext. intros a2 _.
    cbn [a_pos rot_atom]. apply switching_rot.
  Qed.
  Lemma rot_coordnum_center r0 en ed tol g1 g2 :
    cv_coordnum_center Rops r0 None en ed tol None (ro g1) (ro g2) = cv_coordnum_center Rops r0 None en ed tol None g1 g2.
  Proof.
    unfold cv_coordnum_center. rewrite com_rot. cbv zeta. rewrite !lsum_eq.
    unfold rot_group. rewrite rsum_map. apply rsum_ext. intros a1 _. cbn [a_pos rot_atom]. apply switching_rot.
  Qed.
  Lemma rot_selfcoordnum r0 en ed tol g :
    cv_selfcoordnum Rops r0 en ed tol None (ro g) = cv_selfcoordnum Rops r0 en ed tol None g.
  Proof.
    unfold cv_selfcoordnum. rewrite !self_sum_from_eq. f_equal. unfold rot_group. rewrite self_rsum_map.
    apply self_rsum_ext. intros a b. cbn [a_pos rot_atom]. apply switching_rot.
  Qed.
  Lemma rot_groupcoord r0 en ed g1 g2 :
    cv_groupcoord Rops r0 None en ed None (ro g1) (ro g2) = cv_groupcoord Rops r0 None en ed None g1 g2.
  Proof. unfold cv_groupcoord. rewrite !com_rot. apply switching_rot. Qed.
  Lemma rot_hbond r0 en ed a d :
    cv_hbond Rops r0 en ed None (rot_atom M a) (rot_atom M d) = cv_hbond Rops r0 en ed None a d.
  Proof. unfold cv_hbond. cbn [a_pos rot_atom]. apply switching_rot. Qed.
End Rotation.

(* ------------------------------------------------------------------ permutations of a group's atom list *)
Lemma total_mass_perm g g' : Permutation g g' -> total_mass Rops g = total_mass Rops g'.
Proof. intros H. rewrite !total_mass_R. apply rsum_perm; exact H. Qed.
Lemma total_charge_perm g g' : Permutation g g' -> total_charge Rops g = total_charge Rops g'.
Proof. intros H. rewrite !total_charge_R. apply rsum_perm; exact H. Qed.
Lemma com_perm g g' : Permutation g g' -> com Rops g = com Rops g'.
Proof.
  intros H. rewrite !com_R, (total_mass_perm g g' H).
  rewrite (rsum_perm _ g g' H), (rsum_perm (fun a => a_mass a * py a) g g' H), (rsum_perm (fun a => a_mass a * pz a) g g' H).
  reflexivity.
Qed.
Lemma cog_perm g g' : Permutation g g' -> cog Rops g = cog Rops g'.
Proof.
  intros H. rewrite !cog_R, (Permutation_length H).
  rewrite (rsum_perm px g g' H), (rsum_perm py g g' H), (rsum_perm pz g g' H). reflexivity.
Qed.
Lemma dipole_perm g g' c : Permutation g g' -> dipole Rops g c = dipole Rops g' c.
Proof.
  intros H. unfold dipole. rewrite !vsum_eq.
  apply v3_eq; apply rsum_perm; exact H.
Qed.
Lemma centered_perm g g' : Permutation g g' -> Permutation (centered Rops g) (centered Rops g').
Proof. intros H. unfold centered. rewrite (cog_perm g g' H). apply Permutation_map. exact H. Qed.
Lemma inertia_perm g g' : Permutation g g' -> cv_inertia Rops g = cv_inertia Rops g'.
Proof. intros H. unfold cv_inertia. rewrite !lsum_eq. apply rsum_perm, centered_perm, H. Qed.
Lemma gyration_perm g g' : Permutation g g' -> cv_gyration Rops g = cv_gyration Rops g'.
Proof. intros H. unfold cv_gyration. rewrite (inertia_perm g g' H), (Permutation_length H). reflexivity. Qed.
Lemma inertia_z_perm ax g g' : Permutation g g' -> cv_inertia_z Rops ax g = cv_inertia_z Rops ax g'.
Proof. intros H. unfold cv_inertia_z. cbv zeta. rewrite !lsum_eq. apply rsum_perm, centered_perm, H. Qed.
Lemma pair_rsum_perm {A B} (f : A -> B -> R) l1 l1' l2 l2' : Permutation l1 l1' -> Permutation l2 l2' ->
  rsum (fun a => rsum (f a) l2) l1 = rsum (fun a => rsum (f a) l2') l1'.
Proof.
  intros H1 H2. rewrite (rsum_perm _ l1 l1' H1). apply rsum_ext. intros a _. apply rsum_perm. exact H2.
Qed.
Lemma coordnum_perm r0 r0v en ed tol cell g1 g1' g2 g2' : Permutation g1 g1' -> Permutation g2 g2' ->
  cv_coordnum Rops r0 r0v en ed tol cell g1 g2 = cv_coordnum Rops r0 r0v en ed tol cell g1' g2'.
Proof. intros H1 H2. unfold cv_coordnum. rewrite !pair_sum_eq. apply pair_rsum_perm; assumption. Qed.
Lemma distance_inv_perm pbc cell n g1 g1' g2 g2' : Permutation g1 g1' -> Permutation g2 g2' ->
  cv_distance_inv Rops pbc cell n g1 g2 = cv_distance_inv Rops pbc cell n g1' g2'.
Proof.
  intros H1 H2. unfold cv_distance_inv. cbv zeta. rewrite !pair_sum_eq, (Permutation_length H1), (Permutation_length H2).
  f_equal. f_equal. apply pair_rsum_perm; assumption.
Qed.

(* the switching function is symmetric in its two positions (needed for the i<j sum of selfCoordNum) *)
Definition cell_ok (cell : option V3) : Prop :=
  match cell with None => True | Some (lx, ly, lz) => 0 < lx /\ 0 < ly /\ 0 < lz end.
Lemma min_image1_pdiff L d : min_image1 Rops L d = pdiff Rops L d.
Proof. reflexivity. Qed.
Lemma pd_swap_sq cell (p1 p2 : V3) : cell_ok cell ->
  let '(x, y, z) := position_distance Rops cell p1 p2 in
  let '(x', y', z') := position_distance Rops cell p2 p1 in
  x' * x' = x * x /\ y' * y' = y * y /\ z' * z' = z * z.
Proof.
  intros Hc. unfold position_distance. dv p1; dv p2. unfold v3sub. rs.
  destruct cell as [[[lx ly] lz]|].
  - destruct Hc as (Hx & Hy & Hz). rewrite !min_image1_pdiff.
    replace (p1x - p2x) with (- (p2x - p1x)) by ring. replace (p1y - p2y) with (- (p2y - p1y)) by ring.
    replace (p1z - p2z) with (- (p2z - p1z)) by ring.
    repeat split; apply pdiff_neg_sq; assumption.
  - repeat split; ring.
Qed.
Lemma sq_div (x y a : R) : x * x = y * y -> (x / a) * (x / a) = (y / a) * (y / a).
Proof. intros H. unfold Rdiv. replace (x * / a * (x * / a)) with ((x * x) * (/ a * / a)) by ring. rewrite H. ring. Qed.
Definition sw_l2 (r0 : R) (r0v : option V3) (d : V3) : R :=
  let '(dx, dy, dz) := d in
  v3norm2 Rops (match r0v with
                | Some (a, b, c) => (dx / a, dy / b, dz / c)
                | None => (dx / r0, dy / r0, dz / r0)
                end).
Definition sw_rest (en ed : Z) (tol l2 : R) : R :=
  let xn := ipow Rops l2 (Z.quot en 2) in
  let xd := ipow Rops l2 (Z.quot ed 2) in
  let func := ((1 - xn) / (1 - xd) - tol) / (1 - tol) in
  if Rltb func 0 then 0 else func.
Lemma switching_unfold r0 r0v en ed tol cell (p1 p2 : V3) :
  switching Rops r0 r0v en ed tol cell p1 p2 = sw_rest en ed tol (sw_l2 r0 r0v (position_distance Rops cell p1 p2)).
Proof. unfold switching, sw_l2, sw_rest. destruct (position_distance Rops cell p1 p2) as [[x y] z]. reflexivity. Qed.
Lemma switching_sym r0 r0v en ed tol cell (p1 p2 : V3) : cell_ok cell ->
  switching Rops r0 r0v en ed tol cell p1 p2 = switching Rops r0 r0v en ed tol cell p2 p1.
Proof.
  intros Hc. pose proof (pd_swap_sq cell p1 p2 Hc) as H. rewrite !switching_unfold. f_equal.
  destruct (position_distance Rops cell p1 p2) as [[x y] z]. destruct (position_distance Rops cell p2 p1) as [[x' y'] z'].
  destruct H as (Hx & Hy & Hz). unfold sw_l2.
  destruct r0v as [[[a b] c]|]; unfold v3norm2, v3dot; rs.
  - rewrite (sq_div x' x a Hx), (sq_div y' y b Hy), (sq_div z' z c Hz). reflexivity.
  - rewrite (sq_div x' x r0 Hx), (sq_div y' y r0 Hy), (sq_div z' z r0 Hz). reflexivity.
Qed.
Lemma selfcoordnum_perm r0 en ed tol cell g g' : cell_ok cell -> Permutation g g' ->
  cv_selfcoordnum Rops r0 en ed tol cell g = cv_selfcoordnum Rops r0 en ed tol cell g'.
Proof.
  intros Hc H. unfold cv_selfcoordnum. rewrite !self_sum_from_eq. f_equal.
  apply self_rsum_perm; [|exact H]. intros a b. apply switching_sym. exact Hc.
Qed.

(* ------------------------------------------------------------------ duplicate listing (any carrier) *)
Section Dedup.
  Context {T : Type}.
  Notation atomT := (@atom T).
  Lemma has_id_spec (g : list atomT) i : has_id g i = true <-> In i (map a_id g).
  Proof.
    unfold has_id. rewrite existsb_exists. split.
    - intros [b [Hb He]]. apply Z.eqb_eq in He. subst i. apply in_map. exact Hb.
    - intros H. apply in_map_iff in H. destruct H as [b [He Hb]]. exists b. split; [exact Hb|]. apply Z.eqb_eq. exact He.
  Qed.
  Lemma add_atom_listed (g : list atomT) a : In (a_id a) (map a_id g) -> add_atom g a = g.
  Proof.
    intros H. unfold add_atom. destruct (Z.ltb (a_id a) 0); [reflexivity|].
    apply has_id_spec in H. rewrite H. reflexivity.
  Qed.
  Lemma add_atom_ids_incl (g : list atomT) a i : In i (map a_id g) -> In i (map a_id (add_atom g a)).
  Proof.
    intros H. unfold add_atom. destruct (Z.ltb (a_id a) 0); [exact H|]. destruct (has_id g (a_id a)); [exact H|].
    rewrite map_app. apply in_or_app. left. exact H.
  Qed.
  Lemma add_atom_ids_new (g : list atomT) a : (0 <= a_id a)%Z -> In (a_id a) (map a_id (add_atom g a)).
  Proof.
    intros H. unfold add_atom. assert (Z.ltb (a_id a) 0 = false) as -> by (apply Z.ltb_ge; exact H).
    destruct (has_id g (a_id a)) eqn:E.
    - apply has_id_spec. exact E.
    - rewrite map_app. apply in_or_app. right. left. reflexivity.
  Qed.
  Lemma fold_add_ids_acc (l : list atomT) acc i : In i (map a_id acc) -> In i (map a_id (fold_left add_atom l acc)).
  Proof.
    revert acc. induction l as [|a l IH]; intros acc H; cbn [fold_left]; [exact H|]. apply IH, add_atom_ids_incl, H.
  Qed.
  Lemma fold_add_ids_list (l : list atomT) acc i : In i (map a_id l) -> (0 <= i)%Z -> In i (map a_id (fold_left add_atom l acc)).
  Proof.
    revert acc. induction l as [|a l IH]; intros acc H Hi; cbn [fold_left map] in *; [contradiction|].
    destruct H as [H|H].
    - subst i. apply fold_add_ids_acc, add_atom_ids_new, Hi.
    - apply IH; assumption.
  Qed.
  Lemma add_atom_ids_sub (g : list atomT) a i : In i (map a_id (add_atom g a)) -> In i (map a_id g) \/ (i = a_id a /\ (0 <= i)%Z).
  Proof.
    unfold add_atom. destruct (Z.ltb (a_id a) 0) eqn:E; [left; assumption|]. apply Z.ltb_ge in E.
    destruct (has_id g (a_id a)); [left; assumption|]. rewrite map_app. intros H. apply in_app_or in H.
    destruct H as [H|[H|[]]]; [left; exact H | right; split; [symmetry; exact H | rewrite <- H; exact E]].
  Qed.
  Lemma fold_add_ids_sub (l : list atomT) acc i : In i (map a_id (fold_left add_atom l acc)) ->
    In i (map a_id acc) \/ (In i (map a_id l) /\ (0 <= i)%Z).
  Proof.
    revert acc. induction l as [|a l IH]; intros acc H; cbn [fold_left map] in *; [left; exact H|].
    apply IH in H. destruct H as [H|[H Hp]]; [|right; split; [right; exact H | exact Hp]].
    apply add_atom_ids_sub in H. destruct H as [H|[-> Hp]]; [left; exact H | right; split; [left; reflexivity | exact Hp]].
  Qed.
  (* the group holds exactly the selected atoms with a valid id *)
  Lemma mk_group_ids (l : list atomT) i : In i (map a_id (mk_group l)) <-> In i (map a_id l) /\ (0 <= i)%Z.
  Proof.
    unfold mk_group. split.
    - intros H. apply fold_add_ids_sub in H. destruct H as [[]|H]. exact H.
    - intros [H Hp]. apply fold_add_ids_list; assumption.
  Qed.
  Lemma add_atom_negative (g : list atomT) a : (a_id a < 0)%Z -> add_atom g a = g.
  Proof. intros H. unfold add_atom. apply Z.ltb_lt in H. rewrite H. reflexivity. Qed.

  (* listing an atom a second time, anywhere after its first occurrence, changes nothing *)
  Lemma mk_group_duplicate (l1 l2 : list atomT) a : In (a_id a) (map a_id l1) -> mk_group (l1 ++ a :: l2) = mk_group (l1 ++ l2).
  Proof.
    intros H. unfold mk_group. rewrite !fold_left_app. cbn [fold_left]. f_equal.
    destruct (Z_lt_le_dec (a_id a) 0) as [Hn|Hp].
    - apply add_atom_negative, Hn.
    - apply add_atom_listed, fold_add_ids_list; assumption.
  Qed.
  Lemma add_atom_nodup (g : list atomT) a : NoDup (map a_id g) -> NoDup (map a_id (add_atom g a)).
  Proof.
    intros H. unfold add_atom. destruct (Z.ltb (a_id a) 0); [exact H|]. destruct (has_id g (a_id a)) eqn:E; [exact H|].
    rewrite map_app. cbn [map]. apply (Permutation_NoDup (Permutation_cons_append _ _)).
    constructor; [|exact H]. intros Hin. apply has_id_spec in Hin. congruence.
  Qed.
  Lemma mk_group_nodup (l : list atomT) : NoDup (map a_id (mk_group l)).
  Proof.
    unfold mk_group. assert (H : forall acc, NoDup (map a_id acc) -> NoDup (map a_id (fold_left add_atom l acc))).
    { induction l as [|a l IH]; intros acc Hacc; cbn [fold_left]; [exact Hacc|]. apply IH, add_atom_nodup, Hacc. }
    apply H. constructor.
  Qed.
  (* a listing without repetitions (and with valid ids) is taken as it is *)
  Lemma mk_group_id (l : list atomT) : NoDup (map a_id l) -> (forall a, In a l -> (0 <= a_id a)%Z) -> mk_group l = l.
  Proof.
    unfold mk_group. intros Hnd Hpos.
    assert (H : forall acc, NoDup (map a_id (acc ++ l)) -> fold_left add_atom l acc = acc ++ l).
    { revert Hpos. clear Hnd. induction l as [|a l IH]; intros Hpos acc Hacc; cbn [fold_left].
      - rewrite app_nil_r. reflexivity.
      - assert (Ha : add_atom acc a = acc ++ [a]).
        { unfold add_atom. assert (Z.ltb (a_id a) 0 = false) as -> by (apply Z.ltb_ge, Hpos; left; reflexivity).
          destruct (has_id acc (a_id a)) eqn:E; [|reflexivity]. exfalso.
          apply has_id_spec in E. rewrite map_app in Hacc. cbn [map] in Hacc.
          apply NoDup_remove_2 in Hacc. apply Hacc. apply in_or_app. left. exact E. }
        rewrite Ha, IH.
        + rewrite <- app_assoc. reflexivity.
        + intros b Hb. apply Hpos. right. exact Hb.
        + rewrite <- app_assoc. exact Hacc. }
    apply (H []). exact Hnd.
  Qed.
End Dedup.

(* ------------------------------------------------------------------ minimum image *)
Lemma min_image1_period L d (n : Z) : 0 < L -> min_image1 Rops L (d + IZR n * L) = min_image1 Rops L d.
Proof. intros HL. rewrite !min_image1_pdiff. apply pdiff_period. exact HL. Qed.
Lemma min_image1_range L d : 0 < L -> - L / 2 <= min_image1 Rops L d < L / 2.
Proof. intros HL. rewrite min_image1_pdiff. apply pdiff_range. exact HL. Qed.
Lemma min_image1_abs L d : 0 < L -> Rabs (min_image1 Rops L d) <= L / 2.
Proof. intros HL. pose proof (min_image1_range L d HL) as [H1 H2]. apply Rabs_le. lra. Qed.
Lemma min_image1_shortest L d (n : Z) : 0 < L -> (min_image1 Rops L d) ^ 2 <= (d - IZR n * L) ^ 2.
Proof. intros HL. rewrite min_image1_pdiff. apply pdiff_min. exact HL. Qed.
Lemma min_image1_congruent L d : exists n : Z, min_image1 Rops L d = d - IZR n * L.
Proof. eexists. reflexivity. Qed.

Definition lattice (cell : V3) (n1 n2 n3 : Z) : V3 :=
  let '(lx, ly, lz) := cell in (IZR n1 * lx, IZR n2 * ly, IZR n3 * lz).
Lemma pd_lattice lx ly lz (p1 p2 : V3) n1 n2 n3 m1 m2 m3 : 0 < lx -> 0 < ly -> 0 < lz ->
  position_distance Rops (Some (lx, ly, lz)) (v3add Rops p1 (lattice (lx, ly, lz) n1 n2 n3))
                    (v3add Rops p2 (lattice (lx, ly, lz) m1 m2 m3)) =
  position_distance Rops (Some (lx, ly, lz)) p1 p2.
Proof.
  intros Hx Hy Hz. dv p1; dv p2. unfold position_distance, lattice, v3add, v3sub. rs.
  apply v3_eq.
  - replace (p2x + IZR m1 * lx - (p1x + IZR n1 * lx)) with (p2x - p1x + IZR (m1 - n1) * lx) by (rewrite minus_IZR; ring).
    apply min_image1_period; exact Hx.
  - replace (p2y + IZR m2 * ly - (p1y + IZR n2 * ly)) with (p2y - p1y + IZR (m2 - n2) * ly) by (rewrite minus_IZR; ring).
    apply min_image1_period; exact Hy.
  - replace (p2z + IZR m3 * lz - (p1z + IZR n3 * lz)) with (p2z - p1z + IZR (m3 - n3) * lz) by (rewrite minus_IZR; ring).
    apply min_image1_period; exact Hz.
Qed.
Lemma pd_range lx ly lz (p1 p2 : V3) : 0 < lx -> 0 < ly -> 0 < lz ->
  let '(x, y, z) := position_distance Rops (Some (lx, ly, lz)) p1 p2 in
  Rabs x <= lx / 2 /\ Rabs y <= ly / 2 /\ Rabs z <= lz / 2.
Proof.
  intros Hx Hy Hz. dv p1; dv p2. unfold position_distance, v3sub. rs.
  repeat split; apply min_image1_abs; assumption.
Qed.

(* whole groups translated by (different) lattice vectors: COM-based minimum-image components *)
Section Lattice.
  Variables (lx ly lz : R).
  Hypotheses (Hx : 0 < lx) (Hy : 0 < ly) (Hz : 0 < lz).
  Local Notation cell := (Some (lx, ly, lz)).
  Local Notation lat := (lattice (lx, ly, lz)).
  Definition lshift (n : Z * Z * Z) (g : list atomR) : list atomR :=
    let '(n1, n2, n3) := n in shift_group (lat n1 n2 n3) g.
  Lemma com_lshift n g : total_mass Rops g <> 0 ->
    com Rops (lshift n g) = v3add Rops (com Rops g) (let '(n1, n2, n3) := n in lat n1 n2 n3).
  Proof. destruct n as [[n1 n2] n3]. intros H. unfold lshift. apply com_shift. exact H. Qed.
  Lemma pdist_lattice (p1 p2 : V3) n m :
    pdist Rops true cell (v3add Rops p1 (let '(n1, n2, n3) := n in lat n1 n2 n3))
                         (v3add Rops p2 (let '(m1, m2, m3) := m in lat m1 m2 m3)) = pdist Rops true cell p1 p2.
  Proof. destruct n as [[n1 n2] n3]. destruct m as [[m1 m2] m3]. unfold pdist. apply pd_lattice; assumption. Qed.

  Lemma lat_distance_vec n m g1 g2 : total_mass Rops g1 <> 0 -> total_mass Rops g2 <> 0 ->
    cv_distance_vec Rops true cell (lshift n g1) (lshift m g2) = cv_distance_vec Rops true cell g1 g2.
  Proof. intros H1 H2. unfold cv_distance_vec. rewrite !com_lshift by assumption. apply pdist_lattice. Qed.
  Lemma lat_distance n m g1 g2 : total_mass Rops g1 <> 0 -> total_mass Rops g2 <> 0 ->
    cv_distance Rops true cell (lshift n g1) (lshift m g2) = cv_distance Rops true cell g1 g2.
  Proof. intros H1 H2. unfold cv_distance. rewrite lat_distance_vec by assumption. reflexivity. Qed.
  Lemma lat_distance_dir n m g1 g2 : total_mass Rops g1 <> 0 -> total_mass Rops g2 <> 0 ->
    cv_distance_dir Rops true cell (lshift n g1) (lshift m g2) = cv_distance_dir Rops true cell g1 g2.
  Proof. intros H1 H2. unfold cv_distance_dir. rewrite lat_distance_vec by assumption. reflexivity. Qed.
  Lemma lat_distance_z_fixed axis n m main ref : total_mass Rops main <> 0 -> total_mass Rops ref <> 0 ->
    cv_distance_z_fixed Rops true cell axis (lshift n main) (lshift m ref) = cv_distance_z_fixed Rops true cell axis main ref /\
    cv_distance_xy_fixed Rops true cell axis (lshift n main) (lshift m ref) = cv_distance_xy_fixed Rops true cell axis main ref.
  Proof.
    intros H1 H2. unfold cv_distance_z_fixed, cv_distance_xy_fixed. rewrite !com_lshift by assumption.
    rewrite !pdist_lattice. split; reflexivity.
  Qed.
  Lemma v3add_lat_swap (a b : V3) n : v3add Rops (v3add Rops a (let '(n1, n2, n3) := n in lat n1 n2 n3)) b =
                                       v3add Rops (v3add Rops a b) (let '(n1, n2, n3) := n in lat n1 n2 n3).
  Proof. destruct n as [[n1 n2] n3]. dv a; dv b. unfold v3add, lattice. v3ring. Qed.
  Lemma lat_distance_z_ref2 n m k main ref ref2 :
    total_mass Rops main <> 0 -> total_mass Rops ref <> 0 -> total_mass Rops ref2 <> 0 ->
    cv_distance_z_ref2 Rops true cell (lshift n main) (lshift m ref) (lshift k ref2) = cv_distance_z_ref2 Rops true cell main ref ref2 /\
    cv_distance_xy_ref2 Rops true cell (lshift n main) (lshift m ref) (lshift k ref2) = cv_distance_xy_ref2 Rops true cell main ref ref2.
  Proof.
    intros H1 H2 H3. unfold cv_distance_z_ref2, cv_distance_xy_ref2. rewrite !com_lshift by assumption.
    cbv zeta. rewrite !pdist_lattice, v3add_lat_swap, pdist_lattice. split; reflexivity.
  Qed.
  Lemma lat_angle n1 n2 n3 g1 g2 g3 : total_mass Rops g1 <> 0 -> total_mass Rops g2 <> 0 -> total_mass Rops g3 <> 0 ->
    cv_angle Rops PI true cell (lshift n1 g1) (lshift n2 g2) (lshift n3 g3) = cv_angle Rops PI true cell g1 g2 g3.
  Proof. intros H1 H2 H3. unfold cv_angle. rewrite !com_lshift by assumption. cbv zeta. rewrite !pdist_lattice. reflexivity. Qed.
  Lemma lat_dihedral n1 n2 n3 n4 g1 g2 g3 g4 :
    total_mass Rops g1 <> 0 -> total_mass Rops g2 <> 0 -> total_mass Rops g3 <> 0 -> total_mass Rops g4 <> 0 ->
    cv_dihedral Rops PI true cell (lshift n1 g1) (lshift n2 g2) (lshift n3 g3) (lshift n4 g4) =
    cv_dihedral Rops PI true cell g1 g2 g3 g4.
  Proof.
    intros H1 H2 H3 H4. unfold cv_dihedral. rewrite !com_lshift by assumption. cbv zeta. rewrite !pdist_lattice. reflexivity.
  Qed.
  Lemma switching_lattice r0 r0v en ed tol (p1 p2 : V3) n1 n2 n3 m1 m2 m3 :
    switching Rops r0 r0v en ed tol cell (v3add Rops p1 (lat n1 n2 n3)) (v3add Rops p2 (lat m1 m2 m3)) =
    switching Rops r0 r0v en ed tol cell p1 p2.
  Proof. rewrite !switching_unfold, pd_lattice by assumption. reflexivity. Qed.
  Lemma lat_coordnum r0 r0v en ed tol n m g1 g2 :
    cv_coordnum Rops r0 r0v en ed tol cell (lshift n g1) (lshift m g2) = cv_coordnum Rops r0 r0v en ed tol cell g1 g2.
  Proof.
    destruct n as [[n1 n2] n3]. destruct m as [[m1 m2] m3].
    unfold cv_coordnum, lshift. rewrite !pair_sum_eq. unfold shift_group. rewrite rsum_map.
    apply rsum_ext. intros a1 _. rewrite rsum_map. apply rsum_ext. intros a2 _.
    cbn [a_pos shift_atom]. apply switching_lattice.
  Qed.
  Lemma lat_distance_inv k n m g1 g2 :
    cv_distance_inv Rops true cell k (lshift n g1) (lshift m g2) = cv_distance_inv Rops true cell k g1 g2.
  Proof.
    destruct n as [[n1 n2] n3]. destruct m as [[m1 m2] m3].
    unfold cv_distance_inv, lshift. rewrite !length_shift, !pair_sum_eq. unfold shift_group. rewrite rsum_map.
    cbv zeta. f_equal. f_equal. apply rsum_ext. intros a1 _. rewrite rsum_map. apply rsum_ext. intros a2 _.
    cbn [a_pos shift_atom]. unfold pdist. rewrite pd_lattice by assumption. reflexivity.
  Qed.
End Lattice.

(* ------------------------------------------------------------------ quaternions and the optimal rotation *)
Lemma rotation_matrix_neg (q : Q4) : rotation_matrix Rops (qneg Rops q) = rotation_matrix Rops q.
Proof.
  destruct q as [[[q0 q1] q2] q3]. unfold rotation_matrix, qneg. rs.
  f_equal; [f_equal|]; apply v3_eq; ring.
Qed.
Lemma rotate_neg (q : Q4) (v : V3) : rotate Rops (qneg Rops q) v = rotate Rops q v.
Proof. unfold rotate. rewrite rotation_matrix_neg. reflexivity. Qed.

Definition qnorm2 (q : Q4) : R := qdot Rops q q.
(* for a unit quaternion the matrix is orthogonal with determinant one *)
Lemma rotation_matrix_proper (q : Q4) : qnorm2 q = 1 -> proper_rotation (rotation_matrix Rops q).
Proof.
  destruct q as [[[q0 q1] q2] q3]. unfold qnorm2, qdot. rs. intros H.
  assert (H2 : (q0 * q0 + q1 * q1 + q2 * q2 + q3 * q3) * (q0 * q0 + q1 * q1 + q2 * q2 + q3 * q3) = 1) by (rewrite H; ring).
  split.
  - unfold orthogonal, rotation_matrix, mmul, mtrans, midentity, v3dot. rs.
    f_equal; [f_equal|]; apply v3_eq; try (rewrite <- H2; ring);
      try (replace 0 with (0 * (q0 * q0 + q1 * q1 + q2 * q2 + q3 * q3)) by ring; ring).
  - unfold det3, rotation_matrix. rs.
    replace 1 with ((q0 * q0 + q1 * q1 + q2 * q2 + q3 * q3) * ((q0 * q0 + q1 * q1 + q2 * q2 + q3 * q3) * (q0 * q0 + q1 * q1 + q2 * q2 + q3 * q3)))
      by (rewrite H; ring).
    ring.
Qed.

Definition qf_pair (p : V3 * V3) (q : Q4) : R :=
  quad_form Rops (overlap_matrix Rops (corr_add Rops (vzero Rops, vzero Rops, vzero Rops) p)) q.
Lemma quad_form_corr_add (C : M3) (p : V3 * V3) (q : Q4) :
  quad_form Rops (overlap_matrix Rops (corr_add Rops C p)) q = quad_form Rops (overlap_matrix Rops C) q + qf_pair p q.
Proof.
  dm C. destruct p as [[[x1 y1] z1] [[x2 y2] z2]]. destruct q as [[[q0 q1] q2] q3].
  unfold qf_pair, quad_form, mat4_vec, overlap_matrix, corr_add, vzero, qdot. rs. ring.
Qed.
Lemma quad_form_corr_matrix (l : list (V3 * V3)) (q : Q4) :
  quad_form Rops (overlap_matrix Rops (corr_matrix Rops l)) q = rsum (fun p => qf_pair p q) l.
Proof.
  unfold corr_matrix.
  assert (H : forall C, quad_form Rops (overlap_matrix Rops (fold_left (corr_add Rops) l C)) q =
                        quad_form Rops (overlap_matrix Rops C) q + rsum (fun p => qf_pair p q) l).
  { induction l as [|p l IH]; intros C; cbn [fold_left rsum]; [lra|]. rewrite IH, quad_form_corr_add. lra. }
  rewrite H. destruct q as [[[q0 q1] q2] q3]. unfold quad_form, mat4_vec, overlap_matrix, vzero, qdot. rs. ring.
Qed.
Lemma sq_dev_pair (x y : V3) (q : Q4) :
  v3norm2 Rops (v3sub Rops (rotate Rops q x) y) =
  qnorm2 q * qnorm2 q * v3norm2 Rops x + v3norm2 Rops y - 2 * qf_pair (x, y) q.
Proof.
  dv x; dv y. destruct q as [[[q0 q1] q2] q3].
  unfold qnorm2, qf_pair, quad_form, mat4_vec, overlap_matrix, corr_add, vzero, qdot, rotate, rotation_matrix,
    mat_vec, v3norm2, v3sub, v3dot. rs. ring.
Qed.
(* Coutsias-Seok-Dill: the sum of squared deviations as a quadratic form of the quaternion *)
Lemma sq_dev_quadratic (q : Q4) (l : list (V3 * V3)) :
  sq_dev Rops q l = qnorm2 q * qnorm2 q * fst (sq_norms Rops l) + snd (sq_norms Rops l)
                    - 2 * quad_form Rops (overlap_matrix Rops (corr_matrix Rops l)) q.
Proof.
  unfold sq_dev, sq_norms. cbn [fst snd]. rewrite !lsum_eq, quad_form_corr_matrix.
  induction l as [|[x y] l IH]; cbn [rsum fst snd]; [lra|]. rewrite IH, sq_dev_pair. lra.
Qed.

(* part (ii): given an orthonormal eigen-decomposition of S (what the Jacobi routine is assumed to return;
   checked numerically by the tie on every case), the eigenvector of the largest eigenvalue minimises the deviation *)
Definition qscale (s : R) (q : Q4) : Q4 := let '(a, b, c, d) := q in (s * a, s * b, s * c, s * d).
Definition outer4 (v : Q4) : (@mat4 R) :=
  let '(a, b, c, d) := v in (qscale a v, qscale b v, qscale c v, qscale d v).
Definition qadd (p q : Q4) : Q4 :=
  let '(a, b, c, d) := p in let '(a', b', c', d') := q in (a + a', b + b', c + c', d + d').
Definition madd4 (A B : @mat4 R) : @mat4 R :=
  let '(a0, a1, a2, a3) := A in let '(b0, b1, b2, b3) := B in (qadd a0 b0, qadd a1 b1, qadd a2 b2, qadd a3 b3).
Definition mscale4 (s : R) (A : @mat4 R) : @mat4 R :=
  let '(a0, a1, a2, a3) := A in (qscale s a0, qscale s a1, qscale s a2, qscale s a3).
Definition identity4 : @mat4 R := ((1, 0, 0, 0), (0, 1, 0, 0), (0, 0, 1, 0), (0, 0, 0, 1)).

Lemma quad_form_outer4 (v q : Q4) : quad_form Rops (outer4 v) q = qdot Rops v q * qdot Rops v q.
Proof.
  destruct v as [[[a b] c] d]. destruct q as [[[q0 q1] q2] q3].
  unfold quad_form, mat4_vec, outer4, qscale, qdot. rs. ring.
Qed.
Lemma quad_form_madd4 (A B : @mat4 R) (q : Q4) : quad_form Rops (madd4 A B) q = quad_form Rops A q + quad_form Rops B q.
Proof.
  destruct A as [[[[[[a00 a01] a02] a03] [[[a10 a11] a12] a13]] [[[a20 a21] a22] a23]] [[[a30 a31] a32] a33]].
  destruct B as [[[[[[b00 b01] b02] b03] [[[b10 b11] b12] b13]] [[[b20 b21] b22] b23]] [[[b30 b31] b32] b33]].
  destruct q as [[[q0 q1] q2] q3]. unfold quad_form, mat4_vec, madd4, qadd, qdot. rs. ring.
Qed.
Lemma quad_form_mscale4 s (A : @mat4 R) (q : Q4) : quad_form Rops (mscale4 s A) q = s * quad_form Rops A q.
Proof.
  destruct A as [[[[[[a00 a01] a02] a03] [[[a10 a11] a12] a13]] [[[a20 a21] a22] a23]] [[[a30 a31] a32] a33]].
  destruct q as [[[q0 q1] q2] q3]. unfold quad_form, mat4_vec, mscale4, qscale, qdot. rs. ring.
Qed.
Lemma quad_form_identity4 (q : Q4) : quad_form Rops identity4 q = qnorm2 q.
Proof. destruct q as [[[q0 q1] q2] q3]. unfold quad_form, mat4_vec, identity4, qnorm2, qdot. rs. ring. Qed.

Section OptimalRotation.
  Variable l : list (V3 * V3).
  Variables (v0 v1 v2 v3 : Q4) (e0 e1 e2 e3 : R).
  Let S := overlap_matrix Rops (corr_matrix Rops l).
  (* S = V diag(e) V^T,  V V^T = I,  v0 is a unit vector orthogonal to the others, e0 is the largest eigenvalue *)
  Hypothesis Hdecomp : S = madd4 (madd4 (mscale4 e0 (outer4 v0)) (mscale4 e1 (outer4 v1)))
                                 (madd4 (mscale4 e2 (outer4 v2)) (mscale4 e3 (outer4 v3))).
  Hypothesis Hcomplete : madd4 (madd4 (outer4 v0) (outer4 v1)) (madd4 (outer4 v2) (outer4 v3)) = identity4.
  Hypothesis Hunit0 : qnorm2 v0 = 1.
  Hypothesis Horth : qdot Rops v1 v0 = 0 /\ qdot Rops v2 v0 = 0 /\ qdot Rops v3 v0 = 0.
  Hypothesis Hmax : e1 <= e0 /\ e2 <= e0 /\ e3 <= e0.

  Lemma quad_form_spectral (q : Q4) :
    quad_form Rops S q = e0 * (qdot Rops v0 q * qdot Rops v0 q) + e1 * (qdot Rops v1 q * qdot Rops v1 q)
                         + e2 * (qdot Rops v2 q * qdot Rops v2 q) + e3 * (qdot Rops v3 q * qdot Rops v3 q).
  Proof. rewrite Hdecomp, !quad_form_madd4, !quad_form_mscale4, !quad_form_outer4. ring. Qed.
  Lemma parseval (q : Q4) :
    qdot Rops v0 q * qdot Rops v0 q + qdot Rops v1 q * qdot Rops v1 q + qdot Rops v2 q * qdot Rops v2 q
    + qdot Rops v3 q * qdot Rops v3 q = qnorm2 q.
  Proof. rewrite <- quad_form_identity4, <- Hcomplete, !quad_form_madd4, !quad_form_outer4. ring. Qed.
  Lemma quad_form_le_max (q : Q4) : quad_form Rops S q <= e0 * qnorm2 q.
  Proof.
    rewrite quad_form_spectral, <- parseval. destruct Hmax as (H1 & H2 & H3).
    set (c0 := qdot Rops v0 q * qdot Rops v0 q). set (c1 := qdot Rops v1 q * qdot Rops v1 q).
    set (c2 := qdot Rops v2 q * qdot Rops v2 q). set (c3 := qdot Rops v3 q * qdot Rops v3 q).
    assert (0 <= c1) by (unfold c1; nra). assert (0 <= c2) by (unfold c2; nra). assert (0 <= c3) by (unfold c3; nra).
    nra.
  Qed.
  Lemma quad_form_top : quad_form Rops S v0 = e0.
  Proof.
    rewrite quad_form_spectral. destruct Horth as (H1 & H2 & H3). rewrite H1, H2, H3.
    unfold qnorm2 in Hunit0. rewrite Hunit0. ring.
  Qed.
  Lemma optimal_rotation_minimises (q : Q4) : qnorm2 q = 1 -> sq_dev Rops v0 l <= sq_dev Rops q l.
  Proof.
    intros Hq. rewrite !sq_dev_quadratic, Hunit0, Hq. fold S. rewrite quad_form_top.
    pose proof (quad_form_le_max q) as H. rewrite Hq in H. lra.
  Qed.
End OptimalRotation.

(* ------------------------------------------------------------------ integer powers and the polynomial combination *)
Lemma ipow_pos_spec (x : R) p : ipow_pos Rops x p = x ^ Pos.to_nat p.
Proof.
  revert x. induction p as [p IH|p IH|]; intros x; cbn [ipow_pos]; rs.
  - rewrite IH, Pos2Nat.inj_xI. cbn [pow]. rewrite pow_mult. cbn [pow]. rewrite Rmult_1_r. reflexivity.
  - rewrite IH, Pos2Nat.inj_xO. rewrite pow_mult. cbn [pow]. rewrite Rmult_1_r. reflexivity.
  - rewrite Pos2Nat.inj_1. cbn [pow]. ring.
Qed.
Lemma ipow_spec (x : R) (n : Z) : x <> 0 -> ipow Rops x n = powerRZ x n.
Proof.
  intros Hx. unfold ipow. rs. unfold Reqb'. destruct (Req_EM_T x 0) as [E|_]; [contradiction|].
  destruct n as [|p|p]; cbn [powerRZ]; rewrite ?ipow_pos_spec; rs; [reflexivity|reflexivity|].
  unfold Rdiv. ring.
Qed.
Lemma ipow_zero (n : Z) : ipow Rops 0 n = if Z.eqb n 0 then 1 else 0.
Proof. unfold ipow. rs. unfold Reqb'. destruct (Req_EM_T 0 0) as [_|E]; [reflexivity|congruence]. Qed.
Definition term_value (t : R * Z * R) : R :=
  let '(c, n, q) := t in c * (if Z.eqb n 1 then q else ipow Rops q n).
Lemma cv_combine_sum (l : list (R * Z * R)) : cv_combine Rops l = rsum term_value l.
Proof.
  unfold cv_combine.
  assert (H : forall acc, fold_left (fun s t => let '(c, n, q) := t in
                nadd Rops s (nmul Rops c (if Z.eqb n 1 then q else ipow Rops q n))) l acc = acc + rsum term_value l).
  { induction l as [|[[c n] q] l IH]; intros acc; cbn [fold_left rsum]; [lra|]. rewrite IH. unfold term_value. rs. lra. }
  rewrite H. rs. lra.
Qed.
