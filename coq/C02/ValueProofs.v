(* C02 lemmas: all about the real-number instance Rops of C02.ValueModel. *)
From Coq Require Import ZArith List Bool Reals Lra Lia Psatz Permutation.
From Flocq Require Import Core.Raux.
From CV Require Import Base.Num Base.RNum C18.ValueModel C18.ValueProofs C02.ValueModel.
Import ListNotations.
Local Open Scope R_scope.

Notation V3 := (@vec3 R).
Notation Q4 := (@quat R).
Notation atomR := (@atom R).

Ltac rs := cbn [nadd nsub nmul ndiv nneg n0 n1 nofZ nsqrt nltb nleb neqb nacos natan2 npow nfloor nexp nlog ncos nsin Rops] in *.

(* ------------------------------------------------------------------ sums *)
Fixpoint rsum {A : Type} (f : A -> R) (l : list A) : R :=
  match l with [] => 0 | a :: r => f a + rsum f r end.

Lemma lsum_from_eq {A} (f : A -> R) l acc : lsum_from Rops acc f l = acc + rsum f l.
Proof.
  unfold lsum_from. revert acc. induction l as [|a l IH]; intros acc; cbn [fold_left rsum].
  - lra.
  - rewrite IH. rs. lra.
Qed.
Lemma lsum_eq {A} (f : A -> R) l : lsum Rops f l = rsum f l.
Proof. unfold lsum. rewrite lsum_from_eq. rs. lra. Qed.

Lemma vsum_eq {A} (f : A -> V3) l :
  vsum Rops f l = (rsum (fun a => fst (fst (f a))) l, rsum (fun a => snd (fst (f a))) l, rsum (fun a => snd (f a)) l).
Proof.
  unfold vsum.
  assert (H : forall acc : V3, fold_left (fun s a => v3add Rops s (f a)) l acc =
            (fst (fst acc) + rsum (fun a => fst (fst (f a))) l, snd (fst acc) + rsum (fun a => snd (fst (f a))) l,
             snd acc + rsum (fun a => snd (f a)) l)).
  { induction l as [|a l IH]; intros [[x y] z]; cbn [fold_left rsum fst snd].
    - f_equal; [f_equal|]; lra.
    - rewrite IH. destruct (f a) as [[u v] w]. unfold v3add. rs. cbn [fst snd]. f_equal; [f_equal|]; lra. }
  rewrite H. unfold vzero. rs. cbn [fst snd]. f_equal; [f_equal|]; lra.
Qed.

Lemma pair_sum_eq {A B} (f : A -> B -> R) l1 l2 : pair_sum Rops f l1 l2 = rsum (fun a => rsum (f a) l2) l1.
Proof.
  unfold pair_sum.
  assert (H : forall acc, fold_left (fun s a => lsum_from Rops s (f a) l2) l1 acc = acc + rsum (fun a => rsum (f a) l2) l1).
  { induction l1 as [|a l1 IH]; intros acc; cbn [fold_left rsum]; [lra|]. rewrite IH, lsum_from_eq. lra. }
  rewrite H. rs. lra.
Qed.

Fixpoint self_rsum {A : Type} (f : A -> A -> R) (l : list A) : R :=
  match l with [] => 0 | a :: r => rsum (f a) r + self_rsum f r end.
Lemma self_sum_from_eq {A} (f : A -> A -> R) l acc : self_sum_from Rops acc f l = acc + self_rsum f l.
Proof.
  revert acc. induction l as [|a l IH]; intros acc; cbn [self_sum_from self_rsum]; [lra|].
  rewrite IH, lsum_from_eq. lra.
Qed.

Lemma rsum_ext {A} (f g : A -> R) l : (forall a, In a l -> f a = g a) -> rsum f l = rsum g l.
Proof.
  induction l as [|a l IH]; intros H; cbn [rsum]; [reflexivity|].
  rewrite (H a (or_introl eq_refl)), IH; [reflexivity|]. intros b Hb. apply H. right; exact Hb.
Qed.
Lemma rsum_map {A B} (g : A -> B) (f : B -> R) l : rsum f (map g l) = rsum (fun a => f (g a)) l.
Proof. induction l as [|a l IH]; cbn [map rsum]; [reflexivity|]. rewrite IH. reflexivity. Qed.
Lemma rsum_plus {A} (f g : A -> R) l : rsum (fun a => f a + g a) l = rsum f l + rsum g l.
Proof. induction l as [|a l IH]; cbn [rsum]; [lra|]. rewrite IH. lra. Qed.
Lemma rsum_scal {A} (c : R) (f : A -> R) l : rsum (fun a => c * f a) l = c * rsum f l.
Proof. induction l as [|a l IH]; cbn [rsum]; [lra|]. rewrite IH. lra. Qed.
Lemma rsum_scal_r {A} (c : R) (f : A -> R) l : rsum (fun a => f a * c) l = rsum f l * c.
Proof. induction l as [|a l IH]; cbn [rsum]; [lra|]. rewrite IH. lra. Qed.
Lemma rsum_const {A} (c : R) (l : list A) : rsum (fun _ => c) l = INR (length l) * c.
Proof. induction l as [|a l IH]; [cbn; lra|]. cbn [rsum length]. rewrite IH, S_INR. lra. Qed.
Lemma rsum_app {A} (f : A -> R) l1 l2 : rsum f (l1 ++ l2) = rsum f l1 + rsum f l2.
Proof. induction l1 as [|a l1 IH]; cbn [app rsum]; [lra|]. rewrite IH. lra. Qed.
Lemma rsum_perm {A} (f : A -> R) l l' : Permutation l l' -> rsum f l = rsum f l'.
Proof.
  intros H. induction H as [|a l l' H IH|a b l|l l' l'' H1 IH1 H2 IH2]; cbn [rsum]; lra.
Qed.
Lemma self_rsum_map {A B} (g : A -> B) (f : B -> B -> R) l :
  self_rsum f (map g l) = self_rsum (fun a b => f (g a) (g b)) l.
Proof. induction l as [|a l IH]; cbn [map self_rsum]; [reflexivity|]. rewrite IH, rsum_map. reflexivity. Qed.
Lemma self_rsum_ext {A} (f g : A -> A -> R) l : (forall a b, f a b = g a b) -> self_rsum f l = self_rsum g l.
Proof.
  intros H. induction l as [|a l IH]; cbn [self_rsum]; [reflexivity|]. rewrite IH.
  rewrite (rsum_ext (f a) (g a)); [reflexivity|]. intros b _. apply H.
Qed.
(* a symmetric pair function: the i<j sum does not depend on the order of the list *)
Lemma self_rsum_perm {A} (f : A -> A -> R) l l' : (forall a b, f a b = f b a) ->
  Permutation l l' -> self_rsum f l = self_rsum f l'.
Proof.
  intros Hs H. induction H as [|a l l' H IH|a b l|l l' l'' H1 IH1 H2 IH2]; cbn [self_rsum rsum].
  - reflexivity.
  - rewrite IH, (rsum_perm (f a) l l' H). reflexivity.
  - rewrite (Hs b a). lra.
  - rewrite IH1. exact IH2.
Qed.

Lemma INR_nofnat n : nofnat Rops n = INR n.
Proof. unfold nofnat. rs. symmetry. apply INR_IZR_INZ. Qed.

(* ------------------------------------------------------------------ vectors *)
Lemma v3_eq (a b c d e f : R) : a = d -> b = e -> c = f -> (a, b, c) = (d, e, f).
Proof. intros -> -> ->. reflexivity. Qed.
Ltac v3ring := apply v3_eq; rs; try ring.
Ltac dv v := let x := fresh v "x" in let y := fresh v "y" in let z := fresh v "z" in destruct v as [[x y] z].

Definition v3opp (a : V3) : V3 := v3scale Rops (-1) a.

Lemma v3sub_shift (a b t : V3) : v3sub Rops (v3add Rops a t) (v3add Rops b t) = v3sub Rops a b.
Proof. dv a; dv b; dv t. unfold v3sub, v3add. v3ring. Qed.
Lemma v3add_sub (a t : V3) : v3sub Rops (v3add Rops a t) t = a.
Proof. dv a; dv t. unfold v3sub, v3add. v3ring. Qed.

Definition M3 := (@mat3 R).
Definition mtrans (M : M3) : M3 :=
  let '((a, b, c), (d, e, f), (g, h, i)) := M in ((a, d, g), (b, e, h), (c, f, i)).
Definition midentity : M3 := ((1, 0, 0), (0, 1, 0), (0, 0, 1)).
Definition mmul (A B : M3) : M3 :=
  let '(c1, c2, c3) := mtrans B in
  let '(r1, r2, r3) := A in
  ((v3dot Rops r1 c1, v3dot Rops r1 c2, v3dot Rops r1 c3),
   (v3dot Rops r2 c1, v3dot Rops r2 c2, v3dot Rops r2 c3),
   (v3dot Rops r3 c1, v3dot Rops r3 c2, v3dot Rops r3 c3)).
Definition det3 (M : M3) : R :=
  let '((a, b, c), (d, e, f), (g, h, i)) := M in
  a * (e * i - f * h) - b * (d * i - f * g) + c * (d * h - e * g).
(* every orthogonal matrix (M^T M = I) with determinant 1 *)
Definition orthogonal (M : M3) : Prop := mmul (mtrans M) M = midentity.
Definition proper_rotation (M : M3) : Prop := orthogonal M /\ det3 M = 1.

Ltac dm M := let a := fresh M "a" in let b := fresh M "b" in let c := fresh M "c" in
             let d := fresh M "d" in let e := fresh M "e" in let f := fresh M "f" in
             let g := fresh M "g" in let h := fresh M "h" in let i := fresh M "i" in
             destruct M as [[[[a b] c] [[d e] f]] [[g h] i]].

Lemma orthogonal_eqs (a b c d e f g h i : R) : orthogonal ((a, b, c), (d, e, f), (g, h, i)) ->
  a * a + d * d + g * g = 1 /\ a * b + d * e + g * h = 0 /\ a * c + d * f + g * i = 0 /\
  b * b + e * e + h * h = 1 /\ b * c + e * f + h * i = 0 /\ c * c + f * f + i * i = 1.
Proof.
  unfold orthogonal, mmul, mtrans, midentity, v3dot. rs. intros H. inversion H as [[H1 H2 H3 H4 H5 H6 H7 H8 H9]].
  repeat split; lra.
Qed.

Lemma mat_vec_sub (M : M3) (a b : V3) : v3sub Rops (mat_vec Rops M a) (mat_vec Rops M b) = mat_vec Rops M (v3sub Rops a b).
Proof. dm M; dv a; dv b. unfold v3sub, mat_vec, v3dot. v3ring. Qed.
Lemma mat_vec_add (M : M3) (a b : V3) : v3add Rops (mat_vec Rops M a) (mat_vec Rops M b) = mat_vec Rops M (v3add Rops a b).
Proof. dm M; dv a; dv b. unfold v3add, mat_vec, v3dot. v3ring. Qed.
Lemma mat_vec_scale (M : M3) s (a : V3) : mat_vec Rops M (v3scale Rops s a) = v3scale Rops s (mat_vec Rops M a).
Proof. dm M; dv a. unfold v3scale, mat_vec, v3dot. v3ring. Qed.
Lemma mat_vec_id (a : V3) : mat_vec Rops midentity a = a.
Proof. dv a. unfold midentity, mat_vec, v3dot. v3ring. Qed.

Lemma dot_rot (M : M3) (u v : V3) : orthogonal M -> v3dot Rops (mat_vec Rops M u) (mat_vec Rops M v) = v3dot Rops u v.
Proof.
  dm M; dv u; dv v. intros H. apply orthogonal_eqs in H. destruct H as (H1 & H2 & H3 & H4 & H5 & H6).
  unfold mat_vec, v3dot. rs.
  replace ((Ma * ux + Mb * uy + Mc * uz) * (Ma * vx + Mb * vy + Mc * vz) +
           (Md * ux + Me * uy + Mf * uz) * (Md * vx + Me * vy + Mf * vz) +
           (Mg * ux + Mh * uy + Mi * uz) * (Mg * vx + Mh * vy + Mi * vz))
    with (ux * vx * (Ma * Ma + Md * Md + Mg * Mg) + (ux * vy + uy * vx) * (Ma * Mb + Md * Me + Mg * Mh) +
          (ux * vz + uz * vx) * (Ma * Mc + Md * Mf + Mg * Mi) + uy * vy * (Mb * Mb + Me * Me + Mh * Mh) +
          (uy * vz + uz * vy) * (Mb * Mc + Me * Mf + Mh * Mi) + uz * vz * (Mc * Mc + Mf * Mf + Mi * Mi)) by ring.
  rewrite H1, H2, H3, H4, H5, H6. ring.
Qed.
Lemma norm2_rot (M : M3) (u : V3) : orthogonal M -> v3norm2 Rops (mat_vec Rops M u) = v3norm2 Rops u.
Proof. intros H. unfold v3norm2. apply dot_rot; exact H. Qed.
Lemma norm_rot (M : M3) (u : V3) : orthogonal M -> v3norm Rops (mat_vec Rops M u) = v3norm Rops u.
Proof. intros H. unfold v3norm. rewrite norm2_rot by exact H. reflexivity. Qed.

(* the scalar triple product is multiplied by the determinant *)
Lemma triple_rot (M : M3) (u v w : V3) :
  v3dot Rops (v3cross Rops (mat_vec Rops M u) (mat_vec Rops M v)) (mat_vec Rops M w) =
  det3 M * v3dot Rops (v3cross Rops u v) w.
Proof. dm M; dv u; dv v; dv w. unfold mat_vec, v3cross, v3dot, det3. rs. ring. Qed.
(* Binet-Cauchy: the dot product of two cross products in terms of dot products *)
Lemma dot_cross_cross (a b c d : V3) :
  v3dot Rops (v3cross Rops a b) (v3cross Rops c d) =
  v3dot Rops a c * v3dot Rops b d - v3dot Rops a d * v3dot Rops b c.
Proof. dv a; dv b; dv c; dv d. unfold v3cross, v3dot. rs. ring. Qed.

Lemma v3div_scale (v : V3) s : v3div Rops v s = v3scale Rops (/ s) v.
Proof. dv v. unfold v3div, v3scale. v3ring; unfold Rdiv; ring. Qed.
Lemma v3norm2_nonneg (v : V3) : 0 <= v3norm2 Rops v.
Proof. dv v. unfold v3norm2, v3dot. rs. nra. Qed.
Lemma v3norm_nonneg (v : V3) : 0 <= v3norm Rops v.
Proof. unfold v3norm. rs. apply sqrt_pos. Qed.

Lemma v3unit_rot (M : M3) (u : V3) : orthogonal M -> v3norm2 Rops u <> 0 ->
  v3unit Rops (mat_vec Rops M u) = mat_vec Rops M (v3unit Rops u).
Proof.
  intros H Hu. unfold v3unit. rewrite norm_rot by exact H.
  assert (Hn : 0 < v3norm Rops u).
  { unfold v3norm. rs. apply sqrt_lt_R0. pose proof (v3norm2_nonneg u). lra. }
  rs. assert (Rltb 0 (v3norm Rops u) = true) as -> by (apply Rltb_true; exact Hn).
  rewrite !v3div_scale, mat_vec_scale. reflexivity.
Qed.

(* ------------------------------------------------------------------ groups under rigid motions *)
Definition shift_atom (t : V3) (a : atomR) : atomR :=
  mkAtom (a_id a) (a_mass a) (a_charge a) (v3add Rops (a_pos a) t).
Definition rot_atom (M : M3) (a : atomR) : atomR :=
  mkAtom (a_id a) (a_mass a) (a_charge a) (mat_vec Rops M (a_pos a)).
Definition shift_group (t : V3) (g : list atomR) : list atomR := map (shift_atom t) g.
Definition rot_group (M : M3) (g : list atomR) : list atomR := map (rot_atom M) g.

Definition px (a : atomR) : R := fst (fst (a_pos a)).
Definition py (a : atomR) : R := snd (fst (a_pos a)).
Definition pz (a : atomR) : R := snd (a_pos a).

Lemma rsum_lin3 {A} c1 c2 c3 (f1 f2 f3 : A -> R) l :
  rsum (fun a => c1 * f1 a + c2 * f2 a + c3 * f3 a) l = c1 * rsum f1 l + c2 * rsum f2 l + c3 * rsum f3 l.
Proof. induction l as [|a l IH]; cbn [rsum]; [lra|]. rewrite IH. lra. Qed.

Lemma total_mass_R g : total_mass Rops g = rsum a_mass g.
Proof. unfold total_mass. apply lsum_eq. Qed.
Lemma total_charge_R g : total_charge Rops g = rsum a_charge g.
Proof. unfold total_charge. apply lsum_eq. Qed.

Lemma com_R g : com Rops g =
  (rsum (fun a => a_mass a * px a) g / total_mass Rops g, rsum (fun a => a_mass a * py a) g / total_mass Rops g,
   rsum (fun a => a_mass a * pz a) g / total_mass Rops g).
Proof.
  unfold com. rewrite vsum_eq. unfold v3div. rs.
  apply v3_eq; f_equal; apply rsum_ext; intros a _; unfold px, py, pz; destruct (a_pos a) as [[x y] z]; reflexivity.
Qed.
Lemma cog_R g : cog Rops g = (rsum px g / INR (length g), rsum py g / INR (length g), rsum pz g / INR (length g)).
Proof. unfold cog. rewrite INR_nofnat, vsum_eq. unfold v3div. rs. reflexivity. Qed.

Lemma total_mass_shift t g : total_mass Rops (shift_group t g) = total_mass Rops g.
Proof. rewrite !total_mass_R. unfold shift_group. rewrite rsum_map. reflexivity. Qed.
Lemma total_mass_rot M g : total_mass Rops (rot_group M g) = total_mass Rops g.
Proof. rewrite !total_mass_R. unfold rot_group. rewrite rsum_map. reflexivity. Qed.
Lemma length_shift t g : length (shift_group t g) = length g.
Proof. apply map_length. Qed.
Lemma length_rot M g : length (rot_group M g) = length g.
Proof. apply map_length. Qed.

Lemma com_shift t g : total_mass Rops g <> 0 -> com Rops (shift_group t g) = v3add Rops (com Rops g) t.
Proof.
  intros HM. rewrite !com_R, total_mass_shift. unfold shift_group. rewrite !rsum_map. dv t.
  cbn [a_mass shift_atom]. unfold v3add. rs.
  apply v3_eq.
  - rewrite (rsum_ext _ (fun a => a_mass a * px a + a_mass a * tx)), rsum_plus, rsum_scal_r; [rewrite <- total_mass_R; field; exact HM|].
    intros a _. unfold px. cbn [a_pos shift_atom]. destruct (a_pos a) as [[x y] z]. unfold v3add. rs. cbn [fst snd]. ring.
  - rewrite (rsum_ext _ (fun a => a_mass a * py a + a_mass a * ty)), rsum_plus, rsum_scal_r; [rewrite <- total_mass_R; field; exact HM|].
    intros a _. unfold py. cbn [a_pos shift_atom]. destruct (a_pos a) as [[x y] z]. unfold v3add. rs. cbn [fst snd]. ring.
  - rewrite (rsum_ext _ (fun a => a_mass a * pz a + a_mass a * tz)), rsum_plus, rsum_scal_r; [rewrite <- total_mass_R; field; exact HM|].
    intros a _. unfold pz. cbn [a_pos shift_atom]. destruct (a_pos a) as [[x y] z]. unfold v3add. rs. cbn [fst snd]. ring.
Qed.

Lemma com_rot M g : com Rops (rot_group M g) = mat_vec Rops M (com Rops g).
Proof.
  rewrite !com_R, total_mass_rot. unfold rot_group. rewrite !rsum_map. dm M.
  cbn [a_mass rot_atom]. unfold mat_vec, v3dot. rs.
  set (S := total_mass Rops g).
  apply v3_eq.
  - rewrite (rsum_ext _ (fun a => Ma * (a_mass a * px a) + Mb * (a_mass a * py a) + Mc * (a_mass a * pz a))), rsum_lin3;
      [unfold Rdiv; ring|].
    intros a _. unfold px, py, pz. cbn [a_pos rot_atom]. destruct (a_pos a) as [[x y] z]. unfold mat_vec, v3dot. rs. cbn [fst snd]. ring.
  - rewrite (rsum_ext _ (fun a => Md * (a_mass a * px a) + Me * (a_mass a * py a) + Mf * (a_mass a * pz a))), rsum_lin3;
      [unfold Rdiv; ring|].
    intros a _. unfold px, py, pz. cbn [a_pos rot_atom]. destruct (a_pos a) as [[x y] z]. unfold mat_vec, v3dot. rs. cbn [fst snd]. ring.
  - rewrite (rsum_ext _ (fun a => Mg * (a_mass a * px a) + Mh * (a_mass a * py a) + Mi * (a_mass a * pz a))), rsum_lin3;
      [unfold Rdiv; ring|].
    intros a _. unfold px, py, pz. cbn [a_pos rot_atom]. destruct (a_pos a) as [[x y] z]. unfold mat_vec, v3dot. rs. cbn [fst snd]. ring.
Qed.

Lemma length_INR_pos {A} (g : list A) : g <> [] -> INR (length g) <> 0.
Proof. destruct g as [|a g]; [congruence|]. intros _. cbn [length]. rewrite S_INR. pose proof (pos_INR (length g)). lra. Qed.

Lemma cog_shift t g : g <> [] -> cog Rops (shift_group t g) = v3add Rops (cog Rops g) t.
Proof.
  intros Hg. apply length_INR_pos in Hg. rewrite !cog_R, length_shift. unfold shift_group. rewrite !rsum_map. dv t.
  unfold v3add. rs.
  apply v3_eq.
  - rewrite (rsum_ext _ (fun a => px a + tx)), rsum_plus, rsum_const; [field; exact Hg|].
    intros a _. unfold px. cbn [a_pos shift_atom]. destruct (a_pos a) as [[x y] z]. reflexivity.
  - rewrite (rsum_ext _ (fun a => py a + ty)), rsum_plus, rsum_const; [field; exact Hg|].
    intros a _. unfold py. cbn [a_pos shift_atom]. destruct (a_pos a) as [[x y] z]. reflexivity.
  - rewrite (rsum_ext _ (fun a => pz a + tz)), rsum_plus, rsum_const; [field; exact Hg|].
    intros a _. unfold pz. cbn [a_pos shift_atom]. destruct (a_pos a) as [[x y] z]. reflexivity.
Qed.

Lemma cog_rot M g : cog Rops (rot_group M g) = mat_vec Rops M (cog Rops g).
Proof.
  rewrite !cog_R, length_rot. unfold rot_group. rewrite !rsum_map. dm M.
  unfold mat_vec, v3dot. rs.
  apply v3_eq.
  - rewrite (rsum_ext _ (fun a => Ma * px a + Mb * py a + Mc * pz a)), rsum_lin3; [unfold Rdiv; ring|].
    intros a _. unfold px, py, pz. cbn [a_pos rot_atom]. destruct (a_pos a) as [[x y] z]. reflexivity.
  - rewrite (rsum_ext _ (fun a => Md * px a + Me * py a + Mf * pz a)), rsum_lin3; [unfold Rdiv; ring|].
    intros a _. unfold px, py, pz. cbn [a_pos rot_atom]. destruct (a_pos a) as [[x y] z]. reflexivity.
  - rewrite (rsum_ext _ (fun a => Mg * px a + Mh * py a + Mi * pz a)), rsum_lin3; [unfold Rdiv; ring|].
    intros a _. unfold px, py, pz. cbn [a_pos rot_atom]. destruct (a_pos a) as [[x y] z]. reflexivity.
Qed.
