(* C02: variable values equal their mathematical definition and respect its symmetries.
   Statements only (proofs in ValueProofs.v); all over the real-number instance Rops of C02.ValueModel,
   for ALL coordinates, masses, charges, group sizes, rotations, translations, lattice vectors, permutations.
   shift_group t g / rot_group M g: every atom of g moved by the translation t / the matrix M;
   proper_rotation M: M^T M = I and det M = 1;  lshift (n1,n2,n3) g: g moved by n1 a + n2 b + n3 c. *)
From Coq Require Import ZArith List Bool Reals Lra Lia Permutation.
From CV Require Import Base.Num Base.RNum C18.ValueModel C02.ValueModel C02.ValueProofs.
Import ListNotations.
Local Open Scope R_scope.

(* C02 is stated in three files compiled in parallel by the check: Properties_C02.v (definitions, translations),
   Properties_C02_rot.v (proper rotations), Properties_C02_sym.v (permutation, duplicates, minimum image, lattice,
   quaternion sign, optimal rotation). *)
(* ================= proper rotations (no cell): every orthogonal matrix with determinant 1 ================= *)
Theorem C02_rotation_invariant_distance : forall pbc M, proper_rotation M -> forall g1 g2,
  cv_distance Rops pbc None (rot_group M g1) (rot_group M g2) = cv_distance Rops pbc None g1 g2.
Proof. exact rot_distance. Qed.
Print Assumptions C02_rotation_invariant_distance.
(* vector-valued components turn with the system *)
Theorem C02_rotation_equivariant_distanceVec : forall pbc M, proper_rotation M -> forall g1 g2,
  cv_distance_vec Rops pbc None (rot_group M g1) (rot_group M g2) = mat_vec Rops M (cv_distance_vec Rops pbc None g1 g2) /\
  (v3norm2 Rops (cv_distance_vec Rops pbc None g1 g2) <> 0 ->
   cv_distance_dir Rops pbc None (rot_group M g1) (rot_group M g2) = mat_vec Rops M (cv_distance_dir Rops pbc None g1 g2)).
Proof. intros pbc M HM g1 g2. split; [apply rot_distance_vec | apply rot_distance_dir]; exact HM. Qed.
Print Assumptions C02_rotation_equivariant_distanceVec.
(* axis defined by two groups (ref, ref2) whose centres do not coincide *)
Theorem C02_rotation_invariant_distanceZ : forall pbc M, proper_rotation M -> forall main ref ref2,
  v3norm2 Rops (pdist Rops pbc None (com Rops ref) (com Rops ref2)) <> 0 ->
  cv_distance_z_ref2 Rops pbc None (rot_group M main) (rot_group M ref) (rot_group M ref2) = cv_distance_z_ref2 Rops pbc None main ref ref2 /\
  cv_distance_xy_ref2 Rops pbc None (rot_group M main) (rot_group M ref) (rot_group M ref2) = cv_distance_xy_ref2 Rops pbc None main ref ref2.
Proof. intros pbc M HM main ref ref2 H. split; [apply rot_distance_z_ref2 | apply rot_distance_xy_ref2]; assumption. Qed.
Print Assumptions C02_rotation_invariant_distanceZ.
Theorem C02_rotation_invariant_distanceInv : forall pbc M, proper_rotation M -> forall n g1 g2,
  cv_distance_inv Rops pbc None n (rot_group M g1) (rot_group M g2) = cv_distance_inv Rops pbc None n g1 g2.
Proof. exact rot_distance_inv. Qed.
Print Assumptions C02_rotation_invariant_distanceInv.
Theorem C02_rotation_invariant_dipoleMagnitude : forall M, proper_rotation M -> forall g,
  cv_dipole_magnitude Rops (rot_group M g) = cv_dipole_magnitude Rops g.
Proof. exact rot_dipole_magnitude. Qed.
Print Assumptions C02_rotation_invariant_dipoleMagnitude.
Theorem C02_rotation_invariant_gyration : forall M, proper_rotation M -> forall g,
  cv_gyration Rops (rot_group M g) = cv_gyration Rops g /\ cv_inertia Rops (rot_group M g) = cv_inertia Rops g.
Proof. intros M HM g. split; [apply rot_gyration | apply rot_inertia]; exact HM. Qed.
Print Assumptions C02_rotation_invariant_gyration.
Theorem C02_rotation_invariant_angle : forall pbc M, proper_rotation M -> forall g1 g2 g3,
  cv_angle Rops PI pbc None (rot_group M g1) (rot_group M g2) (rot_group M g3) = cv_angle Rops PI pbc None g1 g2 g3.
Proof. exact rot_angle. Qed.
Print Assumptions C02_rotation_invariant_angle.
Theorem C02_rotation_invariant_dipoleAngle : forall pbc M, proper_rotation M -> forall g1 g2 g3,
  cv_dipole_angle Rops PI pbc None (rot_group M g1) (rot_group M g2) (rot_group M g3) = cv_dipole_angle Rops PI pbc None g1 g2 g3.
Proof. exact rot_dipole_angle. Qed.
Print Assumptions C02_rotation_invariant_dipoleAngle.
(* the sign of the dihedral needs det M = +1 (a reflection reverses it) *)
Theorem C02_rotation_invariant_dihedral : forall pbc M, proper_rotation M -> forall g1 g2 g3 g4,
  cv_dihedral Rops PI pbc None (rot_group M g1) (rot_group M g2) (rot_group M g3) (rot_group M g4) =
  cv_dihedral Rops PI pbc None g1 g2 g3 g4.
Proof. exact rot_dihedral. Qed.
Print Assumptions C02_rotation_invariant_dihedral.
(* isotropic cut-off (cutoff3 is not rotation invariant by definition) *)
Theorem C02_rotation_invariant_coordNum : forall M, proper_rotation M -> forall r0 en ed tol g1 g2,
  cv_coordnum Rops r0 None en ed tol None (rot_group M g1) (rot_group M g2) = cv_coordnum Rops r0 None en ed tol None g1 g2 /\
  cv_coordnum_center Rops r0 None en ed tol None (rot_group M g1) (rot_group M g2) = cv_coordnum_center Rops r0 None en ed tol None g1 g2.
Proof. intros M HM r0 en ed tol g1 g2. split; [apply rot_coordnum | apply rot_coordnum_center]; exact HM. Qed.
Print Assumptions C02_rotation_invariant_coordNum.
Theorem C02_rotation_invariant_selfCoordNum : forall M, proper_rotation M -> forall r0 en ed tol g,
  cv_selfcoordnum Rops r0 en ed tol None (rot_group M g) = cv_selfcoordnum Rops r0 en ed tol None g.
Proof. exact rot_selfcoordnum. Qed.
Print Assumptions C02_rotation_invariant_selfCoordNum.
Theorem C02_rotation_invariant_groupCoord : forall M, proper_rotation M -> forall r0 en ed g1 g2,
  cv_groupcoord Rops r0 None en ed None (rot_group M g1) (rot_group M g2) = cv_groupcoord Rops r0 None en ed None g1 g2.
Proof. exact rot_groupcoord. Qed.
Print Assumptions C02_rotation_invariant_groupCoord.
Theorem C02_rotation_invariant_hBond : forall M, proper_rotation M -> forall r0 en ed a d,
  cv_hbond Rops r0 en ed None (rot_atom M a) (rot_atom M d) = cv_hbond Rops r0 en ed None a d.
Proof. exact rot_hbond. Qed.
Print Assumptions C02_rotation_invariant_hBond.

(* ================= non-vacuity of the premises ================= *)
Example C02_example_rotation : proper_rotation ((0, -1, 0), (1, 0, 0), (0, 0, 1)) /\
  proper_rotation (rotation_matrix Rops (1 / 2, 1 / 2, 1 / 2, 1 / 2)) /\ qnorm2 (1 / 2, 1 / 2, 1 / 2, 1 / 2) = 1.
Proof.
  assert (Hq : qnorm2 (1 / 2, 1 / 2, 1 / 2, 1 / 2) = 1) by (unfold qnorm2, qdot; cbn; lra).
  split; [|split; [apply rotation_matrix_proper, Hq | exact Hq]].
  split; [unfold orthogonal, mmul, mtrans, midentity, v3dot; cbn; tuple_eq; lra | unfold det3; lra].
Qed.
