(* C02 model of atom_group::create_sorted_ids and cvm::load_coords (src/colvaratoms.cpp, src/colvarmodule.cpp):
   positions read from a coordinate file come in the order of increasing atom id; they are attached to the atoms of
   the group, which are kept in listing order, through sorted_atoms_ids_map.  Definitions only (extracted). *)
From Coq Require Import ZArith List Bool.
Import ListNotations.

(* sorted_atoms_ids: the ids in increasing order (std::list::sort; the ids of a group are distinct) *)
Fixpoint insert_sorted (x : Z) (l : list Z) : list Z :=
  match l with
  | [] => [x]
  | y :: r => if Z.leb x y then x :: l else y :: insert_sorted x r
  end.
Definition sorted_ids (ids : list Z) : list Z := fold_right insert_sorted [] ids.

(* std::find(atoms_ids.begin(), atoms_ids.end(), x) - atoms_ids.begin() *)
Fixpoint index_of (x : Z) (l : list Z) : nat :=
  match l with
  | [] => O
  | y :: r => if Z.eqb x y then O else S (index_of x r)
  end.
(* sorted_atoms_ids_map[ii] = position, in the group's own order, of the ii-th smallest id *)
Definition sorted_map (ids : list Z) : list nat := map (fun s => index_of s ids) (sorted_ids ids).

Fixpoint set_nth {A : Type} (l : list A) (n : nat) (x : A) : list A :=
  match l, n with
  | [], _ => []
  | _ :: r, O => x :: r
  | y :: r, S m => y :: set_nth r m x
  end.
(* load_coords: pos[map[i]] = sorted_pos[i] for i = 0 .. N-1, starting from a vector of N default entries *)
Definition load_coords {A : Type} (default : A) (ids : list Z) (sorted_pos : list A) : list A :=
  fold_left (fun pos mp => set_nth pos (fst mp) (snd mp)) (combine (sorted_map ids) sorted_pos)
            (repeat default (length ids)).

(* atomNumbersRange a-b: the atoms a, a+1, ..., b in this order (nothing when b < a) *)
Definition range_list (a b : Z) : list Z := map (fun k => (a + Z.of_nat k)%Z) (seq 0 (Z.to_nat (b - a + 1))).
(* the selections of one group in the order in which atom_group::parse adds them: atomsOfGroup, every atomNumbers line,
   indexGroup, every atomNumbersRange line (the group is then mk_group of the atoms with these ids) *)
Definition selection_ids (of_group : list Z) (numbers : list (list Z)) (index_group : list Z) (ranges : list (Z * Z)) : list Z :=
  of_group ++ concat numbers ++ index_group ++ concat (map (fun ab => range_list (fst ab) (snd ab)) ranges).
