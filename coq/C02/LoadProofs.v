From Coq Require Import ZArith List Bool Lia Permutation.
From CV Require Import C02.LoadModel.
Import ListNotations.

Lemma insert_sorted_perm x l : Permutation (x :: l) (insert_sorted x l).
Proof.
  induction l as [|y r IH]; cbn [insert_sorted]; [apply Permutation_refl|].
  destruct (Z.leb x y); [apply Permutation_refl|].
  apply perm_trans with (y :: x :: r); [apply perm_swap|]. apply perm_skip. exact IH.
Qed.
Lemma sorted_ids_perm ids : Permutation ids (sorted_ids ids).
Proof.
  induction ids as [|x r IH]; cbn [sorted_ids fold_right]; [apply perm_nil|].
  apply perm_trans with (x :: sorted_ids r); [apply perm_skip; exact IH | apply insert_sorted_perm].
Qed.
Lemma sorted_ids_length ids : length (sorted_ids ids) = length ids.
Proof. symmetry. apply Permutation_length, sorted_ids_perm. Qed.

(* the result is increasing *)
Inductive increasing : list Z -> Prop :=
| inc_nil : increasing []
| inc_one x : increasing [x]
| inc_cons x y r : (x <= y)%Z -> increasing (y :: r) -> increasing (x :: y :: r).
Lemma insert_sorted_increasing x l : increasing l -> increasing (insert_sorted x l).
Proof.
  induction 1 as [|y|y z r Hyz Hr IH]; cbn [insert_sorted].
  - constructor.
  - destruct (Z.leb x y) eqn:E; [apply Z.leb_le in E|apply Z.leb_gt in E]; constructor; try lia; constructor.
  - destruct (Z.leb x y) eqn:E; [apply Z.leb_le in E|apply Z.leb_gt in E].
    + constructor; [lia|]. constructor; assumption.
    + cbn [insert_sorted] in IH. destruct (Z.leb x z) eqn:E2; [apply Z.leb_le in E2|apply Z.leb_gt in E2].
      * constructor; [lia|]. exact IH.
      * constructor; [lia|]. exact IH.
Qed.
Lemma sorted_ids_increasing ids : increasing (sorted_ids ids).
Proof. induction ids as [|x r IH]; cbn [sorted_ids fold_right]; [constructor | apply insert_sorted_increasing, IH]. Qed.

Lemma index_of_nth ids k d : NoDup ids -> k < length ids -> index_of (nth k ids d) ids = k.
Proof.
  revert k. induction ids as [|y r IH]; intros k Hnd Hk; cbn [length] in Hk; [lia|].
  inversion Hnd as [|? ? Hnotin Hnd']; subst. destruct k as [|k]; cbn [nth index_of].
  - rewrite Z.eqb_refl. reflexivity.
  - destruct (Z.eqb (nth k r d) y) eqn:E.
    + apply Z.eqb_eq in E. exfalso. apply Hnotin. rewrite <- E. apply nth_In. lia.
    + f_equal. apply IH; [exact Hnd'|lia].
Qed.
Lemma index_of_lt x ids : In x ids -> index_of x ids < length ids.
Proof.
  induction ids as [|y r IH]; intros H; [contradiction|]. cbn [index_of length].
  destruct (Z.eqb x y) eqn:E; [lia|]. apply Z.eqb_neq in E. destruct H as [H|H]; [congruence|]. specialize (IH H). lia.
Qed.
Lemma nth_index_of x ids d : In x ids -> nth (index_of x ids) ids d = x.
Proof.
  induction ids as [|y r IH]; intros H; [contradiction|]. cbn [index_of].
  destruct (Z.eqb x y) eqn:E; [apply Z.eqb_eq in E; subst; reflexivity|].
  apply Z.eqb_neq in E. destruct H as [H|H]; [congruence|]. cbn [nth]. apply IH, H.
Qed.

Lemma set_nth_length {A} (l : list A) n x : length (set_nth l n x) = length l.
Proof. revert n. induction l as [|y r IH]; intros [|n]; cbn [set_nth length]; try reflexivity. rewrite IH. reflexivity. Qed.
Lemma nth_set_nth {A} (l : list A) n k x d : n < length l -> nth k (set_nth l n x) d = if Nat.eqb k n then x else nth k l d.
Proof.
  revert n k. induction l as [|y r IH]; intros n k Hn; cbn [length] in Hn; [lia|].
  destruct n as [|n]; destruct k as [|k]; cbn [set_nth nth Nat.eqb]; try reflexivity. apply IH. lia.
Qed.

(* writing a list of (index, value) pairs with distinct valid indices: the entry at index m holds the value paired with m *)
Lemma fold_set_nth {A} (pairs : list (nat * A)) (init : list A) d k :
  NoDup (map fst pairs) -> (forall mp, In mp pairs -> fst mp < length init) ->
  forall v, In (k, v) pairs -> nth k (fold_left (fun pos mp => set_nth pos (fst mp) (snd mp)) pairs init) d = v.
Proof.
  revert init. induction pairs as [|[m p] pairs IH]; intros init Hnd Hlt v Hin; [contradiction|].
  cbn [fold_left fst snd]. cbn [map fst] in Hnd. inversion Hnd as [|? ? Hnotin Hnd']; subst.
  assert (Hm : m < length init) by (apply (Hlt (m, p)); left; reflexivity).
  destruct Hin as [Hin|Hin].
  - injection Hin as -> ->.
    (* the later writes do not touch index k *)
    assert (Hkeep : forall (ps : list (nat * A)) (l0 : list A), ~ In k (map fst ps) ->
              nth k (fold_left (fun pos mp => set_nth pos (fst mp) (snd mp)) ps l0) d = nth k l0 d).
    { induction ps as [|[m' p'] ps IHps]; intros l0 Hn; [reflexivity|]. cbn [fold_left fst snd].
      rewrite IHps by (intros Hc; apply Hn; right; exact Hc).
      destruct (Nat.lt_ge_cases m' (length l0)) as [Hl|Hl].
      - rewrite nth_set_nth by exact Hl. destruct (Nat.eqb k m') eqn:E; [|reflexivity].
        apply Nat.eqb_eq in E. exfalso. apply Hn. left. symmetry. exact E.
      - assert (set_nth l0 m' p' = l0) as ->; [|reflexivity].
        clear -Hl. revert m' Hl. induction l0 as [|y r IHr]; intros [|m'] Hl; cbn [set_nth length] in *; try reflexivity; try lia.
        rewrite IHr by lia. reflexivity. }
    rewrite Hkeep by exact Hnotin. rewrite nth_set_nth by exact Hm. rewrite Nat.eqb_refl. reflexivity.
  - apply IH; [exact Hnd'| |exact Hin].
    intros mp Hmp. rewrite set_nth_length. apply Hlt. right. exact Hmp.
Qed.

Lemma map_fst_combine {A B} (l1 : list A) (l2 : list B) : length l1 = length l2 -> map fst (combine l1 l2) = l1.
Proof.
  revert l2. induction l1 as [|a l1 IH]; intros [|b l2] H; cbn [length combine map fst] in *; try reflexivity; try discriminate.
  injection H as H. rewrite IH by exact H. reflexivity.
Qed.
Lemma sorted_map_nodup ids : NoDup ids -> NoDup (sorted_map ids).
Proof.
  intros Hnd. unfold sorted_map.
  assert (Hs : NoDup (sorted_ids ids)) by (apply (Permutation_NoDup (sorted_ids_perm ids)), Hnd).
  assert (Hin : forall s, In s (sorted_ids ids) -> In s ids) by (intros s H; apply (Permutation_in _ (Permutation_sym (sorted_ids_perm ids))), H).
  revert Hs Hin. generalize (sorted_ids ids) as ss. induction ss as [|s ss IH]; intros Hs Hin; cbn [map]; [constructor|].
  inversion Hs as [|? ? Hnotin Hs']; subst. constructor.
  - intros Hc. apply in_map_iff in Hc. destruct Hc as [s' [He Hs'in]].
    assert (s' = s).
    { rewrite <- (nth_index_of s' ids 0%Z) by (apply Hin; right; exact Hs'in).
      rewrite <- (nth_index_of s ids 0%Z) by (apply Hin; left; reflexivity). rewrite He. reflexivity. }
    subst s'. contradiction.
  - apply IH; [exact Hs'|]. intros s' H. apply Hin. right. exact H.
Qed.

(* the file lists one entry per atom in increasing id order (file x = entry of atom x): after load_coords every atom
   of the group, whatever the listing order, carries its own entry *)
Theorem load_coords_correct {A} (file : Z -> A) (d : A) (ids : list Z) : NoDup ids ->
  load_coords d ids (map file (sorted_ids ids)) = map file ids.
Proof.
  intros Hnd. unfold load_coords.
  set (pairs := combine (sorted_map ids) (map file (sorted_ids ids))).
  set (init := repeat d (length ids)).
  assert (Hlen : length (fold_left (fun pos mp => set_nth pos (fst mp) (snd mp)) pairs init) = length ids).
  { assert (H : forall (ps : list (nat * A)) (l0 : list A), length (fold_left (fun pos mp => set_nth pos (fst mp) (snd mp)) ps l0) = length l0).
    { induction ps as [|mp ps IH]; intros l0; [reflexivity|]. cbn [fold_left]. rewrite IH, set_nth_length. reflexivity. }
    rewrite H. unfold init. apply repeat_length. }
  apply (nth_ext _ _ d (file 0%Z)); [rewrite Hlen, map_length; reflexivity|].
  intros k Hk. rewrite Hlen in Hk.
  rewrite (nth_indep (map file ids) (file 0%Z) (file (nth k ids 0%Z))) by (rewrite map_length; exact Hk).
  rewrite map_nth.
  set (x := nth k ids 0%Z).
  replace (nth k ids x) with x by (unfold x; apply nth_indep; exact Hk).
  assert (Hx : In x ids) by (apply nth_In; exact Hk).
  assert (Hxs : In x (sorted_ids ids)) by (apply (Permutation_in _ (sorted_ids_perm ids)), Hx).
  assert (Hin : In (k, file x) pairs).
  { (* the pair of rank i with sorted[i] = x *)
    apply In_nth with (d := 0%Z) in Hxs. destruct Hxs as [i [Hi Hix]].
    assert (E : (k, file x) = nth i pairs (index_of 0%Z ids, file 0%Z)).
    { unfold pairs. rewrite combine_nth by (unfold sorted_map; rewrite !map_length; reflexivity). f_equal.
      - unfold sorted_map. change (index_of 0%Z ids) with ((fun s : Z => index_of s ids) 0%Z).
        rewrite map_nth, Hix. unfold x. symmetry. apply index_of_nth; assumption.
      - rewrite map_nth, Hix. reflexivity. }
    rewrite E. apply nth_In. unfold pairs. rewrite combine_length. unfold sorted_map. rewrite !map_length. lia. }
  apply fold_set_nth; [| |exact Hin].
  - unfold pairs. rewrite map_fst_combine.
    + apply sorted_map_nodup, Hnd.
    + unfold sorted_map. rewrite !map_length. reflexivity.
  - intros [m0 p0] Hmp. unfold pairs in Hmp. apply in_combine_l in Hmp. unfold sorted_map in Hmp.
    apply in_map_iff in Hmp. destruct Hmp as [s [He Hs]]. cbn [fst]. rewrite <- He. unfold init. rewrite repeat_length.
    apply index_of_lt. apply (Permutation_in _ (Permutation_sym (sorted_ids_perm ids))), Hs.
Qed.

Lemma range_list_in a b i : In i (range_list a b) <-> (a <= i <= b)%Z.
Proof.
  unfold range_list. rewrite in_map_iff. split.
  - intros [k [Hk Hin]]. apply in_seq in Hin. lia.
  - intros H. exists (Z.to_nat (i - a)). split; [lia|]. apply in_seq. lia.
Qed.
Lemma range_list_length a b : length (range_list a b) = Z.to_nat (b - a + 1).
Proof. unfold range_list. rewrite map_length, seq_length. reflexivity. Qed.
