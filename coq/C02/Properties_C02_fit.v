(* C02, fourth file: the components built on the optimal (least-squares) rotation, and the remaining symmetries.
   q, q' below are the quaternions that rotation::calc_optimal_rotation returns for the pairs named in the premise;
   is_optimal q l (unit quaternion of least deviation) is what it is REQUIRED to return:
   C02_eigen_decomposition_is_optimal derives it from the orthonormal eigen-decomposition of the overlap matrix that the
   Jacobi routine is assumed to produce (verified numerically by the check on every rotation case).
   Rotations of the atoms are arbitrary proper rotation matrices M (M^T M = I, det M = 1), as in the other files:
   C02_every_rotation_is_a_quaternion shows that each of them is rotation_matrix p for a unit quaternion p. *)
From Coq Require Import ZArith List Bool Reals Lra Lia Permutation.
From CV Require Import Base.Num Base.RNum C18.ValueModel C02.ValueModel C02.ValueProofs C02.RotProofs.
Import ListNotations.
Local Open Scope R_scope.

Theorem C02_eigen_decomposition_is_optimal : forall (l : list (V3 * V3)) (v0 v1 v2 v3 : Q4) (e0 e1 e2 e3 : R),
  overlap_matrix Rops (corr_matrix Rops l) =
    madd4 (madd4 (mscale4 e0 (outer4 v0)) (mscale4 e1 (outer4 v1))) (madd4 (mscale4 e2 (outer4 v2)) (mscale4 e3 (outer4 v3))) ->
  madd4 (madd4 (outer4 v0) (outer4 v1)) (madd4 (outer4 v2) (outer4 v3)) = identity4 ->
  qnorm2 v0 = 1 -> qdot Rops v1 v0 = 0 /\ qdot Rops v2 v0 = 0 /\ qdot Rops v3 v0 = 0 ->
  e1 <= e0 /\ e2 <= e0 /\ e3 <= e0 -> is_optimal v0 l.
Proof. exact eigen_decomposition_is_optimal. Qed.
Print Assumptions C02_eigen_decomposition_is_optimal.

(* rmsd = sqrt( least deviation / N ): its definition, its minimality, its invariance *)
Theorem C02_definition_rmsd : forall (q : Q4) ref g,
  cv_rmsd Rops q ref g = sqrt (sq_dev Rops q (fit_pairs Rops ref g) / INR (length g)) /\
  (is_optimal q (fit_pairs Rops ref g) -> forall q', qnorm2 q' = 1 -> cv_rmsd Rops q ref g <= cv_rmsd Rops q' ref g).
Proof. intros q ref g. split; [apply cv_rmsd_dev | intros; apply rmsd_minimal; assumption]. Qed.
Print Assumptions C02_definition_rmsd.
Theorem C02_translation_invariant_rmsd : forall ref t g, g <> [] ->
  fit_pairs Rops ref (shift_group t g) = fit_pairs Rops ref g /\
  (forall q, cv_rmsd Rops q ref (shift_group t g) = cv_rmsd Rops q ref g) /\
  (forall q vec, cv_eigenvector Rops q ref vec (shift_group t g) = cv_eigenvector Rops q ref vec g).
Proof.
  intros ref t g H. split; [apply fit_pairs_shift, H | split; [intros; apply rmsd_translation, H|]].
  intros q vec. unfold cv_eigenvector, fit_positions. rewrite centered_shift by exact H. reflexivity.
Qed.
Print Assumptions C02_translation_invariant_rmsd.
Theorem C02_every_rotation_is_a_quaternion : forall M : M3, proper_rotation M ->
  exists q : Q4, qnorm2 q = 1 /\ rotation_matrix Rops q = M.
Proof. exact rotation_is_quaternion. Qed.
Print Assumptions C02_every_rotation_is_a_quaternion.
Theorem C02_rigid_invariant_rmsd : forall (M : M3) (q q' : Q4) ref t g, proper_rotation M -> g <> [] ->
  is_optimal q (fit_pairs Rops ref g) ->
  is_optimal q' (fit_pairs Rops ref (shift_group t (rot_group M g))) ->
  cv_rmsd Rops q' ref (shift_group t (rot_group M g)) = cv_rmsd Rops q ref g.
Proof. exact rmsd_rigid_M. Qed.
Print Assumptions C02_rigid_invariant_rmsd.
(* fitted variables: positions in the fitted frame (cartesian of a fitted group), eigenvector *)
Theorem C02_rigid_invariant_fitted : forall (M : M3) (q q' : Q4) ref vec t g, proper_rotation M -> g <> [] ->
  unique_optimum (fit_pairs Rops ref g) ->
  is_optimal q (fit_pairs Rops ref g) ->
  is_optimal q' (fit_pairs Rops ref (shift_group t (rot_group M g))) ->
  fit_positions Rops q' ref (shift_group t (rot_group M g)) = fit_positions Rops q ref g /\
  cv_eigenvector Rops q' ref vec (shift_group t (rot_group M g)) = cv_eigenvector Rops q ref vec g.
Proof. exact fitted_rigid_M. Qed.
Print Assumptions C02_rigid_invariant_fitted.

(* rmsd with atomPermutation: without permutations it is the plain rmsd; otherwise it is at most the rmsd against the
   reference and against every listed permuted copy of it (it is the smallest of them) *)
Theorem C02_rmsd_atomPermutation : forall (q : Q4) ref perms g,
  cv_rmsd_perm Rops q ref [] g = cv_rmsd Rops q ref g /\
  cv_rmsd_perm Rops q ref perms g <= cv_rmsd Rops q ref g /\
  (forall perm, In perm perms ->
     cv_rmsd_perm Rops q ref perms g <= sqrt (perm_sum Rops (fit_positions Rops q ref g) ref perm / INR (length g))).
Proof. intros. split; [apply cv_rmsd_perm_nil | apply cv_rmsd_perm_min]. Qed.
Print Assumptions C02_rmsd_atomPermutation.

(* eigenvector with differenceVector / normalizeVector: the prepared vector (eigvec_prepare) has unit norm with
   normalizeVector; without options it is the centred vector; the projection is invariant under rigid motions *)
Theorem C02_eigenvector_options : forall (M : M3) (q q' qd : Q4) (difference : bool) (ref vec v : list V3) t g,
  cv_eigenvector_v Rops q ref (eigvec_prepare Rops false false q ref vec) g = cv_eigenvector Rops q ref vec g /\
  (0 < vnorm2_sum Rops (if difference then map (fun pr => v3sub Rops (rotate Rops qd (fst pr)) (snd pr)) (combine (center_pts Rops vec) (center_pts Rops ref))
                        else center_pts Rops vec) ->
   vnorm2_sum Rops (eigvec_prepare Rops difference true qd ref vec) = 1) /\
  (proper_rotation M -> g <> [] -> unique_optimum (fit_pairs Rops ref g) ->
   is_optimal q (fit_pairs Rops ref g) -> is_optimal q' (fit_pairs Rops ref (shift_group t (rot_group M g))) ->
   cv_eigenvector_v Rops q' ref v (shift_group t (rot_group M g)) = cv_eigenvector_v Rops q ref v g).
Proof.
  intros. split; [apply cv_eigenvector_v_centered | split; [apply eigvec_normalized | apply eigenvector_v_rigid]].
Qed.
Print Assumptions C02_eigenvector_options.

(* a group fitted through a separate fittingGroup (fitg): its coordinates in the fitted frame are unchanged by a rigid
   motion of all atoms; with rotateToReference off, by translations *)
Theorem C02_rigid_invariant_fitting_group : forall (M : M3) (q q' : Q4) ref t fitg g, proper_rotation M -> fitg <> [] ->
  unique_optimum (fit_pairs Rops ref fitg) ->
  is_optimal q (fit_pairs Rops ref fitg) -> is_optimal q' (fit_pairs Rops ref (shift_group t (rot_group M fitg))) ->
  fit_general Rops true q' ref (shift_group t (rot_group M fitg)) (shift_group t (rot_group M g)) = fit_general Rops true q ref fitg g /\
  fit_general Rops false q ref (shift_group t fitg) (shift_group t g) = fit_general Rops false q ref fitg g /\
  fit_general Rops true q ref g g = fit_positions Rops q ref g.
Proof.
  intros. split; [apply (fit_general_rigid M q q'); assumption | split; [apply fit_general_center_shift; assumption | apply fit_general_self]].
Qed.
Print Assumptions C02_rigid_invariant_fitting_group.

(* orientation family: unchanged by translations (same pairs, hence same quaternion and same angles); under a rotation p
   of the atoms the optimal rotation becomes p o q and the least deviation is unchanged *)
Theorem C02_translation_invariant_orientation : forall ref t g, g <> [] ->
  orient_pairs Rops ref (shift_group t g) = orient_pairs Rops ref g.
Proof. exact orient_pairs_shift. Qed.
Print Assumptions C02_translation_invariant_orientation.
Theorem C02_rotation_equivariant_orientation : forall (M : M3) (q q' : Q4) ref t g, proper_rotation M -> g <> [] ->
  is_optimal q (orient_pairs Rops ref g) ->
  is_optimal q' (orient_pairs Rops ref (shift_group t (rot_group M g))) ->
  (exists p : Q4, qnorm2 p = 1 /\ rotation_matrix Rops p = M /\
                  is_optimal (qmul Rops p q) (orient_pairs Rops ref (shift_group t (rot_group M g)))) /\
  sq_dev Rops q' (orient_pairs Rops ref (shift_group t (rot_group M g))) = sq_dev Rops q (orient_pairs Rops ref g) /\
  (unique_optimum (orient_pairs Rops ref (shift_group t (rot_group M g))) ->
   forall v : V3, rotate Rops q' v = mat_vec Rops M (rotate Rops q v)).
Proof. exact orientation_rigid_M. Qed.
Print Assumptions C02_rotation_equivariant_orientation.

(* sign ambiguity of the optimal-rotation quaternion: -q is optimal whenever q is, and every component value is the same *)
Theorem C02_quaternion_sign_components : forall (q refq : Q4) (axis : V3) ref vec g l,
  (is_optimal q l -> is_optimal (qneg Rops q) l) /\
  cv_rmsd Rops (qneg Rops q) ref g = cv_rmsd Rops q ref g /\
  cv_eigenvector Rops (qneg Rops q) ref vec g = cv_eigenvector Rops q ref vec g /\
  fit_positions Rops (qneg Rops q) ref g = fit_positions Rops q ref g /\
  (qdot Rops q refq <> 0 -> cv_orientation Rops refq (qneg Rops q) = cv_orientation Rops refq q) /\
  cv_orientation_angle Rops PI (qneg Rops q) = cv_orientation_angle Rops PI q /\
  cv_orientation_proj Rops (qneg Rops q) = cv_orientation_proj Rops q /\
  cv_tilt Rops PI axis (qneg Rops q) = cv_tilt Rops PI axis q /\
  cv_spin_angle Rops PI axis (qneg Rops q) = cv_spin_angle Rops PI axis q /\
  cv_euler_phi Rops PI (qneg Rops q) = cv_euler_phi Rops PI q /\ cv_euler_psi Rops PI (qneg Rops q) = cv_euler_psi Rops PI q /\
  cv_euler_theta Rops PI (qneg Rops q) = cv_euler_theta Rops PI q.
Proof.
  intros. split; [apply is_optimal_qneg|]. split; [apply cv_rmsd_qneg|]. split; [apply cv_eigenvector_qneg|].
  split; [apply fit_positions_qneg|]. split; [apply cv_orientation_qneg|]. split; [apply cv_orientation_angle_qneg|].
  split; [apply cv_orientation_proj_qneg|]. split; [apply cv_tilt_qneg|]. split; [apply cv_spin_angle_qneg|]. apply cv_euler_qneg.
Qed.
Print Assumptions C02_quaternion_sign_components.

(* components that are not invariant by definition: what they do satisfy *)
Theorem C02_rotation_invariant_polarTheta : forall (M : M3) g, orthogonal M -> about_z M ->
  cv_polar_theta Rops PI (rot_group M g) = cv_polar_theta Rops PI g.
Proof. exact polar_theta_rot_z. Qed.
Print Assumptions C02_rotation_invariant_polarTheta.
Theorem C02_equivariant_cartesian : forall (M : M3) t g,
  cv_cartesian true true true g = flat3 (map a_pos g) /\
  cv_cartesian true true true (shift_group t (rot_group M g)) = flat3 (map (fun a => v3add Rops (mat_vec Rops M (a_pos a)) t) g).
Proof. intros. split; [apply cartesian_all | apply cartesian_moves]. Qed.
Print Assumptions C02_equivariant_cartesian.
Theorem C02_invariant_distancePairs : forall pbc cell t (M : M3) g1 g2,
  cv_distance_pairs Rops pbc cell (shift_group t g1) (shift_group t g2) = cv_distance_pairs Rops pbc cell g1 g2 /\
  (proper_rotation M -> cv_distance_pairs Rops pbc None (rot_group M g1) (rot_group M g2) = cv_distance_pairs Rops pbc None g1 g2) /\
  (forall lx ly lz n m, 0 < lx -> 0 < ly -> 0 < lz ->
     cv_distance_pairs Rops true (Some (lx, ly, lz)) (lshift lx ly lz n g1) (lshift lx ly lz m g2) =
     cv_distance_pairs Rops true (Some (lx, ly, lz)) g1 g2).
Proof.
  intros. split; [apply distance_pairs_shift | split; [apply distance_pairs_rot | intros; apply distance_pairs_lattice; assumption]].
Qed.
Print Assumptions C02_invariant_distancePairs.

(* coordNum with a pair list (tolerance > 0): the pair list built at the current positions reproduces the full sum
   exactly (the pairs it drops are clamped to zero anyway); a stale pair list can only lose contributions *)
Theorem C02_coordNum_pairlist : forall r0 r0v en ed tol cell g1 g2,
  (0 <= tol -> cv_coordnum_pl Rops (pairlist_build Rops r0 r0v en ed tol cell g1 g2) r0 r0v en ed tol cell g1 g2 =
               cv_coordnum Rops r0 r0v en ed tol cell g1 g2) /\
  (forall pl, length pl = length (all_pairs g1 g2) ->
     cv_coordnum_pl Rops pl r0 r0v en ed tol cell g1 g2 <= cv_coordnum Rops r0 r0v en ed tol cell g1 g2).
Proof. intros. split; [apply coordnum_pairlist_exact | intros; apply coordnum_pairlist_le; assumption]. Qed.
Print Assumptions C02_coordNum_pairlist.

(* the pair lists of selfCoordNum (pairs i < j) and of coordNum with group2CenterOnly (atom, centre of group2): built
   at the current positions they reproduce the full value exactly *)
Theorem C02_pairlist_selfCoordNum_center : forall r0 r0v en ed tol cell g g1 g2, 0 <= tol ->
  pl_value_pts Rops (pl_build_pts Rops r0 None en ed tol cell (self_pts g)) r0 None en ed tol cell (self_pts g) =
  cv_selfcoordnum Rops r0 en ed tol cell g /\
  pl_value_pts Rops (pl_build_pts Rops r0 r0v en ed tol cell (center_pairs Rops g1 g2)) r0 r0v en ed tol cell (center_pairs Rops g1 g2) =
  cv_coordnum_center Rops r0 r0v en ed tol cell g1 g2.
Proof. intros. split; [apply selfcoordnum_pairlist_exact | apply coordnum_center_pairlist_exact]; assumption. Qed.
Print Assumptions C02_pairlist_selfCoordNum_center.

(* the pair list as state over steps and run boundaries (pl_step: rebuilt when the RELATIVE step is a multiple of
   pairListFrequency, used as it is otherwise; pl_session: every run starts at relative step 0 with whatever list the
   previous run left, also garbage).  (1) at every rebuild step, in particular at the first step of every run, the value
   is the full sum for the CURRENT coordinates whatever the list held; (2) at every step it is at most the full sum (only
   pairs beyond the margin at the last rebuild can be missing); (3) while the atoms do not move it stays the full sum *)
Theorem C02_coordNum_pairlist_runs : forall freq r0 r0v en ed tol cell,
  (forall st rel (frames : list (list atomR * list atomR)) k fr, nth_error frames k = Some fr -> ((rel + Z.of_nat k) mod freq = 0)%Z ->
     nth_error (fst (pl_run Rops freq r0 r0v en ed tol cell st rel frames)) k =
     Some (cv_coordnum Rops r0 r0v en ed tol cell (fst fr) (snd fr))) /\
  (forall st (runs : list (list (list atomR * list atomR))) j rn fr, nth_error runs j = Some rn -> nth_error rn 0 = Some fr ->
     exists vs, nth_error (pl_session Rops freq r0 r0v en ed tol cell st runs) j = Some vs /\
                nth_error vs 0 = Some (cv_coordnum Rops r0 r0v en ed tol cell (fst fr) (snd fr))) /\
  (forall npairs st rel (frames : list (list atomR * list atomR)), length st = npairs ->
     Forall (fun fr => length (all_pairs (fst fr) (snd fr)) = npairs) frames ->
     Forall2 (fun v fr => v <= cv_coordnum Rops r0 r0v en ed tol cell (fst fr) (snd fr))
             (fst (pl_run Rops freq r0 r0v en ed tol cell st rel frames)) frames) /\
  (forall fr st rel n, 0 <= tol -> (st = pairlist_build Rops r0 r0v en ed tol cell (fst fr) (snd fr) \/ (rel mod freq = 0)%Z) ->
     fst (pl_run Rops freq r0 r0v en ed tol cell st rel (repeat fr n)) =
     repeat (cv_coordnum Rops r0 r0v en ed tol cell (fst fr) (snd fr)) n).
Proof.
  intros. split; [apply pl_run_rebuild | split; [apply pl_session_first | split; [apply pl_run_le | apply pl_run_static]]].
Qed.
Print Assumptions C02_coordNum_pairlist_runs.

(* the same for the pair lists of selfCoordNum and group2CenterOnly: at every rebuild step, in particular the first step
   of every run of a session, the value is the full value for the current coordinates whatever the list held *)
Theorem C02_pairlist_runs_selfCoordNum_center : forall freq r0 r0v en ed tol cell,
  (forall st rel (frames : list (list (V3 * V3))) k fr, nth_error frames k = Some fr -> ((rel + Z.of_nat k) mod freq = 0)%Z ->
     nth_error (fst (pl_run_pts Rops freq r0 r0v en ed tol cell st rel frames)) k = Some (pts_full Rops r0 r0v en ed tol cell fr)) /\
  (forall st (runs : list (list (list (V3 * V3)))) j rn fr, nth_error runs j = Some rn -> nth_error rn 0 = Some fr ->
     exists vs, nth_error (pl_session_pts Rops freq r0 r0v en ed tol cell st runs) j = Some vs /\
                nth_error vs 0 = Some (pts_full Rops r0 r0v en ed tol cell fr)) /\
  (forall g, pts_full Rops r0 None en ed tol cell (self_pts g) = cv_selfcoordnum Rops r0 en ed tol cell g) /\
  (forall g1 g2, pts_full Rops r0 r0v en ed tol cell (center_pairs Rops g1 g2) = cv_coordnum_center Rops r0 r0v en ed tol cell g1 g2).
Proof.
  intros. split; [apply pl_run_pts_rebuild | split; [apply pl_session_pts_first | split; [intros; apply pts_full_self | intros; apply pts_full_center]]].
Qed.
Print Assumptions C02_pairlist_runs_selfCoordNum_center.

(* non-vacuity: a unit quaternion; an optimal quaternion exists for the one-pair list of C02_example_decomposition;
   a rotation about z *)
Example C02_example_fit : qnorm2 (0, 0, 0, 1) = 1 /\ is_optimal (1, 0, 0, 0) [((1, 0, 0), (1, 0, 0))] /\
  (orthogonal ((0, -1, 0), (1, 0, 0), (0, 0, 1)) /\ about_z ((0, -1, 0), (1, 0, 0), (0, 0, 1))).
Proof.
  split; [unfold qnorm2, qdot; cbn; lra|]. split.
  - split; [unfold qnorm2, qdot; cbn; lra|]. intros [[[a b] c] d] Hq. rewrite !sq_dev_quadratic.
    unfold qnorm2, qdot in Hq. cbn in Hq.
    unfold qnorm2, qdot, sq_norms, lsum, lsum_from, quad_form, mat4_vec, overlap_matrix, corr_matrix, corr_add, vzero, v3norm2, v3dot.
    cbn. nra.
  - split; [unfold orthogonal, mmul, mtrans, midentity, v3dot; cbn; tuple_eq; lra | reflexivity].
Qed.
