(* C02: variable values equal their mathematical definition and respect its symmetries.
   Statements only (proofs in ValueProofs.v); all over the real-number instance Rops of C02.ValueModel,
   for ALL coordinates, masses, charges, group sizes, rotations, translations, lattice vectors, permutations.
   shift_group t g / rot_group M g: every atom of g moved by the translation t / the matrix M;
   proper_rotation M: M^T M = I and det M = 1;  lshift (n1,n2,n3) g: g moved by n1 a + n2 b + n3 c. *)
From Coq Require Import ZArith List Bool Reals Lra Lia Permutation.
From CV Require Import Base.Num Base.RNum C18.ValueModel C02.ValueModel C02.ValueProofs.
Import ListNotations.
Local Open Scope R_scope.

(* C02 is stated in three files compiled in parallel by the check: Properties_C02.v (definitions, translations),
   Properties_C02_rot.v (proper rotations), Properties_C02_sym.v (permutation, duplicates, minimum image, lattice,
   quaternion sign, optimal rotation). *)
(* ================= reordering and duplicate listing of the atoms of a group ================= *)
Theorem C02_permutation_invariant : forall g g' : list atomR, Permutation g g' ->
  total_mass Rops g = total_mass Rops g' /\ total_charge Rops g = total_charge Rops g' /\
  com Rops g = com Rops g' /\ cog Rops g = cog Rops g' /\
  cv_gyration Rops g = cv_gyration Rops g' /\ cv_inertia Rops g = cv_inertia Rops g' /\
  (forall ax, cv_inertia_z Rops ax g = cv_inertia_z Rops ax g') /\
  (forall c, dipole Rops g c = dipole Rops g' c) /\
  (forall r0 r0v en ed tol cell h h', Permutation h h' ->
     cv_coordnum Rops r0 r0v en ed tol cell g h = cv_coordnum Rops r0 r0v en ed tol cell g' h') /\
  (forall pbc cell n h h', Permutation h h' ->
     cv_distance_inv Rops pbc cell n g h = cv_distance_inv Rops pbc cell n g' h') /\
  (forall r0 en ed tol cell, cell_ok cell ->
     cv_selfcoordnum Rops r0 en ed tol cell g = cv_selfcoordnum Rops r0 en ed tol cell g').
Proof.
  intros g g' H. repeat split.
  - apply total_mass_perm, H.  - apply total_charge_perm, H.  - apply com_perm, H.  - apply cog_perm, H.
  - apply gyration_perm, H.  - apply inertia_perm, H.  - intros; apply inertia_z_perm, H.
  - intros; apply dipole_perm, H.  - intros; apply coordnum_perm; assumption.
  - intros; apply distance_inv_perm; assumption.  - intros; apply selfcoordnum_perm; assumption.
Qed.
Print Assumptions C02_permutation_invariant.
(* add_atom: an atom listed again after its first occurrence is ignored; the group never holds an id twice;
   a listing without repetitions is taken as it is (any carrier, so also the float instance of the tie) *)
Theorem C02_duplicates_ignored : forall (T : Type) (l1 l2 : list (@atom T)) (a : @atom T),
  In (a_id a) (map a_id l1) ->
  mk_group (l1 ++ a :: l2) = mk_group (l1 ++ l2) /\ NoDup (map a_id (mk_group (l1 ++ a :: l2))).
Proof. intros T l1 l2 a H. split; [apply mk_group_duplicate, H | apply mk_group_nodup]. Qed.
Print Assumptions C02_duplicates_ignored.
Theorem C02_listing_without_duplicates_kept : forall (T : Type) (l : list (@atom T)),
  NoDup (map a_id l) -> (forall a, In a l -> (0 <= a_id a)%Z) -> mk_group l = l.
Proof. intros T. exact mk_group_id. Qed.
Print Assumptions C02_listing_without_duplicates_kept.

(* ================= minimum image ================= *)
Theorem C02_min_image : forall (L d : R) (n : Z), 0 < L ->
  min_image1 Rops L (d + IZR n * L) = min_image1 Rops L d /\ Rabs (min_image1 Rops L d) <= L / 2 /\
  (exists k : Z, min_image1 Rops L d = d - IZR k * L) /\ (min_image1 Rops L d) ^ 2 <= (d - IZR n * L) ^ 2.
Proof.
  intros L d n HL. split; [apply min_image1_period, HL | split; [apply min_image1_abs, HL | split;
    [apply min_image1_congruent | apply min_image1_shortest, HL]]].
Qed.
Print Assumptions C02_min_image.
Theorem C02_min_image_vector : forall lx ly lz (p1 p2 : V3) n1 n2 n3 m1 m2 m3, 0 < lx -> 0 < ly -> 0 < lz ->
  position_distance Rops (Some (lx, ly, lz)) (v3add Rops p1 (lattice (lx, ly, lz) n1 n2 n3))
                    (v3add Rops p2 (lattice (lx, ly, lz) m1 m2 m3)) = position_distance Rops (Some (lx, ly, lz)) p1 p2 /\
  (let '(x, y, z) := position_distance Rops (Some (lx, ly, lz)) p1 p2 in
   Rabs x <= lx / 2 /\ Rabs y <= ly / 2 /\ Rabs z <= lz / 2).
Proof. intros. split; [apply pd_lattice | apply pd_range]; assumption. Qed.
Print Assumptions C02_min_image_vector.
(* whole groups translated by (independent) lattice vectors *)
Theorem C02_lattice_invariant_distance : forall lx ly lz, 0 < lx -> 0 < ly -> 0 < lz -> forall n m g1 g2,
  total_mass Rops g1 <> 0 -> total_mass Rops g2 <> 0 ->
  cv_distance Rops true (Some (lx, ly, lz)) (lshift lx ly lz n g1) (lshift lx ly lz m g2) = cv_distance Rops true (Some (lx, ly, lz)) g1 g2 /\
  cv_distance_vec Rops true (Some (lx, ly, lz)) (lshift lx ly lz n g1) (lshift lx ly lz m g2) = cv_distance_vec Rops true (Some (lx, ly, lz)) g1 g2 /\
  cv_distance_dir Rops true (Some (lx, ly, lz)) (lshift lx ly lz n g1) (lshift lx ly lz m g2) = cv_distance_dir Rops true (Some (lx, ly, lz)) g1 g2.
Proof.
  intros lx ly lz Hx Hy Hz n m g1 g2 H1 H2.
  split; [apply lat_distance | split; [apply lat_distance_vec | apply lat_distance_dir]]; assumption.
Qed.
Print Assumptions C02_lattice_invariant_distance.
(* distanceZ / distanceXY: also the reference groups may sit in any periodic image (for the two-group axis this was
   refuted by the code before the fix of distance_z::calc_value, see known_findings.txt) *)
Theorem C02_lattice_invariant_distanceZ : forall lx ly lz, 0 < lx -> 0 < ly -> 0 < lz -> forall axis n m k main ref ref2,
  total_mass Rops main <> 0 -> total_mass Rops ref <> 0 ->
  (cv_distance_z_fixed Rops true (Some (lx, ly, lz)) axis (lshift lx ly lz n main) (lshift lx ly lz m ref) =
   cv_distance_z_fixed Rops true (Some (lx, ly, lz)) axis main ref /\
   cv_distance_xy_fixed Rops true (Some (lx, ly, lz)) axis (lshift lx ly lz n main) (lshift lx ly lz m ref) =
   cv_distance_xy_fixed Rops true (Some (lx, ly, lz)) axis main ref) /\
  (total_mass Rops ref2 <> 0 ->
   cv_distance_z_ref2 Rops true (Some (lx, ly, lz)) (lshift lx ly lz n main) (lshift lx ly lz m ref) (lshift lx ly lz k ref2) =
   cv_distance_z_ref2 Rops true (Some (lx, ly, lz)) main ref ref2 /\
   cv_distance_xy_ref2 Rops true (Some (lx, ly, lz)) (lshift lx ly lz n main) (lshift lx ly lz m ref) (lshift lx ly lz k ref2) =
   cv_distance_xy_ref2 Rops true (Some (lx, ly, lz)) main ref ref2).
Proof.
  intros lx ly lz Hx Hy Hz axis n m k main ref ref2 H1 H2.
  split; [apply lat_distance_z_fixed | intros H3; apply lat_distance_z_ref2]; assumption.
Qed.
Print Assumptions C02_lattice_invariant_distanceZ.
Theorem C02_lattice_invariant_angle : forall lx ly lz, 0 < lx -> 0 < ly -> 0 < lz -> forall n1 n2 n3 g1 g2 g3,
  total_mass Rops g1 <> 0 -> total_mass Rops g2 <> 0 -> total_mass Rops g3 <> 0 ->
  cv_angle Rops PI true (Some (lx, ly, lz)) (lshift lx ly lz n1 g1) (lshift lx ly lz n2 g2) (lshift lx ly lz n3 g3) =
  cv_angle Rops PI true (Some (lx, ly, lz)) g1 g2 g3.
Proof. exact lat_angle. Qed.
Print Assumptions C02_lattice_invariant_angle.
Theorem C02_lattice_invariant_dihedral : forall lx ly lz, 0 < lx -> 0 < ly -> 0 < lz -> forall n1 n2 n3 n4 g1 g2 g3 g4,
  total_mass Rops g1 <> 0 -> total_mass Rops g2 <> 0 -> total_mass Rops g3 <> 0 -> total_mass Rops g4 <> 0 ->
  cv_dihedral Rops PI true (Some (lx, ly, lz)) (lshift lx ly lz n1 g1) (lshift lx ly lz n2 g2) (lshift lx ly lz n3 g3) (lshift lx ly lz n4 g4) =
  cv_dihedral Rops PI true (Some (lx, ly, lz)) g1 g2 g3 g4.
Proof. exact lat_dihedral. Qed.
Print Assumptions C02_lattice_invariant_dihedral.
Theorem C02_lattice_invariant_coordNum : forall lx ly lz, 0 < lx -> 0 < ly -> 0 < lz -> forall r0 r0v en ed tol k n m g1 g2,
  cv_coordnum Rops r0 r0v en ed tol (Some (lx, ly, lz)) (lshift lx ly lz n g1) (lshift lx ly lz m g2) =
  cv_coordnum Rops r0 r0v en ed tol (Some (lx, ly, lz)) g1 g2 /\
  cv_distance_inv Rops true (Some (lx, ly, lz)) k (lshift lx ly lz n g1) (lshift lx ly lz m g2) =
  cv_distance_inv Rops true (Some (lx, ly, lz)) k g1 g2.
Proof. intros lx ly lz Hx Hy Hz r0 r0v en ed tol k n m g1 g2. split; [apply lat_coordnum | apply lat_distance_inv]; assumption. Qed.
Print Assumptions C02_lattice_invariant_coordNum.

(* ================= quaternion sign and the optimal rotation ================= *)
Theorem C02_quaternion_sign : forall (q : Q4) (v : V3),
  rotation_matrix Rops (qneg Rops q) = rotation_matrix Rops q /\ rotate Rops (qneg Rops q) v = rotate Rops q v.
Proof. intros q v. split; [apply rotation_matrix_neg | apply rotate_neg]. Qed.
Print Assumptions C02_quaternion_sign.
Theorem C02_unit_quaternion_is_rotation : forall q : Q4, qnorm2 q = 1 -> proper_rotation (rotation_matrix Rops q).
Proof. exact rotation_matrix_proper. Qed.
Print Assumptions C02_unit_quaternion_is_rotation.
(* (i) with S built as in rotation::build_correlation_matrix / compute_overlap_matrix from the pairs (x_i, y_i):
   sum_i |R(q) x_i - y_i|^2 = |q|^4 sum |x_i|^2 + sum |y_i|^2 - 2 q^T S q   for every quaternion q *)
Theorem C02_rotation_optimal_quadratic_form : forall (q : Q4) (l : list (V3 * V3)),
  sq_dev Rops q l = qnorm2 q * qnorm2 q * fst (sq_norms Rops l) + snd (sq_norms Rops l)
                    - 2 * quad_form Rops (overlap_matrix Rops (corr_matrix Rops l)) q.
Proof. exact sq_dev_quadratic. Qed.
Print Assumptions C02_rotation_optimal_quadratic_form.
(* (ii) if (e_k, v_k) is an orthonormal eigen-decomposition of S with e0 the largest eigenvalue (this is what the Jacobi
   routine is ASSUMED to deliver; the check verifies it numerically on every case), then v0 gives the least deviation
   among all unit quaternions, i.e. among all rotations *)
Theorem C02_rotation_optimal : forall (l : list (V3 * V3)) (v0 v1 v2 v3 : Q4) (e0 e1 e2 e3 : R),
  overlap_matrix Rops (corr_matrix Rops l) =
    madd4 (madd4 (mscale4 e0 (outer4 v0)) (mscale4 e1 (outer4 v1))) (madd4 (mscale4 e2 (outer4 v2)) (mscale4 e3 (outer4 v3))) ->
  madd4 (madd4 (outer4 v0) (outer4 v1)) (madd4 (outer4 v2) (outer4 v3)) = identity4 ->
  qnorm2 v0 = 1 -> qdot Rops v1 v0 = 0 /\ qdot Rops v2 v0 = 0 /\ qdot Rops v3 v0 = 0 ->
  e1 <= e0 /\ e2 <= e0 /\ e3 <= e0 ->
  forall q : Q4, qnorm2 q = 1 -> sq_dev Rops v0 l <= sq_dev Rops q l.
Proof. exact optimal_rotation_minimises. Qed.
Print Assumptions C02_rotation_optimal.

(* ================= non-vacuity of the premises ================= *)
(* one pair x = y = (1,0,0): C = diag(1,0,0), S = diag(1,1,-1,-1), eigenvectors = the standard basis *)
Example C02_example_decomposition :
  let l := [((1, 0, 0), (1, 0, 0))] : list (V3 * V3) in
  overlap_matrix Rops (corr_matrix Rops l) =
    madd4 (madd4 (mscale4 1 (outer4 (1, 0, 0, 0))) (mscale4 1 (outer4 (0, 1, 0, 0))))
          (madd4 (mscale4 (-1) (outer4 (0, 0, 1, 0))) (mscale4 (-1) (outer4 (0, 0, 0, 1)))) /\
  madd4 (madd4 (outer4 (1, 0, 0, 0)) (outer4 (0, 1, 0, 0))) (madd4 (outer4 (0, 0, 1, 0)) (outer4 (0, 0, 0, 1))) = identity4.
Proof.
  cbv zeta. split.
  - unfold overlap_matrix, corr_matrix, corr_add, vzero, madd4, mscale4, outer4, qscale, qadd. cbn. tuple_eq; lra.
  - unfold madd4, outer4, qscale, qadd, identity4. tuple_eq; lra.
Qed.
