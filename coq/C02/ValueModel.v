(* C02 model: the documented value functions of the collective-variable components, written as
   an independent executable definition over NumOps (definitions only, extracted):
   atom groups (atom_group::add_atom de-duplication, total mass/charge, centre of mass/geometry,
   dipole: src/colvaratoms.cpp), minimum-image displacement of an orthorhombic cell
   (colvarproxy_system::position_distance, taken from C18.ValueModel), the calc_value() of
   distance, distanceVec, distanceDir, distanceZ, distanceXY, distanceInv, dipoleMagnitude, gyration,
   inertia, inertiaZ, cartesian (src/colvarcomp_distances.cpp), angle, dipoleAngle, dihedral,
   polarTheta, polarPhi (src/colvarcomp_angles.cpp), coordNum, selfCoordNum, groupCoord, hBond
   (src/colvarcomp_coordnums.cpp), the polynomial combination of components
   (colvar::collect_cvc_values), quaternion -> rotation matrix, correlation and overlap matrices
   (src/colvartypes.h/.cpp). *)
From Coq Require Import ZArith List Bool.
From CV Require Import Base.Num C18.ValueModel.
Import ListNotations.

Section C02Model.
  Context {T : Type} (O : NumOps T).
  Local Notation "a + b" := (nadd O a b).
  Local Notation "a - b" := (nsub O a b).
  Local Notation "a * b" := (nmul O a b).
  Local Notation "a / b" := (ndiv O a b).
  Local Notation V3 := (@vec3 T).
  Local Notation Q4 := (@quat T).
  Let zero : T := n0 O.
  Let one : T := n1 O.
  Let two : T := nofZ O 2.

  (* ---------------------------------------------------------------- vectors *)
  Definition vzero : V3 := (zero, zero, zero).
  Definition v3div (v : V3) (s : T) : V3 := let '(x, y, z) := v in (x / s, y / s, z / s).
  (* rvector::outer is the cross product *)
  Definition v3cross (a b : V3) : V3 :=
    let '(ax, ay, az) := a in let '(bx, by_, bz) := b in
    (ay * bz - by_ * az, nneg O ax * bz + bx * az, ax * by_ - bx * ay).
  Definition v3norm (v : V3) : T := nsqrt O (v3norm2 O v).
  (* rvector::unit(): (1,0,0) for the null vector *)
  Definition v3unit (v : V3) : V3 :=
    let n := v3norm v in if nltb O zero n then v3div v n else (one, zero, zero).
  Definition nofnat (n : nat) : T := nofZ O (Z.of_nat n).

  (* sums accumulate from the left, starting from zero, as the C++ loops do *)
  Definition lsum_from {A : Type} (acc : T) (f : A -> T) (l : list A) : T :=
    fold_left (fun s a => s + f a) l acc.
  Definition lsum {A : Type} (f : A -> T) (l : list A) : T := lsum_from zero f l.
  Definition vsum {A : Type} (f : A -> V3) (l : list A) : V3 :=
    fold_left (fun s a => v3add O s (f a)) l vzero.
  (* one accumulator through both loops of a double loop over pairs *)
  Definition pair_sum {A B : Type} (f : A -> B -> T) (l1 : list A) (l2 : list B) : T :=
    fold_left (fun s a => lsum_from s (f a) l2) l1 zero.
  (* i < j pairs of one list *)
  Fixpoint self_sum_from {A : Type} (acc : T) (f : A -> A -> T) (l : list A) : T :=
    match l with
    | [] => acc
    | a :: r => self_sum_from (lsum_from acc (f a) r) f r
    end.

  (* cvm::integer_power: binary powering; 0^0 = 1 (as repaired), 0^n = 0 otherwise, negative n = reciprocal *)
  Fixpoint ipow_pos (x : T) (p : positive) : T :=
    match p with
    | xH => x
    | xO q => ipow_pos (x * x) q
    | xI q => x * ipow_pos (x * x) q
    end.
  Definition ipow (x : T) (n : Z) : T :=
    if neqb O x zero then (if Z.eqb n 0 then one else zero)
    else match n with
         | Z0 => one
         | Zpos p => ipow_pos x p
         | Zneg p => one / ipow_pos x p
         end.

  (* ---------------------------------------------------------------- atoms and groups *)
  Record atom : Type := mkAtom { a_id : Z; a_mass : T; a_charge : T; a_pos : V3 }.

  Definition has_id (g : list atom) (i : Z) : bool := existsb (fun b => Z.eqb (a_id b) i) g.
  (* atom_group::add_atom: an atom whose id is already listed is discarded *)
  Definition add_atom (g : list atom) (a : atom) : list atom :=
    if Z.ltb (a_id a) 0 then g else if has_id g (a_id a) then g else g ++ [a].
  (* the group built from a listing (atomNumbers ...), in listing order *)
  Definition mk_group (l : list atom) : list atom := fold_left add_atom l [].

  Definition total_mass (g : list atom) : T := lsum a_mass g.
  Definition total_charge (g : list atom) : T := lsum a_charge g.
  Definition com (g : list atom) : V3 :=
    v3div (vsum (fun a => v3scale O (a_mass a) (a_pos a)) g) (total_mass g).
  Definition cog (g : list atom) : V3 := v3div (vsum a_pos g) (nofnat (length g)).
  (* atom_group::calc_dipole *)
  Definition dipole (g : list atom) (c : V3) : V3 :=
    vsum (fun a => v3scale O (a_charge a) (v3sub O (a_pos a) c)) g.
  (* positions after centerToReference with reference (0,0,0) (gyration, inertia) *)
  Definition centered (g : list atom) : list V3 :=
    let c := cog g in map (fun a => v3sub O (a_pos a) c) g.

  (* displacement p2 - p1, minimum image when the component uses it and a cell is defined *)
  Definition pdist (pbc : bool) (cell : option V3) (p1 p2 : V3) : V3 :=
    if pbc then position_distance O cell p1 p2 else v3sub O p2 p1.

  (* ---------------------------------------------------------------- distances *)
  Definition cv_distance_vec (pbc : bool) (cell : option V3) (g1 g2 : list atom) : V3 :=
    pdist pbc cell (com g1) (com g2).
  Definition cv_distance (pbc : bool) (cell : option V3) (g1 g2 : list atom) : T :=
    v3norm (cv_distance_vec pbc cell g1 g2).
  Definition cv_distance_dir (pbc : bool) (cell : option V3) (g1 g2 : list atom) : V3 :=
    v3unit (cv_distance_vec pbc cell g1 g2).

  (* the axis keyword is normalised unless its square norm is exactly 1 *)
  Definition norm_axis (a : V3) : V3 := if neqb O (v3norm2 O a) one then a else v3unit a.
  Definition cv_distance_z_fixed (pbc : bool) (cell : option V3) (axis : V3) (main ref : list atom) : T :=
    v3dot O (norm_axis axis) (pdist pbc cell (com ref) (com main)).
  (* axis through the centres of ref and ref2; the displacement is measured from their midpoint, which with
     minimum-image distances is ref + (minimum-image vector ref -> ref2)/2 (repaired by a fix: commit: the plain
     average of the two centres jumped by half a cell when one group sat in another periodic image) *)
  Definition cv_distance_z_ref2 (pbc : bool) (cell : option V3) (main ref ref2 : list atom) : T :=
    let c1 := com ref in let c2 := com ref2 in
    let a := pdist pbc cell c1 c2 in
    let mid := if pbc then v3add O c1 (v3scale O (nhalf O) a) else v3scale O (nhalf O) (v3add O c1 c2) in
    v3dot O (v3unit a) (pdist pbc cell mid (com main)).
  Definition ortho_norm (axis d : V3) : T := v3norm (v3sub O d (v3scale O (v3dot O d axis) axis)).
  Definition cv_distance_xy_fixed (pbc : bool) (cell : option V3) (axis : V3) (main ref : list atom) : T :=
    ortho_norm (norm_axis axis) (pdist pbc cell (com ref) (com main)).
  Definition cv_distance_xy_ref2 (pbc : bool) (cell : option V3) (main ref ref2 : list atom) : T :=
    let c1 := com ref in
    ortho_norm (v3unit (pdist pbc cell c1 (com ref2))) (pdist pbc cell c1 (com main)).

  (* distanceInv: ( 1/(N1 N2) sum_ij d_ij^-n )^(-1/n), n even *)
  Definition cv_distance_inv (pbc : bool) (cell : option V3) (n : Z) (g1 g2 : list atom) : T :=
    let s := pair_sum (fun a1 a2 => ipow (v3norm2 O (pdist pbc cell (a_pos a1) (a_pos a2)))
                                         (Z.opp (Z.quot n 2))) g1 g2 in
    let m := s * (one / nofnat (length g1 * length g2)) in
    npow O m (nneg O one / nofZ O n).

  Definition cv_dipole_magnitude (g : list atom) : T := v3norm (dipole g (com g)).

  Definition cv_inertia (g : list atom) : T := lsum (v3norm2 O) (centered g).
  Definition cv_gyration (g : list atom) : T := nsqrt O (cv_inertia g / nofnat (length g)).
  Definition cv_inertia_z (axis : V3) (g : list atom) : T :=
    let ax := norm_axis axis in lsum (fun p => let d := v3dot O p ax in d * d) (centered g).

  Definition cv_cartesian (ux uy uz : bool) (g : list atom) : list T :=
    flat_map (fun a => let '(x, y, z) := a_pos a in
                       (if ux then [x] else []) ++ (if uy then [y] else []) ++ (if uz then [z] else [])) g.

  (* ---------------------------------------------------------------- angles (degrees) *)
  Variable pi : T.
  Definition deg (x : T) : T := (nofZ O 180 / pi) * x.
  (* the cosine is clamped to [-1,1] before acos (collinear vectors; repaired by a fix: commit, see known_findings.txt) *)
  Definition angle_of (r21 r23 : V3) : T :=
    deg (nacos O (clamp1 O (v3dot O r21 r23 / (v3norm r21 * v3norm r23)))).
  Definition cv_angle (pbc : bool) (cell : option V3) (g1 g2 g3 : list atom) : T :=
    let c2 := com g2 in angle_of (pdist pbc cell c2 (com g1)) (pdist pbc cell c2 (com g3)).
  Definition cv_dipole_angle (pbc : bool) (cell : option V3) (g1 g2 g3 : list atom) : T :=
    angle_of (dipole g1 (com g1)) (pdist pbc cell (com g2) (com g3)).

  Definition dihedral_of (r12 r23 r34 : V3) : T :=
    let n1 := v3cross r12 r23 in
    let n2 := v3cross r23 r34 in
    let cos_phi := v3dot O n1 n2 in
    let sin_phi := v3dot O n1 r34 * v3norm r23 in
    cvc_wrap O zero (nofZ O 360) (deg (natan2 O sin_phi cos_phi)).
  Definition cv_dihedral (pbc : bool) (cell : option V3) (g1 g2 g3 g4 : list atom) : T :=
    let c1 := com g1 in let c2 := com g2 in let c3 := com g3 in let c4 := com g4 in
    dihedral_of (pdist pbc cell c1 c2) (pdist pbc cell c2 c3) (pdist pbc cell c3 c4).

  Definition cv_polar_theta (g : list atom) : T :=
    let p := com g in let r := v3norm p in
    let '(x, y, z) := p in deg (if nltb O zero r then nacos O (z / r) else zero).
  Definition cv_polar_phi (g : list atom) : T :=
    let '(x, y, z) := com g in deg (natan2 O y x).

  (* ---------------------------------------------------------------- contacts *)
  (* coordnum::switching_function: always the minimum-image displacement; r0v = Some for cutoff3 *)
  Definition switching (r0 : T) (r0v : option V3) (en ed : Z) (tol : T) (cell : option V3) (p1 p2 : V3) : T :=
    let '(dx, dy, dz) := position_distance O cell p1 p2 in
    let sd := match r0v with
              | Some (a, b, c) => (dx / a, dy / b, dz / c)
              | None => (dx / r0, dy / r0, dz / r0)
              end in
    let l2 := v3norm2 O sd in
    let xn := ipow l2 (Z.quot en 2) in
    let xd := ipow l2 (Z.quot ed 2) in
    let func := ((one - xn) / (one - xd) - tol) / (one - tol) in
    if nltb O func zero then zero else func.
  Definition cv_coordnum (r0 : T) (r0v : option V3) (en ed : Z) (tol : T) (cell : option V3) (g1 g2 : list atom) : T :=
    pair_sum (fun a1 a2 => switching r0 r0v en ed tol cell (a_pos a1) (a_pos a2)) g1 g2.
  (* group2CenterOnly *)
  Definition cv_coordnum_center (r0 : T) (r0v : option V3) (en ed : Z) (tol : T) (cell : option V3) (g1 g2 : list atom) : T :=
    let c2 := com g2 in lsum (fun a1 => switching r0 r0v en ed tol cell (a_pos a1) c2) g1.
  Definition cv_selfcoordnum (r0 : T) (en ed : Z) (tol : T) (cell : option V3) (g : list atom) : T :=
    self_sum_from zero (fun a1 a2 => switching r0 None en ed tol cell (a_pos a1) (a_pos a2)) g.
  Definition cv_groupcoord (r0 : T) (r0v : option V3) (en ed : Z) (cell : option V3) (g1 g2 : list atom) : T :=
    switching r0 r0v en ed zero cell (com g1) (com g2).
  Definition cv_hbond (r0 : T) (en ed : Z) (cell : option V3) (acc don : atom) : T :=
    switching r0 None en ed zero cell (a_pos acc) (a_pos don).

  (* ---------------------------------------------------------------- variable = sum_i c_i q_i^n_i *)
  Definition cv_combine (l : list (T * Z * T)) : T :=
    fold_left (fun s t => let '(c, n, q) := t in s + c * (if Z.eqb n 1 then q else ipow q n)) l zero.

  (* ---------------------------------------------------------------- rotations *)
  Definition mat3 : Type := (V3 * V3 * V3)%type.     (* rows *)
  Definition mat_vec (M : mat3) (v : V3) : V3 :=
    let '(r1, r2, r3) := M in (v3dot O r1 v, v3dot O r2 v, v3dot O r3 v).
  (* quaternion::rotation_matrix *)
  Definition rotation_matrix (q : Q4) : mat3 :=
    let '(q0, q1, q2, q3) := q in
    ((q0 * q0 + q1 * q1 - q2 * q2 - q3 * q3, two * (q1 * q2 - q0 * q3), two * (q0 * q2 + q1 * q3)),
     (two * (q0 * q3 + q1 * q2), q0 * q0 - q1 * q1 + q2 * q2 - q3 * q3, two * (q2 * q3 - q0 * q1)),
     (two * (q1 * q3 - q0 * q2), two * (q0 * q1 + q2 * q3), q0 * q0 - q1 * q1 - q2 * q2 + q3 * q3)).
  Definition rotate (q : Q4) (v : V3) : V3 := mat_vec (rotation_matrix q) v.

  (* rotation::build_correlation_matrix: C = sum_i pos1_i (x) pos2_i, rows (xx xy xz) (yx yy yz) (zx zy zz) *)
  Definition corr_add (C : mat3) (p : V3 * V3) : mat3 :=
    let '((cxx, cxy, cxz), (cyx, cyy, cyz), (czx, czy, czz)) := C in
    let '((x1, y1, z1), (x2, y2, z2)) := p in
    ((cxx + x1 * x2, cxy + x1 * y2, cxz + x1 * z2),
     (cyx + y1 * x2, cyy + y1 * y2, cyz + y1 * z2),
     (czx + z1 * x2, czy + z1 * y2, czz + z1 * z2)).
  Definition corr_matrix (l : list (V3 * V3)) : mat3 := fold_left corr_add l (vzero, vzero, vzero).

  Definition mat4 : Type := (Q4 * Q4 * Q4 * Q4)%type.  (* rows *)
  (* rotation::compute_overlap_matrix *)
  Definition overlap_matrix (C : mat3) : mat4 :=
    let '((cxx, cxy, cxz), (cyx, cyy, cyz), (czx, czy, czz)) := C in
    let s00 := cxx + cyy + czz in
    let s10 := cyz - czy in
    let s20 := nneg O cxz + czx in
    let s30 := cxy - cyx in
    let s11 := cxx - cyy - czz in
    let s21 := cxy + cyx in
    let s31 := cxz + czx in
    let s22 := nneg O cxx + cyy - czz in
    let s32 := cyz + czy in
    let s33 := nneg O cxx - cyy + czz in
    ((s00, s10, s20, s30), (s10, s11, s21, s31), (s20, s21, s22, s32), (s30, s31, s32, s33)).
  Definition mat4_vec (S : mat4) (q : Q4) : Q4 :=
    let '(r0, r1, r2, r3) := S in (qdot O r0 q, qdot O r1 q, qdot O r2 q, qdot O r3 q).
  Definition quad_form (S : mat4) (q : Q4) : T := qdot O q (mat4_vec S q).
  (* sum of squared deviations after rotating the first set by q *)
  Definition sq_dev (q : Q4) (l : list (V3 * V3)) : T :=
    lsum (fun p => v3norm2 O (v3sub O (rotate q (fst p)) (snd p))) l.
  Definition sq_norms (l : list (V3 * V3)) : T * T :=
    (lsum (fun p => v3norm2 O (fst p)) l, lsum (fun p => v3norm2 O (snd p)) l).
  (* ---------------------------------------------------------------- components built on the optimal rotation
     (src/colvarcomp_rotations.cpp, rmsd and eigenvector of src/colvarcomp_distances.cpp,
     atom_group::calc_apply_roto_translation).  The quaternion q is what rotation::calc_optimal_rotation returned for
     the pairs named below (its eigen-solver is outside the model; the theorems take its optimality as a premise,
     the tie computes q with an independent Jacobi iteration in the driver). *)
  (* quaternion product (operator * of cvm::quaternion) and conjugate *)
  Definition qmul (h q : Q4) : Q4 :=
    let '(h0, h1, h2, h3) := h in let '(q0, q1, q2, q3) := q in
    (h0 * q0 - h1 * q1 - h2 * q2 - h3 * q3,
     h0 * q1 + h1 * q0 + h2 * q3 - h3 * q2,
     h0 * q2 + h2 * q0 + h3 * q1 - h1 * q3,
     h0 * q3 + h3 * q0 + h1 * q2 - h2 * q1).
  Definition qconj (q : Q4) : Q4 := let '(q0, q1, q2, q3) := q in (q0, nneg O q1, nneg O q2, nneg O q3).

  Definition pts_cog (l : list V3) : V3 := v3div (vsum (fun p => p) l) (nofnat (length l)).
  Definition center_pts (l : list V3) : list V3 := let c := pts_cog l in map (fun p => v3sub O p c) l.
  (* a group fitted on its own reference (centerToReference + rotateToReference, the default of rmsd and eigenvector):
     calc_optimal_rotation (centred positions, centred reference) *)
  Definition fit_pairs (ref : list V3) (g : list atom) : list (V3 * V3) := combine (centered g) (center_pts ref).
  (* positions after the fit: centre on the origin, rotate, move to the centre of the reference *)
  Definition fit_positions (q : Q4) (ref : list V3) (g : list atom) : list V3 :=
    let rc := pts_cog ref in map (fun p => v3add O (rotate q p) rc) (centered g).
  Definition cv_rmsd (q : Q4) (ref : list V3) (g : list atom) : T :=
    nsqrt O (lsum (fun pr => v3norm2 O (v3sub O (fst pr) (snd pr))) (combine (fit_positions q ref g) ref)
             / nofnat (length g)).
  (* eigenvector: projection of the fitted displacement on the (centred) vector *)
  Definition cv_eigenvector (q : Q4) (ref vec : list V3) (g : list atom) : T :=
    lsum (fun t => v3dot O (v3sub O (fst (fst t)) (snd (fst t))) (snd t))
         (combine (combine (fit_positions q ref g) ref) (center_pts vec)).

  (* orientation family: calc_optimal_rotation (centred reference, centred positions): q turns the reference onto the atoms *)
  Definition orient_pairs (ref : list V3) (g : list atom) : list (V3 * V3) := combine (center_pts ref) (centered g).
  Definition cv_orientation (refq q : Q4) : Q4 := if nleb O zero (qdot O q refq) then q else qneg O q.
  Definition cv_orientation_angle (q : Q4) : T :=
    let '(q0, q1, q2, q3) := q in deg (two * nacos O (if nleb O zero q0 then q0 else nneg O q0)).
  Definition cv_orientation_proj (q : Q4) : T := let '(q0, q1, q2, q3) := q in two * q0 * q0 - one.
  (* rotation::spin_angle (reduced to (-180,180]) followed by the periodic wrap of the component *)
  Definition spin_angle_of (axis : V3) (q : Q4) : T :=
    let '(q0, q1, q2, q3) := q in
    let alpha := deg (two * natan2 O (v3dot O axis (q1, q2, q3)) q0) in
    if nltb O (nofZ O 180) alpha then alpha - nofZ O 360
    else if nltb O alpha (nneg O (nofZ O 180)) then alpha + nofZ O 360 else alpha.
  Definition cv_spin_angle (axis : V3) (q : Q4) : T := cvc_wrap O zero (nofZ O 360) (spin_angle_of (norm_axis axis) q).
  (* rotation::cos_theta *)
  Definition cv_tilt (axis : V3) (q : Q4) : T :=
    let '(q0, q1, q2, q3) := q in
    let alpha := deg (two * natan2 O (v3dot O (norm_axis axis) (q1, q2, q3)) q0) in
    let cos_spin_2 := ncos O (alpha * (pi / nofZ O 180) * nhalf O) in
    let cos_theta_2 := if neqb O cos_spin_2 zero then zero else q0 / cos_spin_2 in
    two * (cos_theta_2 * cos_theta_2) - one.
  Definition cv_euler_phi (q : Q4) : T :=
    let '(q0, q1, q2, q3) := q in
    deg (natan2 O (two * (q0 * q1 + q2 * q3)) (one - two * (q1 * q1 + q2 * q2))).
  Definition cv_euler_psi (q : Q4) : T :=
    let '(q0, q1, q2, q3) := q in
    deg (natan2 O (two * (q0 * q3 + q1 * q2)) (one - two * (q2 * q2 + q3 * q3))).
  (* asin x = pi/2 - acos x *)
  Definition cv_euler_theta (q : Q4) : T :=
    let '(q0, q1, q2, q3) := q in
    deg (pi * nhalf O - nacos O (two * (q0 * q2 - q3 * q1))).
  (* distancePairs: all N1 x N2 distances, group2 index running fastest *)
  Definition cv_distance_pairs (pbc : bool) (cell : option V3) (g1 g2 : list atom) : list T :=
    flat_map (fun a1 => map (fun a2 => v3norm (pdist pbc cell (a_pos a1) (a_pos a2))) g2) g1.
  (* ---------------------------------------------------------------- coordNum with a pair list (tolerance > 0)
     coordnum::switching_function with ef_use_pairlist: at a rebuild step every pair is evaluated and flagged
     (func > -tolerance/2); at the other steps unflagged pairs are skipped (contribute 0) *)
  Definition switching_raw (r0 : T) (r0v : option V3) (en ed : Z) (tol : T) (cell : option V3) (p1 p2 : V3) : T :=
    let '(dx, dy, dz) := position_distance O cell p1 p2 in
    let sd := match r0v with
              | Some (a, b, c) => (dx / a, dy / b, dz / c)
              | None => (dx / r0, dy / r0, dz / r0)
              end in
    let l2 := v3norm2 O sd in
    let xn := ipow l2 (Z.quot en 2) in
    let xd := ipow l2 (Z.quot ed 2) in
    ((one - xn) / (one - xd) - tol) / (one - tol).
  Definition all_pairs (g1 g2 : list atom) : list (atom * atom) := flat_map (fun a1 => map (fun a2 => (a1, a2)) g2) g1.
  Definition pairlist_build (r0 : T) (r0v : option V3) (en ed : Z) (tol : T) (cell : option V3) (g1 g2 : list atom) : list bool :=
    map (fun pr => nltb O (nneg O (tol * nhalf O)) (switching_raw r0 r0v en ed tol cell (a_pos (fst pr)) (a_pos (snd pr))))
        (all_pairs g1 g2).
  Definition cv_coordnum_pl (pl : list bool) (r0 : T) (r0v : option V3) (en ed : Z) (tol : T) (cell : option V3) (g1 g2 : list atom) : T :=
    lsum (fun t : bool * (atom * atom) => if fst t then switching r0 r0v en ed tol cell (a_pos (fst (snd t))) (a_pos (snd (snd t))) else zero)
         (combine pl (all_pairs g1 g2)).
  (* ---------------------------------------------------------------- a group fitted through another group
     (atom_group::calc_apply_roto_translation with centerToReference on, rotateToReference on/off, optional fittingGroup):
     fitg is the group used for the fit (the group itself without a fittingGroup); q is the optimal quaternion of
     fit_pairs ref fitg *)
  Definition fit_general (rotate_on : bool) (q : Q4) (ref : list V3) (fitg g : list atom) : list V3 :=
    let c := cog fitg in let rc := pts_cog ref in
    map (fun a => let p0 := v3sub O (a_pos a) c in
                  v3add O (if rotate_on then rotate q p0 else p0) rc) g.
  Definition flat_coords (l : list V3) : list T := flat_map (fun p => let '(x, y, z) := p in [x; y; z]) l.
  (* ---------------------------------------------------------------- rmsd with atomPermutation (symmetry-adapted RMSD):
     the group is fitted on the reference as listed; the sum of squares is then taken against the reference and against
     each permuted copy ref_k[i] = ref[perm_k[i]], and the smallest one is kept (strict comparison, first one wins) *)
  Definition perm_sum (pos ref : list V3) (perm : list nat) : T :=
    lsum (fun t : V3 * nat => v3norm2 O (v3sub O (fst t) (nth (snd t) ref vzero))) (combine pos perm).
  Definition min_sum (s0 : T) (l : list T) : T := fold_left (fun m v => if nltb O v m then v else m) l s0.
  Definition cv_rmsd_perm (q : Q4) (ref : list V3) (perms : list (list nat)) (g : list atom) : T :=
    let pos := fit_positions q ref g in
    let s0 := lsum (fun pr => v3norm2 O (v3sub O (fst pr) (snd pr))) (combine pos ref) in
    nsqrt O (min_sum s0 (map (perm_sum pos ref) perms) / nofnat (length g)).
  (* ---------------------------------------------------------------- the pair list as state over steps and runs
     coordnum::compute_coordnum: the list is rebuilt when step_relative() % pairListFrequency == 0 (step_relative() is 0
     at the first step of every run), and used as it is otherwise.  A frame is the two groups at one step. *)
  Definition pl_step (freq : Z) (r0 : T) (r0v : option V3) (en ed : Z) (tol : T) (cell : option V3)
             (st : list bool) (rel : Z) (fr : list atom * list atom) : list bool * T :=
    if Z.eqb (Z.modulo rel freq) 0
    then (pairlist_build r0 r0v en ed tol cell (fst fr) (snd fr), cv_coordnum r0 r0v en ed tol cell (fst fr) (snd fr))
    else (st, cv_coordnum_pl st r0 r0v en ed tol cell (fst fr) (snd fr)).
  (* one run: relative steps rel, rel+1, ...; returns the values and the list left behind *)
  Fixpoint pl_run (freq : Z) (r0 : T) (r0v : option V3) (en ed : Z) (tol : T) (cell : option V3)
           (st : list bool) (rel : Z) (frames : list (list atom * list atom)) : list T * list bool :=
    match frames with
    | [] => ([], st)
    | fr :: rest =>
      let '(st1, v) := pl_step freq r0 r0v en ed tol cell st rel fr in
      let '(vs, st2) := pl_run freq r0 r0v en ed tol cell st1 (Z.succ rel) rest in
      (v :: vs, st2)
    end.
  (* a session: successive runs, each starting at relative step 0 with the list the previous run left *)
  Fixpoint pl_session (freq : Z) (r0 : T) (r0v : option V3) (en ed : Z) (tol : T) (cell : option V3)
           (st : list bool) (runs : list (list (list atom * list atom))) : list (list T) :=
    match runs with
    | [] => []
    | run :: rest =>
      let '(vs, st1) := pl_run freq r0 r0v en ed tol cell st 0%Z run in
      vs :: pl_session freq r0 r0v en ed tol cell st1 rest
    end.
  (* ---------------------------------------------------------------- arithmetic path variables in Cartesian space
     (aspath, azpath: colvarcomp_apath.cpp, colvar_arithmeticpath.h).  Every reference frame has its own fitted copy of
     the group (comp_atoms[i]: centerToReference + rotateToReference on frame i, quaternion q_i); the weighted square
     deviation of frame i is sum_j w^2 |x_ij - ref_ij|^2 with w = sqrt(1/N). *)
  Definition frame_wsd (q : Q4) (ref : list V3) (g : list atom) : T :=
    let w := nsqrt O (one / nofnat (length g)) in
    lsum (fun pr => (w * w) * v3norm2 O (v3sub O (fst pr) (snd pr))) (combine (fit_positions q ref g) ref).
  (* ArithmeticPathBase::computeValue on the weighted square deviations d_i (log-sum-exp with the largest exponent
     subtracted): returns (s, z) *)
  Definition max_from (m : T) (l : list T) : T := fold_left (fun acc x => if nltb O acc x then x else acc) l m.
  Fixpoint weighted_index_sum (i : nat) (acc : T) (l : list T) : T :=
    match l with [] => acc | e :: r => weighted_index_sum (S i) (acc + nofnat i * e) r end.
  Definition apath_sz (lambda : T) (ds : list T) : T * T :=
    let es := map (fun d => d * nneg O one * lambda) ds in
    let mx := match es with [] => zero | e0 :: r => max_from e0 r end in
    let xs := map (fun e => nexp O (e - mx)) es in
    let sum0 := lsum (fun x => x) xs in
    let sum1 := weighted_index_sum 0%nat zero xs in
    let l0 := mx + nlog O sum0 in
    let l1 := mx + nlog O sum1 in
    ((one / nofnat (length ds - 1)) * nexp O (l1 - l0), nneg O one / lambda * l0).
  (* lambda when none is given: 1 / mean of the squared rmsd between consecutive reference frames (each pair optimally
     superposed: qs are the optimal quaternions of the centred consecutive frames) *)
  Definition frame_pair_rmsd (q : Q4) (f1 f2 : list V3) : T :=
    nsqrt O (sq_dev q (combine (center_pts f1) (center_pts f2)) / nofnat (length f1)).
  Definition auto_lambda (rmsds : list T) : T :=
    one / (lsum (fun r => r * r) rmsds / nofnat (length rmsds)).
  Definition cv_apath (lambda : T) (qs : list Q4) (frames : list (list V3)) (g : list atom) : T * T :=
    apath_sz lambda (map (fun qf => frame_wsd (fst qf) (snd qf) g) (combine qs frames)).
  (* ---------------------------------------------------------------- pair lists of selfCoordNum and of coordNum with
     group2CenterOnly: the same flag/skip logic over another enumeration of position pairs *)
  Definition pl_build_pts (r0 : T) (r0v : option V3) (en ed : Z) (tol : T) (cell : option V3) (pts : list (V3 * V3)) : list bool :=
    map (fun pr => nltb O (nneg O (tol * nhalf O)) (switching_raw r0 r0v en ed tol cell (fst pr) (snd pr))) pts.
  Definition pl_value_pts (pl : list bool) (r0 : T) (r0v : option V3) (en ed : Z) (tol : T) (cell : option V3) (pts : list (V3 * V3)) : T :=
    lsum (fun t : bool * (V3 * V3) => if fst t then switching r0 r0v en ed tol cell (fst (snd t)) (snd (snd t)) else zero)
         (combine pl pts).
  (* selfCoordNum: pairs i < j in loop order *)
  Fixpoint self_pts (l : list atom) : list (V3 * V3) :=
    match l with [] => [] | a :: r => map (fun b => (a_pos a, a_pos b)) r ++ self_pts r end.
  (* group2CenterOnly: every atom of group1 with the centre of mass of group2 *)
  Definition center_pairs (g1 g2 : list atom) : list (V3 * V3) := let c := com g2 in map (fun a => (a_pos a, c)) g1.
  (* ---------------------------------------------------------------- eigenvector with differenceVector / normalizeVector
     (eigenvector::init): the vector used in the projection.  differenceVector: the given coordinates x_vec are centred,
     optimally superposed (quaternion qd) on the centred reference, and the reference is subtracted; then the vector is
     scaled by 1/sqrt(sum |v|^2) (normalizeVector) or by 1/sum |v|^2 (differenceVector alone). *)
  Definition vnorm2_sum (v : list V3) : T := lsum (v3norm2 O) v.
  Definition eigvec_prepare (difference normalize : bool) (qd : Q4) (ref vec : list V3) : list V3 :=
    let vc := center_pts vec in
    let v1 := if difference then map (fun pr => v3sub O (rotate qd (fst pr)) (snd pr)) (combine vc (center_pts ref)) else vc in
    let inv := one / vnorm2_sum v1 in
    if normalize then map (v3scale O (nsqrt O inv)) v1
    else if difference then map (v3scale O inv) v1 else v1.
  Definition cv_eigenvector_v (q : Q4) (ref v : list V3) (g : list atom) : T :=
    lsum (fun t => v3dot O (v3sub O (fst (fst t)) (snd (fst t))) (snd t)) (combine (combine (fit_positions q ref g) ref) v).
  (* ---------------------------------------------------------------- the variable over a history of run-time changes
     colvar::collect_cvc_values with the LIVE component parameters: componentCoeff / componentExp can be changed by
     `cv colvar <name> modifycvcs` (colvar::update_cvc_config -> cvc::init re-reads them), components can be switched on
     and off by `cv colvar <name> cvcflags` (set_cvc_flags, applied by update_cvc_flags at the next evaluation).
     f_cv_single_cvc is decided once at initialisation and is NOT consulted when the value is combined. *)
  Record sup_comp : Type := mkSupComp { su_coeff : T; su_exp : Z; su_active : bool }.
  Inductive sup_event : Type :=
  | SupModify (confs : list (option T * option Z))     (* one entry per component; (None, None) = empty string *)
  | SupFlags (flags : list bool).
  Definition sup_modify (conf : option T * option Z) (c : sup_comp) : sup_comp :=
    mkSupComp (match fst conf with Some x => x | None => su_coeff c end)
              (match snd conf with Some n => n | None => su_exp c end) (su_active c).
  Definition sup_apply (comps : list sup_comp) (e : sup_event) : list sup_comp :=
    match e with
    | SupModify confs =>
      if Nat.eqb (length confs) (length comps) then map (fun cc => sup_modify (fst cc) (snd cc)) (combine confs comps) else comps
    | SupFlags flags =>
      if Nat.eqb (length flags) (length comps)
      then map (fun fc => mkSupComp (su_coeff (snd fc)) (su_exp (snd fc)) (fst fc)) (combine flags comps) else comps
    end.
  Definition sup_run (h : list sup_event) (comps : list sup_comp) : list sup_comp := fold_left sup_apply h comps.
  (* scalar variable *)
  Definition sup_scalar (comps : list sup_comp) (qs : list T) : T :=
    fold_left (fun s cq => if su_active (fst cq)
                           then s + su_coeff (fst cq) * (if Z.eqb (su_exp (fst cq)) 1 then snd cq else ipow (snd cq) (su_exp (fst cq)))
                           else s) (combine comps qs) zero.
  (* vector variable of dimension n: x.reset() then x += coeff * value for the enabled components *)
  Definition vadd (a b : list T) : list T := map (fun ab => fst ab + snd ab) (combine a b).
  Definition sup_vector (n : nat) (comps : list sup_comp) (qs : list (list T)) : list T :=
    fold_left (fun s cq => if su_active (fst cq) then vadd s (map (fun x => su_coeff (fst cq) * x) (snd cq)) else s)
              (combine comps qs) (repeat zero n).
  (* ---------------------------------------------------------------- minimum image in a general (triclinic) cell
     colvarproxy_system::update_pbc_lattice + position_distance: reciprocal vectors from cross products, the three
     reduced coordinates rounded to the nearest integer (floor(x + 1/2)), the lattice vector subtracted *)
  Definition recip_cell (a b c : V3) : V3 * V3 * V3 :=
    let vx := v3cross b c in let vy := v3cross c a in let vz := v3cross a b in
    (v3div vx (v3dot O vx a), v3div vy (v3dot O vy b), v3div vz (v3dot O vz c)).
  Definition round_shift (x : T) : T := nofZ O (nfloor O (x + nhalf O)).
  Definition pd_cell (a b c : V3) (p1 p2 : V3) : V3 :=
    let d := v3sub O p2 p1 in
    let '(rx, ry, rz) := recip_cell a b c in
    let sx := round_shift (v3dot O rx d) in
    let sy := round_shift (v3dot O ry d) in
    let sz := round_shift (v3dot O rz d) in
    let '(dx, dy, dz) := d in
    let '(ax, ay, az) := a in let '(bx, by_, bz) := b in let '(cx, cy, cz) := c in
    (dx - (sx * ax + sy * bx + sz * cx), dy - (sx * ay + sy * by_ + sz * cy), dz - (sx * az + sy * bz + sz * cz)).
  (* the pair lists of selfCoordNum / group2CenterOnly as state over steps and runs (same rebuild rule) *)
  Definition pts_full (r0 : T) (r0v : option V3) (en ed : Z) (tol : T) (cell : option V3) (pts : list (V3 * V3)) : T :=
    lsum (fun pr => switching r0 r0v en ed tol cell (fst pr) (snd pr)) pts.
  Definition pl_step_pts (freq : Z) (r0 : T) (r0v : option V3) (en ed : Z) (tol : T) (cell : option V3)
             (st : list bool) (rel : Z) (pts : list (V3 * V3)) : list bool * T :=
    if Z.eqb (Z.modulo rel freq) 0
    then (pl_build_pts r0 r0v en ed tol cell pts, pts_full r0 r0v en ed tol cell pts)
    else (st, pl_value_pts st r0 r0v en ed tol cell pts).
  Fixpoint pl_run_pts (freq : Z) (r0 : T) (r0v : option V3) (en ed : Z) (tol : T) (cell : option V3)
           (st : list bool) (rel : Z) (frames : list (list (V3 * V3))) : list T * list bool :=
    match frames with
    | [] => ([], st)
    | fr :: rest =>
      let '(st1, v) := pl_step_pts freq r0 r0v en ed tol cell st rel fr in
      let '(vs, st2) := pl_run_pts freq r0 r0v en ed tol cell st1 (Z.succ rel) rest in
      (v :: vs, st2)
    end.
  Fixpoint pl_session_pts (freq : Z) (r0 : T) (r0v : option V3) (en ed : Z) (tol : T) (cell : option V3)
           (st : list bool) (runs : list (list (list (V3 * V3)))) : list (list T) :=
    match runs with
    | [] => []
    | run :: rest =>
      let '(vs, st1) := pl_run_pts freq r0 r0v en ed tol cell st 0%Z run in
      vs :: pl_session_pts freq r0 r0v en ed tol cell st1 rest
    end.
End C02Model.
