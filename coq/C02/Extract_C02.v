From Coq Require Import Extraction ExtrOcamlBasic.
From CV Require Import Base.Num C18.ValueModel C02.ValueModel C02.LoadModel.
Extraction Language OCaml.
Extraction "model.ml" mkNumOps nhalf position_distance mkAtom mk_group total_mass total_charge com cog dipole
  cv_distance cv_distance_vec cv_distance_dir cv_distance_z_fixed cv_distance_z_ref2
  cv_distance_xy_fixed cv_distance_xy_ref2 cv_distance_inv cv_dipole_magnitude cv_inertia cv_gyration
  cv_inertia_z cv_cartesian cv_angle cv_dipole_angle cv_dihedral cv_polar_theta cv_polar_phi
  cv_coordnum cv_coordnum_center cv_selfcoordnum cv_groupcoord cv_hbond cv_combine ipow
  rotation_matrix rotate corr_matrix overlap_matrix mat4_vec quad_form sq_dev sq_norms
  qmul qconj fit_pairs fit_positions cv_rmsd cv_eigenvector orient_pairs cv_orientation cv_orientation_angle
  cv_orientation_proj cv_spin_angle cv_tilt cv_euler_phi cv_euler_psi cv_euler_theta cv_distance_pairs
  pairlist_build cv_coordnum_pl sorted_ids sorted_map load_coords fit_general flat_coords cv_rmsd_perm pl_step pl_run pl_session frame_wsd apath_sz frame_pair_rmsd auto_lambda cv_apath center_pts pl_build_pts pl_value_pts self_pts center_pairs eigvec_prepare cv_eigenvector_v mkSupComp SupModify SupFlags sup_run sup_scalar sup_vector cvc_wrap pd_cell pl_session_pts pts_full.
