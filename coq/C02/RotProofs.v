(* C02 lemmas about the components built on the optimal rotation (real-number instance). *)
From Coq Require Import ZArith List Bool Reals Lra Lia Psatz Permutation.
From Flocq Require Import Core.Raux.
From CV Require Import Base.Num Base.RNum C18.ValueModel C18.ValueProofs C02.ValueModel C02.ValueProofs.
Import ListNotations.
Local Open Scope R_scope.

Ltac dq q := let q0 := fresh q "0" in let q1 := fresh q "1" in let q2 := fresh q "2" in let q3 := fresh q "3" in
             destruct q as [[[q0 q1] q2] q3].

(* ------------------------------------------------------------------ quaternion algebra *)
Lemma rotate_qmul (a b : Q4) (v : V3) : rotate Rops (qmul Rops a b) v = rotate Rops a (rotate Rops b v).
Proof. dq a; dq b; dv v. unfold rotate, rotation_matrix, qmul, mat_vec, v3dot. rs. apply v3_eq; ring. Qed.
Lemma qnorm2_qmul (a b : Q4) : qnorm2 (qmul Rops a b) = qnorm2 a * qnorm2 b.
Proof. dq a; dq b. unfold qnorm2, qdot, qmul. rs. ring. Qed.
Lemma qnorm2_qconj (a : Q4) : qnorm2 (qconj Rops a) = qnorm2 a.
Proof. dq a. unfold qnorm2, qdot, qconj. rs. ring. Qed.
Lemma qmul_conj_r (a p : Q4) : qnorm2 p = 1 -> qmul Rops (qmul Rops a (qconj Rops p)) p = a.
Proof.
  dq a; dq p. unfold qnorm2, qdot, qmul, qconj. rs. intros H.
  repeat match goal with |- (_, _) = (_, _) => apply f_equal2 end.
  - transitivity (a0 * (p0 * p0 + p1 * p1 + p2 * p2 + p3 * p3)); [ring | rewrite H; ring].
  - transitivity (a1 * (p0 * p0 + p1 * p1 + p2 * p2 + p3 * p3)); [ring | rewrite H; ring].
  - transitivity (a2 * (p0 * p0 + p1 * p1 + p2 * p2 + p3 * p3)); [ring | rewrite H; ring].
  - transitivity (a3 * (p0 * p0 + p1 * p1 + p2 * p2 + p3 * p3)); [ring | rewrite H; ring].
Qed.
Lemma qmul_conj_l (a p : Q4) : qnorm2 p = 1 -> qmul Rops (qconj Rops p) (qmul Rops p a) = a.
Proof.
  dq a; dq p. unfold qnorm2, qdot, qmul, qconj. rs. intros H.
  repeat match goal with |- (_, _) = (_, _) => apply f_equal2 end.
  - transitivity (a0 * (p0 * p0 + p1 * p1 + p2 * p2 + p3 * p3)); [ring | rewrite H; ring].
  - transitivity (a1 * (p0 * p0 + p1 * p1 + p2 * p2 + p3 * p3)); [ring | rewrite H; ring].
  - transitivity (a2 * (p0 * p0 + p1 * p1 + p2 * p2 + p3 * p3)); [ring | rewrite H; ring].
  - transitivity (a3 * (p0 * p0 + p1 * p1 + p2 * p2 + p3 * p3)); [ring | rewrite H; ring].
Qed.
Lemma rotate_norm2 (p : Q4) (v : V3) : qnorm2 p = 1 -> v3norm2 Rops (rotate Rops p v) = v3norm2 Rops v.
Proof. intros H. unfold rotate. apply norm2_rot. apply rotation_matrix_proper; exact H. Qed.
Lemma rotate_sub (p : Q4) (a b : V3) : v3sub Rops (rotate Rops p a) (rotate Rops p b) = rotate Rops p (v3sub Rops a b).
Proof. unfold rotate. apply mat_vec_sub. Qed.

(* ------------------------------------------------------------------ optimality *)
(* what rotation::calc_optimal_rotation is required to deliver for a list of pairs (conclusion of C02_rotation_optimal) *)
Definition is_optimal (q : Q4) (l : list (V3 * V3)) : Prop :=
  qnorm2 q = 1 /\ forall q' : Q4, qnorm2 q' = 1 -> sq_dev Rops q l <= sq_dev Rops q' l.

Definition rot_first (p : Q4) (l : list (V3 * V3)) : list (V3 * V3) := map (fun pr => (rotate Rops p (fst pr), snd pr)) l.
Definition rot_second (p : Q4) (l : list (V3 * V3)) : list (V3 * V3) := map (fun pr => (fst pr, rotate Rops p (snd pr))) l.

Lemma sq_dev_R (q : Q4) l : sq_dev Rops q l = rsum (fun pr => v3norm2 Rops (v3sub Rops (rotate Rops q (fst pr)) (snd pr))) l.
Proof. unfold sq_dev. apply lsum_eq. Qed.
(* turning the first set by p is the same as composing the trial rotation with p *)
Lemma sq_dev_rot_first (q p : Q4) l : sq_dev Rops q (rot_first p l) = sq_dev Rops (qmul Rops q p) l.
Proof.
  rewrite !sq_dev_R. unfold rot_first. rewrite rsum_map. apply rsum_ext. intros pr _. cbn [fst snd].
  rewrite rotate_qmul. reflexivity.
Qed.
Lemma qmul_conj_self (p : Q4) : qnorm2 p = 1 -> qmul Rops (qconj Rops p) p = (1, 0, 0, 0).
Proof.
  dq p. unfold qnorm2, qdot, qmul, qconj. rs. intros H.
  repeat match goal with |- (_, _) = (_, _) => apply f_equal2 end; try ring.
  rewrite <- H. ring.
Qed.
Lemma rotate_identity (v : V3) : rotate Rops (1, 0, 0, 0) v = v.
Proof. dv v. unfold rotate, rotation_matrix, mat_vec, v3dot. rs. apply v3_eq; ring. Qed.
(* turning the second set by a unit p is the same as composing the trial rotation with p^-1 on the left *)
Lemma sq_dev_rot_second (q p : Q4) l : qnorm2 p = 1 ->
  sq_dev Rops q (rot_second p l) = sq_dev Rops (qmul Rops (qconj Rops p) q) l.
Proof.
  intros Hp. rewrite !sq_dev_R. unfold rot_second. rewrite rsum_map. apply rsum_ext. intros pr _. cbn [fst snd].
  set (x := fst pr). set (y := snd pr).
  rewrite <- (rotate_norm2 (qconj Rops p) (v3sub Rops (rotate Rops q x) (rotate Rops p y))) by (rewrite qnorm2_qconj; exact Hp).
  rewrite <- rotate_sub, <- !rotate_qmul, (qmul_conj_self p Hp), rotate_identity. reflexivity.
Qed.

(* the least deviation does not depend on a rotation of either set *)
Lemma optimal_dev_rot_first (p q q' : Q4) l : qnorm2 p = 1 -> is_optimal q l -> is_optimal q' (rot_first p l) ->
  sq_dev Rops q' (rot_first p l) = sq_dev Rops q l.
Proof.
  intros Hp [Hq Hmin] [Hq' Hmin']. apply Rle_antisym.
  - specialize (Hmin' (qmul Rops q (qconj Rops p))).
    rewrite (sq_dev_rot_first (qmul Rops q (qconj Rops p)) p l), qmul_conj_r in Hmin' by exact Hp. apply Hmin'.
    rewrite qnorm2_qmul, qnorm2_qconj, Hq, Hp. ring.
  - rewrite sq_dev_rot_first. apply Hmin. rewrite qnorm2_qmul, Hq', Hp. ring.
Qed.
Lemma optimal_dev_rot_second (p q q' : Q4) l : qnorm2 p = 1 -> is_optimal q l -> is_optimal q' (rot_second p l) ->
  sq_dev Rops q' (rot_second p l) = sq_dev Rops q l.
Proof.
  intros Hp [Hq Hmin] [Hq' Hmin']. apply Rle_antisym.
  - specialize (Hmin' (qmul Rops p q)).
    rewrite (sq_dev_rot_second (qmul Rops p q) p l Hp), qmul_conj_l in Hmin' by exact Hp. apply Hmin'.
    rewrite qnorm2_qmul, Hq, Hp. ring.
  - rewrite sq_dev_rot_second by exact Hp. apply Hmin. rewrite qnorm2_qmul, qnorm2_qconj, Hq', Hp. ring.
Qed.
(* and the composed quaternion is itself optimal for the turned set *)
Lemma optimal_rot_second (p q : Q4) l : qnorm2 p = 1 -> is_optimal q l -> is_optimal (qmul Rops p q) (rot_second p l).
Proof.
  intros Hp [Hq Hmin]. split; [rewrite qnorm2_qmul, Hq, Hp; ring|].
  intros q' Hq'. rewrite !sq_dev_rot_second, qmul_conj_l by exact Hp. apply Hmin.
  rewrite qnorm2_qmul, qnorm2_qconj, Hq', Hp. ring.
Qed.
Lemma optimal_rot_first (p q : Q4) l : qnorm2 p = 1 -> is_optimal q l -> is_optimal (qmul Rops q (qconj Rops p)) (rot_first p l).
Proof.
  intros Hp [Hq Hmin]. split; [rewrite qnorm2_qmul, qnorm2_qconj, Hq, Hp; ring|].
  intros q' Hq'. rewrite !sq_dev_rot_first, qmul_conj_r by exact Hp. apply Hmin.
  rewrite qnorm2_qmul, Hq', Hp. ring.
Qed.
Lemma optimal_unrot_first (p q' : Q4) l : qnorm2 p = 1 -> is_optimal q' (rot_first p l) -> is_optimal (qmul Rops q' p) l.
Proof.
  intros Hp [Hq' Hmin']. split; [rewrite qnorm2_qmul, Hq', Hp; ring|].
  intros q'' Hq''. rewrite <- sq_dev_rot_first.
  specialize (Hmin' (qmul Rops q'' (qconj Rops p))).
  rewrite (sq_dev_rot_first (qmul Rops q'' (qconj Rops p)) p l), qmul_conj_r in Hmin' by exact Hp. apply Hmin'.
  rewrite qnorm2_qmul, qnorm2_qconj, Hq'', Hp. ring.
Qed.

(* ------------------------------------------------------------------ fitted groups: rmsd, eigenvector *)
Lemma combine_map_l {A B C} (f : A -> C) (xs : list A) (ys : list B) :
  combine (map f xs) ys = map (fun pr => (f (fst pr), snd pr)) (combine xs ys).
Proof. revert ys. induction xs as [|x xs IH]; intros [|y ys]; cbn [map combine fst snd]; try reflexivity. rewrite IH. reflexivity. Qed.
Lemma combine_map_r {A B C} (f : B -> C) (xs : list A) (ys : list B) :
  combine xs (map f ys) = map (fun pr => (fst pr, f (snd pr))) (combine xs ys).
Proof. revert ys. induction xs as [|x xs IH]; intros [|y ys]; cbn [map combine fst snd]; try reflexivity. rewrite IH. reflexivity. Qed.

Lemma fit_pairs_shift ref t g : g <> [] -> fit_pairs Rops ref (shift_group t g) = fit_pairs Rops ref g.
Proof. intros H. unfold fit_pairs. rewrite centered_shift by exact H. reflexivity. Qed.
Lemma fit_pairs_rot ref (p : Q4) g :
  fit_pairs Rops ref (rot_group (rotation_matrix Rops p) g) = rot_first p (fit_pairs Rops ref g).
Proof. unfold fit_pairs, rot_first. rewrite centered_rot, combine_map_l. reflexivity. Qed.
Lemma orient_pairs_shift ref t g : g <> [] -> orient_pairs Rops ref (shift_group t g) = orient_pairs Rops ref g.
Proof. intros H. unfold orient_pairs. rewrite centered_shift by exact H. reflexivity. Qed.
Lemma orient_pairs_rot ref (p : Q4) g :
  orient_pairs Rops ref (rot_group (rotation_matrix Rops p) g) = rot_second p (orient_pairs Rops ref g).
Proof. unfold orient_pairs, rot_second. rewrite centered_rot, combine_map_r. reflexivity. Qed.

(* the sum of squares that rmsd takes the root of is the deviation of the fitted pairs *)
Lemma fit_dev_eq (q : Q4) (c : V3) (xs rs : list V3) :
  rsum (fun pr => v3norm2 Rops (v3sub Rops (fst pr) (snd pr))) (combine (map (fun x => v3add Rops (rotate Rops q x) c) xs) rs) =
  rsum (fun pr => v3norm2 Rops (v3sub Rops (rotate Rops q (fst pr)) (snd pr))) (combine xs (map (fun r => v3sub Rops r c) rs)).
Proof.
  revert rs. induction xs as [|x xs IH]; intros [|r rs]; cbn [map combine rsum fst snd]; try reflexivity.
  rewrite IH. f_equal. f_equal.
  destruct (rotate Rops q x) as [[a b] d]. dv r; dv c. unfold v3sub, v3add. apply v3_eq; rs; ring.
Qed.
Lemma cv_rmsd_dev (q : Q4) ref g :
  cv_rmsd Rops q ref g = sqrt (sq_dev Rops q (fit_pairs Rops ref g) / INR (length g)).
Proof.
  unfold cv_rmsd. rewrite lsum_eq, INR_nofnat, sq_dev_R. unfold fit_positions, fit_pairs, center_pts. cbv zeta.
  rewrite fit_dev_eq. reflexivity.
Qed.

Lemma rmsd_translation q ref t g : g <> [] -> cv_rmsd Rops q ref (shift_group t g) = cv_rmsd Rops q ref g.
Proof. intros H. rewrite !cv_rmsd_dev, fit_pairs_shift, length_shift by exact H. reflexivity. Qed.
(* rigid motion x -> R(p) x + t of all atoms: the rmsd computed with the optimal rotation of the moved atoms equals
   the rmsd computed with the optimal rotation of the original atoms *)
Lemma rmsd_rigid (p q q' : Q4) ref t g : qnorm2 p = 1 -> g <> [] ->
  is_optimal q (fit_pairs Rops ref g) ->
  is_optimal q' (fit_pairs Rops ref (shift_group t (rot_group (rotation_matrix Rops p) g))) ->
  cv_rmsd Rops q' ref (shift_group t (rot_group (rotation_matrix Rops p) g)) = cv_rmsd Rops q ref g.
Proof.
  intros Hp Hg Hq Hq'.
  assert (Hg' : rot_group (rotation_matrix Rops p) g <> []).
  { destruct g; [congruence|]. discriminate. }
  rewrite !cv_rmsd_dev. rewrite fit_pairs_shift, fit_pairs_rot in * by exact Hg'.
  rewrite length_shift, length_rot. rewrite (optimal_dev_rot_first p q q' _ Hp Hq Hq'). reflexivity.
Qed.
(* no other rotation gives a smaller rmsd *)
Lemma rmsd_minimal (q q' : Q4) ref g : is_optimal q (fit_pairs Rops ref g) -> qnorm2 q' = 1 ->
  cv_rmsd Rops q ref g <= cv_rmsd Rops q' ref g.
Proof.
  intros [Hq Hmin] Hq'. rewrite !cv_rmsd_dev. apply sqrt_le_1_alt.
  unfold Rdiv. apply Rmult_le_compat_r; [|apply Hmin; exact Hq'].
  destruct (length g) as [|n]; [cbn; rewrite Rinv_0; lra|].
  left. apply Rinv_0_lt_compat. apply lt_0_INR. lia.
Qed.

(* uniqueness of the optimum as a rotation (simple largest eigenvalue): any two optimal quaternions give one matrix *)
Definition unique_optimum (l : list (V3 * V3)) : Prop :=
  forall q1 q2 : Q4, is_optimal q1 l -> is_optimal q2 l -> rotation_matrix Rops q1 = rotation_matrix Rops q2.

Lemma rotate_matrix_eq (q1 q2 : Q4) (v : V3) : rotation_matrix Rops q1 = rotation_matrix Rops q2 -> rotate Rops q1 v = rotate Rops q2 v.
Proof. intros H. unfold rotate. rewrite H. reflexivity. Qed.
Lemma rotation_matrix_qmul_ext (a b c : Q4) : (forall v : V3, rotate Rops (qmul Rops a b) v = rotate Rops c v) ->
  forall v, rotate Rops a (rotate Rops b v) = rotate Rops c v.
Proof. intros H v. rewrite <- rotate_qmul. apply H. Qed.

(* positions in the fitted frame do not change under a rigid motion of all atoms (fitted variables: eigenvector,
   cartesian coordinates of a fitted group, ...) when the optimal rotation is unique *)
Lemma fit_positions_rigid (p q q' : Q4) ref t g : qnorm2 p = 1 -> g <> [] ->
  unique_optimum (fit_pairs Rops ref g) ->
  is_optimal q (fit_pairs Rops ref g) ->
  is_optimal q' (fit_pairs Rops ref (shift_group t (rot_group (rotation_matrix Rops p) g))) ->
  fit_positions Rops q' ref (shift_group t (rot_group (rotation_matrix Rops p) g)) = fit_positions Rops q ref g.
Proof.
  intros Hp Hg Hu Hq Hq'.
  assert (Hg' : rot_group (rotation_matrix Rops p) g <> []).
  { destruct g; [congruence|]. discriminate. }
  rewrite fit_pairs_shift, fit_pairs_rot in Hq' by exact Hg'.
  pose proof (optimal_unrot_first p q' _ Hp Hq') as Hq'p.
  pose proof (Hu _ _ Hq'p Hq) as HM.
  unfold fit_positions. cbv zeta. rewrite centered_shift, centered_rot by exact Hg'. rewrite map_map.
  apply map_ext. intros x. f_equal.
  change (mat_vec Rops (rotation_matrix Rops p) x) with (rotate Rops p x).
  rewrite <- rotate_qmul. apply rotate_matrix_eq. exact HM.
Qed.
Lemma eigenvector_rigid (p q q' : Q4) ref vec t g : qnorm2 p = 1 -> g <> [] ->
  unique_optimum (fit_pairs Rops ref g) ->
  is_optimal q (fit_pairs Rops ref g) ->
  is_optimal q' (fit_pairs Rops ref (shift_group t (rot_group (rotation_matrix Rops p) g))) ->
  cv_eigenvector Rops q' ref vec (shift_group t (rot_group (rotation_matrix Rops p) g)) = cv_eigenvector Rops q ref vec g.
Proof. intros. unfold cv_eigenvector. rewrite (fit_positions_rigid p q q') by assumption. reflexivity. Qed.

(* ------------------------------------------------------------------ orientation *)
(* the quaternion of the turned atoms is the composition p q (as a rotation), whenever the optimum is unique *)
Lemma orientation_rigid (p q q' : Q4) ref t g : qnorm2 p = 1 -> g <> [] ->
  unique_optimum (orient_pairs Rops ref (shift_group t (rot_group (rotation_matrix Rops p) g))) ->
  is_optimal q (orient_pairs Rops ref g) ->
  is_optimal q' (orient_pairs Rops ref (shift_group t (rot_group (rotation_matrix Rops p) g))) ->
  rotation_matrix Rops q' = rotation_matrix Rops (qmul Rops p q) /\
  forall v : V3, rotate Rops q' v = rotate Rops p (rotate Rops q v).
Proof.
  intros Hp Hg Hu Hq Hq'.
  assert (Hg' : rot_group (rotation_matrix Rops p) g <> []).
  { destruct g; [congruence|]. discriminate. }
  assert (HM : rotation_matrix Rops q' = rotation_matrix Rops (qmul Rops p q)).
  { apply Hu; [exact Hq'|]. rewrite orient_pairs_shift, orient_pairs_rot by exact Hg'. apply optimal_rot_second; assumption. }
  split; [exact HM|]. intros v. rewrite <- rotate_qmul. apply rotate_matrix_eq. exact HM.
Qed.
(* the least deviation (hence everything that depends on it) is the same for the moved atoms *)
Lemma orientation_dev_rigid (p q q' : Q4) ref t g : qnorm2 p = 1 -> g <> [] ->
  is_optimal q (orient_pairs Rops ref g) ->
  is_optimal q' (orient_pairs Rops ref (shift_group t (rot_group (rotation_matrix Rops p) g))) ->
  sq_dev Rops q' (orient_pairs Rops ref (shift_group t (rot_group (rotation_matrix Rops p) g))) = sq_dev Rops q (orient_pairs Rops ref g).
Proof.
  intros Hp Hg Hq Hq'.
  assert (Hg' : rot_group (rotation_matrix Rops p) g <> []).
  { destruct g; [congruence|]. discriminate. }
  rewrite orient_pairs_shift, orient_pairs_rot in * by exact Hg'. apply optimal_dev_rot_second; assumption.
Qed.

(* ------------------------------------------------------------------ sign of the quaternion *)
Lemma qnorm2_qneg (q : Q4) : qnorm2 (qneg Rops q) = qnorm2 q.
Proof. dq q. unfold qnorm2, qdot, qneg. rs. ring. Qed.
Lemma sq_dev_qneg (q : Q4) l : sq_dev Rops (qneg Rops q) l = sq_dev Rops q l.
Proof. rewrite !sq_dev_R. apply rsum_ext. intros pr _. rewrite rotate_neg. reflexivity. Qed.
Lemma is_optimal_qneg (q : Q4) l : is_optimal q l -> is_optimal (qneg Rops q) l.
Proof. intros [H1 H2]. split; [rewrite qnorm2_qneg; exact H1|]. intros q' Hq'. rewrite sq_dev_qneg. apply H2, Hq'. Qed.
Lemma fit_positions_qneg (q : Q4) ref g : fit_positions Rops (qneg Rops q) ref g = fit_positions Rops q ref g.
Proof. unfold fit_positions. cbv zeta. apply map_ext. intros x. rewrite rotate_neg. reflexivity. Qed.
Lemma cv_rmsd_qneg (q : Q4) ref g : cv_rmsd Rops (qneg Rops q) ref g = cv_rmsd Rops q ref g.
Proof. unfold cv_rmsd. rewrite fit_positions_qneg. reflexivity. Qed.
Lemma cv_eigenvector_qneg (q : Q4) ref vec g : cv_eigenvector Rops (qneg Rops q) ref vec g = cv_eigenvector Rops q ref vec g.
Proof. unfold cv_eigenvector. rewrite fit_positions_qneg. reflexivity. Qed.
Lemma cv_orientation_proj_qneg (q : Q4) : cv_orientation_proj Rops (qneg Rops q) = cv_orientation_proj Rops q.
Proof. dq q. unfold cv_orientation_proj, qneg. rs. ring. Qed.
Lemma cv_orientation_angle_qneg (q : Q4) : cv_orientation_angle Rops PI (qneg Rops q) = cv_orientation_angle Rops PI q.
Proof.
  dq q. unfold cv_orientation_angle, qneg. rs. unfold Rleb'.
  destruct (Rle_dec 0 (- q0)) as [H1|H1]; destruct (Rle_dec 0 q0) as [H2|H2]; try reflexivity.
  - assert (q0 = 0) by lra. subst q0. rewrite Ropp_0. reflexivity.
  - rewrite Ropp_involutive. reflexivity.
  - exfalso. lra.
Qed.
(* the reported orientation is the representative in the hemisphere of closestToQuaternion, whatever sign the
   eigen-solver returned (off the boundary q . refq = 0) *)
Lemma cv_orientation_qneg (refq q : Q4) : qdot Rops q refq <> 0 -> cv_orientation Rops refq (qneg Rops q) = cv_orientation Rops refq q.
Proof.
  intros H. unfold cv_orientation.
  assert (E : qdot Rops (qneg Rops q) refq = - qdot Rops q refq) by (dq q; dq refq; unfold qdot, qneg; rs; ring).
  rewrite E. rs. unfold Rleb'.
  destruct (Rle_dec 0 (- qdot Rops q refq)) as [H1|H1]; destruct (Rle_dec 0 (qdot Rops q refq)) as [H2|H2].
  - exfalso. lra.
  - reflexivity.
  - dq q. unfold qneg. rs. repeat match goal with |- (_, _) = (_, _) => apply f_equal2 end; ring.
  - exfalso. lra.
Qed.
Lemma cv_euler_qneg (q : Q4) :
  cv_euler_phi Rops PI (qneg Rops q) = cv_euler_phi Rops PI q /\ cv_euler_psi Rops PI (qneg Rops q) = cv_euler_psi Rops PI q /\
  cv_euler_theta Rops PI (qneg Rops q) = cv_euler_theta Rops PI q.
Proof.
  dq q. unfold cv_euler_phi, cv_euler_psi, cv_euler_theta, qneg. rs.
  replace (- q0 * - q1) with (q0 * q1) by ring. replace (- q2 * - q3) with (q2 * q3) by ring.
  replace (- q1 * - q1) with (q1 * q1) by ring. replace (- q2 * - q2) with (q2 * q2) by ring.
  replace (- q0 * - q3) with (q0 * q3) by ring. replace (- q1 * - q2) with (q1 * q2) by ring.
  replace (- q3 * - q3) with (q3 * q3) by ring. replace (- q0 * - q2) with (q0 * q2) by ring.
  replace (- q3 * - q1) with (q3 * q1) by ring.
  repeat split; reflexivity.
Qed.

(* ------------------------------------------------------------------ tilt and spin angle: sign of the quaternion *)
Lemma Ratan2_neg (y x : R) : (x <> 0 \/ y <> 0) -> Ratan2 (- y) (- x) = Ratan2 y x + PI \/ Ratan2 (- y) (- x) = Ratan2 y x - PI.
Proof.
  intros H. unfold Ratan2.
  destruct (Rlt_dec 0 x) as [Hx|Hx].
  - (* x > 0 *)
    destruct (Rlt_dec 0 (- x)) as [H1|_]; [exfalso; lra|].
    destruct (Rlt_dec (- x) 0) as [_|H1]; [|exfalso; lra].
    replace (- y / - x) with (y / x) by (field; lra).
    destruct (Rle_dec 0 (- y)); [left|right]; reflexivity.
  - destruct (Rlt_dec x 0) as [Hx'|Hx'].
    + (* x < 0 *)
      destruct (Rlt_dec 0 (- x)) as [_|H1]; [|exfalso; lra].
      replace (- y / - x) with (y / x) by (field; lra).
      destruct (Rle_dec 0 y); [right|left]; ring.
    + (* x = 0 *)
      assert (x = 0) by lra. subst x. rewrite Ropp_0.
      destruct (Rlt_dec 0 0) as [H1|_]; [exfalso; lra|].
      destruct (Rlt_dec 0 (- y)) as [Hy|Hy]; destruct (Rlt_dec 0 y) as [Hy'|Hy']; try (exfalso; lra).
      * destruct (Rlt_dec y 0) as [_|H2]; [|exfalso; lra]. left. field.
      * destruct (Rlt_dec (- y) 0) as [_|H2]; [|exfalso; lra]. right. field.
Qed.

Lemma cvc_wrap_period (c P x : R) (n : Z) : 0 < P -> cvc_wrap Rops c P (x + IZR n * P) = cvc_wrap Rops c P x.
Proof.
  intros HP. unfold cvc_wrap, nhalf. rs.
  replace ((x + IZR n * P - c) / P + 1 / 2) with ((x - c) / P + 1 / 2 + IZR n) by (field; lra).
  rewrite Zfloor_add_IZR, plus_IZR. ring.
Qed.

Lemma deg_undeg (A : R) : deg Rops PI (2 * A) * (PI / 180) * (1 / 2) = A.
Proof. unfold deg. rs. field. apply PI_neq0. Qed.

Lemma cv_tilt_qneg (axis : V3) (q : Q4) : cv_tilt Rops PI axis (qneg Rops q) = cv_tilt Rops PI axis q.
Proof.
  dq q. unfold cv_tilt, qneg. set (ax := norm_axis Rops axis).
  assert (Ea : v3dot Rops ax (nneg Rops q1, nneg Rops q2, nneg Rops q3) = - v3dot Rops ax (q1, q2, q3)).
  { destruct ax as [[a b] c]. unfold v3dot. rs. ring. }
  rewrite Ea. set (a := v3dot Rops ax (q1, q2, q3)). unfold nhalf. rs.
  rewrite !deg_undeg.
  destruct (Req_dec q0 0) as [H0|H0]; [destruct (Req_dec a 0) as [Ha|Ha]|].
  - subst q0. rewrite Ha, !Ropp_0. reflexivity.
  - destruct (Ratan2_neg a q0 (or_intror Ha)) as [E|E]; rewrite E.
    + rewrite neg_cos. unfold Reqb'.
      destruct (Req_EM_T (- cos (Ratan2 a q0)) 0) as [H1|H1]; destruct (Req_EM_T (cos (Ratan2 a q0)) 0) as [H2|H2];
        try reflexivity; try (exfalso; lra).
      replace (- q0 / - cos (Ratan2 a q0)) with (q0 / cos (Ratan2 a q0)) by (field; exact H2). reflexivity.
    + unfold Rminus. rewrite cos_plus, cos_neg, sin_neg, cos_PI, sin_PI.
      replace (cos (Ratan2 a q0) * -1 - sin (Ratan2 a q0) * - 0) with (- cos (Ratan2 a q0)) by ring.
      unfold Reqb'.
      destruct (Req_EM_T (- cos (Ratan2 a q0)) 0) as [H1|H1]; destruct (Req_EM_T (cos (Ratan2 a q0)) 0) as [H2|H2];
        try reflexivity; try (exfalso; lra).
      replace (- q0 / - cos (Ratan2 a q0)) with (q0 / cos (Ratan2 a q0)) by (field; exact H2). reflexivity.
  - destruct (Ratan2_neg a q0 (or_introl H0)) as [E|E]; rewrite E.
    + rewrite neg_cos. unfold Reqb'.
      destruct (Req_EM_T (- cos (Ratan2 a q0)) 0) as [H1|H1]; destruct (Req_EM_T (cos (Ratan2 a q0)) 0) as [H2|H2];
        try reflexivity; try (exfalso; lra).
      replace (- q0 / - cos (Ratan2 a q0)) with (q0 / cos (Ratan2 a q0)) by (field; exact H2). reflexivity.
    + unfold Rminus. rewrite cos_plus, cos_neg, sin_neg, cos_PI, sin_PI.
      replace (cos (Ratan2 a q0) * -1 - sin (Ratan2 a q0) * - 0) with (- cos (Ratan2 a q0)) by ring.
      unfold Reqb'.
      destruct (Req_EM_T (- cos (Ratan2 a q0)) 0) as [H1|H1]; destruct (Req_EM_T (cos (Ratan2 a q0)) 0) as [H2|H2];
        try reflexivity; try (exfalso; lra).
      replace (- q0 / - cos (Ratan2 a q0)) with (q0 / cos (Ratan2 a q0)) by (field; exact H2). reflexivity.
Qed.

(* spin_angle_of adds a whole number of turns to the raw angle; the periodic wrap removes them *)
Lemma spin_wrap (alpha : R) :
  cvc_wrap Rops 0 360 (if Rltb 180 alpha then alpha - 360 else if Rltb alpha (- 180) then alpha + 360 else alpha) =
  cvc_wrap Rops 0 360 alpha.
Proof.
  destruct (Rltb 180 alpha).
  - replace (alpha - 360) with (alpha + IZR (-1) * 360) by (simpl; ring). apply cvc_wrap_period. lra.
  - destruct (Rltb alpha (- 180)); [|reflexivity].
    replace (alpha + 360) with (alpha + IZR 1 * 360) by (simpl; ring). apply cvc_wrap_period. lra.
Qed.
Lemma cv_spin_angle_raw (axis : V3) (q0 q1 q2 q3 : R) :
  cv_spin_angle Rops PI axis (q0, q1, q2, q3) =
  cvc_wrap Rops 0 360 (deg Rops PI (2 * Ratan2 (v3dot Rops (norm_axis Rops axis) (q1, q2, q3)) q0)).
Proof. unfold cv_spin_angle, spin_angle_of. rs. apply spin_wrap. Qed.
Lemma cv_spin_angle_qneg (axis : V3) (q : Q4) : cv_spin_angle Rops PI axis (qneg Rops q) = cv_spin_angle Rops PI axis q.
Proof.
  dq q. unfold qneg. rs. rewrite !cv_spin_angle_raw. set (ax := norm_axis Rops axis).
  assert (Ea : v3dot Rops ax (- q1, - q2, - q3) = - v3dot Rops ax (q1, q2, q3)).
  { destruct ax as [[a b] c]. unfold v3dot. rs. ring. }
  rewrite Ea. set (a := v3dot Rops ax (q1, q2, q3)).
  destruct (Req_dec q0 0) as [H0|H0]; [destruct (Req_dec a 0) as [Ha|Ha]|].
  - subst q0. rewrite Ha, !Ropp_0. reflexivity.
  - destruct (Ratan2_neg a q0 (or_intror Ha)) as [E|E]; rewrite E.
    + replace (deg Rops PI (2 * (Ratan2 a q0 + PI))) with (deg Rops PI (2 * Ratan2 a q0) + IZR 1 * 360)
        by (unfold deg; rs; simpl; field; apply PI_neq0).
      apply cvc_wrap_period. lra.
    + replace (deg Rops PI (2 * (Ratan2 a q0 - PI))) with (deg Rops PI (2 * Ratan2 a q0) + IZR (-1) * 360)
        by (unfold deg; rs; simpl; field; apply PI_neq0).
      apply cvc_wrap_period. lra.
  - destruct (Ratan2_neg a q0 (or_introl H0)) as [E|E]; rewrite E.
    + replace (deg Rops PI (2 * (Ratan2 a q0 + PI))) with (deg Rops PI (2 * Ratan2 a q0) + IZR 1 * 360)
        by (unfold deg; rs; simpl; field; apply PI_neq0).
      apply cvc_wrap_period. lra.
    + replace (deg Rops PI (2 * (Ratan2 a q0 - PI))) with (deg Rops PI (2 * Ratan2 a q0) + IZR (-1) * 360)
        by (unfold deg; rs; simpl; field; apply PI_neq0).
      apply cvc_wrap_period. lra.
Qed.

(* ------------------------------------------------------------------ link with the eigen-decomposition premise *)
Lemma eigen_decomposition_is_optimal (l : list (V3 * V3)) (v0 v1 v2 v3 : Q4) (e0 e1 e2 e3 : R) :
  overlap_matrix Rops (corr_matrix Rops l) =
    madd4 (madd4 (mscale4 e0 (outer4 v0)) (mscale4 e1 (outer4 v1))) (madd4 (mscale4 e2 (outer4 v2)) (mscale4 e3 (outer4 v3))) ->
  madd4 (madd4 (outer4 v0) (outer4 v1)) (madd4 (outer4 v2) (outer4 v3)) = identity4 ->
  qnorm2 v0 = 1 -> qdot Rops v1 v0 = 0 /\ qdot Rops v2 v0 = 0 /\ qdot Rops v3 v0 = 0 ->
  e1 <= e0 /\ e2 <= e0 /\ e3 <= e0 -> is_optimal v0 l.
Proof. intros H1 H2 H3 H4 H5. split; [exact H3|]. intros q Hq. apply (optimal_rotation_minimises l v0 v1 v2 v3 e0 e1 e2 e3); assumption. Qed.

(* ------------------------------------------------------------------ polarTheta, cartesian, distancePairs *)
(* rotations about the z axis: third row and third column (0,0,1) *)
Definition about_z (M : M3) : Prop := let '(r1, r2, r3) := M in r3 = (0, 0, 1).
Lemma polar_theta_rot_z (M : M3) g : orthogonal M -> about_z M -> cv_polar_theta Rops PI (rot_group M g) = cv_polar_theta Rops PI g.
Proof.
  intros Ho Hz. unfold cv_polar_theta. rewrite com_rot. cbv zeta. rewrite norm_rot by exact Ho.
  destruct (com Rops g) as [[x y] z] eqn:E. dm M. unfold about_z in Hz. inversion Hz; subst.
  unfold mat_vec, v3dot. rs.
  replace (0 * x + 0 * y + 1 * z) with z by ring. reflexivity.
Qed.
Definition flat3 (l : list V3) : list R := flat_map (fun p => let '(x, y, z) := p in [x; y; z]) l.
Lemma cartesian_all g : cv_cartesian true true true g = flat3 (map a_pos g).
Proof.
  unfold cv_cartesian, flat3. induction g as [|a g IH]; [reflexivity|]. cbn [flat_map map]. rewrite IH.
  destruct (a_pos a) as [[x y] z]. reflexivity.
Qed.
(* the value is the list of the atoms' coordinates: it follows every motion of the atoms *)
Lemma cartesian_moves (M : M3) t g :
  cv_cartesian true true true (shift_group t (rot_group M g)) = flat3 (map (fun a => v3add Rops (mat_vec Rops M (a_pos a)) t) g).
Proof. rewrite cartesian_all. unfold shift_group, rot_group. rewrite !map_map. reflexivity. Qed.

Lemma distance_pairs_shift pbc cell t g1 g2 :
  cv_distance_pairs Rops pbc cell (shift_group t g1) (shift_group t g2) = cv_distance_pairs Rops pbc cell g1 g2.
Proof.
  unfold cv_distance_pairs, shift_group. rewrite flat_map_concat_map, map_map, <- flat_map_concat_map.
  apply flat_map_ext. intros a1. rewrite map_map. apply map_ext. intros a2. cbn [a_pos shift_atom]. rewrite pdist_shift. reflexivity.
Qed.
Lemma distance_pairs_rot pbc (M : M3) g1 g2 : proper_rotation M ->
  cv_distance_pairs Rops pbc None (rot_group M g1) (rot_group M g2) = cv_distance_pairs Rops pbc None g1 g2.
Proof.
  intros [Ho _]. unfold cv_distance_pairs, rot_group. rewrite flat_map_concat_map, map_map, <- flat_map_concat_map.
  apply flat_map_ext. intros a1. rewrite map_map. apply map_ext. intros a2. cbn [a_pos rot_atom].
  rewrite pdist_rot, norm_rot by exact Ho. reflexivity.
Qed.
Lemma distance_pairs_lattice lx ly lz n m g1 g2 : 0 < lx -> 0 < ly -> 0 < lz ->
  cv_distance_pairs Rops true (Some (lx, ly, lz)) (lshift lx ly lz n g1) (lshift lx ly lz m g2) =
  cv_distance_pairs Rops true (Some (lx, ly, lz)) g1 g2.
Proof.
  intros Hx Hy Hz. destruct n as [[n1 n2] n3]. destruct m as [[m1 m2] m3].
  unfold cv_distance_pairs, lshift, shift_group. rewrite flat_map_concat_map, map_map, <- flat_map_concat_map.
  apply flat_map_ext. intros a1. rewrite map_map. apply map_ext. intros a2. cbn [a_pos shift_atom].
  unfold pdist. rewrite pd_lattice by assumption. reflexivity.
Qed.

(* ------------------------------------------------------------------ coordNum with a pair list *)
Lemma rsum_flat_map {A B} (f : B -> R) (h : A -> list B) l : rsum f (flat_map h l) = rsum (fun a => rsum f (h a)) l.
Proof. induction l as [|a l IH]; cbn [flat_map rsum]; [reflexivity|]. rewrite rsum_app, IH. reflexivity. Qed.
Lemma combine_map_self {A B} (f : A -> B) (l : list A) : combine (map f l) l = map (fun x => (f x, x)) l.
Proof. induction l as [|a l IH]; cbn [map combine]; [reflexivity|]. rewrite IH. reflexivity. Qed.
Lemma switching_clamp r0 r0v en ed tol cell (p1 p2 : V3) :
  switching Rops r0 r0v en ed tol cell p1 p2 =
  (if Rltb (switching_raw Rops r0 r0v en ed tol cell p1 p2) 0 then 0 else switching_raw Rops r0 r0v en ed tol cell p1 p2).
Proof. unfold switching, switching_raw. destruct (position_distance Rops cell p1 p2) as [[x y] z]. reflexivity. Qed.
Lemma coordnum_all_pairs r0 r0v en ed tol cell g1 g2 :
  cv_coordnum Rops r0 r0v en ed tol cell g1 g2 =
  rsum (fun pr => switching Rops r0 r0v en ed tol cell (a_pos (fst pr)) (a_pos (snd pr))) (all_pairs g1 g2).
Proof.
  unfold cv_coordnum, all_pairs. rewrite pair_sum_eq, rsum_flat_map. apply rsum_ext. intros a1 _. rewrite rsum_map. reflexivity.
Qed.
(* a pair list built at the current positions gives exactly the full sum: the skipped pairs are those whose
   switching function is clamped to zero anyway *)
Lemma coordnum_pairlist_exact r0 r0v en ed tol cell g1 g2 : 0 <= tol ->
  cv_coordnum_pl Rops (pairlist_build Rops r0 r0v en ed tol cell g1 g2) r0 r0v en ed tol cell g1 g2 =
  cv_coordnum Rops r0 r0v en ed tol cell g1 g2.
Proof.
  intros Ht. rewrite coordnum_all_pairs. unfold cv_coordnum_pl, pairlist_build. rewrite lsum_eq, combine_map_self, rsum_map.
  apply rsum_ext. intros pr _. cbn [fst snd]. unfold nhalf. rs.
  destruct (Rltb (- (tol * (1 / 2))) _) eqn:E; [reflexivity|].
  apply Rltb_false in E. rewrite switching_clamp.
  set (raw := switching_raw Rops r0 r0v en ed tol cell (a_pos (fst pr)) (a_pos (snd pr))) in *.
  destruct (Rltb raw 0) eqn:E2; [reflexivity|]. apply Rltb_false in E2. lra.
Qed.
(* in general the pair-list value never exceeds the full sum and differs from it only by pairs not flagged at the rebuild *)
Lemma switching_nonneg r0 r0v en ed tol cell (p1 p2 : V3) : 0 <= switching Rops r0 r0v en ed tol cell p1 p2.
Proof. rewrite switching_clamp. destruct (Rltb _ 0) eqn:E; [lra|]. apply Rltb_false in E. exact E. Qed.
Lemma coordnum_pairlist_le (pl : list bool) r0 r0v en ed tol cell g1 g2 : length pl = length (all_pairs g1 g2) ->
  cv_coordnum_pl Rops pl r0 r0v en ed tol cell g1 g2 <= cv_coordnum Rops r0 r0v en ed tol cell g1 g2.
Proof.
  rewrite coordnum_all_pairs. unfold cv_coordnum_pl. rewrite lsum_eq. generalize (all_pairs g1 g2) as prs.
  revert pl. induction pl as [|b pl IH]; intros [|pr prs] Hl; cbn [combine rsum length] in *; try lra; try discriminate.
  injection Hl as Hl. specialize (IH prs Hl). cbn [fst snd].
  pose proof (switching_nonneg r0 r0v en ed tol cell (a_pos (fst pr)) (a_pos (snd pr))). rs.
  destruct b; lra.
Qed.

(* ------------------------------------------------------------------ every proper rotation is the matrix of a unit quaternion *)
Lemma qscale_rotation_matrix (w : R) (u : Q4) (a b c d e f g h i : R) :
  rotation_matrix Rops u = ((a, b, c), (d, e, f), (g, h, i)) ->
  rotation_matrix Rops (qscale w u) =
  ((w * w * a, w * w * b, w * w * c), (w * w * d, w * w * e, w * w * f), (w * w * g, w * w * h, w * w * i)).
Proof.
  dq u. unfold rotation_matrix, qscale. rs. intros H. inversion H; subst.
  repeat match goal with |- (_, _) = (_, _) => apply f_equal2 end; ring.
Qed.
Lemma qnorm2_qscale (w : R) (u : Q4) : qnorm2 (qscale w u) = w * w * qnorm2 u.
Proof. dq u. unfold qnorm2, qdot, qscale. rs. ring. Qed.

Lemma scaled_quaternion (u : Q4) (s : R) (a b c d e f g h i : R) : 0 < s -> qnorm2 u = 4 * s ->
  rotation_matrix Rops u = ((4 * s * a, 4 * s * b, 4 * s * c), (4 * s * d, 4 * s * e, 4 * s * f), (4 * s * g, 4 * s * h, 4 * s * i)) ->
  exists q : Q4, qnorm2 q = 1 /\ rotation_matrix Rops q = ((a, b, c), (d, e, f), (g, h, i)).
Proof.
  intros Hs Hn HR. set (w := / (2 * sqrt s)).
  assert (Hsq : 0 < sqrt s) by (apply sqrt_lt_R0; exact Hs).
  assert (Hw : w * w = / (4 * s)).
  { unfold w. rewrite <- Rinv_mult. f_equal. replace (2 * sqrt s * (2 * sqrt s)) with (4 * (sqrt s * sqrt s)) by ring.
    rewrite sqrt_sqrt by lra. reflexivity. }
  exists (qscale w u). split.
  - rewrite qnorm2_qscale, Hn, Hw. field. lra.
  - rewrite (qscale_rotation_matrix w u _ _ _ _ _ _ _ _ _ HR), Hw.
    repeat match goal with |- (_, _) = (_, _) => apply f_equal2 end; field; lra.
Qed.

Lemma sum3_sq_zero (x y z : R) : x * x + y * y + z * z = 0 -> x = 0 /\ y = 0 /\ z = 0.
Proof. intros H. repeat split; nra. Qed.
Lemma rotation_is_quaternion (M : M3) : proper_rotation M -> exists q : Q4, qnorm2 q = 1 /\ rotation_matrix Rops q = M.
Proof.
  dm M. rename Ma into a, Mb into b, Mc into c, Md into d, Me into e, Mf into f, Mg into g, Mh into h, Mi into i.
  intros [Ho Hdet]. apply orthogonal_eqs in Ho. destruct Ho as (C1 & C12 & C13 & C2 & C23 & C3).
  unfold det3 in Hdet.
  (* columns: c1 = c2 x c3, c2 = c3 x c1, c3 = c1 x c2 (cofactor equations) *)
  assert (S1 : (a - (e * i - f * h)) * (a - (e * i - f * h)) + (d - (c * h - b * i)) * (d - (c * h - b * i)) +
               (g - (b * f - c * e)) * (g - (b * f - c * e)) = 0).
  { transitivity ((a * a + d * d + g * g) - 2 * (a * (e * i - f * h) - b * (d * i - f * g) + c * (d * h - e * g)) +
                  ((b * b + e * e + h * h) * (c * c + f * f + i * i) - (b * c + e * f + h * i) * (b * c + e * f + h * i))); [ring|].
    rewrite C1, C2, C3, C23, Hdet. ring. }
  assert (S2 : (b - (f * g - d * i)) * (b - (f * g - d * i)) + (e - (a * i - c * g)) * (e - (a * i - c * g)) +
               (h - (c * d - a * f)) * (h - (c * d - a * f)) = 0).
  { transitivity ((b * b + e * e + h * h) - 2 * (a * (e * i - f * h) - b * (d * i - f * g) + c * (d * h - e * g)) +
                  ((c * c + f * f + i * i) * (a * a + d * d + g * g) - (a * c + d * f + g * i) * (a * c + d * f + g * i))); [ring|].
    rewrite C1, C2, C3, C13, Hdet. ring. }
  assert (S3 : (c - (d * h - e * g)) * (c - (d * h - e * g)) + (f - (b * g - a * h)) * (f - (b * g - a * h)) +
               (i - (a * e - b * d)) * (i - (a * e - b * d)) = 0).
  { transitivity ((c * c + f * f + i * i) - 2 * (a * (e * i - f * h) - b * (d * i - f * g) + c * (d * h - e * g)) +
                  ((a * a + d * d + g * g) * (b * b + e * e + h * h) - (a * b + d * e + g * h) * (a * b + d * e + g * h))); [ring|].
    rewrite C1, C2, C3, C12, Hdet. ring. }
  apply sum3_sq_zero in S1. destruct S1 as (Ka' & Kd' & Kg').
  apply sum3_sq_zero in S2. destruct S2 as (Kb' & Ke' & Kh').
  apply sum3_sq_zero in S3. destruct S3 as (Kc' & Kf' & Ki').
  assert (Ka : a = e * i - f * h) by lra. assert (Kd : d = c * h - b * i) by lra. assert (Kg : g = b * f - c * e) by lra.
  assert (Kb : b = f * g - d * i) by lra. assert (Ke : e = a * i - c * g) by lra. assert (Kh : h = c * d - a * f) by lra.
  assert (Kc : c = d * h - e * g) by lra. assert (Kf : f = b * g - a * h) by lra. assert (Ki : i = a * e - b * d) by lra.
  clear Ka' Kb' Kc' Kd' Ke' Kf' Kg' Kh' Ki'.
  (* rows are orthonormal too: M adj(M) = det(M) I with adj(M) = M^T *)
  assert (R1 : a * a + b * b + c * c = 1).
  { assert (a * a = a * (e * i - f * h)) by (f_equal; exact Ka). assert (b * b = b * (f * g - d * i)) by (f_equal; exact Kb).
    assert (c * c = c * (d * h - e * g)) by (f_equal; exact Kc). lra. }
  assert (R2 : d * d + e * e + f * f = 1).
  { assert (d * d = d * (c * h - b * i)) by (f_equal; exact Kd). assert (e * e = e * (a * i - c * g)) by (f_equal; exact Ke).
    assert (f * f = f * (b * g - a * h)) by (f_equal; exact Kf). lra. }
  assert (R3 : g * g + h * h + i * i = 1).
  { assert (g * g = g * (b * f - c * e)) by (f_equal; exact Kg). assert (h * h = h * (c * d - a * f)) by (f_equal; exact Kh).
    assert (i * i = i * (a * e - b * d)) by (f_equal; exact Ki). lra. }
  assert (R12 : a * d + b * e + c * f = 0).
  { assert (d * a = d * (e * i - f * h)) by (f_equal; exact Ka). assert (e * b = e * (f * g - d * i)) by (f_equal; exact Kb).
    assert (f * c = f * (d * h - e * g)) by (f_equal; exact Kc). lra. }
  assert (R13 : a * g + b * h + c * i = 0).
  { assert (g * a = g * (e * i - f * h)) by (f_equal; exact Ka). assert (h * b = h * (f * g - d * i)) by (f_equal; exact Kb).
    assert (i * c = i * (d * h - e * g)) by (f_equal; exact Kc). lra. }
  assert (R23 : d * g + e * h + f * i = 0).
  { assert (g * d = g * (c * h - b * i)) by (f_equal; exact Kd). assert (h * e = h * (a * i - c * g)) by (f_equal; exact Ke).
    assert (i * f = i * (b * g - a * h)) by (f_equal; exact Kf). lra. }
  (* one of the four diagonal entries of 4 q q^T = (1+a+e+i, 1+a-e-i, 1-a+e-i, 1-a-e+i) is at least 1 *)
  destruct (Rle_dec 1 (1 + a + e + i)) as [H0|H0].
  { apply (scaled_quaternion (1 + a + e + i, h - f, c - g, d - b) (1 + a + e + i)); [lra| |].
    - unfold qnorm2, qdot. rs. lra.
    - unfold rotation_matrix. rs. repeat match goal with |- (_, _) = (_, _) => apply f_equal2 end; lra. }
  destruct (Rle_dec 1 (1 + a - e - i)) as [H1|H1].
  { apply (scaled_quaternion (h - f, 1 + a - e - i, b + d, c + g) (1 + a - e - i)); [lra| |].
    - unfold qnorm2, qdot. rs. lra.
    - unfold rotation_matrix. rs. repeat match goal with |- (_, _) = (_, _) => apply f_equal2 end; lra. }
  destruct (Rle_dec 1 (1 - a + e - i)) as [H2|H2].
  { apply (scaled_quaternion (c - g, b + d, 1 - a + e - i, f + h) (1 - a + e - i)); [lra| |].
    - unfold qnorm2, qdot. rs. lra.
    - unfold rotation_matrix. rs. repeat match goal with |- (_, _) = (_, _) => apply f_equal2 end; lra. }
  apply (scaled_quaternion (d - b, c + g, f + h, 1 - a - e + i) (1 - a - e + i)); [lra| |].
  - unfold qnorm2, qdot. rs. lra.
  - unfold rotation_matrix. rs. repeat match goal with |- (_, _) = (_, _) => apply f_equal2 end; lra.
Qed.

(* the rigid-motion lemmas for every proper rotation matrix *)
Lemma rmsd_rigid_M (M : M3) (q q' : Q4) ref t g : proper_rotation M -> g <> [] ->
  is_optimal q (fit_pairs Rops ref g) -> is_optimal q' (fit_pairs Rops ref (shift_group t (rot_group M g))) ->
  cv_rmsd Rops q' ref (shift_group t (rot_group M g)) = cv_rmsd Rops q ref g.
Proof. intros HM. destruct (rotation_is_quaternion M HM) as [p [Hp <-]]. apply rmsd_rigid. exact Hp. Qed.
Lemma fitted_rigid_M (M : M3) (q q' : Q4) ref vec t g : proper_rotation M -> g <> [] ->
  unique_optimum (fit_pairs Rops ref g) ->
  is_optimal q (fit_pairs Rops ref g) -> is_optimal q' (fit_pairs Rops ref (shift_group t (rot_group M g))) ->
  fit_positions Rops q' ref (shift_group t (rot_group M g)) = fit_positions Rops q ref g /\
  cv_eigenvector Rops q' ref vec (shift_group t (rot_group M g)) = cv_eigenvector Rops q ref vec g.
Proof.
  intros HM. destruct (rotation_is_quaternion M HM) as [p [Hp <-]]. intros.
  split; [apply (fit_positions_rigid p q q') | apply (eigenvector_rigid p q q')]; assumption.
Qed.
Lemma orientation_rigid_M (M : M3) (q q' : Q4) ref t g : proper_rotation M -> g <> [] ->
  is_optimal q (orient_pairs Rops ref g) -> is_optimal q' (orient_pairs Rops ref (shift_group t (rot_group M g))) ->
  (exists p : Q4, qnorm2 p = 1 /\ rotation_matrix Rops p = M /\
                  is_optimal (qmul Rops p q) (orient_pairs Rops ref (shift_group t (rot_group M g)))) /\
  sq_dev Rops q' (orient_pairs Rops ref (shift_group t (rot_group M g))) = sq_dev Rops q (orient_pairs Rops ref g) /\
  (unique_optimum (orient_pairs Rops ref (shift_group t (rot_group M g))) ->
   forall v : V3, rotate Rops q' v = mat_vec Rops M (rotate Rops q v)).
Proof.
  intros HM Hg Hq Hq'. destruct (rotation_is_quaternion M HM) as [p [Hp HpM]]. subst M.
  assert (Hg' : rot_group (rotation_matrix Rops p) g <> []) by (destruct g; [congruence | discriminate]).
  split; [|split].
  - exists p. split; [exact Hp|]. split; [reflexivity|].
    rewrite orient_pairs_shift, orient_pairs_rot by exact Hg'. apply optimal_rot_second; assumption.
  - apply orientation_dev_rigid; assumption.
  - intros Hu v. apply (orientation_rigid p q q' ref t g); assumption.
Qed.

(* ------------------------------------------------------------------ groups fitted through a fitting group *)
Lemma fit_general_self (q : Q4) ref g : fit_general Rops true q ref g g = fit_positions Rops q ref g.
Proof. unfold fit_general, fit_positions, centered. cbv zeta. rewrite map_map. reflexivity. Qed.
Lemma fit_general_rigid (M : M3) (q q' : Q4) ref t fitg g : proper_rotation M -> fitg <> [] ->
  unique_optimum (fit_pairs Rops ref fitg) ->
  is_optimal q (fit_pairs Rops ref fitg) -> is_optimal q' (fit_pairs Rops ref (shift_group t (rot_group M fitg))) ->
  fit_general Rops true q' ref (shift_group t (rot_group M fitg)) (shift_group t (rot_group M g)) = fit_general Rops true q ref fitg g.
Proof.
  intros HM Hg Hu Hq Hq'. destruct (rotation_is_quaternion M HM) as [p [Hp HpM]]. subst M.
  assert (Hg' : rot_group (rotation_matrix Rops p) fitg <> []) by (destruct fitg; [congruence | discriminate]).
  rewrite fit_pairs_shift, fit_pairs_rot in Hq' by exact Hg'.
  pose proof (optimal_unrot_first p q' _ Hp Hq') as Hq'p.
  pose proof (Hu _ _ Hq'p Hq) as HMq.
  unfold fit_general. cbv zeta. rewrite cog_shift, cog_rot by exact Hg'.
  unfold shift_group, rot_group. rewrite !map_map. apply map_ext. intros a. cbn [a_pos shift_atom rot_atom].
  f_equal. rewrite v3sub_shift, mat_vec_sub.
  change (mat_vec Rops (rotation_matrix Rops p) (v3sub Rops (a_pos a) (cog Rops fitg))) with (rotate Rops p (v3sub Rops (a_pos a) (cog Rops fitg))).
  rewrite <- rotate_qmul. apply rotate_matrix_eq. exact HMq.
Qed.
(* centre only (rotateToReference off): translations of all atoms *)
Lemma fit_general_center_shift (q : Q4) ref t fitg g : fitg <> [] ->
  fit_general Rops false q ref (shift_group t fitg) (shift_group t g) = fit_general Rops false q ref fitg g.
Proof.
  intros Hg. unfold fit_general. cbv zeta. rewrite cog_shift by exact Hg. unfold shift_group. rewrite map_map.
  apply map_ext. intros a. cbn [a_pos shift_atom]. rewrite v3sub_shift. reflexivity.
Qed.

(* ------------------------------------------------------------------ rmsd with atomPermutation *)
Lemma min_sum_cons s0 w l : min_sum Rops s0 (w :: l) = min_sum Rops (if Rltb w s0 then w else s0) l.
Proof. reflexivity. Qed.
Lemma min_sum_le_init s0 l : min_sum Rops s0 l <= s0.
Proof.
  revert s0. induction l as [|v l IH]; intros s0; [unfold min_sum; cbn [fold_left]; lra|]. rewrite min_sum_cons.
  destruct (Rltb v s0) eqn:E; [apply Rltb_true in E; specialize (IH v); lra | apply IH].
Qed.
Lemma min_sum_le_each s0 l v : In v l -> min_sum Rops s0 l <= v.
Proof.
  revert s0. induction l as [|w l IH]; intros s0 H; [contradiction|]. rewrite min_sum_cons.
  destruct H as [Hw|H]; [subst w|apply IH, H].
  destruct (Rltb v s0) eqn:E.
  - apply min_sum_le_init.
  - apply Rltb_false in E. pose proof (min_sum_le_init s0 l). lra.
Qed.
Lemma cv_rmsd_perm_nil (q : Q4) ref g : cv_rmsd_perm Rops q ref [] g = cv_rmsd Rops q ref g.
Proof. reflexivity. Qed.
(* the symmetry-adapted rmsd is the smallest of the rmsd values against the reference and its listed permuted copies *)
Lemma cv_rmsd_perm_min (q : Q4) ref perms g :
  cv_rmsd_perm Rops q ref perms g <= cv_rmsd Rops q ref g /\
  (forall perm, In perm perms ->
     cv_rmsd_perm Rops q ref perms g <= sqrt (perm_sum Rops (fit_positions Rops q ref g) ref perm / INR (length g))).
Proof.
  unfold cv_rmsd_perm, cv_rmsd. cbv zeta. rewrite INR_nofnat. rs.
  assert (Hn : 0 <= / INR (length g)).
  { destruct (length g) as [|n]; [cbn; rewrite Rinv_0; lra|]. left. apply Rinv_0_lt_compat, lt_0_INR. lia. }
  split.
  - apply sqrt_le_1_alt. unfold Rdiv. apply Rmult_le_compat_r; [exact Hn | apply min_sum_le_init].
  - intros perm Hp. apply sqrt_le_1_alt. unfold Rdiv. apply Rmult_le_compat_r; [exact Hn|].
    apply min_sum_le_each. apply in_map. exact Hp.
Qed.

(* ------------------------------------------------------------------ the pair list over steps and run boundaries *)
Section PairListRuns.
  Variables (freq : Z) (r0 : R) (r0v : option V3) (en ed : Z) (tol : R) (cell : option V3).
  Local Notation frame := (list atomR * list atomR)%type.
  Local Notation full fr := (cv_coordnum Rops r0 r0v en ed tol cell (fst fr) (snd fr)).
  Local Notation build fr := (pairlist_build Rops r0 r0v en ed tol cell (fst fr) (snd fr)).
  Local Notation run := (pl_run Rops freq r0 r0v en ed tol cell).

  Lemma pl_run_length st rel (frames : list frame) : length (fst (run st rel frames)) = length frames.
  Proof.
    revert st rel. induction frames as [|fr rest IH]; intros st rel; cbn [pl_run]; [reflexivity|].
    destruct (pl_step Rops freq r0 r0v en ed tol cell st rel fr) as [st1 v].
    specialize (IH st1 (Z.succ rel)). destruct (run st1 (Z.succ rel) rest) as [vs st2]. cbn [fst length] in *. f_equal. exact IH.
  Qed.
  (* at every step whose relative number is a multiple of the frequency the value is the full sum for the current
     coordinates, whatever the list held before (also garbage) *)
  Lemma pl_run_rebuild st rel (frames : list frame) k fr : nth_error frames k = Some fr ->
    ((rel + Z.of_nat k) mod freq = 0)%Z -> nth_error (fst (run st rel frames)) k = Some (full fr).
  Proof.
    revert st rel k. induction frames as [|f0 rest IH]; intros st rel k Hk Hm; [destruct k; discriminate|].
    cbn [pl_run]. destruct (pl_step Rops freq r0 r0v en ed tol cell st rel f0) as [st1 v] eqn:Es.
    specialize (IH st1 (Z.succ rel)). destruct (run st1 (Z.succ rel) rest) as [vs st2]. cbn [fst] in *.
    destruct k as [|k]; cbn [nth_error] in *.
    - injection Hk as ->. unfold pl_step in Es. rewrite Z.add_0_r in Hm. rewrite Hm, Z.eqb_refl in Es.
      injection Es as _ <-. reflexivity.
    - apply IH; [exact Hk|]. replace (Z.succ rel + Z.of_nat k)%Z with (rel + Z.of_nat (S k))%Z by lia. exact Hm.
  Qed.
  (* in particular at the first step of every run of a session *)
  Lemma pl_session_first st (runs : list (list frame)) j rn fr : nth_error runs j = Some rn -> nth_error rn 0 = Some fr ->
    exists vs, nth_error (pl_session Rops freq r0 r0v en ed tol cell st runs) j = Some vs /\ nth_error vs 0 = Some (full fr).
  Proof.
    revert st j. induction runs as [|r1 rest IH]; intros st j Hj H0; [destruct j; discriminate|].
    cbn [pl_session]. destruct (run st 0%Z r1) as [vs st1] eqn:Er.
    destruct j as [|j]; cbn [nth_error] in *.
    - injection Hj as Hj. subst r1. exists vs. split; [reflexivity|].
      assert (H := pl_run_rebuild st 0%Z rn 0 fr H0 (Zmod_0_l freq)). rewrite Er in H. exact H.
    - apply IH; assumption.
  Qed.
  (* while the atoms do not move after a rebuild the list stays exact *)
  Lemma pl_run_static fr st rel n : 0 <= tol -> (st = build fr \/ (rel mod freq = 0)%Z) ->
    fst (run st rel (repeat fr n)) = repeat (full fr) n.
  Proof.
    intros Ht. revert st rel. induction n as [|n IH]; intros st rel Hst; [reflexivity|].
    cbn [repeat pl_run]. unfold pl_step.
    destruct (Z.eqb (rel mod freq) 0) eqn:E.
    - specialize (IH (build fr) (Z.succ rel) (or_introl eq_refl)).
      destruct (run (build fr) (Z.succ rel) (repeat fr n)) as [vs st2]. cbn [fst] in *. rewrite IH. reflexivity.
    - destruct Hst as [->|Hm]; [|apply Z.eqb_neq in E; contradiction].
      specialize (IH (build fr) (Z.succ rel) (or_introl eq_refl)).
      destruct (run (build fr) (Z.succ rel) (repeat fr n)) as [vs st2]. cbn [fst] in *. rewrite IH.
      f_equal. apply coordnum_pairlist_exact. exact Ht.
  Qed.
  (* at every step the value is at most the full sum for the current coordinates: a stale list can only drop pairs
     (those that were beyond the margin, func <= -tolerance/2, at the last rebuild) *)
  Lemma pl_run_le (npairs : nat) st rel (frames : list frame) : length st = npairs ->
    Forall (fun fr : frame => length (all_pairs (fst fr) (snd fr)) = npairs) frames ->
    Forall2 (fun v (fr : frame) => v <= full fr) (fst (run st rel frames)) frames.
  Proof.
    revert st rel. induction frames as [|fr rest IH]; intros st rel Hst Hall; cbn [pl_run]; [constructor|].
    apply Forall_cons_iff in Hall. destruct Hall as [Hfr Hrest].
    unfold pl_step. destruct (Z.eqb (rel mod freq) 0).
    - specialize (IH (build fr) (Z.succ rel)).
      destruct (run (build fr) (Z.succ rel) rest) as [vs st2]. cbn [fst] in *. constructor; [lra|].
      apply IH; [|exact Hrest]. unfold pairlist_build. rewrite map_length. exact Hfr.
    - specialize (IH st (Z.succ rel)).
      destruct (run st (Z.succ rel) rest) as [vs st2]. cbn [fst] in *. constructor.
      + apply coordnum_pairlist_le. rewrite Hfr. exact Hst.
      + apply IH; assumption.
  Qed.
End PairListRuns.

(* ------------------------------------------------------------------ arithmetic path variables *)
Fixpoint wrsum (i : nat) (l : list R) : R := match l with [] => 0 | e :: r => INR i * e + wrsum (S i) r end.
Lemma weighted_index_sum_eq i acc l : weighted_index_sum Rops i acc l = acc + wrsum i l.
Proof.
  revert i acc. induction l as [|e r IH]; intros i acc; cbn [weighted_index_sum wrsum]; [lra|].
  rewrite IH, INR_nofnat. rs. lra.
Qed.
Lemma wrsum_scal c i l : wrsum i (map (fun e => e * c) l) = wrsum i l * c.
Proof. revert i. induction l as [|e r IH]; intros i; cbn [map wrsum]; [lra|]. rewrite IH. ring. Qed.
Lemma rsum_exp_pos {A} (f : A -> R) l : l <> [] -> 0 < rsum (fun a => exp (f a)) l.
Proof.
  destruct l as [|a l]; [congruence|]. intros _. cbn [rsum].
  assert (H : forall l', 0 <= rsum (fun a => exp (f a)) l').
  { induction l' as [|b l' IH]; cbn [rsum]; [lra|]. pose proof (exp_pos (f b)). lra. }
  pose proof (exp_pos (f a)). specialize (H l). lra.
Qed.
(* the log-sum-exp evaluation gives the textbook expressions, whatever exponent is subtracted:
   z = -(1/lambda) ln sum_i exp(-lambda d_i),  s = (1/(F-1)) sum_i i exp(-lambda d_i) / sum_i exp(-lambda d_i) *)
Lemma apath_closed (lambda : R) (ds : list R) : ds <> [] ->
  let A0 := rsum (fun d => exp (- lambda * d)) ds in
  let A1 := wrsum 0 (map (fun d => exp (- lambda * d)) ds) in
  snd (apath_sz Rops lambda ds) = - 1 / lambda * ln A0 /\
  (0 < A1 -> fst (apath_sz Rops lambda ds) = 1 / INR (length ds - 1) * (A1 / A0)).
Proof.
  intros Hne A0 A1. unfold apath_sz. cbv zeta. cbn [fst snd].
  set (es := map (fun d => nmul Rops (nmul Rops d (nneg Rops (n1 Rops))) lambda) ds).
  set (mx := match es with [] => n0 Rops | e0 :: r => max_from Rops e0 r end).
  assert (HA0 : 0 < A0) by (apply rsum_exp_pos; exact Hne).
  assert (Hxs : map (fun e => nexp Rops (nsub Rops e mx)) es = map (fun d => exp (- lambda * d) * exp (- mx)) ds).
  { unfold es. rewrite map_map. apply map_ext. intros d. rs. rewrite <- exp_plus. f_equal. ring. }
  rewrite Hxs, lsum_eq, weighted_index_sum_eq, rsum_map.
  assert (Hmap : map (fun d : R => exp (- lambda * d) * exp (- mx)) ds = map (fun e => e * exp (- mx)) (map (fun d => exp (- lambda * d)) ds))
    by (rewrite map_map; reflexivity).
  rewrite Hmap, wrsum_scal. fold A1. rewrite rsum_scal_r. fold A0. rs.
  assert (Hem : 0 < exp (- mx)) by apply exp_pos.
  assert (L0 : mx + ln (A0 * exp (- mx)) = ln A0) by (rewrite ln_mult by assumption; rewrite ln_exp; ring).
  split.
  - rewrite L0. reflexivity.
  - intros HA1. rewrite INR_nofnat, L0.
    assert (L1 : mx + ln (0 + A1 * exp (- mx)) = ln A1) by (rewrite Rplus_0_l, ln_mult by assumption; rewrite ln_exp; ring).
    rewrite L1. unfold Rminus. rewrite exp_plus, exp_Ropp, !exp_ln by assumption. reflexivity.
Qed.

Lemma frame_wsd_dev (q : Q4) ref g :
  frame_wsd Rops q ref g = sqrt (1 / INR (length g)) * sqrt (1 / INR (length g)) * sq_dev Rops q (fit_pairs Rops ref g).
Proof.
  unfold frame_wsd. cbv zeta. rewrite lsum_eq, INR_nofnat, sq_dev_R. rs. rewrite rsum_scal.
  unfold fit_positions, fit_pairs, center_pts. cbv zeta. rewrite fit_dev_eq. reflexivity.
Qed.
Lemma frame_wsd_rigid (M : M3) (q q' : Q4) ref t g : proper_rotation M -> g <> [] ->
  is_optimal q (fit_pairs Rops ref g) -> is_optimal q' (fit_pairs Rops ref (shift_group t (rot_group M g))) ->
  frame_wsd Rops q' ref (shift_group t (rot_group M g)) = frame_wsd Rops q ref g.
Proof.
  intros HM Hg Hq Hq'. destruct (rotation_is_quaternion M HM) as [p [Hp HpM]]. subst M.
  assert (Hg' : rot_group (rotation_matrix Rops p) g <> []) by (destruct g; [congruence | discriminate]).
  rewrite !frame_wsd_dev. rewrite fit_pairs_shift, fit_pairs_rot in * by exact Hg'.
  rewrite length_shift, length_rot, (optimal_dev_rot_first p q q' _ Hp Hq Hq'). reflexivity.
Qed.
(* aspath / azpath are unchanged by a rigid motion of all atoms (each frame's own optimal superposition) *)
Lemma apath_rigid (M : M3) lambda (qs qs' : list Q4) (frames : list (list V3)) t g : proper_rotation M -> g <> [] ->
  Forall2 (fun q fr => is_optimal q (fit_pairs Rops fr g)) qs frames ->
  Forall2 (fun q fr => is_optimal q (fit_pairs Rops fr (shift_group t (rot_group M g)))) qs' frames ->
  cv_apath Rops lambda qs' frames (shift_group t (rot_group M g)) = cv_apath Rops lambda qs frames g.
Proof.
  intros HM Hg H1 H2. unfold cv_apath. f_equal.
  revert qs' H2. induction H1 as [|q fr qs frames Hq H1 IH]; intros qs' H2; inversion H2 as [|q' fr' qs'' frames' Hq' H2']; subst; [reflexivity|].
  cbn [combine map fst snd]. f_equal; [apply (frame_wsd_rigid M q q'); assumption | apply IH; exact H2'].
Qed.

(* ------------------------------------------------------------------ pair lists of selfCoordNum and group2CenterOnly *)
Lemma pl_pts_exact r0 r0v en ed tol cell (pts : list (V3 * V3)) : 0 <= tol ->
  pl_value_pts Rops (pl_build_pts Rops r0 r0v en ed tol cell pts) r0 r0v en ed tol cell pts =
  rsum (fun pr => switching Rops r0 r0v en ed tol cell (fst pr) (snd pr)) pts.
Proof.
  intros Ht. unfold pl_value_pts, pl_build_pts. rewrite lsum_eq, combine_map_self, rsum_map.
  apply rsum_ext. intros pr _. cbn [fst snd]. unfold nhalf. rs.
  destruct (Rltb (- (tol * (1 / 2))) _) eqn:E; [reflexivity|].
  apply Rltb_false in E. rewrite switching_clamp.
  set (raw := switching_raw Rops r0 r0v en ed tol cell (fst pr) (snd pr)) in *.
  destruct (Rltb raw 0) eqn:E2; [reflexivity|]. apply Rltb_false in E2. lra.
Qed.
Lemma self_rsum_pts (f : V3 -> V3 -> R) (l : list atomR) :
  self_rsum (fun a b => f (a_pos a) (a_pos b)) l = rsum (fun pr => f (fst pr) (snd pr)) (self_pts l).
Proof.
  induction l as [|a r IH]; cbn [self_rsum self_pts rsum]; [reflexivity|]. rewrite rsum_app, rsum_map, IH. reflexivity.
Qed.
Lemma selfcoordnum_pairlist_exact r0 en ed tol cell g : 0 <= tol ->
  pl_value_pts Rops (pl_build_pts Rops r0 None en ed tol cell (self_pts g)) r0 None en ed tol cell (self_pts g) =
  cv_selfcoordnum Rops r0 en ed tol cell g.
Proof.
  intros Ht. rewrite pl_pts_exact by exact Ht. unfold cv_selfcoordnum. rewrite self_sum_from_eq. rs.
  rewrite (self_rsum_pts (fun p1 p2 => switching Rops r0 None en ed tol cell p1 p2) g). lra.
Qed.
Lemma coordnum_center_pairlist_exact r0 r0v en ed tol cell g1 g2 : 0 <= tol ->
  pl_value_pts Rops (pl_build_pts Rops r0 r0v en ed tol cell (center_pairs Rops g1 g2)) r0 r0v en ed tol cell (center_pairs Rops g1 g2) =
  cv_coordnum_center Rops r0 r0v en ed tol cell g1 g2.
Proof.
  intros Ht. rewrite pl_pts_exact by exact Ht. unfold cv_coordnum_center, center_pairs. cbv zeta.
  rewrite lsum_eq, rsum_map. reflexivity.
Qed.

(* ------------------------------------------------------------------ eigenvector: prepared vectors *)
Lemma cv_eigenvector_v_centered (q : Q4) ref vec g :
  cv_eigenvector_v Rops q ref (eigvec_prepare Rops false false q ref vec) g = cv_eigenvector Rops q ref vec g.
Proof. reflexivity. Qed.
Lemma vnorm2_sum_scale c (v : list V3) : vnorm2_sum Rops (map (v3scale Rops c) v) = c * c * vnorm2_sum Rops v.
Proof.
  unfold vnorm2_sum. rewrite !lsum_eq, rsum_map, <- rsum_scal. apply rsum_ext. intros p _.
  dv p. unfold v3norm2, v3dot, v3scale. rs. ring.
Qed.
(* normalizeVector: the vector used has unit norm *)
Lemma eigvec_normalized (difference : bool) (qd : Q4) (ref vec : list V3) :
  0 < vnorm2_sum Rops (if difference then map (fun pr => v3sub Rops (rotate Rops qd (fst pr)) (snd pr)) (combine (center_pts Rops vec) (center_pts Rops ref))
                       else center_pts Rops vec) ->
  vnorm2_sum Rops (eigvec_prepare Rops difference true qd ref vec) = 1.
Proof.
  intros H. unfold eigvec_prepare. cbv zeta.
  destruct difference; rewrite vnorm2_sum_scale; rs;
    (rewrite sqrt_sqrt; [field; lra|]; unfold Rdiv; rewrite Rmult_1_l; left; apply Rinv_0_lt_compat; exact H).
Qed.
Lemma eigenvector_v_rigid (M : M3) (q q' : Q4) ref v t g : proper_rotation M -> g <> [] ->
  unique_optimum (fit_pairs Rops ref g) ->
  is_optimal q (fit_pairs Rops ref g) -> is_optimal q' (fit_pairs Rops ref (shift_group t (rot_group M g))) ->
  cv_eigenvector_v Rops q' ref v (shift_group t (rot_group M g)) = cv_eigenvector_v Rops q ref v g.
Proof.
  intros HM Hg Hu Hq Hq'. unfold cv_eigenvector_v.
  destruct (fitted_rigid_M M q q' ref v t g HM Hg Hu Hq Hq') as [E _]. rewrite E. reflexivity.
Qed.

(* ------------------------------------------------------------------ pair lists of selfCoordNum / group2CenterOnly over runs *)
Section PairListRunsPts.
  Variables (freq : Z) (r0 : R) (r0v : option V3) (en ed : Z) (tol : R) (cell : option V3).
  Local Notation runp := (pl_run_pts Rops freq r0 r0v en ed tol cell).
  Lemma pl_run_pts_rebuild st rel (frames : list (list (V3 * V3))) k fr : nth_error frames k = Some fr ->
    ((rel + Z.of_nat k) mod freq = 0)%Z ->
    nth_error (fst (runp st rel frames)) k = Some (pts_full Rops r0 r0v en ed tol cell fr).
  Proof.
    revert st rel k. induction frames as [|f0 rest IH]; intros st rel k Hk Hm; [destruct k; discriminate|].
    cbn [pl_run_pts]. destruct (pl_step_pts Rops freq r0 r0v en ed tol cell st rel f0) as [st1 v] eqn:Es.
    specialize (IH st1 (Z.succ rel)). destruct (runp st1 (Z.succ rel) rest) as [vs st2]. cbn [fst] in *.
    destruct k as [|k]; cbn [nth_error] in *.
    - injection Hk as ->. unfold pl_step_pts in Es. rewrite Z.add_0_r in Hm. rewrite Hm, Z.eqb_refl in Es.
      injection Es as _ <-. reflexivity.
    - apply IH; [exact Hk|]. replace (Z.succ rel + Z.of_nat k)%Z with (rel + Z.of_nat (S k))%Z by lia. exact Hm.
  Qed.
  Lemma pl_session_pts_first st (runs : list (list (list (V3 * V3)))) j rn fr : nth_error runs j = Some rn -> nth_error rn 0 = Some fr ->
    exists vs, nth_error (pl_session_pts Rops freq r0 r0v en ed tol cell st runs) j = Some vs /\
               nth_error vs 0 = Some (pts_full Rops r0 r0v en ed tol cell fr).
  Proof.
    revert st j. induction runs as [|r1 rest IH]; intros st j Hj H0; [destruct j; discriminate|].
    cbn [pl_session_pts]. destruct (runp st 0%Z r1) as [vs st1] eqn:Er.
    destruct j as [|j]; cbn [nth_error] in *.
    - injection Hj as Hj. subst r1. exists vs. split; [reflexivity|].
      assert (H := pl_run_pts_rebuild st 0%Z rn 0 fr H0 (Zmod_0_l freq)). rewrite Er in H. exact H.
    - apply IH; assumption.
  Qed.
End PairListRunsPts.
Lemma pts_full_self r0 en ed tol cell g : pts_full Rops r0 None en ed tol cell (self_pts g) = cv_selfcoordnum Rops r0 en ed tol cell g.
Proof.
  unfold pts_full, cv_selfcoordnum. rewrite lsum_eq, self_sum_from_eq. rs.
  rewrite (self_rsum_pts (fun p1 p2 => switching Rops r0 None en ed tol cell p1 p2) g). lra.
Qed.
Lemma pts_full_center r0 r0v en ed tol cell g1 g2 :
  pts_full Rops r0 r0v en ed tol cell (center_pairs Rops g1 g2) = cv_coordnum_center Rops r0 r0v en ed tol cell g1 g2.
Proof. unfold pts_full, cv_coordnum_center, center_pairs. cbv zeta. rewrite !lsum_eq, rsum_map. reflexivity. Qed.
