(* C02 lemmas: the variable's value over histories of run-time parameter changes (real-number instance). *)
From Coq Require Import ZArith List Bool Reals Lra Lia.
From CV Require Import Base.Num Base.RNum C18.ValueModel C02.ValueModel C02.ValueProofs.
Import ListNotations.
Local Open Scope R_scope.

Notation supR := (@sup_comp R).
Definition term_of (c : supR) (q : R) : R :=
  if su_active c then su_coeff c * (if Z.eqb (su_exp c) 1 then q else ipow Rops q (su_exp c)) else 0.

(* the value is the sum over the ENABLED components of coeff * q^exp with whatever parameters the components hold NOW *)
Lemma sup_scalar_sum (comps : list supR) (qs : list R) :
  sup_scalar Rops comps qs = rsum (fun cq => term_of (fst cq) (snd cq)) (combine comps qs).
Proof.
  unfold sup_scalar.
  assert (H : forall l acc, fold_left (fun s (cq : supR * R) => if su_active (fst cq)
              then nadd Rops s (nmul Rops (su_coeff (fst cq)) (if Z.eqb (su_exp (fst cq)) 1 then snd cq else ipow Rops (snd cq) (su_exp (fst cq))))
              else s) l acc = acc + rsum (fun cq => term_of (fst cq) (snd cq)) l).
  { induction l as [|[c q] l IH]; intros acc; cbn [fold_left rsum fst snd]; [lra|]. rewrite IH. unfold term_of.
    destruct (su_active c); rs; lra. }
  rewrite H. rs. lra.
Qed.

(* what a history leaves in the components *)
Lemma sup_apply_length (comps : list supR) e : length (sup_apply comps e) = length comps.
Proof.
  destruct e as [confs|flags]; cbn [sup_apply].
  - destruct (Nat.eqb (length confs) (length comps)) eqn:E; [|reflexivity].
    apply Nat.eqb_eq in E. rewrite map_length, combine_length, E. apply Nat.min_id.
  - destruct (Nat.eqb (length flags) (length comps)) eqn:E; [|reflexivity].
    apply Nat.eqb_eq in E. rewrite map_length, combine_length, E. apply Nat.min_id.
Qed.
Lemma sup_run_length h (comps : list supR) : length (sup_run h comps) = length comps.
Proof.
  unfold sup_run. revert comps. induction h as [|e h IH]; intros comps; cbn [fold_left]; [reflexivity|].
  rewrite IH. apply sup_apply_length.
Qed.
Lemma sup_run_app h1 h2 (comps : list supR) : sup_run (h1 ++ h2) comps = sup_run h2 (sup_run h1 comps).
Proof. unfold sup_run. apply fold_left_app. Qed.
(* a modifycvcs with one entry per component gives component i the new coefficient / exponent and keeps what it does not name *)
Lemma sup_modify_nth (comps : list supR) confs i d dc : length confs = length comps -> (i < length comps)%nat ->
  nth i (sup_apply comps (SupModify confs)) d = sup_modify (nth i confs dc) (nth i comps d).
Proof.
  intros Hl Hi. cbn [sup_apply]. rewrite Hl, Nat.eqb_refl.
  rewrite (nth_indep _ d (sup_modify (fst (dc, d)) (snd (dc, d)))) by (rewrite map_length, combine_length, Hl, Nat.min_id; exact Hi).
  rewrite (map_nth (fun cc => sup_modify (fst cc) (snd cc))), combine_nth by exact Hl. reflexivity.
Qed.
Lemma sup_flags_nth (comps : list supR) flags i d : length flags = length comps -> (i < length comps)%nat ->
  nth i (sup_apply comps (SupFlags flags)) d =
  mkSupComp (su_coeff (nth i comps d)) (su_exp (nth i comps d)) (nth i flags false).
Proof.
  intros Hl Hi. cbn [sup_apply]. rewrite Hl, Nat.eqb_refl.
  set (f := fun fc : bool * supR => mkSupComp (su_coeff (snd fc)) (su_exp (snd fc)) (fst fc)).
  rewrite (nth_indep _ d (f (false, d))) by (rewrite map_length, combine_length, Hl, Nat.min_id; exact Hi).
  rewrite (map_nth f), combine_nth by exact Hl. reflexivity.
Qed.
(* a wrong number of entries changes nothing (the command is rejected) *)
Lemma sup_apply_rejected (comps : list supR) confs flags : length confs <> length comps -> length flags <> length comps ->
  sup_apply comps (SupModify confs) = comps /\ sup_apply comps (SupFlags flags) = comps.
Proof.
  intros H1 H2. cbn [sup_apply]. apply Nat.eqb_neq in H1. apply Nat.eqb_neq in H2. rewrite H1, H2. split; reflexivity.
Qed.

(* vector variables: coordinate j is the sum over the enabled components of coeff * (coordinate j of the component) *)
Lemma vadd_nth (a b : list R) j : length a = length b -> nth j (vadd Rops a b) 0 = nth j a 0 + nth j b 0.
Proof.
  intros Hl. unfold vadd. destruct (Nat.lt_ge_cases j (length a)) as [Hj|Hj].
  - rewrite (nth_indep _ 0 ((fun ab : R * R => nadd Rops (fst ab) (snd ab)) (0, 0))) by (rewrite map_length, combine_length, <- Hl, Nat.min_id; exact Hj).
    rewrite (map_nth (fun ab : R * R => nadd Rops (fst ab) (snd ab))), combine_nth by exact Hl. reflexivity.
  - rewrite !nth_overflow; [lra| lia | lia |]. rewrite map_length, combine_length, <- Hl, Nat.min_id. exact Hj.
Qed.
Lemma vadd_length (a b : list R) : length a = length b -> length (vadd Rops a b) = length a.
Proof. intros H. unfold vadd. rewrite map_length, combine_length, <- H. apply Nat.min_id. Qed.
Lemma sup_vector_sum n (comps : list supR) (qs : list (list R)) j : Forall (fun q => length q = n) qs ->
  nth j (sup_vector Rops n comps qs) 0 =
  rsum (fun cq => if su_active (fst cq) then su_coeff (fst cq) * nth j (snd cq) 0 else 0) (combine comps qs).
Proof.
  intros Hq. unfold sup_vector.
  assert (H : forall l acc, length acc = n -> Forall (fun cq : supR * list R => length (snd cq) = n) l ->
     nth j (fold_left (fun s (cq : supR * list R) => if su_active (fst cq) then vadd Rops s (map (fun x => nmul Rops (su_coeff (fst cq)) x) (snd cq)) else s) l acc) 0 =
     nth j acc 0 + rsum (fun cq => if su_active (fst cq) then su_coeff (fst cq) * nth j (snd cq) 0 else 0) l).
  { induction l as [|[c q] l IH]; intros acc Hacc Hall; cbn [fold_left rsum fst snd]; [lra|].
    apply Forall_cons_iff in Hall. destruct Hall as [Hc Hall]. cbn [snd] in Hc.
    destruct (su_active c).
    - rewrite IH; [|rewrite vadd_length; rewrite ?map_length; congruence | exact Hall].
      rewrite vadd_nth by (rewrite map_length; congruence).
      replace (nth j (map (fun x => nmul Rops (su_coeff c) x) q) 0) with (su_coeff c * nth j q 0); [lra|].
      rs. replace 0 with (su_coeff c * 0) at 2 by ring. rewrite (map_nth (fun x => su_coeff c * x)). reflexivity.
    - rewrite IH by assumption. lra. }
  rewrite H.
  - rs. replace (nth j (repeat 0 n) 0) with 0; [lra|]. clear. revert j. induction n as [|n IH]; intros [|j]; cbn; auto.
  - apply repeat_length.
  - clear H. revert comps. induction Hq as [|q qs Hq1 Hq IH]; intros [|c comps]; cbn [combine]; constructor; [exact Hq1 | apply IH].
Qed.
