(* C02, fifth file: positions read from a coordinate file are attached to the right atoms for every listing order
   (atom_group::create_sorted_ids + cvm::load_coords).  Discrete: no axioms. *)
From Coq Require Import ZArith List Bool Permutation.
From CV Require Import Base.Num C18.ValueModel C02.ValueModel C02.ValueProofs C02.LoadModel C02.LoadProofs.
Import ListNotations.

(* sorted_atoms_ids is the increasing rearrangement of the group's ids *)
Theorem C02_sorted_ids_sorted : forall ids : list Z,
  Permutation ids (sorted_ids ids) /\ increasing (sorted_ids ids) /\ length (sorted_map ids) = length ids.
Proof.
  intros ids. split; [apply sorted_ids_perm | split; [apply sorted_ids_increasing|]].
  unfold sorted_map. rewrite map_length. apply sorted_ids_length.
Qed.
Print Assumptions C02_sorted_ids_sorted.
(* a file gives one entry per atom, in increasing id order (file x = the entry of atom x); after load_coords the atom
   listed at place k of the group carries the entry of ITS id, whatever the order in which the group lists its atoms *)
Theorem C02_load_coords_attaches_to_listed_atoms : forall (A : Type) (file : Z -> A) (d : A) (ids : list Z), NoDup ids ->
  load_coords d ids (map file (sorted_ids ids)) = map file ids.
Proof. intros A. exact load_coords_correct. Qed.
Print Assumptions C02_load_coords_attaches_to_listed_atoms.
(* the map is the one load_coords needs: entry ii of the sorted list sits at place sorted_map[ii] of the group *)
Theorem C02_sorted_map_points_back : forall (ids : list Z) (i : nat), NoDup ids -> i < length ids ->
  nth (nth i (sorted_map ids) O) ids 0%Z = nth i (sorted_ids ids) 0%Z.
Proof.
  intros ids i Hnd Hi. unfold sorted_map.
  rewrite (nth_indep _ O (index_of 0%Z ids)) by (rewrite map_length, sorted_ids_length; exact Hi).
  change (index_of 0%Z ids) with ((fun s : Z => index_of s ids) 0%Z).
  rewrite map_nth. apply nth_index_of.
  apply (Permutation_in _ (Permutation_sym (sorted_ids_perm ids))). apply nth_In. rewrite sorted_ids_length. exact Hi.
Qed.
Print Assumptions C02_sorted_map_points_back.
(* atom selections: the group holds exactly the selected atoms that have a valid id, each once (C02_duplicates_ignored),
   in the order of first selection; a range a-b selects a, a+1, ..., b *)
Theorem C02_selection_membership : forall (T : Type) (l : list (@atom T)) (i : Z),
  (In i (map a_id (mk_group l)) <-> In i (map a_id l) /\ (0 <= i)%Z) /\
  (forall a b, In i (range_list a b) <-> (a <= i <= b)%Z) /\
  (forall a b, length (range_list a b) = Z.to_nat (b - a + 1)).
Proof. intros T l i. split; [apply mk_group_ids | split; [intros; apply range_list_in | intros; apply range_list_length]]. Qed.
Print Assumptions C02_selection_membership.
Example C02_example_load : load_coords 0%Z [3; 5; 2; 6]%Z [20; 30; 50; 60]%Z = [30; 50; 20; 60]%Z /\ sorted_map [3; 5; 2; 6]%Z = [2; 0; 1; 3].
Proof. split; reflexivity. Qed.
