(* C02 lemmas: minimum image in a general (triclinic) cell (real-number instance). *)
From Coq Require Import ZArith List Bool Reals Lra Lia.
From Flocq Require Import Core.Raux.
From CV Require Import Base.Num Base.RNum C18.ValueModel C18.ValueProofs C02.ValueModel C02.ValueProofs.
Import ListNotations.
Local Open Scope R_scope.

Definition triple (a b c : V3) : R := v3dot Rops (v3cross Rops b c) a.
Definition lattice3 (a b c : V3) (n1 n2 n3 : Z) : V3 :=
  v3add Rops (v3add Rops (v3scale Rops (IZR n1) a) (v3scale Rops (IZR n2) b)) (v3scale Rops (IZR n3) c).
Definition reduced (a b c : V3) (v : V3) : R * R * R :=
  let '(rx, ry, rz) := recip_cell Rops a b c in (v3dot Rops rx v, v3dot Rops ry v, v3dot Rops rz v).

Lemma triple_cyc (a b c : V3) : v3dot Rops (v3cross Rops c a) b = triple a b c /\ v3dot Rops (v3cross Rops a b) c = triple a b c.
Proof. dv a; dv b; dv c. unfold triple, v3dot, v3cross. rs. split; ring. Qed.

(* reduced coordinates of a vector plus a lattice vector: the integers add *)
Lemma reduced_lattice (a b c d : V3) n1 n2 n3 : triple a b c <> 0 ->
  reduced a b c (v3add Rops d (lattice3 a b c n1 n2 n3)) =
  (let '(x, y, z) := reduced a b c d in (x + IZR n1, y + IZR n2, z + IZR n3)).
Proof.
  intros Ht. destruct (triple_cyc a b c) as [T2 T3]. unfold reduced, recip_cell. cbv zeta.
  rewrite T2, T3. fold (triple a b c). set (t := triple a b c) in *.
  assert (Et : t = triple a b c) by reflexivity.
  dv a; dv b; dv c; dv d. unfold triple, lattice3, v3div, v3dot, v3cross, v3add, v3scale in *. rs.
  apply v3_eq; rewrite Et; field; rewrite <- Et; exact Ht.
Qed.

Lemma round_shift_add (x : R) (n : Z) : round_shift Rops (x + IZR n) = round_shift Rops x + IZR n.
Proof.
  unfold round_shift, nhalf. rs. replace (x + IZR n + 1 / 2) with (x + 1 / 2 + IZR n) by ring.
  rewrite Zfloor_add_IZR, plus_IZR. reflexivity.
Qed.

Lemma pd_cell_reduced (a b c p1 p2 : V3) :
  pd_cell Rops a b c p1 p2 =
  (let d := v3sub Rops p2 p1 in
   let '(x, y, z) := reduced a b c d in
   v3sub Rops d (v3add Rops (v3add Rops (v3scale Rops (round_shift Rops x) a) (v3scale Rops (round_shift Rops y) b))
                            (v3scale Rops (round_shift Rops z) c))).
Proof.
  unfold pd_cell, reduced. cbv zeta. destruct (recip_cell Rops a b c) as [[rx ry] rz].
  destruct (v3sub Rops p2 p1) as [[dx dy] dz] eqn:E. dv a; dv b; dv c.
  unfold v3sub, v3add, v3scale. rs. apply v3_eq; ring.
Qed.

(* moving either position by a lattice vector does not change the minimum-image displacement *)
Lemma pd_cell_lattice (a b c p1 p2 : V3) n1 n2 n3 : triple a b c <> 0 ->
  pd_cell Rops a b c p1 (v3add Rops p2 (lattice3 a b c n1 n2 n3)) = pd_cell Rops a b c p1 p2.
Proof.
  intros Ht. rewrite !pd_cell_reduced. cbv zeta.
  assert (Ed : v3sub Rops (v3add Rops p2 (lattice3 a b c n1 n2 n3)) p1 = v3add Rops (v3sub Rops p2 p1) (lattice3 a b c n1 n2 n3)).
  { dv p1; dv p2. destruct (lattice3 a b c n1 n2 n3) as [[lx ly] lz]. unfold v3sub, v3add. apply v3_eq; rs; ring. }
  rewrite Ed, (reduced_lattice a b c _ n1 n2 n3 Ht).
  destruct (reduced a b c (v3sub Rops p2 p1)) as [[x y] z].
  rewrite !round_shift_add.
  destruct (v3sub Rops p2 p1) as [[dx dy] dz]. dv a; dv b; dv c.
  unfold lattice3, v3sub, v3add, v3scale. rs. apply v3_eq; ring.
Qed.

(* the result differs from the plain difference by a lattice vector, and its reduced coordinates lie in [-1/2, 1/2) *)
Lemma pd_cell_congruent (a b c p1 p2 : V3) : exists n1 n2 n3 : Z,
  pd_cell Rops a b c p1 p2 = v3sub Rops (v3sub Rops p2 p1) (lattice3 a b c n1 n2 n3).
Proof.
  rewrite pd_cell_reduced. cbv zeta. destruct (reduced a b c (v3sub Rops p2 p1)) as [[x y] z].
  exists (Zfloor (x + 1 / 2)), (Zfloor (y + 1 / 2)), (Zfloor (z + 1 / 2)). reflexivity.
Qed.
Lemma v3sub_neg_lattice (d : V3) (a b c : V3) n1 n2 n3 :
  v3sub Rops d (lattice3 a b c n1 n2 n3) = v3add Rops d (lattice3 a b c (- n1) (- n2) (- n3)).
Proof. dv d; dv a; dv b; dv c. unfold lattice3, v3sub, v3add, v3scale. rs. rewrite !opp_IZR. apply v3_eq; ring. Qed.
Lemma pd_cell_range (a b c p1 p2 : V3) : triple a b c <> 0 ->
  let '(x, y, z) := reduced a b c (pd_cell Rops a b c p1 p2) in
  - 1 / 2 <= x < 1 / 2 /\ - 1 / 2 <= y < 1 / 2 /\ - 1 / 2 <= z < 1 / 2.
Proof.
  intros Ht. rewrite pd_cell_reduced. cbv zeta.
  destruct (reduced a b c (v3sub Rops p2 p1)) as [[x y] z] eqn:Er.
  change (v3add Rops (v3add Rops (v3scale Rops (round_shift Rops x) a) (v3scale Rops (round_shift Rops y) b)) (v3scale Rops (round_shift Rops z) c))
    with (lattice3 a b c (Zfloor (x + 1 / 2)) (Zfloor (y + 1 / 2)) (Zfloor (z + 1 / 2))).
  rewrite v3sub_neg_lattice, (reduced_lattice a b c _ _ _ _ Ht), Er. rewrite !opp_IZR.
  pose proof (Zfloor_lb (x + 1 / 2)). pose proof (Zfloor_ub (x + 1 / 2)).
  pose proof (Zfloor_lb (y + 1 / 2)). pose proof (Zfloor_ub (y + 1 / 2)).
  pose proof (Zfloor_lb (z + 1 / 2)). pose proof (Zfloor_ub (z + 1 / 2)).
  repeat split; lra.
Qed.

(* an orthorhombic cell is the special case already modelled (C18 position_distance) *)
Lemma pd_cell_orthorhombic lx ly lz (p1 p2 : V3) : lx <> 0 -> ly <> 0 -> lz <> 0 ->
  pd_cell Rops (lx, 0, 0) (0, ly, 0) (0, 0, lz) p1 p2 = position_distance Rops (Some (lx, ly, lz)) p1 p2.
Proof.
  intros Hx Hy Hz. dv p1; dv p2. unfold pd_cell, recip_cell, position_distance, min_image1, round_shift, v3sub, v3div, v3dot, v3cross, nhalf. rs.
  apply v3_eq.
  - replace ((ly * lz - 0 * 0) / ((ly * lz - 0 * 0) * lx + (- 0 * lz + 0 * 0) * 0 + (0 * 0 - 0 * ly) * 0) * (p2x - p1x) +
             (- 0 * lz + 0 * 0) / ((ly * lz - 0 * 0) * lx + (- 0 * lz + 0 * 0) * 0 + (0 * 0 - 0 * ly) * 0) * (p2y - p1y) +
             (0 * 0 - 0 * ly) / ((ly * lz - 0 * 0) * lx + (- 0 * lz + 0 * 0) * 0 + (0 * 0 - 0 * ly) * 0) * (p2z - p1z))
      with ((p2x - p1x) / lx) by (field; repeat split; assumption). ring.
  - replace ((0 * 0 - 0 * lz) / ((0 * 0 - 0 * lz) * 0 + (- 0 * 0 + lx * lz) * ly + (0 * 0 - lx * 0) * 0) * (p2x - p1x) +
             (- 0 * 0 + lx * lz) / ((0 * 0 - 0 * lz) * 0 + (- 0 * 0 + lx * lz) * ly + (0 * 0 - lx * 0) * 0) * (p2y - p1y) +
             (0 * 0 - lx * 0) / ((0 * 0 - 0 * lz) * 0 + (- 0 * 0 + lx * lz) * ly + (0 * 0 - lx * 0) * 0) * (p2z - p1z))
      with ((p2y - p1y) / ly) by (field; repeat split; assumption). ring.
  - replace ((0 * 0 - ly * 0) / ((0 * 0 - ly * 0) * 0 + (- lx * 0 + 0 * 0) * 0 + (lx * ly - 0 * 0) * lz) * (p2x - p1x) +
             (- lx * 0 + 0 * 0) / ((0 * 0 - ly * 0) * 0 + (- lx * 0 + 0 * 0) * 0 + (lx * ly - 0 * 0) * lz) * (p2y - p1y) +
             (lx * ly - 0 * 0) / ((0 * 0 - ly * 0) * 0 + (- lx * 0 + 0 * 0) * 0 + (lx * ly - 0 * 0) * lz) * (p2z - p1z))
      with ((p2z - p1z) / lz) by (field; repeat split; assumption). ring.
Qed.

(* ------------------------------------------------------------------ polarPhi: the azimuth of the centre of mass *)
Lemma sqrt_ratio (x y : R) : x <> 0 -> sqrt (1 + (y / x)²) = sqrt (x * x + y * y) / Rabs x.
Proof.
  intros Hx. assert (Ha : 0 < Rabs x) by (apply Rabs_pos_lt; exact Hx).
  apply sqrt_lem_1.
  - unfold Rsqr. pose proof (Rle_0_sqr (y / x)). unfold Rsqr in H. lra.
  - apply Rmult_le_pos; [apply sqrt_pos | left; apply Rinv_0_lt_compat; exact Ha].
  - unfold Rdiv at 1 2. replace (sqrt (x * x + y * y) * / Rabs x * (sqrt (x * x + y * y) * / Rabs x))
      with ((sqrt (x * x + y * y) * sqrt (x * x + y * y)) * (/ Rabs x * / Rabs x)) by ring.
    rewrite sqrt_sqrt by nra. rewrite <- Rinv_mult. replace (Rabs x * Rabs x) with (x * x) by (rewrite <- Rabs_mult; symmetry; apply Rabs_pos_eq; nra).
    unfold Rsqr. field. exact Hx.
Qed.
(* atan2 gives the polar angle: rho cos(phi) = x, rho sin(phi) = y with rho = sqrt(x^2 + y^2) *)
Lemma Ratan2_polar (y x : R) : (x <> 0 \/ y <> 0) ->
  sqrt (x * x + y * y) * cos (Ratan2 y x) = x /\ sqrt (x * x + y * y) * sin (Ratan2 y x) = y.
Proof.
  intros H. set (rho := sqrt (x * x + y * y)).
  assert (Hrho : 0 < rho) by (apply sqrt_lt_R0; destruct H; nra).
  unfold Ratan2. destruct (Rlt_dec 0 x) as [Hx|Hx].
  - rewrite cos_atan, sin_atan, sqrt_ratio by lra. fold rho. rewrite Rabs_pos_eq by lra. split; field; lra.
  - destruct (Rlt_dec x 0) as [Hx'|Hx'].
    + assert (Hax : Rabs x = - x) by (apply Rabs_left; exact Hx').
      destruct (Rle_dec 0 y) as [Hy|Hy].
      * rewrite neg_cos, neg_sin, cos_atan, sin_atan, sqrt_ratio by lra. fold rho. rewrite Hax. split; field; lra.
      * unfold Rminus. rewrite cos_plus, sin_plus, cos_neg, sin_neg, cos_PI, sin_PI, cos_atan, sin_atan, sqrt_ratio by lra.
        fold rho. rewrite Hax. split; field; lra.
    + assert (x = 0) by lra. subst x.
      assert (Hy0 : y <> 0) by (destruct H; [congruence | assumption]).
      assert (Er : rho = Rabs y).
      { unfold rho. replace (0 * 0 + y * y) with (y * y) by ring. rewrite <- (Rabs_pos_eq (y * y)) by nra.
        rewrite Rabs_mult. apply sqrt_square. apply Rabs_pos. }
      destruct (Rlt_dec 0 y) as [Hy|Hy].
      * rewrite cos_PI2, sin_PI2, Er, Rabs_pos_eq by lra. split; ring.
      * destruct (Rlt_dec y 0) as [Hy'|Hy']; [|exfalso; lra].
        replace (- PI / 2) with (- (PI / 2)) by field. rewrite cos_neg, sin_neg, cos_PI2, sin_PI2, Er, Rabs_left by lra. split; ring.
Qed.
Lemma polar_phi_polar (g : list atomR) :
  let '(x, y, z) := com Rops g in (x <> 0 \/ y <> 0) ->
  sqrt (x * x + y * y) * cos (cv_polar_phi Rops PI g * (PI / 180)) = x /\
  sqrt (x * x + y * y) * sin (cv_polar_phi Rops PI g * (PI / 180)) = y /\
  - 180 < cv_polar_phi Rops PI g <= 180.
Proof.
  unfold cv_polar_phi. destruct (com Rops g) as [[x y] z]. intros H. unfold deg. rs.
  replace (180 / PI * Ratan2 y x * (PI / 180)) with (Ratan2 y x) by (field; apply PI_neq0).
  destruct (Ratan2_polar y x H) as [H1 H2]. split; [exact H1 | split; [exact H2|]].
  (* range of atan2 *)
  assert (Hr : - PI < Ratan2 y x <= PI).
  { unfold Ratan2. pose proof PI_RGT_0. pose proof (atan_bound (y / x)).
    destruct (Rlt_dec 0 x); [lra|]. destruct (Rlt_dec x 0) as [Hx|Hx].
    - destruct (Rle_dec 0 y) as [Hy|Hy].
      + assert (Hix : / x < 0) by (apply Rinv_lt_0_compat; exact Hx).
        assert (y / x <= 0) by (unfold Rdiv; nra).
        assert (atan (y / x) <= 0).
        { destruct (Req_dec (y / x) 0) as [E0|E0]; [rewrite E0, atan_0; lra|].
          left. rewrite <- atan_0. apply atan_increasing. lra. }
        lra.
      + assert (Hix : / x < 0) by (apply Rinv_lt_0_compat; exact Hx).
        assert (0 < y / x) by (unfold Rdiv; nra).
        assert (0 < atan (y / x)) by (rewrite <- atan_0; apply atan_increasing; assumption). lra.
    - destruct (Rlt_dec 0 y); [lra|]. destruct (Rlt_dec y 0); lra. }
  pose proof PI_RGT_0 as Hpi.
  split.
  - apply Rmult_lt_reg_r with (PI / 180); [lra|]. replace (180 / PI * Ratan2 y x * (PI / 180)) with (Ratan2 y x) by (field; apply PI_neq0). lra.
  - apply Rmult_le_reg_r with (PI / 180); [lra|]. replace (180 / PI * Ratan2 y x * (PI / 180)) with (Ratan2 y x) by (field; apply PI_neq0). lra.
Qed.

(* rotating all atoms about the z axis by alpha adds alpha to the azimuth (stated on cosine and sine, i.e. modulo 360) *)
Definition rot_z (alpha : R) : M3 := ((cos alpha, - sin alpha, 0), (sin alpha, cos alpha, 0), (0, 0, 1)).
Lemma polar_phi_rot_z (alpha : R) (g : list atomR) :
  let '(x, y, z) := com Rops g in (x <> 0 \/ y <> 0) ->
  cos (cv_polar_phi Rops PI (rot_group (rot_z alpha) g) * (PI / 180)) = cos (cv_polar_phi Rops PI g * (PI / 180) + alpha) /\
  sin (cv_polar_phi Rops PI (rot_group (rot_z alpha) g) * (PI / 180)) = sin (cv_polar_phi Rops PI g * (PI / 180) + alpha).
Proof.
  pose proof (polar_phi_polar g) as H0. pose proof (polar_phi_polar (rot_group (rot_z alpha) g)) as H1.
  rewrite com_rot in H1. destruct (com Rops g) as [[x y] z]. intros Hxy.
  unfold rot_z in *. unfold mat_vec, v3dot in H1. rs.
  set (x' := cos alpha * x + - sin alpha * y + 0 * z) in *. set (y' := sin alpha * x + cos alpha * y + 0 * z) in *.
  assert (Hn : x' * x' + y' * y' = x * x + y * y).
  { unfold x', y'. pose proof (sin2_cos2 alpha) as Hsc. unfold Rsqr in Hsc.
    replace ((cos alpha * x + - sin alpha * y + 0 * z) * (cos alpha * x + - sin alpha * y + 0 * z) +
             (sin alpha * x + cos alpha * y + 0 * z) * (sin alpha * x + cos alpha * y + 0 * z))
      with ((sin alpha * sin alpha + cos alpha * cos alpha) * (x * x + y * y)) by ring. rewrite Hsc. ring. }
  assert (Hrho : 0 < sqrt (x * x + y * y)) by (apply sqrt_lt_R0; destruct Hxy; nra).
  assert (Hxy' : x' <> 0 \/ y' <> 0).
  { destruct (Req_dec x' 0) as [E1|E1]; [|left; exact E1]. right. intros E2. rewrite E1, E2 in Hn.
    assert (x * x + y * y = 0) by lra. destruct Hxy; nra. }
  destruct (H0 Hxy) as (A1 & A2 & _). destruct (H1 Hxy') as (B1 & B2 & _). rewrite Hn in B1, B2.
  set (rho := sqrt (x * x + y * y)) in *. set (p := cv_polar_phi Rops PI g * (PI / 180)) in *.
  set (p' := cv_polar_phi Rops PI (rot_group ((cos alpha, - sin alpha, 0), (sin alpha, cos alpha, 0), (0, 0, 1)) g) * (PI / 180)) in *.
  rewrite cos_plus, sin_plus. split.
  - apply Rmult_eq_reg_l with rho; [|lra]. rewrite B1. unfold x'. rewrite <- A1, <- A2. ring.
  - apply Rmult_eq_reg_l with rho; [|lra]. rewrite B2. unfold y'. rewrite <- A1, <- A2. ring.
Qed.
