(* C02 lemmas: minimum image in a general (triclinic) cell (real-number instance). *)
From Coq Require Import ZArith List Bool Reals Lra Lia.
From Flocq Require Import Core.Raux.
From CV Require Import Base.Num Base.RNum C18.ValueModel C18.ValueProofs C02.ValueModel C02.ValueProofs.
Import ListNotations.
Local Open Scope R_scope.

Definition triple (a b c : V3) : R := v3dot Rops (v3cross Rops b c) a.
Definition lattice3 (a b c : V3) (n1 n2 n3 : Z) : V3 :=
  v3add Rops (v3add Rops (v3scale Rops (IZR n1) a) (v3scale Rops (IZR n2) b)) (v3scale Rops (IZR n3) c).
Definition reduced (a b c : V3) (v : V3) : R * R * R :=
  let '(rx, ry, rz) := recip_cell Rops a b c in (v3dot Rops rx v, v3dot Rops ry v, v3dot Rops rz v).

Lemma triple_cyc (a b c : V3) : v3dot Rops (v3cross Rops c a) b = triple a b c /\ v3dot Rops (v3cross Rops a b) c = triple a b c.
Proof. dv a; dv b; dv c. unfold triple, v3dot, v3cross. rs. split; ring. Qed.

(* reduced coordinates of a vector plus a lattice vector: the integers add *)
Lemma reduced_lattice (a b c d : V3) n1 n2 n3 : triple a b c <> 0 ->
  reduced a b c (v3add Rops d (lattice3 a b c n1 n2 n3)) =
  (let '(x, y, z) := reduced a b c d in (x + IZR n1, y + IZR n2, z + IZR n3)).
Proof.
  intros Ht. destruct (triple_cyc a b c) as [T2 T3]. unfold reduced, recip_cell. cbv zeta.
  rewrite T2, T3. fold (triple a b c). set (t := triple a b c) in *.
  assert (Et : t = triple a b c) by reflexivity.
  dv a; dv b; dv c; dv d. unfold triple, lattice3, v3div, v3dot, v3cross, v3add, v3scale in *. rs.
  apply v3_eq; rewrite Et; field; rewrite <- Et; exact Ht.
Qed.

Lemma round_shift_add (x : R) (n : Z) : round_shift Rops (x + IZR n) = round_shift Rops x + IZR n.
Proof.
  unfold round_shift, nhalf. rs. replace (x + IZR n + 1 / 2) with (x + 1 / 2 + IZR n) by ring.
  rewrite Zfloor_add_IZR, plus_IZR. reflexivity.
Qed.

Lemma pd_cell_reduced (a b c p1 p2 : V3) :
  pd_cell Rops a b c p1 p2 =
  (let d := v3sub Rops p2 p1 in
   let '(x, y, z) := reduced a b c d in
   v3sub Rops d (v3add Rops (v3add Rops (v3scale Rops (round_shift Rops x) a) (v3scale Rops (round_shift Rops y) b))
                            (v3scale Rops (round_shift Rops z) c))).
Proof.
  unfold pd_cell, reduced. cbv zeta. destruct (recip_cell Rops a b c) as [[rx ry] rz].
  destruct (v3sub Rops p2 p1) as [[dx dy] dz] eqn:E. dv a; dv b; dv c.
  unfold v3sub, v3add, v3scale. rs. apply v3_eq; ring.
Qed.

(* moving either position by a lattice vector does not change the minimum-image displacement *)
Lemma pd_cell_lattice (a b c p1 p2 : V3) n1 n2 n3 : triple a b c <> 0 ->
  pd_cell Rops a b c p1 (v3add Rops p2 (lattice3 a b c n1 n2 n3)) = pd_cell Rops a b c p1 p2.
Proof.
  intros Ht. rewrite !pd_cell_reduced. cbv zeta.
  assert (Ed : v3sub Rops (v3add Rops p2 (lattice3 a b c n1 n2 n3)) p1 = v3add Rops (v3sub Rops p2 p1) (lattice3 a b c n1 n2 n3)).
  { dv p1; dv p2. destruct (lattice3 a b c n1 n2 n3) as [[lx ly] lz]. unfold v3sub, v3add. apply v3_eq; rs; ring. }
  rewrite Ed, (reduced_lattice a b c _ n1 n2 n3 Ht).
  destruct (reduced a b c (v3sub Rops p2 p1)) as [[x y] z].
  rewrite !round_shift_add.
  destruct (v3sub Rops p2 p1) as [[dx dy] dz]. dv a; dv b; dv c.
  unfold lattice3, v3sub, v3add, v3scale. rs. apply v3_eq; ring.
Qed.

(* the result differs from the plain difference by a lattice vector, and its reduced coordinates lie in [-1/2, 1/2) *)
Lemma pd_cell_congruent (a b c p1 p2 : V3) : exists n1 n2 n3 : Z,
  pd_cell Rops a b c p1 p2 = v3sub Rops (v3sub Rops p2 p1) (lattice3 a b c n1 n2 n3).
Proof.
  rewrite pd_cell_reduced. cbv zeta. destruct (reduced a b c (v3sub Rops p2 p1)) as [[x y] z].
  exists (Zfloor (x + 1 / 2)), (Zfloor (y + 1 / 2)), (Zfloor (z + 1 / 2)). reflexivity.
Qed.
Lemma v3sub_neg_lattice (d : V3) (a b c : V3) n1 n2 n3 :
  v3sub Rops d (lattice3 a b c n1 n2 n3) = v3add Rops d (lattice3 a b c (- n1) (- n2) (- n3)).
Proof. dv d; dv a; dv b; dv c. unfold lattice3, v3sub, v3add, v3scale. rs. rewrite !opp_IZR. apply v3_eq; ring. Qed.
Lemma pd_cell_range (a b c p1 p2 : V3) : triple a b c <> 0 ->
  let '(x, y, z) := reduced a b c (pd_cell Rops a b c p1 p2) in
  - 1 / 2 <= x < 1 / 2 /\ - 1 / 2 <= y < 1 / 2 /\ - 1 / 2 <= z < 1 / 2.
Proof.
  intros Ht. rewrite pd_cell_reduced. cbv zeta.
  destruct (reduced a b c (v3sub Rops p2 p1)) as [[x y] z] eqn:Er.
  change (v3add Rops (v3add Rops (v3scale Rops (round_shift Rops x) a) (v3scale Rops (round_shift Rops y) b)) (v3scale Rops (round_shift Rops z) c))
    with (lattice3 a b c (Zfloor (x + 1 / 2)) (Zfloor (y + 1 / 2)) (Zfloor (z + 1 / 2))).
  rewrite v3sub_neg_lattice, (reduced_lattice a b c _ _ _ _ Ht), Er. rewrite !opp_IZR.
  pose proof (Zfloor_lb (x + 1 / 2)). pose proof (Zfloor_ub (x + 1 / 2)).
  pose proof (Zfloor_lb (y + 1 / 2)). pose proof (Zfloor_ub (y + 1 / 2)).
  pose proof (Zfloor_lb (z + 1 / 2)). pose proof (Zfloor_ub (z + 1 / 2)).
  repeat split; lra.
Qed.

(* an orthorhombic cell is the special case already modelled (C18 position_distance) *)
Lemma pd_cell_orthorhombic lx ly lz (p1 p2 : V3) : lx <> 0 -> ly <> 0 -> lz <> 0 ->
  pd_cell Rops (lx, 0, 0) (0, ly, 0) (0, 0, lz) p1 p2 = position_distance Rops (Some (lx, ly, lz)) p1 p2.
Proof.
  intros Hx Hy Hz. dv p1; dv p2. unfold pd_cell, recip_cell, position_distance, min_image1, round_shift, v3sub, v3div, v3dot, v3cross, nhalf. rs.
  apply v3_eq.
  - replace ((ly * lz - 0 * 0) / ((ly * lz - 0 * 0) * lx + (- 0 * lz + 0 * 0) * 0 + (0 * 0 - 0 * ly) * 0) * (p2x - p1x) +
             (- 0 * lz + 0 * 0) / ((ly * lz - 0 * 0) * lx + (- 0 * lz + 0 * 0) * 0 + (0 * 0 - 0 * ly) * 0) * (p2y - p1y) +
             (0 * 0 - 0 * ly) / ((ly * lz - 0 * 0) * lx + (- 0 * lz + 0 * 0) * 0 + (0 * 0 - 0 * ly) * 0) * (p2z - p1z))
      with ((p2x - p1x) / lx) by (field; repeat split; assumption). ring.
  - replace ((0 * 0 - 0 * lz) / ((0 * 0 - 0 * lz) * 0 + (- 0 * 0 + lx * lz) * ly + (0 * 0 - lx * 0) * 0) * (p2x - p1x) +
             (- 0 * 0 + lx * lz) / ((0 * 0 - 0 * lz) * 0 + (- 0 * 0 + lx * lz) * ly + (0 * 0 - lx * 0) * 0) * (p2y - p1y) +
             (0 * 0 - lx * 0) / ((0 * 0 - 0 * lz) * 0 + (- 0 * 0 + lx * lz) * ly + (0 * 0 - lx * 0) * 0) * (p2z - p1z))
      with ((p2y - p1y) / ly) by (field; repeat split; assumption). ring.
  - replace ((0 * 0 - ly * 0) / ((0 * 0 - ly * 0) * 0 + (- lx * 0 + 0 * 0) * 0 + (lx * ly - 0 * 0) * lz) * (p2x - p1x) +
             (- lx * 0 + 0 * 0) / ((0 * 0 - ly * 0) * 0 + (- lx * 0 + 0 * 0) * 0 + (lx * ly - 0 * 0) * lz) * (p2y - p1y) +
             (lx * ly - 0 * 0) / ((0 * 0 - ly * 0) * 0 + (- lx * 0 + 0 * 0) * 0 + (lx * ly - 0 * 0) * lz) * (p2z - p1z))
      with ((p2z - p1z) / lz) by (field; repeat split; assumption). ring.
Qed.
