(* C02, sixth file: arithmetic path variables in Cartesian space (aspath, azpath). *)
From Coq Require Import ZArith List Bool Reals Lra.
From CV Require Import Base.Num Base.RNum C18.ValueModel C02.ValueModel C02.ValueProofs C02.RotProofs.
Import ListNotations.
Local Open Scope R_scope.

(* with d_i the weighted square deviation from reference frame i (i = 0 .. F-1):
   z = -(1/lambda) ln sum_i exp(-lambda d_i),   s = (1/(F-1)) sum_i i exp(-lambda d_i) / sum_i exp(-lambda d_i);
   d_i = (sqrt(1/N))^2 * least-squares deviation of the group fitted on frame i *)
Theorem C02_definition_apath : forall (lambda : R) (ds : list R), ds <> [] ->
  snd (apath_sz Rops lambda ds) = - 1 / lambda * ln (rsum (fun d => exp (- lambda * d)) ds) /\
  (0 < wrsum 0 (map (fun d => exp (- lambda * d)) ds) ->
   fst (apath_sz Rops lambda ds) =
   1 / INR (length ds - 1) * (wrsum 0 (map (fun d => exp (- lambda * d)) ds) / rsum (fun d => exp (- lambda * d)) ds)).
Proof. exact apath_closed. Qed.
Print Assumptions C02_definition_apath.
Theorem C02_definition_frame_deviation : forall (q : Q4) ref g,
  frame_wsd Rops q ref g = sqrt (1 / INR (length g)) * sqrt (1 / INR (length g)) * sq_dev Rops q (fit_pairs Rops ref g).
Proof. exact frame_wsd_dev. Qed.
Print Assumptions C02_definition_frame_deviation.
(* rigid motions of all atoms, every frame with its own optimal superposition *)
Theorem C02_rigid_invariant_apath : forall (M : M3) lambda (qs qs' : list Q4) (frames : list (list V3)) t g,
  proper_rotation M -> g <> [] ->
  Forall2 (fun q fr => is_optimal q (fit_pairs Rops fr g)) qs frames ->
  Forall2 (fun q fr => is_optimal q (fit_pairs Rops fr (shift_group t (rot_group M g)))) qs' frames ->
  cv_apath Rops lambda qs' frames (shift_group t (rot_group M g)) = cv_apath Rops lambda qs frames g.
Proof. exact apath_rigid. Qed.
Print Assumptions C02_rigid_invariant_apath.
Example C02_example_apath : wrsum 0 (map (fun d => exp (- 1 * d)) [0; 1]) > 0 /\ ([0; 1] : list R) <> [].
Proof. split; [cbn; pose proof (exp_pos (- 1 * 1)); lra | discriminate]. Qed.
