(* C10: invalid parameter values are errors, never fatal.
   GuardModel: a hand-written, executable mirror of the INPUT VALIDATION logic of Colvars: for every
   user-controlled quantity that the initialisation or the update paths use as a divisor, a modulus, an
   allocation size or an array length, (i) how its text is turned into a typed value
   (colvarparse::_get_keyval_scalar_value_ with operator>>), (ii) the checks the init code performs, in the order
   of the code, including whether a failed check returns or only flags the error (cvm::error() does not
   abort), and (iii) every guarded use with its precondition (what must hold for the C++ expression not to
   trap / wrap / allocate from an unchecked size).  Definitions only; proofs are in GuardProofs.v.

   Integer quantities are Z with the wrap of the C type written explicitly (size_t = 64 bit, int = 32 bit,
   cvm::step_number = long long); real quantities are exact rationals (Q); the double -> int cast is the
   x86 one (cvttsd2si: out of range, infinity and NaN give INT_MIN). *)
From Coq Require Import ZArith List Bool QArith String.
Import ListNotations.
Local Open Scope Z_scope.

(* ------------------------------------------------------------------------------------------------ *)
(* C types and text -> value                                                                        *)
(* ------------------------------------------------------------------------------------------------ *)

Definition two31 : Z := 2147483648.
Definition two63 : Z := 9223372036854775808.
Definition two64 : Z := 18446744073709551616.
Definition int_max : Z := two31 - 1.
Definition int_min : Z := - two31.

Inductive ctype := TSize | TInt | TStep.

Definition in_range (ty : ctype) (v : Z) : bool :=
  match ty with
  | TSize => (0 <=? v) && (v <? two64)
  | TInt => (int_min <=? v) && (v <? two31)
  | TStep => (- two63 <=? v) && (v <? two63)
  end.

(* The value text of a keyword, as far as operator>> distinguishes it. *)
Inductive tok :=
| TokInt (z : Z)                               (* a decimal integer literal: 0, -1, 2147483647 *)
| TokSci (m : Z) (e : Z)                       (* <m>e<e> with an integer mantissa: 1e300, 1e-300 *)
| TokFrac (ip : Z) (num : Z) (den : positive)  (* a decimal with a fractional part: integer prefix ip, value num/den *)
| TokWord.                                     (* nan, inf, abc: no numeric prefix *)

Inductive presZ := ZAbsent | ZVal (v : Z) | ZFail.
Inductive presQ := QAbsent | QVal (q : Q) | QFail.

(* istream >> integer (libstdc++): a value that does not fit sets failbit.  For an unsigned type the extractor itself
   accepts a minus sign and negates modulo 2^64; since the repair "a negative number given for an unsigned keyword was
   read modulo 2^64" (C09 slice) colvarparse refuses any '-' in the value of an unsigned keyword before extracting. *)
Definition extract_int (ty : ctype) (z : Z) : presZ :=
  match ty with
  | TSize => if (0 <=? z) && (z <? two64) then ZVal z else ZFail
  | TInt => if (int_min <=? z) && (z <? two31) then ZVal z else ZFail
  | TStep => if (- two63 <=? z) && (z <? two63) then ZVal z else ZFail
  end.

(* _get_keyval_scalar_value_ reads values until the end of the text and any text that is not a value is an error
   (repaired by "fix: text after the value of a scalar keyword was silently ignored"): "1e300" read as an integer
   is 1 followed by the unreadable "e300" -> error; likewise "0.5"; "nan" -> error.  (Before that repair the
   extractions were counted and "1e300" was accepted as 1, "0.5" as 0.) *)
Definition parse_int (ty : ctype) (t : option tok) : presZ :=
  match t with
  | None => ZAbsent
  | Some (TokInt z) => extract_int ty z
  | Some (TokSci _ _) => ZFail
  | Some (TokFrac _ _ _) => ZFail
  | Some TokWord => ZFail
  end.

Definition dbl_max : Z := 2 ^ 1024 - 2 ^ 971.

Definition parse_real (t : option tok) : presQ :=
  match t with
  | None => QAbsent
  | Some (TokInt z) => if Z.abs z <=? dbl_max then QVal (z # 1) else QFail
  | Some (TokSci m e) =>
      if 0 <=? e then (if Z.abs (m * 10 ^ e) <=? dbl_max then QVal ((m * 10 ^ e) # 1) else QFail)
      else QVal (m # (Z.to_pos (10 ^ (- e))))
  | Some (TokFrac _ n d) => QVal (n # d)
  | Some TokWord => QFail
  end.

(* get_keyval(conf, key, value, default): absent -> default; unparsable -> cvm::error, and the caller CONTINUES
   with the default (repaired: before, the destination kept its previous content [cur], which most callers leave
   uninitialised).  Returns (value, error flagged). *)
Definition getZ (p : presZ) (cur def : Z) : Z * bool :=
  match p with ZAbsent => (def, false) | ZVal v => (v, false) | ZFail => (def, true) end.
Definition getQ (p : presQ) (cur def : Q) : Q * bool :=
  match p with QAbsent => (def, false) | QVal v => (v, false) | QFail => (def, true) end.

(* A guarded use that was reached: the site and whether its precondition held. *)
Record use := mkUse { u_site : string; u_ok : bool }.
Definition all_ok (l : list use) : bool := forallb u_ok l.

(* a % b, a / b on integers trap iff b = 0 (INT_MIN % -1 cannot occur: step counts are >= 0) *)
Definition nz (b : Z) : bool := negb (b =? 0).

Record initres (S : Type) := mkRes { r_state : S; r_err : bool; r_uses : list use }.
Arguments mkRes {S}. Arguments r_state {S}. Arguments r_err {S}. Arguments r_uses {S}.

Definition accepted {S} (r : initres S) : bool := negb (r_err r).

Local Open Scope string_scope.
Local Open Scope Z_scope.
Local Open Scope list_scope.

(* ------------------------------------------------------------------------------------------------ *)
(* Module-level frequencies (colvarmodule::parse_global_params, calc, write_traj_files)              *)
(* ------------------------------------------------------------------------------------------------ *)

Record modconf := mkModConf { mc_traj : option tok; mc_restart : option tok }.
Record modstate := mkMod { traj_freq : Z; restart_freq : Z }.     (* both size_t *)

(* the engine supplies the initial values (proxy constructor / setup) *)
Definition module_init (eng : modstate) (c : modconf) : initres modstate :=
  let '(tf, e1) := getZ (parse_int TSize (mc_traj c)) (traj_freq eng) (traj_freq eng) in
  let '(rf, e2) := getZ (parse_int TSize (mc_restart c)) (restart_freq eng) (restart_freq eng) in
  mkRes (mkMod tf rf) (e1 || e2) [].

(* colvarmodule::calc() + write_traj_files() at one step.  [labels_pending]: first step of a run or a
   changed configuration (then the label test short-circuits before the modulo). *)
Definition module_step_uses (m : modstate) (traj_name_set labels_pending : bool) (step_abs step_rel : Z) : list use :=
  (if nz (traj_freq m) && traj_name_set then
     (* labels: ((step % freq) == 0) && (((step / freq) % 1000) == 0)   [after the repair; it was
        step % (freq * 1000) with the product computed in size_t] *)
     [mkUse "write_traj_files: step % cv_traj_freq (labels)" (nz (traj_freq m));
      mkUse "write_traj_files: step % cv_traj_freq" (nz (traj_freq m))]
     ++ (if nz (restart_freq m) then [mkUse "write_traj_files: step % restart_out_freq" (nz (restart_freq m))] else [])
   else [])
  ++ (if nz (restart_freq m) && (0 <? step_rel)
      then [mkUse "calc: step % restart_out_freq" (nz (restart_freq m))] else []).

(* the expression before the repair, kept for the record (see C10_traj_label_modulus_old_refuted) *)
Definition traj_label_modulus_old (freq : Z) : Z := (freq * 1000) mod two64.

(* ------------------------------------------------------------------------------------------------ *)
(* colvar: timeStepFactor, runAve*, corrFunc* (colvar::init, parse_analysis, calc_runave, calc_acf)  *)
(* ------------------------------------------------------------------------------------------------ *)

Record cvconf := mkCvConf {
  c_tsf : option tok;
  c_runave : bool; c_ralen : option tok; c_rastride : option tok;
  c_corr : bool; c_cflen : option tok; c_cfstride : option tok; c_cfoff : option tok;
  (* previous content of members that no constructor initialises (indeterminate in the C++) *)
  c_u_ralen : Z; c_u_rastride : Z; c_u_cflen : Z; c_u_cfstride : Z; c_u_cfoff : Z }.

Record cvstate := mkCv {
  s_tsf : Z;                                 (* int *)
  s_runave : bool; s_ralen : Z; s_rastride : Z;            (* size_t *)
  s_corr : bool; s_cflen : Z; s_cfstride : Z; s_cfoff : Z  (* size_t *) }.

Definition colvar_init (restart_out_freq : Z) (c : cvconf) : initres cvstate :=
  let '(tsf, e1) := getZ (parse_int TInt (c_tsf c)) 1 1 in
  if tsf <? 0 then mkRes (mkCv tsf false 0 0 false 0 0 0) true []          (* error + return *)
  else
    (* parse_analysis: if runAve ... ; a zero stride is an error + return (nothing after it is parsed) *)
    let '(ralen, rastride, e2, u2, ret2) :=
      if c_runave c then
        let '(l, el) := getZ (parse_int TSize (c_ralen c)) (c_u_ralen c) 1000 in
        let '(s, es) := getZ (parse_int TSize (c_rastride c)) (c_u_rastride c) 1 in
        if s =? 0 then (l, s, true, [], true)       (* "runAveStride must be a positive integer": return *)
        else (l, s, el || es || negb (restart_out_freq mod s =? 0),
              [mkUse "parse_analysis: restart_out_freq % runave_stride" (nz s)], false)
      else (0, c_u_rastride c, false, [], false) in
    if ret2 then mkRes (mkCv tsf (c_runave c) ralen rastride false 0 (c_u_cfstride c) (c_u_cfoff c)) true u2
    else
    let '(cflen, cfstride, cfoff, e3, u3) :=
      if c_corr c then
        let '(o, eo) := getZ (parse_int TSize (c_cfoff c)) (c_u_cfoff c) 0 in
        let '(l, el) := getZ (parse_int TSize (c_cflen c)) (c_u_cflen c) 1000 in
        let '(s, es) := getZ (parse_int TSize (c_cfstride c)) (c_u_cfstride c) 1 in
        if s =? 0 then (l, s, o, true, [])    (* "corrFuncStride must be a positive integer": return *)
        else if (int_max <=? l) || (int_max <=? o) || (int_max / (l + o + 1) <? s)
        then (l, s, o, true, [])              (* repaired: stride * (length + offset) must stay within INT_MAX: return *)
        else (l, s, o, eo || el || es || negb (restart_out_freq mod s =? 0),
              [mkUse "parse_analysis: restart_out_freq % acf_stride" (nz s)])
      else (0, c_u_cfstride c, c_u_cfoff c, false, []) in
    mkRes (mkCv tsf (c_runave c) ralen rastride (c_corr c) cflen cfstride cfoff) (e1 || e2 || e3) (u2 ++ u3).

(* what the host can allocate in one request (bytes): an environment parameter of the model *)
Definition alloc_ok (host_bytes : Z) (n elt : Z) : bool := (0 <=? n) && (n * elt <=? host_bytes).

(* calc_colvars (multiple time step) + calc_runave: the uses that are proved safe *)
Definition colvar_step_uses (s : cvstate) (step_abs step_rel : Z) : list use :=
  (if 1 <? s_tsf s then [mkUse "calc_colvars: step % time_step_factor" (nz (s_tsf s))] else [])
  ++ (if s_runave s then [mkUse "calc_runave: step_relative % runave_stride" (nz (s_rastride s))] else []).

(* calc_acf at the first analysis step and afterwards.  Repaired: acf.resize(acf_length+1) is inside try/catch (a
   refused allocation is a memory error, not a death); once a history holds (acf_length+acf_offset) mod 2^64 values,
   `for (i = 0; i < acf_offset; i++) ++iterator` must stay inside the history and the writes through acf.begin() need
   a non-empty acf.  Both follow from the bound checked in parse_analysis (see corrfunc_safe); before the repair they
   failed for wrapping values (C10_before_repair_refuted). *)
Definition corrfunc_uses (s : cvstate) (history_size : Z) : list use :=
  if s_corr s then
    let n := (s_cflen s + 1) mod two64 in                 (* if (acf.size() < acf_length+1) acf.resize(acf_length+1) *)
    let m := (s_cflen s + s_cfoff s) mod two64 in         (* length at which a history is complete (and capped) *)
    if m <=? history_size then
      [mkUse "calc_*_acf: skip acf_offset entries of the history" (s_cfoff s <=? history_size);
       mkUse "calc_*_acf: *(acf.begin()) += ..." (1 <=? n)]
    else []
  else [].

(* the state that the unrepaired parse_analysis accepted for given (length, stride, offset) *)
Definition corr_state_old (len stride off : Z) : cvstate := mkCv 1 false 0 0 true len stride off.

(* scriptedFunctionVectorSize (int): repaired: must be >= 1, x.vector1d_value.resize(size) inside try/catch *)
Definition scripted_init (host_bytes : Z) (t : option tok) : initres Z :=
  match parse_int TInt t with
  | ZAbsent => mkRes 0 true []                 (* "no size specified for vector scripted function": return *)
  | ZFail => mkRes 0 true []
  | ZVal n => if n <? 1 then mkRes n true []
              else mkRes n (negb (n * 8 <=? host_bytes)) [mkUse "colvar::init: x.vector1d_value.resize(size)" (0 <? n)]
  end.

(* ------------------------------------------------------------------------------------------------ *)
(* colvarbias::init: outputFreq, timeStepFactor                                                     *)
(* ------------------------------------------------------------------------------------------------ *)

Record biasconf := mkBiasConf { b_outfreq : option tok; b_tsf : option tok }.
Record biasstate := mkBias { s_outfreq : Z (* size_t *); s_btsf : Z (* int *) }.

(* constructor: output_freq = cvm::restart_out_freq, time_step_factor = 1 *)
Definition bias_init (restart_out_freq : Z) (c : biasconf) : initres biasstate :=
  let '(ofr, e1) := getZ (parse_int TSize (b_outfreq c)) restart_out_freq restart_out_freq in
  let '(tsf, e2) := getZ (parse_int TInt (b_tsf c)) 1 1 in
  mkRes (mkBias ofr tsf) (e1 || e2 || (tsf <? 1)) [].                  (* timeStepFactor < 1: error, no return *)

Definition bias_step_uses (s : biasstate) (step_rel : Z) : list use :=
  (if 1 <? s_btsf s then [mkUse "calc_colvars: step % bias time_step_factor" (nz (s_btsf s))] else [])
  ++ (if (0 <? s_outfreq s) && (0 <? step_rel) then [mkUse "calc: step % output_freq" (nz (s_outfreq s))] else []).

(* ------------------------------------------------------------------------------------------------ *)
(* metadynamics: newHillFrequency, gridsUpdateFrequency                                             *)
(* ------------------------------------------------------------------------------------------------ *)

Record metaconf := mkMetaConf { m_base : biasconf; m_newhill : option tok; m_usegrids : bool; m_gridsfreq : option tok;
                                m_replicas : bool; m_upfreq : option tok }.
Record metastate := mkMeta { sm_base : biasstate; sm_newhill : Z; sm_usegrids : bool; sm_gridsfreq : Z; sm_history : bool;
                             sm_replicas : bool; sm_upfreq : Z }.

Definition meta_init (restart_out_freq : Z) (c : metaconf) : initres metastate :=
  let b := bias_init restart_out_freq (m_base c) in
  (* constructor: new_hill_freq = 1000, grids_freq = 0 *)
  let '(nh, e1) := getZ (parse_int TSize (m_newhill c)) 1000 1000 in
  let g0 := if 0 <? nh then nh else 0 in                   (* if (new_hill_freq > 0) { if (grids_freq == 0) grids_freq = new_hill_freq; } *)
  let '(gf, e2) := if m_usegrids c then getZ (parse_int TSize (m_gridsfreq c)) g0 g0 else (g0, false) in
  (* init_replicas_params: replicaUpdateFrequency (size_t, constructor value 0) must be non-zero: error + return *)
  let '(uf, e3) := if m_replicas c then getZ (parse_int TSize (m_upfreq c)) 0 0 else (0, false) in
  mkRes (mkMeta (r_state b) nh (m_usegrids c) gf (0 <? nh) (m_replicas c) uf)
        (r_err b || e1 || e2 || e3 || (m_replicas c && (uf =? 0))) (r_uses b).

(* update_bias / update_grid_data after the repairs:
     if (is_enabled(f_cvb_history_dependent) && (step % new_hill_freq) == 0 && ...)     [history <-> new_hill_freq > 0]
     if ((grids_freq > 0) && (step % grids_freq) == 0)                                                        *)
Definition meta_step_uses (s : metastate) (step_rel : Z) : list use :=
  bias_step_uses (sm_base s) step_rel
  ++ (if sm_history s then [mkUse "update_bias: step % new_hill_freq" (nz (sm_newhill s))] else [])
  ++ (if sm_usegrids s && (0 <? sm_gridsfreq s) then [mkUse "update_grid_data: step % grids_freq" (nz (sm_gridsfreq s))] else [])
  ++ (if sm_replicas s then
        [mkUse "update: step % replica_update_freq" (nz (sm_upfreq s))]
        (* read_replica_files (repaired): n_flush = new_hill_freq > 0 ? replica_update_freq / new_hill_freq + 1 : 1 *)
        ++ (if 0 <? sm_newhill s then [mkUse "read_replica_files: replica_update_freq / new_hill_freq" (nz (sm_newhill s))] else [])
      else []).

(* before that repair the division was unconditional once a second replica is registered *)
Definition meta_replica_div_old (s : metastate) : list use :=
  if sm_replicas s then [mkUse "read_replica_files: replica_update_freq / new_hill_freq" (nz (sm_newhill s))] else [].

(* the code before the repairs evaluated both moduli unconditionally *)
Definition meta_step_uses_old (s : metastate) : list use :=
  [mkUse "update_bias: step % new_hill_freq" (nz (sm_newhill s))]
  ++ (if sm_usegrids s then [mkUse "update_grid_data: step % grids_freq" (nz (sm_gridsfreq s))] else []).

(* ------------------------------------------------------------------------------------------------ *)
(* ABF: fullSamples/minSamples, historyFreq vs outputFreq                                           *)
(* ------------------------------------------------------------------------------------------------ *)

Record abfconf := mkAbfConf { a_base : biasconf; a_full : option tok; a_min : option tok; a_hist : option tok;
                              a_u_min : Z }.
Record abfstate := mkAbf { sa_base : biasstate; sa_full : Z; sa_min : Z; sa_hist : Z }.   (* size_t *)

Definition abf_init (restart_out_freq : Z) (c : abfconf) : initres abfstate :=
  let b := bias_init restart_out_freq (a_base c) in
  if r_err b then mkRes (mkAbf (r_state b) 0 0 0) true (r_uses b)        (* colvarbias::init failed: return *)
  else
    let ofr := s_outfreq (r_state b) in
    let '(fs, e1) := getZ (parse_int TSize (a_full c)) 200 200 in
    let '(ms, e2) := getZ (parse_int TSize (a_min c)) (a_u_min c) (fs / 2) in
    let '(fs', ms') := if fs <=? 1 then (1, 0) else (fs, ms) in
    if fs' <=? ms' then mkRes (mkAbf (r_state b) fs' ms' 0) true (r_uses b)    (* minSamples >= fullSamples: return *)
    else
      let '(hf, e3) := getZ (parse_int TSize (a_hist c)) 0 0 in
      let '(e4, u4) :=
        if hf =? 0 then (false, [])
        else if ofr =? 0 then (true, [])
        else (negb (hf mod ofr =? 0), [mkUse "abf init: history_freq % output_freq" (nz ofr)]) in
      mkRes (mkAbf (r_state b) fs' ms' hf) (e1 || e2 || e3 || e4) (r_uses b ++ u4).

(* write_gradients_samples history file: (history_freq > 0) && (step % history_freq == 0) *)
Definition abf_step_uses (s : abfstate) (step_rel : Z) : list use :=
  bias_step_uses (sa_base s) step_rel
  ++ (if 0 <? sa_hist s then [mkUse "abf output: step % history_freq" (nz (sa_hist s))] else []).

(* ------------------------------------------------------------------------------------------------ *)
(* moving restraints: targetNumSteps, targetNumStages                                                *)
(* ------------------------------------------------------------------------------------------------ *)

Record movconf := mkMovConf { v_base : biasconf; v_moving : bool; v_nsteps : option tok; v_nstages : option tok }.
Record movstate := mkMov { sv_base : biasstate; sv_moving : bool; sv_nsteps : Z (* long long *); sv_nstages : Z (* int *) }.

Definition moving_init (restart_out_freq : Z) (c : movconf) : initres movstate :=
  let b := bias_init restart_out_freq (v_base c) in
  if r_err b then mkRes (mkMov (r_state b) false 0 0) true (r_uses b)
  else if v_moving c then
    let '(ns, e1) := getZ (parse_int TStep (v_nsteps c)) 0 0 in
    if ns =? 0 then mkRes (mkMov (r_state b) true ns 0) true (r_uses b)      (* targetNumSteps must be non-zero: return *)
    else
      let '(ng, e2) := getZ (parse_int TInt (v_nstages c)) 0 0 in
      mkRes (mkMov (r_state b) true ns ng) (e1 || e2) (r_uses b)
  else mkRes (mkMov (r_state b) false 0 0) false (r_uses b).

Definition moving_step_uses (s : movstate) (step_rel : Z) : list use :=
  bias_step_uses (sv_base s) step_rel
  ++ (if sv_moving s && negb (sv_nstages s =? 0)
      then [mkUse "restraint update: (step - first_step) % target_nsteps" (nz (sv_nsteps s))] else []).

(* ------------------------------------------------------------------------------------------------ *)
(* coordNum / selfCoordNum: pairListFrequency                                                        *)
(* ------------------------------------------------------------------------------------------------ *)

Record pairconf := mkPairConf { p_tolerance_pos : bool; p_freq : option tok }.
Record pairstate := mkPair { sp_pairlist : bool; sp_freq : Z (* int *) }.

Definition coordnum_init (c : pairconf) : initres pairstate :=
  if p_tolerance_pos c then
    let '(f, e1) := getZ (parse_int TInt (p_freq c)) 100 100 in
    if f <=? 0 then mkRes (mkPair false f) true []         (* non-positive pairlistfrequency: error, no pair list *)
    else mkRes (mkPair true f) e1 []
  else mkRes (mkPair false 100) false [].

Definition coordnum_step_uses (s : pairstate) : list use :=
  if sp_pairlist s then [mkUse "compute_coordnum: step_relative % pairlist_freq" (nz (sp_freq s))] else [].

(* ------------------------------------------------------------------------------------------------ *)
(* OPES: newHillFrequency (m_pace), adaptiveSigmaStride, pmfHistoryFrequency, printTrajectoryFrequency,
   and the module's restart frequency used in save_state()                                           *)
(* ------------------------------------------------------------------------------------------------ *)

Record opesconf := mkOpesConf { o_base : biasconf; o_pace : option tok; o_adaptive : bool; o_adstride : option tok;
                                o_pmf : bool; o_pmfhist : option tok; o_trajfreq : option tok;
                                o_u_adstride : Z;
                                o_replicas : bool; o_nlist : bool; o_shared : option tok; o_u_shared : Z }.
Record opesstate := mkOpes { so_base : biasstate; so_pace : Z; so_adaptive : bool; so_adstride : Z;
                             so_pmf : bool; so_pmfhist : Z; so_trajfreq : Z;      (* long long *)
                             so_replicas : bool; so_nlist : bool; so_shared : Z  (* size_t; sharedFreq, default outputFreq *) }.

(* after the repairs: newHillFrequency must be positive (error + return right after it is read) *)
Definition opes_init (restart_out_freq cv_traj_freq : Z) (c : opesconf) : initres opesstate :=
  let b := bias_init restart_out_freq (o_base c) in
  let '(pace, e1) := getZ (parse_int TStep (o_pace c)) 0 0 in
  if pace <=? 0 then mkRes (mkOpes (r_state b) pace false 0 false 0 0 false false 0) true (r_uses b)
  else
    let '(ads, e2, ret, u2) :=
      if o_adaptive c then
        let '(s0, es) := getZ (parse_int TStep (o_adstride c)) (o_u_adstride c) 0 in
        let s1 := if s0 =? 0 then pace * 10 else s0 in
        if s1 <? pace then (s1, true, true, [])                 (* adaptiveSigmaStride < newHillFrequency: return *)
        else (s1, es, false, [mkUse "showInfo: adaptive_sigma_stride / m_pace" (nz pace)])
      else (0, false, false, []) in
    if ret then mkRes (mkOpes (r_state b) pace (o_adaptive c) ads false 0 0 false false 0) true (r_uses b)
    else
      let '(ph, e3) := if o_pmf c then getZ (parse_int TStep (o_pmfhist c)) 0 0 else (0, false) in
      let '(tf, e4) := getZ (parse_int TStep (o_trajfreq c)) 0 cv_traj_freq in
      (* sharedFreq is read only with multipleReplicas; otherwise the member keeps its (uninitialised) content *)
      let '(sh, e5) := if o_replicas c then getZ (parse_int TSize (o_shared c)) (o_u_shared c) (s_outfreq (r_state b))
                       else (o_u_shared c, false) in
      mkRes (mkOpes (r_state b) pace (o_adaptive c) ads (o_pmf c) ph tf (o_replicas c) (o_nlist c) sh)
            (r_err b || e1 || e2 || e3 || e4 || e5) (r_uses b ++ u2).

(* update_opes, save_state (repaired: restart_out_freq > 0 && ...), computePMF history, writeTrajBuffer *)
Definition opes_step_uses (s : opesstate) (restart_out_freq : Z) (step_rel : Z) : list use :=
  bias_step_uses (so_base s) step_rel
  ++ [mkUse "update_opes: step % m_pace" (nz (so_pace s))]
  ++ (if 0 <? restart_out_freq then [mkUse "save_state: step % restart_out_freq" (nz restart_out_freq)] else [])
  ++ (if so_pmf s && (0 <? so_pmfhist s) then [mkUse "update: step % m_pmf_hist_freq" (nz (so_pmfhist s))] else [])
  ++ (if 0 <? so_trajfreq s then [mkUse "writeTrajBuffer: step % m_traj_output_frequency" (nz (so_trajfreq s))] else [])
  (* calculate_opes (repaired): (comm == multiple_replicas) && (shared_freq > 0) && step % shared_freq == 0 *)
  ++ (if so_nlist s && so_replicas s && (0 <? so_shared s)
      then [mkUse "calculate_opes: step % shared_freq" (nz (so_shared s))] else []).

Definition opes_shared_use_old (s : opesstate) : list use :=
  if so_nlist s && so_replicas s then [mkUse "calculate_opes: step % shared_freq" (nz (so_shared s))] else [].

(* ------------------------------------------------------------------------------------------------ *)
(* Grids: colvar_grid::init_from_colvars / init_from_boundaries / setup                              *)
(* ------------------------------------------------------------------------------------------------ *)

Definition Qltb (a b : Q) : bool := negb (Qle_bool b a).

(* (int) d for a double d: truncation toward zero; out of range (and inf, nan) -> INT_MIN *)
Definition trunc_Q (q : Q) : Z := Z.quot (Qnum q) (Zpos (Qden q)).
Definition cast_int (q : Q) : Z :=
  let t := trunc_Q q in if (int_min <=? t) && (t <? two31) then t else int_min.

Record dim := mkDim { d_lower : Q; d_upper : Q; d_width : Q }.

(* init_from_boundaries: nbins = (upper - lower) / width; nbins_round = (int)(nbins + 0.5);
   a zero width gives inf or nan, hence INT_MIN *)
Definition nbins_round (d : dim) : Z :=
  if Qeq_bool (d_width d) 0 then int_min
  else cast_int ((d_upper d - d_lower d) / d_width d + (1 # 2)).

(* setup(): for i = nd-1 .. 0: nx[i] <= 0 -> error; nxc[i] = nt; nt *= nx[i].
   Repaired: the product must stay <= INT_MAX (the strides nxc are ints), tested before multiplying.
   [nx_rev] is nx in reverse order; returns (nt, nxc in natural order). *)
Fixpoint setup_loop (nx_rev : list Z) (nt : Z) (nxc : list Z) : option (Z * list Z) :=
  match nx_rev with
  | [] => Some (nt, nxc)
  | n :: r =>
      if n <=? 0 then None
      else if int_max / n <? nt then None
      else setup_loop r (nt * n) (nt :: nxc)
  end.

(* the loop before the repair: strides truncated to int, product modulo 2^64 *)
Definition to_int32 (v : Z) : Z := let m := v mod (2 * two31) in if m <? two31 then m else m - 2 * two31.
Fixpoint setup_loop_old (nx_rev : list Z) (nt : Z) (nxc : list Z) : option (Z * list Z) :=
  match nx_rev with
  | [] => Some (nt, nxc)
  | n :: r => if n <=? 0 then None else setup_loop_old r ((nt * n) mod two64) (to_int32 nt :: nxc)
  end.

Inductive verdict := Accept | Reject.

(* init_from_colvars for variables with the given widths/boundaries (scalar variables):
   width <= 0 -> input error; sizes from the boundaries; setup; data.assign(nt) inside try/catch (repaired):
   a refused allocation is a COLVARS_MEMORY_ERROR *)
Definition grid_sizes (dims : list dim) : list Z := map nbins_round dims.

Definition grid_init (host_bytes : Z) (check_width : bool) (dims : list dim) (mult elt : Z) : verdict * Z * list Z :=
  if check_width && existsb (fun d => Qle_bool (d_width d) 0) dims then (Reject, 0, [])
  else match setup_loop (rev (grid_sizes dims)) mult [] with
       | None => (Reject, 0, [])
       | Some (nt, nxc) => if nt * elt <=? host_bytes then (Accept, nt, nxc) else (Reject, nt, nxc)
       end.

(* row-major strides and total as mathematical integers *)
Fixpoint prodZ (l : list Z) : Z := match l with [] => 1 | a :: r => a * prodZ r end.
Fixpoint strides (mult : Z) (nx : list Z) : list Z :=
  match nx with [] => [] | _ :: r => (mult * prodZ r) :: strides mult r end.

(* ------------------------------------------------------------------------------------------------ *)
(* histogramRestraint: p.resize((int)((upper - lower) / width))                                      *)
(* ------------------------------------------------------------------------------------------------ *)

Record hrconf := mkHrConf { h_lower : option tok; h_upper : option tok; h_width : option tok }.

(* repaired: the checks return before any size is computed; the bin count must be below INT_MAX (tested on the
   double, before the cast) and at least 1; the three vectors are resized inside try/catch *)
Definition histrestr_init (host_bytes : Z) (c : hrconf) : initres Z :=
  let '(lo, e1) := getQ (parse_real (h_lower c)) 0 0 in
  let '(up, e2) := getQ (parse_real (h_upper c)) 0 0 in
  let '(w, e3) := getQ (parse_real (h_width c)) 0 0 in
  if Qle_bool w 0 || Qle_bool up lo then mkRes 0 true []       (* both flagged, then return *)
  else if Qle_bool (int_max # 1) ((up - lo) / w) then mkRes 0 true []
  else
    let n := cast_int ((up - lo) / w) in
    if n <? 1 then mkRes n true []
    else mkRes n (e1 || e2 || e3 || negb (n * 8 * 3 <=? host_bytes))
               [mkUse "histogramRestraint init: p.resize(nbins)" (0 <? n)].

(* before the repair: width <= 0 and lower >= upper only flagged the error and the resize went ahead with
   (size_t)(int) nbins *)
Definition histrestr_resize_arg_old (lo up w : Q) : Z :=
  let n := if Qeq_bool w 0 then int_min else cast_int ((up - lo) / w) in
  if n <? 0 then two64 + n else n.

(* ------------------------------------------------------------------------------------------------ *)
(* Roll-back: colvarmodule::parse_colvars, parse_biases_type/check_new_bias, catch_input_errors      *)
(* ------------------------------------------------------------------------------------------------ *)

(* an object block of the configuration, abstractly: its name, its type keyword, and whether its init()
   (+ check_keywords) flags an error *)
Record block := mkBlock { k_name : string; k_type : string; k_fails : bool }.

Record lists := mkLists { l_colvars : list string; l_biases : list (string * string); l_err : bool }.

(* parse_colvars: push_back(new colvar); init; on failure delete (the destructor removes it from the array)
   and return COLVARS_ERROR; a duplicate name is an init error *)
Fixpoint parse_colvars (bs : list block) (st : lists) : lists :=
  match bs with
  | [] => st
  | b :: r =>
      let pushed := l_colvars st ++ [k_name b] in
      if k_fails b || existsb (String.eqb (k_name b)) (l_colvars st)
      then mkLists (removelast pushed) (l_biases st) true               (* delete colvars.back(); return *)
      else parse_colvars r (mkLists pushed (l_biases st) (l_err st))
  end.

(* parse_biases_type<T>(conf, keyword): the blocks of one type in order; check_new_bias deletes the new bias
   when cvm::get_error() is set (by this bias or by anything earlier in this parse) and the loop returns *)
Fixpoint parse_biases_type (bs : list block) (st : lists) : lists :=
  match bs with
  | [] => st
  | b :: r =>
      let pushed := l_biases st ++ [(k_name b, k_type b)] in
      if l_err st || k_fails b || existsb (fun nb => String.eqb (k_name b) (fst nb)) (l_biases st)
      then mkLists (l_colvars st) (removelast pushed) true
      else parse_biases_type r (mkLists (l_colvars st) pushed false)
  end.

(* parse_biases: one call per bias type, in the fixed order of the code; the return value of each call is ignored *)
Fixpoint parse_biases (by_type : list (list block)) (st : lists) : lists :=
  match by_type with
  | [] => st
  | bs :: r => parse_biases r (parse_biases_type bs st)
  end.

(* parse_config: colvars, then (only if no error) biases; catch_input_errors adds COLVARS_INPUT_ERROR *)
Definition parse_config (cvs : list block) (biases_by_type : list (list block)) (st : lists) : lists :=
  let st0 := mkLists (l_colvars st) (l_biases st) false in        (* errors are cleared by the caller between configurations *)
  let st1 := parse_colvars cvs st0 in
  if l_err st1 then st1 else parse_biases biases_by_type st1.

(* ------------------------------------------------------------------------------------------------ *)
(* Vector-valued keywords: colvarparse::_get_keyval_vector_ (after the repairs of the C09 slice)        *)
(* ------------------------------------------------------------------------------------------------ *)

(* destination empty: every token is read in turn; the first unreadable one raises an error and stops the loop *)
Fixpoint read_all (ts : list tok) : list Q * bool :=
  match ts with
  | [] => ([], false)
  | t :: r => match parse_real (Some t) with
              | QVal q => let '(l, e) := read_all r in (q :: l, e)
              | _ => ([], true)
              end
  end.

(* destination of size n: element i is replaced by token i; a missing or unreadable token raises an error (and the
   stream stays failed: the remaining elements keep their content); text left after the n-th value is an error *)
Fixpoint read_into (cur : list Q) (ts : list tok) (failed : bool) : list Q * bool :=
  match cur with
  | [] => ([], failed || (negb failed && negb (match ts with [] => true | _ => false end)))
  | c :: cr =>
      if failed then let '(l, e) := read_into cr ts true in (c :: l, true)
      else match ts with
           | [] => let '(l, e) := read_into cr [] true in (c :: l, true)
           | t :: tr => match parse_real (Some t) with
                        | QVal q => let '(l, e) := read_into cr tr false in (q :: l, e)
                        | _ => let '(l, e) := read_into cr tr true in (c :: l, true)
                        end
           end
  end.

(* get_keyval(conf, key, values, def): keyword absent -> values unchanged (callers pass def = values); keyword without
   text -> error; otherwise by the size of the destination *)
Definition getV (toks : option (list tok)) (cur : list Q) : list Q * bool :=
  match toks with
  | None => (cur, false)
  | Some [] => (cur, true)
  | Some ts => match cur with [] => read_all ts | _ => read_into cur ts false end
  end.

(* a per-variable list keyword of an object on n variables: the caller's check `values.size() != num_variables()`
   (error + return) and an optional element check (e.g. maxForce >= 0) *)
Definition vector_keyword (n : nat) (presized : bool) (elem_ok : Q -> bool) (toks : option (list tok)) : list Q * bool :=
  let '(v, e) := getV toks (if presized then repeat (0 # 1) n else []) in
  (v, e || negb (Nat.eqb (List.length v) n) || negb (forallb elem_ok v)).

Definition tok_value (t : tok) : option Q := match parse_real (Some t) with QVal q => Some q | _ => None end.

(* ------------------------------------------------------------------------------------------------ *)
(* Module-level pending configuration: colvarmodule::extra_conf                                        *)
(* ------------------------------------------------------------------------------------------------ *)

(* A variable block with the deprecated lowerWall/upperWall keywords QUEUES a harmonicWalls block
   (colvar::parse_legacy_wall_params -> append_new_config) while it is being initialised, also when the variable is
   then rejected and deleted.  parse_config() clears the queue when it starts, appends to it during parse_colvars,
   and parses + clears it at its end; every early return on a rejected configuration skips that end, so the queue
   is module-level residue of a rejected configuration.  [clear = false] is the variant without the clear() at the
   start (seeded change C10_3). *)
Record cblock := mkCBlock { cb_block : block; cb_walls : option block }.
Record mstate := mkMState { ms_lists : lists; ms_pending : list block }.

(* what the variables that parse_colvars actually initialises queue: up to and including the first rejected one *)
Fixpoint queued (bs : list cblock) (have : list string) : list block :=
  match bs with
  | [] => []
  | b :: r =>
      let q := match cb_walls b with Some w => [w] | None => [] end in
      if k_fails (cb_block b) || existsb (String.eqb (k_name (cb_block b))) have then q
      else q ++ queued r (have ++ [k_name (cb_block b)])
  end.

Definition parse_config_ext (clear : bool) (cvs : list cblock) (biases_by_type : list (list block)) (st : mstate) : mstate :=
  let p0 := if clear then [] else ms_pending st in
  let l0 := mkLists (l_colvars (ms_lists st)) (l_biases (ms_lists st)) false in
  let l1 := parse_colvars (map cb_block cvs) l0 in
  let p1 := p0 ++ queued cvs (l_colvars l0) in
  if l_err l1 then mkMState l1 p1                                     (* early return: the queue is left behind *)
  else
    let l2 := parse_biases biases_by_type l1 in
    if l_err l2 then mkMState l2 p1
    else match p1 with
         | [] => mkMState l2 []
         | _ => mkMState (parse_biases [p1] l2) []                    (* the queued blocks are parsed, then cleared *)
         end.

(* what the next parse_config() call can see of a state: the object lists (the error flag is reset by the caller) *)
Definition visible (st : mstate) : list string * list (string * string) := (l_colvars (ms_lists st), l_biases (ms_lists st)).

(* How a block comes to "fail".  Most validation errors are raised through a bare cvm::error() whose return value is
   dropped (the init function carries on and may return COLVARS_OK): they only set the module's error state.
   colvar::init() ends with parse_analysis(), which returns (cvm::get_error() ? COLVARS_ERROR : COLVARS_OK), and
   check_new_bias() tests cvm::get_error() itself: the error state is CONSULTED at the end of the initialisation, which
   is what makes parse_colvars / parse_biases_type roll such an object back.  [consult = false] is the variant in
   which parse_analysis returns only its own error code (seeded change C10_1). *)
Record iblock := mkIBlock { ib_name : string; ib_type : string;
                            ib_returns_error : bool;     (* init() returns an error code *)
                            ib_raises_bare : bool }.     (* init() calls cvm::error() and drops its return value *)

Definition init_fails (consult : bool) (b : iblock) : bool := ib_returns_error b || (consult && ib_raises_bare b).
Definition to_block (consult : bool) (b : iblock) : block := mkBlock (ib_name b) (ib_type b) (init_fails consult b).
Definition raises (b : iblock) : bool := ib_returns_error b || ib_raises_bare b.

(* ------------------------------------------------------------------------------------------------ *)
(* validate: one verdict for a configuration fragment of each modelled kind                          *)
(* ------------------------------------------------------------------------------------------------ *)

Definition verdict_of {S} (r : initres S) : verdict := if r_err r then Reject else Accept.

(* ------------------------------------------------------------------------------------------------ *)
(* The guard table itself: which (source file, keyword) pairs the definitions above cover, and which are      *)
(* deliberately left out, with the reason.  props/C10/guardscan.py regenerates coq/Gen/GenGuards.v from the     *)
(* current source tree (every get_keyval destination used as divisor, modulus, size, loop bound, index or        *)
(* integer cast); C10_guard_table_covers_source re-checks on every run that nothing it finds is missing here.    *)
(* ------------------------------------------------------------------------------------------------ *)

Definition guard_covered : list (string * string * string) := [
  ("colvarmodule.cpp", "colvarsTrajFrequency", "module_init / module_step_uses");
  ("colvarmodule.cpp", "colvarsRestartFrequency", "module_init / module_step_uses, opes_step_uses");
  ("colvar.cpp", "timeStepFactor", "colvar_init / colvar_step_uses");
  ("colvar.cpp", "runAveStride", "colvar_init / colvar_step_uses");
  ("colvar.cpp", "corrFuncStride", "colvar_init / corrfunc_uses");
  ("colvar.cpp", "corrFuncLength", "colvar_init / corrfunc_uses");
  ("colvar.cpp", "corrFuncOffset", "colvar_init / corrfunc_uses");
  ("colvar.cpp", "scriptedFunctionVectorSize", "scripted_init");
  ("colvar.cpp", "width", "grid_init (check_width)");
  ("colvargrid_def.h", "width", "grid_init");
  ("colvarbias.cpp", "outputFreq", "bias_init / bias_step_uses, abf_init");
  ("colvarbias.cpp", "timeStepFactor", "bias_init / bias_step_uses");
  ("colvarbias_abf.cpp", "historyFreq", "abf_init / abf_step_uses");
  ("colvarbias_meta.cpp", "newHillFrequency", "meta_init / meta_step_uses");
  ("colvarbias_meta.cpp", "gridsUpdateFrequency", "meta_init / meta_step_uses");
  ("colvarbias_meta.cpp", "replicaUpdateFrequency", "meta_init / meta_step_uses");
  ("colvarbias_opes.cpp", "newHillFrequency", "opes_init / opes_step_uses");
  ("colvarbias_opes.cpp", "adaptiveSigmaStride", "opes_init");
  ("colvarbias_opes.cpp", "pmfHistoryFrequency", "opes_init / opes_step_uses");
  ("colvarbias_opes.cpp", "printTrajectoryFrequency", "opes_init / opes_step_uses");
  ("colvarbias_opes.cpp", "sharedFreq", "opes_init / opes_step_uses");
  ("colvarbias_restraint.cpp", "targetNumSteps", "moving_init / moving_step_uses");
  ("colvarbias_restraint.cpp", "width", "histrestr_init");
  ("colvarcomp_coordnums.cpp", "pairListFrequency", "coordnum_init / coordnum_step_uses") ].

Definition guard_exempt : list (string * string * string) := [
  ("colvar.cpp", "runAveLength", "loop bound when the window of a running average is restored from a state (repair of round 5): the same loop is also bounded by the number of values actually present in the state (iw < window.size()), so the keyword cannot make it run over more data than exist");
  ("colvarbias_abf.cpp", "pABFintegrateFreq", "guarded at its only use: pabf_freq && step % pabf_freq");
  ("colvarbias_abf.cpp", "sharedFreq", "guarded at both uses: shared_freq && ... % shared_freq");
  ("colvarbias_alb.cpp", "UpdateFrequency", "divisor of a floating-point division only; must be > 0 (checked in init)");
  ("colvarbias_alb.cpp", "updateCalls", "state-file keyword; floating-point divisions only");
  ("colvarbias_alb.cpp", "couplingAccum", "false match of the scanner ((int) num_variables() on the same line)");
  ("colvarbias_histogram_reweight_amd.cpp", "historyFreq", "guarded: b_history_files = (history_freq > 0); bias not configurable in the simulator");
  ("colvarbias_restraint.cpp", "accumulatedWork", "false match of the scanner (declaration with an int argument)");
  ("colvarbias_restraint.cpp", "stage", "state-file keyword (index into lambda_schedule): property C11");
  ("colvarcomp_neuralnetwork.cpp", "output_component", "checked against the size of the output layer (repaired); swept by the check, no model");
  ("colvarcomp_torchann.cpp", "m_output_index", "libtorch build only (not compiled here)");
  ("colvarcomp_neuralnetwork.cpp", "m_output_index", "same member as output_component");
  ("colvarcomp_torchann.cpp", "output_component", "same member name as neuralNetwork's");
  ("colvarcomp_protein.cpp", "vectorNumber", "loop ends at the first failed extraction (repaired); swept by the check, no model");
  ("colvaratoms.cpp", "atomNumbersRange", "read with key_lookup: first <= last and both ends checked before reserve and loop (repaired); structural cases, no model");
  ("colvaratoms.cpp", "atomNameResidueRange", "read with key_lookup: first <= last checked (repaired); needs a topology-aware engine, not configurable in the simulator");
  ("colvarcomp_protein.cpp", "residueRange", "read with key_lookup: first <= last, reserve inside try/catch, loop ends at last (repaired); structural cases, no model");
  ("colvargrid_def.h", "sizes", "state-file keyword: property C11");
  ("colvargrid_def.h", "widths", "state-file keyword: property C11") ].

Definition guard_known (g : string * string * string) : bool :=
  let '(f, k, _) := g in
  existsb (fun e => let '(f', k', _) := e in String.eqb f f' && String.eqb k k') (guard_covered ++ guard_exempt).

(* ================================================================================================ *)
(* Round 4: the validation DECISION of each object kind, keyword by keyword, in the order of the code,    *)
(* with the error class (bits of the module's error state after the configuration)                         *)
(* ================================================================================================ *)

(* a configuration fragment: keyword -> value text (absent keywords are not in the list), list-valued keywords
   -> their tokens, boolean keywords -> their value *)
Record env := mkEnv { e_scalars : list (string * tok); e_lists : list (string * list tok); e_flags : list (string * bool) }.

Fixpoint assoc {A} (k : string) (l : list (string * A)) : option A :=
  match l with [] => None | (k', v) :: r => if String.eqb k k' then Some v else assoc k r end.

Definition ereal (e : env) (k : string) (def : Q) : Q * bool := getQ (parse_real (assoc k (e_scalars e))) def def.
Definition eint (ty : ctype) (e : env) (k : string) (def : Z) : Z * bool := getZ (parse_int ty (assoc k (e_scalars e))) def def.
Definition egiven (e : env) (k : string) : bool := match assoc k (e_scalars e) with Some _ => true | None => false end.
Definition eflag (e : env) (k : string) (def : bool) : bool := match assoc k (e_flags e) with Some b => b | None => def end.
Definition elist (e : env) (k : string) : option (list tok) := assoc k (e_lists e).
Definition elist_given (e : env) (k : string) : bool := match assoc k (e_lists e) with Some _ => true | None => false end.

(* error state accumulated by an init function: any error (-> rejected), and the extra class bits *)
Record errs := mkErrs { x_err : bool; x_bug : bool; x_mem : bool; x_file : bool }.
Definition no_errs := mkErrs false false false false.
Definition flag_input (c : bool) (x : errs) : errs := if c then mkErrs true (x_bug x) (x_mem x) (x_file x) else x.
Definition flag_bug (c : bool) (x : errs) : errs := if c then mkErrs true true (x_mem x) (x_file x) else x.
Definition flag_mem (c : bool) (x : errs) : errs := if c then mkErrs true (x_bug x) true (x_file x) else x.
Definition flag_file (c : bool) (x : errs) : errs := if c then mkErrs true (x_bug x) (x_mem x) true else x.

Definition Q0 : Q := 0 # 1.

(* ---- colvar: init_grid_parameters, check_grid_parameters, init_extended_Lagrangian, timeStepFactor ---- *)
Record cvx := mkCvx { vx_width : Q; vx_lb : option Q; vx_ub : option Q; vx_ext : bool; vx_temp : Q; vx_fluct : Q;
                      vx_tc : Q; vx_damping : Q; vx_tsf : Z }.

Definition colvarx_validate (engine_temp : Q) (e : env) : errs * cvx :=
  let '(tsf, p0) := eint TInt e "timeStepFactor" 1 in
  let x0 := flag_input (p0 || (tsf <? 0)) no_errs in                                    (* tsf < 0: error + return from init *)
  let '(w, p1) := ereal e "width" (1 # 1) in
  let x1 := flag_input (p1 || Qle_bool w Q0) x0 in                                       (* width <= 0: error (grid part returns) *)
  let '(lb, p2) := ereal e "lowerBoundary" Q0 in
  let '(ub, p3) := ereal e "upperBoundary" w in
  let both := egiven e "lowerBoundary" && egiven e "upperBoundary" in
  let grid_ok := negb (Qle_bool w Q0) in
  let x2 := flag_input (grid_ok && (p2 || p3 || (both && Qle_bool ub lb))) x1 in         (* boundaries are parsed only if the width was accepted *)
  let x3 := flag_input (grid_ok && eflag e "expandBoundaries" false && eflag e "hardLowerBoundary" false && eflag e "hardUpperBoundary" false) x2 in
  let ext := eflag e "extendedLagrangian" false in
  let ext_keys := egiven e "extendedTemp" || egiven e "extendedFluctuation" || egiven e "extendedTimeConstant" || egiven e "extendedLangevinDamping" in
  if negb ext || (tsf <? 0) then (flag_input ext_keys x3 (* check_keywords: keywords that nothing looked up *), mkCvx w (if egiven e "lowerBoundary" then Some lb else None) (if egiven e "upperBoundary" then Some ub else None)
                                            false Q0 Q0 Q0 Q0 tsf)
  else
    let '(temp, p4) := ereal e "extendedTemp" engine_temp in
    if Qle_bool temp Q0 then (flag_input true x3, mkCvx w None None true temp Q0 Q0 Q0 tsf)          (* error + return *)
    else
      let '(fl, p5) := ereal e "extendedFluctuation" Q0 in                                           (* no default: 0 (repaired) *)
      if Qle_bool fl Q0 then (flag_input true x3, mkCvx w None None true temp fl Q0 Q0 tsf)           (* error + return *)
      else
        let '(tc, p6) := ereal e "extendedTimeConstant" (200 # 1) in
        let x4 := flag_input (p4 || p5 || p6 || Qle_bool tc Q0) x3 in                                 (* error, no return *)
        let '(g, p7) := ereal e "extendedLangevinDamping" (1 # 1) in
        let x5 := flag_input (p7 || Qltb g Q0) x4 in
        (x5, mkCvx w (if egiven e "lowerBoundary" then Some lb else None) (if egiven e "upperBoundary" then Some ub else None)
                   true temp fl tc g tsf).

(* ---- harmonicWalls on n variables -------------------------------------------------------------------- *)
Fixpoint pairwise_lt (l u : list Q) : bool :=
  match l, u with
  | a :: lr, b :: ur => Qltb a b && pairwise_lt lr ur
  | _, _ => true
  end.

(* variables(i)->dist2(lower, upper) < 1.0e-12 * width_i^2: walls that coincide, measured in units of the variable's
   width (repair of the C03 slice; before it the threshold was the absolute 1.0e-12).  [ws]: the widths, 1 when the
   list is shorter *)
Fixpoint pairwise_apart (ws l u : list Q) : bool :=
  match l, u with
  | a :: lr, b :: ur =>
      let w := match ws with w :: _ => w | [] => 1 # 1 end in
      negb (Qltb ((b - a) * (b - a)) ((1 # 1000000000000) * w * w)) && pairwise_apart (tl ws) lr ur
  | _, _ => true
  end.

Record wallsx := mkWallsx { wx_lower : list Q; wx_upper : list Q; wx_lk : Q; wx_uk : Q }.

Definition walls_validate (ws : list Q) (n : nat) (e : env) : errs * wallsx :=
  let '(fk, p0) := ereal e "forceConstant" (1 # 1) in
  let x0 := flag_input (p0 || Qltb fk Q0) no_errs in                                   (* invalid force constant (the return value is dropped) *)
  (* both lists are pre-sized to n before they are read; an absent one is then cleared *)
  let '(lw, el) := match elist e "lowerWalls" with None => ([], false) | Some ts => getV (Some ts) (repeat Q0 n) end in
  let '(uw, eu) := match elist e "upperWalls" with None => ([], false) | Some ts => getV (Some ts) (repeat Q0 n) end in
  let x1 := flag_input (el || eu) x0 in
  if (Nat.eqb (List.length lw) 0) && (Nat.eqb (List.length uw) 0) then (flag_input true x1, mkWallsx lw uw Q0 Q0)   (* no walls: return *)
  else
    let '(lk, p1) := if Nat.eqb (List.length lw) 0 then (Q0, false) else ereal e "lowerWallConstant" fk in
    let '(uk, p2) := if Nat.eqb (List.length uw) 0 then (Q0, false) else ereal e "upperWallConstant" fk in
    let x2 := flag_input (p1 || p2 || (Nat.eqb (List.length lw) 0 && egiven e "lowerWallConstant")
                          || (Nat.eqb (List.length uw) 0 && egiven e "upperWallConstant")) x1 in   (* check_keywords *)
    if negb (Nat.eqb (List.length lw) 0) && negb (Nat.eqb (List.length uw) 0) then
      if negb (pairwise_lt lw uw) || negb (pairwise_apart ws lw uw) then (flag_input true x2, mkWallsx lw uw lk uk)
      else if Qeq_bool (lk * uk) Q0 then (flag_input true x2, mkWallsx lw uw lk uk)
      else (x2, mkWallsx lw uw lk uk)
    else (x2, mkWallsx lw uw lk uk).

(* ---- OPES: the real-valued parameters (epsilon and kernelCutoff given explicitly) -------------------- *)
Record opesx := mkOpesx { ox_barrier : Q; ox_bf : option Q (* None = inf *); ox_eps : Q; ox_cutoff : Q; ox_ct : Q }.

(* [kbt] = k_B T of the engine (> 0 in the tie); biasfactor given as text: a number, "inf", or absent (barrier/kbt) *)
Definition opesx_validate (kbt : Q) (bf_inf : bool) (explore : bool) (e : env) : errs * opesx :=
  let '(pace, p0) := eint TStep e "newHillFrequency" 0 in
  if pace <=? 0 then (flag_input true no_errs, mkOpesx Q0 None Q0 Q0 Q0)
  else
    let '(ba, p1) := ereal e "barrier" Q0 in
    if Qltb ba Q0 then (flag_input true no_errs, mkOpesx ba None Q0 Q0 Q0)
    else
      let bf_given := egiven e "biasfactor" in
      let '(bfv, p2) := ereal e "biasfactor" (ba / kbt) in
      if bf_inf && explore then (flag_input true no_errs, mkOpesx ba None Q0 Q0 Q0)
      else if negb bf_inf && (p2 || Qle_bool bfv (1 # 1)) then (flag_input true no_errs, mkOpesx ba (Some bfv) Q0 Q0 Q0)
      else
        let '(eps, p3) := ereal e "epsilon" Q0 in
        if Qle_bool eps Q0 then (flag_input true no_errs, mkOpesx ba None eps Q0 Q0)
        else
          let '(cut, p4) := ereal e "kernelCutoff" Q0 in
          if Qle_bool cut Q0 then (flag_input true no_errs, mkOpesx ba None eps cut Q0)
          else
            let '(ct, p5) := ereal e "compressionThreshold" (1 # 1) in
            if negb (Qeq_bool ct Q0) && (Qltb ct Q0 || Qltb cut ct) then (flag_input true no_errs, mkOpesx ba None eps cut ct)
            else (flag_input (p0 || p1 || p3 || p4 || p5) no_errs,
                  mkOpesx ba (if bf_inf then None else Some bfv) eps cut ct).

(* ---- metadynamics: hillWeight, widths, well-tempered ------------------------------------------------- *)
Record metax := mkMetax { mx_weight : Q; mx_sigmas : nat; mx_wt : bool; mx_biastemp : Q;
                          mx_widths : list Q (* the gaussianSigmas in force; [] when hillWidth is used (width_i * hillWidth / 2 > 0) *) }.

Definition metax_validate (n : nat) (e : env) : errs * metax :=
  let '(hw, p0) := ereal e "hillWeight" Q0 in
  let '(nhf, pf1) := eint TSize e "newHillFrequency" 1000 in
  let '(guf, pf2) := eint TSize e "gridsUpdateFrequency" nhf in
  let x0 := flag_input (p0 || pf1 || pf2 || Qle_bool hw Q0) no_errs in                    (* error, no return *)
  let '(sig, es) := getV (elist e "gaussianSigmas") [] in
  let '(hwid, p1) := ereal e "hillWidth" Q0 in
  let x1 := flag_input (es || p1 || (negb (Nat.eqb (List.length sig) 0) && Qltb Q0 hwid)) x0 in   (* mutually exclusive *)
  let nsig := if Qltb Q0 hwid then n else List.length sig in
  let ws := if Qltb Q0 hwid then [] else sig in
  if negb (Nat.eqb nsig n) then (flag_input true x1, mkMetax hw nsig false Q0 ws)           (* number of widths: return *)
  else if negb (forallb (Qltb Q0) ws) then (flag_input true x1, mkMetax hw nsig false Q0 ws)   (* repaired: every width > 0 (the hills divide by its square): return *)
  else
    let wt := eflag e "wellTempered" false in
    let '(bt, p2) := ereal e "biasTemperature" (-1 # 1) in
    (flag_input (p2 || (wt && Qeq_bool bt (-1 # 1))) x1, mkMetax hw nsig wt bt ws).

(* ---- ABF: shared ------------------------------------------------------------------------------------- *)
Definition abfshared_validate (restart_out_freq : Z) (e : env) : errs * (Z * Z) :=
  let '(ofr, p0) := eint TSize e "outputFreq" restart_out_freq in
  let shared := eflag e "shared" false in
  if shared then
    let '(sf, p1) := eint TSize e "sharedFreq" ofr in
    if negb (sf =? 0) && negb (ofr mod sf =? 0) then (flag_input true no_errs, (ofr, sf))
    else (flag_input (p0 || p1) no_errs, (ofr, sf))
  else (flag_input (p0 || egiven e "sharedFreq") no_errs, (ofr, 0)).                    (* check_keywords *)

(* ---- ALB ---------------------------------------------------------------------------------------------- *)
Definition alb_validate (n : nat) (e : env) : errs * (Z * nat) :=
  let '(c, ec) := match elist e "centers" with None => ([], true) | Some ts => getV (Some ts) (repeat Q0 n) end in
  let x0 := flag_input (ec || negb (Nat.eqb (List.length c) n)) no_errs in
  let '(uf, p0) := eint TInt e "UpdateFrequency" 0 in
  let x1 := flag_input (p0 || negb (egiven e "UpdateFrequency")) x0 in
  let half := Z.quot uf 2 in                                                               (* update_freq /= 2 (int) *)
  (flag_input (half <=? 1) x1, (half, List.length c)).

(* ---- restraint with a changing force constant (harmonic) --------------------------------------------- *)
Record kx := mkKx { kx_k : Q; kx_changing : bool; kx_nsteps : Z; kx_nstages : Z; kx_exp : Q (* lambdaExponent: k(lambda) = k0 + (k1 - k0) lambda^exp *) }.

Definition kmoving_validate (restart_out_freq : Z) (e : env) : errs * kx :=
  let '(k, p0) := ereal e "forceConstant" (1 # 1) in
  let x0 := flag_input (p0 || Qltb k Q0) no_errs in                                        (* invalid force constant *)
  let dec := eflag e "decoupling" false in
  let tfk_given := egiven e "targetForceConstant" in
  let '(tfk, p1) := ereal e "targetForceConstant" Q0 in
  if tfk_given && dec then (flag_input true x0, mkKx k true 0 0 (1 # 1))
  else if negb (dec || tfk_given)
       then (flag_input (egiven e "targetNumSteps" || egiven e "targetNumStages" || elist_given e "lambdaSchedule" || egiven e "lambdaExponent") x0,
             mkKx k false 0 0 (1 # 1))                                                     (* check_keywords: not read in this case *)
  else
    let '(ns, p2) := eint TStep e "targetNumSteps" 0 in
    if ns =? 0 then (flag_input true x0, mkKx k true ns 0 (1 # 1))
    else
      let '(ng, p3) := eint TInt e "targetNumStages" 0 in
      let '(sched, esch) := getV (elist e "lambdaSchedule") [] in
      if elist_given e "lambdaSchedule" && (0 <? ng) then (flag_input true x0, mkKx k true ns ng (1 # 1))
      else
        let ng' := if Nat.eqb (List.length sched) 0 then ng else Z.of_nat (List.length sched) - 1 in
        let '(lx, p4) := ereal e "lambdaExponent" (1 # 1) in
        (* repaired: a negative exponent is an error (lambda^exp is infinite at lambda = 0); below 1 it is only a warning *)
        (flag_input (p1 || p2 || p3 || esch || p4 || Qltb lx Q0) x0, mkKx k true ns ng' lx).


(* ================================================================================================ *)
(* Round 5                                                                                           *)
(* ================================================================================================ *)

(* ---- OPES: kernel widths and neighbour-list parameters ------------------------------------------------ *)
(* gaussianSigma is read into a list pre-sized to the number of variables (default 0); without adaptiveSigma every
   width must be positive (repaired: it was not checked and the kernels divide by it).  neighborListParameters, when
   given: exactly two values, the first > 1, the second > 0 and <= 1.16 - 1/sqrt(first), i.e. (for second < 1.16)
   (1.16 - second)^2 * first >= 1. *)
Definition opes_sigma_nlist_validate (n : nat) (e : env) : errs * (list Q * list Q) :=
  let adaptive := eflag e "adaptiveSigma" false in
  let '(sg, es) := match elist e "gaussianSigma" with None => (repeat Q0 n, false) | Some ts => getV (Some ts) (repeat Q0 n) end in
  if negb adaptive && (es || negb (forallb (fun q => Qltb Q0 q) sg)) then (flag_input true no_errs, (sg, []))
  else
    if eflag e "neighborList" false then
      let '(np, en) := getV (elist e "neighborListParameters") [] in
      match np with
      | [] => (flag_input (es || en) no_errs, (sg, []))
      | [p0; p1] =>
          if Qle_bool p0 (1 # 1) || Qle_bool p1 Q0 || Qle_bool (116 # 100) p1 || Qltb (((116 # 100) - p1) * ((116 # 100) - p1) * p0) (1 # 1)
          then (flag_input true no_errs, (sg, np))
          else (flag_input (es || en) no_errs, (sg, np))
      | _ => (flag_input true no_errs, (sg, np))
      end
    else (flag_input (es || elist_given e "neighborListParameters") no_errs, (sg, [])).

(* ---- rmsd: reference positions vs the atoms of the group --------------------------------------------- *)
(* [g] atoms in the group; refPositions given inline with [m] positions, or a file that exists or not and yields [m]
   positions for the group.  Error classes: a missing file is a file error. *)
Definition rmsd_validate (g : nat) (inline : option nat) (file : option (bool * nat)) : errs * nat :=
  if Nat.eqb g 0 then (flag_input true no_errs, O)
  else match inline with
       | Some m => (flag_input (negb (Nat.eqb m g) || match file with Some _ => true | None => false end) no_errs, m)
                   (* a refPositionsFile next to refPositions is never looked up: check_keywords *)
       | None => match file with
                 | Some (false, _) => (flag_file true no_errs, O)
                 | Some (true, m) => (flag_input (negb (Nat.eqb m g)) no_errs, m)
                 | None => (flag_input true no_errs, O)
                 end
       end.

(* ---- ebMeta: the target distribution ------------------------------------------------------------------ *)
(* [file] = the values of targetDistFile on the grid (None: no readable file).  Repaired: a distribution without any
   positive value is rejected.  targetDistMinVal v: 0 < v < 1 -> values below v*max are raised; v = 0 -> zeros are
   raised to the smallest positive value; anything else is an error. *)
Fixpoint qmin (l : list Q) (d : Q) : Q := match l with [] => d | a :: r => let m := qmin r d in if Qle_bool a m then a else m end.
Fixpoint qmax (l : list Q) (d : Q) : Q := match l with [] => d | a :: r => let m := qmax r d in if Qle_bool m a then a else m end.

Definition ebmeta_validate (expand : bool) (file : option (list Q)) (e : env) : errs * list Q :=
  let x0 := flag_input expand no_errs in
  match file with
  | None => (flag_file true x0, [])
  | Some vals =>
      let x1 := flag_input (Qltb (qmin vals Q0) Q0) x0 in
      if Qle_bool (qmax vals Q0) Q0 then (flag_input true x1, vals)
      else
        let '(v, p0) := ereal e "targetDistMinVal" (1 # 1000000) in
        let thr := if Qltb Q0 v && Qltb v (1 # 1) then (v * qmax vals Q0)%Q
                   else qmin (filter (fun q => Qltb Q0 q) vals) (qmax vals Q0) in     (* v = 0: smallest positive value *)
        let x2 := flag_input (p0 || negb ((Qltb Q0 v && Qltb v (1 # 1)) || Qeq_bool v Q0)) x1 in
        (x2, map (fun q => if Qltb q thr then thr else q) vals)
  end.

(* ---- allocation sizes: every size computed from user input, its guard, and the bound it implies ------- *)
Record alloc_site := mkAlloc { as_name : string; as_elements : Z; as_accepted : bool }.

(* the sites of the model, for given inputs *)
Definition alloc_sites (host : Z) (dims : list dim) (mult : Z) (hr : hrconf) (scripted : option tok) (rof : Z) (c : cvconf) : list alloc_site :=
  let '(gv, gnt, _) := grid_init host true dims mult 8 in
  let h := histrestr_init host hr in
  let sc := scripted_init host scripted in
  let cv := colvar_init rof c in
  [ mkAlloc "colvar_grid::setup data.assign(nt)" gnt (match gv with Accept => true | Reject => false end);
    mkAlloc "histogramRestraint p.resize(nbins) x3" (r_state h * 3) (negb (r_err h));
    mkAlloc "scripted vector x.resize(size)" (r_state sc) (negb (r_err sc));
    mkAlloc "calc_acf histories acf_stride*(acf_length+acf_offset+1)"
            (s_cfstride (r_state cv) * (s_cflen (r_state cv) + s_cfoff (r_state cv) + 1)) (negb (r_err cv) && s_corr (r_state cv)) ].

(* ------------------------------------------------------------------------------------------------ *)
(* Module-level state touched by a configuration before it is rejected                               *)
(* ------------------------------------------------------------------------------------------------ *)

(* Everything that survives parse_config() other than the object lists themselves:
     - the index-group registry (index_group_names / index_groups), filled by cvm::read_index_file() from
       parse_global_params(), read by atom_group::add_index_group() (`indexGroup <name>`) and by the listing printed
       at the end of every successful read_index_file();
     - the named atom groups (named_atom_groups; `name <g>` inside a group, read by `atomsOfGroup <g>`);
     - the per-type counters of parse_biases_type (num_biases_types_used), from which default bias names are made;
     - the values set by module-level keywords (colvarsTrajFrequency, colvarsRestartFrequency);
     - which variables are active (f_cv_active): a bias holds a reference on its variables, and releasing the last
       reference switches the variable off;
     - extra_conf (modelled above: parse_config_ext).
   Not modelled because no later configuration or step can observe them: the citation counters (usage_), the log
   indentation depth, the list of index file NAMES (script command listindexfiles only). *)

(* An index file, token by token.  [IAtom z] with z <= 0 is read as text, like any other word. *)
Inductive itok := IHdr (n : string) | IBadHdr | IAtom (z : Z) | IText.

(* group name -> atoms; None is a NULL pointer in index_groups (never present after the repairs) *)
Definition registry := list (string * option (list Z)).

(* how read_index_file leaves the registry when it rejects the file:
   IvRollback: the groups the file added are removed again (repaired code);
   IvKeep: they stay, the last one truncated (before the repair);
   IvNull: the truncated group is deleted and its pointer set to NULL while its name stays (seeded change C10_4) *)
Inductive ivariant := IvRollback | IvKeep | IvNull.

Fixpoint reg_lookup (n : string) (r : registry) : option (option (list Z)) :=
  match r with
  | [] => None
  | (m, v) :: t => if String.eqb n m then Some v else reg_lookup n t
  end.

Fixpoint reg_set (n : string) (v : option (list Z)) (r : registry) : registry :=
  match r with
  | [] => []
  | (m, w) :: t => if String.eqb n m then (m, v) :: t else (m, w) :: reg_set n v t
  end.

Fixpoint zlist_eqb (a b : list Z) : bool :=
  match a, b with
  | [], [] => true
  | x :: a', y :: b' => (x =? y) && zlist_eqb a' b'
  | _, _ => false
  end.

(* while ((is >> atom_number) && (atom_number > 0)) push_back *)
Fixpoint take_atoms (ts : list itok) : list Z * list itok :=
  match ts with
  | IAtom z :: r => if 0 <? z then let '(a, rest) := take_atoms r in (z :: a, rest) else ([], ts)
  | _ => ([], ts)
  end.

(* after the atoms of group [n]: the end of the file, the next header (the loop goes on: [rec]), or an error *)
Definition after_group (v : ivariant) (rec : list itok -> registry -> registry * bool) (n : string) (rest : list itok)
           (r1 : registry) : registry * bool :=
  match rest with
  | [] => (r1, false)
  | IHdr _ :: _ => rec rest r1
  | IBadHdr :: _ => rec rest r1
  | _ => (match v with IvNull => reg_set n None r1 | _ => r1 end, true)             (* unexpected text *)
  end.

(* the loop of read_index_file: a header, the atoms, then see above *)
Fixpoint read_loop (v : ivariant) (fuel : nat) (ts : list itok) (r : registry) : registry * bool :=
  match fuel with
  | O => (r, true)
  | S f =>
      match ts with
      | IHdr n :: ts1 =>
          match reg_lookup n r with
          | Some (Some old) => if zlist_eqb old (fst (take_atoms ts1)) then after_group v (read_loop v f) n (snd (take_atoms ts1)) r
                               else (r, true)                                        (* "was redefined" *)
          | Some None => after_group v (read_loop v f) n (snd (take_atoms ts1)) (reg_set n (Some (fst (take_atoms ts1))) r)
          | None => after_group v (read_loop v f) n (snd (take_atoms ts1)) (r ++ [(n, Some (fst (take_atoms ts1)))])
          end
      | _ => (r, true)                                                               (* no well-formed header *)
      end
  end.

Definition reg_has_null (r : registry) : bool := existsb (fun e => match snd e with None => true | Some _ => false end) r.

(* read_index_file: (registry, rejected, crashed).  The listing at the end of an accepted file dereferences every
   pointer of the registry. *)
Definition read_index_file (v : ivariant) (ts : list itok) (r : registry) : registry * bool * bool :=
  let '(r1, e) := read_loop v (S (List.length ts)) ts r in
  if e then (match v with IvRollback => r | _ => r1 end, true, false)
  else (r1, false, reg_has_null r1).

(* atom_group::add_index_group: not found = error; found = *(index_groups[i]) *)
Inductive group_use := GUError | GUCrash | GUAtoms (l : list Z).
Definition add_index_group (n : string) (r : registry) : group_use :=
  match reg_lookup n r with
  | None => GUError
  | Some None => GUCrash
  | Some (Some l) => GUAtoms l
  end.

(* an atom group of a variable: optional `name`, and where its atoms come from *)
Inductive gsrc := GNumbers | GIndex (n : string) | GOfGroup (n : string).
Record gdesc := mkGd { gd_name : option string; gd_src : gsrc }.
Record cvdesc := mkCvd { cvd_name : string; cvd_fails : bool (* a validation error of its own *); cvd_groups : list gdesc }.
Record biasdesc := mkBd { bd_type : string; bd_name : option string; bd_cvs : list string; bd_fails : bool }.

Record modst := mkModst {
  q_cvs : list string;
  q_biases : list (string * string * list string);        (* name, type, variables *)
  q_reg : registry;
  q_named : list (string * string);                       (* group name, owning variable *)
  q_counters : list (string * Z);                         (* bias type -> number of blocks initialised so far *)
  q_traj : Z; q_restart : Z;
  q_active : list string;
  q_err : bool;
  q_crash : bool }.

Record config6 := mkCfg6 {
  c6_traj : option tok; c6_restart : option tok;
  c6_files : list (option (list itok));                   (* None: the file cannot be opened *)
  c6_cvs : list cvdesc;
  c6_biases : list (list biasdesc) }.                     (* by type, in the order of parse_biases *)

Definition set_err (e : bool) (s : modst) : modst :=
  mkModst (q_cvs s) (q_biases s) (q_reg s) (q_named s) (q_counters s) (q_traj s) (q_restart s) (q_active s) (q_err s || e) (q_crash s).
Definition set_crash (c : bool) (s : modst) : modst :=
  mkModst (q_cvs s) (q_biases s) (q_reg s) (q_named s) (q_counters s) (q_traj s) (q_restart s) (q_active s) (q_err s) (q_crash s || c).
Definition set_reg (r : registry) (s : modst) : modst :=
  mkModst (q_cvs s) (q_biases s) r (q_named s) (q_counters s) (q_traj s) (q_restart s) (q_active s) (q_err s) (q_crash s).

(* parse_global_params: every indexFile in turn (an error does not stop the loop), then the scalar keywords; a
   value that cannot be read is an error and leaves the variable unchanged *)
Fixpoint read_files (v : ivariant) (fs : list (option (list itok))) (s : modst) : modst :=
  match fs with
  | [] => s
  | None :: r => read_files v r (set_err true s)
  | Some ts :: r =>
      let '(r1, e, c) := read_index_file v ts (q_reg s) in
      read_files v r (set_crash c (set_err e (set_reg r1 s)))
  end.

Definition set_size (t : option tok) (cur : Z) : Z * bool :=
  match t with
  | None => (cur, false)
  | Some _ => match parse_int TSize t with ZVal z => (z, false) | _ => (cur, true) end
  end.

Definition parse_globals6 (v : ivariant) (c : config6) (s : modst) : modst :=
  let s1 := read_files v (c6_files c) s in
  let '(tr, e1) := set_size (c6_traj c) (q_traj s1) in
  let '(rs, e2) := set_size (c6_restart c) (q_restart s1) in
  mkModst (q_cvs s1) (q_biases s1) (q_reg s1) (q_named s1) (q_counters s1) tr rs (q_active s1) (q_err s1 || e1 || e2) (q_crash s1).

(* the atom groups of one variable, in order: (names registered so far by this variable, failed, crashed) *)
Fixpoint parse_groups (gs : list gdesc) (reg : registry) (named : list string) (mine : list string) : list string * bool * bool :=
  match gs with
  | [] => (mine, false, false)
  | g :: r =>
      let clash := match gd_name g with Some n => existsb (String.eqb n) (named ++ mine) | None => false end in
      if clash then (mine, true, false)
      else
        let mine1 := match gd_name g with Some n => mine ++ [n] | None => mine end in
        match gd_src g with
        | GNumbers => parse_groups r reg named mine1
        | GOfGroup n => if existsb (String.eqb n) (named ++ mine1) then parse_groups r reg named mine1 else (mine1, true, false)
        | GIndex n => match add_index_group n reg with
                      | GUError => (mine1, true, false)
                      | GUCrash => (mine1, true, true)
                      | GUAtoms _ => parse_groups r reg named mine1
                      end
        end
  end.

(* parse_colvars: a rejected variable is deleted, with the atom groups it registered, and the loop returns *)
Fixpoint parse_cvs6 (cs : list cvdesc) (s : modst) : modst :=
  match cs with
  | [] => s
  | c :: r =>
      let '(mine, gfail, crash) := parse_groups (cvd_groups c) (q_reg s) (map fst (q_named s)) [] in
      if crash then set_crash true (set_err true s)
      else if gfail || cvd_fails c || existsb (String.eqb (cvd_name c)) (q_cvs s) then set_err true s
      else parse_cvs6 r (mkModst (q_cvs s ++ [cvd_name c]) (q_biases s) (q_reg s)
                                 (q_named s ++ map (fun g => (g, cvd_name c)) mine) (q_counters s) (q_traj s) (q_restart s)
                                 (q_active s ++ [cvd_name c]) (q_err s) (q_crash s))
  end.

Fixpoint counter (t : string) (cs : list (string * Z)) : Z :=
  match cs with [] => 0 | (u, n) :: r => if String.eqb t u then n else counter t r end.
Fixpoint bump (t : string) (cs : list (string * Z)) : list (string * Z) :=
  match cs with
  | [] => [(t, 1)]
  | (u, n) :: r => if String.eqb t u then (u, n + 1) :: r else (u, n) :: bump t r
  end.

(* the default name: the type keyword followed by the decimal rank *)
Definition digit (d : Z) : string :=
  match d with 0 => "0" | 1 => "1" | 2 => "2" | 3 => "3" | 4 => "4" | 5 => "5" | 6 => "6" | 7 => "7" | 8 => "8" | _ => "9" end%string.
Fixpoint decimal (fuel : nat) (n : Z) : string :=
  match fuel with
  | O => ""%string
  | S f => if n <? 10 then digit n else (decimal f (n / 10) ++ digit (n mod 10))%string
  end.
Definition default_name (t : string) (rank : Z) : string := (t ++ decimal 20 rank)%string.

Definition uses_cv (c : string) (b : string * string * list string) : bool := existsb (String.eqb c) (snd b).
Definition add_new (l extra : list string) : list string := l ++ filter (fun c => negb (existsb (String.eqb c) l)) extra.

(* parse_biases_type: every block counts (bias_count += 1 before init), also a rejected one.  [restore = false] is
   the code before the repair: deleting the rejected bias releases its variables, and a variable on which no other
   bias holds a reference is switched off. *)
Fixpoint parse_btype6 (restore : bool) (bs : list biasdesc) (s : modst) : modst :=
  match bs with
  | [] => s
  | b :: r =>
      let cs := bump (bd_type b) (q_counters s) in
      let nm := match bd_name b with Some n => n | None => default_name (bd_type b) (counter (bd_type b) cs) end in
      let known := forallb (fun c => existsb (String.eqb c) (q_cvs s)) (bd_cvs b) in
      if q_err s || bd_fails b || negb known || existsb (fun o => String.eqb nm (fst (fst o))) (q_biases s)
      then
        let act := if restore then q_active s
                   else filter (fun c => negb (existsb (String.eqb c) (bd_cvs b)) || existsb (uses_cv c) (q_biases s)) (q_active s) in
        mkModst (q_cvs s) (q_biases s) (q_reg s) (q_named s) cs (q_traj s) (q_restart s) act true (q_crash s)
      else parse_btype6 restore r
             (mkModst (q_cvs s) (q_biases s ++ [(nm, bd_type b, bd_cvs b)]) (q_reg s) (q_named s) cs (q_traj s) (q_restart s)
                      (add_new (q_active s) (bd_cvs b)) false (q_crash s))
  end.

Fixpoint parse_biases6 (restore : bool) (by_type : list (list biasdesc)) (s : modst) : modst :=
  match by_type with
  | [] => s
  | bs :: r => parse_biases6 restore r (parse_btype6 restore bs s)
  end.

(* parse_config: the error state was cleared by the caller; each phase returns when an error is set *)
Definition parse_config6 (v : ivariant) (restore : bool) (c : config6) (s : modst) : modst :=
  let s0 := mkModst (q_cvs s) (q_biases s) (q_reg s) (q_named s) (q_counters s) (q_traj s) (q_restart s) (q_active s) false (q_crash s) in
  let s1 := parse_globals6 v c s0 in
  if q_err s1 || q_crash s1 then s1
  else let s2 := parse_cvs6 (c6_cvs c) s1 in
       if q_err s2 || q_crash s2 then s2
       else parse_biases6 restore (c6_biases c) s2.

(* colvarmodule::reset(): objects, registries and counters go; the values of the module-level keywords stay *)
Definition reset6 (s : modst) : modst := mkModst [] [] [] [] [] (q_traj s) (q_restart s) [] false (q_crash s).

(* script commands `cv bias <name> delete` and `cv colvar <name> delete`.  Deleting a bias releases its variables: one
   that no other bias uses is switched off (by design: only the REJECTED bias of a configuration must leave them as
   they were).  Deleting a variable first deletes the biases that use it, last added first, then the variable with
   the atom groups it had named. *)
Definition drop_unused (cs : list string) (bs : list (string * string * list string)) (act : list string) : list string :=
  filter (fun c => negb (existsb (String.eqb c) cs) || existsb (uses_cv c) bs) act.

Definition delete_bias6 (n : string) (s : modst) : modst :=
  match find (fun b => String.eqb n (fst (fst b))) (q_biases s) with
  | None => s
  | Some b =>
      let bs := filter (fun o => negb (String.eqb n (fst (fst o)))) (q_biases s) in
      mkModst (q_cvs s) bs (q_reg s) (q_named s) (q_counters s) (q_traj s) (q_restart s) (drop_unused (snd b) bs (q_active s)) (q_err s) (q_crash s)
  end.

Definition delete_cv6 (c : string) (s : modst) : modst :=
  if negb (existsb (String.eqb c) (q_cvs s)) then s
  else
    let users := map (fun b => fst (fst b)) (filter (uses_cv c) (q_biases s)) in
    let s1 := fold_left (fun st n => delete_bias6 n st) (rev users) s in
    mkModst (filter (fun x => negb (String.eqb c x)) (q_cvs s1)) (q_biases s1) (q_reg s1)
            (filter (fun go => negb (String.eqb c (snd go))) (q_named s1)) (q_counters s1) (q_traj s1) (q_restart s1)
            (filter (fun x => negb (String.eqb c x)) (q_active s1)) (q_err s1) (q_crash s1).

Inductive op6 := OpCfg (c : config6) | OpReset | OpDelBias (n : string) | OpDelCv (n : string).

Definition run_op6 (v : ivariant) (restore : bool) (o : op6) (s : modst) : modst :=
  match o with
  | OpCfg c => parse_config6 v restore c s
  | OpReset => reset6 s
  | OpDelBias n => delete_bias6 n s
  | OpDelCv n => delete_cv6 n s
  end.

Fixpoint run_session6 (v : ivariant) (restore : bool) (ops : list op6) (s : modst) : modst :=
  match ops with
  | [] => s
  | o :: r => run_session6 v restore r (run_op6 v restore o s)
  end.

(* well-formed state: no NULL in the registry, no crash so far, every named group is owned by a defined variable,
   every active variable and every variable of a bias is defined *)
Definition reg_wf (r : registry) : Prop := reg_has_null r = false.
