(* C10: invalid parameter values are errors, never fatal.
   GuardModel: a hand-written, executable mirror of the INPUT VALIDATION logic of Colvars: for every
   user-controlled quantity that the initialisation or the update paths use as a divisor, a modulus, an
   allocation size or an array length, (i) how its text is turned into a typed value
   (colvarparse::_get_keyval_scalar_value_ with operator>>), (ii) the checks the init code performs, in the order
   of the code, including whether a failed check returns or only flags the error (cvm::error() does not
   abort), and (iii) every guarded use with its precondition (what must hold for the C++ expression not to
   trap / wrap / allocate from an unchecked size).  Definitions only; proofs are in GuardProofs.v.

   Integer quantities are Z with the wrap of the C type written explicitly (size_t = 64 bit, int = 32 bit,
   cvm::step_number = long long); real quantities are exact rationals (Q); the double -> int cast is the
   x86 one (cvttsd2si: out of range, infinity and NaN give INT_MIN). *)
From Coq Require Import ZArith List Bool QArith String.
Import ListNotations.
Local Open Scope Z_scope.

(* ------------------------------------------------------------------------------------------------ *)
(* C types and text -> value                                                                        *)
(* ------------------------------------------------------------------------------------------------ *)

Definition two31 : Z := 2147483648.
Definition two63 : Z := 9223372036854775808.
Definition two64 : Z := 18446744073709551616.
Definition int_max : Z := two31 - 1.
Definition int_min : Z := - two31.

Inductive ctype := TSize | TInt | TStep.

Definition in_range (ty : ctype) (v : Z) : bool :=
  match ty with
  | TSize => (0 <=? v) && (v <? two64)
  | TInt => (int_min <=? v) && (v <? two31)
  | TStep => (- two63 <=? v) && (v <? two63)
  end.

(* The value text of a keyword, as far as operator>> distinguishes it. *)
Inductive tok :=
| TokInt (z : Z)                               (* a decimal integer literal: 0, -1, 2147483647 *)
| TokSci (m : Z) (e : Z)                       (* <m>e<e> with an integer mantissa: 1e300, 1e-300 *)
| TokFrac (ip : Z) (num : Z) (den : positive)  (* a decimal with a fractional part: integer prefix ip, value num/den *)
| TokWord.                                     (* nan, inf, abc: no numeric prefix *)

Inductive presZ := ZAbsent | ZVal (v : Z) | ZFail.
Inductive presQ := QAbsent | QVal (q : Q) | QFail.

(* istream >> integer (libstdc++): an unsigned type accepts a minus sign and negates modulo 2^64; a value that
   does not fit sets failbit (the variable read into is a temporary, the destination keeps its content). *)
Definition extract_int (ty : ctype) (z : Z) : presZ :=
  match ty with
  | TSize => if (0 <=? z) && (z <? two64) then ZVal z
             else if (- two64 <? z) && (z <? 0) then ZVal (two64 + z) else ZFail
  | TInt => if (int_min <=? z) && (z <? two31) then ZVal z else ZFail
  | TStep => if (- two63 <=? z) && (z <? two63) then ZVal z else ZFail
  end.

(* _get_keyval_scalar_value_ reads values until the end of the text and any text that is not a value is an error
   (repaired by "fix: text after the value of a scalar keyword was silently ignored"): "1e300" read as an integer
   is 1 followed by the unreadable "e300" -> error; likewise "0.5"; "nan" -> error.  (Before that repair the
   extractions were counted and "1e300" was accepted as 1, "0.5" as 0.) *)
Definition parse_int (ty : ctype) (t : option tok) : presZ :=
  match t with
  | None => ZAbsent
  | Some (TokInt z) => extract_int ty z
  | Some (TokSci _ _) => ZFail
  | Some (TokFrac _ _ _) => ZFail
  | Some TokWord => ZFail
  end.

Definition dbl_max : Z := 2 ^ 1024 - 2 ^ 971.

Definition parse_real (t : option tok) : presQ :=
  match t with
  | None => QAbsent
  | Some (TokInt z) => if Z.abs z <=? dbl_max then QVal (z # 1) else QFail
  | Some (TokSci m e) =>
      if 0 <=? e then (if Z.abs (m * 10 ^ e) <=? dbl_max then QVal ((m * 10 ^ e) # 1) else QFail)
      else QVal (m # (Z.to_pos (10 ^ (- e))))
  | Some (TokFrac _ n d) => QVal (n # d)
  | Some TokWord => QFail
  end.

(* get_keyval(conf, key, value, default): absent -> default; unparsable -> cvm::error, and the caller CONTINUES
   with the default (repaired: before, the destination kept its previous content [cur], which most callers leave
   uninitialised).  Returns (value, error flagged). *)
Definition getZ (p : presZ) (cur def : Z) : Z * bool :=
  match p with ZAbsent => (def, false) | ZVal v => (v, false) | ZFail => (def, true) end.
Definition getQ (p : presQ) (cur def : Q) : Q * bool :=
  match p with QAbsent => (def, false) | QVal v => (v, false) | QFail => (def, true) end.

(* A guarded use that was reached: the site and whether its precondition held. *)
Record use := mkUse { u_site : string; u_ok : bool }.
Definition all_ok (l : list use) : bool := forallb u_ok l.

(* a % b, a / b on integers trap iff b = 0 (INT_MIN % -1 cannot occur: step counts are >= 0) *)
Definition nz (b : Z) : bool := negb (b =? 0).

Record initres (S : Type) := mkRes { r_state : S; r_err : bool; r_uses : list use }.
Arguments mkRes {S}. Arguments r_state {S}. Arguments r_err {S}. Arguments r_uses {S}.

Definition accepted {S} (r : initres S) : bool := negb (r_err r).

Local Open Scope string_scope.
Local Open Scope Z_scope.
Local Open Scope list_scope.

(* ------------------------------------------------------------------------------------------------ *)
(* Module-level frequencies (colvarmodule::parse_global_params, calc, write_traj_files)              *)
(* ------------------------------------------------------------------------------------------------ *)

Record modconf := mkModConf { mc_traj : option tok; mc_restart : option tok }.
Record modstate := mkMod { traj_freq : Z; restart_freq : Z }.     (* both size_t *)

(* the engine supplies the initial values (proxy constructor / setup) *)
Definition module_init (eng : modstate) (c : modconf) : initres modstate :=
  let '(tf, e1) := getZ (parse_int TSize (mc_traj c)) (traj_freq eng) (traj_freq eng) in
  let '(rf, e2) := getZ (parse_int TSize (mc_restart c)) (restart_freq eng) (restart_freq eng) in
  mkRes (mkMod tf rf) (e1 || e2) [].

(* colvarmodule::calc() + write_traj_files() at one step.  [labels_pending]: first step of a run or a
   changed configuration (then the label test short-circuits before the modulo). *)
Definition module_step_uses (m : modstate) (traj_name_set labels_pending : bool) (step_abs step_rel : Z) : list use :=
  (if nz (traj_freq m) && traj_name_set then
     (* labels: ((step % freq) == 0) && (((step / freq) % 1000) == 0)   [after the repair; it was
        step % (freq * 1000) with the product computed in size_t] *)
     [mkUse "write_traj_files: step % cv_traj_freq (labels)" (nz (traj_freq m));
      mkUse "write_traj_files: step % cv_traj_freq" (nz (traj_freq m))]
     ++ (if nz (restart_freq m) then [mkUse "write_traj_files: step % restart_out_freq" (nz (restart_freq m))] else [])
   else [])
  ++ (if nz (restart_freq m) && (0 <? step_rel)
      then [mkUse "calc: step % restart_out_freq" (nz (restart_freq m))] else []).

(* the expression before the repair, kept for the record (see C10_traj_label_modulus_old_refuted) *)
Definition traj_label_modulus_old (freq : Z) : Z := (freq * 1000) mod two64.

(* ------------------------------------------------------------------------------------------------ *)
(* colvar: timeStepFactor, runAve*, corrFunc* (colvar::init, parse_analysis, calc_runave, calc_acf)  *)
(* ------------------------------------------------------------------------------------------------ *)

Record cvconf := mkCvConf {
  c_tsf : option tok;
  c_runave : bool; c_ralen : option tok; c_rastride : option tok;
  c_corr : bool; c_cflen : option tok; c_cfstride : option tok; c_cfoff : option tok;
  (* previous content of members that no constructor initialises (indeterminate in the C++) *)
  c_u_ralen : Z; c_u_rastride : Z; c_u_cflen : Z; c_u_cfstride : Z; c_u_cfoff : Z }.

Record cvstate := mkCv {
  s_tsf : Z;                                 (* int *)
  s_runave : bool; s_ralen : Z; s_rastride : Z;            (* size_t *)
  s_corr : bool; s_cflen : Z; s_cfstride : Z; s_cfoff : Z  (* size_t *) }.

Definition colvar_init (restart_out_freq : Z) (c : cvconf) : initres cvstate :=
  let '(tsf, e1) := getZ (parse_int TInt (c_tsf c)) 1 1 in
  if tsf <? 0 then mkRes (mkCv tsf false 0 0 false 0 0 0) true []          (* error + return *)
  else
    (* parse_analysis: if runAve ... ; a zero stride is an error + return (nothing after it is parsed) *)
    let '(ralen, rastride, e2, u2, ret2) :=
      if c_runave c then
        let '(l, el) := getZ (parse_int TSize (c_ralen c)) (c_u_ralen c) 1000 in
        let '(s, es) := getZ (parse_int TSize (c_rastride c)) (c_u_rastride c) 1 in
        if s =? 0 then (l, s, true, [], true)       (* "runAveStride must be a positive integer": return *)
        else (l, s, el || es || negb (restart_out_freq mod s =? 0),
              [mkUse "parse_analysis: restart_out_freq % runave_stride" (nz s)], false)
      else (0, c_u_rastride c, false, [], false) in
    if ret2 then mkRes (mkCv tsf (c_runave c) ralen rastride false 0 (c_u_cfstride c) (c_u_cfoff c)) true u2
    else
    let '(cflen, cfstride, cfoff, e3, u3) :=
      if c_corr c then
        let '(o, eo) := getZ (parse_int TSize (c_cfoff c)) (c_u_cfoff c) 0 in
        let '(l, el) := getZ (parse_int TSize (c_cflen c)) (c_u_cflen c) 1000 in
        let '(s, es) := getZ (parse_int TSize (c_cfstride c)) (c_u_cfstride c) 1 in
        if s =? 0 then (l, s, o, true, [])    (* "corrFuncStride must be a positive integer": return *)
        else (l, s, o, eo || el || es || negb (restart_out_freq mod s =? 0),
              [mkUse "parse_analysis: restart_out_freq % acf_stride" (nz s)])
      else (0, c_u_cfstride c, c_u_cfoff c, false, []) in
    mkRes (mkCv tsf (c_runave c) ralen rastride (c_corr c) cflen cfstride cfoff) (e1 || e2 || e3) (u2 ++ u3).

(* what the host can allocate in one request (bytes): an environment parameter of the model *)
Definition alloc_ok (host_bytes : Z) (n elt : Z) : bool := (0 <=? n) && (n * elt <=? host_bytes).

(* calc_colvars (multiple time step) + calc_runave: the uses that are proved safe *)
Definition colvar_step_uses (s : cvstate) (step_abs step_rel : Z) : list use :=
  (if 1 <? s_tsf s then [mkUse "calc_colvars: step % time_step_factor" (nz (s_tsf s))] else [])
  ++ (if s_runave s then [mkUse "calc_runave: step_relative % runave_stride" (nz (s_rastride s))] else []).

(* calc_acf at the first analysis step and afterwards: sizes taken from corrFuncLength/Stride/Offset without
   any check (recorded defects, see C10_corrfunc_sizes_refuted):
   acf.resize(acf_length+1) [size_t wrap: nothing allocated; unchecked allocation], acf_stride list heads allocated one
   by one, and, once the history holds (acf_length+acf_offset) mod 2^64 values, `for (i = 0; i < acf_offset; i++)
   ++iterator` followed by writes through acf.begin(). *)
Definition corrfunc_uses (host_bytes : Z) (s : cvstate) (history_size : Z) : list use :=
  if s_corr s then
    let n := (s_cflen s + 1) mod two64 in                 (* if (acf.size() < acf_length+1) acf.resize(acf_length+1) *)
    let m := (s_cflen s + s_cfoff s) mod two64 in         (* length at which a history is complete (and capped) *)
    [mkUse "calc_acf: acf.resize(acf_length+1)" (alloc_ok host_bytes n 8);
     mkUse "calc_acf: acf_stride history lists" (alloc_ok host_bytes (s_cfstride s) 24)]
    ++ (if m <=? history_size then
          [mkUse "calc_*_acf: skip acf_offset entries of the history" (s_cfoff s <=? history_size);
           mkUse "calc_*_acf: *(acf.begin()) += ..." (1 <=? n)]
        else [])
  else [].

(* ------------------------------------------------------------------------------------------------ *)
(* colvarbias::init: outputFreq, timeStepFactor                                                     *)
(* ------------------------------------------------------------------------------------------------ *)

Record biasconf := mkBiasConf { b_outfreq : option tok; b_tsf : option tok }.
Record biasstate := mkBias { s_outfreq : Z (* size_t *); s_btsf : Z (* int *) }.

(* constructor: output_freq = cvm::restart_out_freq, time_step_factor = 1 *)
Definition bias_init (restart_out_freq : Z) (c : biasconf) : initres biasstate :=
  let '(ofr, e1) := getZ (parse_int TSize (b_outfreq c)) restart_out_freq restart_out_freq in
  let '(tsf, e2) := getZ (parse_int TInt (b_tsf c)) 1 1 in
  mkRes (mkBias ofr tsf) (e1 || e2 || (tsf <? 1)) [].                  (* timeStepFactor < 1: error, no return *)

Definition bias_step_uses (s : biasstate) (step_rel : Z) : list use :=
  (if 1 <? s_btsf s then [mkUse "calc_colvars: step % bias time_step_factor" (nz (s_btsf s))] else [])
  ++ (if (0 <? s_outfreq s) && (0 <? step_rel) then [mkUse "calc: step % output_freq" (nz (s_outfreq s))] else []).

(* ------------------------------------------------------------------------------------------------ *)
(* metadynamics: newHillFrequency, gridsUpdateFrequency                                             *)
(* ------------------------------------------------------------------------------------------------ *)

Record metaconf := mkMetaConf { m_base : biasconf; m_newhill : option tok; m_usegrids : bool; m_gridsfreq : option tok }.
Record metastate := mkMeta { sm_base : biasstate; sm_newhill : Z; sm_usegrids : bool; sm_gridsfreq : Z; sm_history : bool }.

Definition meta_init (restart_out_freq : Z) (c : metaconf) : initres metastate :=
  let b := bias_init restart_out_freq (m_base c) in
  (* constructor: new_hill_freq = 1000, grids_freq = 0 *)
  let '(nh, e1) := getZ (parse_int TSize (m_newhill c)) 1000 1000 in
  let g0 := if 0 <? nh then nh else 0 in                   (* if (new_hill_freq > 0) { if (grids_freq == 0) grids_freq = new_hill_freq; } *)
  let '(gf, e2) := if m_usegrids c then getZ (parse_int TSize (m_gridsfreq c)) g0 g0 else (g0, false) in
  mkRes (mkMeta (r_state b) nh (m_usegrids c) gf (0 <? nh)) (r_err b || e1 || e2) (r_uses b).

(* update_bias / update_grid_data after the repairs:
     if (is_enabled(f_cvb_history_dependent) && (step % new_hill_freq) == 0 && ...)     [history <-> new_hill_freq > 0]
     if ((grids_freq > 0) && (step % grids_freq) == 0)                                                        *)
Definition meta_step_uses (s : metastate) (step_rel : Z) : list use :=
  bias_step_uses (sm_base s) step_rel
  ++ (if sm_history s then [mkUse "update_bias: step % new_hill_freq" (nz (sm_newhill s))] else [])
  ++ (if sm_usegrids s && (0 <? sm_gridsfreq s) then [mkUse "update_grid_data: step % grids_freq" (nz (sm_gridsfreq s))] else []).

(* the code before the repairs evaluated both moduli unconditionally *)
Definition meta_step_uses_old (s : metastate) : list use :=
  [mkUse "update_bias: step % new_hill_freq" (nz (sm_newhill s))]
  ++ (if sm_usegrids s then [mkUse "update_grid_data: step % grids_freq" (nz (sm_gridsfreq s))] else []).

(* ------------------------------------------------------------------------------------------------ *)
(* ABF: fullSamples/minSamples, historyFreq vs outputFreq                                           *)
(* ------------------------------------------------------------------------------------------------ *)

Record abfconf := mkAbfConf { a_base : biasconf; a_full : option tok; a_min : option tok; a_hist : option tok;
                              a_u_min : Z }.
Record abfstate := mkAbf { sa_base : biasstate; sa_full : Z; sa_min : Z; sa_hist : Z }.   (* size_t *)

Definition abf_init (restart_out_freq : Z) (c : abfconf) : initres abfstate :=
  let b := bias_init restart_out_freq (a_base c) in
  if r_err b then mkRes (mkAbf (r_state b) 0 0 0) true (r_uses b)        (* colvarbias::init failed: return *)
  else
    let ofr := s_outfreq (r_state b) in
    let '(fs, e1) := getZ (parse_int TSize (a_full c)) 200 200 in
    let '(ms, e2) := getZ (parse_int TSize (a_min c)) (a_u_min c) (fs / 2) in
    let '(fs', ms') := if fs <=? 1 then (1, 0) else (fs, ms) in
    if fs' <=? ms' then mkRes (mkAbf (r_state b) fs' ms' 0) true (r_uses b)    (* minSamples >= fullSamples: return *)
    else
      let '(hf, e3) := getZ (parse_int TSize (a_hist c)) 0 0 in
      let '(e4, u4) :=
        if hf =? 0 then (false, [])
        else if ofr =? 0 then (true, [])
        else (negb (hf mod ofr =? 0), [mkUse "abf init: history_freq % output_freq" (nz ofr)]) in
      mkRes (mkAbf (r_state b) fs' ms' hf) (e1 || e2 || e3 || e4) (r_uses b ++ u4).

(* write_gradients_samples history file: (history_freq > 0) && (step % history_freq == 0) *)
Definition abf_step_uses (s : abfstate) (step_rel : Z) : list use :=
  bias_step_uses (sa_base s) step_rel
  ++ (if 0 <? sa_hist s then [mkUse "abf output: step % history_freq" (nz (sa_hist s))] else []).

(* ------------------------------------------------------------------------------------------------ *)
(* moving restraints: targetNumSteps, targetNumStages                                                *)
(* ------------------------------------------------------------------------------------------------ *)

Record movconf := mkMovConf { v_base : biasconf; v_moving : bool; v_nsteps : option tok; v_nstages : option tok }.
Record movstate := mkMov { sv_base : biasstate; sv_moving : bool; sv_nsteps : Z (* long long *); sv_nstages : Z (* int *) }.

Definition moving_init (restart_out_freq : Z) (c : movconf) : initres movstate :=
  let b := bias_init restart_out_freq (v_base c) in
  if r_err b then mkRes (mkMov (r_state b) false 0 0) true (r_uses b)
  else if v_moving c then
    let '(ns, e1) := getZ (parse_int TStep (v_nsteps c)) 0 0 in
    if ns =? 0 then mkRes (mkMov (r_state b) true ns 0) true (r_uses b)      (* targetNumSteps must be non-zero: return *)
    else
      let '(ng, e2) := getZ (parse_int TInt (v_nstages c)) 0 0 in
      mkRes (mkMov (r_state b) true ns ng) (e1 || e2) (r_uses b)
  else mkRes (mkMov (r_state b) false 0 0) false (r_uses b).

Definition moving_step_uses (s : movstate) (step_rel : Z) : list use :=
  bias_step_uses (sv_base s) step_rel
  ++ (if sv_moving s && negb (sv_nstages s =? 0)
      then [mkUse "restraint update: (step - first_step) % target_nsteps" (nz (sv_nsteps s))] else []).

(* ------------------------------------------------------------------------------------------------ *)
(* coordNum / selfCoordNum: pairListFrequency                                                        *)
(* ------------------------------------------------------------------------------------------------ *)

Record pairconf := mkPairConf { p_tolerance_pos : bool; p_freq : option tok }.
Record pairstate := mkPair { sp_pairlist : bool; sp_freq : Z (* int *) }.

Definition coordnum_init (c : pairconf) : initres pairstate :=
  if p_tolerance_pos c then
    let '(f, e1) := getZ (parse_int TInt (p_freq c)) 100 100 in
    if f <=? 0 then mkRes (mkPair false f) true []         (* non-positive pairlistfrequency: error, no pair list *)
    else mkRes (mkPair true f) e1 []
  else mkRes (mkPair false 100) false [].

Definition coordnum_step_uses (s : pairstate) : list use :=
  if sp_pairlist s then [mkUse "compute_coordnum: step_relative % pairlist_freq" (nz (sp_freq s))] else [].

(* ------------------------------------------------------------------------------------------------ *)
(* OPES: newHillFrequency (m_pace), adaptiveSigmaStride, pmfHistoryFrequency, printTrajectoryFrequency,
   and the module's restart frequency used in save_state()                                           *)
(* ------------------------------------------------------------------------------------------------ *)

Record opesconf := mkOpesConf { o_base : biasconf; o_pace : option tok; o_adaptive : bool; o_adstride : option tok;
                                o_pmf : bool; o_pmfhist : option tok; o_trajfreq : option tok;
                                o_u_adstride : Z }.
Record opesstate := mkOpes { so_base : biasstate; so_pace : Z; so_adaptive : bool; so_adstride : Z;
                             so_pmf : bool; so_pmfhist : Z; so_trajfreq : Z }.       (* all long long *)

(* after the repairs: newHillFrequency must be positive (error + return right after it is read) *)
Definition opes_init (restart_out_freq cv_traj_freq : Z) (c : opesconf) : initres opesstate :=
  let b := bias_init restart_out_freq (o_base c) in
  let '(pace, e1) := getZ (parse_int TStep (o_pace c)) 0 0 in
  if pace <=? 0 then mkRes (mkOpes (r_state b) pace false 0 false 0 0) true (r_uses b)
  else
    let '(ads, e2, ret, u2) :=
      if o_adaptive c then
        let '(s0, es) := getZ (parse_int TStep (o_adstride c)) (o_u_adstride c) 0 in
        let s1 := if s0 =? 0 then pace * 10 else s0 in
        if s1 <? pace then (s1, true, true, [])                 (* adaptiveSigmaStride < newHillFrequency: return *)
        else (s1, es, false, [mkUse "showInfo: adaptive_sigma_stride / m_pace" (nz pace)])
      else (0, false, false, []) in
    if ret then mkRes (mkOpes (r_state b) pace (o_adaptive c) ads false 0 0) true (r_uses b)
    else
      let '(ph, e3) := if o_pmf c then getZ (parse_int TStep (o_pmfhist c)) 0 0 else (0, false) in
      let '(tf, e4) := getZ (parse_int TStep (o_trajfreq c)) 0 cv_traj_freq in
      mkRes (mkOpes (r_state b) pace (o_adaptive c) ads (o_pmf c) ph tf) (r_err b || e1 || e2 || e3 || e4) (r_uses b ++ u2).

(* update_opes, save_state (repaired: restart_out_freq > 0 && ...), computePMF history, writeTrajBuffer *)
Definition opes_step_uses (s : opesstate) (restart_out_freq : Z) (step_rel : Z) : list use :=
  bias_step_uses (so_base s) step_rel
  ++ [mkUse "update_opes: step % m_pace" (nz (so_pace s))]
  ++ (if 0 <? restart_out_freq then [mkUse "save_state: step % restart_out_freq" (nz restart_out_freq)] else [])
  ++ (if so_pmf s && (0 <? so_pmfhist s) then [mkUse "update: step % m_pmf_hist_freq" (nz (so_pmfhist s))] else [])
  ++ (if 0 <? so_trajfreq s then [mkUse "writeTrajBuffer: step % m_traj_output_frequency" (nz (so_trajfreq s))] else []).

(* ------------------------------------------------------------------------------------------------ *)
(* Grids: colvar_grid::init_from_colvars / init_from_boundaries / setup                              *)
(* ------------------------------------------------------------------------------------------------ *)

Definition Qltb (a b : Q) : bool := negb (Qle_bool b a).

(* (int) d for a double d: truncation toward zero; out of range (and inf, nan) -> INT_MIN *)
Definition trunc_Q (q : Q) : Z := Z.quot (Qnum q) (Zpos (Qden q)).
Definition cast_int (q : Q) : Z :=
  let t := trunc_Q q in if (int_min <=? t) && (t <? two31) then t else int_min.

Record dim := mkDim { d_lower : Q; d_upper : Q; d_width : Q }.

(* init_from_boundaries: nbins = (upper - lower) / width; nbins_round = (int)(nbins + 0.5);
   a zero width gives inf or nan, hence INT_MIN *)
Definition nbins_round (d : dim) : Z :=
  if Qeq_bool (d_width d) 0 then int_min
  else cast_int ((d_upper d - d_lower d) / d_width d + (1 # 2)).

(* setup(): for i = nd-1 .. 0: nx[i] <= 0 -> error; nxc[i] = nt; nt *= nx[i].
   Repaired: the product must stay <= INT_MAX (the strides nxc are ints), tested before multiplying.
   [nx_rev] is nx in reverse order; returns (nt, nxc in natural order). *)
Fixpoint setup_loop (nx_rev : list Z) (nt : Z) (nxc : list Z) : option (Z * list Z) :=
  match nx_rev with
  | [] => Some (nt, nxc)
  | n :: r =>
      if n <=? 0 then None
      else if int_max / n <? nt then None
      else setup_loop r (nt * n) (nt :: nxc)
  end.

(* the loop before the repair: strides truncated to int, product modulo 2^64 *)
Definition to_int32 (v : Z) : Z := let m := v mod (2 * two31) in if m <? two31 then m else m - 2 * two31.
Fixpoint setup_loop_old (nx_rev : list Z) (nt : Z) (nxc : list Z) : option (Z * list Z) :=
  match nx_rev with
  | [] => Some (nt, nxc)
  | n :: r => if n <=? 0 then None else setup_loop_old r ((nt * n) mod two64) (to_int32 nt :: nxc)
  end.

Inductive verdict := Accept | Reject.

(* init_from_colvars for variables with the given widths/boundaries (scalar variables):
   width <= 0 -> input error; sizes from the boundaries; setup; data.assign(nt) inside try/catch (repaired):
   a refused allocation is a COLVARS_MEMORY_ERROR *)
Definition grid_sizes (dims : list dim) : list Z := map nbins_round dims.

Definition grid_init (host_bytes : Z) (check_width : bool) (dims : list dim) (mult elt : Z) : verdict * Z * list Z :=
  if check_width && existsb (fun d => Qle_bool (d_width d) 0) dims then (Reject, 0, [])
  else match setup_loop (rev (grid_sizes dims)) mult [] with
       | None => (Reject, 0, [])
       | Some (nt, nxc) => if nt * elt <=? host_bytes then (Accept, nt, nxc) else (Reject, nt, nxc)
       end.

(* row-major strides and total as mathematical integers *)
Fixpoint prodZ (l : list Z) : Z := match l with [] => 1 | a :: r => a * prodZ r end.
Fixpoint strides (mult : Z) (nx : list Z) : list Z :=
  match nx with [] => [] | _ :: r => (mult * prodZ r) :: strides mult r end.

(* ------------------------------------------------------------------------------------------------ *)
(* histogramRestraint: p.resize((int)((upper - lower) / width))                                      *)
(* ------------------------------------------------------------------------------------------------ *)

Record hrconf := mkHrConf { h_lower : option tok; h_upper : option tok; h_width : option tok }.

(* repaired: the checks return before any size is computed; the bin count must be below INT_MAX (tested on the
   double, before the cast) and at least 1; the three vectors are resized inside try/catch *)
Definition histrestr_init (host_bytes : Z) (c : hrconf) : initres Z :=
  let '(lo, e1) := getQ (parse_real (h_lower c)) 0 0 in
  let '(up, e2) := getQ (parse_real (h_upper c)) 0 0 in
  let '(w, e3) := getQ (parse_real (h_width c)) 0 0 in
  if Qle_bool w 0 || Qle_bool up lo then mkRes 0 true []       (* both flagged, then return *)
  else if Qle_bool (int_max # 1) ((up - lo) / w) then mkRes 0 true []
  else
    let n := cast_int ((up - lo) / w) in
    if n <? 1 then mkRes n true []
    else mkRes n (e1 || e2 || e3 || negb (n * 8 * 3 <=? host_bytes))
               [mkUse "histogramRestraint init: p.resize(nbins)" (0 <? n)].

(* before the repair: width <= 0 and lower >= upper only flagged the error and the resize went ahead with
   (size_t)(int) nbins *)
Definition histrestr_resize_arg_old (lo up w : Q) : Z :=
  let n := if Qeq_bool w 0 then int_min else cast_int ((up - lo) / w) in
  if n <? 0 then two64 + n else n.

(* ------------------------------------------------------------------------------------------------ *)
(* Roll-back: colvarmodule::parse_colvars, parse_biases_type/check_new_bias, catch_input_errors      *)
(* ------------------------------------------------------------------------------------------------ *)

(* an object block of the configuration, abstractly: its name, its type keyword, and whether its init()
   (+ check_keywords) flags an error *)
Record block := mkBlock { k_name : string; k_type : string; k_fails : bool }.

Record lists := mkLists { l_colvars : list string; l_biases : list (string * string); l_err : bool }.

(* parse_colvars: push_back(new colvar); init; on failure delete (the destructor removes it from the array)
   and return COLVARS_ERROR; a duplicate name is an init error *)
Fixpoint parse_colvars (bs : list block) (st : lists) : lists :=
  match bs with
  | [] => st
  | b :: r =>
      let pushed := l_colvars st ++ [k_name b] in
      if k_fails b || existsb (String.eqb (k_name b)) (l_colvars st)
      then mkLists (removelast pushed) (l_biases st) true               (* delete colvars.back(); return *)
      else parse_colvars r (mkLists pushed (l_biases st) (l_err st))
  end.

(* parse_biases_type<T>(conf, keyword): the blocks of one type in order; check_new_bias deletes the new bias
   when cvm::get_error() is set (by this bias or by anything earlier in this parse) and the loop returns *)
Fixpoint parse_biases_type (bs : list block) (st : lists) : lists :=
  match bs with
  | [] => st
  | b :: r =>
      let pushed := l_biases st ++ [(k_name b, k_type b)] in
      if l_err st || k_fails b || existsb (fun nb => String.eqb (k_name b) (fst nb)) (l_biases st)
      then mkLists (l_colvars st) (removelast pushed) true
      else parse_biases_type r (mkLists (l_colvars st) pushed false)
  end.

(* parse_biases: one call per bias type, in the fixed order of the code; the return value of each call is ignored *)
Fixpoint parse_biases (by_type : list (list block)) (st : lists) : lists :=
  match by_type with
  | [] => st
  | bs :: r => parse_biases r (parse_biases_type bs st)
  end.

(* parse_config: colvars, then (only if no error) biases; catch_input_errors adds COLVARS_INPUT_ERROR *)
Definition parse_config (cvs : list block) (biases_by_type : list (list block)) (st : lists) : lists :=
  let st0 := mkLists (l_colvars st) (l_biases st) false in        (* errors are cleared by the caller between configurations *)
  let st1 := parse_colvars cvs st0 in
  if l_err st1 then st1 else parse_biases biases_by_type st1.

(* ------------------------------------------------------------------------------------------------ *)
(* validate: one verdict for a configuration fragment of each modelled kind                          *)
(* ------------------------------------------------------------------------------------------------ *)

Definition verdict_of {S} (r : initres S) : verdict := if r_err r then Reject else Accept.
