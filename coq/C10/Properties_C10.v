(* C10: invalid parameter values are reported as errors and are never fatal   (PARTIAL).
   Statements only.  What is proved is about the validation LOGIC mirrored in GuardModel.v (text -> typed value,
   init-time checks in code order, guarded uses with their preconditions, grid size arithmetic with the C wraps,
   roll-back of rejected objects).  Memory safety, signals, exceptions and hangs of the real binary are observed by
   the check (plain and ASan/UBSan sweeps), not proved. *)
From Coq Require Import ZArith List Bool QArith String.
From CV Require Import C10.GuardModel C10.GuardProofs Gen.GenGuards.
Import ListNotations.
Local Open Scope string_scope.
Local Open Scope Z_scope.
Local Open Scope list_scope.

(* Every value that the parser delivers for an integer keyword lies in the range of its C type, whatever the text
   (a '-' in the value of a size_t keyword is a parse error, values that do not fit are parse errors). *)
Theorem C10_parsed_value_in_range : forall ty t v, parse_int ty t = ZVal v -> in_range ty v = true.
Proof. exact parse_int_in_range. Qed.
Print Assumptions C10_parsed_value_in_range.

(* FULL STATEMENT for the guard table: for ALL texts of ALL modelled keywords (and all indeterminate previous
   contents of uninitialised members, all engine-supplied frequencies), (a) no guarded use reached DURING
   initialisation has a false precondition, whether or not the object ends up rejected, and (b) if the object is
   accepted, every guarded use of the update path has a true precondition at every step. *)
Theorem C10_accept_implies_safe_use :
  (forall eng c tn lp sa sr,
     all_ok (r_uses (module_init eng c)) = true /\
     all_ok (module_step_uses (r_state (module_init eng c)) tn lp sa sr) = true) /\
  (forall rof c,
     all_ok (r_uses (colvar_init rof c)) = true /\
     (r_err (colvar_init rof c) = false -> forall sa sr, all_ok (colvar_step_uses (r_state (colvar_init rof c)) sa sr) = true)) /\
  (forall rof c,
     all_ok (r_uses (bias_init rof c)) = true /\ forall sr, all_ok (bias_step_uses (r_state (bias_init rof c)) sr) = true) /\
  (forall rof c,
     all_ok (r_uses (meta_init rof c)) = true /\
     (r_err (meta_init rof c) = false -> forall sr, all_ok (meta_step_uses (r_state (meta_init rof c)) sr) = true)) /\
  (forall rof c,
     all_ok (r_uses (abf_init rof c)) = true /\ forall sr, all_ok (abf_step_uses (r_state (abf_init rof c)) sr) = true) /\
  (forall rof c,
     all_ok (r_uses (moving_init rof c)) = true /\
     (r_err (moving_init rof c) = false -> forall sr, all_ok (moving_step_uses (r_state (moving_init rof c)) sr) = true)) /\
  (forall c,
     all_ok (r_uses (coordnum_init c)) = true /\ forall sr : Z, all_ok (coordnum_step_uses (r_state (coordnum_init c))) = true) /\
  (forall rof tf c,
     all_ok (r_uses (opes_init rof tf c)) = true /\
     (r_err (opes_init rof tf c) = false ->
      forall rof' sr, all_ok (opes_step_uses (r_state (opes_init rof tf c)) rof' sr) = true)) /\
  (forall host c,
     all_ok (r_uses (histrestr_init host c)) = true /\
     (r_err (histrestr_init host c) = false ->
      1 <= r_state (histrestr_init host c) <= int_max /\ r_state (histrestr_init host c) * 24 <= host)) /\
  (* correlation function (calc_acf): the iterator skip and the writes through acf.begin() *)
  (forall rof c, r_err (colvar_init rof c) = false ->
     forall h, all_ok (corrfunc_uses (r_state (colvar_init rof c)) h) = true) /\
  (* vector scripted function: size in [1, INT_MAX] and within what the host grants *)
  (forall host t,
     all_ok (r_uses (scripted_init host t)) = true /\
     (r_err (scripted_init host t) = false ->
      1 <= r_state (scripted_init host t) <= int_max /\ r_state (scripted_init host t) * 8 <= host)).
Proof.
  exact (conj module_safe (conj colvar_safe (conj bias_safe (conj meta_safe (conj abf_safe (conj moving_safe
        (conj coordnum_safe (conj opes_safe (conj histrestr_safe (conj corrfunc_safe scripted_safe)))))))))).
Qed.
Print Assumptions C10_accept_implies_safe_use.

(* corrFuncLength / corrFuncStride / corrFuncOffset (repaired; the statement was refuted before, see
   C10_before_repair_refuted): an accepted correlation function has 0 <= length, offset < INT_MAX and a history
   capacity stride * (length + offset + 1) <= INT_MAX, so no size or sum computed from them wraps. *)
Theorem C10_corrfunc_sizes_bounded : forall rof c,
  r_err (colvar_init rof c) = false -> s_corr (r_state (colvar_init rof c)) = true ->
  let st := r_state (colvar_init rof c) in
  0 <= s_cflen st < int_max /\ 0 <= s_cfoff st < int_max /\
  s_cfstride st * (s_cflen st + s_cfoff st + 1) <= int_max.
Proof. exact corrfunc_capacity. Qed.
Print Assumptions C10_corrfunc_sizes_bounded.

(* COMPLETENESS of the guard table with respect to the current source tree: every (file, keyword) whose get_keyval
   destination the scanner finds used as a divisor, modulus, size, loop bound, index or integer cast
   (coq/Gen/GenGuards.v, REGENERATED on every run) is either covered by a definition of GuardModel.v or listed as
   exempt with a reason.  A new such keyword in the C++ makes this theorem fail. *)
Theorem C10_guard_table_covers_source : forallb guard_known gen_guards = true.
Proof. vm_compute. reflexivity. Qed.
Print Assumptions C10_guard_table_covers_source.

(* Grid sizes: whenever init_from_colvars/init_from_boundaries/setup accept (repaired code), every size is a positive
   int, the number of elements is the mathematical product (no wrap, <= INT_MAX, so it fits the int strides and
   size_t), the strides are the row-major ones and fit an int, the allocation fits what the host grants, and (for
   grids built from the variables' own widths) every width is positive.  For ALL boundaries, widths, dimensions. *)
Theorem C10_grid_size_bounded : forall host cw dims mult elt nt nxc,
  1 <= mult <= int_max ->
  grid_init host cw dims mult elt = (Accept, nt, nxc) ->
  Forall (fun n => 1 <= n <= int_max) (grid_sizes dims) /\
  nt = mult * prodZ (grid_sizes dims) /\ 1 <= nt <= int_max /\
  nxc = strides mult (grid_sizes dims) /\ Forall (fun s => 1 <= s <= int_max) nxc /\
  nt * elt <= host /\
  (cw = true -> forallb (fun d => Qltb 0 (d_width d)) dims = true).
Proof. exact grid_init_accept. Qed.
Print Assumptions C10_grid_size_bounded.

(* Roll-back over abstract object lists (parse_colvars / parse_biases_type + check_new_bias / parse_config):
   (1) a configuration whose first variable block is rejected leaves both lists exactly as before;
   (2) likewise when its first bias block is rejected (no bias of any later type survives either);
   (3) in every case the old lists are prefixes of the new ones (nothing defined earlier is removed or reordered);
   (4) parse_colvars adds exactly the names of the longest prefix of blocks that do not fail, never touches the
       biases, and flags an error iff a block failed;  (5) every added variable comes from a block that did not fail. *)
Theorem C10_rollback_identity :
  (forall b r bt st, k_fails b = true ->
     l_colvars (parse_config (b :: r) bt st) = l_colvars st /\ l_biases (parse_config (b :: r) bt st) = l_biases st /\
     l_err (parse_config (b :: r) bt st) = true) /\
  (forall b r rest st, k_fails b = true ->
     l_colvars (parse_config [] ((b :: r) :: rest) st) = l_colvars st /\
     l_biases (parse_config [] ((b :: r) :: rest) st) = l_biases st /\
     l_err (parse_config [] ((b :: r) :: rest) st) = true) /\
  (forall cvs bt st, exists a1 a2,
     l_colvars (parse_config cvs bt st) = l_colvars st ++ a1 /\ l_biases (parse_config cvs bt st) = l_biases st ++ a2) /\
  (forall bs st,
     l_colvars (parse_colvars bs st) = l_colvars st ++ accepted_cvs bs (l_colvars st) /\
     l_biases (parse_colvars bs st) = l_biases st /\
     l_err (parse_colvars bs st) = l_err st || cvs_error bs (l_colvars st)) /\
  (forall bs have n, In n (accepted_cvs bs have) -> exists b, In b bs /\ k_name b = n /\ k_fails b = false).
Proof.
  exact (conj rollback_first_colvar (conj rollback_first_bias (conj parse_config_prefix (conj parse_colvars_spec accepted_cvs_ok)))).
Qed.
Print Assumptions C10_rollback_identity.

(* Vector-valued (per-variable) keywords: centers, targetCenters, maxForce, gaussianSigmas, gaussianSigma, walls, grid
   widths/boundaries ...  An accepted list has exactly one token per variable, every token is a valid value (validated as
   the scalar keywords are), the stored values are those values in order, and each satisfies the element check; a
   keyword given without a value is always rejected, an absent one too when the destination is not pre-sized. *)
Theorem C10_vector_keyword_validated :
  (forall n presized elem_ok ts v, vector_keyword n presized elem_ok (Some ts) = (v, false) ->
     List.length ts = n /\ List.length v = n /\ map tok_value ts = map Some v /\ forallb elem_ok v = true) /\
  (forall n elem_ok, (0 < n)%nat ->
     snd (vector_keyword n false elem_ok None) = true /\ forall p, snd (vector_keyword n p elem_ok (Some [])) = true).
Proof. exact (conj vector_keyword_accept vector_keyword_missing). Qed.
Print Assumptions C10_vector_keyword_validated.

Example C10_example_vector :
  vector_keyword 2 true (fun _ => true) (Some [TokInt 1; TokFrac 2 5 2]) = ([1 # 1; 5 # 2], false) /\
  snd (vector_keyword 2 true (fun _ => true) (Some [TokInt 1])) = true /\
  snd (vector_keyword 2 false (fun _ => true) (Some [TokInt 1; TokInt 2; TokInt 3])) = true /\
  snd (vector_keyword 2 true (fun _ => true) (Some [TokInt 1; TokWord])) = true /\
  snd (vector_keyword 2 false (fun q => Qle_bool 0 q) (Some [TokInt 1; TokInt (-1)])) = true.
Proof. vm_compute. repeat split. Qed.

(* Roll-back of objects whose initialisation raised an error through a BARE cvm::error() (return value dropped, init
   goes on and may return COLVARS_OK): because the error state is consulted at the end of the initialisation
   (parse_analysis returns cvm::get_error(); check_new_bias tests it), (1) every variable that parse_colvars keeps comes
   from a block that raised no error at all, returned or bare; (2) a configuration whose first block raised one leaves
   both lists unchanged; (3) WITHOUT that consultation (the seeded change C10_1: parse_analysis returning its own error
   code) a block with a bare error stays in the list. *)
Theorem C10_rollback_bare_errors :
  (forall bs st n, In n (accepted_cvs (map (to_block true) bs) (l_colvars st)) ->
     exists b, In b bs /\ ib_name b = n /\ raises b = false) /\
  (forall b r bt st, raises b = true ->
     l_colvars (parse_config (map (to_block true) (b :: r)) bt st) = l_colvars st /\
     l_biases (parse_config (map (to_block true) (b :: r)) bt st) = l_biases st) /\
  (exists b st, raises b = true /\
     l_colvars (parse_colvars (map (to_block false) [b]) st) = l_colvars st ++ [ib_name b]).
Proof. exact (conj rollback_bare_errors (conj rollback_bare_first rollback_noconsult_refuted)). Qed.
Print Assumptions C10_rollback_bare_errors.

(* The validation DECISION of each object kind, keyword by keyword (GuardModel.v, round 4: colvarx_validate,
   walls_validate, opesx_validate, metax_validate, abfshared_validate, alb_validate, kmoving_validate; the C++
   accept/reject and error class of generated configurations is compared exactly with them on every run).
   For ALL value texts: an ACCEPTED configuration satisfies the invariants that the later code relies on:
   variable: width > 0, timeStepFactor >= 0, ordered boundaries, and for an extended Lagrangian positive temperature,
   fluctuation (divisor of the force constant and of the mass) and time constant, non-negative damping;
   harmonicWalls: at least one list of walls, one wall per variable in every list given, lower < upper (and apart) and
   non-zero constants when both are given;  OPES: barrier >= 0, biasfactor > 1 or infinite, epsilon > 0, cutoff > 0,
   compression threshold 0 or within [0, cutoff];  metadynamics: positive hill weight, one width per variable, every width positive;
   shared ABF: outputFreq a multiple of sharedFreq (or sharedFreq 0);  ALB: halved update frequency >= 2, one center per
   variable;  changing force constant: k >= 0, targetNumSteps non-zero, lambdaExponent >= 0. *)
Theorem C10_accepted_configuration_invariants :
  (forall temp e, x_err (fst (colvarx_validate temp e)) = false -> colvarx_inv (snd (colvarx_validate temp e)) = true) /\
  (forall ws n e, (0 < n)%nat -> x_err (fst (walls_validate ws n e)) = false ->
     let s := snd (walls_validate ws n e) in
     (wx_lower s <> [] \/ wx_upper s <> []) /\
     (wx_lower s <> [] -> List.length (wx_lower s) = n) /\ (wx_upper s <> [] -> List.length (wx_upper s) = n) /\
     (wx_lower s <> [] -> wx_upper s <> [] ->
        pairwise_lt (wx_lower s) (wx_upper s) = true /\ pairwise_apart ws (wx_lower s) (wx_upper s) = true /\
        Qeq_bool (wx_lk s * wx_uk s) Q0 = false)) /\
  (forall kbt bfinf explore e,
     x_err (fst (opesx_validate kbt bfinf explore e)) = false -> opesx_inv (snd (opesx_validate kbt bfinf explore e)) = true) /\
  (forall n e, x_err (fst (metax_validate n e)) = false ->
     negb (Qle_bool (mx_weight (snd (metax_validate n e))) Q0) = true /\ mx_sigmas (snd (metax_validate n e)) = n /\
     forallb (Qltb Q0) (mx_widths (snd (metax_validate n e))) = true) /\
  (forall rof e, x_err (fst (abfshared_validate rof e)) = false -> eflag e "shared" false = true ->
     let '(ofr, sf) := snd (abfshared_validate rof e) in (sf =? 0) || (ofr mod sf =? 0) = true) /\
  (forall n e, x_err (fst (alb_validate n e)) = false ->
     2 <= fst (snd (alb_validate n e)) /\ snd (snd (alb_validate n e)) = n) /\
  (forall rof e, x_err (fst (kmoving_validate rof e)) = false ->
     let s := snd (kmoving_validate rof e) in
     Qle_bool Q0 (kx_k s) = true /\ (kx_changing s = true -> kx_nsteps s <> 0) /\ Qle_bool Q0 (kx_exp s) = true).
Proof.
  exact (conj colvarx_accept (conj walls_accept (conj opesx_accept (conj metax_accept (conj abfshared_accept
        (conj alb_accept kmoving_accept)))))).
Qed.
Print Assumptions C10_accepted_configuration_invariants.

Example C10_example_validate :
  x_err (fst (colvarx_validate (300 # 1) (mkEnv [("width", TokFrac 0 1 2); ("extendedFluctuation", TokFrac 0 1 4)] [] [("extendedLagrangian", true)]))) = false /\
  x_err (fst (colvarx_validate (300 # 1) (mkEnv [("width", TokInt 0)] [] []))) = true /\
  x_err (fst (walls_validate [] 2 (mkEnv [] [("lowerWalls", [TokInt 0; TokInt 0]); ("upperWalls", [TokInt 3; TokInt 3])] []))) = false /\
  x_err (fst (walls_validate [] 2 (mkEnv [] [("lowerWalls", [TokInt 3; TokInt 0]); ("upperWalls", [TokInt 3; TokInt 3])] []))) = true /\
  (* walls 2e-9 apart: distinct for a variable of width 1e-8, coincident for one of width 1 (and for every variable before the repair of the threshold) *)
  x_err (fst (walls_validate [1 # 100000000] 1 (mkEnv [] [("lowerWalls", [TokInt 0]); ("upperWalls", [TokSci 2 (-9)])] []))) = false /\
  x_err (fst (walls_validate [1 # 1] 1 (mkEnv [] [("lowerWalls", [TokInt 0]); ("upperWalls", [TokSci 2 (-9)])] []))) = true /\
  (* walls 0.5 apart coincide for a variable of width 1e6 *)
  x_err (fst (walls_validate [1000000 # 1] 1 (mkEnv [] [("lowerWalls", [TokInt 0]); ("upperWalls", [TokFrac 0 5 10])] []))) = true /\
  x_err (fst (alb_validate 2 (mkEnv [("UpdateFrequency", TokInt 3)] [("centers", [TokInt 1; TokInt 1])] []))) = true.
Proof. vm_compute. repeat split. Qed.

(* Round 5.  OPES kernel widths and neighbour-list parameters, rmsd reference positions, the ebMeta target
   distribution: an accepted configuration has positive kernel widths (without adaptiveSigma), neighbour-list parameters
   in their admissible region, as many reference positions as atoms (>= 1), and a target distribution all of whose values
   are positive once processed (the hills are scaled by its inverse), no expandBoundaries and a readable file. *)
Theorem C10_accepted_configuration_invariants_2 :
  (forall n e, x_err (fst (opes_sigma_nlist_validate n e)) = false ->
     let '(sg, np) := snd (opes_sigma_nlist_validate n e) in
     (eflag e "adaptiveSigma" false = false -> forallb (fun q => Qltb Q0 q) sg = true) /\
     (forall p0 p1, np = [p0; p1] -> Qle_bool p0 (1 # 1) = false /\ Qle_bool p1 Q0 = false /\ Qle_bool (116 # 100) p1 = false /\
                                     Qltb (((116 # 100) - p1) * ((116 # 100) - p1) * p0) (1 # 1) = false)) /\
  (forall g inline file, x_err (fst (rmsd_validate g inline file)) = false ->
     snd (rmsd_validate g inline file) = g /\ (1 <= g)%nat) /\
  (forall expand file e, x_err (fst (ebmeta_validate expand file e)) = false ->
     forallb (fun q => Qltb Q0 q) (snd (ebmeta_validate expand file e)) = true /\ expand = false /\ file <> None).
Proof. exact (conj opes_sigma_nlist_accept (conj rmsd_accept ebmeta_accept)). Qed.
Print Assumptions C10_accepted_configuration_invariants_2.

(* "never allocates unboundedly from an unchecked size": every size that the model computes from user input (grid points
   from boundaries and widths, histogramRestraint bins, scripted vector size, capacity of the correlation histories) goes
   through a guard, and whatever the input an ACCEPTED size is at most 3 * INT_MAX elements. *)
Theorem C10_allocation_sizes_bounded : forall host dims mult hr scripted rof c,
  1 <= mult <= int_max ->
  Forall (fun a => as_accepted a = true -> as_elements a <= 3 * int_max) (alloc_sites host dims mult hr scripted rof c).
Proof. exact alloc_sites_bounded. Qed.
Print Assumptions C10_allocation_sizes_bounded.

(* Module-level residue of a rejected configuration: the queue of auto-generated configuration (extra_conf: the
   harmonicWalls blocks that the legacy lowerWall/upperWall keywords of a variable append, also when that variable is then
   rejected).  With the clear() at the start of parse_config: (1) the outcome of a configuration does not depend on
   what an earlier one left queued (nor on its error flag); (2) a configuration whose first variable is rejected leaves
   the visible state unchanged and (3) the NEXT configuration then gives exactly the state it gives in a session that
   never saw the rejected one; (4) after any configuration the next one sees only the object lists.  (5) Without the
   clear() (seeded change C10_3) a valid configuration gains the bias queued by an earlier, rejected variable. *)
Theorem C10_rejected_config_leaves_no_residue :
  (forall cvs bt st p e,
     parse_config_ext true cvs bt (mkMState (mkLists (l_colvars (ms_lists st)) (l_biases (ms_lists st)) e) p)
     = parse_config_ext true cvs bt st) /\
  (forall b r bt st, k_fails (cb_block b) = true ->
     visible (parse_config_ext true (b :: r) bt st) = visible st /\
     l_err (ms_lists (parse_config_ext true (b :: r) bt st)) = true) /\
  (forall b r bt st cvs2 bt2, k_fails (cb_block b) = true ->
     parse_config_ext true cvs2 bt2 (parse_config_ext true (b :: r) bt st) = parse_config_ext true cvs2 bt2 st) /\
  (forall cvs bt st cvs2 bt2,
     parse_config_ext true cvs2 bt2 (parse_config_ext true cvs bt st)
     = parse_config_ext true cvs2 bt2 (mkMState (ms_lists (parse_config_ext true cvs bt st)) [])) /\
  (exists b st v,
     k_fails (cb_block b) = true /\
     visible (parse_config_ext false [v] [] (parse_config_ext false [b] [] st)) <> visible (parse_config_ext false [v] [] st) /\
     visible (parse_config_ext true [v] [] (parse_config_ext true [b] [] st)) = visible (parse_config_ext true [v] [] st)).
Proof.
  exact (conj pending_irrelevant (conj rejected_first_visible (conj rejected_then_next (conj after_any_config pending_noclear_refuted)))).
Qed.
Print Assumptions C10_rejected_config_leaves_no_residue.

(* Index files (cvm::read_index_file, after the repairs): for EVERY file content and every registry without NULL
   pointers, the file is read without dereferencing a NULL pointer, the registry still has none afterwards, every
   group that was defined keeps its atoms, and a rejected file leaves the registry exactly as it was.  The last
   clause fails for the code before the repair (the truncated group stayed and the corrected file was then refused
   as a redefinition), and the no-NULL clauses fail for seeded change C10_4: see C10_module_state_refuted. *)
Theorem C10_rejected_index_file_leaves_registry :
  forall (file : list itok) (r : registry), reg_wf r ->
    let '(r', rejected, crashed) := read_index_file IvRollback file r in
    crashed = false /\ reg_wf r' /\
    (forall n l, reg_lookup n r = Some (Some l) -> reg_lookup n r' = Some (Some l)) /\
    (rejected = true -> r' = r).
Proof.
  exact read_index_file_repaired_spec.
Qed.
Print Assumptions C10_rejected_index_file_leaves_registry.

(* All the module-level state that a configuration can touch before it is rejected: index-group registry, named atom
   groups, per-type bias counters, values of module-level keywords, set of active variables (extra_conf: see
   C10_rejected_config_leaves_no_residue).  For EVERY configuration, accepted or rejected at any point, from every
   well-formed state (no NULL group, no crash so far, every named group owned by a defined variable):
   (1) no NULL pointer is dereferenced and the state stays well-formed; the variables, biases, named groups and index
       groups that existed are still there unchanged; every variable that was active is still active;
   (2) the same for any session of configurations, resets and deletions of biases or variables through the scripting
       interface (two holders of one variable or of one named group, then one deleted);
   (3) a configuration rejected in parse_global_params changes no object, no named group, no counter and no active
       variable; what it leaves behind, legitimately, is the groups of those of its index files that were ACCEPTED
       and the values of those module-level keywords that could be read.
   What else persists by design, and is predicted exactly by the model rather than forbidden: the objects of a rejected
   configuration that were accepted before the failing one (C10_rollback_identity), and the per-type counters
   (bias_count += 1 before init: a rejected block uses up a rank, so the next default name is <type><rank+1>). *)
Theorem C10_rejected_config_module_state :
  (forall c s, modst_wf s -> extends s (parse_config6 IvRollback true c s)) /\
  (forall cfgs s, modst_wf s -> modst_wf (run_session6 IvRollback true cfgs s)) /\
  (forall c s,
     let s0 := mkModst (q_cvs s) (q_biases s) (q_reg s) (q_named s) (q_counters s) (q_traj s) (q_restart s) (q_active s) false (q_crash s) in
     q_err (parse_globals6 IvRollback c s0) = true ->
     let s' := parse_config6 IvRollback true c s in
     q_cvs s' = q_cvs s /\ q_biases s' = q_biases s /\ q_named s' = q_named s /\ q_counters s' = q_counters s /\
     q_active s' = q_active s /\ q_reg s' = q_reg (read_files IvRollback (c6_files c) s0)).
Proof.
  exact (conj parse_config6_extends (conj run_session6_wf rejected_in_globals)).
Qed.
Print Assumptions C10_rejected_config_module_state.

(* The three variants that are not the repaired code: seeded change C10_4 (NULL pointer under the name of the
   truncated group: the next index file or `indexGroup second` dereferences it), the code before the repair of
   read_index_file (the corrected file is refused; accepted after the repair), and the code before the repair of
   parse_biases_type (a rejected bias switches off the variable it named). *)
Theorem C10_module_state_refuted :
  (let r := fst (fst (read_index_file IvNull ndx_broken [])) in
   reg_wf [] /\ snd (fst (read_index_file IvNull ndx_broken [])) = true /\ reg_lookup "second" r = Some None /\
   snd (read_index_file IvNull ndx_other r) = true /\ add_index_group "second" r = GUCrash) /\
  (let r := fst (fst (read_index_file IvKeep ndx_broken [])) in
   snd (fst (read_index_file IvKeep ndx_broken [])) = true /\ reg_lookup "second" r = Some (Some [5; 6]) /\
   snd (fst (read_index_file IvKeep ndx_corrected r)) = true /\
   snd (fst (read_index_file IvRollback ndx_corrected (fst (fst (read_index_file IvRollback ndx_broken []))))) = false) /\
  (q_err (parse_config6 IvRollback false cfg_bad_bias st_zz0) = true /\
   q_active (parse_config6 IvRollback false cfg_bad_bias st_zz0) = [] /\
   q_active (parse_config6 IvRollback true cfg_bad_bias st_zz0) = ["zz0"]).
Proof.
  exact (conj index_file_null_refuted (conj index_file_kept_refuted rejected_bias_switches_off_refuted)).
Qed.
Print Assumptions C10_module_state_refuted.

(* What the code did BEFORE the repairs (fix: commits in /repo), kept as witnesses; the check reports a violation if
   the tree behaves like this again. *)
Theorem C10_before_repair_refuted :
  (* colvarsTrajFrequency 2^61: step % (cv_traj_freq * 1000) with the product computed in size_t is step % 0 *)
  (exists f, in_range TSize f = true /\ f <> 0 /\ traj_label_modulus_old f = 0) /\
  (* metadynamics: newHillFrequency 0, or gridsUpdateFrequency 0, accepted and used as a modulus *)
  (exists c, r_err (meta_init 0 c) = false /\ all_ok (meta_step_uses_old (r_state (meta_init 0 c))) = false /\
             sm_newhill (r_state (meta_init 0 c)) = 0) /\
  (exists c, r_err (meta_init 0 c) = false /\ all_ok (meta_step_uses_old (r_state (meta_init 0 c))) = false /\
             sm_newhill (r_state (meta_init 0 c)) = 2 /\ sm_gridsfreq (r_state (meta_init 0 c)) = 0) /\
  (* grids: a product of sizes that wraps to 0; strides that do not fit an int *)
  (exists nx nt nxc, setup_loop_old (rev nx) 1 [] = Some (nt, nxc) /\ Forall (fun n => 1 <= n <= int_max) nx /\
                     nt = 0 /\ prodZ nx = two64) /\
  (exists nx nt nxc, setup_loop_old (rev nx) 1 [] = Some (nt, nxc) /\ nt = 2147483647 * 2147483647 * 2 /\
                     strides 1 nx = [4294967294; 2; 1] /\ nxc = [-2; 2; 1]) /\
  (* histogramRestraint: p.resize() argument for width 0, width -1, upperBoundary 1e300, 2^31-1 bins *)
  (histrestr_resize_arg_old 0 8 0 = two64 - two31 /\ histrestr_resize_arg_old 0 8 (-1 # 1) = two64 - 8 /\
   histrestr_resize_arg_old 0 ((10 ^ 300) # 1) 1 = two64 - two31 /\
   histrestr_resize_arg_old 0 (2147483647 # 1) 1 = 2147483647) /\
  (* correlation function: corrFuncLength -1 with offset 1 (nothing allocated, write through acf.begin()),
     corrFuncOffset -1 (iterator advanced past the history) *)
  (all_ok (corrfunc_uses (corr_state_old (two64 - 1) 1 1) 0) = false /\
   all_ok (corrfunc_uses (corr_state_old 1000 1 (two64 - 1)) 999) = false) /\
  (* metadynamics walker with newHillFrequency 0: replica_update_freq / new_hill_freq *)
  (exists c, r_err (meta_init 0 c) = false /\ all_ok (meta_replica_div_old (r_state (meta_init 0 c))) = false) /\
  (* multiple-walker OPES with a neighbor list and restart frequency 0: step % shared_freq *)
  (exists c, r_err (opes_init 0 1 c) = false /\ all_ok (opes_shared_use_old (r_state (opes_init 0 1 c))) = false).
Proof.
  exact (conj traj_label_old_refuted (conj (proj1 meta_old_refuted) (conj (proj2 meta_old_refuted)
        (conj (proj1 setup_old_refuted) (conj (proj2 setup_old_refuted) (conj histrestr_old_refuted
        (conj corrfunc_old_refuted (conj meta_replica_old_refuted opes_shared_old_refuted)))))))).
Qed.
Print Assumptions C10_before_repair_refuted.

(* Non-vacuity: accepted configurations exist for every implication above. *)
Example C10_example_accepted :
  r_err (colvar_init 3 (mkCvConf (Some (TokInt 2)) true (Some (TokInt 3)) (Some (TokInt 1)) false None None None 0 0 0 0 0)) = false /\
  r_err (moving_init 3 (mkMovConf (mkBiasConf None None) true (Some (TokInt 4)) (Some (TokInt 2)))) = false /\
  r_err (opes_init 3 1 (mkOpesConf (mkBiasConf None None) (Some (TokInt 2)) true (Some (TokInt 4)) true (Some (TokInt 2)) None 0 false false None 0)) = false /\
  r_err (histrestr_init harness_bytes (mkHrConf (Some (TokInt 0)) (Some (TokInt 8)) (Some (TokInt 1)))) = false /\
  r_state (histrestr_init harness_bytes (mkHrConf (Some (TokInt 0)) (Some (TokInt 8)) (Some (TokInt 1)))) = 8 /\
  grid_init harness_bytes true [mkDim 0 4 (1 # 2); mkDim (-1 # 1) 1 (1 # 4)] 1 8 = (Accept, 64, [8; 1]) /\
  (* rejected by validation, not by a trap *)
  r_err (colvar_init 3 (mkCvConf None true None (Some (TokInt 0)) false None None None 0 0 0 0 0)) = true /\
  r_err (meta_init 3 (mkMetaConf (mkBiasConf None (Some (TokInt 0))) None true None false None)) = true /\
  fst (fst (grid_init harness_bytes true [mkDim 0 (2147483647 # 1) 1] 1 8)) = Reject /\
  fst (fst (grid_init harness_bytes true [mkDim 0 4 0] 1 8)) = Reject.
Proof. vm_compute. repeat split. Qed.

Example C10_example_rollback :
  let st := mkLists ["zz0"] [("hh0", "harmonic")] false in
  parse_config [mkBlock "x" "colvar" false; mkBlock "y" "colvar" true; mkBlock "z" "colvar" false]
               [[mkBlock "m" "metadynamics" false]] st
    = mkLists ["zz0"; "x"] [("hh0", "harmonic")] true /\
  parse_config [mkBlock "x" "colvar" false]
               [[mkBlock "a" "abf" false]; [mkBlock "h1" "harmonic" true; mkBlock "h2" "harmonic" false]; [mkBlock "m" "metadynamics" false]] st
    = mkLists ["zz0"; "x"] [("hh0", "harmonic"); ("a", "abf")] true.
Proof. vm_compute. split; reflexivity. Qed.
