From Coq Require Import Extraction ExtrOcamlBasic ZArith QArith.
From CV Require Import C10.GuardModel.
Extraction Language OCaml.
Extraction "model.ml" Z.add Z.mul Z.opp Z.pow Z.compare Z.eqb Z.ltb Z.leb Z.to_pos
  Qle_bool parse_int parse_real in_range getZ getQ
  module_init module_step_uses colvar_init colvar_step_uses corrfunc_uses bias_init bias_step_uses
  meta_init meta_step_uses abf_init abf_step_uses moving_init moving_step_uses coordnum_init coordnum_step_uses
  opes_init opes_step_uses grid_init grid_sizes histrestr_init scripted_init vector_keyword colvarx_validate walls_validate opesx_validate metax_validate abfshared_validate alb_validate kmoving_validate opes_sigma_nlist_validate rmsd_validate ebmeta_validate mkEnv parse_config_ext mkCBlock mkMState parse_config all_ok accepted verdict_of
  parse_config6 reset6 delete_bias6 delete_cv6 run_session6 mkCfg6 mkModst mkCvd mkGd mkBd read_index_file add_index_group
  mkModConf mkMod mkCvConf mkBiasConf mkMetaConf mkAbfConf mkMovConf mkPairConf mkOpesConf mkDim mkHrConf mkBlock mkLists.
