(* C10: lemmas about GuardModel.v *)
From Coq Require Import ZArith List Bool QArith String Lia.
From CV Require Import C10.GuardModel.
Import ListNotations.
Local Open Scope Z_scope.

(* ------------------------------------------------------------------------------------------------ *)
(* tactics                                                                                          *)
(* ------------------------------------------------------------------------------------------------ *)

Ltac b2p :=
  repeat match goal with
  | H : (_ =? _) = true |- _ => apply Z.eqb_eq in H
  | H : (_ =? _) = false |- _ => apply Z.eqb_neq in H
  | H : (_ <? _) = true |- _ => apply Z.ltb_lt in H
  | H : (_ <? _) = false |- _ => apply Z.ltb_ge in H
  | H : (_ <=? _) = true |- _ => apply Z.leb_le in H
  | H : (_ <=? _) = false |- _ => apply Z.leb_gt in H
  | H : (_ && _) = true |- _ => apply andb_true_iff in H; destruct H
  | H : (_ || _) = false |- _ => apply orb_false_iff in H; destruct H
  | H : negb _ = true |- _ => apply negb_true_iff in H
  | H : negb _ = false |- _ => apply negb_false_iff in H
  end.

Lemma nz_true (b : Z) : b <> 0 -> nz b = true.
Proof. intro H. unfold nz. apply negb_true_iff. apply Z.eqb_neq. exact H. Qed.

Lemma nz_true_iff (b : Z) : nz b = true <-> b <> 0.
Proof. unfold nz. rewrite negb_true_iff, Z.eqb_neq. tauto. Qed.

Lemma all_ok_app l1 l2 : all_ok (l1 ++ l2) = all_ok l1 && all_ok l2.
Proof. unfold all_ok. apply forallb_app. Qed.

Ltac split_ok := repeat (rewrite all_ok_app; apply andb_true_iff; split).

(* finish a goal [all_ok [...] = true] whose entries are nz tests *)
Ltac ok_nz :=
  cbn [all_ok forallb u_ok app]; repeat rewrite andb_true_r;
  repeat (apply andb_true_iff; split); try reflexivity; try (apply nz_true; b2p; lia).

(* ------------------------------------------------------------------------------------------------ *)
(* text -> value                                                                                    *)
(* ------------------------------------------------------------------------------------------------ *)

Lemma extract_int_in_range ty z v : extract_int ty z = ZVal v -> in_range ty v = true.
Proof.
  (* NB: inversion/injection on equations containing large Z literals do not terminate in Coq 8.16: congruence *)
  unfold extract_int, in_range. destruct ty; intro H.
  - destruct ((0 <=? z) && (z <? two64)) eqn:E1.
    + assert (Hv : v = z) by congruence. subst v. exact E1.
    + discriminate H.
  - destruct ((int_min <=? z) && (z <? two31)) eqn:E1; [|discriminate H].
    assert (Hv : v = z) by congruence. subst v. exact E1.
  - destruct ((- two63 <=? z) && (z <? two63)) eqn:E1; [|discriminate H].
    assert (Hv : v = z) by congruence. subst v. exact E1.
Qed.

Lemma parse_int_in_range ty t v : parse_int ty t = ZVal v -> in_range ty v = true.
Proof.
  destruct t as [[z|m e|ip n d|]|]; cbn [parse_int]; try discriminate; apply extract_int_in_range.
Qed.

(* the boundary tokens of the sweep: what each one becomes for each C type *)
Lemma parse_boundary_tokens :
  parse_int TSize (Some (TokInt 0)) = ZVal 0 /\
  parse_int TSize (Some (TokInt (-1))) = ZFail /\
  parse_int TInt (Some (TokInt (-1))) = ZVal (-1) /\
  parse_int TInt (Some (TokInt 2147483647)) = ZVal 2147483647 /\
  parse_int TInt (Some (TokInt 4294967296)) = ZFail /\
  parse_int TSize (Some (TokSci 1 300)) = ZFail /\
  parse_int TSize (Some (TokFrac 0 1 2)) = ZFail /\
  parse_int TSize (Some TokWord) = ZFail /\
  parse_real (Some TokWord) = QFail /\
  parse_real (Some (TokSci 1 300)) = QVal ((10 ^ 300) # 1).
Proof. vm_compute. repeat split. Qed.

(* ------------------------------------------------------------------------------------------------ *)
(* module                                                                                           *)
(* ------------------------------------------------------------------------------------------------ *)

Lemma module_safe eng c tn lp sa sr :
  all_ok (r_uses (module_init eng c)) = true /\
  all_ok (module_step_uses (r_state (module_init eng c)) tn lp sa sr) = true.
Proof.
  unfold module_init.
  destruct (getZ (parse_int TSize (mc_traj c)) (traj_freq eng) (traj_freq eng)) as [tf e1].
  destruct (getZ (parse_int TSize (mc_restart c)) (restart_freq eng) (restart_freq eng)) as [rf e2].
  cbn [r_uses r_state]. split; [reflexivity|].
  unfold module_step_uses; cbn [traj_freq restart_freq].
  destruct (nz tf) eqn:Etf; destruct (nz rf) eqn:Erf; destruct tn; destruct (0 <? sr);
    cbn [andb app all_ok forallb u_ok]; rewrite ?Etf, ?Erf; reflexivity.
Qed.

(* the label test before the repair: step % (cv_traj_freq * 1000) with the product in size_t *)
Lemma traj_label_old_refuted :
  exists f, in_range TSize f = true /\ f <> 0 /\ traj_label_modulus_old f = 0.
Proof. exists 2305843009213693952. vm_compute. repeat split; discriminate. Qed.

(* ------------------------------------------------------------------------------------------------ *)
(* colvar                                                                                           *)
(* ------------------------------------------------------------------------------------------------ *)

Lemma colvar_safe rof c :
  all_ok (r_uses (colvar_init rof c)) = true /\
  (r_err (colvar_init rof c) = false ->
   forall sa sr, all_ok (colvar_step_uses (r_state (colvar_init rof c)) sa sr) = true).
Proof.
  unfold colvar_init.
  destruct (getZ (parse_int TInt (c_tsf c)) 1 1) as [tsf e1].
  destruct (tsf <? 0) eqn:Etsf; [cbn; split; [reflexivity | discriminate]|].
  destruct (c_runave c) eqn:Era.
  - destruct (getZ (parse_int TSize (c_ralen c)) (c_u_ralen c) 1000) as [l el].
    destruct (getZ (parse_int TSize (c_rastride c)) (c_u_rastride c) 1) as [s es].
    destruct (s =? 0) eqn:Es.
    + (* zero stride: error + return *)
      cbn [r_uses r_err r_state]. split; [reflexivity | discriminate].
    + destruct (c_corr c) eqn:Eco.
      * destruct (getZ (parse_int TSize (c_cfoff c)) (c_u_cfoff c) 0) as [o eo].
        destruct (getZ (parse_int TSize (c_cflen c)) (c_u_cflen c) 1000) as [l2 el2].
        destruct (getZ (parse_int TSize (c_cfstride c)) (c_u_cfstride c) 1) as [s2 es2].
        destruct (s2 =? 0) eqn:Es2; [| destruct ((int_max <=? l2) || (int_max <=? o) || (int_max / (l2 + o + 1) <? s2)) eqn:Eb];
          cbn [r_uses r_err r_state app]; (split; [ok_nz|]);
          intros _ sa sr; unfold colvar_step_uses; cbn [s_tsf s_runave s_rastride];
          destruct (1 <? tsf) eqn:E1; ok_nz.
      * cbn [r_uses r_err r_state app]. split; [ok_nz|].
        intros _ sa sr; unfold colvar_step_uses; cbn [s_tsf s_runave s_rastride];
          destruct (1 <? tsf) eqn:E1; ok_nz.
  - destruct (c_corr c) eqn:Eco.
    + destruct (getZ (parse_int TSize (c_cfoff c)) (c_u_cfoff c) 0) as [o eo].
      destruct (getZ (parse_int TSize (c_cflen c)) (c_u_cflen c) 1000) as [l2 el2].
      destruct (getZ (parse_int TSize (c_cfstride c)) (c_u_cfstride c) 1) as [s2 es2].
      destruct (s2 =? 0) eqn:Es2; [| destruct ((int_max <=? l2) || (int_max <=? o) || (int_max / (l2 + o + 1) <? s2)) eqn:Eb];
          cbn [r_uses r_err r_state app]; (split; [ok_nz|]);
        intros _ sa sr; unfold colvar_step_uses; cbn [s_tsf s_runave s_rastride];
        destruct (1 <? tsf) eqn:E1; ok_nz.
    + cbn [r_uses r_err r_state app]. split; [reflexivity|].
      intros _ sa sr; unfold colvar_step_uses; cbn [s_tsf s_runave s_rastride];
        destruct (1 <? tsf) eqn:E1; ok_nz.
Qed.

(* corrFuncLength / corrFuncStride / corrFuncOffset: the bound checked in parse_analysis makes the uses of calc_acf safe *)
Definition harness_bytes : Z := 3 * 2 ^ 30.

Lemma getZ_size_nonneg t cur def : 0 <= def -> 0 <= fst (getZ (parse_int TSize t) cur def).
Proof.
  intro Hd. destruct (parse_int TSize t) as [|v|] eqn:E; cbn [getZ fst]; try exact Hd.
  apply parse_int_in_range in E. unfold in_range in E. b2p. lia.
Qed.

Lemma corrfunc_safe rof c :
  r_err (colvar_init rof c) = false -> forall h, all_ok (corrfunc_uses (r_state (colvar_init rof c)) h) = true.
Proof.
  unfold colvar_init.
  destruct (getZ (parse_int TInt (c_tsf c)) 1 1) as [tsf e1].
  destruct (tsf <? 0) eqn:Etsf; [cbn; discriminate|].
  assert (Hra : forall (X : Z * Z * bool * list use * bool), True) by (intros; exact I). clear Hra.
  destruct (c_runave c) eqn:Era.
  - destruct (getZ (parse_int TSize (c_ralen c)) (c_u_ralen c) 1000) as [l el].
    destruct (getZ (parse_int TSize (c_rastride c)) (c_u_rastride c) 1) as [s es].
    destruct (s =? 0) eqn:Es; [cbn; discriminate|].
    destruct (c_corr c) eqn:Eco; [| intros _ h; unfold corrfunc_uses; cbn [r_state s_corr]; reflexivity].
    pose proof (getZ_size_nonneg (c_cfoff c) (c_u_cfoff c) 0 ltac:(lia)) as Ho.
    pose proof (getZ_size_nonneg (c_cflen c) (c_u_cflen c) 1000 ltac:(lia)) as Hl.
    destruct (getZ (parse_int TSize (c_cfoff c)) (c_u_cfoff c) 0) as [o eo].
    destruct (getZ (parse_int TSize (c_cflen c)) (c_u_cflen c) 1000) as [l2 el2].
    destruct (getZ (parse_int TSize (c_cfstride c)) (c_u_cfstride c) 1) as [s2 es2]. cbn [fst] in Ho, Hl.
    destruct (s2 =? 0) eqn:Es2; [cbn [r_err]; rewrite ?orb_true_r; discriminate|].
    destruct ((int_max <=? l2) || (int_max <=? o) || (int_max / (l2 + o + 1) <? s2)) eqn:Eb;
      [cbn [r_err]; rewrite ?orb_true_r; discriminate|].
    intros _ h. unfold corrfunc_uses. cbn [r_state s_corr s_cflen s_cfoff]. b2p.
    assert (Hi : 2 * int_max < two64 /\ 0 < int_max) by (split; reflexivity).
    rewrite (Z.mod_small (l2 + 1) two64) by lia. rewrite (Z.mod_small (l2 + o) two64) by lia.
    destruct (l2 + o <=? h) eqn:Eh; [|reflexivity]. b2p.
    cbn [all_ok forallb u_ok]. rewrite andb_true_r. apply andb_true_iff. split; [apply Z.leb_le | apply Z.leb_le]; lia.
  - destruct (c_corr c) eqn:Eco; [| intros _ h; unfold corrfunc_uses; cbn [r_state s_corr]; reflexivity].
    pose proof (getZ_size_nonneg (c_cfoff c) (c_u_cfoff c) 0 ltac:(lia)) as Ho.
    pose proof (getZ_size_nonneg (c_cflen c) (c_u_cflen c) 1000 ltac:(lia)) as Hl.
    destruct (getZ (parse_int TSize (c_cfoff c)) (c_u_cfoff c) 0) as [o eo].
    destruct (getZ (parse_int TSize (c_cflen c)) (c_u_cflen c) 1000) as [l2 el2].
    destruct (getZ (parse_int TSize (c_cfstride c)) (c_u_cfstride c) 1) as [s2 es2]. cbn [fst] in Ho, Hl.
    destruct (s2 =? 0) eqn:Es2; [cbn [r_err]; rewrite ?orb_true_r; discriminate|].
    destruct ((int_max <=? l2) || (int_max <=? o) || (int_max / (l2 + o + 1) <? s2)) eqn:Eb;
      [cbn [r_err]; rewrite ?orb_true_r; discriminate|].
    intros _ h. unfold corrfunc_uses. cbn [r_state s_corr s_cflen s_cfoff]. b2p.
    assert (Hi : 2 * int_max < two64 /\ 0 < int_max) by (split; reflexivity).
    rewrite (Z.mod_small (l2 + 1) two64) by lia. rewrite (Z.mod_small (l2 + o) two64) by lia.
    destruct (l2 + o <=? h) eqn:Eh; [|reflexivity]. b2p.
    cbn [all_ok forallb u_ok]. rewrite andb_true_r. apply andb_true_iff. split; [apply Z.leb_le | apply Z.leb_le]; lia.
Qed.

(* accepted also bounds the capacity of the histories: stride * (length + offset + 1) <= INT_MAX *)
Lemma corrfunc_capacity rof c :
  r_err (colvar_init rof c) = false -> s_corr (r_state (colvar_init rof c)) = true ->
  let st := r_state (colvar_init rof c) in
  0 <= s_cflen st < int_max /\ 0 <= s_cfoff st < int_max /\
  s_cfstride st * (s_cflen st + s_cfoff st + 1) <= int_max.
Proof.
  unfold colvar_init.
  destruct (getZ (parse_int TInt (c_tsf c)) 1 1) as [tsf e1].
  destruct (tsf <? 0) eqn:Etsf; [cbn; discriminate|].
  assert (G : forall l2 o s2, 0 <= l2 -> 0 <= o ->
            (int_max <=? l2) || (int_max <=? o) || (int_max / (l2 + o + 1) <? s2) = false ->
            0 <= l2 < int_max /\ 0 <= o < int_max /\ s2 * (l2 + o + 1) <= int_max).
  { intros l2 o s2 Hl Ho Eb. b2p. repeat split; try lia.
    pose proof (Z.mul_div_le int_max (l2 + o + 1) ltac:(lia)). nia. }
  destruct (c_runave c) eqn:Era.
  - destruct (getZ (parse_int TSize (c_ralen c)) (c_u_ralen c) 1000) as [l el].
    destruct (getZ (parse_int TSize (c_rastride c)) (c_u_rastride c) 1) as [s es].
    destruct (s =? 0) eqn:Es; [cbn; discriminate|].
    destruct (c_corr c) eqn:Eco; [| cbn [r_state s_corr]; intros _ H; discriminate H].
    pose proof (getZ_size_nonneg (c_cfoff c) (c_u_cfoff c) 0 ltac:(lia)) as Ho.
    pose proof (getZ_size_nonneg (c_cflen c) (c_u_cflen c) 1000 ltac:(lia)) as Hl.
    destruct (getZ (parse_int TSize (c_cfoff c)) (c_u_cfoff c) 0) as [o eo].
    destruct (getZ (parse_int TSize (c_cflen c)) (c_u_cflen c) 1000) as [l2 el2].
    destruct (getZ (parse_int TSize (c_cfstride c)) (c_u_cfstride c) 1) as [s2 es2]. cbn [fst] in Ho, Hl.
    destruct (s2 =? 0) eqn:Es2; [cbn [r_err]; rewrite ?orb_true_r; discriminate|].
    destruct ((int_max <=? l2) || (int_max <=? o) || (int_max / (l2 + o + 1) <? s2)) eqn:Eb;
      [cbn [r_err]; rewrite ?orb_true_r; discriminate|].
    intros _ _. cbn [r_state s_cflen s_cfoff s_cfstride]. apply G; assumption.
  - destruct (c_corr c) eqn:Eco; [| cbn [r_state s_corr]; intros _ H; discriminate H].
    pose proof (getZ_size_nonneg (c_cfoff c) (c_u_cfoff c) 0 ltac:(lia)) as Ho.
    pose proof (getZ_size_nonneg (c_cflen c) (c_u_cflen c) 1000 ltac:(lia)) as Hl.
    destruct (getZ (parse_int TSize (c_cfoff c)) (c_u_cfoff c) 0) as [o eo].
    destruct (getZ (parse_int TSize (c_cflen c)) (c_u_cflen c) 1000) as [l2 el2].
    destruct (getZ (parse_int TSize (c_cfstride c)) (c_u_cfstride c) 1) as [s2 es2]. cbn [fst] in Ho, Hl.
    destruct (s2 =? 0) eqn:Es2; [cbn [r_err]; rewrite ?orb_true_r; discriminate|].
    destruct ((int_max <=? l2) || (int_max <=? o) || (int_max / (l2 + o + 1) <? s2)) eqn:Eb;
      [cbn [r_err]; rewrite ?orb_true_r; discriminate|].
    intros _ _. cbn [r_state s_cflen s_cfoff s_cfstride]. apply G; assumption.
Qed.

(* what the unrepaired parse_analysis accepted *)
Lemma corrfunc_old_refuted :
  all_ok (corrfunc_uses (corr_state_old (two64 - 1) 1 1) 0) = false /\           (* corrFuncLength -1, offset 1 *)
  all_ok (corrfunc_uses (corr_state_old 1000 1 (two64 - 1)) 999) = false.        (* corrFuncOffset -1 *)
Proof. split; vm_compute; reflexivity. Qed.

Lemma scripted_safe host t :
  all_ok (r_uses (scripted_init host t)) = true /\
  (r_err (scripted_init host t) = false -> 1 <= r_state (scripted_init host t) <= int_max /\ r_state (scripted_init host t) * 8 <= host).
Proof.
  unfold scripted_init. destruct (parse_int TInt t) as [|n|] eqn:E; try (cbn; split; [reflexivity|discriminate]).
  destruct (n <? 1) eqn:En; [cbn; split; [reflexivity|discriminate]|].
  cbn [r_uses r_err r_state]. apply parse_int_in_range in E. unfold in_range in E. b2p. split.
  - cbn [all_ok forallb u_ok]. rewrite andb_true_r. apply Z.ltb_lt. lia.
  - intro Hacc. b2p. unfold int_max. lia.
Qed.

(* ------------------------------------------------------------------------------------------------ *)
(* biases                                                                                           *)
(* ------------------------------------------------------------------------------------------------ *)

Lemma bias_init_uses rof c : r_uses (bias_init rof c) = [].
Proof.
  unfold bias_init. destruct (getZ (parse_int TSize (b_outfreq c)) rof rof) as [o e1].
  destruct (getZ (parse_int TInt (b_tsf c)) 1 1) as [t e2]. reflexivity.
Qed.

Lemma bias_step_safe s sr : all_ok (bias_step_uses s sr) = true.
Proof.
  unfold bias_step_uses. destruct (1 <? s_btsf s) eqn:E1; destruct ((0 <? s_outfreq s) && (0 <? sr)) eqn:E2; ok_nz.
Qed.

Lemma bias_safe rof c :
  all_ok (r_uses (bias_init rof c)) = true /\ forall sr, all_ok (bias_step_uses (r_state (bias_init rof c)) sr) = true.
Proof. rewrite bias_init_uses. split; [reflexivity | intro sr; apply bias_step_safe]. Qed.

Lemma bias_tsf_checked rof c : r_err (bias_init rof c) = false -> 1 <= s_btsf (r_state (bias_init rof c)).
Proof.
  unfold bias_init. destruct (getZ (parse_int TSize (b_outfreq c)) rof rof) as [o e1].
  destruct (getZ (parse_int TInt (b_tsf c)) 1 1) as [t e2]. cbn [r_err r_state s_btsf]. intro H. b2p. lia.
Qed.

Lemma meta_safe rof c :
  all_ok (r_uses (meta_init rof c)) = true /\
  (r_err (meta_init rof c) = false ->
   forall sr, all_ok (meta_step_uses (r_state (meta_init rof c)) sr) = true).
Proof.
  unfold meta_init.
  destruct (getZ (parse_int TSize (m_newhill c)) 1000 1000) as [nh e1].
  destruct (if m_usegrids c then getZ (parse_int TSize (m_gridsfreq c)) (if 0 <? nh then nh else 0) (if 0 <? nh then nh else 0)
            else (if 0 <? nh then nh else 0, false)) as [gf e2].
  destruct (if m_replicas c then getZ (parse_int TSize (m_upfreq c)) 0 0 else (0, false)) as [uf e3].
  cbn [r_uses r_state r_err]. rewrite bias_init_uses. split; [reflexivity|]. intros Hacc sr.
  unfold meta_step_uses. cbn [sm_base sm_history sm_newhill sm_usegrids sm_gridsfreq sm_replicas sm_upfreq].
  split_ok.
  - apply bias_step_safe.
  - destruct (0 <? nh) eqn:E; ok_nz.
  - destruct (m_usegrids c && (0 <? gf)) eqn:E; ok_nz.
  - destruct (m_replicas c) eqn:Er; [|reflexivity]. b2p. cbn [andb] in *.
    split_ok; [ok_nz | destruct (0 <? nh) eqn:E; ok_nz].
Qed.

(* before the repairs: newHillFrequency 0 (documented way to stop adding hills) and gridsUpdateFrequency 0
   were accepted and the moduli were evaluated at the next step; with a second replica newHillFrequency 0 was a
   divisor in read_replica_files *)
Lemma meta_old_refuted :
  (exists c, r_err (meta_init 0 c) = false /\ all_ok (meta_step_uses_old (r_state (meta_init 0 c))) = false /\
             sm_newhill (r_state (meta_init 0 c)) = 0) /\
  (exists c, r_err (meta_init 0 c) = false /\ all_ok (meta_step_uses_old (r_state (meta_init 0 c))) = false /\
             sm_newhill (r_state (meta_init 0 c)) = 2 /\ sm_gridsfreq (r_state (meta_init 0 c)) = 0).
Proof.
  split.
  - exists (mkMetaConf (mkBiasConf None None) (Some (TokInt 0)) true None false None). repeat split; reflexivity.
  - exists (mkMetaConf (mkBiasConf None None) (Some (TokInt 2)) true (Some (TokInt 0)) false None). repeat split; reflexivity.
Qed.

Lemma meta_replica_old_refuted :
  exists c, r_err (meta_init 0 c) = false /\ all_ok (meta_replica_div_old (r_state (meta_init 0 c))) = false.
Proof. exists (mkMetaConf (mkBiasConf None None) (Some (TokInt 0)) true None true (Some (TokInt 2))). split; reflexivity. Qed.

Lemma abf_safe rof c :
  all_ok (r_uses (abf_init rof c)) = true /\
  forall sr, all_ok (abf_step_uses (r_state (abf_init rof c)) sr) = true.
Proof.
  unfold abf_init. pose proof (bias_init_uses rof (a_base c)) as Hu.
  destruct (r_err (bias_init rof (a_base c))) eqn:Eb.
  - cbn [r_uses r_state]. rewrite Hu. split; [reflexivity|]. intro sr. unfold abf_step_uses; cbn [sa_base sa_hist].
    split_ok; [apply bias_step_safe | reflexivity].
  - destruct (getZ (parse_int TSize (a_full c)) 200 200) as [fs e1].
    destruct (getZ (parse_int TSize (a_min c)) (a_u_min c) (fs / 2)) as [ms e2].
    destruct (if fs <=? 1 then (1, 0) else (fs, ms)) as [fs' ms'].
    destruct (fs' <=? ms') eqn:Em.
    + cbn [r_uses r_state]. rewrite Hu. split; [reflexivity|]. intro sr. unfold abf_step_uses; cbn [sa_base sa_hist].
      split_ok; [apply bias_step_safe | reflexivity].
    + destruct (getZ (parse_int TSize (a_hist c)) 0 0) as [hf e3].
      destruct (hf =? 0) eqn:Eh; [| destruct (s_outfreq (r_state (bias_init rof (a_base c))) =? 0) eqn:Eo];
        cbn [r_uses r_state]; rewrite Hu; cbn [app]; (split; [ok_nz|]); intro sr;
        unfold abf_step_uses; cbn [sa_base sa_hist]; (split_ok; [apply bias_step_safe | destruct (0 <? hf) eqn:E; ok_nz]).
Qed.

Lemma moving_safe rof c :
  all_ok (r_uses (moving_init rof c)) = true /\
  (r_err (moving_init rof c) = false ->
   forall sr, all_ok (moving_step_uses (r_state (moving_init rof c)) sr) = true).
Proof.
  unfold moving_init. pose proof (bias_init_uses rof (v_base c)) as Hu.
  destruct (r_err (bias_init rof (v_base c))) eqn:Eb; [cbn [r_uses r_err]; rewrite Hu; split; [reflexivity|discriminate]|].
  destruct (v_moving c) eqn:Ev.
  - destruct (getZ (parse_int TStep (v_nsteps c)) 0 0) as [ns e1].
    destruct (ns =? 0) eqn:En; [cbn [r_uses r_err]; rewrite Hu; split; [reflexivity|discriminate]|].
    destruct (getZ (parse_int TInt (v_nstages c)) 0 0) as [ng e2].
    cbn [r_uses r_err r_state]. rewrite Hu. split; [reflexivity|]. intros _ sr.
    unfold moving_step_uses; cbn [sv_base sv_moving sv_nstages sv_nsteps andb].
    split_ok; [apply bias_step_safe | destruct (negb (ng =? 0)); ok_nz].
  - cbn [r_uses r_err r_state]. rewrite Hu. split; [reflexivity|]. intros _ sr.
    unfold moving_step_uses; cbn [sv_base sv_moving andb]. split_ok; [apply bias_step_safe | reflexivity].
Qed.

Lemma coordnum_safe c :
  all_ok (r_uses (coordnum_init c)) = true /\
  forall sr : Z, all_ok (coordnum_step_uses (r_state (coordnum_init c))) = true.
Proof.
  unfold coordnum_init. destruct (p_tolerance_pos c).
  - destruct (getZ (parse_int TInt (p_freq c)) 100 100) as [f e1].
    destruct (f <=? 0) eqn:Ef; cbn [r_uses r_state]; (split; [reflexivity|]); intros _;
      unfold coordnum_step_uses; cbn [sp_pairlist sp_freq]; ok_nz.
  - cbn. split; [reflexivity | intros _; reflexivity].
Qed.

Lemma opes_safe rof tf c :
  all_ok (r_uses (opes_init rof tf c)) = true /\
  (r_err (opes_init rof tf c) = false ->
   forall rof' sr, all_ok (opes_step_uses (r_state (opes_init rof tf c)) rof' sr) = true).
Proof.
  unfold opes_init. pose proof (bias_init_uses rof (o_base c)) as Hu.
  destruct (getZ (parse_int TStep (o_pace c)) 0 0) as [pace e1].
  destruct (pace <=? 0) eqn:Ep; [cbn [r_uses r_err]; rewrite Hu; split; [reflexivity|discriminate]|].
  assert (Hrest : forall ads e2 u2, all_ok u2 = true ->
    let r := (let '(ph, e3) := if o_pmf c then getZ (parse_int TStep (o_pmfhist c)) 0 0 else (0, false) in
      let '(tf0, e4) := getZ (parse_int TStep (o_trajfreq c)) 0 tf in
      let '(sh, e5) := if o_replicas c then getZ (parse_int TSize (o_shared c)) (o_u_shared c) (s_outfreq (r_state (bias_init rof (o_base c))))
                       else (o_u_shared c, false) in
      mkRes (mkOpes (r_state (bias_init rof (o_base c))) pace (o_adaptive c) ads (o_pmf c) ph tf0 (o_replicas c) (o_nlist c) sh)
            (r_err (bias_init rof (o_base c)) || e1 || e2 || e3 || e4 || e5) (r_uses (bias_init rof (o_base c)) ++ u2)) in
    all_ok (r_uses r) = true /\ (r_err r = false -> forall rof' sr, all_ok (opes_step_uses (r_state r) rof' sr) = true)).
  { intros ads e2 u2 Hu2.
    destruct (if o_pmf c then getZ (parse_int TStep (o_pmfhist c)) 0 0 else (0, false)) as [ph e3].
    destruct (getZ (parse_int TStep (o_trajfreq c)) 0 tf) as [tf' e4].
    destruct (if o_replicas c then getZ (parse_int TSize (o_shared c)) (o_u_shared c) (s_outfreq (r_state (bias_init rof (o_base c))))
              else (o_u_shared c, false)) as [sh e5].
    cbn [r_uses r_err r_state]. rewrite Hu. cbn [app]. split; [exact Hu2|]. intros _ rof' sr.
    unfold opes_step_uses; cbn [so_base so_pace so_pmf so_pmfhist so_trajfreq so_nlist so_replicas so_shared].
    split_ok.
    - apply bias_step_safe.
    - ok_nz.
    - destruct (0 <? rof') eqn:E; ok_nz.
    - destruct (o_pmf c && (0 <? ph)) eqn:E; ok_nz.
    - destruct (0 <? tf') eqn:E; ok_nz.
    - destruct (o_nlist c && o_replicas c && (0 <? sh)) eqn:E; ok_nz. }
  destruct (o_adaptive c) eqn:Ea.
  - destruct (getZ (parse_int TStep (o_adstride c)) (o_u_adstride c) 0) as [s0 es].
    destruct ((if s0 =? 0 then pace * 10 else s0) <? pace) eqn:Es;
      [cbn [r_uses r_err]; rewrite Hu; split; [reflexivity|discriminate]|].
    apply Hrest. ok_nz.
  - apply Hrest. reflexivity.
Qed.

Lemma opes_shared_old_refuted :
  exists c, r_err (opes_init 0 1 c) = false /\ all_ok (opes_shared_use_old (r_state (opes_init 0 1 c))) = false.
Proof.
  exists (mkOpesConf (mkBiasConf None None) (Some (TokInt 2)) false None false None None 0 true true None 0).
  split; reflexivity.
Qed.

(* ------------------------------------------------------------------------------------------------ *)
(* grids                                                                                            *)
(* ------------------------------------------------------------------------------------------------ *)

Lemma prodZ_app l1 l2 : prodZ (l1 ++ l2) = prodZ l1 * prodZ l2.
Proof. induction l1 as [|a l IH]; cbn [prodZ app]; [lia | rewrite IH; lia]. Qed.

Lemma prodZ_rev l : prodZ (rev l) = prodZ l.
Proof. induction l as [|a l IH]; cbn [prodZ rev]; [reflexivity | rewrite prodZ_app, IH; cbn [prodZ]; lia]. Qed.

Lemma strides_snoc m l n : strides m (l ++ [n]) = strides (m * n) l ++ [m].
Proof.
  induction l as [|a l IH]; cbn [strides app prodZ].
  - f_equal. lia.
  - rewrite IH. f_equal. rewrite prodZ_app. cbn [prodZ]. lia.
Qed.

Lemma int_max_pos : 0 < int_max. Proof. reflexivity. Qed.

Lemma setup_loop_spec : forall l nt acc nt' nxc',
  1 <= nt <= int_max ->
  setup_loop l nt acc = Some (nt', nxc') ->
  Forall (fun n => 1 <= n) l /\ nt' = nt * prodZ l /\ 1 <= nt' <= int_max /\
  exists pre, nxc' = pre ++ acc /\ pre = strides nt (rev l) /\ Forall (fun s => 1 <= s <= int_max) pre.
Proof.
  induction l as [|n r IH]; intros nt acc nt' nxc' Hnt H; cbn [setup_loop] in H.
  - assert (nt' = nt /\ nxc' = acc) as [-> ->] by (split; congruence).
    cbn [prodZ rev strides]. repeat split; try lia; try constructor.
    exists []. repeat split; constructor.
  - destruct (n <=? 0) eqn:En; [discriminate H|].
    destruct (int_max / n <? nt) eqn:Eo; [discriminate H|]. b2p.
    assert (Hmul : nt * n <= int_max).
    { pose proof (Z.mul_div_le int_max n ltac:(lia)). nia. }
    destruct (IH (nt * n) (nt :: acc) nt' nxc' ltac:(nia) H) as (Hall & Hp & Hb & pre & Hpre & Hs & Hf).
    split; [constructor; [lia | exact Hall]|].
    split; [cbn [prodZ]; rewrite Hp; lia|]. split; [exact Hb|].
    exists (pre ++ [nt]). split; [rewrite Hpre, <- app_assoc; reflexivity|].
    split; [cbn [rev]; rewrite strides_snoc, Hs; reflexivity|].
    apply Forall_app. split; [exact Hf | constructor; [lia | constructor]].
Qed.

Lemma cast_int_range q : int_min <= cast_int q <= int_max.
Proof.
  unfold cast_int. destruct ((int_min <=? trunc_Q q) && (trunc_Q q <? two31)) eqn:E.
  - b2p. unfold int_max. lia.
  - unfold int_min, int_max, two31. lia.
Qed.

Lemma nbins_round_range d : int_min <= nbins_round d <= int_max.
Proof.
  unfold nbins_round. destruct (Qeq_bool (d_width d) 0); [unfold int_min, int_max, two31; lia | apply cast_int_range].
Qed.

Lemma Forall_map_iff {A B} (f : A -> B) (P : B -> Prop) l : Forall P (map f l) <-> Forall (fun x => P (f x)) l.
Proof. induction l as [|a l IH]; cbn [map]; split; intro H; try constructor; inversion H; subst; try tauto. Qed.

Lemma grid_init_accept host cw dims mult elt nt nxc :
  1 <= mult <= int_max ->
  grid_init host cw dims mult elt = (Accept, nt, nxc) ->
  Forall (fun n => 1 <= n <= int_max) (grid_sizes dims) /\
  nt = mult * prodZ (grid_sizes dims) /\ 1 <= nt <= int_max /\
  nxc = strides mult (grid_sizes dims) /\ Forall (fun s => 1 <= s <= int_max) nxc /\
  nt * elt <= host /\
  (cw = true -> forallb (fun d => Qltb 0 (d_width d)) dims = true).
Proof.
  intros Hm H. unfold grid_init in H.
  destruct (cw && existsb (fun d => Qle_bool (d_width d) 0) dims) eqn:Ew; [discriminate H|].
  destruct (setup_loop (rev (grid_sizes dims)) mult []) as [[nt0 nxc0]|] eqn:Es; [|discriminate H].
  destruct (nt0 * elt <=? host) eqn:Eh; [|discriminate H].
  assert (nt = nt0 /\ nxc = nxc0) as [-> ->] by (split; congruence).
  destruct (setup_loop_spec _ _ _ _ _ Hm Es) as (Hall & Hp & Hb & pre & Hpre & Hs & Hf).
  rewrite rev_involutive in Hs. rewrite prodZ_rev in Hp. rewrite app_nil_r in Hpre. rewrite Hs in Hf. rewrite Hs in Hpre. clear Hs.
  split.
  { apply Forall_forall. intros n Hn. split.
    - rewrite Forall_forall in Hall. apply Hall. apply in_rev in Hn. exact Hn.
    - unfold grid_sizes in Hn. apply in_map_iff in Hn. destruct Hn as (d & <- & _). apply nbins_round_range. }
  split; [exact Hp|]. split; [exact Hb|]. split; [exact Hpre|]. split; [rewrite Hpre; exact Hf|].
  split; [b2p; lia|].
  intro Hc. subst cw. cbn [andb] in Ew.
  apply forallb_forall. intros d Hd. unfold Qltb. apply negb_true_iff.
  destruct (Qle_bool (d_width d) 0) eqn:E; [|reflexivity].
  exfalso. assert (existsb (fun d => Qle_bool (d_width d) 0) dims = true) by (apply existsb_exists; exists d; tauto).
  congruence.
Qed.

(* the loop before the repair accepted sizes whose product wraps (here to 0: an empty array addressed with
   non-zero strides) and sizes whose product is far beyond any host *)
Lemma setup_old_refuted :
  (exists nx nt nxc, setup_loop_old (rev nx) 1 [] = Some (nt, nxc) /\ Forall (fun n => 1 <= n <= int_max) nx /\
                     nt = 0 /\ prodZ nx = two64) /\
  (exists nx nt nxc, setup_loop_old (rev nx) 1 [] = Some (nt, nxc) /\ nt = 2147483647 * 2147483647 * 2 /\
                     strides 1 nx = [4294967294; 2; 1] /\ nxc = [-2; 2; 1]).
Proof.
  split.
  - exists [65536; 65536; 65536; 65536]. eexists. eexists. split; [vm_compute; reflexivity|].
    split; [repeat constructor; vm_compute; discriminate|]. split; reflexivity.
  - exists [2147483647; 2147483647; 2]. eexists. eexists. split; [vm_compute; reflexivity|]. repeat split; reflexivity.
Qed.

(* ------------------------------------------------------------------------------------------------ *)
(* histogramRestraint                                                                               *)
(* ------------------------------------------------------------------------------------------------ *)

Lemma histrestr_safe host c :
  all_ok (r_uses (histrestr_init host c)) = true /\
  (r_err (histrestr_init host c) = false ->
   1 <= r_state (histrestr_init host c) <= int_max /\ r_state (histrestr_init host c) * 24 <= host).
Proof.
  unfold histrestr_init.
  destruct (getQ (parse_real (h_lower c)) 0 0) as [lo e1].
  destruct (getQ (parse_real (h_upper c)) 0 0) as [up e2].
  destruct (getQ (parse_real (h_width c)) 0 0) as [w e3].
  destruct (Qle_bool w 0 || Qle_bool up lo); [cbn; split; [reflexivity|discriminate]|].
  destruct (Qle_bool (int_max # 1) ((up - lo) / w)); [cbn; split; [reflexivity|discriminate]|].
  destruct (cast_int ((up - lo) / w) <? 1) eqn:En; [cbn [r_uses r_err]; split; [reflexivity|discriminate]|].
  cbn [r_uses r_err r_state]. split.
  - cbn [all_ok forallb u_ok]. rewrite andb_true_r. apply Z.ltb_lt. b2p. lia.
  - intro H. b2p. pose proof (cast_int_range ((up - lo) / w)). lia.
Qed.

Lemma histrestr_old_refuted :
  histrestr_resize_arg_old 0 8 0 = two64 - two31 /\          (* width 0 *)
  histrestr_resize_arg_old 0 8 (-1 # 1) = two64 - 8 /\       (* width -1 *)
  histrestr_resize_arg_old 0 ((10 ^ 300) # 1) 1 = two64 - two31 /\   (* upperBoundary 1e300 *)
  histrestr_resize_arg_old 0 (2147483647 # 1) 1 = 2147483647.    (* 3 x 16 GiB requested without a check *)
Proof. vm_compute. repeat split. Qed.

(* ------------------------------------------------------------------------------------------------ *)
(* roll-back                                                                                        *)
(* ------------------------------------------------------------------------------------------------ *)

Lemma removelast_snoc {A} (l : list A) x : removelast (l ++ [x]) = l.
Proof. apply removelast_last. Qed.

(* names that parse_colvars adds: the longest prefix of blocks that do not fail and do not repeat a name *)
Fixpoint accepted_cvs (bs : list block) (have : list string) : list string :=
  match bs with
  | [] => []
  | b :: r => if k_fails b || existsb (String.eqb (k_name b)) have then []
              else k_name b :: accepted_cvs r (have ++ [k_name b])
  end.

Fixpoint cvs_error (bs : list block) (have : list string) : bool :=
  match bs with
  | [] => false
  | b :: r => if k_fails b || existsb (String.eqb (k_name b)) have then true else cvs_error r (have ++ [k_name b])
  end.

Lemma parse_colvars_spec : forall bs st,
  l_colvars (parse_colvars bs st) = l_colvars st ++ accepted_cvs bs (l_colvars st) /\
  l_biases (parse_colvars bs st) = l_biases st /\
  l_err (parse_colvars bs st) = l_err st || cvs_error bs (l_colvars st).
Proof.
  induction bs as [|b r IH]; intro st; cbn [parse_colvars accepted_cvs cvs_error].
  - rewrite app_nil_r, orb_false_r. repeat split.
  - destruct (k_fails b || existsb (String.eqb (k_name b)) (l_colvars st)) eqn:E.
    + cbn [l_colvars l_biases l_err]. rewrite removelast_snoc, app_nil_r, orb_true_r. repeat split.
    + destruct (IH (mkLists (l_colvars st ++ [k_name b]) (l_biases st) (l_err st))) as (H1 & H2 & H3).
      cbn [l_colvars l_biases l_err] in *. rewrite H1, H2, H3, <- app_assoc. repeat split.
Qed.

Fixpoint accepted_biases (bs : list block) (have : list (string * string)) : list (string * string) :=
  match bs with
  | [] => []
  | b :: r => if k_fails b || existsb (fun nb => String.eqb (k_name b) (fst nb)) have then []
              else (k_name b, k_type b) :: accepted_biases r (have ++ [(k_name b, k_type b)])
  end.

Fixpoint biases_error (bs : list block) (have : list (string * string)) : bool :=
  match bs with
  | [] => false
  | b :: r => if k_fails b || existsb (fun nb => String.eqb (k_name b) (fst nb)) have then true
              else biases_error r (have ++ [(k_name b, k_type b)])
  end.

Lemma parse_biases_type_spec : forall bs st,
  l_colvars (parse_biases_type bs st) = l_colvars st /\
  l_biases (parse_biases_type bs st) =
    l_biases st ++ (if l_err st then [] else accepted_biases bs (l_biases st)) /\
  l_err (parse_biases_type bs st) = l_err st || biases_error bs (l_biases st).
Proof.
  induction bs as [|b r IH]; intro st; cbn [parse_biases_type accepted_biases biases_error].
  - rewrite orb_false_r. destruct (l_err st); rewrite app_nil_r; repeat split.
  - destruct (l_err st) eqn:Ee; cbn [orb].
    + cbn [l_colvars l_biases l_err]. rewrite removelast_snoc, app_nil_r. repeat split.
    + destruct (k_fails b || existsb (fun nb => String.eqb (k_name b) (fst nb)) (l_biases st)) eqn:E.
      * cbn [l_colvars l_biases l_err]. rewrite removelast_snoc, app_nil_r. repeat split.
      * destruct (IH (mkLists (l_colvars st) (l_biases st ++ [(k_name b, k_type b)]) false)) as (H1 & H2 & H3).
        cbn [l_colvars l_biases l_err] in *. rewrite H1, H2, H3, <- app_assoc. repeat split.
Qed.

(* once an error is flagged, no bias of any later type survives *)
Lemma parse_biases_after_error : forall by_type st,
  l_err st = true ->
  l_colvars (parse_biases by_type st) = l_colvars st /\ l_biases (parse_biases by_type st) = l_biases st /\
  l_err (parse_biases by_type st) = true.
Proof.
  induction by_type as [|bs r IH]; intros st He; cbn [parse_biases]; [repeat split; exact He|].
  destruct (parse_biases_type_spec bs st) as (H1 & H2 & H3). rewrite He in H2, H3. cbn [orb] in H3.
  rewrite app_nil_r in H2.
  destruct (IH (parse_biases_type bs st) H3) as (G1 & G2 & G3). rewrite G1, G2, G3, H1, H2. repeat split.
Qed.

(* previously defined objects are never removed or reordered: the old lists are prefixes of the new ones *)
Lemma parse_biases_prefix : forall by_type st,
  l_colvars (parse_biases by_type st) = l_colvars st /\
  exists added, l_biases (parse_biases by_type st) = l_biases st ++ added.
Proof.
  induction by_type as [|bs r IH]; intro st; cbn [parse_biases].
  - split; [reflexivity | exists []; rewrite app_nil_r; reflexivity].
  - destruct (parse_biases_type_spec bs st) as (H1 & H2 & _).
    destruct (IH (parse_biases_type bs st)) as (G1 & added & G2).
    split; [rewrite G1, H1; reflexivity|].
    rewrite G2, H2, <- app_assoc. eexists; reflexivity.
Qed.

Lemma parse_config_prefix cvs bt st :
  exists a1 a2, l_colvars (parse_config cvs bt st) = l_colvars st ++ a1 /\
                l_biases (parse_config cvs bt st) = l_biases st ++ a2.
Proof.
  unfold parse_config.
  destruct (parse_colvars_spec cvs (mkLists (l_colvars st) (l_biases st) false)) as (H1 & H2 & H3).
  cbn [l_colvars l_biases l_err] in *.
  destruct (l_err (parse_colvars cvs (mkLists (l_colvars st) (l_biases st) false))).
  - rewrite H1, H2. exists (accepted_cvs cvs (l_colvars st)), []. rewrite app_nil_r. split; reflexivity.
  - destruct (parse_biases_prefix bt (parse_colvars cvs (mkLists (l_colvars st) (l_biases st) false))) as (G1 & added & G2).
    rewrite G1, G2, H1, H2. eexists; eexists; split; reflexivity.
Qed.

(* a configuration whose first object is rejected leaves the lists exactly as they were *)
Lemma rollback_first_colvar b r bt st :
  k_fails b = true ->
  l_colvars (parse_config (b :: r) bt st) = l_colvars st /\ l_biases (parse_config (b :: r) bt st) = l_biases st /\
  l_err (parse_config (b :: r) bt st) = true.
Proof.
  intro Hf. unfold parse_config. cbn [parse_colvars l_colvars l_biases l_err]. rewrite Hf. cbn [orb l_err l_colvars l_biases].
  rewrite removelast_snoc. repeat split.
Qed.

Lemma rollback_first_bias b r rest st :
  k_fails b = true ->
  l_colvars (parse_config [] ((b :: r) :: rest) st) = l_colvars st /\
  l_biases (parse_config [] ((b :: r) :: rest) st) = l_biases st /\
  l_err (parse_config [] ((b :: r) :: rest) st) = true.
Proof.
  intro Hf. unfold parse_config. cbn [parse_colvars l_err l_colvars l_biases parse_biases parse_biases_type].
  rewrite Hf. cbn [orb]. rewrite removelast_snoc.
  destruct (parse_biases_after_error rest (mkLists (l_colvars st) (l_biases st) true) eq_refl) as (G1 & G2 & G3).
  rewrite G1, G2, G3. repeat split.
Qed.

(* a rejected object never appears in the lists: every added colvar comes from a block that did not fail *)
Lemma accepted_cvs_ok : forall bs have n, In n (accepted_cvs bs have) -> exists b, In b bs /\ k_name b = n /\ k_fails b = false.
Proof.
  induction bs as [|b r IH]; intros have n Hn; cbn [accepted_cvs] in Hn; [contradiction|].
  destruct (k_fails b || existsb (String.eqb (k_name b)) have) eqn:E; [contradiction|].
  apply orb_false_iff in E. destruct E as [E1 E2].
  destruct Hn as [<-|Hn].
  - exists b. repeat split; [left; reflexivity | exact E1].
  - destruct (IH _ _ Hn) as (b' & Hb & Hn' & Hf). exists b'. repeat split; [right; exact Hb | exact Hn' | exact Hf].
Qed.

(* ------------------------------------------------------------------------------------------------ *)
(* errors raised through a bare cvm::error()                                                         *)
(* ------------------------------------------------------------------------------------------------ *)

Lemma accepted_cvs_map_ok : forall consult bs have n,
  In n (accepted_cvs (map (to_block consult) bs) have) ->
  exists b, In b bs /\ ib_name b = n /\ init_fails consult b = false.
Proof.
  intros consult bs have n Hn. destruct (accepted_cvs_ok _ _ _ Hn) as (b' & Hb & Hname & Hf).
  apply in_map_iff in Hb. destruct Hb as (b & <- & Hb). exists b. repeat split; assumption.
Qed.

(* with the error state consulted, no object whose initialisation raised ANY error (returned or bare) is kept *)
Lemma rollback_bare_errors : forall bs st n,
  In n (accepted_cvs (map (to_block true) bs) (l_colvars st)) ->
  exists b, In b bs /\ ib_name b = n /\ raises b = false.
Proof.
  intros bs st n Hn. destruct (accepted_cvs_map_ok true bs _ n Hn) as (b & Hb & Hname & Hf).
  exists b. repeat split; assumption.
Qed.

Lemma rollback_bare_first : forall b r bt st, raises b = true ->
  l_colvars (parse_config (map (to_block true) (b :: r)) bt st) = l_colvars st /\
  l_biases (parse_config (map (to_block true) (b :: r)) bt st) = l_biases st.
Proof.
  intros b r bt st Hr. cbn [map].
  destruct (rollback_first_colvar (to_block true b) (map (to_block true) r) bt st) as (H1 & H2 & _).
  - unfold to_block, init_fails. cbn [k_fails andb]. exact Hr.
  - split; assumption.
Qed.

(* without the consultation (parse_analysis returning only its own code) an object whose init raised a bare error stays *)
Lemma rollback_noconsult_refuted :
  exists b st, raises b = true /\
    l_colvars (parse_colvars (map (to_block false) [b]) st) = l_colvars st ++ [ib_name b].
Proof.
  exists (mkIBlock "v0" "colvar" false true), (mkLists ["zz0"%string] [] false). split; reflexivity.
Qed.

(* ------------------------------------------------------------------------------------------------ *)
(* vector-valued keywords                                                                           *)
(* ------------------------------------------------------------------------------------------------ *)

Lemma tok_value_val t q : parse_real (Some t) = QVal q -> tok_value t = Some q.
Proof. intro E. unfold tok_value. rewrite E. reflexivity. Qed.

Lemma read_all_ok : forall ts l, read_all ts = (l, false) -> map tok_value ts = map Some l.
Proof.
  induction ts as [|t r IH]; intros l H; cbn [read_all] in H.
  - assert (l = []) by congruence. subst. reflexivity.
  - destruct (parse_real (Some t)) as [|q|] eqn:E; try (exfalso; congruence).
    destruct (read_all r) as [l' e'] eqn:Er. assert (l = q :: l' /\ e' = false) as [-> ->] by (split; congruence).
    cbn [map]. rewrite (tok_value_val _ _ E). f_equal. apply IH. reflexivity.
Qed.

Lemma read_into_length : forall cur ts f l e, read_into cur ts f = (l, e) -> List.length l = List.length cur.
Proof.
  induction cur as [|c cr IH]; intros ts f l e H; cbn [read_into] in H.
  - assert (l = []) by congruence. subst. reflexivity.
  - destruct f.
    + destruct (read_into cr ts true) as [l' e'] eqn:Er. assert (l = c :: l') by congruence. subst. cbn [List.length]. f_equal. eapply IH; exact Er.
    + destruct ts as [|t tr].
      * destruct (read_into cr [] true) as [l' e'] eqn:Er. assert (l = c :: l') by congruence. subst. cbn [List.length]. f_equal. eapply IH; exact Er.
      * destruct (parse_real (Some t)) as [|q|] eqn:E.
        -- destruct (read_into cr tr true) as [l' e'] eqn:Er. assert (l = c :: l') by congruence. subst. cbn [List.length]. f_equal. eapply IH; exact Er.
        -- destruct (read_into cr tr false) as [l' e'] eqn:Er. assert (l = q :: l') by congruence. subst. cbn [List.length]. f_equal. eapply IH; exact Er.
        -- destruct (read_into cr tr true) as [l' e'] eqn:Er. assert (l = c :: l') by congruence. subst. cbn [List.length]. f_equal. eapply IH; exact Er.
Qed.

Lemma read_into_failed : forall cur ts l e, read_into cur ts true = (l, e) -> e = true.
Proof.
  destruct cur as [|c cr]; intros ts l e H; cbn [read_into] in H.
  - cbn in H. congruence.
  - destruct (read_into cr ts true) as [l' e']. congruence.
Qed.

Lemma read_into_ok : forall cur ts l, read_into cur ts false = (l, false) ->
  List.length ts = List.length cur /\ map tok_value ts = map Some l.
Proof.
  induction cur as [|c cr IH]; intros ts l H; cbn [read_into] in H.
  - destruct ts as [|t tr]; cbn in H; [|discriminate H]. assert (l = []) by congruence. subst. split; reflexivity.
  - destruct ts as [|t tr].
    + destruct (read_into cr [] true) as [l' e']. discriminate H.
    + destruct (parse_real (Some t)) as [|q|] eqn:E.
      * destruct (read_into cr tr true) as [l' e']. discriminate H.
      * destruct (read_into cr tr false) as [l' e'] eqn:Er. assert (l = q :: l' /\ e' = false) as [-> ->] by (split; congruence).
        destruct (IH tr l' Er) as [Hl Hm]. split; [cbn [List.length]; f_equal; exact Hl|].
        cbn [map]. rewrite (tok_value_val _ _ E). f_equal. exact Hm.
      * destruct (read_into cr tr true) as [l' e']. discriminate H.
Qed.

(* an accepted per-variable list has exactly one valid value per variable, in order, each satisfying the element check *)
Lemma vector_keyword_accept n presized elem_ok ts v :
  vector_keyword n presized elem_ok (Some ts) = (v, false) ->
  List.length ts = n /\ List.length v = n /\ map tok_value ts = map Some v /\ forallb elem_ok v = true.
Proof.
  unfold vector_keyword. destruct (getV (Some ts) (if presized then repeat (0 # 1) n else [])) as [v0 e0] eqn:Eg.
  intro H. assert (v = v0) by congruence. subst v0.
  assert (He : e0 || negb (Nat.eqb (List.length v) n) || negb (forallb elem_ok v) = false) by congruence.
  apply orb_false_iff in He. destruct He as [He He3]. apply orb_false_iff in He. destruct He as [He1 He2].
  apply negb_false_iff in He2, He3. apply Nat.eqb_eq in He2. subst e0.
  assert (Hm : map tok_value ts = map Some v).
  { unfold getV in Eg. destruct ts as [|t tr]; [discriminate Eg|].
    destruct (if presized then repeat (0 # 1) n else []) as [|c cr] eqn:Ec.
    - apply read_all_ok. exact Eg.
    - apply (read_into_ok _ _ _ Eg). }
  repeat split; try assumption.
  rewrite <- (map_length tok_value ts), Hm, map_length. exact He2.
Qed.

(* the keyword given without any value, or absent for a list that was not pre-sized on n > 0 variables, is rejected *)
Lemma vector_keyword_missing n elem_ok : (0 < n)%nat ->
  snd (vector_keyword n false elem_ok None) = true /\ forall p, snd (vector_keyword n p elem_ok (Some [])) = true.
Proof.
  intro Hn. split.
  - unfold vector_keyword, getV. cbn [snd List.length]. destruct n; [inversion Hn | reflexivity].
  - intro p. unfold vector_keyword, getV. cbn [snd orb]. reflexivity.
Qed.

(* ------------------------------------------------------------------------------------------------ *)
(* module-level pending configuration                                                               *)
(* ------------------------------------------------------------------------------------------------ *)

(* with the clear() at the start, the result of a configuration does not depend on what an earlier one left queued,
   nor on its error flag *)
Lemma pending_irrelevant cvs bt st p e :
  parse_config_ext true cvs bt (mkMState (mkLists (l_colvars (ms_lists st)) (l_biases (ms_lists st)) e) p)
  = parse_config_ext true cvs bt st.
Proof. unfold parse_config_ext. cbn [ms_lists ms_pending l_colvars l_biases]. reflexivity. Qed.

(* a configuration whose first variable is rejected leaves the visible state as it was, whatever it queued ... *)
Lemma rejected_first_visible b r bt st : k_fails (cb_block b) = true ->
  visible (parse_config_ext true (b :: r) bt st) = visible st /\ l_err (ms_lists (parse_config_ext true (b :: r) bt st)) = true.
Proof.
  intro Hf. unfold parse_config_ext, visible. cbn [map parse_colvars l_colvars l_biases l_err]. rewrite Hf. cbn [orb l_err].
  cbn [ms_lists l_colvars l_biases l_err]. rewrite removelast_snoc. split; reflexivity.
Qed.

(* ... and the next configuration behaves exactly as if the rejected one had never been supplied *)
Lemma rejected_then_next b r bt st cvs2 bt2 : k_fails (cb_block b) = true ->
  parse_config_ext true cvs2 bt2 (parse_config_ext true (b :: r) bt st) = parse_config_ext true cvs2 bt2 st.
Proof.
  intro Hf. destruct (rejected_first_visible b r bt st Hf) as [Hv _]. unfold visible in Hv.
  assert (H1 : l_colvars (ms_lists (parse_config_ext true (b :: r) bt st)) = l_colvars (ms_lists st)) by congruence.
  assert (H2 : l_biases (ms_lists (parse_config_ext true (b :: r) bt st)) = l_biases (ms_lists st)) by congruence.
  unfold parse_config_ext at 1. rewrite H1, H2. reflexivity.
Qed.

(* the same for ANY rejected configuration, relative to the objects that it legitimately left defined *)
Lemma after_any_config cvs bt st cvs2 bt2 :
  parse_config_ext true cvs2 bt2 (parse_config_ext true cvs bt st)
  = parse_config_ext true cvs2 bt2 (mkMState (ms_lists (parse_config_ext true cvs bt st)) []).
Proof. unfold parse_config_ext at 1 3. reflexivity. Qed.

(* without the clear() (seeded change C10_3): a rejected variable with legacy walls, then a valid configuration that
   contains no walls: the valid configuration gains the harmonicWalls bias queued by the rejected one *)
Lemma pending_noclear_refuted :
  exists b st v,
    k_fails (cb_block b) = true /\
    visible (parse_config_ext false [v] [] (parse_config_ext false [b] [] st)) <> visible (parse_config_ext false [v] [] st) /\
    visible (parse_config_ext true [v] [] (parse_config_ext true [b] [] st)) = visible (parse_config_ext true [v] [] st).
Proof.
  exists (mkCBlock (mkBlock "d" "colvar" true) (Some (mkBlock "dw" "harmonicwalls" false))),
         (mkMState (mkLists ["zz0"%string] [("hh0", "harmonic")%string] false) []),
         (mkCBlock (mkBlock "d" "colvar" false) None).
  split; [reflexivity|]. split; [vm_compute; discriminate | vm_compute; reflexivity].
Qed.

(* ================================================================================================ *)
(* Round 4: invariants of ACCEPTED configurations                                                    *)
(* ================================================================================================ *)

Lemma x_err_flag_input c x : x_err (flag_input c x) = c || x_err x.
Proof. unfold flag_input. destruct c; reflexivity. Qed.

Ltac split_or H :=
  repeat match type of H with
  | (_ || _) = false => let H1 := fresh H in let H2 := fresh H in
                        apply orb_false_iff in H; destruct H as [H1 H2]; try split_or H1; try split_or H2
  end.

(* Generic tactic: the control flow of a validator depends on finitely many boolean tests; the invariants are stated
   with the SAME boolean terms, so destructing the tests in the order of the code and simplifying decides them. *)
Ltac vcase :=
  repeat match goal with
  | |- context [match ?x with (_, _) => _ end] => destruct x
  end;
  repeat match goal with
  | |- context [if ?c then _ else _] => let E := fresh "E" in destruct c eqn:E; cbn [fst snd negb andb orb] in *
  end.

Definition colvarx_inv (s : cvx) : bool :=
  Qltb Q0 (vx_width s) && (0 <=? vx_tsf s) &&
  match vx_lb s, vx_ub s with Some l, Some u => Qltb l u | _, _ => true end &&
  (negb (vx_ext s) || (Qltb Q0 (vx_temp s) && Qltb Q0 (vx_fluct s) && Qltb Q0 (vx_tc s) && Qle_bool Q0 (vx_damping s))).

Ltac orb_simpl H :=
  cbn [negb andb orb] in H; repeat rewrite ?orb_true_r, ?orb_false_r, ?andb_true_r, ?andb_false_r in H; cbn [negb andb orb] in H.

(* finish: destruct the boolean tests that the goal still mentions, then the hypothesis decides *)
Ltac vfin H :=
  repeat match goal with
  | |- context [Qle_bool ?a ?b] => let E := fresh "E" in destruct (Qle_bool a b) eqn:E
  | |- context [Qeq_bool ?a ?b] => let E := fresh "E" in destruct (Qeq_bool a b) eqn:E
  | |- context [egiven ?e ?k] => let E := fresh "E" in destruct (egiven e k) eqn:E
  end;
  cbn [negb andb orb]; try reflexivity; orb_simpl H; try discriminate H; try congruence.

Lemma colvarx_accept temp e :
  x_err (fst (colvarx_validate temp e)) = false -> colvarx_inv (snd (colvarx_validate temp e)) = true.
Proof.
  unfold colvarx_validate, colvarx_inv, Qltb.
  destruct (eint TInt e "timeStepFactor" 1) as [tsf p0].
  destruct (ereal e "width" (1 # 1)) as [w p1].
  destruct (ereal e "lowerBoundary" Q0) as [lb p2].
  destruct (ereal e "upperBoundary" w) as [ub p3].
  destruct (ereal e "extendedTemp" temp) as [tp p4].
  destruct (ereal e "extendedFluctuation" Q0) as [fl p5].
  destruct (ereal e "extendedTimeConstant" (200 # 1)) as [tc p6].
  destruct (ereal e "extendedLangevinDamping" (1 # 1)) as [g p7].
  destruct (Qle_bool w Q0) eqn:Ew; destruct (tsf <? 0) eqn:Et; destruct (eflag e "extendedLagrangian" false) eqn:Ex;
    cbn [negb andb orb fst snd];
    try (rewrite !x_err_flag_input; cbn [x_err no_errs]; rewrite ?orb_true_r; cbn [orb]; discriminate).
  all: try (destruct (Qle_bool tp Q0) eqn:Etp; [cbn [fst]; rewrite x_err_flag_input; discriminate|];
            destruct (Qle_bool fl Q0) eqn:Efl; [cbn [fst]; rewrite x_err_flag_input; discriminate|]).
  all: cbn [fst snd vx_width vx_tsf vx_lb vx_ub vx_ext vx_temp vx_fluct vx_tc vx_damping negb andb orb];
       rewrite !x_err_flag_input; cbn [x_err no_errs]; intro H.
  all: assert (Ht : (0 <=? tsf) = true) by (apply Z.leb_le; b2p; lia); rewrite Ht.
  all: try (rewrite Ew in H); try (rewrite Etp); try (rewrite Efl).
  all: vfin H.
Qed.

Definition opesx_inv (s : opesx) : bool :=
  Qle_bool Q0 (ox_barrier s) && match ox_bf s with Some b => negb (Qle_bool b (1 # 1)) | None => true end &&
  negb (Qle_bool (ox_eps s) Q0) && negb (Qle_bool (ox_cutoff s) Q0) &&
  (Qeq_bool (ox_ct s) Q0 || (Qle_bool Q0 (ox_ct s) && Qle_bool (ox_ct s) (ox_cutoff s))).

Lemma opesx_accept kbt bfinf explore e :
  x_err (fst (opesx_validate kbt bfinf explore e)) = false -> opesx_inv (snd (opesx_validate kbt bfinf explore e)) = true.
Proof.
  unfold opesx_validate, opesx_inv, Qltb.
  destruct (eint TStep e "newHillFrequency" 0) as [pace p0].
  destruct (ereal e "barrier" Q0) as [ba p1].
  destruct (ereal e "biasfactor" (ba / kbt)) as [bfv p2].
  destruct (ereal e "epsilon" Q0) as [eps p3].
  destruct (ereal e "kernelCutoff" Q0) as [cut p4].
  destruct (ereal e "compressionThreshold" (1 # 1)) as [ct p5].
  destruct (pace <=? 0) eqn:Ep; [cbn; discriminate|].
  destruct (Qle_bool Q0 ba) eqn:Eb; cbn [negb]; [|cbn; discriminate].
  destruct (bfinf && explore) eqn:Ei; [cbn; discriminate|].
  destruct (negb bfinf && (p2 || Qle_bool bfv (1 # 1))) eqn:Ef; [cbn; discriminate|].
  destruct (Qle_bool eps Q0) eqn:Ee; [cbn; discriminate|].
  destruct (Qle_bool cut Q0) eqn:Ec; [cbn; discriminate|].
  destruct (negb (Qeq_bool ct Q0) && (negb (Qle_bool Q0 ct) || negb (Qle_bool ct cut))) eqn:Et; [cbn; discriminate|].
  cbn [fst snd ox_barrier ox_bf ox_eps ox_cutoff ox_ct]. intros _. rewrite Eb, Ee, Ec. cbn [negb andb].
  destruct bfinf; cbn [negb andb] in *.
  - destruct (Qeq_bool ct Q0); cbn [negb andb orb] in *; [reflexivity|].
    destruct (Qle_bool Q0 ct); destruct (Qle_bool ct cut); cbn in *; congruence.
  - apply orb_false_iff in Ef. destruct Ef as [_ Ef]. rewrite Ef. cbn [negb andb].
    destruct (Qeq_bool ct Q0); cbn [negb andb orb] in *; [reflexivity|].
    destruct (Qle_bool Q0 ct); destruct (Qle_bool ct cut); cbn in *; congruence.
Qed.

Lemma metax_accept n e :
  x_err (fst (metax_validate n e)) = false ->
  negb (Qle_bool (mx_weight (snd (metax_validate n e))) Q0) = true /\ mx_sigmas (snd (metax_validate n e)) = n /\
  forallb (Qltb Q0) (mx_widths (snd (metax_validate n e))) = true.
Proof.
  unfold metax_validate.
  destruct (ereal e "hillWeight" Q0) as [hw p0].
  destruct (eint TSize e "newHillFrequency" 1000) as [nhf pf1].
  destruct (eint TSize e "gridsUpdateFrequency" nhf) as [guf pf2].
  destruct (getV (elist e "gaussianSigmas") []) as [sig es].
  destruct (ereal e "hillWidth" Q0) as [hwid p1].
  destruct (Nat.eqb (if Qltb Q0 hwid then n else List.length sig) n) eqn:En; cbn [negb];
    [| cbn [fst]; rewrite x_err_flag_input; discriminate].
  destruct (forallb (Qltb Q0) (if Qltb Q0 hwid then [] else sig)) eqn:Ew; cbn [negb];
    [| cbn [fst]; rewrite x_err_flag_input; discriminate].
  destruct (ereal e "biasTemperature" (-1 # 1)) as [bt p2].
  cbn [fst snd mx_weight mx_sigmas mx_widths]. rewrite !x_err_flag_input. cbn [x_err no_errs]. intro H.
  split; [| split; [apply Nat.eqb_eq; exact En | exact Ew]].
  unfold Qltb in H. destruct (Qle_bool hw Q0); [orb_simpl H; discriminate H | reflexivity].
Qed.

Lemma abfshared_accept rof e :
  x_err (fst (abfshared_validate rof e)) = false -> eflag e "shared" false = true ->
  let '(ofr, sf) := snd (abfshared_validate rof e) in (sf =? 0) || (ofr mod sf =? 0) = true.
Proof.
  unfold abfshared_validate. destruct (eint TSize e "outputFreq" rof) as [ofr p0].
  intros H Hs. rewrite Hs in *. destruct (eint TSize e "sharedFreq" ofr) as [sf p1].
  destruct (negb (sf =? 0) && negb (ofr mod sf =? 0)) eqn:E; [cbn in H; discriminate H|].
  cbn [snd]. destruct (sf =? 0); destruct (ofr mod sf =? 0); cbn in *; congruence.
Qed.

Lemma alb_accept n e :
  x_err (fst (alb_validate n e)) = false ->
  2 <= fst (snd (alb_validate n e)) /\ snd (snd (alb_validate n e)) = n.
Proof.
  unfold alb_validate.
  destruct (match elist e "centers" with None => ([], true) | Some ts => getV (Some ts) (repeat Q0 n) end) as [c ec].
  destruct (eint TInt e "UpdateFrequency" 0) as [uf p0].
  cbn [fst snd]. rewrite !x_err_flag_input. cbn [x_err no_errs]. intro H.
  apply orb_false_iff in H. destruct H as [Hh H]. apply orb_false_iff in H. destruct H as [_ H].
  apply orb_false_iff in H. destruct H as [H _]. apply orb_false_iff in H. destruct H as [_ Hl].
  apply negb_false_iff in Hl. apply Nat.eqb_eq in Hl. b2p. split; [lia | exact Hl].
Qed.

Lemma kmoving_accept rof e :
  x_err (fst (kmoving_validate rof e)) = false ->
  let s := snd (kmoving_validate rof e) in
  Qle_bool Q0 (kx_k s) = true /\ (kx_changing s = true -> kx_nsteps s <> 0) /\ Qle_bool Q0 (kx_exp s) = true.
Proof.
  unfold kmoving_validate, Qltb.
  destruct (ereal e "forceConstant" (1 # 1)) as [k p0].
  destruct (ereal e "targetForceConstant" Q0) as [tfk p1].
  destruct (eint TStep e "targetNumSteps" 0) as [ns p2].
  destruct (eint TInt e "targetNumStages" 0) as [ng p3].
  destruct (getV (elist e "lambdaSchedule") []) as [sched esch].
  destruct (ereal e "lambdaExponent" (1 # 1)) as [lx p4].
  assert (Hk : x_err (flag_input (p0 || negb (Qle_bool Q0 k)) no_errs) = false -> Qle_bool Q0 k = true).
  { intros H. rewrite x_err_flag_input in H. cbn [x_err no_errs] in H. destruct (Qle_bool Q0 k); [reflexivity | orb_simpl H; discriminate H]. }
  destruct (egiven e "targetForceConstant" && eflag e "decoupling" false) eqn:E1; [cbn [fst]; rewrite x_err_flag_input; discriminate|].
  destruct (negb (eflag e "decoupling" false || egiven e "targetForceConstant")) eqn:E2.
  - cbn [fst snd kx_k kx_changing kx_exp]. rewrite x_err_flag_input. intro H. apply orb_false_iff in H. destruct H as [_ H].
    split; [apply (Hk H) | split; [discriminate | reflexivity]].
  - destruct (ns =? 0) eqn:En; [cbn [fst]; rewrite x_err_flag_input; discriminate|].
    destruct (elist_given e "lambdaSchedule" && (0 <? ng)) eqn:E3; [cbn [fst]; rewrite x_err_flag_input; discriminate|].
    cbn [fst snd kx_k kx_changing kx_nsteps kx_exp]. rewrite x_err_flag_input. intro H. apply orb_false_iff in H. destruct H as [Hx H].
    split; [apply (Hk H) | split; [intros _; b2p; assumption |]].
    destruct (Qle_bool Q0 lx); [reflexivity | orb_simpl Hx; discriminate Hx].
Qed.

Lemma getV_presized_length n ts v e : (0 < n)%nat -> getV (Some ts) (repeat Q0 n) = (v, e) -> List.length v = n.
Proof.
  intros Hn H. unfold getV in H. destruct ts as [|t tr].
  - assert (v = repeat Q0 n) by congruence. subst. apply repeat_length.
  - destruct n as [|n']; [inversion Hn|]. cbn [repeat] in H.
    rewrite <- (repeat_length Q0 (S n')). cbn [repeat]. eapply read_into_length. exact H.
Qed.

(* harmonicWalls: accepted => at least one list of walls; every list that is given has one wall per variable; with both
   lists every lower wall is below its upper wall (and not within 1e-6 widths of it) and the two constants are non-zero *)
Lemma walls_accept ws n e : (0 < n)%nat ->
  x_err (fst (walls_validate ws n e)) = false ->
  let s := snd (walls_validate ws n e) in
  (wx_lower s <> [] \/ wx_upper s <> []) /\
  (wx_lower s <> [] -> List.length (wx_lower s) = n) /\ (wx_upper s <> [] -> List.length (wx_upper s) = n) /\
  (wx_lower s <> [] -> wx_upper s <> [] ->
     pairwise_lt (wx_lower s) (wx_upper s) = true /\ pairwise_apart ws (wx_lower s) (wx_upper s) = true /\
     Qeq_bool (wx_lk s * wx_uk s) Q0 = false).
Proof.
  intro Hn. unfold walls_validate.
  destruct (ereal e "forceConstant" (1 # 1)) as [fk p0].
  destruct (match elist e "lowerWalls" with None => ([], false) | Some ts => getV (Some ts) (repeat Q0 n) end) as [lw el] eqn:El.
  destruct (match elist e "upperWalls" with None => ([], false) | Some ts => getV (Some ts) (repeat Q0 n) end) as [uw eu] eqn:Eu.
  assert (Hll : lw <> [] -> List.length lw = n).
  { intro Hne. destruct (elist e "lowerWalls") as [ts|]; [eapply getV_presized_length; eauto | exfalso; apply Hne; congruence]. }
  assert (Hlu : uw <> [] -> List.length uw = n).
  { intro Hne. destruct (elist e "upperWalls") as [ts|]; [eapply getV_presized_length; eauto | exfalso; apply Hne; congruence]. }
  assert (Hz : forall l : list Q, Nat.eqb (List.length l) 0 = true -> l = []).
  { intros l H. apply Nat.eqb_eq in H. destruct l; [reflexivity | discriminate H]. }
  assert (Hnz : forall l : list Q, Nat.eqb (List.length l) 0 = false -> l <> []).
  { intros l H Hl. subst l. discriminate H. }
  destruct (Nat.eqb (List.length lw) 0) eqn:E1; destruct (Nat.eqb (List.length uw) 0) eqn:E2; cbn [andb negb].
  - cbn [fst]. rewrite x_err_flag_input. discriminate.
  - destruct (ereal e "upperWallConstant" fk) as [uk p2]. cbn [fst snd wx_lower wx_upper]. intros _.
    split; [right; apply Hnz; exact E2|]. split; [exact Hll|]. split; [exact Hlu|].
    intros Hne. exfalso. apply Hne. apply Hz. exact E1.
  - destruct (ereal e "lowerWallConstant" fk) as [lk p1]. cbn [fst snd wx_lower wx_upper]. intros _.
    split; [left; apply Hnz; exact E1|]. split; [exact Hll|]. split; [exact Hlu|].
    intros _ Hne. exfalso. apply Hne. apply Hz. exact E2.
  - destruct (ereal e "lowerWallConstant" fk) as [lk p1]. destruct (ereal e "upperWallConstant" fk) as [uk p2].
    destruct (negb (pairwise_lt lw uw) || negb (pairwise_apart ws lw uw)) eqn:Ep; [cbn [fst]; rewrite x_err_flag_input; discriminate|].
    destruct (Qeq_bool (lk * uk) Q0) eqn:Ek; [cbn [fst]; rewrite x_err_flag_input; discriminate|].
    cbn [fst snd wx_lower wx_upper wx_lk wx_uk]. intros _.
    split; [left; apply Hnz; exact E1|]. split; [exact Hll|]. split; [exact Hlu|]. intros _ _.
    apply orb_false_iff in Ep. destruct Ep as [Ea Eb]. apply negb_false_iff in Ea, Eb. repeat split; assumption.
Qed.

(* ================================================================================================ *)
(* Round 5                                                                                           *)
(* ================================================================================================ *)

Lemma opes_sigma_nlist_accept n e :
  x_err (fst (opes_sigma_nlist_validate n e)) = false ->
  let '(sg, np) := snd (opes_sigma_nlist_validate n e) in
  (eflag e "adaptiveSigma" false = false -> forallb (fun q => Qltb Q0 q) sg = true) /\
  (forall p0 p1, np = [p0; p1] -> Qle_bool p0 (1 # 1) = false /\ Qle_bool p1 Q0 = false /\ Qle_bool (116 # 100) p1 = false /\
                                  Qltb (((116 # 100) - p1) * ((116 # 100) - p1) * p0) (1 # 1) = false).
Proof.
  unfold opes_sigma_nlist_validate.
  destruct (match elist e "gaussianSigma" with None => (repeat Q0 n, false) | Some ts => getV (Some ts) (repeat Q0 n) end) as [sg es].
  destruct (negb (eflag e "adaptiveSigma" false) && (es || negb (forallb (fun q => Qltb Q0 q) sg))) eqn:E1; [cbn; discriminate|].
  assert (Hs : eflag e "adaptiveSigma" false = false -> forallb (fun q => Qltb Q0 q) sg = true).
  { intro Ha. rewrite Ha in E1. cbn [negb andb] in E1. apply orb_false_iff in E1. destruct E1 as [_ E1].
    apply negb_false_iff in E1. exact E1. }
  destruct (eflag e "neighborList" false).
  - destruct (getV (elist e "neighborListParameters") []) as [np en].
    destruct np as [|p0 [|p1 [|p2 r]]].
    + cbn [snd]. intros _. split; [exact Hs | intros; discriminate].
    + cbn [fst]. rewrite x_err_flag_input. discriminate.
    + destruct (Qle_bool p0 (1 # 1) || Qle_bool p1 Q0 || Qle_bool (116 # 100) p1 ||
                Qltb (((116 # 100) - p1) * ((116 # 100) - p1) * p0) (1 # 1)) eqn:E2;
        [cbn [fst]; rewrite x_err_flag_input; discriminate|].
      cbn [snd]. intros _. split; [exact Hs|]. intros q0 q1 Hq. assert (q0 = p0 /\ q1 = p1) as [-> ->] by (split; congruence).
      apply orb_false_iff in E2. destruct E2 as [E2 E5]. apply orb_false_iff in E2. destruct E2 as [E2 E4].
      apply orb_false_iff in E2. destruct E2 as [E2 E3]. repeat split; assumption.
    + cbn [fst]. rewrite x_err_flag_input. discriminate.
  - cbn [snd]. intros _. split; [exact Hs | intros; discriminate].
Qed.

(* rmsd: accepted => as many reference positions as atoms, and at least one atom *)
Lemma rmsd_accept g inline file :
  x_err (fst (rmsd_validate g inline file)) = false -> snd (rmsd_validate g inline file) = g /\ (1 <= g)%nat.
Proof.
  unfold rmsd_validate. destruct (Nat.eqb g 0) eqn:Eg; [cbn; discriminate|].
  assert (Hg : (1 <= g)%nat) by (apply Nat.eqb_neq in Eg; lia).
  destruct inline as [m|].
  - cbn [fst snd]. rewrite x_err_flag_input. intro H. apply orb_false_iff in H. destruct H as [H _].
    apply orb_false_iff in H. destruct H as [H _]. apply negb_false_iff in H. apply Nat.eqb_eq in H. split; assumption.
  - destruct file as [[ex m]|]; [destruct ex|]; cbn [fst snd].
    + rewrite x_err_flag_input. intro H. apply orb_false_iff in H. destruct H as [H _].
      apply negb_false_iff in H. apply Nat.eqb_eq in H. split; assumption.
    + cbn. discriminate.
    + cbn. discriminate.
Qed.

(* allocation sites: whatever the input, an ACCEPTED size is at most 3 * INT_MAX elements (INT_MAX for grids, scripted
   vectors and correlation histories), and a grid and a histogramRestraint also fit what the host grants *)
Lemma alloc_sites_bounded host dims mult hr scripted rof c :
  1 <= mult <= int_max ->
  Forall (fun a => as_accepted a = true -> as_elements a <= 3 * int_max) (alloc_sites host dims mult hr scripted rof c).
Proof.
  intro Hm. unfold alloc_sites.
  destruct (grid_init host true dims mult 8) as [[gv gnt] gnxc] eqn:Eg.
  assert (Hi : 0 < int_max) by reflexivity.
  repeat constructor; cbn [as_accepted as_elements].
  - destruct gv; [|discriminate]. intros _. destruct (grid_init_accept _ _ _ _ _ _ _ Hm Eg) as (_ & _ & Hb & _). lia.
  - intro H. apply negb_true_iff in H. destruct (histrestr_safe host hr) as [_ Hh]. specialize (Hh H). lia.
  - intro H. apply negb_true_iff in H. destruct (scripted_safe host scripted) as [_ Hs]. specialize (Hs H). lia.
  - intro H. apply andb_true_iff in H. destruct H as [H1 H2]. apply negb_true_iff in H1.
    pose proof (corrfunc_capacity rof c H1 H2) as (_ & _ & Hc). cbn zeta in Hc. lia.
Qed.

(* ---- ebMeta: after an accepted initialisation every value of the target distribution is positive ------- *)
Local Open Scope Q_scope.

Lemma Qltb_true a b : Qltb a b = true <-> a < b.
Proof.
  unfold Qltb. rewrite negb_true_iff. split; intro H.
  - apply Qnot_le_lt. intro Hle. apply Qle_bool_iff in Hle. congruence.
  - destruct (Qle_bool b a) eqn:E; [|reflexivity]. apply Qle_bool_iff in E. exfalso. exact (Qlt_not_le _ _ H E).
Qed.

Lemma Qltb_false a b : Qltb a b = false <-> b <= a.
Proof.
  unfold Qltb. rewrite negb_false_iff. apply Qle_bool_iff.
Qed.

Lemma qmin_choice l d : qmin l d = d \/ In (qmin l d) l.
Proof.
  induction l as [|a r IH]; cbn [qmin]; [left; reflexivity|].
  destruct (Qle_bool a (qmin r d)); [right; left; reflexivity|]. destruct IH as [IH|IH]; [left; exact IH | right; right; exact IH].
Qed.

Lemma qmin_le l d a : In a l -> qmin l d <= a.
Proof.
  induction l as [|b r IH]; intro Hin; [contradiction|]. cbn [qmin].
  destruct (Qle_bool b (qmin r d)) eqn:E.
  - apply Qle_bool_iff in E. destruct Hin as [<-|Hin]; [apply Qle_refl | eapply Qle_trans; [exact E | apply IH; exact Hin]].
  - destruct Hin as [<-|Hin]; [| apply IH; exact Hin].
    apply Qlt_le_weak. apply Qnot_le_lt. intro Hle. apply Qle_bool_iff in Hle. congruence.
Qed.

Lemma qmax_choice l d : qmax l d = d \/ In (qmax l d) l.
Proof.
  induction l as [|a r IH]; cbn [qmax]; [left; reflexivity|].
  destruct (Qle_bool (qmax r d) a); [right; left; reflexivity|]. destruct IH as [IH|IH]; [left; exact IH | right; right; exact IH].
Qed.

Lemma ebmeta_accept expand file e :
  x_err (fst (ebmeta_validate expand file e)) = false ->
  forallb (fun q => Qltb Q0 q) (snd (ebmeta_validate expand file e)) = true /\ expand = false /\ file <> None.
Proof.
  unfold ebmeta_validate. destruct file as [vals|]; [| cbn; destruct expand; discriminate].
  destruct (Qle_bool (qmax vals Q0) Q0) eqn:Emax; [cbn [fst]; rewrite x_err_flag_input; discriminate|].
  destruct (ereal e "targetDistMinVal" (1 # 1000000)) as [v p0].
  cbn [fst snd]. rewrite !x_err_flag_input. cbn [x_err no_errs]. intro H.
  apply orb_false_iff in H. destruct H as [Hv H]. apply orb_false_iff in H. destruct H as [Hneg Hexp].
  rewrite orb_false_r in Hexp.
  split; [| split; [exact Hexp | discriminate]].
  assert (Hmaxpos : Q0 < qmax vals Q0).
  { apply Qnot_le_lt. intro Hle. apply Qle_bool_iff in Hle. congruence. }
  assert (Hnonneg : forall q, In q vals -> Q0 <= q).
  { intros q Hq. apply Qltb_false in Hneg. eapply Qle_trans; [exact Hneg | apply qmin_le; exact Hq]. }
  set (thr := if Qltb Q0 v && Qltb v (1 # 1) then v * qmax vals Q0 else qmin (filter (fun q => Qltb Q0 q) vals) (qmax vals Q0)).
  assert (Hthr : Q0 < thr).
  { unfold thr. destruct (Qltb Q0 v && Qltb v (1 # 1)) eqn:Ev.
    - apply andb_true_iff in Ev. destruct Ev as [Ev _]. apply Qltb_true in Ev.
      unfold Q0 in *. apply Qmult_lt_0_compat; assumption.
    - destruct (qmin_choice (filter (fun q => Qltb Q0 q) vals) (qmax vals Q0)) as [-> | Hin]; [exact Hmaxpos|].
      apply filter_In in Hin. destruct Hin as [_ Hpos]. apply Qltb_true in Hpos. exact Hpos. }
  apply forallb_forall. intros q Hq. apply in_map_iff in Hq. destruct Hq as (q0 & <- & Hq0).
  apply Qltb_true. destruct (Qltb q0 thr) eqn:Eq; [exact Hthr|].
  apply Qltb_false in Eq. eapply Qlt_le_trans; [exact Hthr | exact Eq].
Qed.

Local Close Scope Q_scope.

(* ------------------------------------------------------------------------------------------------ *)
(* Module-level state: index-group registry, named groups, counters, active variables               *)
(* ------------------------------------------------------------------------------------------------ *)

Lemma has_null_app r n a : reg_has_null (r ++ [(n, Some a)]) = reg_has_null r.
Proof. unfold reg_has_null. rewrite existsb_app. simpl. rewrite orb_false_r. reflexivity. Qed.

Lemma has_null_set n a r : reg_has_null r = false -> reg_has_null (reg_set n (Some a) r) = false.
Proof.
  unfold reg_has_null. induction r as [|[m w] t IH]; simpl; intro H; [reflexivity|].
  apply orb_false_iff in H. destruct H as [H1 H2].
  destruct (String.eqb n m); simpl.
  - exact H2.
  - rewrite H1. simpl. apply IH. exact H2.
Qed.

Lemma wf_lookup_not_null n r : reg_has_null r = false -> reg_lookup n r <> Some None.
Proof.
  unfold reg_has_null. induction r as [|[m w] t IH]; simpl; intro H; [discriminate|].
  apply orb_false_iff in H. destruct H as [H1 H2].
  destruct (String.eqb n m).
  - destruct w; [discriminate | discriminate H1].
  - apply IH. exact H2.
Qed.

Lemma lookup_app_keep n r m x y : reg_lookup n r = Some y -> reg_lookup n (r ++ [(m, x)]) = Some y.
Proof.
  induction r as [|[k w] t IH]; simpl; [discriminate|].
  destruct (String.eqb n k); [trivial | exact IH].
Qed.

(* what the loop of read_index_file preserves, in the repaired code and in the code before the repair: no NULL
   pointer appears, and every group that was defined keeps its atoms *)
Definition reg_keeps (r r' : registry) : Prop :=
  reg_wf r' /\ forall n l, reg_lookup n r = Some (Some l) -> reg_lookup n r' = Some (Some l).

Lemma reg_keeps_refl r : reg_wf r -> reg_keeps r r.
Proof. intro H. split; [exact H | trivial]. Qed.

Lemma reg_keeps_trans a b c : reg_keeps a b -> reg_keeps b c -> reg_keeps a c.
Proof. intros [_ H1] [W2 H2]. split; [exact W2 | intros n l H; apply H2, H1, H]. Qed.

Lemma after_group_keeps v rec n rest r1 :
  v <> IvNull -> reg_wf r1 ->
  (forall ts r, reg_wf r -> reg_keeps r (fst (rec ts r))) ->
  reg_keeps r1 (fst (after_group v rec n rest r1)).
Proof.
  intros Hv W Hrec. unfold after_group.
  destruct rest as [|t rest']; [apply reg_keeps_refl; exact W|].
  destruct t; try (apply Hrec; exact W);
    (destruct v; [apply reg_keeps_refl; exact W | apply reg_keeps_refl; exact W | congruence]).
Qed.

Lemma read_loop_keeps v : v <> IvNull -> forall f ts r, reg_wf r -> reg_keeps r (fst (read_loop v f ts r)).
Proof.
  intro Hv. induction f as [|f IH]; intros ts r W; simpl; [apply reg_keeps_refl; exact W|].
  destruct ts as [|t ts1]; [apply reg_keeps_refl; exact W|].
  destruct t; try (apply reg_keeps_refl; exact W).
  destruct (reg_lookup n r) as [[old|]|] eqn:El.
  - destruct (zlist_eqb old (fst (take_atoms ts1))); [| apply reg_keeps_refl; exact W].
    apply after_group_keeps; [exact Hv | exact W | exact IH].
  - exfalso. exact (wf_lookup_not_null n r W El).
  - eapply reg_keeps_trans; [| apply after_group_keeps; [exact Hv | | exact IH]].
    + split; [unfold reg_wf; rewrite has_null_app; exact W |].
      intros n0 l0 H0. apply lookup_app_keep. exact H0.
    + unfold reg_wf. rewrite has_null_app. exact W.
Qed.

(* the repaired read_index_file, for every file and every well-formed registry: it never dereferences a NULL pointer,
   leaves no NULL pointer, keeps every group that was defined, and a rejected file changes nothing *)
Lemma read_index_file_repaired ts r :
  reg_wf r ->
  let '(r', rejected, crashed) := read_index_file IvRollback ts r in
  crashed = false /\ reg_keeps r r' /\ (rejected = true -> r' = r).
Proof.
  intro W. unfold read_index_file.
  pose proof (read_loop_keeps IvRollback ltac:(discriminate) (S (List.length ts)) ts r W) as K.
  destruct (read_loop IvRollback (S (List.length ts)) ts r) as [r1 e]. cbn [fst] in K.
  destruct e.
  - split; [reflexivity | split; [apply reg_keeps_refl; exact W | trivial]].
  - split; [exact (proj1 K) | split; [exact K | discriminate]].
Qed.

Lemma read_index_file_repaired_spec :
  forall (file : list itok) (r : registry), reg_wf r ->
    let '(r', rejected, crashed) := read_index_file IvRollback file r in
    crashed = false /\ reg_wf r' /\
    (forall n l, reg_lookup n r = Some (Some l) -> reg_lookup n r' = Some (Some l)) /\
    (rejected = true -> r' = r).
Proof.
  intros file r W. pose proof (read_index_file_repaired file r W) as K.
  destruct (read_index_file IvRollback file r) as [[r' e] c].
  exact (conj (proj1 K) (conj (proj1 (proj1 (proj2 K))) (conj (proj2 (proj1 (proj2 K))) (proj2 (proj2 K))))).
Qed.

(* the same three facts for the code before the repair, except the last: see index_file_kept_refuted *)
Lemma read_index_file_before_repair ts r :
  reg_wf r ->
  let '(r', _, crashed) := read_index_file IvKeep ts r in crashed = false /\ reg_keeps r r'.
Proof.
  intro W. unfold read_index_file.
  pose proof (read_loop_keeps IvKeep ltac:(discriminate) (S (List.length ts)) ts r W) as K.
  destruct (read_loop IvKeep (S (List.length ts)) ts r) as [r1 e]. cbn [fst] in K.
  destruct e; (split; [try reflexivity; exact (proj1 K) | exact K]).
Qed.

(* ---- the whole module state ---- *)

Definition modst_wf (s : modst) : Prop :=
  reg_wf (q_reg s) /\ q_crash s = false /\ (forall g o, In (g, o) (q_named s) -> In o (q_cvs s)).

(* what every phase of parse_config preserves *)
Record extends (s s' : modst) : Prop := mkExt {
  ex_wf : modst_wf s';
  ex_cvs : exists l, q_cvs s' = q_cvs s ++ l;
  ex_biases : exists l, q_biases s' = q_biases s ++ l;
  ex_named : exists l, q_named s' = q_named s ++ l;
  ex_reg : forall n l, reg_lookup n (q_reg s) = Some (Some l) -> reg_lookup n (q_reg s') = Some (Some l);
  ex_active : forall c, In c (q_active s) -> In c (q_active s') }.

Lemma extends_refl s : modst_wf s -> extends s s.
Proof.
  intro W. constructor; try (exists []; rewrite app_nil_r; reflexivity); trivial.
Qed.

Lemma extends_trans a b c : extends a b -> extends b c -> extends a c.
Proof.
  intros [_ [l1 C1] [l2 B1] [l3 N1] R1 A1] [W2 [k1 C2] [k2 B2] [k3 N2] R2 A2].
  constructor; trivial.
  - exists (l1 ++ k1). rewrite C2, C1, app_assoc. reflexivity.
  - exists (l2 ++ k2). rewrite B2, B1, app_assoc. reflexivity.
  - exists (l3 ++ k3). rewrite N2, N1, app_assoc. reflexivity.
  - intros n l H. apply R2, R1, H.
  - intros x H. apply A2, A1, H.
Qed.

Lemma set_err_extends e s : modst_wf s -> extends s (set_err e s).
Proof.
  intros (W & C & N). constructor; cbn; try (exists []; rewrite app_nil_r; reflexivity); trivial.
  repeat split; assumption.
Qed.

Lemma read_files_extends fs : forall s, modst_wf s -> extends s (read_files IvRollback fs s).
Proof.
  induction fs as [|[ts|] r IH]; intros s W; simpl.
  - apply extends_refl. exact W.
  - pose proof (read_index_file_repaired ts (q_reg s) (proj1 W)) as K.
    destruct (read_index_file IvRollback ts (q_reg s)) as [[r1 e] c]. destruct K as (-> & [W1 K1] & _).
    eapply extends_trans; [| apply IH].
    + destruct W as (W0 & C & N). constructor; cbn; try (exists []; rewrite app_nil_r; reflexivity); trivial.
      unfold modst_wf; cbn. rewrite C. repeat split; assumption.
    + destruct W as (W0 & C & N). unfold modst_wf; cbn. rewrite C. repeat split; assumption.
  - eapply extends_trans; [apply set_err_extends; exact W | apply IH].
    destruct W as (W0 & C & N). repeat split; assumption.
Qed.

Lemma parse_globals6_extends c s : modst_wf s -> extends s (parse_globals6 IvRollback c s).
Proof.
  intro W. unfold parse_globals6.
  pose proof (read_files_extends (c6_files c) s W) as [W1 C1 B1 N1 R1 A1].
  destruct (set_size (c6_traj c) (q_traj (read_files IvRollback (c6_files c) s))) as [tr e1].
  destruct (set_size (c6_restart c) (q_restart (read_files IvRollback (c6_files c) s))) as [rs e2].
  constructor; cbn; trivial.
Qed.

Lemma parse_groups_no_crash gs reg : reg_wf reg -> forall named mine, snd (parse_groups gs reg named mine) = false.
Proof.
  intro W. induction gs as [|g r IH]; intros named mine; simpl; [reflexivity|].
  destruct (match gd_name g with Some n => existsb (String.eqb n) (named ++ mine) | None => false end); [reflexivity|].
  destruct (gd_src g) as [|n|n].
  - apply IH.
  - unfold add_index_group. destruct (reg_lookup n reg) as [[l|]|] eqn:El; [apply IH | | reflexivity].
    exfalso. exact (wf_lookup_not_null n reg W El).
  - destruct (existsb (String.eqb n) (named ++ match gd_name g with Some n0 => mine ++ [n0] | None => mine end)); [apply IH | reflexivity].
Qed.

Lemma parse_cvs6_extends cs : forall s, modst_wf s -> extends s (parse_cvs6 cs s).
Proof.
  induction cs as [|c r IH]; intros s W; simpl; [apply extends_refl; exact W|].
  pose proof (parse_groups_no_crash (cvd_groups c) (q_reg s) (proj1 W) (map fst (q_named s)) []) as NC.
  destruct (parse_groups (cvd_groups c) (q_reg s) (map fst (q_named s)) []) as [[mine gfail] crash]. cbn [snd] in NC. subst crash.
  destruct (gfail || cvd_fails c || existsb (String.eqb (cvd_name c)) (q_cvs s)); [apply set_err_extends; exact W|].
  eapply extends_trans; [| apply IH].
  - destruct W as (W0 & C & N). constructor; cbn; trivial.
    + repeat split; try assumption. intros g o H. apply in_app_iff in H. apply in_app_iff. destruct H as [H | H].
      * left. eapply N. exact H.
      * right. apply in_map_iff in H. destruct H as (x & E & _). inversion E. left. reflexivity.
    + eexists. reflexivity.
    + exists []. rewrite app_nil_r. reflexivity.
    + eexists. reflexivity.
    + intros x H. apply in_app_iff. left. exact H.
  - destruct W as (W0 & C & N). repeat split; cbn; try assumption.
    intros g o H. apply in_app_iff in H. apply in_app_iff. destruct H as [H | H].
    + left. eapply N. exact H.
    + right. apply in_map_iff in H. destruct H as (x & E & _). inversion E. left. reflexivity.
Qed.

Lemma parse_btype6_extends bs : forall s, modst_wf s -> extends s (parse_btype6 true bs s).
Proof.
  induction bs as [|b r IH]; intros s W; simpl; [apply extends_refl; exact W|].
  set (cs := bump (bd_type b) (q_counters s)).
  set (nm := match bd_name b with Some n => n | None => default_name (bd_type b) (counter (bd_type b) cs) end).
  destruct (q_err s || bd_fails b || negb (forallb (fun c => existsb (String.eqb c) (q_cvs s)) (bd_cvs b))
            || existsb (fun o => String.eqb nm (fst (fst o))) (q_biases s)).
  - destruct W as (W0 & C & N). constructor; cbn; try (exists []; rewrite app_nil_r; reflexivity); trivial.
    repeat split; assumption.
  - eapply extends_trans; [| apply IH].
    + destruct W as (W0 & C & N). constructor; cbn; try (exists []; rewrite app_nil_r; reflexivity); trivial.
      * repeat split; assumption.
      * eexists. reflexivity.
      * intros x H. unfold add_new. apply in_app_iff. left. exact H.
    + destruct W as (W0 & C & N). repeat split; cbn; assumption.
Qed.

Lemma parse_biases6_extends bt : forall s, modst_wf s -> extends s (parse_biases6 true bt s).
Proof.
  induction bt as [|bs r IH]; intros s W; simpl; [apply extends_refl; exact W|].
  eapply extends_trans; [apply parse_btype6_extends; exact W | apply IH].
  exact (ex_wf _ _ (parse_btype6_extends bs s W)).
Qed.

(* a configuration, accepted or rejected, from a well-formed state: never a crash, the state stays well-formed
   (no NULL group, every named group owned by a defined variable), the objects, named groups and index groups that
   existed are still there unchanged, and every variable that was active is still active *)
Lemma parse_config6_extends c s : modst_wf s -> extends s (parse_config6 IvRollback true c s).
Proof.
  intro W. unfold parse_config6.
  set (s0 := mkModst (q_cvs s) (q_biases s) (q_reg s) (q_named s) (q_counters s) (q_traj s) (q_restart s) (q_active s) false (q_crash s)).
  assert (E0 : extends s s0).
  { destruct W as (W0 & C & N). constructor; cbn; try (exists []; rewrite app_nil_r; reflexivity); trivial. repeat split; assumption. }
  pose proof (parse_globals6_extends c s0 (ex_wf _ _ E0)) as E1.
  destruct (q_err (parse_globals6 IvRollback c s0) || q_crash (parse_globals6 IvRollback c s0)).
  - exact (extends_trans _ _ _ E0 E1).
  - pose proof (parse_cvs6_extends (c6_cvs c) _ (ex_wf _ _ E1)) as E2.
    destruct (q_err (parse_cvs6 (c6_cvs c) (parse_globals6 IvRollback c s0)) || q_crash (parse_cvs6 (c6_cvs c) (parse_globals6 IvRollback c s0))).
    + exact (extends_trans _ _ _ E0 (extends_trans _ _ _ E1 E2)).
    + exact (extends_trans _ _ _ E0 (extends_trans _ _ _ E1 (extends_trans _ _ _ E2 (parse_biases6_extends _ _ (ex_wf _ _ E2))))).
Qed.

Lemma reset6_wf s : q_crash s = false -> modst_wf (reset6 s).
Proof. intro C. repeat split; cbn; try assumption; try reflexivity. intros g o []. Qed.

Lemma delete_bias6_same n s :
  q_cvs (delete_bias6 n s) = q_cvs s /\ q_named (delete_bias6 n s) = q_named s /\ q_reg (delete_bias6 n s) = q_reg s /\
  q_crash (delete_bias6 n s) = q_crash s.
Proof. unfold delete_bias6. destruct (find _ (q_biases s)); cbn; repeat split. Qed.

Lemma delete_biases_same ns : forall s,
  let s1 := fold_left (fun st n => delete_bias6 n st) ns s in
  q_cvs s1 = q_cvs s /\ q_named s1 = q_named s /\ q_reg s1 = q_reg s /\ q_crash s1 = q_crash s.
Proof.
  induction ns as [|n r IH]; intro s; simpl; [repeat split|].
  destruct (IH (delete_bias6 n s)) as (A & B & C & D). destruct (delete_bias6_same n s) as (A' & B' & C' & D').
  repeat split; congruence.
Qed.

Lemma delete_bias6_wf n s : modst_wf s -> modst_wf (delete_bias6 n s).
Proof.
  intros (W & C & N). destruct (delete_bias6_same n s) as (A & B & R & D).
  unfold modst_wf. rewrite A, B, R, D. repeat split; assumption.
Qed.

Lemma delete_cv6_wf c s : modst_wf s -> modst_wf (delete_cv6 c s).
Proof.
  intros (W & C & N). unfold delete_cv6.
  destruct (negb (existsb (String.eqb c) (q_cvs s))); [repeat split; assumption|].
  set (ns := rev (map (fun b => fst (fst b)) (filter (uses_cv c) (q_biases s)))).
  destruct (delete_biases_same ns s) as (A & B & R & D). fold ns.
  unfold modst_wf; cbn. rewrite A, B, R, D. repeat split; try assumption.
  intros g o H. apply filter_In in H. destruct H as [H Hne]. cbn in Hne.
  apply filter_In. split; [eapply N; exact H | exact Hne].
Qed.

(* any session (configurations, resets, deletions of biases and variables) from a well-formed state stays well-formed:
   no NULL pointer is dereferenced, every named group is owned by a variable that still exists *)
Lemma run_session6_wf ops : forall s, modst_wf s -> modst_wf (run_session6 IvRollback true ops s).
Proof.
  induction ops as [|o r IH]; intros s W; simpl; [exact W|].
  apply IH. destruct o as [c| |n|n]; cbn.
  - exact (ex_wf _ _ (parse_config6_extends c s W)).
  - apply reset6_wf. exact (proj1 (proj2 W)).
  - apply delete_bias6_wf. exact W.
  - apply delete_cv6_wf. exact W.
Qed.

(* what a configuration rejected in parse_global_params (a malformed or missing index file, a module-level keyword
   whose value cannot be read) leaves behind: the groups of the index files that were accepted and the values of the
   module-level keywords that could be read -- nothing else *)
Lemma read_files_only_reg fs : forall s,
  let s' := read_files IvRollback fs s in
  q_cvs s' = q_cvs s /\ q_biases s' = q_biases s /\ q_named s' = q_named s /\ q_counters s' = q_counters s /\ q_active s' = q_active s
  /\ q_traj s' = q_traj s /\ q_restart s' = q_restart s.
Proof.
  induction fs as [|[ts|] r IH]; intros s; simpl; [repeat split | |].
  - destruct (read_index_file IvRollback ts (q_reg s)) as [[r1 e] c].
    specialize (IH (set_crash c (set_err e (set_reg r1 s)))). cbn in IH. exact IH.
  - specialize (IH (set_err true s)). cbn in IH. exact IH.
Qed.

Lemma rejected_in_globals c s :
  let s0 := mkModst (q_cvs s) (q_biases s) (q_reg s) (q_named s) (q_counters s) (q_traj s) (q_restart s) (q_active s) false (q_crash s) in
  q_err (parse_globals6 IvRollback c s0) = true ->
  let s' := parse_config6 IvRollback true c s in
  q_cvs s' = q_cvs s /\ q_biases s' = q_biases s /\ q_named s' = q_named s /\ q_counters s' = q_counters s /\ q_active s' = q_active s
  /\ q_reg s' = q_reg (read_files IvRollback (c6_files c) s0).
Proof.
  intros s0 He. unfold parse_config6. fold s0. rewrite He. cbn [orb].
  unfold parse_globals6.
  pose proof (read_files_only_reg (c6_files c) s0) as (A & B & C & D & E & _).
  destruct (set_size (c6_traj c) (q_traj (read_files IvRollback (c6_files c) s0))) as [tr e1].
  destruct (set_size (c6_restart c) (q_restart (read_files IvRollback (c6_files c) s0))) as [rs e2].
  cbn. repeat split; assumption.
Qed.

(* ---- witnesses: the three variants that are not the repaired code ---- *)

Definition ndx_broken : list itok := [IHdr "first"; IAtom 1; IAtom 2; IAtom 3; IHdr "second"; IAtom 5; IAtom 6; IText; IAtom 8].
Definition ndx_corrected : list itok := [IHdr "first"; IAtom 1; IAtom 2; IAtom 3; IHdr "second"; IAtom 5; IAtom 6; IAtom 7; IAtom 8].
Definition ndx_other : list itok := [IHdr "third"; IAtom 4; IAtom 5].

(* seeded change C10_4: after the rejected file the registry holds a NULL pointer under the name "second"; reading
   another, valid file or defining a group with `indexGroup second` dereferences it *)
Lemma index_file_null_refuted :
  let r := fst (fst (read_index_file IvNull ndx_broken [])) in
  reg_wf [] /\ snd (fst (read_index_file IvNull ndx_broken [])) = true
  /\ reg_lookup "second" r = Some None
  /\ snd (read_index_file IvNull ndx_other r) = true
  /\ add_index_group "second" r = GUCrash.
Proof. vm_compute. repeat split. Qed.

(* before the repair: the rejected file leaves "second" = (5, 6) defined, so that the corrected file is refused *)
Lemma index_file_kept_refuted :
  let r := fst (fst (read_index_file IvKeep ndx_broken [])) in
  snd (fst (read_index_file IvKeep ndx_broken [])) = true
  /\ reg_lookup "second" r = Some (Some [5; 6])
  /\ snd (fst (read_index_file IvKeep ndx_corrected r)) = true
  /\ snd (fst (read_index_file IvRollback ndx_corrected (fst (fst (read_index_file IvRollback ndx_broken []))))) = false.
Proof. vm_compute. repeat split. Qed.

(* before the repair: a rejected bias switches off the variable it names when no other bias uses it *)
Definition st_zz0 : modst := mkModst ["zz0"%string] [] [] [] [] 1 3 ["zz0"%string] false false.
Definition cfg_bad_bias : config6 := mkCfg6 None None [] [] [[mkBd "harmonic" None ["zz0"%string] true]].
Lemma rejected_bias_switches_off_refuted :
  q_err (parse_config6 IvRollback false cfg_bad_bias st_zz0) = true
  /\ q_active (parse_config6 IvRollback false cfg_bad_bias st_zz0) = []
  /\ q_active (parse_config6 IvRollback true cfg_bad_bias st_zz0) = ["zz0"%string].
Proof. vm_compute. repeat split. Qed.
