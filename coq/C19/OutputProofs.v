(* Lemmas about OutputModel.v.  Part A (trajectory file) is discrete and holds for every carrier;
   parts B-D (analyses) are about the instance Rops. *)
From Coq Require Import ZArith List Bool Arith Lia Reals Lra QArith Qround FinFun.
From CV Require Import Base.Num Base.RNum C19.OutputModel.
Import ListNotations.

(* =================================================================================================
   A. trajectory file
   ================================================================================================= *)

Lemma var_cols : forall f, map (vcol_src f) (var_label f) = var_data f.
Proof.
  intros [id a b c d e x y]. unfold var_label, var_data, vf_ext. cbn [vf_id vf_value vf_velocity vf_energy vf_tforce vf_aforce vf_extlag vf_external].
  destruct a, b, c, d, e, x, y; reflexivity.
Qed.

Lemma bias_cols : forall b, map bcol_src (bias_label b) = bias_data b.
Proof.
  intros [id k vs e c cc ck aw cp g].
  unfold bias_label, bias_data, base_label, base_data, cm_label, cm_data, km_label, km_data.
  cbn [bf_id bf_kind bf_vars bf_energy bf_centers bf_chg_centers bf_chg_k bf_acc_work bf_coupling bf_grad].
  destruct k; rewrite ?map_app;
    repeat match goal with |- context [if ?x then _ else _] => destruct x end;
    cbn [map app andb]; rewrite ?map_map, ?app_nil_r; try reflexivity; try discriminate;
    try (destruct vs; reflexivity).
Qed.

Lemma flat_map_map_eq {A B C} (f : A -> list B) (g : A -> list C) (h : A -> B -> C) (l : list A) :
  (forall a, In a l -> map (h a) (f a) = g a) ->
  flat_map (fun a => map (h a) (f a)) l = flat_map g l.
Proof.
  induction l as [|a l IH]; intros H; cbn [flat_map]; [reflexivity|].
  rewrite H by (left; reflexivity). f_equal. apply IH. intros a' Ha'. apply H. right. exact Ha'.
Qed.

Lemma data_eq_expected : forall c, data_of c = expected_of c.
Proof.
  intros c. unfold data_of, expected_of. f_equal.
  - symmetry. apply flat_map_map_eq. intros f _. apply var_cols.
  - symmetry. apply (flat_map_map_eq bias_label bias_data (fun _ => bcol_src)).
    intros b _. apply bias_cols.
Qed.

Lemma expected_length : forall c, length (expected_of c) = length (labels_of c).
Proof.
  intros c. unfold expected_of, labels_of. rewrite !app_length. f_equal.
  - induction (c_vars c) as [|f l IH]; cbn [flat_map]; [reflexivity|]. rewrite !app_length, map_length, IH. reflexivity.
  - induction (c_biases c) as [|f l IH]; cbn [flat_map]; [reflexivity|]. rewrite !app_length, map_length, IH. reflexivity.
Qed.

(* ---- every data line against the most recent label line ---------------------------------------- *)
Fixpoint lines_ok (cur : option (list src)) (l : list tline) : Prop :=
  match l with
  | [] => True
  | LLabel cols m :: r => length m = length cols /\ lines_ok (Some m) r
  | LData _ f :: r => cur = Some f /\ lines_ok cur r
  end.

Fixpoint last_label (cur : option (list src)) (l : list tline) : option (list src) :=
  match l with
  | [] => cur
  | LLabel _ m :: r => last_label (Some m) r
  | LData _ _ :: r => last_label cur r
  end.

Lemma lines_ok_app : forall l1 l2 cur,
  lines_ok cur (l1 ++ l2) <-> lines_ok cur l1 /\ lines_ok (last_label cur l1) l2.
Proof.
  induction l1 as [|x l1 IH]; intros l2 cur; cbn [app lines_ok last_label].
  - tauto.
  - destruct x as [cols m|it f]; rewrite IH; tauto.
Qed.

Definition is_label (x : tline) : bool := match x with LLabel _ _ => true | _ => false end.

Lemma lines_ok_split : forall l cur pre it fields post,
  lines_ok cur l -> l = pre ++ LData it fields :: post ->
  (cur = Some fields /\ forallb (fun x => negb (is_label x)) pre = true) \/
  exists pre1 cols pre2, pre = pre1 ++ LLabel cols fields :: pre2 /\ length fields = length cols /\
                         forallb (fun x => negb (is_label x)) pre2 = true.
Proof.
  induction l as [|x l IH]; intros cur pre it fields post Hok Heq.
  - destruct pre; discriminate.
  - destruct pre as [|y pre].
    + cbn [app] in Heq. inversion Heq as [[Hx Hl]]. subst x. cbn [lines_ok] in Hok. left. split; [tauto|reflexivity].
    + cbn [app] in Heq. inversion Heq as [[Hx Hl]]. subst y.
      destruct x as [cols m|it' f]; cbn [lines_ok] in Hok.
      * destruct Hok as [Hlen Hok].
        destruct (IH (Some m) pre it fields post Hok Hl) as [[Hc Hp]|[pre1 [cols' [pre2 [Hp [Hlen' Hnl]]]]]].
        -- right. exists [], cols, pre. inversion Hc. subst m. cbn [app]. auto.
        -- right. exists (LLabel cols m :: pre1), cols', pre2. subst pre. cbn [app]. auto.
      * destruct Hok as [Hc Hok].
        destruct (IH cur pre it fields post Hok Hl) as [[Hc' Hp]|[pre1 [cols' [pre2 [Hp [Hlen' Hnl]]]]]].
        -- left. split; [exact Hc'|]. cbn [forallb is_label negb andb]. exact Hp.
        -- right. exists (LData it' f :: pre1), cols', pre2. subst pre. cbn [app]. auto.
Qed.

Local Open Scope Z_scope.

Lemma traj_run_app : forall evs1 evs2 s,
  traj_run s (evs1 ++ evs2) =
  let '(s1, l1) := traj_run s evs1 in let '(s2, l2) := traj_run s1 evs2 in (s2, l1 ++ l2).
Proof.
  induction evs1 as [|e evs1 IH]; intros evs2 s; cbn [app traj_run].
  - destruct (traj_run s evs2) as [s2 l2]. reflexivity.
  - destruct (traj_event s e) as [s1 l1]. rewrite IH.
    destruct (traj_run s1 evs1) as [s2 l2]. destruct (traj_run s2 evs2) as [s3 l3].
    rewrite app_assoc. reflexivity.
Qed.

Lemma traj_lines_inv : forall evs s cur,
  (t_labels s = true \/ cur = Some (expected_of (t_cfg s))) ->
  lines_ok cur (snd (traj_run s evs)).
Proof.
  induction evs as [|e evs IH]; intros s cur Hinv; cbn [traj_run snd]; [exact I|].
  destruct (traj_event s e) as [s1 l1] eqn:E1.
  specialize (IH s1).
  destruct (traj_run s1 evs) as [s2 l2] eqn:E2. cbn [snd] in *.
  apply lines_ok_app.
  destruct e as [it|c|c|f|it0]; cbn [traj_event] in *.
  - (* TCalc *)
    unfold traj_calc in E1.
    destruct (t_freq s =? 0) eqn:Ef.
    + inversion E1; subst s1 l1. cbn [lines_ok last_label]. split; [exact I|]. apply IH; assumption.
    + destruct ((it - t_it_restart s =? 0) || t_labels s || (it mod (t_freq s * 1000) =? 0))%bool eqn:El.
      * inversion E1; subst s1 l1. cbn [app].
        destruct (it mod t_freq s =? 0).
        -- cbn [app lines_ok last_label]. rewrite data_eq_expected.
           repeat split; try apply expected_length.
           apply IH; cbn [t_cfg t_labels]; auto.
        -- cbn [app lines_ok last_label]. repeat split; try apply expected_length.
           apply IH; cbn [t_cfg t_labels]; auto.
      * apply orb_false_iff in El. destruct El as [El _]. apply orb_false_iff in El. destruct El as [_ El].
        destruct Hinv as [Hinv|Hinv]; [congruence|].
        inversion E1; subst s1 l1. cbn [app].
        destruct (it mod t_freq s =? 0).
        -- cbn [lines_ok last_label]. rewrite data_eq_expected. split; [split; [assumption|exact I]|].
           apply IH; cbn [t_cfg t_labels]; auto.
        -- cbn [lines_ok last_label]. split; [exact I|]. apply IH; cbn [t_cfg t_labels]; auto.
  - inversion E1; subst s1 l1. cbn [lines_ok last_label]. split; [exact I|]. apply IH; cbn [t_cfg t_labels]; auto.
  - inversion E1; subst s1 l1. cbn [lines_ok last_label]. split; [exact I|]. apply IH; cbn [t_cfg t_labels]; auto.
  - inversion E1; subst s1 l1. cbn [lines_ok last_label]. split; [exact I|]. apply IH; cbn [t_cfg t_labels]; auto.
  - inversion E1; subst s1 l1. cbn [lines_ok last_label]. split; [exact I|]. apply IH; cbn [t_cfg t_labels]; auto.
Qed.

(* the statement in the form of the property text *)
Lemma columns_match_label : forall freq c evs pre it fields post,
  snd (traj_run (traj_init freq c) evs) = pre ++ LData it fields :: post ->
  exists pre1 cols pre2,
    pre = pre1 ++ LLabel cols fields :: pre2 /\ length fields = length cols /\
    forallb (fun x => negb (is_label x)) pre2 = true.
Proof.
  intros freq c evs pre it fields post Heq.
  pose proof (traj_lines_inv evs (traj_init freq c) None (or_introl eq_refl)) as Hok.
  destruct (lines_ok_split _ _ _ _ _ _ Hok Heq) as [[Habs _]|H]; [discriminate|exact H].
Qed.

(* every label line is the label of some configuration, with the documented meaning *)
Lemma labels_are_configs : forall evs s cols m,
  In (LLabel cols m) (snd (traj_run s evs)) -> exists c, cols = labels_of c /\ m = expected_of c.
Proof.
  induction evs as [|e evs IH]; intros s cols m Hin; cbn [traj_run snd] in Hin; [contradiction|].
  destruct (traj_event s e) as [s1 l1] eqn:E1. destruct (traj_run s1 evs) as [s2 l2] eqn:E2. cbn [snd] in Hin.
  apply in_app_or in Hin. destruct Hin as [Hin|Hin].
  - destruct e as [it|c|c|f|it0]; cbn [traj_event] in E1; try (inversion E1; subst; contradiction).
    unfold traj_calc in E1. destruct (t_freq s =? 0); [inversion E1; subst; contradiction|].
    inversion E1; subst s1 l1. apply in_app_or in Hin. destruct Hin as [Hin|Hin].
    + destruct ((it - t_it_restart s =? 0) || t_labels s || (it mod (t_freq s * 1000) =? 0))%bool; [|contradiction].
      destruct Hin as [Hin|[]]. inversion Hin. exists (t_cfg s). auto.
    + destruct (it mod t_freq s =? 0); [|contradiction]. destruct Hin as [Hin|[]]. discriminate.
  - apply (IH s1). rewrite E2. exact Hin.
Qed.

(* ---- which steps get a line --------------------------------------------------------------------- *)
Definition no_freq_change (e : tevent) : bool := match e with TFreq _ => false | _ => true end.

Lemma data_steps_app : forall l1 l2, data_steps (l1 ++ l2) = data_steps l1 ++ data_steps l2.
Proof. intros. unfold data_steps. apply flat_map_app. Qed.

Lemma traj_event_freq : forall s e s1 l1, no_freq_change e = true -> traj_event s e = (s1, l1) -> t_freq s1 = t_freq s.
Proof.
  intros s e s1 l1 He E. destruct e; cbn [traj_event no_freq_change] in *; try discriminate;
    try (inversion E; reflexivity).
  unfold traj_calc in E. destruct (t_freq s =? 0); inversion E; reflexivity.
Qed.

Lemma data_steps_filter : forall evs s,
  forallb no_freq_change evs = true -> t_freq s <> 0 ->
  data_steps (snd (traj_run s evs)) = filter (fun it => it mod t_freq s =? 0) (calc_steps evs).
Proof.
  induction evs as [|e evs IH]; intros s Hev Hf; cbn [traj_run snd]; [reflexivity|].
  cbn [forallb] in Hev. apply andb_true_iff in Hev. destruct Hev as [He Hev].
  destruct (traj_event s e) as [s1 l1] eqn:E1.
  pose proof (traj_event_freq _ _ _ _ He E1) as Hfr.
  specialize (IH s1 Hev). rewrite Hfr in IH. specialize (IH Hf).
  destruct (traj_run s1 evs) as [s2 l2] eqn:E2. cbn [snd] in *.
  rewrite data_steps_app, IH. unfold calc_steps. cbn [flat_map].
  destruct e as [it|c|c|f|it0]; cbn [traj_event no_freq_change] in *; try discriminate;
    try (inversion E1; subst; reflexivity).
  unfold traj_calc in E1. destruct (t_freq s =? 0) eqn:Ef; [apply Z.eqb_eq in Ef; contradiction|].
  inversion E1; subst s1 l1. rewrite data_steps_app. cbn [app filter].
  destruct ((it - t_it_restart s =? 0) || t_labels s || (it mod (t_freq s * 1000) =? 0))%bool;
    destruct (it mod t_freq s =? 0); reflexivity.
Qed.

(* a run: calc() at the consecutive steps s0, s0+1, ..., s0+n-1 *)
Definition run_steps (s0 : Z) (n : nat) : list Z := map (fun i => s0 + Z.of_nat i) (seq 0 n).
Definition run_events (s0 : Z) (n : nat) : list tevent := map TCalc (run_steps s0 n).

Lemma calc_steps_run : forall l, calc_steps (map TCalc l) = l.
Proof. induction l as [|a l IH]; [reflexivity|]. unfold calc_steps in *. cbn [map flat_map app]. rewrite IH. reflexivity. Qed.

Lemma run_events_nofreq : forall l, forallb no_freq_change (map TCalc l) = true.
Proof. induction l as [|a l IH]; [reflexivity|]. cbn [map forallb no_freq_change andb]. exact IH. Qed.

Lemma run_steps_nodup : forall s0 n, NoDup (run_steps s0 n).
Proof.
  intros s0 n. unfold run_steps. apply FinFun.Injective_map_NoDup; [|apply seq_NoDup].
  intros a b H. lia.
Qed.

Lemma NoDup_filter {A} (p : A -> bool) (l : list A) : NoDup l -> NoDup (filter p l).
Proof.
  induction 1 as [|a l Hn Hd IH]; cbn [filter]; [constructor|].
  destruct (p a); [constructor; [|exact IH]|exact IH]. intros Hin. apply filter_In in Hin. tauto.
Qed.

Lemma one_line_per_multiple : forall s s0 n,
  0 < t_freq s ->
  let steps := data_steps (snd (traj_run s (run_events s0 n))) in
  NoDup steps /\
  forall it, In it steps <-> (s0 <= it < s0 + Z.of_nat n /\ exists k, it = k * t_freq s).
Proof.
  intros s s0 n Hf steps. subst steps. unfold run_events.
  rewrite data_steps_filter by (try apply run_events_nofreq; lia).
  rewrite calc_steps_run. split.
  - apply NoDup_filter, run_steps_nodup.
  - intros it. rewrite filter_In. unfold run_steps. rewrite in_map_iff. split.
    + intros [[i [Hi Hin]] Hm]. apply in_seq in Hin. apply Z.eqb_eq in Hm. split; [lia|].
      exists (it / t_freq s). rewrite (Z.div_mod it (t_freq s)) at 1 by lia. lia.
    + intros [Hr [k Hk]]. split.
      * exists (Z.to_nat (it - s0)). split; [lia|]. apply in_seq. lia.
      * apply Z.eqb_eq. subst it. apply Z_mod_mult.
Qed.

Local Close Scope Z_scope.


(* =================================================================================================
   B, C. velocity and running average over R
   ================================================================================================= *)
From CV Require Import C19.OutputSpec.

(* steps 0,1,2,.. with the given values *)
Fixpoint hist_from {A} (t : nat) (xs : list A) : list (nat * A) :=
  match xs with [] => [] | x :: r => (t, x) :: hist_from (S t) r end.
Definition hist {A} (xs : list A) : list (nat * A) := hist_from 0 xs.

Lemma div_succ : forall s u, (1 <= s)%nat ->
  ((S u) mod s = 0 -> (S u) / s = S (u / s) /\ S u = (S (u / s)) * s)%nat /\
  ((S u) mod s <> 0 -> (S u) / s = u / s)%nat.
Proof.
  intros s u Hs.
  pose proof (Nat.div_mod_eq (S u) s) as H1. pose proof (Nat.div_mod_eq u s) as H2.
  pose proof (Nat.mod_upper_bound (S u) s ltac:(lia)) as H3. pose proof (Nat.mod_upper_bound u s ltac:(lia)) as H4.
  split; intros H.
  - rewrite H in H1. assert (Hq : (S u / s = S (u / s))%nat) by nia. split; [exact Hq|]. rewrite <- Hq. lia.
  - nia.
Qed.

Lemma mod_succ : forall s u, (1 <= s)%nat ->
  ((S u) mod s = if (S (u mod s) <? s) then S (u mod s) else 0)%nat.
Proof.
  intros s u Hs.
  pose proof (Nat.div_mod_eq u s) as H2. pose proof (Nat.mod_upper_bound u s ltac:(lia)) as H4.
  destruct (S (u mod s) <? s)%nat eqn:E.
  - apply Nat.ltb_lt in E. symmetry. apply (Nat.mod_unique _ _ (u / s)); lia.
  - apply Nat.ltb_ge in E. symmetry. apply (Nat.mod_unique _ _ (S (u / s))); lia.
Qed.

Lemma firstn_cons_firstn {A} (k : nat) (a : A) (l : list A) : firstn k (a :: firstn k l) = firstn k (a :: l).
Proof.
  destruct k as [|k]; [reflexivity|]. cbn [firstn]. f_equal.
  revert l. induction k as [|k IH]; intros l; [reflexivity|].
  destruct l as [|b l]; [reflexivity|]. cbn [firstn]. f_equal. apply IH.
Qed.

Section RealAnalysis.
  Local Open Scope R_scope.

  Lemma sumf_ext (f g : nat -> R) n : (forall j, (j < n)%nat -> f j = g j) -> sumf Rops f n = sumf Rops g n.
  Proof.
    induction n as [|n IH]; intros H; cbn [sumf]; [reflexivity|].
    rewrite IH by (intros j Hj; apply H; lia). rewrite H by lia. reflexivity.
  Qed.

  Lemma sumf_shift (g : nat -> R) n : sumf Rops g (S n) = g 0%nat + sumf Rops (fun j => g (S j)) n.
  Proof.
    induction n as [|n IH].
    - cbn [sumf Rops nadd n0]. ring.
    - change (sumf Rops g (S (S n))) with (sumf Rops g (S n) + g (S n)). rewrite IH.
      change (sumf Rops (fun j => g (S j)) (S n)) with (sumf Rops (fun j => g (S j)) n + g (S n)). ring.
  Qed.

  Lemma fold_sum (g : R -> R) (l : list R) (a : R) :
    fold_left (fun acc xi => acc + g xi) l a = a + sumf Rops (fun j => g (nth j l 0)) (length l).
  Proof.
    revert a. induction l as [|h r IH]; intros a.
    - cbn [fold_left length sumf Rops n0]. ring.
    - cbn [fold_left length]. rewrite IH, sumf_shift. cbn [nth]. ring.
  Qed.

  Lemma sumf_firstn (g : R -> R) (l : list R) k : (k <= length l)%nat ->
    sumf Rops (fun j => g (nth j (firstn k l) 0)) (length (firstn k l)) = sumf Rops (fun j => g (nth j l 0)) k.
  Proof.
    intros Hk. rewrite firstn_length_le by exact Hk. apply sumf_ext. intros j Hj.
    f_equal. rewrite <- (firstn_skipn k l) at 2. rewrite app_nth1; [reflexivity|]. rewrite firstn_length_le; assumption.
  Qed.

  (* ---- B. velocity ------------------------------------------------------------------------------ *)
  Fixpoint vel_spec (dt xprev : R) (xs : list R) : list R :=
    match xs with [] => [] | x :: r => (x - xprev) / dt :: vel_spec dt x r end.

  Lemma vel_run_from : forall dt xs t0 s, 0 < dt ->
    vel_run Rops dt s (Some t0) (hist_from (S t0) xs) = vel_spec dt (vs_xold s) xs.
  Proof.
    intros dt xs. induction xs as [|x xs IH]; intros t0 s Hdt; cbn [hist_from vel_run vel_spec]; [reflexivity|].
    cbv zeta. unfold vel_step. cbn [after_prev]. replace (t0 <? S t0)%nat with true by (symmetry; apply Nat.ltb_lt; lia).
    cbn [vs_vrep Rops nltb n0 n1 ndiv nmul nsub nofZ]. unfold nhalf. cbn [Rops ndiv n1 nofZ].
    destruct (Rltb_true 0 dt) as [_ Hlt]. rewrite (Hlt Hdt).
    f_equal.
    - field. lra.
    - rewrite IH by exact Hdt. reflexivity.
  Qed.

  Lemma vel_spec_nth : forall dt xs xprev i, (i < length xs)%nat ->
    nth i (vel_spec dt xprev xs) 0 = (nth i xs 0 - nth i (xprev :: xs) 0) / dt.
  Proof.
    intros dt xs. induction xs as [|x xs IH]; intros xprev i Hi; cbn [length] in Hi; [lia|].
    destruct i as [|i]; cbn [vel_spec nth]; [reflexivity|]. rewrite IH by lia. reflexivity.
  Qed.

  (* the value under "v_<name>" on the line of relative step t >= 1 is the backward difference *)
  Lemma velocity_is_backward_difference : forall dt s xs t, 0 < dt -> (1 <= t < length xs)%nat ->
    nth t (vel_run Rops dt s None (hist xs)) 0 = fd_velocity Rops dt xs t.
  Proof.
    intros dt s xs t Hdt Ht. destruct xs as [|x0 xs]; [cbn [length] in Ht; lia|].
    unfold hist. cbn [hist_from vel_run]. destruct t as [|t]; [lia|]. cbn [nth].
    cbv zeta. unfold vel_step. rewrite vel_run_from by exact Hdt. cbn [vs_xold].
    cbn [length] in Ht. rewrite vel_spec_nth by lia.
    unfold fd_velocity, xat. cbn [Rops ndiv nsub n0 nth]. replace (S t - 1)%nat with t by lia. reflexivity.
  Qed.

  (* a step computed twice (in-process run boundary) keeps the velocity of the first evaluation *)
  Lemma velocity_kept_on_repeated_step : forall dt s t x,
    vs_vrep (vel_step Rops dt s (Some (S t)) (S t) x) = vs_vrep s.
  Proof.
    intros. unfold vel_step. cbn [after_prev]. rewrite Nat.ltb_irrefl. reflexivity.
  Qed.

  (* ---- C. running average ------------------------------------------------------------------------ *)
  Section Runave.
    Variables (xs : list R) (L s it0 : nat).
    Hypothesis HL : (1 <= L)%nat.
    Hypothesis Hs : (1 <= s)%nat.

    Notation x_ := (xat Rops xs).

    (* the sampled values up to relative step t, newest first (the value of step 0 is not sampled) *)
    Fixpoint samples (t : nat) : list R :=
      match t with
      | 0%nat => []
      | S u => if ((S u) mod s =? 0)%nat then x_ (S u) :: samples u else samples u
      end.

    Lemma samples_spec : forall t,
      length (samples t) = (t / s)%nat /\
      forall j, (j < t / s)%nat -> nth j (samples t) 0 = x_ ((t / s) * s - j * s)%nat.
    Proof.
      induction t as [|u [IHl IHn]].
      - cbn [samples length]. rewrite Nat.div_0_l by lia. split; [reflexivity|]. intros j Hj. lia.
      - destruct (div_succ s u Hs) as [D1 D2]. cbn [samples].
        destruct ((S u) mod s =? 0)%nat eqn:E.
        + apply Nat.eqb_eq in E. destruct (D1 E) as [Hq Hm]. rewrite Hq. split.
          * cbn [length]. rewrite IHl. reflexivity.
          * intros j Hj. destruct j as [|j]; cbn [nth].
            -- f_equal. lia.
            -- rewrite IHn by lia. f_equal. nia.
        + apply Nat.eqb_neq in E. rewrite (D2 E). split; [exact IHl|exact IHn].
    Qed.

    Definition rline_spec (t : nat) : nat * R * R * R :=
      ((it0 + t)%nat, win_mean Rops xs L s t, win_var Rops xs L s t, sqrt (win_var Rops xs L s t)).

    Definition emits (t : nat) : bool := ((t mod s =? 0) && (L <=? t / s))%nat.

    Lemma runave_from : forall rest done t0 st,
      xs = done ++ rest -> length done = t0 -> (1 <= t0)%nat ->
      r_init st = true -> r_hist st = firstn (L - 1) (samples (t0 - 1)) ->
      runave_run Rops L s it0 st (Some (t0 - 1)%nat) (hist_from t0 rest) =
      flat_map (fun t => if emits t then [rline_spec t] else []) (seq t0 (length rest)).
    Proof.
      induction rest as [|x rest IH]; intros done t0 st Hxs Hlen Ht0 Hinit Hhist; cbn [hist_from runave_run length seq flat_map]; [reflexivity|].
      assert (Hx : x = x_ t0).
      { unfold xat. rewrite Hxs, app_nth2 by lia. replace (t0 - length done)%nat with 0%nat by lia. reflexivity. }
      destruct t0 as [|u]; [lia|]. replace (S u - 1)%nat with u in * by lia.
      destruct (samples_spec u) as [Sl Sn].
      destruct (div_succ s u Hs) as [D1 D2].
      unfold runave_step. rewrite Hinit. cbn [negb after_prev].
      replace (u <? S u)%nat with true by (symmetry; apply Nat.ltb_lt; lia). rewrite andb_true_r.
      unfold emits.
      destruct ((S u) mod s =? 0)%nat eqn:E.
      - apply Nat.eqb_eq in E. destruct (D1 E) as [Hq Hm]. cbn [andb].
        assert (Hlen_h : length (r_hist st) = Nat.min (L - 1) (u / s)).
        { rewrite Hhist, firstn_length, Sl. reflexivity. }
        assert (Hcond : (L - 1 <=? length (r_hist st))%nat = (L <=? S u / s)%nat).
        { rewrite Hlen_h, Hq. destruct (L <=? S (u / s))%nat eqn:E2.
          - apply Nat.leb_le in E2. apply Nat.leb_le. lia.
          - apply Nat.leb_gt in E2. apply Nat.leb_gt. lia. }
        rewrite Hcond.
        (* the state after this step *)
        assert (Hnew : firstn (L - 1) (x :: r_hist st) = firstn (L - 1) (samples (S u))).
        { rewrite Hhist, firstn_cons_firstn. cbn [samples]. rewrite E, Nat.eqb_refl, <- Hx. reflexivity. }
        destruct (L <=? S u / s)%nat eqn:E2.
        + apply Nat.leb_le in E2. rewrite Hq in E2.
          cbn [app]. f_equal.
          * (* the line *)
            unfold rline_spec.
            assert (Hk : (L - 1 <= length (samples u))%nat) by (rewrite Sl; lia).
            assert (Hav : nmul Rops (sumT Rops (r_hist st) x) (ndiv Rops (n1 Rops) (ofnat Rops L)) = win_mean Rops xs L s (S u)).
            { unfold sumT, win_mean. cbn [Rops nmul ndiv n1 nadd].
              change (fold_left Rplus (r_hist st) x) with (fold_left (fun acc xi => acc + (fun y => y) xi) (r_hist st) x).
              rewrite fold_sum, Hhist, (sumf_firstn (fun y => y)) by exact Hk.
              replace L with (S (L - 1)) at 3 by lia. rewrite sumf_shift.
              replace (S u - 0 * s)%nat with (S u) by lia. rewrite <- Hx.
              rewrite (sumf_ext (fun j => nth j (samples u) 0) (fun j => x_ (S u - S j * s)%nat)).
              2:{ intros j Hj. rewrite Sn by lia. f_equal. nia. }
              unfold Rdiv. ring. }
            rewrite Hav.
            assert (Hvar : nmul Rops (fold_left (fun acc xi => nadd Rops acc (d2 Rops xi (win_mean Rops xs L s (S u)))) (r_hist st)
                                         (nadd Rops (n0 Rops) (d2 Rops x (win_mean Rops xs L s (S u)))))
                                (ndiv Rops (n1 Rops) (ofnat Rops (L - 1))) = win_var Rops xs L s (S u)).
            { unfold win_var, d2, nsq. cbn [Rops nmul ndiv n1 nadd nsub n0].
              set (m := win_mean Rops xs L s (S u)).
              change (fold_left (fun acc xi => acc + (xi - m) * (xi - m)) (r_hist st) (0 + (x - m) * (x - m)))
                with (fold_left (fun acc xi => acc + (fun y => (y - m) * (y - m)) xi) (r_hist st) (0 + (x - m) * (x - m))).
              rewrite fold_sum, Hhist, (sumf_firstn (fun y => (y - m) * (y - m))) by exact Hk.
              replace L with (S (L - 1)) at 3 by lia. rewrite sumf_shift.
              replace (S u - 0 * s)%nat with (S u) by lia. rewrite <- Hx.
              rewrite (sumf_ext (fun j => (nth j (samples u) 0 - m) * (nth j (samples u) 0 - m))
                                (fun j => (x_ (S u - S j * s)%nat - m) * (x_ (S u - S j * s)%nat - m))).
              2:{ intros j Hj. rewrite Sn by lia. replace (u / s * s - j * s)%nat with (S u - S j * s)%nat by nia. reflexivity. }
              unfold Rdiv. ring. }
            rewrite Hvar. reflexivity.
          * change (Some (S u)) with (Some (S (S u) - 1)%nat).
            apply (IH (done ++ [x]) (S (S u))); try lia.
            -- rewrite <- app_assoc. exact Hxs.
            -- rewrite app_length. cbn [length]. lia.
            -- reflexivity.
            -- cbn [r_hist]. replace (S (S u) - 1)%nat with (S u) by lia. exact Hnew.
        + cbn [app].
          change (Some (S u)) with (Some (S (S u) - 1)%nat).
          apply (IH (done ++ [x]) (S (S u))); try lia.
          -- rewrite <- app_assoc. exact Hxs.
          -- rewrite app_length. cbn [length]. lia.
          -- reflexivity.
          -- cbn [r_hist]. replace (S (S u) - 1)%nat with (S u) by lia. exact Hnew.
      - cbn [andb app].
        change (Some (S u)) with (Some (S (S u) - 1)%nat).
        apply (IH (done ++ [x]) (S (S u))); try lia.
        + rewrite <- app_assoc. exact Hxs.
        + rewrite app_length. cbn [length]. lia.
        + exact Hinit.
        + replace (S (S u) - 1)%nat with (S u) by lia. cbn [samples]. rewrite E. exact Hhist.
    Qed.

    (* the whole file: one line for every relative step t = m s, m >= L, carrying the absolute step, the mean
       and the sample standard deviation of x(t), x(t-s), .., x(t-(L-1)s) *)
    Lemma runave_lines :
      runave_run Rops L s it0 (r0 (T:=R)) None (hist xs) =
      flat_map (fun t => if emits t then [rline_spec t] else []) (seq 1 (length xs - 1)).
    Proof.
      destruct xs as [|x0 rest] eqn:Exs; [reflexivity|].
      unfold hist. cbn [hist_from runave_run]. unfold runave_step at 1. cbn [r0 r_init negb app length].
      replace (S (length rest) - 1)%nat with (length rest) by lia.
      change (Some 0%nat) with (Some (1 - 1)%nat).
      apply (runave_from rest [x0] 1%nat); try lia; try reflexivity.
      - exact Exs.
      - cbn [r_hist samples Nat.sub]. destruct (L - 1)%nat; reflexivity.
    Qed.
  End Runave.
End RealAnalysis.

(* =================================================================================================
   D. time-correlation function over R
   ================================================================================================= *)
Lemma upd_nth_map_seq {A} (f f' : nat -> A) (p : nat) : forall n k0,
  (forall c, c <> p -> f' c = f c) -> (k0 <= p < k0 + n)%nat ->
  upd_nth (p - k0) (map f (seq k0 n)) (f' p) = map f' (seq k0 n).
Proof.
  induction n as [|n IH]; intros k0 Hf Hp; [lia|].
  cbn [seq map]. destruct (Nat.eq_dec p k0) as [->|Hne].
  - rewrite Nat.sub_diag. cbn [upd_nth]. f_equal. apply map_ext_in. intros c Hc. apply in_seq in Hc. symmetry. apply Hf. lia.
  - replace (p - k0)%nat with (S (p - S k0)) by lia. cbn [upd_nth]. rewrite (Hf k0) by lia. f_equal. apply IH; [exact Hf|lia].
Qed.

Lemma nth_map_seq {A} (f : nat -> A) (d : A) : forall n k0 c, (c < n)%nat -> nth c (map f (seq k0 n)) d = f (k0 + c)%nat.
Proof.
  induction n as [|n IH]; intros k0 c Hc; [lia|]. cbn [seq map]. destruct c as [|c]; cbn [nth].
  - f_equal. lia.
  - rewrite IH by lia. f_equal. lia.
Qed.

Lemma repeat_map_seq {A} (a : A) : forall n k0, repeat a n = map (fun _ => a) (seq k0 n).
Proof. induction n as [|n IH]; intros k0; [reflexivity|]. cbn [repeat seq map]. f_equal. apply IH. Qed.

Lemma nth_skipn' {A} (d : A) : forall k (l : list A) j, nth j (skipn k l) d = nth (k + j) l d.
Proof.
  induction k as [|k IH]; intros l j; [reflexivity|]. destruct l as [|a l]; cbn [skipn Nat.add nth].
  - destruct j; reflexivity.
  - apply IH.
Qed.

Lemma nth_firstn' {A} (d : A) : forall k (l : list A) i, (i < k)%nat -> nth i (firstn k l) d = nth i l d.
Proof.
  induction k as [|k IH]; intros l i Hi; [lia|]. destruct l as [|a l]; [reflexivity|].
  cbn [firstn]. destruct i as [|i]; [reflexivity|]. cbn [nth]. apply IH. lia.
Qed.

Section AcfR.
  Local Open Scope R_scope.
  Context {V : Type} (pair : V -> V -> R) (dflt : V).
  Variables (xi xj : list V) (len s off : nat).
  Hypothesis Hs : (1 <= s)%nat.

  Notation M := (len + off)%nat.
  Notation si := (vat dflt xi).
  Notation sj := (vat dflt xj).

  (* the values pushed on history list c up to step t, newest first: steps u <= t with (u-1) mod s = c *)
  Fixpoint strided (c t : nat) : list V :=
    match t with
    | 0%nat => []
    | S u => if (u mod s =? c)%nat then si (S u) :: strided c u else strided c u
    end.

  Lemma strided_general : forall t c, (c < s)%nat ->
    let n := length (strided c t) in
    (t <= c + n * s)%nat /\ ((1 <= n)%nat -> (c + (n - 1) * s < t)%nat) /\
    forall i, (i < n)%nat -> nth i (strided c t) dflt = si (S (c + (n - 1 - i) * s)).
  Proof.
    induction t as [|t IH]; intros c Hc; cbn zeta.
    - cbn [strided length]. repeat split; try lia.
    - specialize (IH c Hc). cbn zeta in IH. destruct IH as [B1 [B2 Bn]].
      cbn [strided]. destruct (t mod s =? c)%nat eqn:E.
      + apply Nat.eqb_eq in E. cbn [length]. set (n := length (strided c t)) in *.
        assert (Ht : t = (c + n * s)%nat).
        { pose proof (Nat.div_mod_eq t s) as Hd. rewrite E in Hd.
          destruct (Nat.eq_dec n 0) as [Hn|Hn]; [lia|]. specialize (B2 ltac:(lia)).
          assert (t / s = n)%nat by nia. nia. }
        repeat split; try nia.
        intros i Hi. destruct i as [|i]; cbn [nth].
        * f_equal. replace (S n - 1 - 0)%nat with n by lia. lia.
        * rewrite Bn by lia. f_equal. f_equal. f_equal. f_equal. lia.
      + apply Nat.eqb_neq in E. set (n := length (strided c t)) in *.
        assert (Hne : t <> (c + n * s)%nat).
        { intros Heq. apply E. rewrite Heq, Nat.mod_add by lia. apply Nat.mod_small. exact Hc. }
        repeat split; try lia. exact Bn.
  Qed.

  (* the list at the pointer when step t+1 is processed *)
  Lemma strided_ptr : forall t,
    let l := strided (t mod s) t in
    length l = (t / s)%nat /\ forall i, (i < t / s)%nat -> nth i l dflt = si (S t - (i + 1) * s)%nat.
  Proof.
    intros t. cbn zeta.
    pose proof (Nat.mod_upper_bound t s ltac:(lia)) as Hc.
    destruct (strided_general t (t mod s) Hc) as [B1 [B2 Bn]]. cbn zeta in *.
    set (n := length (strided (t mod s) t)) in *.
    pose proof (Nat.div_mod_eq t s) as Hd.
    assert (Hn : n = (t / s)%nat).
    { destruct (Nat.eq_dec n 0) as [Hn|Hn].
      - rewrite Hn in *. assert (t / s = 0)%nat by nia. lia.
      - specialize (B2 ltac:(lia)). nia. }
    split; [exact Hn|]. intros i Hi. rewrite Bn by lia. f_equal. rewrite Hn. nia.
  Qed.

  (* accumulators: lag of row k, term added at step u, sums after step t *)
  Definition lagof (k : nat) : nat := match k with 0%nat => 0%nat | S _ => ((off + k) * s)%nat end.
  Definition term (k u : nat) : R := pair (si (u - lagof k)%nat) (sj u).
  Fixpoint A (k t : nat) : R :=
    match t with
    | 0%nat => 0
    | S u => if (M * s <=? u)%nat then A k u + term k (S u) else A k u
    end.

  Lemma A_closed : forall k t, A k t = corr_sum Rops pair dflt xi xj (lagof k) (M * s + 1) (t - M * s).
  Proof.
    intros k. induction t as [|u IH].
    - reflexivity.
    - cbn [A]. destruct (M * s <=? u)%nat eqn:E.
      + apply Nat.leb_le in E. replace (S u - M * s)%nat with (S (u - M * s)) by lia.
        unfold corr_sum in *. cbn [sumf Rops nadd]. rewrite IH. unfold term. f_equal.
        replace (M * s + 1 + (u - M * s))%nat with (S u) by lia. reflexivity.
      + apply Nat.leb_gt in E. replace (S u - M * s)%nat with 0%nat by lia.
        rewrite IH. replace (u - M * s)%nat with 0%nat by lia. reflexivity.
  Qed.

  Lemma acc_pairs_seq : forall n k0 (f : nat -> R) (g : nat -> V) now,
    acc_pairs Rops pair now (map g (seq k0 n)) (map f (seq k0 n)) = map (fun k => f k + pair (g k) now) (seq k0 n).
  Proof.
    induction n as [|n IH]; intros k0 f g now; [reflexivity|]. cbn [seq map acc_pairs Rops nadd]. f_equal. apply IH.
  Qed.

  Definition inv (t : nat) (st : astate) : Prop :=
    a_hist st = map (fun c => firstn M (strided c t)) (seq 0 s) /\
    a_ptr st = (t mod s)%nat /\
    a_acf st = map (fun k => A k t) (seq 0 (S len)) /\
    a_n st = (t - M * s)%nat.

  Lemma inv_step : forall t st, inv t st ->
    inv (S t) (acf_step Rops pair len s off st (Some t) (S t) (si (S t)) (sj (S t))).
  Proof.
    intros t st [Hh [Hp [Ha Hn]]].
    unfold acf_step. rewrite Hh. destruct s as [|s'] eqn:Es; [lia|]. rewrite <- Es in *.
    assert (Hseq : seq 0 s = 0%nat :: seq 1 s') by (rewrite Es; reflexivity).
    rewrite Hseq at 1. cbn [map]. rewrite <- Hh.
    cbn [after_prev]. replace (t <? S t)%nat with true by (symmetry; apply Nat.ltb_lt; lia).
    pose proof (Nat.mod_upper_bound t s ltac:(lia)) as Hc.
    destruct (strided_ptr t) as [Sl Sn]. cbn zeta in Sl, Sn.
    assert (Hl : nth (a_ptr st) (a_hist st) [] = firstn M (strided (t mod s) t)).
    { rewrite Hp, Hh, nth_map_seq by exact Hc. reflexivity. }
    rewrite Hl.
    assert (Hlen : length (firstn M (strided (t mod s) t)) = Nat.min M (t / s)) by (rewrite firstn_length, Sl; reflexivity).
    assert (Hfull : (M <=? length (firstn M (strided (t mod s) t)))%nat = (M * s <=? t)%nat).
    { rewrite Hlen. pose proof (Nat.div_mod_eq t s) as Hd.
      destruct (M * s <=? t)%nat eqn:E.
      - apply Nat.leb_le in E. apply Nat.leb_le. assert (M <= t / s)%nat by nia. lia.
      - apply Nat.leb_gt in E. apply Nat.leb_gt. assert (t / s < M)%nat by nia. lia. }
    unfold acf_accumulate. rewrite Hfull.
    (* the new history and pointer do not depend on the accumulation *)
    assert (Hhist' : upd_nth (a_ptr st) (a_hist st) (firstn M (si (S t) :: firstn M (strided (t mod s) t))) =
                     map (fun c => firstn M (strided c (S t))) (seq 0 s)).
    { rewrite Hp, Hh, firstn_cons_firstn.
      pose proof (upd_nth_map_seq (fun c => firstn M (strided c t)) (fun c => firstn M (strided c (S t))) (t mod s) s 0) as HU.
      rewrite Nat.sub_0_r in HU. cbn beta in HU.
      assert (Hsame : firstn M (strided (t mod s) (S t)) = firstn M (si (S t) :: strided (t mod s) t)).
      { cbn [strided]. rewrite Nat.eqb_refl. reflexivity. }
      rewrite Hsame in HU. apply HU; [|lia].
      intros c Hne. cbn [strided]. destruct (t mod s =? c)%nat eqn:E; [apply Nat.eqb_eq in E; congruence|reflexivity]. }
    assert (Hptr' : (if (S (a_ptr st) <? length (a_hist st))%nat then S (a_ptr st) else 0%nat) = (S t mod s)%nat).
    { rewrite Hp, Hh, map_length, seq_length. symmetry. apply mod_succ. exact Hs. }
    destruct (M * s <=? t)%nat eqn:E.
    - apply Nat.leb_le in E.
      rewrite Ha. cbn [seq map].
      unfold inv. cbn [a_hist a_ptr a_acf a_n]. rewrite Hhist', Hptr'. repeat split; try lia.
      cbn [seq map A]. replace (M * s <=? t)%nat with true by (symmetry; apply Nat.leb_le; exact E).
      f_equal.
      + (* rows 1..len *)
        assert (Hsk : skipn off (firstn M (strided (t mod s) t)) = map (fun k => si (S t - lagof k)%nat) (seq 1 len)).
        { assert (HM : (M <= t / s)%nat).
          { pose proof (Nat.div_mod_eq t s). nia. }
          apply (nth_ext _ _ dflt dflt).
          - rewrite skipn_length, firstn_length, Sl, map_length, seq_length. lia.
          - intros j Hj. rewrite skipn_length, firstn_length, Sl in Hj.
            rewrite nth_skipn'.
            assert (Hj2 : (off + j < M)%nat) by lia.
            rewrite nth_map_seq by lia.
            rewrite nth_firstn' by exact Hj2.
            rewrite Sn by lia. f_equal. unfold lagof. replace (1 + j)%nat with (S j) by lia. nia. }
        rewrite Hsk, acc_pairs_seq. apply map_ext. intros k. reflexivity.
    - apply Nat.leb_gt in E.
      unfold inv. cbn [a_hist a_ptr a_acf a_n]. rewrite Hhist', Hptr'. repeat split; try lia.
      rewrite Ha. apply map_ext. intros k. cbn [A]. replace (M * s <=? t)%nat with false by (symmetry; apply Nat.leb_gt; exact E). reflexivity.
  Qed.

  Lemma inv_init : forall x y, inv 0 (acf_step Rops pair len s off (a0 (T:=R) (V:=V)) None 0 x y).
  Proof.
    intros x y. unfold acf_step, a0, inv. cbn [a_hist a_ptr a_acf a_n length].
    repeat split.
    - rewrite (repeat_map_seq [] s 0). apply map_ext. intros c. cbn [strided]. destruct M; reflexivity.
    - rewrite Nat.mod_0_l by lia. reflexivity.
    - replace (0 <? len + 1)%nat with true by (symmetry; apply Nat.ltb_lt; lia).
      cbn [app]. replace (len + 1 - 0)%nat with (S len) by lia.
      rewrite (repeat_map_seq (n0 Rops) (S len) 0). reflexivity.
  Qed.

  (* the history of a run: relative steps 0,1,..,n-1 with the two variables' quantities *)
  Fixpoint pair_hist (t : nat) (n : nat) : list (nat * (V * V)) :=
    match n with 0%nat => [] | S m => (t, (si t, sj t)) :: pair_hist (S t) m end.

  Lemma acf_run_from : forall n t st, inv t st ->
    inv (t + n) (acf_run Rops pair len s off st (Some t) (pair_hist (S t) n)).
  Proof.
    induction n as [|n IH]; intros t st Hinv; cbn [pair_hist acf_run].
    - replace (t + 0)%nat with t by lia. exact Hinv.
    - replace (t + S n)%nat with (S t + n)%nat by lia. apply IH. apply inv_step. exact Hinv.
  Qed.

  Lemma acf_run_inv : forall n, inv n (acf_run Rops pair len s off (a0 (T:=R) (V:=V)) None (pair_hist 0 (S n))).
  Proof.
    intros n. cbn [pair_hist acf_run]. apply (acf_run_from n 0). apply inv_init.
  Qed.

  (* what write_acf prints *)
  Definition row_value (normalize : bool) (N : nat) (k : nat) (t : nat) : R :=
    if normalize then A k t / A 0 t else A k t / INR N.

  Lemma acf_rows_seq : forall normalize norm nf n k0 (f : nat -> R),
    acf_rows Rops normalize s norm nf (off + k0) (map f (seq k0 n)) =
    map (fun k => ((s * (off + k))%nat, if normalize then f k / (norm * nf) else f k / nf)) (seq k0 n).
  Proof.
    induction n as [|n IH]; intros k0 f; [reflexivity|]. cbn [seq map acf_rows Rops ndiv nmul]. f_equal.
    replace (S (off + k0)) with (off + S k0)%nat by lia. apply IH.
  Qed.

  Lemma acf_written : forall normalize n,
    let st := acf_run Rops pair len s off (a0 (T:=R) (V:=V)) None (pair_hist 0 (S n)) in
    let N := (n - M * s)%nat in
    a_n st = N /\
    acf_write Rops normalize s off st =
      match N with
      | 0%nat => []
      | S _ => (0%nat, row_value normalize N 0 n) ::
               map (fun k => ((s * (off + k))%nat, row_value normalize N k n)) (seq 1 len)
      end.
  Proof.
    intros normalize n st N. destruct (acf_run_inv n) as [Hh [Hp [Ha Hn]]]. fold st in Hh, Hp, Ha, Hn.
    split; [exact Hn|]. unfold acf_write. rewrite Hn. fold N. destruct N as [|N'] eqn:EN; [reflexivity|].
    rewrite Ha. cbn [seq map hd].
    assert (Hnf : ofnat Rops (S N') = INR (S N')).
    { unfold ofnat. cbn [Rops nofZ]. rewrite <- INR_IZR_INZ. reflexivity. }
    assert (Hnz : INR (S N') <> 0) by (apply not_0_INR; lia).
    rewrite Hnf. cbn [Rops ndiv nmul n0].
    f_equal.
    - f_equal. unfold row_value. destruct normalize; [|reflexivity].
      f_equal. field. exact Hnz.
    - replace (S off) with (off + 1)%nat by lia. rewrite acf_rows_seq. apply map_ext. intros k.
      f_equal. unfold row_value. destruct normalize; [|reflexivity].
      f_equal. field. exact Hnz.
  Qed.
End AcfR.

(* =================================================================================================
   statements in the form used by Properties_C19.v
   ================================================================================================= *)
Section Statements.
  Local Open Scope R_scope.

  Lemma win_mean_R : forall xs L s t,
    win_mean Rops xs L s t = sumf Rops (fun j => nth (t - j * s) xs 0) L / INR L.
  Proof. intros. unfold win_mean, xat, ofnat. cbn [Rops ndiv nofZ n0]. rewrite <- INR_IZR_INZ. reflexivity. Qed.

  Lemma win_var_R : forall xs L s t,
    win_var Rops xs L s t =
    sumf Rops (fun j => (nth (t - j * s) xs 0 - win_mean Rops xs L s t) * (nth (t - j * s) xs 0 - win_mean Rops xs L s t)) L
      / INR (L - 1).
  Proof. intros. unfold win_var, xat, ofnat, nsq. cbn [Rops ndiv nofZ n0 nsub nmul]. rewrite <- INR_IZR_INZ. reflexivity. Qed.

  Lemma emits_iff : forall L s t, (1 <= s)%nat -> emits L s t = true <-> (t mod s = 0 /\ L * s <= t)%nat.
  Proof.
    intros L s t Hs. unfold emits. rewrite andb_true_iff, Nat.eqb_eq, Nat.leb_le.
    pose proof (Nat.div_mod_eq t s). pose proof (Nat.mod_upper_bound t s ltac:(lia)).
    split; intros [H1 H2]; split; try exact H1; nia.
  Qed.

  (* every line of the running-average file, and nothing else *)
  Lemma runave_line_iff : forall xs L s it0, (1 <= L)%nat -> (1 <= s)%nat ->
    forall step av var sd,
      In (step, av, var, sd) (runave_run Rops L s it0 (r0 (T:=R)) None (hist xs)) <->
      exists t, (1 <= t < length xs /\ t mod s = 0 /\ L * s <= t)%nat /\
                step = (it0 + t)%nat /\
                av = sumf Rops (fun j => nth (t - j * s) xs 0) L / INR L /\
                var = sumf Rops (fun j => (nth (t - j * s) xs 0 - av) * (nth (t - j * s) xs 0 - av)) L / INR (L - 1) /\
                sd = sqrt var.
  Proof.
    intros xs L s it0 HL Hs step av var sd. rewrite (runave_lines xs L s it0 HL Hs), in_flat_map. split.
    - intros [t [Hin Ht]]. apply in_seq in Hin. destruct (emits L s t) eqn:E; [|contradiction].
      destruct Ht as [Ht|[]]. unfold rline_spec in Ht. inversion Ht; subst.
      apply emits_iff in E; [|exact Hs]. exists t. repeat split; try lia.
      + apply win_mean_R.
      + apply win_var_R.
    - intros [t [[Hr [Hm Hl]] [-> [Hav [Hvar ->]]]]]. exists t. split; [apply in_seq; lia|].
      replace (emits L s t) with true by (symmetry; apply emits_iff; [exact Hs|split; assumption]).
      left. unfold rline_spec. rewrite <- win_mean_R in Hav. subst av. rewrite <- win_var_R in Hvar. subst var. reflexivity.
  Qed.

  Lemma runave_steps_nodup : forall xs L s it0, (1 <= L)%nat -> (1 <= s)%nat ->
    NoDup (map (fun l : nat * R * R * R => fst (fst (fst l))) (runave_run Rops L s it0 (r0 (T:=R)) None (hist xs))).
  Proof.
    intros xs L s it0 HL Hs. rewrite (runave_lines xs L s it0 HL Hs).
    generalize (seq_NoDup (length xs - 1) 1). generalize (seq 1 (length xs - 1)) as l.
    induction l as [|t l IH]; intros Hnd; cbn [flat_map map]; [constructor|].
    inversion Hnd as [|? ? Hnot Hnd']; subst. specialize (IH Hnd').
    destruct (emits L s t); cbn [app map]; [|exact IH].
    constructor; [|exact IH]. cbn [rline_spec fst]. intros Hin. apply in_map_iff in Hin.
    destruct Hin as [[[[st av] var] sd] [Heq Hin]]. cbn [fst] in Heq. apply in_flat_map in Hin.
    destruct Hin as [t' [Hin' Hl]]. destruct (emits L s t'); [|contradiction]. destruct Hl as [Hl|[]].
    unfold rline_spec in Hl. inversion Hl; subst. assert (t' = t) by lia. subst. contradiction.
  Qed.

  (* a step computed twice leaves the analyses untouched *)
  Lemma runave_repeated_step : forall L s it0 st t x, r_init st = true ->
    runave_step Rops L s it0 st (Some t) t x = (st, None).
  Proof.
    intros L s it0 st t x Hi. unfold runave_step. rewrite Hi. cbn [negb after_prev]. rewrite Nat.ltb_irrefl, andb_false_r. reflexivity.
  Qed.

  Lemma acf_repeated_step : forall (V : Type) (pair : V -> V -> R) len s off st t x y, a_hist st <> [] ->
    acf_step Rops pair len s off st (Some t) t x y = st.
  Proof.
    intros V pair len s off st t x y Hh. unfold acf_step. destruct (a_hist st) as [|l r]; [congruence|].
    cbn [after_prev]. rewrite Nat.ltb_irrefl. reflexivity.
  Qed.

  (* correlation function file for the three correlation types *)
  Lemma acf_model_written : forall (ty : acf_type) (normalize : bool) (len s off : nat) (xi xj : list (list R)) (n : nat), (1 <= s)%nat ->
    let M := (len + off)%nat in
    let N := (n - M * s)%nat in
    let S_ k := corr_sum Rops (acf_pair Rops ty) [] xi xj (lagof s off k) (M * s + 1) N in
    let row k := if normalize then S_ k / S_ 0%nat else S_ k / INR N in
    acf_model Rops ty normalize len s off (pair_hist [] xi xj 0 (S n)) =
      (match N with
       | 0%nat => []
       | S _ => (0%nat, row 0%nat) :: map (fun k => ((s * (off + k))%nat, row k)) (seq 1 len)
       end, N).
  Proof.
    intros ty normalize len s off xi xj n Hs M N S_ row. unfold acf_model.
    destruct (acf_written (acf_pair Rops ty) [] xi xj len s off Hs normalize n) as [Hn Hw]. cbn zeta in Hn, Hw.
    rewrite Hw, Hn. fold M. fold N. f_equal.
    destruct N as [|N'] eqn:EN; [reflexivity|].
    unfold row_value. f_equal.
    - f_equal. unfold row, S_. rewrite !A_closed by exact Hs. fold M. rewrite <- EN. reflexivity.
    - apply map_ext. intros k. f_equal. unfold row, S_. rewrite !A_closed by exact Hs. fold M. rewrite <- EN. reflexivity.
  Qed.
End Statements.

(* ---- computable sanity instances (exact rationals; the square-root slot is the identity) ------- *)
Definition Qltb (a b : Q) : bool := match Qcompare a b with Lt => true | _ => false end.
Definition Qleb (a b : Q) : bool := match Qcompare a b with Gt => false | _ => true end.
Definition Qops : NumOps Q :=
  mkNumOps Q 0%Q 1%Q (fun a b => Qred (a + b)) (fun a b => Qred (a - b)) (fun a b => Qred (a * b))
           (fun a b => Qred (a / b)) (fun a => Qred (- a))
           (fun a => a) (fun a => a) (fun a => a) (fun a => a) (fun a => a) (fun a => a)
           (fun a _ => a) (fun a _ => a) inject_Z Qfloor Qltb Qleb Qeq_bool.

Section Instances.
  Local Open Scope Q_scope.
  (* window 3 over 1,2,4,8,16 (first step 10): lines at steps 13 and 14, means 14/3 and 28/3, sample variances 28/3, 112/3 *)
  Lemma runave_instance :
    runave_run Qops 3 1 10 (r0 (T:=Q)) None (hist [1; 2; 4; 8; 16]) =
      [(13%nat, 14 # 3, 28 # 3, 28 # 3); (14%nat, 28 # 3, 112 # 3, 112 # 3)].
  Proof. vm_compute. reflexivity. Qed.

  (* x = 1,2,4,8,16,32, coordinate autocorrelation, length 1, stride 1, offset 1, normalised: 4 time origins
     (steps 3..5 have a full window of 2 stored values... ) rows: lag 0 -> 1, lag 2 -> 1/4 *)
  Lemma acf_instance :
    acf_model Qops AcfCoor true 1 1 1 (hist (map (fun v : list Q => (v, v)) [[1]; [2]; [4]; [8]; [16]; [32]])) =
      ([(0%nat, 1); (2%nat, 1 # 4)], 3%nat).
  Proof. vm_compute. reflexivity. Qed.

  (* cross-correlation <x_i(t0) x_j(t0 + 1)> of x_i = 1,1,1,.. with x_j = 1,2,4,..: (4+8+16+32)/4 = 15; lag 0: (2+4+8+16)/4 *)
  Lemma acf_cross_instance :
    acf_model Qops AcfCoor false 1 1 0 (hist (map (fun v : list Q => ([1], v)) [[1]; [2]; [4]; [8]; [16]; [32]])) =
      ([(0%nat, 15); (1%nat, 15)], 4%nat).
  Proof. vm_compute. reflexivity. Qed.
End Instances.

(* =================================================================================================
   C'. running average: any value type, analysis starting at any relative step t0
   ================================================================================================= *)
Lemma sumf_split_first (g : nat -> R) n : (1 <= n)%nat ->
  sumf Rops g n = (g 0%nat + sumf Rops (fun j => g (S j)) (n - 1))%R.
Proof. intros Hn. destruct n as [|n]; [lia|]. replace (S n - 1)%nat with n by lia. apply sumf_shift. Qed.

Section RunaveAny.
  Local Open Scope R_scope.
  Context {V : Type} (P : @vops R V) (dflt : V).
  Variables (xs : list V) (L s it0 t0 : nat).
  Hypothesis HL : (1 <= L)%nat.
  Hypothesis Hs : (1 <= s)%nat.
  Notation x_ := (xatV dflt xs).

  (* sampled values up to relative step t, newest first: steps u in (t0, t] on the stride grid (the value of the
     step at which the analysis starts, t0, is not sampled) *)
  Fixpoint samplesV (t : nat) : list V :=
    match t with
    | 0%nat => []
    | S u => if ((t0 <? S u) && ((S u) mod s =? 0))%nat then x_ (S u) :: samplesV u else samplesV u
    end.

  Lemma samplesV_spec : forall t,
    length (samplesV t) = (t / s - t0 / s)%nat /\
    forall j, (j < t / s - t0 / s)%nat -> nth j (samplesV t) dflt = x_ ((t / s) * s - j * s)%nat.
  Proof.
    induction t as [|u [IHl IHn]].
    - cbn [samplesV length]. rewrite Nat.div_0_l by lia. split; [reflexivity|]. intros j Hj. lia.
    - destruct (div_succ s u Hs) as [D1 D2]. cbn [samplesV].
      destruct ((S u) mod s =? 0)%nat eqn:E.
      + apply Nat.eqb_eq in E. destruct (D1 E) as [Hq Hm]. rewrite Hq.
        destruct (t0 <? S u)%nat eqn:E0; cbn [andb].
        * apply Nat.ltb_lt in E0.
          assert (Hle : (t0 / s <= u / s)%nat) by (apply Nat.div_le_mono; lia).
          split.
          -- cbn [length]. rewrite IHl. lia.
          -- intros j Hj. destruct j as [|j]; cbn [nth].
             ++ f_equal. lia.
             ++ rewrite IHn by lia. f_equal. nia.
        * apply Nat.ltb_ge in E0.
          assert (Hle : (S (u / s) <= t0 / s)%nat).
          { rewrite <- Hq. apply Nat.div_le_mono; lia. }
          split; [rewrite IHl; lia|]. intros j Hj. lia.
      + apply Nat.eqb_neq in E. rewrite (D2 E), andb_false_r. split; [exact IHl|exact IHn].
  Qed.

  Definition rlineV_spec (t : nat) : nat * V * R * R :=
    ((it0 + t)%nat, win_meanV Rops P dflt xs L s t, win_varV Rops P dflt xs L s t, sqrt (win_varV Rops P dflt xs L s t)).
  (* a line at t: on the stride grid, with L sampled steps t, t-s, .., t-(L-1)s all after t0 *)
  Definition emitsV (t : nat) : bool := ((t mod s =? 0) && (L <=? t / s - t0 / s))%nat.

  Lemma fold_sum_map_seq {A} (g : A -> R) (f : nat -> A) : forall n k0 a,
    fold_left (fun acc xi => acc + g xi) (map f (seq k0 n)) a = a + sumf Rops (fun j => g (f (k0 + j)%nat)) n.
  Proof.
    induction n as [|n IH]; intros k0 a.
    - cbn [seq map fold_left sumf Rops n0]. ring.
    - cbn [seq map fold_left]. rewrite IH, sumf_shift. rewrite Nat.add_0_r.
      rewrite (sumf_ext (fun j => g (f (S k0 + j)%nat)) (fun j => g (f (k0 + S j)%nat))).
      2:{ intros j _. do 2 f_equal. lia. }
      ring.
  Qed.

  Lemma runaveV_from : forall rest done t st,
    xs = done ++ rest -> length done = t -> (t0 < t)%nat ->
    rv_init st = true -> rv_hist st = firstn (L - 1) (samplesV (t - 1)) ->
    runaveV_run Rops P L s it0 st (Some (t - 1)%nat) (hist_from t rest) =
    flat_map (fun u => if emitsV u then [rlineV_spec u] else []) (seq t (length rest)).
  Proof.
    induction rest as [|x rest IH]; intros done t st Hxs Hlen Ht Hinit Hhist; cbn [hist_from runaveV_run length seq flat_map]; [reflexivity|].
    assert (Hx : x = x_ t).
    { unfold xatV. rewrite Hxs, app_nth2 by lia. replace (t - length done)%nat with 0%nat by lia. reflexivity. }
    destruct t as [|u]; [lia|]. replace (S u - 1)%nat with u in * by lia.
    destruct (samplesV_spec u) as [Sl Sn].
    destruct (div_succ s u Hs) as [D1 D2].
    unfold runaveV_step. rewrite Hinit. cbn [negb after_prev].
    replace (u <? S u)%nat with true by (symmetry; apply Nat.ltb_lt; lia). rewrite andb_true_r.
    unfold emitsV.
    assert (Hrec : forall st', rv_init st' = true -> rv_hist st' = firstn (L - 1) (samplesV (S u)) ->
              runaveV_run Rops P L s it0 st' (Some (S u)) (hist_from (S (S u)) rest) =
              flat_map (fun u0 => if ((u0 mod s =? 0) && (L <=? u0 / s - t0 / s))%nat then [rlineV_spec u0] else []) (seq (S (S u)) (length rest))).
    { intros st' Hi' Hh'. change (Some (S u)) with (Some (S (S u) - 1)%nat).
      apply (IH (done ++ [x]) (S (S u))); try lia.
      - rewrite <- app_assoc. exact Hxs.
      - rewrite app_length. cbn [length]. lia.
      - exact Hi'.
      - replace (S (S u) - 1)%nat with (S u) by lia. exact Hh'. }
    destruct ((S u) mod s =? 0)%nat eqn:E.
    - apply Nat.eqb_eq in E. destruct (D1 E) as [Hq Hm]. cbn [andb].
      assert (Hle : (t0 / s <= u / s)%nat) by (apply Nat.div_le_mono; lia).
      assert (Hlen_h : length (rv_hist st) = Nat.min (L - 1) (u / s - t0 / s)).
      { rewrite Hhist, firstn_length, Sl. reflexivity. }
      assert (Hcond : (L - 1 <=? length (rv_hist st))%nat = (L <=? S u / s - t0 / s)%nat).
      { rewrite Hlen_h, Hq. destruct (L <=? S (u / s) - t0 / s)%nat eqn:E2.
        - apply Nat.leb_le in E2. apply Nat.leb_le. lia.
        - apply Nat.leb_gt in E2. apply Nat.leb_gt. lia. }
      rewrite Hcond.
      assert (Hnew : firstn (L - 1) (x :: rv_hist st) = firstn (L - 1) (samplesV (S u))).
      { rewrite Hhist, firstn_cons_firstn. cbn [samplesV]. rewrite E, Nat.eqb_refl.
        replace (t0 <? S u)%nat with true by (symmetry; apply Nat.ltb_lt; lia). cbn [andb]. rewrite <- Hx. reflexivity. }
      destruct (L <=? S u / s - t0 / s)%nat eqn:E2.
      + apply Nat.leb_le in E2. rewrite Hq in E2. cbn [app]. f_equal.
        * unfold rlineV_spec.
          assert (Hwin : rv_hist st = map (fun j => x_ (S u - j * s)%nat) (seq 1 (L - 1))).
          { rewrite Hhist. apply (nth_ext _ _ dflt dflt).
            - rewrite firstn_length, Sl, map_length, seq_length. lia.
            - intros j Hj. rewrite firstn_length, Sl in Hj.
              rewrite nth_firstn' by lia. rewrite nth_map_seq by lia. rewrite Sn by lia. f_equal. nia. }
          assert (Hav : vo_constrain P (vo_scale P (ndiv Rops (n1 Rops) (ofnat Rops L)) (fold_left (vo_add P) (map (vo_near P x) (rv_hist st)) x)) =
                        win_meanV Rops P dflt xs L s (S u)).
          { unfold win_meanV, win_sumV. rewrite Hwin, map_map, <- Hx. reflexivity. }
          rewrite Hav.
          set (m := win_meanV Rops P dflt xs L s (S u)).
          assert (Hvar : nmul Rops (fold_left (fun acc xi => nadd Rops acc (vo_dist2 P xi m)) (rv_hist st)
                                       (nadd Rops (n0 Rops) (vo_dist2 P x m)))
                              (ndiv Rops (n1 Rops) (ofnat Rops (L - 1))) = win_varV Rops P dflt xs L s (S u)).
          { unfold win_varV. fold m. cbn [Rops nmul ndiv n1 nadd n0].
            rewrite Hwin, (fold_sum_map_seq (fun xi => vo_dist2 P xi m)).
            rewrite (sumf_split_first (fun j => vo_dist2 P (x_ (S u - j * s)%nat) m) L HL).
            replace (S u - 0 * s)%nat with (S u) by lia. rewrite <- Hx.
            change (fun j : nat => vo_dist2 P (x_ (S u - (1 + j) * s)%nat) m) with (fun j : nat => vo_dist2 P (x_ (S u - S j * s)%nat) m).
            unfold Rdiv. ring. }
          rewrite Hvar. reflexivity.
        * apply Hrec; [reflexivity|exact Hnew].
      + cbn [app]. apply Hrec; [reflexivity|exact Hnew].
    - cbn [andb app]. apply Hrec; [exact Hinit|]. cbn [samplesV]. rewrite E, andb_false_r. exact Hhist.
  Qed.

  (* the analysis starts at relative step t0 (0 for a variable defined from the beginning; any step when the
     variable is defined later): values x(t0), x(t0+1), ..; first call initialises *)
  Lemma runaveV_lines : (t0 < length xs)%nat ->
    runaveV_run Rops P L s it0 (rv0 (V:=V)) None (hist_from t0 (skipn t0 xs)) =
    flat_map (fun u => if emitsV u then [rlineV_spec u] else []) (seq (S t0) (length xs - S t0)).
  Proof.
    intros Ht0.
    assert (Hsplit : xs = firstn t0 xs ++ skipn t0 xs) by (symmetry; apply firstn_skipn).
    destruct (skipn t0 xs) as [|x0 rest] eqn:Esk.
    { exfalso. assert (length (skipn t0 xs) = 0%nat) by (rewrite Esk; reflexivity). rewrite skipn_length in H. lia. }
    cbn [hist_from runaveV_run]. unfold runaveV_step at 1. cbn [rv0 rv_init negb app].
    assert (Hlr : length rest = (length xs - S t0)%nat).
    { assert (length (skipn t0 xs) = S (length rest)) by (rewrite Esk; reflexivity). rewrite skipn_length in H. lia. }
    rewrite <- Hlr.
    replace (Some t0) with (Some (S t0 - 1)%nat) by (f_equal; lia).
    apply (runaveV_from rest (firstn t0 xs ++ [x0]) (S t0)); try lia.
    - rewrite <- app_assoc. exact Hsplit.
    - rewrite app_length, firstn_length_le by lia. cbn [length]. lia.
    - reflexivity.
    - cbn [rv_hist]. replace (S t0 - 1)%nat with t0 by lia.
      assert (Hz : samplesV t0 = []).
      { destruct (samplesV_spec t0) as [Sl _]. rewrite Nat.sub_diag in Sl. destruct (samplesV t0); [reflexivity|discriminate]. }
      rewrite Hz. destruct (L - 1)%nat; reflexivity.
  Qed.

  Lemma emitsV_iff : forall t, emitsV t = true <-> (t mod s = 0 /\ t0 / s * s + L * s <= t)%nat.
  Proof.
    intros t. unfold emitsV. rewrite andb_true_iff, Nat.eqb_eq, Nat.leb_le.
    pose proof (Nat.div_mod_eq t s). pose proof (Nat.mod_upper_bound t s ltac:(lia)).
    split; intros [H1 H2]; split; try exact H1; nia.
  Qed.
End RunaveAny.

(* the periodic metric used for the deviations: the image of smallest absolute value *)
Lemma pimage_min_image : forall p d : R, (0 < p)%R ->
  exists k : Z, (pimage Rops p d = d - IZR k * p /\ - p / 2 <= d - IZR k * p < p / 2)%R.
Proof.
  intros p d Hp. unfold pimage, nhalf. cbn [Rops nsub nmul nofZ nfloor nadd ndiv n1].
  set (k := Flocq.Core.Raux.Zfloor (d / p + 1 / 2)). exists k. split; [reflexivity|].
  pose proof (Flocq.Core.Raux.Zfloor_lb (d / p + 1 / 2)) as Hl. pose proof (Flocq.Core.Raux.Zfloor_ub (d / p + 1 / 2)) as Hu. fold k in Hl, Hu.
  assert (Hd : (d = d / p * p)%R) by (field; lra).
  split.
  - assert ((IZR k - 1 / 2) * p <= d / p * p)%R by (apply Rmult_le_compat_r; lra). lra.
  - assert (d / p * p < (IZR k + 1 / 2) * p)%R by (apply Rmult_lt_compat_r; lra). lra.
Qed.

(* periodic scalars, period 8 wrapped around 0: the values 7/2 and -7/2 are one unit apart across the boundary;
   window 2: the average is -4 (= 4 modulo the period), squared deviations 1/4 each, sample variance 1/2 *)
Lemma runave_periodic_instance :
  let P := lv_ops Qops (KPeriodic 8%Q 0%Q) in
  runaveV_run Qops P 2 1 0 (rv0 (V:=list Q)) None (hist [[0]; [7 # 2]; [- 7 # 2]]%Q) =
    [(2%nat, [(-4)%Q], (1 # 2)%Q, (1 # 2)%Q)].
Proof. vm_compute. reflexivity. Qed.

(* what enters the periodic average for an older value xi when the current value is x: the image of xi within half a
   period of x *)
Lemma periodic_near_image : forall p c x xi : R, (0 < p)%R ->
  exists (k : Z) (y : R), lv_near Rops (KPeriodic p c) [x] [xi] = [y] /\ (y = xi - IZR k * p /\ - p / 2 <= y - x < p / 2)%R.
Proof.
  intros p c x xi Hp. destruct (pimage_min_image p (xi - x) Hp) as [k [Hk Hr]].
  exists k, (x + pimage Rops p (xi - x))%R. split.
  - unfold lv_near, nhalf. cbn [hd Rops nadd nmul nofZ nsub ndiv n1 n0]. f_equal. field.
  - rewrite Hk. split; lra.
Qed.

(* the reported periodic average is wrapped into [c - p/2, c + p/2) and is congruent to the plain value *)
Lemma periodic_constrain_wraps : forall p c m : R, (0 < p)%R ->
  exists (k : Z) (y : R), lv_constrain Rops (KPeriodic p c) [m] = [y] /\ (y = m - IZR k * p /\ c - p / 2 <= y < c + p / 2)%R.
Proof.
  intros p c m Hp. destruct (pimage_min_image p (m - c) Hp) as [k [Hk Hr]].
  exists k, (m - IZR k * p)%R. split.
  - unfold lv_constrain, nhalf. cbn [Rops nsub nmul nofZ nfloor nadd ndiv n1].
    unfold pimage, nhalf in Hk. cbn [Rops nsub nmul nofZ nfloor nadd ndiv n1] in Hk.
    f_equal. assert (IZR (Flocq.Core.Raux.Zfloor ((m - c) / p + 1 / 2)) * p = IZR k * p)%R by lra.
    lra.
  - split; lra.
Qed.

(* =================================================================================================
   E. which steps write the state file, the variables' files and the biases' files
   ================================================================================================= *)
Lemma NoDup_app_last {A} (l : list A) (a : A) : NoDup l -> ~ In a l -> NoDup (l ++ [a]).
Proof.
  induction l as [|b l IH]; intros Hnd Hn; cbn [app].
  - constructor; [intros []|constructor].
  - inversion Hnd as [|? ? Hb Hl]; subst. constructor.
    + intros Hin. apply in_app_or in Hin. destruct Hin as [Hin|[Hin|[]]]; [contradiction|]. apply Hn. left. symmetry. exact Hin.
    + apply IH; [exact Hl|]. intros Hin. apply Hn. right. exact Hin.
Qed.

Section OutputSchedule.
  Local Open Scope Z_scope.

  Lemma writes_of_app : forall k l1 l2, writes_of k (l1 ++ l2) = writes_of k l1 ++ writes_of k l2.
  Proof. intros. unfold writes_of. apply flat_map_app. Qed.

  Lemma writes_of_bias_list_other : forall k it (g : Z * Z -> bool) l,
    (forall b, k <> FBias b) ->
    writes_of k (map (fun f => (it, f)) (flat_map (fun bf : Z * Z => if g bf then [FBias (fst bf)] else []) l)) = [].
  Proof.
    intros k it g l Hk. induction l as [|bf l IH]; [reflexivity|]. cbn [flat_map]. rewrite map_app, writes_of_app, IH, app_nil_r.
    destruct (g bf); [|reflexivity]. cbn [map writes_of flat_map snd fst app].
    destruct k; cbn [ofile_eqb]; try reflexivity. exfalso. apply (Hk b). reflexivity.
  Qed.

  Lemma writes_of_bias_list : forall b f it (g : Z * Z -> bool) l,
    NoDup (map fst l) -> In (b, f) l ->
    writes_of (FBias b) (map (fun x => (it, x)) (flat_map (fun bf : Z * Z => if g bf then [FBias (fst bf)] else []) l)) =
    if g (b, f) then [it] else [].
  Proof.
    intros b f it g l. induction l as [|bf l IH]; intros Hnd Hin; [contradiction|].
    cbn [map] in Hnd. inversion Hnd as [|? ? Hnot Hnd']; subst.
    cbn [flat_map]. rewrite map_app, writes_of_app.
    destruct Hin as [Heq|Hin].
    - subst bf. cbn [fst] in Hnot.
      assert (Hrest : writes_of (FBias b) (map (fun x => (it, x)) (flat_map (fun bf : Z * Z => if g bf then [FBias (fst bf)] else []) l)) = []).
      { clear IH Hnd Hnd'. induction l as [|bf' l IHl]; [reflexivity|]. cbn [flat_map]. rewrite map_app, writes_of_app.
        cbn [map] in Hnot. rewrite IHl by (intros H; apply Hnot; right; exact H). rewrite app_nil_r.
        destruct (g bf'); [|reflexivity]. cbn [map writes_of flat_map snd fst app ofile_eqb].
        destruct (fst bf' =? b) eqn:E; [|reflexivity]. apply Z.eqb_eq in E. exfalso. apply Hnot. left. exact E. }
      rewrite Hrest, app_nil_r. destruct (g (b, f)); [|reflexivity].
      cbn [map writes_of flat_map snd fst app ofile_eqb]. rewrite Z.eqb_refl. reflexivity.
    - rewrite (IH Hnd' Hin).
      assert (Hne : fst bf <> b).
      { intros Heq. apply Hnot. rewrite Heq. change b with (fst (b, f)). apply in_map. exact Hin. }
      destruct (g bf); [|reflexivity]. cbn [map writes_of flat_map snd fst app ofile_eqb].
      destruct (fst bf =? b) eqn:E; [apply Z.eqb_eq in E; contradiction|reflexivity].
  Qed.

  (* the frequency that governs file k *)
  Definition governs (c : ocfg) (k : ofile) (f : Z) : Prop :=
    match k with
    | FState => False
    | FColvar => f = oc_restart_freq c
    | FBias b => In (b, f) (oc_biases c)
    end.

  Lemma writes_calc : forall c k f it, NoDup (map fst (oc_biases c)) -> governs c k f ->
    writes_of k (out_event c (OCalc it)) = if at_freq c f it then [it] else [].
  Proof.
    intros c k f it Hnd Hg. unfold out_event, out_calc. rewrite map_app, writes_of_app.
    destruct k as [| |b]; cbn [governs] in Hg; [contradiction| |].
    - subst f. rewrite (writes_of_bias_list_other FColvar it (fun bf => at_freq c (snd bf) it)) by discriminate. rewrite app_nil_r.
      destruct (at_freq c (oc_restart_freq c) it); reflexivity.
    - rewrite (writes_of_bias_list b f it (fun bf => at_freq c (snd bf) it) _ Hnd Hg). cbn [snd].
      destruct (at_freq c (oc_restart_freq c) it); reflexivity.
  Qed.

  Lemma writes_end : forall c k f it, NoDup (map fst (oc_biases c)) -> governs c k f ->
    writes_of k (out_event c (OEnd it)) = if at_freq c f it then [] else [it].
  Proof.
    intros c k f it Hnd Hg. unfold out_event, out_end. cbn [map]. rewrite map_app.
    change ((it, FState) :: ?a ++ ?b) with ([(it, FState)] ++ a ++ b). rewrite !writes_of_app.
    destruct k as [| |b]; cbn [governs] in Hg; [contradiction| |].
    - subst f. rewrite (writes_of_bias_list_other FColvar it (fun bf => negb (at_freq c (snd bf) it))) by discriminate. rewrite app_nil_r.
      destruct (at_freq c (oc_restart_freq c) it); reflexivity.
    - rewrite (writes_of_bias_list b f it (fun bf => negb (at_freq c (snd bf) it)) (oc_biases c) Hnd Hg).
      + cbn [snd]. destruct (at_freq c (oc_restart_freq c) it); destruct (at_freq c f it); reflexivity.
  Qed.

  Lemma writes_run_calcs : forall c k f l, NoDup (map fst (oc_biases c)) -> governs c k f ->
    writes_of k (out_run c (map OCalc l)) = filter (at_freq c f) l.
  Proof.
    intros c k f l Hnd Hg. induction l as [|it l IH]; [reflexivity|].
    unfold out_run in *. cbn [map flat_map filter]. rewrite writes_of_app, IH, (writes_calc c k f it Hnd Hg).
    destruct (at_freq c f it); reflexivity.
  Qed.

  (* a run over the steps s0 .. s0+n followed by the end of the run *)
  Lemma output_steps : forall c k f s0 n, NoDup (map fst (oc_biases c)) -> governs c k f ->
    let last := s0 + Z.of_nat n in
    writes_of k (out_run c (map OCalc (run_steps s0 (S n)) ++ [OEnd last])) =
    filter (at_freq c f) (run_steps s0 (S n)) ++ (if at_freq c f last then [] else [last]).
  Proof.
    intros c k f s0 n Hnd Hg last. unfold out_run. rewrite flat_map_app, writes_of_app.
    change (flat_map (out_event c) (map OCalc (run_steps s0 (S n)))) with (out_run c (map OCalc (run_steps s0 (S n)))).
    rewrite (writes_run_calcs c k f _ Hnd Hg). f_equal.
    cbn [flat_map]. rewrite app_nil_r. apply (writes_end c k f last Hnd Hg).
  Qed.

  Lemma run_steps_last : forall s0 n, In (s0 + Z.of_nat n) (run_steps s0 (S n)).
  Proof. intros. unfold run_steps. apply in_map_iff. exists n. split; [reflexivity|]. apply in_seq. lia. Qed.

  (* the file is written at most once per step, the last write is at the last step of the run, and the writes are the
     multiples of the governing frequency after the first step of the run segment, plus the last step *)
  Lemma output_final_and_once : forall c k f s0 n, NoDup (map fst (oc_biases c)) -> governs c k f ->
    let last := s0 + Z.of_nat n in
    let w := writes_of k (out_run c (map OCalc (run_steps s0 (S n)) ++ [OEnd last])) in
    NoDup w /\ List.last w 0 = last /\
    forall it, In it w <-> (it = last \/ (s0 <= it <= last /\ at_freq c f it = true)).
  Proof.
    intros c k f s0 n Hnd Hg. cbn zeta.
    pose proof (output_steps c k f s0 n Hnd Hg) as Hos. cbn zeta in Hos. rewrite Hos. clear Hos.
    set (last := s0 + Z.of_nat n).
    pose proof (run_steps_nodup s0 (S n)) as Hnd2.
    pose proof (run_steps_last s0 n) as Hlast. fold last in Hlast.
    assert (Hrange : forall it, In it (run_steps s0 (S n)) <-> s0 <= it <= last).
    { intros it. unfold run_steps. rewrite in_map_iff. split.
      - intros [i [Hi Hin]]. apply in_seq in Hin. unfold last. lia.
      - intros Hr. exists (Z.to_nat (it - s0)). split; [lia|]. apply in_seq. unfold last in Hr. lia. }
    (* the last step is the last element of the run *)
    assert (Hsplit : run_steps s0 (S n) = run_steps s0 n ++ [last]).
    { unfold run_steps. rewrite seq_S, map_app. reflexivity. }
    destruct (at_freq c f last) eqn:E.
    - rewrite app_nil_r. repeat split.
      + apply NoDup_filter. exact Hnd2.
      + rewrite Hsplit, filter_app. cbn [filter]. rewrite E. apply last_last.
      + intros Hin. apply filter_In in Hin. destruct Hin as [Hin Hf]. right. split; [apply Hrange; exact Hin|exact Hf].
      + intros [->|[Hr Hf]]; apply filter_In; split; try assumption. apply Hrange. exact Hr.
    - repeat split.
      + apply NoDup_app_last; [apply NoDup_filter; exact Hnd2|].
        intros Hin. apply filter_In in Hin. destruct Hin as [_ Hf]. congruence.
      + apply last_last.
      + intros Hin. apply in_app_or in Hin. destruct Hin as [Hin|[Hin|[]]].
        * apply filter_In in Hin. destruct Hin as [Hin Hf]. right. split; [apply Hrange; exact Hin|exact Hf].
        * left. symmetry. exact Hin.
      + intros [->|[Hr Hf]]; apply in_or_app.
        * right. left. reflexivity.
        * left. apply filter_In. split; [apply Hrange; exact Hr|exact Hf].
  Qed.

  (* the state file: written by calc() at the restart frequency and always at the end of the run; each write stamps
     the step at which it happens (writes_of returns those steps), so the last one is the last step *)
  Lemma state_file_steps : forall c s0 n,
    let last := s0 + Z.of_nat n in
    writes_of FState (out_run c (map OCalc (run_steps s0 (S n)) ++ [OEnd last])) =
    filter (at_freq c (oc_restart_freq c)) (run_steps s0 (S n)) ++ [last].
  Proof.
    intros c s0 n last. unfold out_run. rewrite flat_map_app, writes_of_app. f_equal.
    - induction (run_steps s0 (S n)) as [|it l IH]; [reflexivity|]. cbn [map flat_map filter]. rewrite writes_of_app, IH.
      unfold out_event, out_calc. rewrite map_app, writes_of_app, (writes_of_bias_list_other FState it (fun bf => at_freq c (snd bf) it)) by discriminate. rewrite app_nil_r.
      destruct (at_freq c (oc_restart_freq c) it); reflexivity.
    - cbn [flat_map]. rewrite app_nil_r. unfold out_event, out_end. cbn [map]. rewrite map_app.
      change ((last, FState) :: ?a ++ ?b) with ([(last, FState)] ++ a ++ b). rewrite !writes_of_app.
      rewrite (writes_of_bias_list_other FState last (fun bf => negb (at_freq c (snd bf) last))) by discriminate.
      destruct (at_freq c (oc_restart_freq c) last); reflexivity.
  Qed.
End OutputSchedule.

(* =================================================================================================
   F. label text
   ================================================================================================= *)
Definition no_blank (s : list nat) : Prop := Forall (fun c => c <> 32%nat) s.

Lemma strip_trailing_spaces : forall n, strip_trailing (repeat 32%nat n) = [].
Proof. induction n as [|n IH]; [reflexivity|]. cbn [repeat strip_trailing]. rewrite IH. reflexivity. Qed.

Lemma strip_trailing_app_spaces : forall s n, no_blank s -> strip_trailing (s ++ repeat 32%nat n) = s.
Proof.
  induction s as [|c s IH]; intros n Hs; cbn [app].
  - apply strip_trailing_spaces.
  - inversion Hs as [|? ? Hc Hs']; subst. cbn [strip_trailing]. rewrite (IH n Hs').
    destruct s as [|d s]; [|reflexivity]. destruct (c =? 32)%nat eqn:E; [apply Nat.eqb_eq in E; contradiction|reflexivity].
Qed.

(* a name that fits is printed in full: the token is prefix ++ name *)
Lemma label_token_short : forall prefix name width,
  no_blank prefix -> no_blank name -> (length prefix + length name <= width)%nat ->
  label_token prefix name width = prefix ++ name.
Proof.
  intros prefix name width Hp Hn Hl. unfold label_token, label_text, wrap_string.
  replace (length name <=? width - length prefix)%nat with true by (symmetry; apply Nat.leb_le; lia).
  rewrite app_assoc. apply strip_trailing_app_spaces. apply Forall_app. split; assumption.
Qed.

(* hence, for one prefix, names that fit are told apart by their labels *)
Lemma label_token_injective_short : forall prefix n1 n2 width,
  no_blank prefix -> no_blank n1 -> no_blank n2 ->
  (length prefix + length n1 <= width)%nat -> (length prefix + length n2 <= width)%nat ->
  label_token prefix n1 width = label_token prefix n2 width -> n1 = n2.
Proof.
  intros prefix n1 n2 width Hp H1 H2 L1 L2 Heq. rewrite !label_token_short in Heq by assumption.
  apply app_inv_head in Heq. exact Heq.
Qed.

(* a longer name is cut: the token is prefix ++ the first (width - length prefix) characters *)
Lemma label_token_long : forall prefix name width,
  no_blank prefix -> no_blank name -> (width < length prefix + length name)%nat -> (length prefix <= width)%nat ->
  label_token prefix name width = prefix ++ firstn (width - length prefix) name.
Proof.
  intros prefix name width Hp Hn Hl Hw. unfold label_token, label_text, wrap_string.
  replace (length name <=? width - length prefix)%nat with false by (symmetry; apply Nat.leb_gt; lia).
  rewrite <- (app_nil_r (prefix ++ firstn (width - length prefix) name)) at 1.
  change [] with (repeat 32%nat 0). apply strip_trailing_app_spaces. apply Forall_app. split; [exact Hp|].
  apply Forall_forall. intros c Hc. unfold no_blank in Hn. rewrite Forall_forall in Hn. apply Hn.
  rewrite <- (firstn_skipn (width - length prefix) name). apply in_or_app. left. exact Hc.
Qed.

(* two different names with the same first 21 characters get the same label; and the velocity column of "a" has the
   label of the value column of a variable named "v_a" (characters as codes: a=97, v=118, _=95) *)
Lemma label_collisions :
  (exists n1 n2, n1 <> n2 /\ no_blank n1 /\ no_blank n2 /\ label_token [] n1 21 = label_token [] n2 21) /\
  label_token [118; 95]%nat [97]%nat 21 = label_token [] [118; 95; 97]%nat 21.
Proof.
  split.
  - exists (repeat 97 21 ++ [49])%nat, (repeat 97 21 ++ [50])%nat.
    split; [intros H; vm_compute in H; discriminate|].
    split; [unfold no_blank; cbn [repeat app]; repeat (constructor; try discriminate)|].
    split; [unfold no_blank; cbn [repeat app]; repeat (constructor; try discriminate)|].
    vm_compute. reflexivity.
  - vm_compute. reflexivity.
Qed.

(* =================================================================================================
   G. a segment that starts off the frequency grid; fields never run together
   ================================================================================================= *)
(* a new job (fresh module) whose first step it0 comes from a state file / the engine: the lines are at the ABSOLUTE
   multiples of the frequency, wherever it0 lies with respect to the grid (in particular it0 itself gets a line only
   if it is a multiple) *)
Lemma restarted_segment_on_absolute_grid : forall freq c it0 n, (0 < freq)%Z ->
  let steps := data_steps (snd (traj_run (traj_init freq c) (TRestart it0 :: run_events it0 n))) in
  NoDup steps /\
  (forall it, In it steps <-> ((it0 <= it < it0 + Z.of_nat n)%Z /\ (it mod freq = 0)%Z)) /\
  (In it0 steps <-> ((1 <= n)%nat /\ (it0 mod freq = 0)%Z)).
Proof.
  intros freq c it0 n Hf. cbn [traj_run traj_event]. cbn zeta.
  set (s1 := mkTS (t_freq (traj_init freq c)) (t_cfg (traj_init freq c)) (t_labels (traj_init freq c)) it0).
  destruct (traj_run s1 (run_events it0 n)) as [s2 l2] eqn:E. cbn [snd app].
  pose proof (one_line_per_multiple s1 it0 n) as H. cbn zeta in H. rewrite E in H. cbn [snd] in H.
  assert (Hfr : t_freq s1 = freq) by reflexivity. rewrite Hfr in H. destruct (H Hf) as [Hnd Hin].
  assert (Hiff : forall it, In it (data_steps l2) <-> (it0 <= it < it0 + Z.of_nat n)%Z /\ (it mod freq = 0)%Z).
  { intros it. rewrite Hin. split; intros [Hr Hm]; split; try exact Hr.
    - destruct Hm as [k ->]. apply Z_mod_mult.
    - exists (it / freq)%Z. rewrite (Z.div_mod it freq) at 1 by lia. lia. }
  split; [exact Hnd|]. split; [exact Hiff|].
  rewrite Hiff. split; intros [H1 H2]; split; try exact H2; lia.
Qed.

(* the writers put at least one blank before every field and setw() never truncates: a line is the concatenation of
   (one blank, padding to the width, the field's text); splitting it on blanks gives back the fields whatever their
   lengths (numbers wider than the column do not merge with their neighbours) *)
Definition pad_left (w : nat) (tok : list nat) : list nat := repeat 32%nat (w - length tok) ++ tok.
Definition write_fields (w : nat) (toks : list (list nat)) : list nat :=
  flat_map (fun tok => 32%nat :: pad_left w tok) toks.

(* split on blanks, dropping empty pieces; cur is the piece being read (reversed) *)
Fixpoint split_blanks (cur : list nat) (l : list nat) : list (list nat) :=
  match l with
  | [] => match cur with [] => [] | _ => [rev cur] end
  | c :: r => if (c =? 32)%nat
              then match cur with [] => split_blanks [] r | _ => rev cur :: split_blanks [] r end
              else split_blanks (c :: cur) r
  end.

Lemma split_blanks_spaces : forall n r, split_blanks [] (repeat 32%nat n ++ r) = split_blanks [] r.
Proof. induction n as [|n IH]; intros r; [reflexivity|]. cbn [repeat app split_blanks Nat.eqb]. apply IH. Qed.

Lemma split_blanks_token : forall tok cur r, no_blank tok ->
  split_blanks cur (tok ++ 32%nat :: r) = rev (rev tok ++ cur) :: split_blanks [] r \/ (tok = [] /\ cur = []).
Proof.
  induction tok as [|c tok IH]; intros cur r Hn.
  - cbn [app split_blanks Nat.eqb rev]. destruct cur as [|d cur]; [right; split; reflexivity|left; reflexivity].
  - inversion Hn as [|? ? Hc Hn']; subst. cbn [app split_blanks].
    destruct (c =? 32)%nat eqn:E; [apply Nat.eqb_eq in E; contradiction|].
    destruct (IH (c :: cur) r Hn') as [H|[_ H]]; [|discriminate].
    left. rewrite H. cbn [rev]. rewrite <- app_assoc. reflexivity.
Qed.

Lemma split_blanks_last_token : forall tok cur, no_blank tok -> (tok <> [] \/ cur <> []) ->
  split_blanks cur tok = [rev (rev tok ++ cur)].
Proof.
  induction tok as [|c tok IH]; intros cur Hn Hne.
  - cbn [split_blanks rev app]. destruct cur; [destruct Hne as [H|H]; congruence|reflexivity].
  - inversion Hn as [|? ? Hc Hn']; subst. cbn [split_blanks].
    destruct (c =? 32)%nat eqn:E; [apply Nat.eqb_eq in E; contradiction|].
    rewrite IH by (try assumption; right; discriminate). cbn [rev]. rewrite <- app_assoc. reflexivity.
Qed.

Lemma fields_never_merge : forall w toks,
  Forall (fun t => no_blank t /\ t <> []) toks -> split_blanks [] (write_fields w toks) = toks.
Proof.
  intros w toks. induction toks as [|t toks IH]; intros H; [reflexivity|].
  inversion H as [|? ? [Hn Hne] H']; subst. specialize (IH H').
  unfold write_fields in *. cbn [flat_map]. cbn [app split_blanks Nat.eqb]. unfold pad_left.
  rewrite <- app_assoc, split_blanks_spaces.
  destruct toks as [|t2 toks].
  - cbn [flat_map]. rewrite app_nil_r. rewrite split_blanks_last_token by (try assumption; left; assumption).
    rewrite app_nil_r, rev_involutive. reflexivity.
  - cbn [flat_map] in *. cbn [app].
    destruct (split_blanks_token t [] (pad_left w t2 ++ flat_map (fun tok => 32%nat :: pad_left w tok) toks) Hn) as [Hs|[Hs _]]; [|contradiction].
    unfold pad_left in *. rewrite Hs, app_nil_r, rev_involutive. f_equal.
    cbn [app split_blanks Nat.eqb] in IH. exact IH.
Qed.

(* =================================================================================================
   H. ABF history blocks; buffered record files
   ================================================================================================= *)
Lemma abf_hist_nodup : forall hf w last,
  NoDup w -> (match last with Some l => ~ In l w | None => True end) ->
  abf_hist hf last w = filter (fun it => (0 <? hf)%Z && (it mod hf =? 0)%Z) w.
Proof.
  intros hf w. induction w as [|it r IH]; intros last Hnd Hl; [reflexivity|].
  inversion Hnd as [|? ? Hnot Hnd']; subst. cbn [abf_hist filter].
  assert (Hne : negb (match last with Some l => (l =? it)%Z | None => false end) = true).
  { destruct last as [l|]; [|reflexivity]. destruct (l =? it)%Z eqn:E; [|reflexivity].
    apply Z.eqb_eq in E. exfalso. apply Hl. left. symmetry. exact E. }
  rewrite Hne, andb_true_r.
  destruct ((0 <? hf)%Z && (it mod hf =? 0)%Z).
  - f_equal. apply IH; [exact Hnd'|exact Hnot].
  - apply IH; [exact Hnd'|]. destruct last as [l|]; [|exact I]. intros Hin. apply Hl. right. exact Hin.
Qed.

(* a write repeated for the same step (run boundary) adds no second block *)
Lemma abf_hist_repeated : forall hf it r, abf_hist hf (Some it) (it :: r) = abf_hist hf (Some it) r.
Proof. intros. cbn [abf_hist]. rewrite Z.eqb_refl. cbn [negb]. rewrite andb_false_r. reflexivity. Qed.

Lemma flush_run_invariant : forall R (evs : list (fevent R)) file buf,
  let '(f, b) := flush_run file buf evs in f ++ b = file ++ buf ++ records_of evs.
Proof.
  intros R evs. induction evs as [|e evs IH]; intros file buf.
  - cbn [flush_run records_of flat_map]. rewrite app_nil_r. reflexivity.
  - destruct e as [r|]; cbn [flush_run].
    + specialize (IH file (buf ++ [r])). destruct (flush_run file (buf ++ [r]) evs) as [f b]. rewrite IH.
      unfold records_of. cbn [flat_map]. rewrite <- !app_assoc. reflexivity.
    + specialize (IH (file ++ buf) []). destruct (flush_run (file ++ buf) [] evs) as [f b]. rewrite IH.
      unfold records_of. cbn [flat_map app]. rewrite <- app_assoc. reflexivity.
Qed.

(* after a write the file holds every record made so far, in order *)
Lemma flush_run_complete : forall R (evs : list (fevent R)),
  fst (flush_run [] [] (evs ++ [FFlush])) = records_of evs.
Proof.
  intros R evs.
  assert (H : forall file buf, flush_run file buf (evs ++ [FFlush]) =
                               let '(f, b) := flush_run file buf evs in (f ++ b, [])).
  { induction evs as [|e evs IH]; intros file buf; [reflexivity|].
    destruct e as [r|]; cbn [app flush_run]; apply IH. }
  rewrite H. pose proof (flush_run_invariant R evs [] []) as Hi. destruct (flush_run [] [] evs) as [f b].
  cbn [fst]. rewrite Hi. reflexivity.
Qed.

(* =================================================================================================
   I. quaternion metric used for the deviations: q and -q are the same rotation
   ================================================================================================= *)
Section QuatMetric.
  Local Open Scope R_scope.
  Lemma vdot_opp : forall a b : list R, vdot Rops (map Ropp a) b = - vdot Rops a b.
  Proof.
    induction a as [|x a IH]; intros b; cbn [map vdot Rops n0]; [ring|].
    destruct b as [|y b]; cbn [vdot Rops n0 nadd nmul]; [ring|]. rewrite IH. cbn [Rops nadd nmul]. ring.
  Qed.

  Lemma acos_m1 : acos (- (1)) = PI.
  Proof. rewrite acos_opp, acos_1. ring. Qed.

  Lemma quat_dist2_antipodal : forall a b : list R, -1 <= vdot Rops a b <= 1 ->
    lv_dist2 Rops KQuat (map Ropp a) b = lv_dist2 Rops KQuat a b.
  Proof.
    intros a b Hc. unfold lv_dist2. rewrite vdot_opp. set (c := vdot Rops a b) in *.
    cbn [Rops nltb n1 n0 nneg nacos nsub nmul].
    assert (C1 : Rltb 1 c = false) by (apply Rltb_false; lra).
    assert (C2 : Rltb c (- (1)) = false) by (apply Rltb_false; lra).
    assert (C3 : Rltb 1 (- c) = false) by (apply Rltb_false; lra).
    assert (C4 : Rltb (- c) (- (1)) = false) by (apply Rltb_false; lra).
    rewrite C1, C2, C3, C4, acos_m1, acos_opp.
    destruct (Rlt_dec 0 c) as [Hp|Hp].
    - replace (Rltb 0 c) with true by (symmetry; apply Rltb_true; exact Hp).
      replace (Rltb 0 (- c)) with false by (symmetry; apply Rltb_false; lra). ring.
    - replace (Rltb 0 c) with false by (symmetry; apply Rltb_false; lra).
      destruct (Rlt_dec c 0) as [Hn|Hn].
      + replace (Rltb 0 (- c)) with true by (symmetry; apply Rltb_true; lra). ring.
      + replace (Rltb 0 (- c)) with false by (symmetry; apply Rltb_false; lra).
        assert (Hz : c = 0) by lra. rewrite Hz, acos_0. field.
  Qed.
End QuatMetric.

(* =================================================================================================
   J. label table; what is on disk
   ================================================================================================= *)
Lemma col_prefix_no_blank : forall c, no_blank (col_prefix c) /\ (length (col_prefix c) <= 11)%nat.
Proof. intros c. destruct c; cbn [col_prefix length]; split; try lia; unfold no_blank; repeat (constructor; try discriminate). Qed.

(* a name that fits: the label is the column's prefix followed by the object's name *)
Lemma col_label_short : forall vname bname c,
  let name := match col_object c with inl v => vname v | inr b => bname b end in
  no_blank name -> (length (col_prefix c) + length name <= 21)%nat ->
  col_label vname bname c = col_prefix c ++ name.
Proof.
  intros vname bname c name Hn Hl. unfold col_label. fold name.
  apply label_token_short; [apply col_prefix_no_blank|exact Hn|exact Hl].
Qed.

Section DiskBuffer.
  Context {L : Type}.

  Lemma buf_run_invariant : forall (evs : list (bevent L)) disk buf,
    let '(d, b) := buf_run disk buf evs in d ++ b = disk ++ buf ++ blines evs.
  Proof.
    induction evs as [|e evs IH]; intros disk buf.
    - cbn [buf_run blines flat_map]. rewrite app_nil_r. reflexivity.
    - destruct e as [l| |n]; cbn [buf_run].
      + specialize (IH disk (buf ++ [l])). destruct (buf_run disk (buf ++ [l]) evs) as [d b]. rewrite IH.
        unfold blines. cbn [flat_map]. rewrite <- !app_assoc. reflexivity.
      + specialize (IH (disk ++ buf) []). destruct (buf_run (disk ++ buf) [] evs) as [d b]. rewrite IH.
        unfold blines. cbn [flat_map app]. rewrite <- app_assoc. reflexivity.
      + specialize (IH (disk ++ firstn n buf) (skipn n buf)). destruct (buf_run (disk ++ firstn n buf) (skipn n buf) evs) as [d b].
        rewrite IH. unfold blines. cbn [flat_map app]. rewrite <- !app_assoc, (app_assoc (firstn n buf)), firstn_skipn. reflexivity.
  Qed.

  (* the disk only grows *)
  Lemma buf_run_disk_grows : forall (evs : list (bevent L)) disk buf,
    exists more, fst (buf_run disk buf evs) = disk ++ more.
  Proof.
    induction evs as [|e evs IH]; intros disk buf; cbn [buf_run].
    - exists []. cbn [fst]. rewrite app_nil_r. reflexivity.
    - destruct e as [l| |n].
      + apply IH.
      + destruct (IH (disk ++ buf) []) as [m Hm]. exists (buf ++ m). rewrite Hm, app_assoc. reflexivity.
      + destruct (IH (disk ++ firstn n buf) (skipn n buf)) as [m Hm]. exists (firstn n buf ++ m). rewrite Hm, app_assoc. reflexivity.
  Qed.

  (* crash after the events e1, a synchronisation, and then e2 (whatever e2 contains): the disk holds every line written
     before the synchronisation, followed by a prefix of the later lines; nothing else and nothing out of order *)
  Lemma disk_after_crash : forall (e1 e2 : list (bevent L)),
    exists kept lost, fst (buf_run [] [] (e1 ++ BSync :: e2)) = blines e1 ++ kept /\ blines e2 = kept ++ lost.
  Proof.
    intros e1 e2.
    assert (H1 : forall disk buf, buf_run disk buf (e1 ++ BSync :: e2) =
                                  let '(d, b) := buf_run disk buf e1 in buf_run (d ++ b) [] e2).
    { induction e1 as [|e e1 IH]; intros disk buf; [reflexivity|]. destruct e; cbn [app buf_run]; apply IH. }
    rewrite H1. pose proof (buf_run_invariant e1 [] []) as Hi. destruct (buf_run [] [] e1) as [d b]. cbn [app] in Hi. rewrite Hi.
    pose proof (buf_run_invariant e2 (blines e1) []) as Hj.
    destruct (buf_run_disk_grows e2 (blines e1) []) as [kept Hk].
    destruct (buf_run (blines e1) [] e2) as [d2 b2]. cbn [fst] in Hk. cbn [app] in Hj. subst d2.
    exists kept, b2. split; [reflexivity|]. rewrite <- app_assoc in Hj. apply app_inv_head in Hj. symmetry. exact Hj.
  Qed.
End DiskBuffer.

(* the lines of the trajectory model are exactly the lines that go through the stream *)
Lemma traj_bevents_lines : forall rfreq its s,
  blines (traj_bevents rfreq s its) = snd (traj_run s (map TCalc its)).
Proof.
  intros rfreq its. induction its as [|it its IH]; intros s; [reflexivity|].
  cbn [traj_bevents map traj_run traj_event]. unfold traj_calc_bevents.
  destruct (traj_calc s it) as [s1 ls] eqn:E. specialize (IH s1).
  destruct (traj_run s1 (map TCalc its)) as [s2 l2]. cbn [snd] in *.
  unfold blines in *. rewrite !flat_map_app, IH. f_equal.
  rewrite <- (app_nil_r ls) at 2. f_equal.
  - clear E. induction ls as [|l ls IHl]; [reflexivity|]. cbn [map flat_map app]. f_equal. exact IHl.
  - destruct (negb (rfreq =? 0)%Z && (it mod rfreq =? 0)%Z); reflexivity.
Qed.

(* =================================================================================================
   K. multicolumn grid files
   ================================================================================================= *)
Lemma NoDup_app' {A} (l1 l2 : list A) : NoDup l1 -> NoDup l2 -> (forall a, In a l1 -> In a l2 -> False) -> NoDup (l1 ++ l2).
Proof.
  induction l1 as [|a l1 IH]; intros H1 H2 Hd; [exact H2|]. cbn [app]. inversion H1 as [|? ? Ha Hl]; subst. constructor.
  - intros Hin. apply in_app_or in Hin. destruct Hin as [Hin|Hin]; [contradiction|]. apply (Hd a); [left; reflexivity|exact Hin].
  - apply IH; [exact Hl|exact H2|]. intros b Hb1 Hb2. apply (Hd b); [right; exact Hb1|exact Hb2].
Qed.

Section Multicol.
  Context {T : Type} (O : NumOps T).

  Lemma all_indices_length : forall nx, length (all_indices nx) = fold_right Nat.mul 1%nat nx.
  Proof.
    induction nx as [|n r IH]; [reflexivity|]. cbn [all_indices fold_right].
    assert (H : forall k m, length (flat_map (fun i => map (cons i) (all_indices r)) (seq k m)) = (m * length (all_indices r))%nat).
    { intros k m. revert k. induction m as [|m IHm]; intros k; [reflexivity|].
      cbn [seq flat_map]. rewrite app_length, map_length, IHm. lia. }
    rewrite H, IH. reflexivity.
  Qed.

  Lemma all_indices_shape : forall nx ix, In ix (all_indices nx) <-> Forall2 (fun i n => (i < n)%nat) ix nx.
  Proof.
    induction nx as [|n r IH]; intros ix; cbn [all_indices].
    - split; [intros [<-|[]]; constructor|]. intros H. inversion H. left. reflexivity.
    - rewrite in_flat_map. split.
      + intros [i [Hi Hin]]. apply in_seq in Hi. apply in_map_iff in Hin. destruct Hin as [t [<- Ht]].
        constructor; [lia|]. apply IH. exact Ht.
      + intros H. inversion H as [|i n' t r' Hlt Hr]; subst. exists i. split; [apply in_seq; lia|].
        apply in_map_iff. exists t. split; [reflexivity|]. apply IH. exact Hr.
  Qed.

  Lemma all_indices_nodup : forall nx, NoDup (all_indices nx).
  Proof.
    induction nx as [|n r IH]; cbn [all_indices]; [constructor; [intros []|constructor]|].
    assert (H : forall k m, NoDup (flat_map (fun i => map (cons i) (all_indices r)) (seq k m)) /\
                            forall ix, In ix (flat_map (fun i => map (cons i) (all_indices r)) (seq k m)) -> exists i t, ix = i :: t /\ (k <= i)%nat).
    { intros k m. revert k. induction m as [|m IHm]; intros k; cbn [seq flat_map].
      - split; [constructor|intros ix []].
      - destruct (IHm (S k)) as [Hnd Hge]. split.
        + apply NoDup_app'; [apply FinFun.Injective_map_NoDup; [intros a b Hab; inversion Hab; reflexivity|exact IH]|exact Hnd|].
          intros ix Hin1 Hin2. apply in_map_iff in Hin1. destruct Hin1 as [t [<- _]].
          destruct (Hge _ Hin2) as [i [t' [Heq Hle]]]. inversion Heq. lia.
        + intros ix Hin. apply in_app_or in Hin. destruct Hin as [Hin|Hin].
          * apply in_map_iff in Hin. destruct Hin as [t [<- _]]. exists k, t. split; [reflexivity|lia].
          * destruct (Hge _ Hin) as [i [t [Heq Hle]]]. exists i, t. split; [exact Heq|lia]. }
    apply H.
  Qed.

  (* reading what was written gives back, for every index in order, the record written for it *)
  Lemma multicol_round_trip : forall nx geom value,
    read_multicol nx (write_multicol O nx geom value) = map (fun ix => (ix, value ix)) (all_indices nx).
  Proof.
    intros nx geom value. unfold read_multicol, write_multicol.
    assert (H : forall l, flat_map (fun l0 => match l0 with MData _ v => [v] | MBlank => [] end)
                  (flat_map (fun ix => (if (last ix 1 =? 0)%nat then [MBlank] else []) ++ [MData (coords_of O geom ix) (value ix)]) l)
                = map value l).
    { induction l as [|ix l IH]; [reflexivity|]. cbn [flat_map map]. rewrite flat_map_app, IH.
      destruct (last ix 1 =? 0)%nat; reflexivity. }
    rewrite H. induction (all_indices nx) as [|ix l IH]; [reflexivity|]. cbn [map combine]. f_equal. exact IH.
  Qed.

  (* the lines, one index at a time: a blank line exactly before the records whose last index is 0; each record carries
     the bin centres of its index *)
  Lemma multicol_lines : forall nx geom value,
    write_multicol O nx geom value =
    flat_map (fun ix => (if (last ix 1 =? 0)%nat then [MBlank] else []) ++ [MData (coords_of O geom ix) (value ix)]) (all_indices nx).
  Proof. reflexivity. Qed.
End Multicol.

(* =================================================================================================
   L. total force with forces delivered one evaluation late
   ================================================================================================= *)
Section LaggedForce.
  Context {T : Type} (O : NumOps T).

  (* after any non-empty history the bookkeeping is that of the last evaluation *)
  Lemma lf_run_last : forall (h : list (nat * bool * T)) (s : @lfstate T) rel en (f : T),
    let s' := lf_run s (h ++ [(rel, en, f)]) in
    lf_prev s' = Some rel /\ lf_prev_calc s' = en /\ lf_engine s' = f.
  Proof.
    intros h s rel en f. unfold lf_run. rewrite fold_left_app. cbn [fold_left lf_step].
    cbn [lf_prev lf_prev_calc lf_engine]. repeat split.
  Qed.

  (* the ft_ value at an evaluation (rel, enabled) that follows an evaluation (rel', enabled', f'):
     if rel > 0, rel - 1 <= rel' (previous or same step) and the calculation was on at both, it is f', the force exerted
     at the previous evaluation; otherwise it is what it was before (0 for a variable that never had one) *)
  Lemma lagged_force_rule : forall (h : list (nat * bool * T)) (s : @lfstate T) rel' en' (f' : T) rel en (f : T),
    lf_ft (lf_run s (h ++ [(rel', en', f'); (rel, en, f)])) =
    if ((0 <? rel) && (rel - 1 <=? rel') && en' && en)%nat%bool then f'
    else lf_ft (lf_run s (h ++ [(rel', en', f')])).
  Proof.
    intros h s rel' en' f' rel en f.
    replace (h ++ [(rel', en', f'); (rel, en, f)]) with ((h ++ [(rel', en', f')]) ++ [(rel, en, f)]) by (rewrite <- app_assoc; reflexivity).
    destruct (lf_run_last h s rel' en' f') as [Hp [Hc He]].
    set (s1 := lf_run s (h ++ [(rel', en', f')])) in *.
    unfold lf_run at 1. rewrite fold_left_app. fold (lf_run s (h ++ [(rel', en', f')])). fold s1.
    cbn [fold_left lf_step lf_ft]. unfold lf_available. rewrite Hp, Hc, He.
    destruct (0 <? rel)%nat, (rel - 1 <=? rel')%nat, en', en; reflexivity.
  Qed.

  (* first evaluation after the request (the calculation was off at the previous evaluation): nothing is collected *)
  Lemma lagged_force_first_request : forall (h : list (nat * bool * T)) (s : @lfstate T) rel' (f' : T) rel en (f : T),
    lf_ft (lf_run s (h ++ [(rel', false, f'); (rel, en, f)])) = lf_ft (lf_run s (h ++ [(rel', false, f')])).
  Proof.
    intros. rewrite lagged_force_rule. destruct (0 <? rel)%nat, (rel - 1 <=? rel')%nat; reflexivity.
  Qed.
End LaggedForce.

(* =================================================================================================
   M. running average across a restart: the window is part of the state
   ================================================================================================= *)
Section RunaveRestart.
  Context {T : Type} (O : NumOps T).
  Variables (L s it0 : nat).

  (* the state left by a job *)
  Fixpoint runave_final (st : rstate) (prev : option nat) (h : list (nat * T)) : rstate :=
    match h with
    | [] => st
    | (t, x) :: r => runave_final (fst (runave_step O L s it0 st prev t x)) (Some t) r
    end.
  Definition prev_after (prev : option nat) (h : list (nat * T)) : option nat :=
    match rev h with [] => prev | (t, _) :: _ => Some t end.

  Lemma runave_run_app : forall h1 h2 st prev,
    runave_run O L s it0 st prev (h1 ++ h2) =
    runave_run O L s it0 st prev h1 ++ runave_run O L s it0 (runave_final st prev h1) (prev_after prev h1) h2.
  Proof.
    induction h1 as [|[t x] h1 IH]; intros h2 st prev; [reflexivity|].
    cbn [app runave_run runave_final]. destruct (runave_step O L s it0 st prev t x) as [s1 o] eqn:E. cbn [fst].
    rewrite IH, <- app_assoc. f_equal. f_equal. f_equal.
    unfold prev_after. cbn [rev]. destruct (rev h1) as [|[t' x'] r] eqn:Er; [reflexivity|]. cbn [app]. reflexivity.
  Qed.

  Lemma hist_from_app {A} : forall (l1 l2 : list A) a, hist_from a (l1 ++ l2) = hist_from a l1 ++ hist_from (a + length l1) l2.
  Proof.
    induction l1 as [|x l1 IH]; intros l2 a; cbn [app hist_from length]; [rewrite Nat.add_0_r; reflexivity|].
    rewrite IH. f_equal. f_equal. f_equal. lia.
  Qed.

  Lemma prev_after_hist_from {A} : forall (l : list A) a prev, l <> [] ->
    match rev (hist_from a l) with [] => prev | (t, _) :: _ => Some t end = Some (a + length l - 1)%nat.
  Proof.
    intros l. induction l as [|x l IH]; intros a prev Hne; [congruence|].
    destruct l as [|y l].
    - cbn [hist_from rev app length]. f_equal. lia.
    - specialize (IH (S a) prev ltac:(discriminate)). cbn [hist_from rev] in *.
      destruct (rev (hist_from (S (S a)) l) ++ [(S a, y)]) as [|[t z] r] eqn:E.
      + destruct (rev (hist_from (S (S a)) l)); discriminate.
      + cbn [app]. rewrite IH. cbn [length]. f_equal. lia.
  Qed.
End RunaveRestart.

Section RunaveRestartShift.
  Context {T : Type} (O : NumOps T).
  Variables (L s it0 S : nat).
  Hypothesis Hs : (1 <= s)%nat.
  Hypothesis HS : (S mod s = 0)%nat.

  (* a job that resumes at step S counts its relative steps from S: with S on the stride grid its stride test, its
     repeated-step guard and the absolute step it prints are those of the uninterrupted job *)
  Lemma runave_step_shift : forall st p a x,
    runave_step O L s (it0 + S) st (Some p) a x = runave_step O L s it0 st (Some (p + S)%nat) (a + S)%nat x.
  Proof.
    intros st p a x. unfold runave_step.
    assert (Hm : ((a + S) mod s = a mod s)%nat).
    { apply Nat.div_exact in HS; [|lia]. rewrite HS, Nat.mul_comm, Nat.mod_add by lia. reflexivity. }
    rewrite Hm. cbn [after_prev].
    assert (Hl : (p + S <? a + S)%nat = (p <? a)%nat).
    { destruct (p <? a)%nat eqn:E; [apply Nat.ltb_lt in E; apply Nat.ltb_lt; lia|apply Nat.ltb_ge in E; apply Nat.ltb_ge; lia]. }
    rewrite Hl. replace (it0 + S + a)%nat with (it0 + (a + S))%nat by lia. reflexivity.
  Qed.

  Lemma runave_run_shift : forall l st p a,
    runave_run O L s (it0 + S) st (Some p) (hist_from a l) =
    runave_run O L s it0 st (Some (p + S)%nat) (hist_from (a + S) l).
  Proof.
    induction l as [|x l IH]; intros st p a; [reflexivity|].
    cbn [hist_from runave_run]. rewrite runave_step_shift.
    destruct (runave_step O L s it0 st (Some (p + S)%nat) (a + S)%nat x) as [s1 o]. f_equal.
    change (Datatypes.S (a + S)) with (Datatypes.S a + S)%nat.
    replace (Some (a + S)%nat) with (Some (a + S)%nat) by reflexivity.
    specialize (IH s1 a (Datatypes.S a)). 
    (* the previous step of the resumed job is a, that of the uninterrupted one a + S *)
    clear IH. revert s1. generalize (Datatypes.S a) as b. intros b s1.
    assert (G : forall l' st' q b', runave_run O L s (it0 + S) st' (Some q) (hist_from b' l') =
                                    runave_run O L s it0 st' (Some (q + S)%nat) (hist_from (b' + S) l')).
    { induction l' as [|y l' IH']; intros st' q b'; [reflexivity|].
      cbn [hist_from runave_run]. rewrite runave_step_shift.
      destruct (runave_step O L s it0 st' (Some (q + S)%nat) (b' + S)%nat y) as [s2 o2]. f_equal.
      change (Datatypes.S (b' + S)) with (Datatypes.S b' + S)%nat. apply IH'. }
    apply G.
  Qed.
End RunaveRestartShift.

(* a run of relative steps 0..n-1 interrupted after step S (state written there, S on the stride grid, S >= 1) and
   resumed by a new job from that state (which computes step S again without effect, then counts its relative steps
   1, 2, .. from S) writes, in its two files together, exactly the lines of the uninterrupted run *)
Lemma runave_resumed_is_uninterrupted : forall (T : Type) (O : NumOps T) (L s it0 S : nat) (xs : list T),
  (1 <= s)%nat -> (S mod s = 0)%nat -> (S < length xs)%nat ->
  let h1 := hist (firstn (Datatypes.S S) xs) in
  let st1 := runave_final O L s it0 (r0 (T:=T)) None h1 in
  runave_run O L s it0 (r0 (T:=T)) None h1 ++
  runave_run O L s (it0 + S) st1 (Some 0%nat) (hist_from 1 (skipn (Datatypes.S S) xs)) =
  runave_run O L s it0 (r0 (T:=T)) None (hist xs).
Proof.
  intros T O L s it0 S xs Hs HS Hlen h1 st1.
  assert (Hx : hist xs = hist (firstn (Datatypes.S S) xs ++ skipn (Datatypes.S S) xs)) by (rewrite firstn_skipn; reflexivity).
  rewrite Hx. unfold hist. rewrite hist_from_app, runave_run_app.
  fold h1. fold (hist (firstn (Datatypes.S S) xs)). f_equal.
  rewrite (runave_run_shift O L s it0 S Hs HS). cbn [Nat.add].
  assert (Hl : length (firstn (Datatypes.S S) xs) = Datatypes.S S) by (apply firstn_length_le; lia).
  rewrite Hl. f_equal.
  assert (Hne : firstn (Datatypes.S S) xs <> []) by (intros H; rewrite H in Hl; discriminate).
  unfold prev_after, h1, hist.
  rewrite (prev_after_hist_from (firstn (Datatypes.S S) xs) 0 None Hne), Hl. f_equal. lia.
Qed.

(* a resumed job with a SHORTER window keeps the newest L'-1 values of the restored window: its state is the one a job
   with window L' would have reached on the same history *)
Section RunaveShorterWindow.
  Context {T : Type} (O : NumOps T).
  Variables (L L' s it0 : nat).
  Hypothesis HL : (L' <= L)%nat.

  Definition runave_resume (st : @rstate T) : @rstate T := mkRS (r_init st) (firstn (L' - 1) (r_hist st)).

  Lemma firstn_firstn_le {A} (a b : nat) (l : list A) : (a <= b)%nat -> firstn a (firstn b l) = firstn a l.
  Proof. intros H. rewrite firstn_firstn. f_equal. lia. Qed.

  Lemma runave_final_truncates : forall h st st' prev,
    r_init st' = r_init st -> r_hist st' = firstn (L' - 1) (r_hist st) ->
    runave_final O L' s it0 st' prev h = runave_resume (runave_final O L s it0 st prev h).
  Proof.
    induction h as [|[t x] h IH]; intros st st' prev Hi Hh.
    - cbn [runave_final]. unfold runave_resume. destruct st' as [i' h']. cbn [r_init r_hist] in *. subst. reflexivity.
    - cbn [runave_final]. apply IH.
      + unfold runave_step. rewrite Hi. destruct (negb (r_init st)); [reflexivity|].
        destruct ((t mod s =? 0)%nat && after_prev prev t); cbn [fst r_init]; [reflexivity|exact Hi].
      + unfold runave_step. rewrite Hi. destruct (negb (r_init st)); [destruct (L' - 1)%nat; reflexivity|].
        destruct ((t mod s =? 0)%nat && after_prev prev t); cbn [fst r_hist]; [|exact Hh].
        rewrite Hh, firstn_cons_firstn, firstn_firstn_le by lia. reflexivity.
  Qed.

  Lemma runave_resume_shorter : forall h,
    runave_resume (runave_final O L s it0 (r0 (T:=T)) None h) = runave_final O L' s it0 (r0 (T:=T)) None h.
  Proof.
    intros h. symmetry. apply runave_final_truncates; [reflexivity|]. cbn [r0 r_hist]. destruct (L' - 1)%nat; reflexivity.
  Qed.
End RunaveShorterWindow.
