(* Lemmas about OutputModel.v.  Part A (trajectory file) is discrete and holds for every carrier;
   parts B-D (analyses) are about the instance Rops. *)
From Coq Require Import ZArith List Bool Arith Lia Reals Lra QArith Qround FinFun.
From CV Require Import Base.Num Base.RNum C19.OutputModel.
Import ListNotations.

(* =================================================================================================
   A. trajectory file
   ================================================================================================= *)

Lemma var_cols : forall f, map (vcol_src f) (var_label f) = var_data f.
Proof.
  intros [id a b c d e x y]. unfold var_label, var_data, vf_ext. cbn [vf_id vf_value vf_velocity vf_energy vf_tforce vf_aforce vf_extlag vf_external].
  destruct a, b, c, d, e, x, y; reflexivity.
Qed.

(* the one bias class whose label and data functions list their blocks in different orders *)
Definition bias_order_ok (b : bflags) : bool :=
  match bf_kind b with BAlb => negb (bf_grad b && bf_centers b) | _ => true end.

Lemma bias_cols : forall b, bias_order_ok b = true -> map bcol_src (bias_label b) = bias_data b.
Proof.
  intros [id k vs e c cc ck aw cp g] Hok. unfold bias_order_ok in Hok. cbn [bf_kind bf_grad bf_centers] in Hok.
  unfold bias_label, bias_data, base_label, base_data, cm_label, cm_data, km_label, km_data.
  cbn [bf_id bf_kind bf_vars bf_energy bf_centers bf_chg_centers bf_chg_k bf_acc_work bf_coupling bf_grad].
  destruct k; rewrite ?map_app;
    repeat match goal with |- context [if ?x then _ else _] => destruct x end;
    cbn [map app andb]; rewrite ?map_map, ?app_nil_r; try reflexivity; try discriminate;
    try (destruct vs; reflexivity).
Qed.

Definition cfg_ok (c : config) : bool := forallb bias_order_ok (c_biases c).

Lemma flat_map_map_eq {A B C} (f : A -> list B) (g : A -> list C) (h : A -> B -> C) (l : list A) :
  (forall a, In a l -> map (h a) (f a) = g a) ->
  flat_map (fun a => map (h a) (f a)) l = flat_map g l.
Proof.
  induction l as [|a l IH]; intros H; cbn [flat_map]; [reflexivity|].
  rewrite H by (left; reflexivity). f_equal. apply IH. intros a' Ha'. apply H. right. exact Ha'.
Qed.

Lemma data_eq_expected : forall c, cfg_ok c = true -> data_of c = expected_of c.
Proof.
  intros c Hok. unfold data_of, expected_of. f_equal.
  - symmetry. apply flat_map_map_eq. intros f _. apply var_cols.
  - symmetry. apply (flat_map_map_eq bias_label bias_data (fun _ => bcol_src)).
    intros b Hb. apply bias_cols. unfold cfg_ok in Hok. rewrite forallb_forall in Hok. apply Hok. exact Hb.
Qed.

Lemma expected_length : forall c, length (expected_of c) = length (labels_of c).
Proof.
  intros c. unfold expected_of, labels_of. rewrite !app_length. f_equal.
  - induction (c_vars c) as [|f l IH]; cbn [flat_map]; [reflexivity|]. rewrite !app_length, map_length, IH. reflexivity.
  - induction (c_biases c) as [|f l IH]; cbn [flat_map]; [reflexivity|]. rewrite !app_length, map_length, IH. reflexivity.
Qed.

(* ---- every data line against the most recent label line ---------------------------------------- *)
Fixpoint lines_ok (cur : option (list src)) (l : list tline) : Prop :=
  match l with
  | [] => True
  | LLabel cols m :: r => length m = length cols /\ lines_ok (Some m) r
  | LData _ f :: r => cur = Some f /\ lines_ok cur r
  end.

Fixpoint last_label (cur : option (list src)) (l : list tline) : option (list src) :=
  match l with
  | [] => cur
  | LLabel _ m :: r => last_label (Some m) r
  | LData _ _ :: r => last_label cur r
  end.

Lemma lines_ok_app : forall l1 l2 cur,
  lines_ok cur (l1 ++ l2) <-> lines_ok cur l1 /\ lines_ok (last_label cur l1) l2.
Proof.
  induction l1 as [|x l1 IH]; intros l2 cur; cbn [app lines_ok last_label].
  - tauto.
  - destruct x as [cols m|it f]; rewrite IH; tauto.
Qed.

(* configurations that events bring in *)
Definition ev_ok (e : tevent) : bool :=
  match e with TConfig c | TScriptSet c => cfg_ok c | _ => true end.

Definition is_label (x : tline) : bool := match x with LLabel _ _ => true | _ => false end.

Lemma lines_ok_split : forall l cur pre it fields post,
  lines_ok cur l -> l = pre ++ LData it fields :: post ->
  (cur = Some fields /\ forallb (fun x => negb (is_label x)) pre = true) \/
  exists pre1 cols pre2, pre = pre1 ++ LLabel cols fields :: pre2 /\ length fields = length cols /\
                         forallb (fun x => negb (is_label x)) pre2 = true.
Proof.
  induction l as [|x l IH]; intros cur pre it fields post Hok Heq.
  - destruct pre; discriminate.
  - destruct pre as [|y pre].
    + cbn [app] in Heq. inversion Heq as [[Hx Hl]]. subst x. cbn [lines_ok] in Hok. left. split; [tauto|reflexivity].
    + cbn [app] in Heq. inversion Heq as [[Hx Hl]]. subst y.
      destruct x as [cols m|it' f]; cbn [lines_ok] in Hok.
      * destruct Hok as [Hlen Hok].
        destruct (IH (Some m) pre it fields post Hok Hl) as [[Hc Hp]|[pre1 [cols' [pre2 [Hp [Hlen' Hnl]]]]]].
        -- right. exists [], cols, pre. inversion Hc. subst m. cbn [app]. auto.
        -- right. exists (LLabel cols m :: pre1), cols', pre2. subst pre. cbn [app]. auto.
      * destruct Hok as [Hc Hok].
        destruct (IH cur pre it fields post Hok Hl) as [[Hc' Hp]|[pre1 [cols' [pre2 [Hp [Hlen' Hnl]]]]]].
        -- left. split; [exact Hc'|]. cbn [forallb is_label negb andb]. exact Hp.
        -- right. exists (LData it' f :: pre1), cols', pre2. subst pre. cbn [app]. auto.
Qed.

(* events after which the label flag is known to be raised when the columns changed.  In the code as it
   stands a flag switched through the script interface does not call config_changed(). *)
Definition ev_safe (e : tevent) : bool :=
  match e with TConfig c => cfg_ok c | TScriptSet _ => false | _ => true end.

Local Open Scope Z_scope.

Lemma traj_run_app : forall evs1 evs2 s,
  traj_run s (evs1 ++ evs2) =
  let '(s1, l1) := traj_run s evs1 in let '(s2, l2) := traj_run s1 evs2 in (s2, l1 ++ l2).
Proof.
  induction evs1 as [|e evs1 IH]; intros evs2 s; cbn [app traj_run].
  - destruct (traj_run s evs2) as [s2 l2]. reflexivity.
  - destruct (traj_event s e) as [s1 l1]. rewrite IH.
    destruct (traj_run s1 evs1) as [s2 l2]. destruct (traj_run s2 evs2) as [s3 l3].
    rewrite app_assoc. reflexivity.
Qed.

Lemma traj_lines_inv : forall evs s cur,
  forallb ev_safe evs = true -> cfg_ok (t_cfg s) = true ->
  (t_labels s = true \/ cur = Some (expected_of (t_cfg s))) ->
  lines_ok cur (snd (traj_run s evs)).
Proof.
  induction evs as [|e evs IH]; intros s cur Hev Hcfg Hinv; cbn [traj_run snd]; [exact I|].
  cbn [forallb] in Hev. apply andb_true_iff in Hev. destruct Hev as [He Hev].
  destruct (traj_event s e) as [s1 l1] eqn:E1.
  specialize (IH s1).
  destruct (traj_run s1 evs) as [s2 l2] eqn:E2. cbn [snd] in *.
  apply lines_ok_app.
  destruct e as [it|c|c|f|it0]; cbn [traj_event ev_safe] in *.
  - (* TCalc *)
    unfold traj_calc in E1.
    destruct (t_freq s =? 0) eqn:Ef.
    + inversion E1; subst s1 l1. cbn [lines_ok last_label]. split; [exact I|]. apply IH; assumption.
    + destruct ((it - t_it_restart s =? 0) || t_labels s || (it mod (t_freq s * 1000) =? 0))%bool eqn:El.
      * inversion E1; subst s1 l1. cbn [app].
        destruct (it mod t_freq s =? 0).
        -- cbn [app lines_ok last_label]. rewrite (data_eq_expected _ Hcfg).
           repeat split; try apply expected_length.
           apply IH; cbn [t_cfg t_labels]; auto.
        -- cbn [app lines_ok last_label]. repeat split; try apply expected_length.
           apply IH; cbn [t_cfg t_labels]; auto.
      * apply orb_false_iff in El. destruct El as [El _]. apply orb_false_iff in El. destruct El as [_ El].
        destruct Hinv as [Hinv|Hinv]; [congruence|].
        inversion E1; subst s1 l1. cbn [app].
        destruct (it mod t_freq s =? 0).
        -- cbn [lines_ok last_label]. rewrite (data_eq_expected _ Hcfg). split; [split; [assumption|exact I]|].
           apply IH; cbn [t_cfg t_labels]; auto.
        -- cbn [lines_ok last_label]. split; [exact I|]. apply IH; cbn [t_cfg t_labels]; auto.
  - inversion E1; subst s1 l1. cbn [lines_ok last_label]. split; [exact I|]. apply IH; cbn [t_cfg t_labels]; auto.
  - discriminate.
  - inversion E1; subst s1 l1. cbn [lines_ok last_label]. split; [exact I|]. apply IH; cbn [t_cfg t_labels]; auto.
  - inversion E1; subst s1 l1. cbn [lines_ok last_label]. split; [exact I|]. apply IH; cbn [t_cfg t_labels]; auto.
Qed.

(* the statement in the form of the property text *)
Lemma columns_match_label_partial : forall freq c evs pre it fields post,
  cfg_ok c = true -> forallb ev_safe evs = true ->
  snd (traj_run (traj_init freq c) evs) = pre ++ LData it fields :: post ->
  exists pre1 cols pre2,
    pre = pre1 ++ LLabel cols fields :: pre2 /\ length fields = length cols /\
    forallb (fun x => negb (is_label x)) pre2 = true.
Proof.
  intros freq c evs pre it fields post Hc Hev Heq.
  pose proof (traj_lines_inv evs (traj_init freq c) None Hev Hc (or_introl eq_refl)) as Hok.
  destruct (lines_ok_split _ _ _ _ _ _ Hok Heq) as [[Habs _]|H]; [discriminate|exact H].
Qed.

(* every label line is the label of some configuration, with the documented meaning *)
Lemma labels_are_configs : forall evs s cols m,
  In (LLabel cols m) (snd (traj_run s evs)) -> exists c, cols = labels_of c /\ m = expected_of c.
Proof.
  induction evs as [|e evs IH]; intros s cols m Hin; cbn [traj_run snd] in Hin; [contradiction|].
  destruct (traj_event s e) as [s1 l1] eqn:E1. destruct (traj_run s1 evs) as [s2 l2] eqn:E2. cbn [snd] in Hin.
  apply in_app_or in Hin. destruct Hin as [Hin|Hin].
  - destruct e as [it|c|c|f|it0]; cbn [traj_event] in E1; try (inversion E1; subst; contradiction).
    unfold traj_calc in E1. destruct (t_freq s =? 0); [inversion E1; subst; contradiction|].
    inversion E1; subst s1 l1. apply in_app_or in Hin. destruct Hin as [Hin|Hin].
    + destruct ((it - t_it_restart s =? 0) || t_labels s || (it mod (t_freq s * 1000) =? 0))%bool; [|contradiction].
      destruct Hin as [Hin|[]]. inversion Hin. exists (t_cfg s). auto.
    + destruct (it mod t_freq s =? 0); [|contradiction]. destruct Hin as [Hin|[]]. discriminate.
  - apply (IH s1). rewrite E2. exact Hin.
Qed.

(* ---- which steps get a line --------------------------------------------------------------------- *)
Definition no_freq_change (e : tevent) : bool := match e with TFreq _ => false | _ => true end.

Lemma data_steps_app : forall l1 l2, data_steps (l1 ++ l2) = data_steps l1 ++ data_steps l2.
Proof. intros. unfold data_steps. apply flat_map_app. Qed.

Lemma traj_event_freq : forall s e s1 l1, no_freq_change e = true -> traj_event s e = (s1, l1) -> t_freq s1 = t_freq s.
Proof.
  intros s e s1 l1 He E. destruct e; cbn [traj_event no_freq_change] in *; try discriminate;
    try (inversion E; reflexivity).
  unfold traj_calc in E. destruct (t_freq s =? 0); inversion E; reflexivity.
Qed.

Lemma data_steps_filter : forall evs s,
  forallb no_freq_change evs = true -> t_freq s <> 0 ->
  data_steps (snd (traj_run s evs)) = filter (fun it => it mod t_freq s =? 0) (calc_steps evs).
Proof.
  induction evs as [|e evs IH]; intros s Hev Hf; cbn [traj_run snd]; [reflexivity|].
  cbn [forallb] in Hev. apply andb_true_iff in Hev. destruct Hev as [He Hev].
  destruct (traj_event s e) as [s1 l1] eqn:E1.
  pose proof (traj_event_freq _ _ _ _ He E1) as Hfr.
  specialize (IH s1 Hev). rewrite Hfr in IH. specialize (IH Hf).
  destruct (traj_run s1 evs) as [s2 l2] eqn:E2. cbn [snd] in *.
  rewrite data_steps_app, IH. unfold calc_steps. cbn [flat_map].
  destruct e as [it|c|c|f|it0]; cbn [traj_event no_freq_change] in *; try discriminate;
    try (inversion E1; subst; reflexivity).
  unfold traj_calc in E1. destruct (t_freq s =? 0) eqn:Ef; [apply Z.eqb_eq in Ef; contradiction|].
  inversion E1; subst s1 l1. rewrite data_steps_app. cbn [app filter].
  destruct ((it - t_it_restart s =? 0) || t_labels s || (it mod (t_freq s * 1000) =? 0))%bool;
    destruct (it mod t_freq s =? 0); reflexivity.
Qed.

(* a run: calc() at the consecutive steps s0, s0+1, ..., s0+n-1 *)
Definition run_steps (s0 : Z) (n : nat) : list Z := map (fun i => s0 + Z.of_nat i) (seq 0 n).
Definition run_events (s0 : Z) (n : nat) : list tevent := map TCalc (run_steps s0 n).

Lemma calc_steps_run : forall l, calc_steps (map TCalc l) = l.
Proof. induction l as [|a l IH]; [reflexivity|]. unfold calc_steps in *. cbn [map flat_map app]. rewrite IH. reflexivity. Qed.

Lemma run_events_nofreq : forall l, forallb no_freq_change (map TCalc l) = true.
Proof. induction l as [|a l IH]; [reflexivity|]. cbn [map forallb no_freq_change andb]. exact IH. Qed.

Lemma run_steps_nodup : forall s0 n, NoDup (run_steps s0 n).
Proof.
  intros s0 n. unfold run_steps. apply FinFun.Injective_map_NoDup; [|apply seq_NoDup].
  intros a b H. lia.
Qed.

Lemma NoDup_filter {A} (p : A -> bool) (l : list A) : NoDup l -> NoDup (filter p l).
Proof.
  induction 1 as [|a l Hn Hd IH]; cbn [filter]; [constructor|].
  destruct (p a); [constructor; [|exact IH]|exact IH]. intros Hin. apply filter_In in Hin. tauto.
Qed.

Lemma one_line_per_multiple : forall s s0 n,
  0 < t_freq s ->
  let steps := data_steps (snd (traj_run s (run_events s0 n))) in
  NoDup steps /\
  forall it, In it steps <-> (s0 <= it < s0 + Z.of_nat n /\ exists k, it = k * t_freq s).
Proof.
  intros s s0 n Hf steps. subst steps. unfold run_events.
  rewrite data_steps_filter by (try apply run_events_nofreq; lia).
  rewrite calc_steps_run. split.
  - apply NoDup_filter, run_steps_nodup.
  - intros it. rewrite filter_In. unfold run_steps. rewrite in_map_iff. split.
    + intros [[i [Hi Hin]] Hm]. apply in_seq in Hin. apply Z.eqb_eq in Hm. split; [lia|].
      exists (it / t_freq s). rewrite (Z.div_mod it (t_freq s)) at 1 by lia. lia.
    + intros [Hr [k Hk]]. split.
      * exists (Z.to_nat (it - s0)). split; [lia|]. apply in_seq. lia.
      * apply Z.eqb_eq. subst it. apply Z_mod_mult.
Qed.

Local Close Scope Z_scope.

(* =================================================================================================
   witnesses on a computable carrier (exact rationals; the square root slot is the identity, so the
   "stddev" field of a running-average line is not used in witnesses, the variance field is)
   ================================================================================================= *)
From CV Require Import C19.OutputSpec.

Definition Qltb (a b : Q) : bool := match Qcompare a b with Lt => true | _ => false end.
Definition Qleb (a b : Q) : bool := match Qcompare a b with Gt => false | _ => true end.
Definition Qops : NumOps Q :=
  mkNumOps Q 0%Q 1%Q (fun a b => Qred (a + b)) (fun a b => Qred (a - b)) (fun a b => Qred (a * b))
           (fun a b => Qred (a / b)) (fun a => Qred (- a))
           (fun a => a) (fun a => a) (fun a => a) (fun a => a) (fun a => a) (fun a => a)
           (fun a _ => a) (fun a _ => a) inject_Z Qfloor Qltb Qleb Qeq_bool.

(* steps 0,1,2,.. with the given values *)
Fixpoint hist_from {A} (t : nat) (xs : list A) : list (nat * A) :=
  match xs with [] => [] | x :: r => (t, x) :: hist_from (S t) r end.
Definition hist {A} (xs : list A) : list (nat * A) := hist_from 0 xs.

Section Witnesses.
  Local Open Scope Q_scope.
  Definition w_xs : list Q := [1; 2; 4; 8; 16].

  (* window 3, stride 1: the line of step 4 reports (16+8+4+2)/3 = 10, the mean of the last three values is 28/3 *)
  Lemma w_runave_mean :
    exists av var sd, In (4%nat, av, var, sd) (runave_run Qops 3 1 (r0 (T:=Q)) None (hist w_xs)) /\
      av = 10 /\ win_mean Qops w_xs 3 1 4 = 28 # 3.
  Proof. vm_compute. do 3 eexists. split; [right; left; reflexivity|]. split; reflexivity. Qed.

  (* same run, the line of step 3 (the first one; its mean 14/3 is right): the variance field is
     ((8-14/3)^2 + (8-4)^2 + (8-2)^2)/2 = 284/9, the sample variance of 2,4,8 is 28/3 *)
  Lemma w_runave_var :
    exists av var sd, In (3%nat, av, var, sd) (runave_run Qops 3 1 (r0 (T:=Q)) None (hist w_xs)) /\
      av = win_mean Qops w_xs 3 1 3 /\ var = 284 # 9 /\ win_var Qops w_xs 3 1 3 = 28 # 3.
  Proof. vm_compute. do 3 eexists. split; [left; reflexivity|]. repeat split; reflexivity. Qed.
End Witnesses.

(* a flag switched through the script interface changes the columns without a new label line *)
Definition w_cfg1 : config := mkCfg [mkVF 0 true false false false false false false] [].
Definition w_cfg2 : config := mkCfg [mkVF 0 true true false false false false false] [].
Lemma w_script_set :
  snd (traj_run (traj_init 1 w_cfg1) [TCalc 0; TScriptSet w_cfg2; TCalc 1]) =
    [LLabel [CVal 0%Z] [SXrep 0%Z]; LData 0 [SXrep 0%Z]; LData 1 [SXrep 0%Z; SVrep 0%Z]].
Proof. vm_compute. reflexivity. Qed.

(* alb: label order energy, coupling, gradient, centers; data order energy, coupling, centers, gradient *)
Definition w_alb : bflags := mkBF 1 BAlb [0%Z] false true false false false false true.
Lemma w_alb_order :
  bias_label w_alb = [CGrad 1%Z 0%Z; CCenter 1%Z 0%Z] /\ bias_data w_alb = [SBC 1%Z 0%Z; SBGrad 1%Z 0%Z].
Proof. vm_compute. split; reflexivity. Qed.

Section WitnessesAcf.
  Local Open Scope Q_scope.
  Definition w_ys : list (list Q) := [[1]; [2]; [4]; [8]; [16]; [32]].
  Definition selfh (l : list (list Q)) := hist (map (fun v => (v, v)) l).

  (* corrFuncOffset 1, length 1, stride 1, normalised: the first row is labelled lag 1 and holds C(0)/C(0) = 1;
     the correlation at lag 1 of 1,2,4,.. normalised by lag 0 is 1/2 *)
  Lemma w_acf_offset :
    fst (acf_model Qops AcfCoor true 1 1 1 (selfh w_ys)) = [(1%nat, 1); (2%nat, 1 # 4)].
  Proof. vm_compute. reflexivity. Qed.

  (* correlation of variable i (values 1,1,1,..) with variable j (values 1,2,4,..), not normalised, length 1:
     lag 0 row = <x_i^2> = 1 and lag 1 row = <x_j(t-1) x_j(t)>, neither involves the product x_i x_j *)
  Definition w_cross := hist (map (fun v : list Q => ([1], v)) w_ys).
  Lemma w_acf_cross :
    fst (acf_model Qops AcfCoor false 1 1 0 w_cross) =
      [(0%nat, 1); (1%nat, ndiv Qops (corr_sum Qops (vdot Qops) [] w_ys w_ys 1 2 4) 4)] /\
    ndiv Qops (corr_sum Qops (vdot Qops) [] (repeat [1] 6) w_ys 1 2 4) 4 = 15 /\
    ndiv Qops (corr_sum Qops (vdot Qops) [] w_ys w_ys 1 2 4) 4 = 170.
  Proof. vm_compute. repeat split; reflexivity. Qed.
End WitnessesAcf.
