(* C19: written outputs describe the internal state at the stated step.
   STAGE 1 (faithful model of the unchanged code): statements the code violates are carried as _refuted. *)
From Coq Require Import ZArith List Bool Arith QArith.
From CV Require Import Base.Num Base.RNum C19.OutputModel C19.OutputSpec C19.OutputProofs.
Import ListNotations.

Theorem C19_one_line_per_multiple : forall s s0 n, (0 < t_freq s)%Z ->
  let steps := data_steps (snd (traj_run s (run_events s0 n))) in
  NoDup steps /\
  forall it, In it steps <-> ((s0 <= it < s0 + Z.of_nat n)%Z /\ exists k, it = (k * t_freq s)%Z).
Proof. exact one_line_per_multiple. Qed.
Print Assumptions C19_one_line_per_multiple.

Theorem C19_columns_match_label_partial : forall freq c evs pre it fields post,
  cfg_ok c = true -> forallb ev_safe evs = true ->
  snd (traj_run (traj_init freq c) evs) = pre ++ LData it fields :: post ->
  exists pre1 cols pre2,
    pre = pre1 ++ LLabel cols fields :: pre2 /\ length fields = length cols /\
    forallb (fun x => negb (is_label x)) pre2 = true.
Proof. exact columns_match_label_partial. Qed.
Print Assumptions C19_columns_match_label_partial.

Theorem C19_columns_match_label_refuted : exists freq c evs it fields,
  snd (traj_run (traj_init freq c) evs) = [LLabel [CVal 0%Z] [SXrep 0%Z]; LData 0 [SXrep 0%Z]; LData it fields] /\
  length fields = 2%nat.
Proof. exists 1%Z, w_cfg1, [TCalc 0; TScriptSet w_cfg2; TCalc 1], 1%Z, [SXrep 0%Z; SVrep 0%Z]. split; [exact w_script_set|reflexivity]. Qed.
Print Assumptions C19_columns_match_label_refuted.

Theorem C19_columns_alb_refuted : exists b, map bcol_src (bias_label b) <> bias_data b.
Proof. exists w_alb. destruct w_alb_order as [H1 H2]. rewrite H1, H2. cbn. discriminate. Qed.
Print Assumptions C19_columns_alb_refuted.

Theorem C19_runave_is_window_mean_refuted : exists L s xs t av var sd,
  In (t, av, var, sd) (runave_run Qops L s (r0 (T:=Q)) None (hist xs)) /\ Qeq_bool av (win_mean Qops xs L s t) = false.
Proof.
  destruct w_runave_mean as [av [var [sd [H1 [H2 H3]]]]].
  exists 3%nat, 1%nat, w_xs, 4%nat, av, var, sd. split; [exact H1|]. rewrite H2, H3. reflexivity.
Qed.
Print Assumptions C19_runave_is_window_mean_refuted.

Theorem C19_runave_stddev_refuted : exists L s xs t av var sd,
  In (t, av, var, sd) (runave_run Qops L s (r0 (T:=Q)) None (hist xs)) /\
  av = win_mean Qops xs L s t /\ Qeq_bool var (win_var Qops xs L s t) = false.
Proof.
  destruct w_runave_var as [av [var [sd [H1 [H2 [H3 H4]]]]]].
  exists 3%nat, 1%nat, w_xs, 3%nat, av, var, sd. split; [exact H1|]. split; [exact H2|]. rewrite H3, H4. reflexivity.
Qed.
Print Assumptions C19_runave_stddev_refuted.

Theorem C19_acf_offset_refuted : exists ys,
  fst (acf_model Qops AcfCoor true 1 1 1 (selfh ys)) = [(1%nat, 1%Q); (2%nat, (1 # 4)%Q)].
Proof. exists w_ys. exact w_acf_offset. Qed.
Print Assumptions C19_acf_offset_refuted.
