(* C19: written outputs describe the internal state at the stated step.
   Statements only; model in OutputModel.v (mirrors colvarmodule::write_traj_files / write_traj_label /
   write_traj, the write_traj_label / write_traj of variables and biases, colvar::calc_colvar_properties
   (finite-difference velocity), calc_runave, calc_acf / write_acf, AFTER the eight `fix:` commits of branch
   fix-C19), textbook definitions in OutputSpec.v, proofs in OutputProofs.v. *)
From Coq Require Import ZArith List Bool Arith Reals QArith.
From CV Require Import Base.Num Base.RNum C19.OutputModel C19.OutputSpec C19.OutputProofs.
Import ListNotations.

(* ---- trajectory file: which steps get a line ---------------------------------------------------- *)
(* Within a run (calc() at the consecutive steps s0 .. s0+n-1, from ANY writer state: any configuration,
   label flag, restart step) the data lines carry exactly the multiples of the output frequency in the run
   interval, each once. *)
Theorem C19_one_line_per_multiple : forall (s : tstate) (s0 : Z) (n : nat), (0 < t_freq s)%Z ->
  let steps := data_steps (snd (traj_run s (run_events s0 n))) in
  NoDup steps /\
  forall it, In it steps <-> ((s0 <= it < s0 + Z.of_nat n)%Z /\ exists k, it = (k * t_freq s)%Z).
Proof. exact one_line_per_multiple. Qed.
Print Assumptions C19_one_line_per_multiple.

(* For every event sequence without a change of the frequency (steps in any order, repeated steps at run
   boundaries, configuration changes, script flag switches, restarts): a data line for a calc() iff its step
   is a multiple of the frequency, in order. *)
Theorem C19_line_steps_are_multiples : forall (evs : list tevent) (s : tstate),
  forallb no_freq_change evs = true -> t_freq s <> 0%Z ->
  data_steps (snd (traj_run s evs)) = filter (fun it => (it mod t_freq s =? 0)%Z) (calc_steps evs).
Proof. exact data_steps_filter. Qed.
Print Assumptions C19_line_steps_are_multiples.

(* ---- trajectory file: columns --------------------------------------------------------------------- *)
(* For every initial configuration (all combinations of output flags on any number of variables and biases
   of the seven classes) and every sequence of steps, configuration changes, script flag switches, frequency
   changes and restarts: every data line is preceded by a label line, and the quantities it prints are
   exactly the documented meaning of the columns of the MOST RECENT label line, in the same order (hence
   as many fields as announced columns). *)
Theorem C19_columns_match_label : forall freq c evs pre it fields post,
  snd (traj_run (traj_init freq c) evs) = pre ++ LData it fields :: post ->
  exists pre1 cols pre2,
    pre = pre1 ++ LLabel cols fields :: pre2 /\ length fields = length cols /\
    forallb (fun x => negb (is_label x)) pre2 = true.
Proof. exact columns_match_label. Qed.
Print Assumptions C19_columns_match_label.

(* a label line is the label of the configuration in force, with the per-column meaning of OutputModel.vcol_src *)
Theorem C19_label_lines_are_configurations : forall evs s cols m,
  In (LLabel cols m) (snd (traj_run s evs)) -> exists c, cols = labels_of c /\ m = expected_of c.
Proof. exact labels_are_configs. Qed.
Print Assumptions C19_label_lines_are_configurations.

(* per object: what write_traj prints is the meaning of what write_traj_label announces, in order *)
Theorem C19_object_columns : (forall f, map (vcol_src f) (var_label f) = var_data f) /\
                             (forall b, map bcol_src (bias_label b) = bias_data b).
Proof. split; [exact var_cols|exact bias_cols]. Qed.
Print Assumptions C19_object_columns.

(* ---- finite-difference velocity ------------------------------------------------------------------- *)
(* the value under "v_<name>" on the line of relative step t >= 1 is (x(t) - x(t-1))/dt: it belongs to step t *)
Theorem C19_velocity_is_backward_difference : forall (dt : R) (s : vstate) (xs : list R) (t : nat),
  (0 < dt)%R -> (1 <= t < length xs)%nat ->
  nth t (vel_run Rops dt s None (hist xs)) 0%R = ((nth t xs 0 - nth (t - 1) xs 0) / dt)%R.
Proof. exact velocity_is_backward_difference. Qed.
Print Assumptions C19_velocity_is_backward_difference.

Theorem C19_velocity_kept_on_repeated_step : forall (dt : R) s t x,
  vs_vrep (vel_step Rops dt s (Some (S t)) (S t) x) = vs_vrep s.
Proof. exact velocity_kept_on_repeated_step. Qed.
Print Assumptions C19_velocity_kept_on_repeated_step.

(* ---- running average and standard deviation ------------------------------------------------------- *)
(* For all value sequences xs (x(t) = nth t xs, relative steps 0..length xs - 1), window lengths L >= 1,
   strides s >= 1 and first steps it0: the file has a line exactly for every relative step t >= 1 that is a
   multiple of the stride with L strided samples after step 0 (L s <= t); the line carries the absolute step,
   the arithmetic mean of x(t), x(t-s), .., x(t-(L-1)s), their sample variance (divisor L-1) and its root. *)
Theorem C19_runave_is_window_mean : forall (xs : list R) (L s it0 : nat), (1 <= L)%nat -> (1 <= s)%nat ->
  forall step av var sd,
    In (step, av, var, sd) (runave_run Rops L s it0 (r0 (T:=R)) None (hist xs)) <->
    exists t, (1 <= t < length xs /\ t mod s = 0 /\ L * s <= t)%nat /\
              step = (it0 + t)%nat /\
              av = (sumf Rops (fun j => nth (t - j * s) xs 0) L / INR L)%R /\
              var = (sumf Rops (fun j => (nth (t - j * s) xs 0 - av) * (nth (t - j * s) xs 0 - av)) L / INR (L - 1))%R /\
              sd = sqrt var.
Proof. exact runave_line_iff. Qed.
Print Assumptions C19_runave_is_window_mean.

(* the same as one equation (order and multiplicity of the lines included) *)
Theorem C19_runave_stddev : forall (xs : list R) (L s it0 : nat), (1 <= L)%nat -> (1 <= s)%nat ->
  runave_run Rops L s it0 (r0 (T:=R)) None (hist xs) =
  flat_map (fun t => if emits L s t
                     then [((it0 + t)%nat, win_mean Rops xs L s t, win_var Rops xs L s t, sqrt (win_var Rops xs L s t))]
                     else [])
           (seq 1 (length xs - 1)).
Proof. exact runave_lines. Qed.
Print Assumptions C19_runave_stddev.

Theorem C19_runave_one_line_per_step : forall (xs : list R) (L s it0 : nat), (1 <= L)%nat -> (1 <= s)%nat ->
  NoDup (map (fun l : nat * R * R * R => fst (fst (fst l))) (runave_run Rops L s it0 (r0 (T:=R)) None (hist xs))).
Proof. exact runave_steps_nodup. Qed.
Print Assumptions C19_runave_one_line_per_step.

(* Any value type (scalar, periodic scalar, 3-vector, unit vector, quaternion: V with the operations calc_runave
   uses) and an analysis that starts at ANY relative step t0 (a variable defined in the middle of a run): the first
   call only initialises; a line is written exactly at the relative steps u > t0 on the stride grid for which the
   L evenly spaced steps u, u-s, .., u-(L-1)s are all after t0 (whether or not t0 is on the grid); it carries
   constrain((x(u) + near(x(u), x(u-s)) + ..)/L) and the sample variance of the window measured with the variable's
   own metric (colvar::dist2). *)
Theorem C19_runave_any_type_any_start : forall (V : Type) (P : @vops R V) (dflt : V) (xs : list V) (L s it0 t0 : nat),
  (1 <= L)%nat -> (1 <= s)%nat -> (t0 < length xs)%nat ->
  runaveV_run Rops P L s it0 (rv0 (V:=V)) None (hist_from t0 (skipn t0 xs)) =
  flat_map (fun u => if emitsV L s t0 u
                     then [((it0 + u)%nat, win_meanV Rops P dflt xs L s u, win_varV Rops P dflt xs L s u,
                            sqrt (win_varV Rops P dflt xs L s u))]
                     else [])
           (seq (S t0) (length xs - S t0)).
Proof. intros V P dflt xs L s it0 t0 HL Hs Ht. exact (runaveV_lines P dflt xs L s it0 t0 HL Hs Ht). Qed.
Print Assumptions C19_runave_any_type_any_start.

Theorem C19_runave_line_condition : forall (L s t0 t : nat), (1 <= L)%nat -> (1 <= s)%nat ->
  emitsV L s t0 t = true <-> (t mod s = 0 /\ t0 / s * s + L * s <= t)%nat.
Proof. intros L s t0 t HL Hs. exact (emitsV_iff L s t0 HL Hs t). Qed.
Print Assumptions C19_runave_line_condition.

(* periodic scalars (period p, wrapped around c): an older value enters the average through its image within half a
   period of the current value; the average is wrapped into [c - p/2, c + p/2); the deviations use the shortest image *)
Theorem C19_runave_periodic_images : forall p c : R, (0 < p)%R ->
  (forall x xi, exists (k : Z) (y : R), lv_near Rops (KPeriodic p c) [x] [xi] = [y] /\
                                        (y = xi - IZR k * p /\ - p / 2 <= y - x < p / 2)%R) /\
  (forall m, exists (k : Z) (y : R), lv_constrain Rops (KPeriodic p c) [m] = [y] /\
                                     (y = m - IZR k * p /\ c - p / 2 <= y < c + p / 2)%R) /\
  (forall d, exists k : Z, (pimage Rops p d = d - IZR k * p /\ - p / 2 <= d - IZR k * p < p / 2)%R).
Proof.
  intros p c Hp. split; [|split].
  - intros x xi. exact (periodic_near_image p c x xi Hp).
  - intros m. exact (periodic_constrain_wraps p c m Hp).
  - intros d. exact (pimage_min_image p d Hp).
Qed.
Print Assumptions C19_runave_periodic_images.

(* The window is part of the state (scalar variables).  A run of relative steps 0..n-1 interrupted after step S - the
   state written there, S >= 1 on the stride grid, i.e. a step whose value was sampled - and resumed by a new job with
   the same stride (it computes step S again without effect and counts its relative steps from S) writes, in its two
   files together, exactly the lines of the uninterrupted run, for every carrier, window, stride and value sequence.
   (When the state is written at a step off the grid, or the stride differs, the window is not restored and the resumed
   job's analysis starts at S: C19_runave_any_type_any_start with t0 = S.) *)
Theorem C19_runave_resumed_is_uninterrupted : forall (T : Type) (O : NumOps T) (L s it0 S : nat) (xs : list T),
  (1 <= s)%nat -> (S mod s = 0)%nat -> (S < length xs)%nat ->
  let h1 := hist (firstn (Datatypes.S S) xs) in
  let st1 := runave_final O L s it0 (r0 (T:=T)) None h1 in
  runave_run O L s it0 (r0 (T:=T)) None h1 ++
  runave_run O L s (it0 + S) st1 (Some 0%nat) (hist_from 1 (skipn (Datatypes.S S) xs)) =
  runave_run O L s it0 (r0 (T:=T)) None (hist xs).
Proof. exact runave_resumed_is_uninterrupted. Qed.
Print Assumptions C19_runave_resumed_is_uninterrupted.

(* the resumed job may use a SHORTER window (the configuration of the new job legally differs): it keeps the newest
   L'-1 values, which is the state a job with window L' would have reached on the same history - so, with
   C19_runave_resumed_is_uninterrupted at L', it continues the series of an uninterrupted L'-run *)
Theorem C19_runave_resumed_with_shorter_window : forall (T : Type) (O : NumOps T) (L L' s it0 : nat) (h : list (nat * T)),
  (L' <= L)%nat ->
  runave_resume L' (runave_final O L s it0 (r0 (T:=T)) None h) = runave_final O L' s it0 (r0 (T:=T)) None h.
Proof. intros T O L L' s it0 h H. apply (runave_resume_shorter O L L' s it0 H h). Qed.
Print Assumptions C19_runave_resumed_with_shorter_window.

(* quaternion variables: the deviations are measured by cvm::quaternion::dist2, for which q and -q are the same
   rotation (unit quaternions: inner product in [-1, 1]) *)
Theorem C19_runave_quaternion_metric : forall a b : list R, (-1 <= vdot Rops a b <= 1)%R ->
  lv_dist2 Rops KQuat (map Ropp a) b = lv_dist2 Rops KQuat a b.
Proof. exact quat_dist2_antipodal. Qed.
Print Assumptions C19_runave_quaternion_metric.

(* ---- time-correlation function -------------------------------------------------------------------- *)
(* For all sequences xi, xj of values (component lists) of this variable and of the variable named by
   corrFuncWithColvar (xi = xj for the autocorrelation), all lengths, strides >= 1, offsets, the three
   correlation types, after the relative steps 0..n:
     N = n - (len+off) s time origins u = (len+off) s + 1, .., n have a full window;
     S(k) = sum over these u of P(xi(u - lag k), xj(u)),  lag 0 = 0,  lag k = (off + k) s;
     the file has the rows (0, C(0)), ((off+1) s, C(1)), .., ((off+len) s, C(len)) with
     C(k) = S(k)/S(0) when normalised, S(k)/N otherwise; nothing is written when N = 0. *)
Theorem C19_acf_definition : forall (ty : acf_type) (normalize : bool) (len s off : nat) (xi xj : list (list R)) (n : nat),
  (1 <= s)%nat ->
  let M := (len + off)%nat in
  let N := (n - M * s)%nat in
  let S_ k := corr_sum Rops (acf_pair Rops ty) [] xi xj (lagof s off k) (M * s + 1) N in
  let row k := if normalize then (S_ k / S_ 0%nat)%R else (S_ k / INR N)%R in
  acf_model Rops ty normalize len s off (pair_hist [] xi xj 0 (S n)) =
    (match N with
     | 0%nat => []
     | S _ => (0%nat, row 0%nat) :: map (fun k => ((s * (off + k))%nat, row k)) (seq 1 len)
     end, N).
Proof. exact acf_model_written. Qed.
Print Assumptions C19_acf_definition.

(* a step computed twice (run boundary in the same process) changes neither analysis *)
Theorem C19_repeated_step_is_ignored :
  (forall L s it0 st t (x : R), r_init st = true -> runave_step Rops L s it0 st (Some t) t x = (st, None)) /\
  (forall (V : Type) (pair : V -> V -> R) len s off st t x y, a_hist st <> [] ->
     acf_step Rops pair len s off st (Some t) t x y = st).
Proof. split; [exact runave_repeated_step|exact acf_repeated_step]. Qed.
Print Assumptions C19_repeated_step_is_ignored.

(* ---- the other output files: which steps write them --------------------------------------------- *)
(* A run over the steps s0 .. s0+n followed by the end of the run (post_run).  For the variables' output files
   (correlation functions; governed by the restart frequency) and for the output files of every bias (governed by
   its outputFreq; bias names distinct): the file is written at most once per step, exactly at the steps of the run
   after its first one that are multiples of the governing frequency, and at the last step; so the last write - what
   is left on disk - is made at the last step of the run. *)
Theorem C19_output_files_final_and_once : forall (c : ocfg) (k : ofile) (f s0 : Z) (n : nat),
  NoDup (map fst (oc_biases c)) -> governs c k f ->
  let last := (s0 + Z.of_nat n)%Z in
  let w := writes_of k (out_run c (map OCalc (run_steps s0 (S n)) ++ [OEnd last])) in
  NoDup w /\ List.last w 0%Z = last /\
  forall it, In it w <-> (it = last \/ ((s0 <= it <= last)%Z /\ at_freq c f it = true)).
Proof. exact output_final_and_once. Qed.
Print Assumptions C19_output_files_final_and_once.

(* the state file (whose `step` field is the step at which it is written): at the restart-frequency steps and,
   always, at the end of the run *)
Theorem C19_state_file_steps : forall (c : ocfg) (s0 : Z) (n : nat),
  let last := (s0 + Z.of_nat n)%Z in
  writes_of FState (out_run c (map OCalc (run_steps s0 (S n)) ++ [OEnd last])) =
  filter (at_freq c (oc_restart_freq c)) (run_steps s0 (S n)) ++ [last].
Proof. exact state_file_steps. Qed.
Print Assumptions C19_state_file_steps.

(* a new job whose first step it0 is given by a state file or the engine: lines at the ABSOLUTE multiples of the
   frequency wherever it0 lies with respect to the grid; it0 itself gets a line only if it is a multiple *)
Theorem C19_restarted_segment_on_absolute_grid : forall freq c it0 n, (0 < freq)%Z ->
  let steps := data_steps (snd (traj_run (traj_init freq c) (TRestart it0 :: run_events it0 n))) in
  NoDup steps /\
  (forall it, In it steps <-> ((it0 <= it < it0 + Z.of_nat n)%Z /\ (it mod freq = 0)%Z)) /\
  (In it0 steps <-> ((1 <= n)%nat /\ (it0 mod freq = 0)%Z)).
Proof. exact restarted_segment_on_absolute_grid. Qed.
Print Assumptions C19_restarted_segment_on_absolute_grid.

(* the writers put a blank before every field and setw() pads but never cuts: splitting a line on blanks gives back
   the fields whatever their lengths - numbers wider than the 21-character column do not run into their neighbours *)
Theorem C19_fields_never_merge : forall w toks,
  Forall (fun t => no_blank t /\ t <> []) toks -> split_blanks [] (write_fields w toks) = toks.
Proof. exact fields_never_merge. Qed.
Print Assumptions C19_fields_never_merge.

(* ABF history files: over write steps without repetition, one block exactly for the multiples of historyFreq;
   a write repeated for the same step adds no block *)
Theorem C19_abf_history_blocks : forall hf w,
  NoDup w -> abf_hist hf None w = filter (fun it => (0 <? hf)%Z && (it mod hf =? 0)%Z) w.
Proof. intros hf w H. apply abf_hist_nodup; [exact H|exact I]. Qed.
Print Assumptions C19_abf_history_blocks.
Theorem C19_abf_history_not_twice : forall hf it r, abf_hist hf (Some it) (it :: r) = abf_hist hf (Some it) r.
Proof. exact abf_hist_repeated. Qed.
Print Assumptions C19_abf_history_not_twice.

(* a buffered record file (hills trajectory): whatever the interleaving of records and writes, after a write the file
   holds every record made so far, in order; with C19_output_files_final_and_once (a write at the last step of the run)
   the file left by a run is the whole list of records - the list that C05_hills_trajectory characterises *)
Theorem C19_buffered_file_complete : forall R (evs : list (fevent R)),
  fst (flush_run [] [] (evs ++ [FFlush])) = records_of evs.
Proof. exact flush_run_complete. Qed.
Print Assumptions C19_buffered_file_complete.

(* ---- label text ------------------------------------------------------------------------------------ *)
(* FULL STATEMENT (false of the code): the token a reader sees for a column is prefix ++ name, so that different
   columns have different labels.  True for names that fit in the column width: *)
Theorem C19_label_identifies_column_partial : forall prefix n1 n2 width,
  no_blank prefix -> no_blank n1 -> no_blank n2 ->
  (length prefix + length n1 <= width)%nat -> (length prefix + length n2 <= width)%nat ->
  label_token prefix n1 width = prefix ++ n1 /\
  (label_token prefix n1 width = label_token prefix n2 width -> n1 = n2).
Proof.
  intros prefix n1 n2 width Hp H1 H2 L1 L2. split.
  - apply label_token_short; assumption.
  - apply label_token_injective_short; assumption.
Qed.
Print Assumptions C19_label_identifies_column_partial.

(* a longer name is cut to the width (wrap_string) ... *)
Theorem C19_label_cut_when_long : forall prefix name width,
  no_blank prefix -> no_blank name -> (width < length prefix + length name)%nat -> (length prefix <= width)%nat ->
  label_token prefix name width = prefix ++ firstn (width - length prefix) name.
Proof. exact label_token_long. Qed.
Print Assumptions C19_label_cut_when_long.

(* ... so two variables whose names share their first 21 characters are announced by the same label, and so are the
   velocity column of "a" and the value column of a variable named "v_a" (recorded in known_findings.txt) *)
Theorem C19_label_identifies_column_refuted :
  (exists n1 n2, n1 <> n2 /\ no_blank n1 /\ no_blank n2 /\ label_token [] n1 21 = label_token [] n2 21) /\
  label_token [118; 95]%nat [97]%nat 21 = label_token [] [118; 95; 97]%nat 21.
Proof. exact label_collisions. Qed.
Print Assumptions C19_label_identifies_column_refuted.

(* the table of prefixes and widths of the label writers (col_prefix, col_label): for a name that fits in the column
   the label is the column's prefix followed by the object's name; no prefix contains a blank, none is longer than 11 *)
Theorem C19_label_of_column : forall vname bname c,
  let name := match col_object c with inl v => vname v | inr b => bname b end in
  no_blank name -> (length (col_prefix c) + length name <= 21)%nat ->
  col_label vname bname c = col_prefix c ++ name.
Proof. exact col_label_short. Qed.
Print Assumptions C19_label_of_column.

(* ---- what is on disk ------------------------------------------------------------------------------- *)
(* the lines of the trajectory model are exactly the lines sent through the (buffered) stream, which is synchronised
   with the disk at the end of every calc() whose step is a multiple of the restart frequency *)
Theorem C19_stream_carries_the_lines : forall rfreq its s,
  blines (traj_bevents rfreq s its) = snd (traj_run s (map TCalc its)).
Proof. exact traj_bevents_lines. Qed.
Print Assumptions C19_stream_carries_the_lines.

(* a crash at any later point (e2 arbitrary, including spills of the stream buffer): the disk holds every line written
   before the last synchronisation, then a prefix of the later lines, in order *)
Theorem C19_disk_after_crash : forall (L : Type) (e1 e2 : list (bevent L)),
  exists kept lost, fst (buf_run [] [] (e1 ++ BSync :: e2)) = blines e1 ++ kept /\ blines e2 = kept ++ lost.
Proof. intros L. exact disk_after_crash. Qed.
Print Assumptions C19_disk_after_crash.

(* ---- multicolumn grid files -------------------------------------------------------------------------- *)
(* for every grid shape nx (any number of dimensions): the records are written for exactly the indices of the grid,
   each once, in row-major order (last index fastest), prod nx of them; a blank line precedes exactly the records
   whose last index is 0; each record carries the bin centres lower + width (i + 1/2) of its index; reading the file
   back pairs every index with the values written for it *)
Theorem C19_multicol_indices : forall nx,
  NoDup (all_indices nx) /\ length (all_indices nx) = fold_right Nat.mul 1%nat nx /\
  forall ix, In ix (all_indices nx) <-> Forall2 (fun i n => (i < n)%nat) ix nx.
Proof. intros nx. split; [apply all_indices_nodup|]. split; [apply all_indices_length|apply all_indices_shape]. Qed.
Print Assumptions C19_multicol_indices.

Theorem C19_multicol_round_trip : forall (T : Type) (O : NumOps T) nx geom value,
  read_multicol nx (write_multicol O nx geom value) = map (fun ix => (ix, value ix)) (all_indices nx).
Proof. exact @multicol_round_trip. Qed.
Print Assumptions C19_multicol_round_trip.

(* ---- total force when the engine delivers forces one evaluation late ------------------------------ *)
(* for every history of evaluations: the value of ft (the ft_ column) after an evaluation (rel, enabled) that follows
   (rel', enabled', f') is f' - the force exerted at the PREVIOUS evaluation - exactly when rel > 0, the previous
   evaluation was the previous or the same step, and the total-force calculation was on at both; otherwise unchanged *)
Theorem C19_lagged_total_force_rule : forall (T : Type) (h : list (nat * bool * T)) (s : @lfstate T) rel' en' (f' : T) rel en (f : T),
  lf_ft (lf_run s (h ++ [(rel', en', f'); (rel, en, f)])) =
  if ((0 <? rel) && (rel - 1 <=? rel') && en' && en)%nat%bool then f'
  else lf_ft (lf_run s (h ++ [(rel', en', f')])).
Proof. intros T. exact (lagged_force_rule (T:=T)). Qed.
Print Assumptions C19_lagged_total_force_rule.

(* ---- the premises are satisfiable; the specification functions compute what they should ---------- *)
Example C19_ex_multicol :
  write_multicol Qops [2; 2]%nat [(0, 1); (10, 2)]%Q (fun ix => [inject_Z (Z.of_nat (length ix))]) =
    [MBlank; MData [1 # 2; 11]%Q [2%Q]; MData [1 # 2; 13]%Q [2%Q]; MBlank; MData [3 # 2; 11]%Q [2%Q]; MData [3 # 2; 13]%Q [2%Q]].
Proof. vm_compute. reflexivity. Qed.
Example C19_ex_lagged :
  map (fun n => lf_ft (lf_run (lf0 Qops) (firstn n [(0%nat, true, 5%Q); (1%nat, true, 7%Q); (2%nat, false, 9%Q); (3%nat, true, 11%Q); (4%nat, true, 13%Q)])))
      [1; 2; 3; 4; 5]%nat = [0; 5; 5; 5; 11]%Q.
Proof. vm_compute. reflexivity. Qed.
Example C19_ex_label : no_blank [118; 95]%nat /\ label_token [118; 95]%nat [97; 98]%nat 21 = [118; 95; 97; 98]%nat.
Proof. split; [repeat constructor; discriminate|vm_compute; reflexivity]. Qed.
Example C19_ex_out :
  out_run (mkOC 2 0 [(0, 3)])%Z [OCalc 0; OCalc 1; OCalc 2; OCalc 3; OEnd 3]%Z =
    [(2, FState); (2, FColvar); (3, FBias 0); (3, FState); (3, FColvar)]%Z.
Proof. vm_compute. reflexivity. Qed.
Example C19_ex_governs : governs (mkOC 2 0 [(0, 3)])%Z (FBias 0) 3 /\ NoDup (map fst [(0, 3)]%Z).
Proof. split; [left; reflexivity|constructor; [intros []|constructor]]. Qed.
Example C19_ex_run : (0 < t_freq (traj_init 2 (mkCfg [mkVF 0 true true false false true false false] [])))%Z.
Proof. reflexivity. Qed.
Example C19_ex_traj :
  snd (traj_run (traj_init 2 (mkCfg [mkVF 0 true false false false false false false] []))
                [TCalc 3; TCalc 4; TScriptSet (mkCfg [mkVF 0 true true false false false false false] []); TCalc 5; TCalc 6]) =
  [LLabel [CVal 0%Z] [SXrep 0%Z]; LData 4 [SXrep 0%Z];
   LLabel [CVal 0%Z; CVel 0%Z] [SXrep 0%Z; SVrep 0%Z]; LData 6 [SXrep 0%Z; SVrep 0%Z]].
Proof. vm_compute. reflexivity. Qed.
Example C19_ex_runave :
  runave_run Qops 3 1 10 (r0 (T:=Q)) None (hist [1; 2; 4; 8; 16]%Q) =
    [(13%nat, 14 # 3, 28 # 3, 28 # 3); (14%nat, 28 # 3, 112 # 3, 112 # 3)]%Q.
Proof. exact runave_instance. Qed.
Example C19_ex_runave_periodic :
  runaveV_run Qops (lv_ops Qops (KPeriodic 8%Q 0%Q)) 2 1 0 (rv0 (V:=list Q)) None (hist [[0]; [7 # 2]; [- 7 # 2]]%Q) =
    [(2%nat, [(-4)%Q], (1 # 2)%Q, (1 # 2)%Q)].
Proof. exact runave_periodic_instance. Qed.
Example C19_ex_acf_offset :
  acf_model Qops AcfCoor true 1 1 1 (hist (map (fun v : list Q => (v, v)) [[1]; [2]; [4]; [8]; [16]; [32]]%Q)) =
    ([(0%nat, 1); (2%nat, 1 # 4)]%Q, 3%nat).
Proof. exact acf_instance. Qed.
Example C19_ex_acf_cross :
  acf_model Qops AcfCoor false 1 1 0 (hist (map (fun v : list Q => ([1], v)) [[1]; [2]; [4]; [8]; [16]; [32]]%Q)) =
    ([(0%nat, 15); (1%nat, 15)]%Q, 4%nat).
Proof. exact acf_cross_instance. Qed.
