(* Textbook definitions the analyses are compared with (specification side; generic over the carrier so
   that they can be evaluated on rationals for witnesses and read over R in the theorems). *)
From Coq Require Import ZArith List Bool Arith.
From CV Require Import Base.Num C19.OutputModel.
Import ListNotations.

Section Spec.
  Context {T : Type} (O : NumOps T).

  (* sum of f j for j < n *)
  Fixpoint sumf (f : nat -> T) (n : nat) : T :=
    match n with 0%nat => n0 O | S m => nadd O (sumf f m) (f m) end.

  (* x(t): the value the variable took at relative step t *)
  Definition xat (xs : list T) (t : nat) : T := nth t xs (n0 O).

  (* arithmetic mean of the L values x(t), x(t - s), ..., x(t - (L-1) s) *)
  Definition win_mean (xs : list T) (L s t : nat) : T :=
    ndiv O (sumf (fun j => xat xs (t - j * s)) L) (ofnat O L).
  (* sample variance of the same L values (divisor L - 1) *)
  Definition win_var (xs : list T) (L s t : nat) : T :=
    let m := win_mean xs L s t in
    ndiv O (sumf (fun j => nsq O (nsub O (xat xs (t - j * s)) m)) L) (ofnat O (L - 1)).

  (* backward finite difference *)
  Definition fd_velocity (dt : T) (xs : list T) (t : nat) : T :=
    ndiv O (nsub O (xat xs t) (xat xs (t - 1))) dt.

  (* time-correlation: sum over the time origins u = first, .., last of pair (x_i (u - tau)) (x_j u) *)
  Section Corr.
    Context {V : Type} (pair : V -> V -> T) (dflt : V).
    Definition vat (xs : list V) (t : nat) : V := nth t xs dflt.
    Definition corr_sum (xi xj : list V) (tau first count : nat) : T :=
      sumf (fun i => pair (vat xi (first + i - tau)) (vat xj (first + i))) count.
  End Corr.
End Spec.
