(* Textbook definitions the analyses are compared with (specification side; generic over the carrier so
   that they can be evaluated on rationals for witnesses and read over R in the theorems). *)
From Coq Require Import ZArith List Bool Arith.
From CV Require Import Base.Num C19.OutputModel.
Import ListNotations.

Section Spec.
  Context {T : Type} (O : NumOps T).

  (* sum of f j for j < n *)
  Fixpoint sumf (f : nat -> T) (n : nat) : T :=
    match n with 0%nat => n0 O | S m => nadd O (sumf f m) (f m) end.

  (* x(t): the value the variable took at relative step t *)
  Definition xat (xs : list T) (t : nat) : T := nth t xs (n0 O).

  (* arithmetic mean of the L values x(t), x(t - s), ..., x(t - (L-1) s) *)
  Definition win_mean (xs : list T) (L s t : nat) : T :=
    ndiv O (sumf (fun j => xat xs (t - j * s)) L) (ofnat O L).
  (* sample variance of the same L values (divisor L - 1) *)
  Definition win_var (xs : list T) (L s t : nat) : T :=
    let m := win_mean xs L s t in
    ndiv O (sumf (fun j => nsq O (nsub O (xat xs (t - j * s)) m)) L) (ofnat O (L - 1)).

  (* backward finite difference *)
  Definition fd_velocity (dt : T) (xs : list T) (t : nat) : T :=
    ndiv O (nsub O (xat xs t) (xat xs (t - 1))) dt.

  (* time-correlation: sum over the time origins u = first, .., last of pair (x_i (u - tau)) (x_j u) *)
  Section Corr.
    Context {V : Type} (pair : V -> V -> T) (dflt : V).
    Definition vat (xs : list V) (t : nat) : V := nth t xs dflt.
    Definition corr_sum (xi xj : list V) (tau first count : nat) : T :=
      sumf (fun i => pair (vat xi (first + i - tau)) (vat xj (first + i))) count.
  End Corr.
End Spec.

(* the same for any value type with the operations the code uses: the "mean" is
   constrain ((1/L) (x(t) + near(x(t), x(t-s)) + .. )) where near picks, for a periodic variable, the image of the older
   value closest to x(t); the deviations are measured with the variable's own metric *)
Section SpecV.
  Context {T : Type} (O : NumOps T) {V : Type} (P : @vops T V) (dflt : V).
  Definition xatV (xs : list V) (t : nat) : V := nth t xs dflt.
  Definition win_sumV (xs : list V) (L s t : nat) : V :=
    fold_left (vo_add P) (map (fun j => vo_near P (xatV xs t) (xatV xs (t - j * s))) (seq 1 (L - 1))) (xatV xs t).
  Definition win_meanV (xs : list V) (L s t : nat) : V :=
    vo_constrain P (vo_scale P (ndiv O (n1 O) (ofnat O L)) (win_sumV xs L s t)).
  Definition win_varV (xs : list V) (L s t : nat) : T :=
    let m := win_meanV xs L s t in
    ndiv O (sumf O (fun j => vo_dist2 P (xatV xs (t - j * s)) m) L) (ofnat O (L - 1)).
End SpecV.
