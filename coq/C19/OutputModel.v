(* Model of what Colvars writes during a run, and when:
     A. the trajectory file <prefix>.colvars.traj: colvarmodule::write_traj_files / write_traj_label /
        write_traj (src/colvarmodule.cpp), colvar::write_traj_label / write_traj (src/colvar.cpp), and the
        write_traj_label / write_traj of the biases (src/colvarbias.cpp, colvarbias_restraint.cpp,
        colvarbias_abmd.cpp, colvarbias_alb.cpp);
     B. the velocity by finite differences (colvar::calc_colvar_properties / end_of_step);
     C. the running average and standard deviation (colvar::calc_runave);
     D. the time-correlation functions (colvar::calc_acf, calc_vel_acf / calc_coor_acf / calc_p2coor_acf,
        write_acf).
   Definitions only.  The model mirrors the code that exists: same state variables, same order of
   updates, same guards.  Numeric parts are generic over the carrier (NumOps). *)
From Coq Require Import ZArith List Bool Arith.
From CV Require Import Base.Num.
Import ListNotations.

(* =================================================================================================
   A. trajectory file
   ================================================================================================= *)

(* A column announced by a label line.  Objects are identified by integers (variable i is "v<i>", bias j
   is "b<j>" in the tie); the label text is "<name>", "r_<name>", "v_<name>", ... as noted. *)
Inductive col :=
| CVal (v : Z)          (* "<name>"      *)
| CExt (v : Z)          (* "r_<name>"    extended degree of freedom *)
| CVel (v : Z)          (* "v_<name>"    *)
| CVelExt (v : Z)       (* "vr_<name>"   *)
| CEp (v : Z)           (* "Ep_<name>"   *)
| CEk (v : Z)           (* "Ek_<name>"   *)
| CFt (v : Z)           (* "ft_<name>"   *)
| CFa (v : Z)           (* "fa_<name>"   *)
| CBiasE (b : Z)        (* "E_<bias>"    *)
| CCenter (b v : Z)     (* "x0_<name>"   *)
| CWork (b : Z)         (* "W_<bias>"    *)
| CRef (b v : Z)        (* "ref_<name>"  (abmd) *)
| CCoupling (b v : Z)   (* "ForceConst_<i>" (alb) *)
| CGrad (b v : Z).      (* "Grad_<name>" (alb) *)

(* The internal quantity a data field is printed from. *)
Inductive src :=
| SX (v : Z)            (* colvar::x             *)
| SXrep (v : Z)         (* colvar::x_reported    *)
| SVfd (v : Z)          (* colvar::v_fdiff       *)
| SVrep (v : Z)         (* colvar::v_reported    *)
| SEp (v : Z)           (* colvar::potential_energy *)
| SEk (v : Z)           (* colvar::kinetic_energy   *)
| SFt (v : Z)           (* colvar::ft_reported   *)
| SFa (v : Z)           (* colvar::applied_force() *)
| SBE (b : Z)           (* colvarbias::bias_energy *)
| SBC (b v : Z)         (* colvar_centers[i]     *)
| SBW (b : Z)           (* acc_work              *)
| SBRef (b v : Z)       (* colvarbias_abmd::ref_val *)
| SBCoup (b v : Z)      (* colvarbias_alb::current_coupling[i] *)
| SBGrad (b v : Z).     (* colvarbias_alb: gradient expression of variable i *)

(* output flags of a variable (features f_cv_output_*, f_cv_extended_Lagrangian, f_cv_external) *)
Record vflags := mkVF {
  vf_id : Z;
  vf_value : bool; vf_velocity : bool; vf_energy : bool; vf_tforce : bool; vf_aforce : bool;
  vf_extlag : bool; vf_external : bool }.

Definition vf_ext (f : vflags) : bool := vf_extlag f && negb (vf_external f).

(* colvar::write_traj_label *)
Definition var_label (f : vflags) : list col :=
  (if vf_value f then CVal (vf_id f) :: (if vf_ext f then [CExt (vf_id f)] else []) else []) ++
  (if vf_velocity f then CVel (vf_id f) :: (if vf_ext f then [CVelExt (vf_id f)] else []) else []) ++
  (if vf_energy f then [CEp (vf_id f); CEk (vf_id f)] else []) ++
  (if vf_tforce f then [CFt (vf_id f)] else []) ++
  (if vf_aforce f then [CFa (vf_id f)] else []).

(* colvar::write_traj *)
Definition var_data (f : vflags) : list src :=
  (if vf_value f then (if vf_ext f then [SX (vf_id f)] else []) ++ [SXrep (vf_id f)] else []) ++
  (if vf_velocity f then (if vf_ext f then [SVfd (vf_id f)] else []) ++ [SVrep (vf_id f)] else []) ++
  (if vf_energy f then [SEp (vf_id f); SEk (vf_id f)] else []) ++
  (if vf_tforce f then [SFt (vf_id f)] else []) ++
  (if vf_aforce f then [SFa (vf_id f)] else []).

(* which bias class writes the line *)
Inductive bkind :=
| BGeneric         (* colvarbias::write_traj*: abf, metadynamics, histogram, opes, ... *)
| BHarmonic        (* colvarbias_restraint_harmonic  *)
| BLinear          (* colvarbias_restraint_linear    *)
| BWalls           (* colvarbias_restraint_harmonic_walls *)
| BHistRestraint   (* colvarbias_restraint_histogram *)
| BAbmd            (* colvarbias_abmd *)
| BAlb.            (* colvarbias_alb  *)

Record bflags := mkBF {
  bf_id : Z; bf_kind : bkind; bf_vars : list Z;
  bf_energy : bool;        (* b_output_energy *)
  bf_centers : bool;       (* b_output_centers *)
  bf_chg_centers : bool;   (* b_chg_centers *)
  bf_chg_k : bool;         (* b_chg_force_k *)
  bf_acc_work : bool;      (* f_cvb_output_acc_work *)
  bf_coupling : bool;      (* alb: b_output_coupling *)
  bf_grad : bool }.        (* alb: b_output_grad *)

(* colvarbias::write_traj_label / write_traj *)
Definition base_label (b : bflags) : list col := if bf_energy b then [CBiasE (bf_id b)] else [].
Definition base_data (b : bflags) : list src := if bf_energy b then [SBE (bf_id b)] else [].
(* colvarbias_restraint_centers_moving *)
Definition cm_label (b : bflags) : list col :=
  (if bf_centers b then map (CCenter (bf_id b)) (bf_vars b) else []) ++
  (if bf_chg_centers b && bf_acc_work b then [CWork (bf_id b)] else []).
Definition cm_data (b : bflags) : list src :=
  (if bf_centers b then map (SBC (bf_id b)) (bf_vars b) else []) ++
  (if bf_chg_centers b && bf_acc_work b then [SBW (bf_id b)] else []).
(* colvarbias_restraint_k_moving *)
Definition km_label (b : bflags) : list col := if bf_chg_k b && bf_acc_work b then [CWork (bf_id b)] else [].
Definition km_data (b : bflags) : list src := if bf_chg_k b && bf_acc_work b then [SBW (bf_id b)] else [].

Definition bias_label (b : bflags) : list col :=
  match bf_kind b with
  | BGeneric | BHistRestraint => base_label b
  | BHarmonic | BLinear => base_label b ++ cm_label b ++ km_label b
  | BWalls => base_label b ++ km_label b
  | BAbmd => match bf_vars b with v :: _ => [CRef (bf_id b) v] | [] => [] end
  | BAlb =>   (* colvarbias_alb::write_traj_label: energy, coupling, centers, gradient *)
      base_label b ++
      (if bf_coupling b then map (CCoupling (bf_id b)) (bf_vars b) else []) ++
      (if bf_centers b then map (CCenter (bf_id b)) (bf_vars b) else []) ++
      (if bf_grad b then map (CGrad (bf_id b)) (bf_vars b) else [])
  end.

Definition bias_data (b : bflags) : list src :=
  match bf_kind b with
  | BGeneric | BHistRestraint => base_data b
  | BHarmonic | BLinear => base_data b ++ cm_data b ++ km_data b
  | BWalls => base_data b ++ km_data b
  | BAbmd => match bf_vars b with v :: _ => [SBRef (bf_id b) v] | [] => [] end
  | BAlb =>   (* colvarbias_alb::write_traj: energy, coupling, centers, gradient *)
      base_data b ++
      (if bf_coupling b then map (SBCoup (bf_id b)) (bf_vars b) else []) ++
      (if bf_centers b then map (SBC (bf_id b)) (bf_vars b) else []) ++
      (if bf_grad b then map (SBGrad (bf_id b)) (bf_vars b) else [])
  end.

Record config := mkCfg { c_vars : list vflags; c_biases : list bflags }.

(* colvarmodule::write_traj_label / write_traj: all variables, then all biases, in definition order *)
Definition labels_of (c : config) : list col :=
  flat_map var_label (c_vars c) ++ flat_map bias_label (c_biases c).
Definition data_of (c : config) : list src :=
  flat_map var_data (c_vars c) ++ flat_map bias_data (c_biases c).

(* ---- specification side: what each announced column means ------------------------------------ *)
(* For a variable with an extended degree of freedom "<name>" is the value of the function of the atoms
   (x) and "r_<name>" the extended coordinate (x_reported); otherwise "<name>" is x_reported (= x). *)
Definition vcol_src (f : vflags) (c : col) : src :=
  match c with
  | CVal v => if vf_ext f then SX v else SXrep v
  | CExt v => SXrep v
  | CVel v => if vf_ext f then SVfd v else SVrep v
  | CVelExt v => SVrep v
  | CEp v => SEp v | CEk v => SEk v | CFt v => SFt v | CFa v => SFa v
  | CBiasE b => SBE b | CCenter b v => SBC b v | CWork b => SBW b | CRef b v => SBRef b v
  | CCoupling b v => SBCoup b v | CGrad b v => SBGrad b v
  end.
Definition bcol_src (c : col) : src := vcol_src (mkVF 0 false false false false false false false) c.

(* the fields a reader expects under the label line written for configuration c *)
Definition expected_of (c : config) : list src :=
  flat_map (fun f => map (vcol_src f) (var_label f)) (c_vars c) ++
  flat_map (fun b => map bcol_src (bias_label b)) (c_biases c).

(* ---- the writer ------------------------------------------------------------------------------ *)
Inductive tline :=
| LLabel (cols : list col) (meaning : list src)   (* meaning: ghost, = expected_of the configuration in force *)
| LData (it : Z) (fields : list src).

Record tstate := mkTS {
  t_freq : Z;            (* cv_traj_freq *)
  t_cfg : config;        (* the objects and their output flags *)
  t_labels : bool;       (* cv_traj_write_labels *)
  t_it_restart : Z }.    (* it_restart *)

Inductive tevent :=
| TCalc (it : Z)          (* colvarmodule::calc() at engine step it (cv_traj_name is set) *)
| TConfig (c : config)    (* variables/biases added or deleted through configuration: config_changed() *)
| TScriptSet (c : config) (* an output flag switched by `cv colvar|bias <name> set <feature> <value>` *)
| TFreq (f : Z)           (* colvarsTrajFrequency changed *)
| TRestart (it0 : Z).     (* set_initial_step / state file read: it = it_restart = it0 *)

Local Open Scope Z_scope.

(* colvarmodule::write_traj_files *)
Definition traj_calc (s : tstate) (it : Z) : tstate * list tline :=
  if t_freq s =? 0 then (s, [])
  else
    let lab := (it - t_it_restart s =? 0) || t_labels s || (it mod (t_freq s * 1000) =? 0) in
    let l1 := if lab then [LLabel (labels_of (t_cfg s)) (expected_of (t_cfg s))] else [] in
    let l2 := if it mod t_freq s =? 0 then [LData it (data_of (t_cfg s))] else [] in
    (mkTS (t_freq s) (t_cfg s) (if lab then false else t_labels s) (t_it_restart s), l1 ++ l2).

Definition traj_event (s : tstate) (e : tevent) : tstate * list tline :=
  match e with
  | TCalc it => traj_calc s it
  | TConfig c => (mkTS (t_freq s) c true (t_it_restart s), [])
  | TScriptSet c => (mkTS (t_freq s) c true (t_it_restart s), [])   (* colvarscript::proc_features: config_changed() *)
  | TFreq f => (mkTS f (t_cfg s) (t_labels s) (t_it_restart s), [])
  | TRestart it0 => (mkTS (t_freq s) (t_cfg s) (t_labels s) it0, [])
  end.

Fixpoint traj_run (s : tstate) (evs : list tevent) : tstate * list tline :=
  match evs with
  | [] => (s, [])
  | e :: r => let '(s1, l1) := traj_event s e in let '(s2, l2) := traj_run s1 r in (s2, l1 ++ l2)
  end.

(* a module as constructed: cv_traj_write_labels = true, it_restart = 0 *)
Definition traj_init (freq : Z) (c : config) : tstate := mkTS freq c true 0.

Definition data_steps (l : list tline) : list Z :=
  flat_map (fun x => match x with LData it _ => [it] | _ => [] end) l.
Definition calc_steps (evs : list tevent) : list Z :=
  flat_map (fun e => match e with TCalc it => [it] | _ => [] end) evs.

(* ---- label text --------------------------------------------------------------------------------- *)
(* cvm::wrap_string(s, n): pad with spaces to n characters, or cut to the first n; a label is the column's prefix
   ("", "v_", "ft_", "E_", ...) followed by wrap_string(name, width - length prefix).  Characters are their codes. *)
Definition wrap_string (s : list nat) (n : nat) : list nat :=
  if (length s <=? n)%nat then s ++ repeat 32%nat (n - length s) else firstn n s.
Definition label_text (prefix name : list nat) (width : nat) : list nat :=
  prefix ++ wrap_string name (width - length prefix).
(* what a reader splitting the line on blanks sees *)
Fixpoint strip_trailing (l : list nat) : list nat :=
  match l with
  | [] => []
  | c :: r => match strip_trailing r with
              | [] => if (c =? 32)%nat then [] else [c]
              | r' => c :: r'
              end
  end.
Definition label_token (prefix name : list nat) (width : nat) : list nat := strip_trailing (label_text prefix name width).

(* the prefix of every kind of column and the number of characters its name is padded/cut to, as written by the
   write_traj_label functions (cv_width = en_width = 21; a scalar variable) *)
Definition col_prefix (c : col) : list nat :=
  match c with
  | CVal _ => [] | CExt _ => [114; 95]%nat (* r_ *) | CVel _ => [118; 95]%nat (* v_ *) | CVelExt _ => [118; 114; 95]%nat (* vr_ *)
  | CEp _ => [69; 112; 95]%nat (* Ep_ *) | CEk _ => [69; 107; 95]%nat (* Ek_ *) | CFt _ => [102; 116; 95]%nat (* ft_ *)
  | CFa _ => [102; 97; 95]%nat (* fa_ *) | CBiasE _ => [69; 95]%nat (* E_ *) | CCenter _ _ => [120; 48; 95]%nat (* x0_ *)
  | CWork _ => [87; 95]%nat (* W_ *) | CRef _ _ => [114; 101; 102; 95]%nat (* ref_ *)
  | CCoupling _ _ => [70; 111; 114; 99; 101; 67; 111; 110; 115; 116; 95]%nat (* ForceConst_ *)
  | CGrad _ _ => [71; 114; 97; 100; 95]%nat (* Grad_ *)
  end.
(* which object's name follows the prefix: a variable (inl) or a bias (inr); the alb coupling column is followed by
   the index of the variable in the bias instead *)
Definition col_object (c : col) : Z + Z :=
  match c with
  | CVal v | CExt v | CVel v | CVelExt v | CEp v | CEk v | CFt v | CFa v => inl v
  | CCenter _ v | CRef _ v | CGrad _ v | CCoupling _ v => inl v
  | CBiasE b | CWork b => inr b
  end.
(* the text of a label: prefix ++ wrap_string(name, 21 - length prefix) *)
Definition col_label (vname bname : Z -> list nat) (c : col) : list nat :=
  label_token (col_prefix c) (match col_object c with inl v => vname v | inr b => bname b end) 21%nat.

(* ---- which other files a step writes (colvarmodule::calc, colvarproxy::post_run) ------------------ *)
(* FState: the state file (its `step` field is the step at which it is written); FColvar: the output files of the
   variables (correlation functions); FBias b: the output files of bias b (histograms, PMFs, ...). The output
   prefix is set. *)
Inductive ofile := FState | FColvar | FBias (b : Z).
Record ocfg := mkOC {
  oc_restart_freq : Z;            (* restart_out_freq (colvarsRestartFrequency / the engine's) *)
  oc_it_restart : Z;
  oc_biases : list (Z * Z) }.     (* (bias, its outputFreq) in definition order *)

Definition at_freq (c : ocfg) (f it : Z) : bool :=
  negb (f =? 0) && (0 <? it - oc_it_restart c) && (it mod f =? 0).

(* colvarmodule::calc(): restart file + variables' files at the restart frequency; each bias's files at its own *)
Definition out_calc (c : ocfg) (it : Z) : list ofile :=
  (if at_freq c (oc_restart_freq c) it then [FState; FColvar] else []) ++
  flat_map (fun bf : Z * Z => if at_freq c (snd bf) it then [FBias (fst bf)] else []) (oc_biases c).

(* colvarproxy::post_run() -> write_restart_file + colvarmodule::write_output_files(): everything that calc() has
   not already written at this step *)
Definition out_end (c : ocfg) (it : Z) : list ofile :=
  FState ::
  (if at_freq c (oc_restart_freq c) it then [] else [FColvar]) ++
  flat_map (fun bf : Z * Z => if negb (at_freq c (snd bf) it) then [FBias (fst bf)] else []) (oc_biases c).

Inductive oevent := OCalc (it : Z) | OEnd (it : Z).
Definition out_event (c : ocfg) (e : oevent) : list (Z * ofile) :=
  match e with
  | OCalc it => map (fun f => (it, f)) (out_calc c it)
  | OEnd it => map (fun f => (it, f)) (out_end c it)
  end.
Definition out_run (c : ocfg) (evs : list oevent) : list (Z * ofile) := flat_map (out_event c) evs.

Definition ofile_eqb (a b : ofile) : bool :=
  match a, b with
  | FState, FState => true | FColvar, FColvar => true | FBias x, FBias y => x =? y | _, _ => false
  end.
(* the steps at which file k is written *)
Definition writes_of (k : ofile) (l : list (Z * ofile)) : list Z :=
  flat_map (fun w : Z * ofile => if ofile_eqb (snd w) k then [fst w] else []) l.

(* colvarbias_abf::write_output_files: each call (at the steps w, in order) also appends a block to the history files
   when the step is a multiple of historyFreq and is not the step of the previous block (history_last_step) *)
Fixpoint abf_hist (hf : Z) (last : option Z) (w : list Z) : list Z :=
  match w with
  | [] => []
  | it :: r =>
      if (0 <? hf) && (it mod hf =? 0) && negb (match last with Some l => l =? it | None => false end)
      then it :: abf_hist hf (Some it) r
      else abf_hist hf last r
  end.

(* a buffered record file (metadynamics hills trajectory): add_hill appends a record to a buffer, write_output_files
   appends the buffer to the file and clears it *)
Inductive fevent (R : Type) := FRec (r : R) | FFlush.
Arguments FRec {R}. Arguments FFlush {R}.
Fixpoint flush_run {R} (file buf : list R) (evs : list (fevent R)) : list R * list R :=
  match evs with
  | [] => (file, buf)
  | FRec r :: e => flush_run file (buf ++ [r]) e
  | FFlush :: e => flush_run (file ++ buf) [] e
  end.
Definition records_of {R} (evs : list (fevent R)) : list R :=
  flat_map (fun e => match e with FRec r => [r] | FFlush => [] end) evs.

(* ---- what is on disk: the trajectory stream is buffered ------------------------------------------- *)
(* Lines go to a stream buffer; colvarmodule::write_traj_files synchronises it with the disk at the end of a calc()
   whose step is a multiple of the restart frequency (no condition on step_relative); the C++ stream may also spill
   any prefix of its buffer to the disk at any time (when it fills up). *)
Inductive bevent (L : Type) := BLine (l : L) | BSync | BSpill (n : nat).
Arguments BLine {L}. Arguments BSync {L}. Arguments BSpill {L}.
Fixpoint buf_run {L} (disk buf : list L) (evs : list (bevent L)) : list L * list L :=
  match evs with
  | [] => (disk, buf)
  | BLine l :: e => buf_run disk (buf ++ [l]) e
  | BSync :: e => buf_run (disk ++ buf) [] e
  | BSpill n :: e => buf_run (disk ++ firstn n buf) (skipn n buf) e
  end.
Definition blines {L} (evs : list (bevent L)) : list L :=
  flat_map (fun e => match e with BLine l => [l] | _ => [] end) evs.
(* the stream events of one calc(): its lines, then the synchronisation if the step is on the restart grid *)
Definition traj_calc_bevents (rfreq : Z) (s : tstate) (it : Z) : tstate * list (bevent tline) :=
  let '(s1, ls) := traj_calc s it in
  (s1, map BLine ls ++ (if negb (rfreq =? 0) && (it mod rfreq =? 0) then [BSync] else [])).
Fixpoint traj_bevents (rfreq : Z) (s : tstate) (its : list Z) : list (bevent tline) :=
  match its with
  | [] => []
  | it :: r => let '(s1, be) := traj_calc_bevents rfreq s it in be ++ traj_bevents rfreq s1 r
  end.

Local Close Scope Z_scope.

(* =================================================================================================
   B, C, D. analyses of one variable
   ================================================================================================= *)

(* colvar::prev_timestep is -1 before the first end_of_step *)
Definition after_prev (prev : option nat) (s : nat) : bool :=
  match prev with None => true | Some p => p <? s end.

Fixpoint upd_nth {A} (n : nat) (l : list A) (a : A) : list A :=
  match l, n with
  | [], _ => []
  | _ :: r, 0%nat => a :: r
  | h :: r, S m => h :: upd_nth m r a
  end.

Section Analysis.
  Context {T : Type} (O : NumOps T).

  Definition ofnat (n : nat) : T := nofZ O (Z.of_nat n).
  Definition sumT (l : list T) (a : T) : T := fold_left (nadd O) l a.

  (* ---- multicolumn grid files (colvar_grid<T>::write_multicol) ----------------------------------- *)
  (* indices in the order of colvar_grid::incr: row-major, last index fastest *)
  Fixpoint all_indices (nx : list nat) : list (list nat) :=
    match nx with
    | [] => [[]]
    | n :: r => flat_map (fun i => map (cons i) (all_indices r)) (seq 0 n)
    end.
  Inductive mline := MBlank | MData (coords : list T) (vals : list T).
  (* bin_to_value_scalar: lower + width * (0.5 + i) *)
  Definition bin_center (lower width : T) (i : nat) : T := nadd O lower (nmul O width (nadd O (nhalf O) (ofnat i))).
  Fixpoint coords_of (geom : list (T * T)) (ix : list nat) : list T :=
    match geom, ix with
    | (l, w) :: g, i :: r => bin_center l w i :: coords_of g r
    | _, _ => []
    end.
  (* a blank line before every record whose last index is 0, then the bin centres and the mult values of the record *)
  Definition write_multicol (nx : list nat) (geom : list (T * T)) (value : list nat -> list T) : list mline :=
    flat_map (fun ix => (if (last ix 1 =? 0)%nat then [MBlank] else []) ++ [MData (coords_of geom ix) (value ix)])
             (all_indices nx).
  (* reading back: blank lines are separators only; the k-th record belongs to the k-th index *)
  Definition read_multicol (nx : list nat) (ls : list mline) : list (list nat * list T) :=
    combine (all_indices nx) (flat_map (fun l => match l with MData _ v => [v] | MBlank => [] end) ls).

  (* ---- B. velocity by finite differences ------------------------------------------------------ *)
  Record vstate := mkVS { vs_xold : T; vs_vfdiff : T; vs_vrep : T }.

  (* calc_colvar_properties (f_cv_fdiff_velocity), scalar non-periodic variable:
     fdiff_velocity(xold, xnew) = (dt > 0 ? 1/dt : 1) * 0.5 * dist2_lgrad(xnew, xold), dist2_lgrad = 2 (xnew - xold);
     then end_of_step: x_old = x *)
  Definition vel_step (dt : T) (s : vstate) (prev : option nat) (step_rel : nat) (x : T) : vstate :=
    match step_rel with
    | 0%nat => mkVS x (n0 O) (vs_vrep s)
    | S _ =>
        if after_prev prev step_rel then
          let f := if nltb O (n0 O) dt then ndiv O (n1 O) dt else n1 O in
          let v := nmul O (nmul O f (nhalf O)) (nmul O (nofZ O 2) (nsub O x (vs_xold s))) in
          mkVS x v v
        else mkVS x (vs_vfdiff s) (vs_vrep s)     (* repeated step: velocity kept; end_of_step: x_old = x *)
    end.

  (* values printed under "v_<name>" over a history of (step_relative, x) *)
  Fixpoint vel_run (dt : T) (s : vstate) (prev : option nat) (h : list (nat * T)) : list T :=
    match h with
    | [] => []
    | (t, x) :: r => let s1 := vel_step dt s prev t x in vs_vrep s1 :: vel_run dt s1 (Some t) r
    end.

  (* ---- B'. total force of a scalar variable when the engine delivers forces one evaluation late --------
     Engine convention (total_forces_same_step() = false, e.g. NAMD; harness/vsim.h): at each evaluation the engine
     hands over the force that was exerted at its previous evaluation.  Colvars (colvar::collect_cvc_data /
     lagged_total_force_available / collect_cvc_total_forces / end_of_step): the delivered force is collected only if
     step_relative > 0, the variable was computed at the previous step (or this same step, repeated) and its total-force
     calculation was enabled then; otherwise ft keeps its value.  One-component variable, zero Jacobian term. *)
  Record lfstate := mkLF {
    lf_ft : T;                    (* colvar::ft (what the ft_ column prints) *)
    lf_prev : option nat;         (* colvar::prev_timestep *)
    lf_prev_calc : bool;          (* colvar::prev_total_force_calc *)
    lf_engine : T }.              (* engine side: the force exerted at the previous evaluation *)
  Definition lf0 : lfstate := mkLF (n0 O) None false (n0 O).
  Definition lf_available (s : lfstate) (rel : nat) : bool :=
    (0 <? rel)%nat && (match lf_prev s with Some p => (rel - 1 <=? p)%nat | None => false end) && lf_prev_calc s.
  (* one evaluation: rel = step_relative, enabled = total-force calculation requested now, f = force exerted now *)
  Definition lf_step (s : lfstate) (ev : nat * bool * T) : lfstate :=
    let '(rel, enabled, f) := ev in
    let delivered := lf_engine s in
    mkLF (if lf_available s rel && enabled then delivered else lf_ft s) (Some rel) enabled f.
  Definition lf_run (s : lfstate) (h : list (nat * bool * T)) : lfstate := fold_left lf_step h s.

  (* ---- C. running average --------------------------------------------------------------------- *)
  Record rstate := mkRS { r_init : bool; r_hist : list T }.
  Definition r0 : rstate := mkRS false [].

  (* a line of <prefix>.<name>.runave.traj: (step printed, average, variance before the square root, stddev) *)
  Definition rline : Type := (nat * T * T * T)%type.

  (* colvar::calc_runave; L = runave_length, stride = runave_stride; x is a non-periodic scalar so that
     dist2(a, b) = (a - b)^2 *)
  Definition d2 (a b : T) : T := let d := nsub O a b in nmul O d d.

  (* it0 = it_restart: the line carries the absolute step it0 + step_rel *)
  Definition runave_step (L stride it0 : nat) (s : rstate) (prev : option nat) (step_rel : nat) (x : T)
    : rstate * option rline :=
    if negb (r_init s) then (mkRS true [], None)
    else if (step_rel mod stride =? 0)%nat && after_prev prev step_rel then
      let out :=
        if (L - 1 <=? length (r_hist s))%nat then
          let av := nmul O (sumT (r_hist s) x) (ndiv O (n1 O) (ofnat L)) in
          let var0 := fold_left (fun acc xi => nadd O acc (d2 xi av)) (r_hist s) (nadd O (n0 O) (d2 x av)) in
          let var := nmul O var0 (ndiv O (n1 O) (ofnat (L - 1))) in
          Some ((it0 + step_rel)%nat, av, var, nsqrt O var)
        else None in
      (mkRS true (firstn (L - 1) (x :: r_hist s)), out)
    else (s, None).

  (* a history: the values of step_relative at successive calls of calc() and the variable's value;
     colvar::end_of_step sets prev_timestep after each call *)
  Fixpoint runave_run (L stride it0 : nat) (s : rstate) (prev : option nat) (h : list (nat * T)) : list rline :=
    match h with
    | [] => []
    | (t, x) :: r =>
        let '(s1, o) := runave_step L stride it0 s prev t x in
        (match o with Some l => [l] | None => [] end) ++ runave_run L stride it0 s1 (Some t) r
    end.

  (* ---- C'. running average for any value type ------------------------------------------------- *)
  (* colvar::calc_runave written over the operations of colvarvalue it uses: += , *= real, apply_constraints(),
     and colvar::dist2 (the metric of the variable: periodic image for periodic scalars, angle for unit vectors) *)
  Section RunaveV.
    Context {V : Type}.
    Record vops := mkVops {
      vo_add : V -> V -> V; vo_scale : T -> V -> V;
      vo_near : V -> V -> V;        (* vo_near x xi: the representative of xi that is summed when the current value is x
                                       (periodic scalars: the image closest to x; otherwise xi itself) *)
      vo_constrain : V -> V;        (* apply_constraints() followed by colvar::wrap() *)
      vo_dist2 : V -> V -> T }.
    Variable P : vops.
    Record rstateV := mkRSV { rv_init : bool; rv_hist : list V }.
    Definition rv0 : rstateV := mkRSV false [].
    Definition rlineV : Type := (nat * V * T * T)%type.

    Definition runaveV_step (L stride it0 : nat) (s : rstateV) (prev : option nat) (step_rel : nat) (x : V)
      : rstateV * option rlineV :=
      if negb (rv_init s) then (mkRSV true [], None)
      else if (step_rel mod stride =? 0)%nat && after_prev prev step_rel then
        let out :=
          if (L - 1 <=? length (rv_hist s))%nat then
            let av := vo_constrain P (vo_scale P (ndiv O (n1 O) (ofnat L)) (fold_left (vo_add P) (map (vo_near P x) (rv_hist s)) x)) in
            let var0 := fold_left (fun acc xi => nadd O acc (vo_dist2 P xi av)) (rv_hist s)
                                  (nadd O (n0 O) (vo_dist2 P x av)) in
            let var := nmul O var0 (ndiv O (n1 O) (ofnat (L - 1))) in
            Some ((it0 + step_rel)%nat, av, var, nsqrt O var)
          else None in
        (mkRSV true (firstn (L - 1) (x :: rv_hist s)), out)
      else (s, None).

    Fixpoint runaveV_run (L stride it0 : nat) (s : rstateV) (prev : option nat) (h : list (nat * V)) : list rlineV :=
      match h with
      | [] => []
      | (t, x) :: r =>
          let '(s1, o) := runaveV_step L stride it0 s prev t x in
          (match o with Some l => [l] | None => [] end) ++ runaveV_run L stride it0 s1 (Some t) r
      end.
  End RunaveV.

  (* ---- D. time-correlation function ----------------------------------------------------------- *)
  Section Acf.
    (* value type of the variable(s), the pair function accumulated for lags >= 1
       (inner_opt: scalar product; p2leg_opt: second Legendre polynomial of the cosine) *)
    Context {V : Type} (pair : V -> V -> T).

    Record astate := mkAS {
      a_hist : list (list V);    (* acf_x_history / acf_v_history: acf_stride lists *)
      a_ptr : nat;               (* acf_x_history_p *)
      a_acf : list T;            (* acf, acf_length + 1 entries *)
      a_n : nat }.               (* acf_nframes *)
    Definition a0 : astate := mkAS [] 0 [] 0.

    (* inner_opt / p2leg_opt: walk the stored values and the accumulator together *)
    Fixpoint acc_pairs (now : V) (l : list V) (acf : list T) : list T :=
      match l, acf with
      | v :: lr, a :: ar => nadd O a (pair v now) :: acc_pairs now lr ar
      | _, _ => acf
      end.

    (* calc_coor_acf / calc_vel_acf / calc_p2coor_acf on the list at the pointer;
       lag0 is the term added to acf[0] *)
    Definition acf_accumulate (len off : nat) (l : list V) (lag0 : T) (now : V) (acf : list T) (n : nat)
      : list T * nat :=
      if (len + off <=? length l)%nat then
        match acf with
        | a :: ar => (nadd O a lag0 :: acc_pairs now (skipn off l) ar, S n)
        | [] => ([], S n)
        end
      else (acf, n).

    (* colvar::calc_acf.  self = this variable's quantity (value() or velocity()), other = the quantity of
       the variable named by corrFuncWithColvar (the same variable by default).  The term added to acf[0]
       is pair self other; this variable's quantity is pushed on the history *)
    Definition acf_step (len stride off : nat) (s : astate) (prev : option nat)
               (step_rel : nat) (self other : V) : astate :=
      match a_hist s with
      | [] =>
          mkAS (repeat [] stride) 0
               (if (length (a_acf s) <? len + 1)%nat
                then a_acf s ++ repeat (n0 O) (len + 1 - length (a_acf s)) else a_acf s) 0
      | _ :: _ =>
          if after_prev prev step_rel then
            let l := nth (a_ptr s) (a_hist s) [] in
            let '(acf1, n1) := acf_accumulate len off l (pair self other) other (a_acf s) (a_n s) in
            let l1 := firstn (len + off) (self :: l) in
            let p1 := if (S (a_ptr s) <? length (a_hist s))%nat then S (a_ptr s) else 0%nat in
            mkAS (upd_nth (a_ptr s) (a_hist s) l1) p1 acf1 n1
          else s
      end.

    Fixpoint acf_run (len stride off : nat) (s : astate) (prev : option nat)
             (h : list (nat * (V * V))) : astate :=
      match h with
      | [] => s
      | (t, (self, other)) :: r => acf_run len stride off (acf_step len stride off s prev t self other) (Some t) r
      end.

    (* colvar::write_acf: rows (lag in steps, value) *)
    Fixpoint acf_rows (normalize : bool) (stride : nat) (norm nf : T) (k : nat) (acf : list T) : list (nat * T) :=
      match acf with
      | [] => []
      | a :: r =>
          ((stride * k)%nat, if normalize then ndiv O a (nmul O norm nf) else ndiv O a nf)
            :: acf_rows normalize stride norm nf (S k) r
      end.
    Definition acf_write (normalize : bool) (stride off : nat) (s : astate) : list (nat * T) :=
      match a_n s with
      | 0%nat => []
      | S _ =>
          let nf := ofnat (a_n s) in
          let norm := ndiv O (hd (n0 O) (a_acf s)) nf in
          match a_acf s with
          | [] => []
          | a :: r =>      (* the first row is the zero-lag value; the next ones are lags (off+1) stride, ... *)
              (0%nat, if normalize then ndiv O a (nmul O norm nf) else ndiv O a nf)
                :: acf_rows normalize stride norm nf (S off) r
          end
      end.
  End Acf.

  (* the three correlation types; a value is the list of its components (scalar: one, 3-vector: three) *)
  Fixpoint vdot (a b : list T) : T :=
    match a, b with
    | x :: ar, y :: br => nadd O (nmul O x y) (vdot ar br)
    | _, _ => n0 O
    end.
  Definition vnorm2 (a : list T) : T := vdot a a.
  (* colvarvalue::p2leg_opt, type_3vector *)
  Definition p2leg (stored now : list T) : T :=
    let c := ndiv O (vdot stored now) (nmul O (nsqrt O (vnorm2 stored)) (nsqrt O (vnorm2 now))) in
    nsub O (nmul O (nmul O (ndiv O (nofZ O 3) (nofZ O 2)) c) c) (nhalf O).

  (* value types as lists of components, with the operations of colvarvalue / the cvc metric *)
  Inductive vkind := KScalar | KPeriodic (period center : T) | KVector3 | KUnit3 | KQuat.
  Fixpoint lv_add (a b : list T) : list T :=
    match a, b with x :: ar, y :: br => nadd O x y :: lv_add ar br | _, _ => [] end.
  Fixpoint lv_sub (a b : list T) : list T :=
    match a, b with x :: ar, y :: br => nsub O x y :: lv_sub ar br | _, _ => [] end.
  Definition lv_scale (c : T) (a : list T) : list T := map (fun x => nmul O x c) a.
  (* cvc::dist2 of a periodic scalar: shortest image *)
  Definition pimage (p d : T) : T := nsub O d (nmul O (nofZ O (nfloor O (nadd O (ndiv O d p) (nhalf O)))) p).
  (* colvarvalue::apply_constraints, then colvar::wrap (cvc::wrap: x -= floor((x - center)/period + 0.5) period) *)
  Definition lv_constrain (k : vkind) (a : list T) : list T :=
    match k with
    | KUnit3 | KQuat => let n := nsqrt O (vnorm2 a) in map (fun x => ndiv O x n) a
    | KPeriodic p c =>
        match a with
        | x :: _ => [nsub O x (nmul O (nofZ O (nfloor O (nadd O (ndiv O (nsub O x c) p) (nhalf O)))) p)]
        | [] => []
        end
    | _ => a
    end.
  (* what calc_runave adds for a stored value xi when the current value is x:
     periodic scalar: x + 0.5 * dist2_lgrad(xi, x) = x + 0.5 * (2 * image(xi - x)) *)
  Definition lv_near (k : vkind) (x xi : list T) : list T :=
    match k with
    | KPeriodic p _ =>
        let x0 := hd (n0 O) x in
        [nadd O x0 (nmul O (nhalf O) (nmul O (nofZ O 2) (pimage p (nsub O (hd (n0 O) xi) x0))))]
    | _ => xi
    end.
  (* colvar::dist2 *)
  Definition lv_dist2 (k : vkind) (a b : list T) : T :=
    match k with
    | KPeriodic p _ => let d := pimage p (nsub O (hd (n0 O) a) (hd (n0 O) b)) in nmul O d d
    | KUnit3 =>
        let c := vdot a b in
        let c1 := if nltb O (n1 O) c then n1 O else if nltb O c (nneg O (n1 O)) then nneg O (n1 O) else c in
        let th := nacos O c1 in nmul O th th
    | KQuat =>     (* cvm::quaternion::dist2: q and -q are the same rotation *)
        let c := vdot a b in
        let c1 := if nltb O (n1 O) c then n1 O else if nltb O c (nneg O (n1 O)) then nneg O (n1 O) else c in
        let om := nacos O c1 in
        if nltb O (n0 O) c then nmul O om om
        else let d := nsub O (nacos O (nneg O (n1 O))) om in nmul O d d
    | _ => vnorm2 (lv_sub a b)
    end.
  Definition lv_ops (k : vkind) : vops (V := list T) := mkVops lv_add lv_scale (lv_near k) (lv_constrain k) (lv_dist2 k).

  Inductive acf_type := AcfVel | AcfCoor | AcfP2.
  Definition acf_pair (ty : acf_type) : list T -> list T -> T :=
    match ty with AcfP2 => p2leg | _ => vdot end.
  Definition acf_model (ty : acf_type) (normalize : bool) (len stride off : nat)
             (h : list (nat * (list T * list T))) : list (nat * T) * nat :=
    let s := acf_run (acf_pair ty) len stride off a0 None h in
    (acf_write normalize stride off s, a_n s).
End Analysis.
