From Coq Require Import Extraction ExtrOcamlBasic.
From CV Require Import Base.Num C19.OutputModel.
Extraction Language OCaml.
Extraction "model.ml" mkNumOps nhalf mkVF mkBF mkCfg mkTS traj_init traj_run labels_of data_of expected_of
  data_steps calc_steps mkVS vel_run r0 runave_run acf_model rv0 runaveV_run lv_ops mkOC out_run label_token col_label abf_hist flush_run buf_run traj_bevents write_multicol read_multicol lf0 lf_run.
