From Coq Require Import Extraction ExtrOcamlBasic.
From CV Require Import Base.Num C18.ValueModel C06.RestraintModel C01.ForceModel C01.SuperposModel.
Extraction Language OCaml.
Extraction "model.ml" mkNumOps energy forces var_values var_force cvc_value cvc_total_grad all_contribs init_var state_after effective h_energy h_forces h_values.
