From Coq Require Import Extraction ExtrOcamlBasic.
From CV Require Import Base.Num C18.ValueModel C06.RestraintModel C01.ForceModel.
Extraction Language OCaml.
Extraction "model.ml" mkNumOps energy forces var_values var_force cvc_value cvc_total_grad all_contribs.
