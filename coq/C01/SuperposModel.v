(* The superposition of components as run-time STATE (colvar.cpp).

   colvar::init() computes, once, from the componentCoeff / componentExp / period of the components:
     f_cv_linear       all exponents are 1
     f_cv_homogeneous  linear and all |coefficients| are 1
     f_cv_periodic     homogeneous and all components periodic with the same period (period := that period)
   Afterwards the script interface changes the parameters of components that are in use:
     cv colvar <v> modifycvcs {...}   colvar::update_cvc_config -> cvc::init on the live component: componentCoeff,
                                      componentExp are re-read; f_cv_periodic and the period are recomputed
                                      (update_periodicity, since repair 21b0745b), linear and homogeneous are NOT
     cv colvar <v> cvcflags {...}     colvar::set_cvc_flags / update_cvc_flags: components switched off and on
   collect_cvc_values() and communicate_forces() read coefficient, exponent and active flag of every component LIVE;
   the restraint metric (colvar::dist2, harmonicWalls' closest-wall rule) reads the periodic flag and the period,
   which may be STALE.  A state is therefore (live parameters, flags as computed at init), and a history is a list
   of events applied to the state produced by init.  The energy and the atomic forces of a state are those of
   ForceModel.v for the effective variable: live coefficients and exponents of the active components, the
   periodic flag and period of the state.  Neither function consults vs_linear or vs_homog: the C++ does not either
   (communicate_forces takes the polynomial branch for every scalar variable), and the theorem in
   SuperposProofs.v holds for every history because of that.

   Not modelled: modifycvcs of period / wrapAround / forceNoPBC (the model has one cell flag per configuration),
   a cvcflags list that switches every component off (the C++ aborts the step). *)
From Coq Require Import ZArith List Bool.
From CV Require Import Base.Num C18.ValueModel C06.RestraintModel C01.ForceModel.
Import ListNotations.

Section Superpos.
  Context {T : Type} (O : NumOps T).
  Variable pi : T.

  (* a component with the parameters that matter to the variable: coefficient and exponent (inside cvc), period
     (0 = not periodic), active flag *)
  Record scvc := mkScvc { sc_cvc : @cvc T; sc_period : T; sc_active : bool }.
  Record vstate := mkVstate { vs_width : T; vs_comps : list scvc;
                              vs_linear : bool; vs_homog : bool; vs_periodic : bool; vs_period : T }.

  (* ---- colvar::init ---- *)
  Definition unit_coeff (c : T) : bool := neqb O (nabs O c) (n1 O).
  Definition comp_periodic (c : scvc) : bool := negb (neqb O (sc_period c) (n0 O)).
  Definition init_linear (cs : list scvc) : bool := forallb (fun c => Z.eqb (c_exp (sc_cvc c)) 1) cs.
  Definition init_homog (cs : list scvc) : bool :=
    init_linear cs && forallb (fun c => unit_coeff (c_coeff (sc_cvc c))) cs.
  Definition init_periodic (cs : list scvc) : bool :=
    init_homog cs &&
    match cs with
    | [] => false
    | c0 :: r => comp_periodic c0 && forallb (fun c => comp_periodic c && neqb O (sc_period c) (sc_period c0)) r
    end.
  Definition init_period (cs : list scvc) : T :=
    if init_periodic cs then match cs with [] => n0 O | c0 :: _ => sc_period c0 end else n0 O.
  Definition init_var (d : T * list scvc) : vstate :=
    let cs := snd d in mkVstate (fst d) cs (init_linear cs) (init_homog cs) (init_periodic cs) (init_period cs).

  (* ---- run-time events ---- *)
  Inductive event :=
  | EvModify (v i : nat) (coeff : option T) (exp : option Z)   (* modifycvcs: componentCoeff / componentExp of component i *)
  | EvFlags (v : nat) (flags : list bool).                     (* cvcflags *)

  Fixpoint update_nth {A : Type} (n : nat) (f : A -> A) (l : list A) {struct l} : list A :=
    match l with
    | [] => []
    | x :: r => match n with Datatypes.O => f x :: r | Datatypes.S m => x :: update_nth m f r end
    end.

  Definition modify_comp (coeff : option T) (exp : option Z) (c : scvc) : scvc :=
    let q := sc_cvc c in
    mkScvc (mkCvc (match coeff with Some x => x | None => c_coeff q end)
                  (match exp with Some n => n | None => c_exp q end) (c_kind q) (c_groups q))
           (sc_period c) (sc_active c).
  Fixpoint set_flags (flags : list bool) (cs : list scvc) : list scvc :=
    match flags, cs with
    | f :: fr, c :: cr => mkScvc (sc_cvc c) (sc_period c) f :: set_flags fr cr
    | _, _ => cs
    end.
  (* the flags computed by init are copied, never recomputed *)
  Definition with_comps (st : vstate) (cs : list scvc) : vstate :=
    mkVstate (vs_width st) cs (vs_linear st) (vs_homog st) (vs_periodic st) (vs_period st).
  (* modifycvcs: colvar::update_cvc_config ends with update_periodicity() (repair 21b0745b of /repo main): the periodic
     flag and the period are recomputed from ALL live components by the rule of init; linear and homogeneous are not *)
  Definition with_comps_refresh (st : vstate) (cs : list scvc) : vstate :=
    mkVstate (vs_width st) cs (vs_linear st) (vs_homog st) (init_periodic cs) (init_period cs).
  Definition apply_event (e : event) (sts : list vstate) : list vstate :=
    match e with
    | EvModify v i coeff exp =>
        update_nth v (fun st => with_comps_refresh st (update_nth i (modify_comp coeff exp) (vs_comps st))) sts
    | EvFlags v flags =>
        update_nth v (fun st => if Nat.eqb (length flags) (length (vs_comps st)) && existsb (fun b => b) flags
                                then with_comps st (set_flags flags (vs_comps st)) else st) sts
    end.
  Definition run_history (h : list event) (sts : list vstate) : list vstate :=
    fold_left (fun s e => apply_event e s) h sts.

  (* ---- what collect_cvc_values / communicate_forces / colvar::dist2 see ---- *)
  Definition effective_var (st : vstate) : cvar :=
    mkCvar (vs_width st) (vs_periodic st) (vs_period st) (map sc_cvc (filter sc_active (vs_comps st))).
  Definition effective (cell : option (@vec3 T)) (sts : list vstate) (bs : list (@bias T)) : config :=
    mkConfig cell (map effective_var sts) bs.
  Definition state_after (descr : list (T * list scvc)) (h : list event) : list vstate :=
    run_history h (map init_var descr).

  Definition h_energy (cell : option (@vec3 T)) (descr : list (T * list scvc)) (bs : list (@bias T)) (h : list event)
             (s : @sys T) : T := energy O pi (effective cell (state_after descr h) bs) s.
  Definition h_forces (cell : option (@vec3 T)) (descr : list (T * list scvc)) (bs : list (@bias T)) (h : list event)
             (s : @sys T) : list (@vec3 T) := forces O pi (effective cell (state_after descr h) bs) s.
  Definition h_values (cell : option (@vec3 T)) (descr : list (T * list scvc)) (bs : list (@bias T)) (h : list event)
             (s : @sys T) : list T := var_values O pi (effective cell (state_after descr h) bs) s.
End Superpos.
