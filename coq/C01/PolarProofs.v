(* Gradient correctness of polarTheta and polarPhi (colvarcomp_angles.cpp: polar_theta / polar_phi), R instance.
   theta = acos(z/r), phi = atan2(y, x) of the centre of mass of one group, in degrees; the C++ writes the gradients
   through cos/sin of the two angles.  Guards: off the z axis (x^2 + y^2 <> 0) for both; polarPhi also off its branch
   cut (not (x <= 0 and y = 0)). *)
From Coq Require Import ZArith List Bool Reals Lra Lia Psatz.
From Coquelicot Require Import Coquelicot.
From CV Require Import Base.Num Base.RNum C18.ValueModel C06.RestraintModel C01.ForceModel C01.ForceProofs.
Import ListNotations.
Local Open Scope R_scope.

(* ------------------------------------------------------------------ atan2: charts and trigonometry *)
Lemma atan_derive x : is_derive atan x (/ (1 + x ^ 2)).
Proof. apply is_derive_Reals. apply derivable_pt_lim_atan. Qed.

Lemma atan_inv_neg u : u < 0 -> atan (/ u) = - PI / 2 - atan u.
Proof.
  intros Hu. replace (/ u) with (- / (- u)) by (field; lra).
  rewrite atan_opp, atan_inv by lra. rewrite atan_opp. lra.
Qed.

Lemma div_neg_pos x y : x < 0 -> 0 < y -> x / y < 0.
Proof. intros Hx Hy. assert (0 < / y) by (apply Rinv_0_lt_compat; exact Hy). unfold Rdiv. nra. Qed.
Lemma div_pos_neg x y : 0 < x -> y < 0 -> x / y < 0.
Proof. intros Hx Hy. assert (/ y < 0) by (apply Rinv_lt_0_compat; exact Hy). unfold Rdiv. nra. Qed.
Lemma div_neg_neg x y : x < 0 -> y < 0 -> 0 < x / y.
Proof. intros Hx Hy. assert (/ y < 0) by (apply Rinv_lt_0_compat; exact Hy). unfold Rdiv. nra. Qed.

Lemma Ratan2_ypos y x : 0 < y -> Ratan2 y x = PI / 2 - atan (x / y).
Proof.
  intros Hy. unfold Ratan2.
  destruct (Rlt_dec 0 x) as [Hx|Hx].
  - replace (y / x) with (/ (x / y)) by (field; lra). apply atan_inv. apply Rdiv_lt_0_compat; lra.
  - destruct (Rlt_dec x 0) as [Hx2|Hx2].
    + destruct (Rle_dec 0 y) as [_|Hn]; [|lra].
      replace (y / x) with (/ (x / y)) by (field; lra). rewrite atan_inv_neg by (apply div_neg_pos; lra). lra.
    + assert (x = 0) by lra. subst. destruct (Rlt_dec 0 y); [|lra].
      replace (0 / y) with 0 by (field; lra). rewrite atan_0. lra.
Qed.

Lemma Ratan2_yneg y x : y < 0 -> Ratan2 y x = - PI / 2 - atan (x / y).
Proof.
  intros Hy. unfold Ratan2.
  destruct (Rlt_dec 0 x) as [Hx|Hx].
  - replace (y / x) with (/ (x / y)) by (field; lra). apply atan_inv_neg. apply div_pos_neg; lra.
  - destruct (Rlt_dec x 0) as [Hx2|Hx2].
    + destruct (Rle_dec 0 y) as [Hn|_]; [lra|].
      replace (y / x) with (/ (x / y)) by (field; lra). rewrite atan_inv by (apply div_neg_neg; lra). lra.
    + assert (x = 0) by lra. subst. destruct (Rlt_dec 0 y); [lra|]. destruct (Rlt_dec y 0); [|lra].
      replace (0 / y) with 0 by (field; lra). rewrite atan_0. lra.
Qed.

Lemma Ratan2_xpos y x : 0 < x -> Ratan2 y x = atan (y / x).
Proof. intros Hx. unfold Ratan2. destruct (Rlt_dec 0 x); [reflexivity|lra]. Qed.

Lemma locally_pos (q : R -> R) x0 dq : is_derive q x0 dq -> 0 < q x0 -> locally x0 (fun t => 0 < q t).
Proof.
  intros Hq Hp.
  assert (Hc : continuous q x0) by (apply (@ex_derive_continuous R_AbsRing R_NormedModule); exists dq; exact Hq).
  apply (Hc (fun y => 0 < y)). apply (open_gt 0 (q x0) Hp).
Qed.
Lemma locally_neg (q : R -> R) x0 dq : is_derive q x0 dq -> q x0 < 0 -> locally x0 (fun t => q t < 0).
Proof.
  intros Hq Hp.
  assert (Hc : continuous q x0) by (apply (@ex_derive_continuous R_AbsRing R_NormedModule); exists dq; exact Hq).
  apply (Hc (fun y => y < 0)). apply (open_lt 0 (q x0) Hp).
Qed.

Lemma line_derive a b : is_derive (fun t : R => a + t * b) 0 b.
Proof. auto_derive; [exact I|ring]. Qed.

(* not on the branch cut of atan2 (the negative x axis and the origin) *)
Definition offcut (x y : R) : Prop := 0 < x \/ y <> 0.

Lemma Ratan2_line_derive x0 y0 ex ey : offcut x0 y0 ->
  is_derive (fun t => Ratan2 (y0 + t * ey) (x0 + t * ex)) 0 ((ey * x0 - ex * y0) / (x0 * x0 + y0 * y0)).
Proof.
  intros Hoff.
  assert (Hcases : 0 < y0 \/ y0 < 0 \/ (y0 = 0 /\ 0 < x0)) by (destruct Hoff; lra).
  destruct Hcases as [Hy|[Hy|[Hy Hx]]].
  - apply (is_derive_ext_loc (fun t => PI / 2 - atan ((x0 + t * ex) / (y0 + t * ey)))).
    + generalize (locally_pos (fun t => y0 + t * ey) 0 ey (line_derive y0 ey) ltac:(cbv beta; rewrite Rmult_0_l, Rplus_0_r; exact Hy)).
      apply filter_imp. intros t Ht. symmetry. apply Ratan2_ypos. exact Ht.
    + evar_last.
      * apply (is_derive_minus (fun _ => PI / 2) (fun t => atan ((x0 + t * ex) / (y0 + t * ey)))); [apply is_derive_const|].
        apply (is_derive_comp atan (fun t => (x0 + t * ex) / (y0 + t * ey))); [apply atan_derive|].
        auto_derive; [rewrite Rmult_0_l, Rplus_0_r; lra|reflexivity].
      * rewrite !Rmult_0_l, !Rplus_0_r. unfold minus, plus, opp, zero, scal, mult; cbn. field. nra.
  - apply (is_derive_ext_loc (fun t => - PI / 2 - atan ((x0 + t * ex) / (y0 + t * ey)))).
    + generalize (locally_neg (fun t => y0 + t * ey) 0 ey (line_derive y0 ey) ltac:(cbv beta; rewrite Rmult_0_l, Rplus_0_r; exact Hy)).
      apply filter_imp. intros t Ht. symmetry. apply Ratan2_yneg. exact Ht.
    + evar_last.
      * apply (is_derive_minus (fun _ => - PI / 2) (fun t => atan ((x0 + t * ex) / (y0 + t * ey)))); [apply is_derive_const|].
        apply (is_derive_comp atan (fun t => (x0 + t * ex) / (y0 + t * ey))); [apply atan_derive|].
        auto_derive; [rewrite Rmult_0_l, Rplus_0_r; lra|reflexivity].
      * rewrite !Rmult_0_l, !Rplus_0_r. unfold minus, plus, opp, zero, scal, mult; cbn. field. nra.
  - apply (is_derive_ext_loc (fun t => atan ((y0 + t * ey) / (x0 + t * ex)))).
    + generalize (locally_pos (fun t => x0 + t * ex) 0 ex (line_derive x0 ex) ltac:(cbv beta; rewrite Rmult_0_l, Rplus_0_r; exact Hx)).
      apply filter_imp. intros t Ht. symmetry. apply Ratan2_xpos. exact Ht.
    + evar_last.
      * apply (is_derive_comp atan (fun t => (y0 + t * ey) / (x0 + t * ex))); [apply atan_derive|].
        auto_derive; [rewrite Rmult_0_l, Rplus_0_r; lra|reflexivity].
      * rewrite !Rmult_0_l, !Rplus_0_r. unfold scal, mult; cbn. unfold mult; cbn. field. nra.
Qed.

(* cos and sin of atan2 *)
Lemma sqrt_quot x y : x <> 0 -> sqrt (1 + (y / x)²) = sqrt (x * x + y * y) / Rabs x.
Proof.
  intros Hx. replace (1 + (y / x)²) with ((x * x + y * y) / (x * x)) by (unfold Rsqr; field; exact Hx).
  rewrite sqrt_div_alt by nra. f_equal. replace (x * x) with (x²) by reflexivity. apply sqrt_Rsqr_abs.
Qed.

Lemma cos_sin_Ratan2 x y : x * x + y * y <> 0 ->
  cos (Ratan2 y x) = x / sqrt (x * x + y * y) /\ sin (Ratan2 y x) = y / sqrt (x * x + y * y).
Proof.
  intros Hne. set (rho := sqrt (x * x + y * y)).
  assert (Hrho : 0 < rho) by (apply sqrt_lt_R0; nra).
  unfold Ratan2.
  destruct (Rlt_dec 0 x) as [Hx|Hx].
  - rewrite cos_atan, sin_atan, sqrt_quot by lra. fold rho. rewrite Rabs_right by lra. split; field; lra.
  - destruct (Rlt_dec x 0) as [Hx2|Hx2].
    + destruct (Rle_dec 0 y).
      * rewrite neg_cos, neg_sin, cos_atan, sin_atan, sqrt_quot by lra. fold rho. rewrite Rabs_left by lra. split; field; lra.
      * replace (atan (y / x) - PI) with (- (PI - atan (y / x))) by ring.
        rewrite cos_neg, sin_neg. rewrite Rtrigo_facts.cos_pi_minus, Rtrigo_facts.sin_pi_minus.
        rewrite cos_atan, sin_atan, sqrt_quot by lra. fold rho. rewrite Rabs_left by lra. split; field; lra.
    + assert (Hx0 : x = 0) by lra. subst x.
      assert (Hy2 : rho = Rabs y).
      { unfold rho. replace (0 * 0 + y * y) with (y²) by (unfold Rsqr; ring). apply sqrt_Rsqr_abs. }
      destruct (Rlt_dec 0 y) as [Hy|Hy].
      * rewrite cos_PI2, sin_PI2, Hy2, Rabs_right by lra. split; field; lra.
      * destruct (Rlt_dec y 0) as [Hy'|Hy']; [|exfalso; apply Hne; assert (y = 0) by lra; subst; ring].
        replace (- PI / 2) with (- (PI / 2)) by field.
        rewrite cos_neg, sin_neg, cos_PI2, sin_PI2, Hy2, Rabs_left by lra. split; field; lra.
Qed.

(* ------------------------------------------------------------------ the two kernels *)
Lemma gds_wf_1 (s : SYS) (g : GRP) : grp_ok s g -> gds_wf [gdata_of Rops s g] 1.
Proof. intros (_ & Hm & _). split; [reflexivity|]. constructor; [apply gd_wf_of; exact Hm|constructor]. Qed.

Lemma com1_curve (gs : list GD) Ds t : gds_wf gs 1 ->
  gd_com Rops (gnth (move_gs gs t Ds) 0) = v3add Rops (gd_com Rops (gnth gs 0)) (v3scale Rops t (comdir (gnth gs 0) (nth 0 Ds []))).
Proof. intros Hwf. apply (com_curve gs 1 Ds 0 t Hwf). lia. Qed.

Lemma shape_one (gs : list GD) (G : V3) : gds_wf gs 1 -> shape_ok [wgrad Rops (gnth gs 0) G] gs.
Proof.
  intros [Hl _]. pose proof (gds_1 gs Hl) as E. set (g0 := gnth gs 0) in *. rewrite E. cbn [shape_ok]. split; [apply wgrad_length|exact I].
Qed.

(* polarPhi *)
Lemma dir_correct_polar_phi (gs : list GD) : gds_wf gs 1 ->
  offcut (vget AX (gd_com Rops (gnth gs 0))) (vget AY (gd_com Rops (gnth gs 0))) ->
  dir_correct (k_polar_phi Rops PI) gs.
Proof.
  intros Hwf Hoff. pose proof (gds_wf_nth gs 1 0 Hwf ltac:(lia)) as W0.
  split.
  - unfold k_polar_phi. destruct (gd_com Rops (gnth gs 0)) as [[x0 y0] z0]. cbn [snd]. apply shape_one. exact Hwf.
  - intros Ds _.
    set (e := comdir (gnth gs 0) (nth 0 Ds [])).
    destruct (gd_com Rops (gnth gs 0)) as [[x0 y0] z0] eqn:Ec. destruct e as [[ex ey] ez] eqn:Ee.
    cbn [vget] in Hoff.
    assert (Hrho2 : x0 * x0 + y0 * y0 <> 0) by (destruct Hoff; nra).
    apply (is_derive_ext (fun t => rad2deg Rops PI * Ratan2 (y0 + t * ey) (x0 + t * ex))).
    + intros t. unfold k_polar_phi. rewrite (com1_curve gs Ds t Hwf), Ec. fold e. rewrite Ee.
      unfold v3add, v3scale. cbn [nadd nmul Rops fst natan2]. reflexivity.
    + unfold k_polar_phi. rewrite Ec. cbn [snd]. rewrite dot_lists_1, wgrad_dot by exact W0. fold e. rewrite Ee.
      evar_last; [apply is_derive_scal; apply (Ratan2_line_derive x0 y0 ex ey Hoff)|].
      destruct (cos_sin_Ratan2 x0 y0 Hrho2) as [Hcos Hsin].
      set (r0 := sqrt (x0 * x0 + y0 * y0 + z0 * z0)).
      set (rho := sqrt (x0 * x0 + y0 * y0)) in *.
      assert (Hrho : 0 < rho) by (apply sqrt_lt_R0; nra).
      assert (Hrr : rho * rho = x0 * x0 + y0 * y0) by (apply sqrt_sqrt; nra).
      assert (Hr0 : 0 < r0) by (apply sqrt_lt_R0; nra).
      assert (Hr2 : r0 * r0 = x0 * x0 + y0 * y0 + z0 * z0) by (apply sqrt_sqrt; nra).
      (* r sin(theta) = rho *)
      assert (Hu : -1 <= z0 / r0 <= 1).
      { assert (z0 * z0 <= r0 * r0) by nra. assert (- r0 <= z0 <= r0) by nra.
        split; [apply (Rmult_le_reg_r r0); [exact Hr0|]|apply (Rmult_le_reg_r r0); [exact Hr0|]]; unfold Rdiv; rewrite Rmult_assoc, Rinv_l by lra; lra. }
      assert (Hst : r0 * sin (acos (z0 / r0)) = rho).
      { rewrite sin_acos by exact Hu.
        replace (1 - (z0 / r0)²) with ((rho / r0)²) by (unfold Rsqr; field_simplify_eq; [nra|lra]).
        rewrite sqrt_Rsqr by (apply Rlt_le, Rdiv_lt_0_compat; lra). field. lra. }
      unfold vnorm, v3norm2, v3dot, zero, scal. cbn. fold r0.
      replace (Rltb 0 r0) with true by (symmetry; apply Rltb_true; exact Hr0).
      rewrite Hcos, Hsin, Hst. fold rho. unfold rad2deg, ofnat. cbn [nofZ ndiv Rops].
      replace (x0 * x0 + y0 * y0) with (rho * rho) by exact Hrr. field. split; [lra|apply PI_neq0].
Qed.

(* polarTheta *)
Lemma dir_correct_polar_theta (gs : list GD) : gds_wf gs 1 ->
  (let c := gd_com Rops (gnth gs 0) in vget AX c * vget AX c + vget AY c * vget AY c <> 0) ->
  dir_correct (k_polar_theta Rops PI) gs.
Proof.
  intros Hwf Hoff. pose proof (gds_wf_nth gs 1 0 Hwf ltac:(lia)) as W0.
  split.
  - unfold k_polar_theta. destruct (gd_com Rops (gnth gs 0)) as [[x0 y0] z0]. cbn [snd]. apply shape_one. exact Hwf.
  - intros Ds _.
    set (e := comdir (gnth gs 0) (nth 0 Ds [])).
    destruct (gd_com Rops (gnth gs 0)) as [[x0 y0] z0] eqn:Ec. destruct e as [[ex ey] ez] eqn:Ee.
    cbv zeta in Hoff. cbn [vget] in Hoff.
    set (r0 := sqrt (x0 * x0 + y0 * y0 + z0 * z0)).
    set (rho := sqrt (x0 * x0 + y0 * y0)).
    assert (Hrho : 0 < rho) by (apply sqrt_lt_R0; nra).
    assert (Hrr : rho * rho = x0 * x0 + y0 * y0) by (apply sqrt_sqrt; nra).
    assert (Hr0 : 0 < r0) by (apply sqrt_lt_R0; nra).
    assert (Hr2 : r0 * r0 = x0 * x0 + y0 * y0 + z0 * z0) by (apply sqrt_sqrt; nra).
    assert (Hu : -1 < z0 / r0 < 1).
    { assert (z0 * z0 < r0 * r0) by nra. assert (- r0 < z0 < r0) by nra.
      split; [apply (Rmult_lt_reg_r r0); [exact Hr0|]|apply (Rmult_lt_reg_r r0); [exact Hr0|]]; unfold Rdiv; rewrite Rmult_assoc, Rinv_l by lra; lra. }
    assert (Hsq : sqrt (1 - z0 / r0 * (z0 / r0)) = rho / r0).
    { replace (1 - z0 / r0 * (z0 / r0)) with ((rho / r0)²) by (unfold Rsqr; field_simplify_eq; [nra|lra]).
      apply sqrt_Rsqr. apply Rlt_le, Rdiv_lt_0_compat; lra. }
    pose (S := fun t : R => (x0 + t * ex) * (x0 + t * ex) + (y0 + t * ey) * (y0 + t * ey) + (z0 + t * ez) * (z0 + t * ez)).
    apply (is_derive_ext_loc (fun t => rad2deg Rops PI * acos ((z0 + t * ez) / sqrt (S t)))).
    + assert (HS : is_derive S 0 (2 * (x0 * ex + y0 * ey + z0 * ez))) by (unfold S; auto_derive; [exact I|ring]).
      generalize (locally_pos S 0 _ HS ltac:(unfold S; rewrite !Rmult_0_l, !Rplus_0_r; nra)).
      apply filter_imp. intros t Ht. unfold k_polar_theta. rewrite (com1_curve gs Ds t Hwf), Ec. fold e. rewrite Ee.
      unfold v3add, v3scale, vnorm, v3norm2, v3dot, zero. cbn [nadd nmul nsqrt nltb nacos ndiv Rops fst n0]. fold (S t).
      replace (Rltb 0 (sqrt (S t))) with true by (symmetry; apply Rltb_true; apply sqrt_lt_R0; exact Ht). reflexivity.
    + unfold k_polar_theta. rewrite Ec. cbn [snd]. rewrite dot_lists_1, wgrad_dot by exact W0. fold e. rewrite Ee.
      assert (HS0 : S 0 = r0 * r0) by (unfold S; rewrite !Rmult_0_l, !Rplus_0_r; symmetry; exact Hr2).
      assert (Hs0 : sqrt (S 0) = r0) by (unfold S; rewrite !Rmult_0_l, !Rplus_0_r; reflexivity).
      evar_last.
      * apply is_derive_scal. apply (is_derive_comp acos (fun t => (z0 + t * ez) / sqrt (S t))).
        -- cbv beta. rewrite Hs0, Rmult_0_l, Rplus_0_r. apply acos_derive. exact Hu.
        -- unfold S. auto_derive; [rewrite !Rmult_0_l, !Rplus_0_r; split; [nra|split; [apply Rgt_not_eq, sqrt_lt_R0; nra|exact I]]|reflexivity].
      * destruct (cos_sin_Ratan2 x0 y0 Hoff) as [Hcos Hsin].
        rewrite !Rmult_0_l, !Rplus_0_r. fold r0. rewrite Hsq.
        unfold vnorm, v3norm2, v3dot, zero, scal. cbn. fold r0.
        replace (Rltb 0 r0) with true by (symmetry; apply Rltb_true; exact Hr0).
        replace (Reqb' r0 0) with false by (symmetry; destruct (Reqb' r0 0) eqn:E; [apply Reqb_true in E; lra|reflexivity]).
        rewrite cos_acos, sin_acos by lra. replace ((z0 / r0)²) with (z0 / r0 * (z0 / r0)) by reflexivity. rewrite Hsq.
        rewrite Hcos, Hsin. fold rho. unfold rad2deg, ofnat. cbn [nofZ ndiv Rops].
        (* r0^2 = rho^2 + z0^2 *)
        assert (Hpy : r0 * r0 = rho * rho + z0 * z0) by lra.
        transitivity (180 / PI * ((z0 * x0 * ex + z0 * y0 * ey - rho * rho * ez) / (rho * (r0 * r0)))
                      + 180 / PI * (ez * (rho * rho + z0 * z0 - r0 * r0) / (rho * (r0 * r0)))).
        { unfold Rsqr. field. repeat split; try lra; apply PI_neq0. }
        replace (rho * rho + z0 * z0 - r0 * r0) with 0 by lra. field. repeat split; try lra; apply PI_neq0.
Qed.

(* ------------------------------------------------------------------ the two components *)
Lemma cvc_grad_correct_polarTheta cell co e g (s : SYS) : grp_ok s g ->
  (let c := com_of s g in vget AX c * vget AX c + vget AY c * vget AY c <> 0) ->
  cvc_grad_correct cell (mkCvc co e KPolarTheta [g]) s.
Proof.
  intros Hg Hoff. pose proof (gds_wf_1 s g Hg) as HW. destruct Hg as (Hw & Hm & Hf).
  apply group_layer; cbn [c_groups c_kind keval map].
  - constructor; [exact Hw|constructor].
  - apply dir_correct_polar_theta; [exact HW|]. unfold gnth. cbn [nth]. exact Hoff.
  - apply fit_ok_on. constructor; [exact Hf|constructor].
Qed.

Lemma cvc_grad_correct_polarPhi cell co e g (s : SYS) : grp_ok s g ->
  offcut (vget AX (com_of s g)) (vget AY (com_of s g)) ->
  cvc_grad_correct cell (mkCvc co e KPolarPhi [g]) s.
Proof.
  intros Hg Hoff. pose proof (gds_wf_1 s g Hg) as HW. destruct Hg as (Hw & Hm & Hf).
  apply group_layer; cbn [c_groups c_kind keval map].
  - constructor; [exact Hw|constructor].
  - apply dir_correct_polar_phi; [exact HW|]. unfold gnth. cbn [nth]. exact Hoff.
  - apply fit_ok_on. constructor; [exact Hf|constructor].
Qed.

(* ------------------------------------------------------------------ the closed statement, with the two polar angles *)
Definition kind_guard_w (cell : option V3) (c : cvc) (s : SYS) : Prop :=
  match c_kind c, c_groups c with
  | KPolarTheta, [g] =>
    grp_ok s g /\ vget AX (com_of s g) * vget AX (com_of s g) + vget AY (com_of s g) * vget AY (com_of s g) <> 0   (* off the z axis *)
  | KPolarPhi, [g] => grp_ok s g /\ offcut (vget AX (com_of s g)) (vget AY (com_of s g))   (* off the branch cut of atan2 *)
  | _, _ => kind_guard cell c s
  end.
Definition cvc_guard_w (cell : option V3) (c : cvc) (s : SYS) : Prop :=
  kind_guard_w cell c s /\ exp_ok_at (c_exp c) (cvc_value Rops PI cell c s).

Lemma cvc_guard_w_ok cell c (s : SYS) : cvc_guard_w cell c s -> cvc_ok cell c s.
Proof.
  intros [Hk He].
  assert (Hold : kind_guard cell c s -> cvc_ok cell c s) by (intros H; apply cvc_guard_ok; split; assumption).
  destruct c as [co e kind groups]. unfold kind_guard_w in Hk. cbn [c_kind c_groups] in Hk.
  destruct kind; try (apply Hold; exact Hk).
  - destruct groups as [|g [|g2 r]]; try (apply Hold; exact Hk). destruct Hk as [Hg Hoff].
    split; [|exact He]. apply cvc_grad_correct_polarTheta; assumption.
  - destruct groups as [|g [|g2 r]]; try (apply Hold; exact Hk). destruct Hk as [Hg Hoff].
    split; [|exact He]. apply cvc_grad_correct_polarPhi; assumption.
Qed.

Theorem forces_are_minus_gradient_w (cf : config) (s : SYS) :
  (forall v c, In v (cf_vars cf) -> In c (cv_cvcs v) -> cvc_guard_w (cf_cell cf) c s) ->
  (forall b, In b (cf_biases cf) -> bias_guard b (cf_vars cf) (var_values Rops PI cf s)) ->
  forall a k, (a < length s)%nat ->
    is_derive (fun t => energy Rops PI cf (set_coord s a k t)) (coord Rops s a k)
              (- vget k (nth a (forces Rops PI cf s) (vzero Rops))).
Proof.
  intros Hc Hb a k Ha. rewrite forces_nth by exact Ha. apply chain_rule.
  - intros v c Hv Hin. apply cvc_guard_w_ok. apply (Hc v c Hv Hin).
  - intros b Hin. apply bias_guard_ok. apply (Hb b Hin).
Qed.

Lemma cvc_guard_widen cell c (s : SYS) : cvc_guard cell c s -> cvc_guard_w cell c s.
Proof.
  intros [Hk He]. split; [|exact He]. destruct c as [co e kind groups]. unfold kind_guard_w, kind_guard in *. cbn [c_kind c_groups] in *.
  destruct kind; try exact Hk; contradiction.
Qed.

(* non-vacuity: an atom at (1, 2, 2) satisfies both guards *)
Definition exp_sys : SYS := [mkAtom 1 0 (1, 2, 2)].
Definition exp_g : GRP := GAtoms [0%nat] None None true.
Lemma ex_polar : kind_guard_w None (mkCvc 1 1%Z KPolarTheta [exp_g]) exp_sys /\ kind_guard_w None (mkCvc 1 1%Z KPolarPhi [exp_g]) exp_sys.
Proof.
  assert (Hg : grp_ok exp_sys exp_g).
  { unfold grp_ok, wf_group, group_mass_ok, fit_on, ids_ok, exp_g, exp_sys. cbn [fit_ids length In].
    repeat split; try (intros i Hi; repeat (destruct Hi as [<-|Hi]; [lia|]); contradiction); try discriminate; cbn; intros H; lra. }
  assert (Hc : com_of exp_sys exp_g = (1, 2, 2)).
  { unfold com_of, gd_com, exp_g, exp_sys. cbn. unfold vdiv, v3add, v3scale, vzero. cbn. f_equal; [f_equal|]; field. }
  split; unfold kind_guard_w; cbn [c_kind c_groups]; (split; [exact Hg|]); rewrite Hc; cbn [vget]; [lra|left; lra].
Qed.

Lemma ex_guards_w :
  (forall v c, In v (cf_vars ex_cf) -> In c (cv_cvcs v) -> cvc_guard_w (cf_cell ex_cf) c ex_sys) /\
  (forall b, In b (cf_biases ex_cf) -> bias_guard b (cf_vars ex_cf) (var_values Rops PI ex_cf ex_sys)).
Proof. destruct ex_guards as [H1 H2]. split; [|exact H2]. intros v c Hv Hc. apply cvc_guard_widen. apply (H1 v c Hv Hc). Qed.
