(* Model of the force path of Colvars: from atomic coordinates to the energy reported to the engine and
   the force handed back for every atom.

     atoms (mass, charge, position)                                  colvarproxy_atoms
       -> atom groups (centre of mass, dummy atom, centerToReference with or
          without fittingGroup, enableFitGradients)                  colvaratoms.cpp: read_positions,
                                                                     calc_apply_roto_translation (no rotation),
                                                                     calc_center_of_mass, set_weighted_gradient,
                                                                     calc_fit_gradients, apply_colvar_force, apply_force
       -> components: value + per-atom gradient                      colvarcomp_distances/angles/coordnums.cpp:
                                                                     calc_value, calc_gradients
       -> variable = sum_i c_i q_i^n_i                               colvar.cpp: collect_cvc_values, communicate_forces
       -> biases: energy + force on each variable                    colvarbias_restraint.cpp: restraint_potential,
                                                                     restraint_force (potentials shared with C06)
       -> energy = sum of bias energies (add_energy), atomic forces  colvarmodule.cpp: update_colvar_forces
   Definitions only; generic over the numeric carrier.  The optimal rotation (rotateToReference) is not
   modelled.  Sums are right folds (the C++ sums left to right: same real number, last-bit differences in
   floating point, absorbed by the tolerance of the tie). *)
From Coq Require Import ZArith List Bool.
From CV Require Import Base.Num C18.ValueModel C06.RestraintModel.
Import ListNotations.

Inductive axis := AX | AY | AZ.

Section Force.
  Context {T : Type} (O : NumOps T).
  Local Notation "a + b" := (nadd O a b).
  Local Notation "a - b" := (nsub O a b).
  Local Notation "a * b" := (nmul O a b).
  Local Notation "a / b" := (ndiv O a b).
  Local Notation V3 := (@vec3 T).
  Definition zero : T := n0 O.
  Definition one : T := n1 O.
  Definition mone : T := nneg O (n1 O).
  Definition ofnat (n : nat) : T := nofZ O (Z.of_nat n).

  (* ---- vectors (additions to C18.ValueModel) ---- *)
  Definition vzero : V3 := (zero, zero, zero).
  Definition vget (k : axis) (v : V3) : T :=
    let '(x, y, z) := v in match k with AX => x | AY => y | AZ => z end.
  Definition vset (k : axis) (v : V3) (t : T) : V3 :=
    let '(x, y, z) := v in match k with AX => (t, y, z) | AY => (x, t, z) | AZ => (x, y, t) end.
  Definition vdiv (v : V3) (a : T) : V3 := let '(x, y, z) := v in (x / a, y / a, z / a).
  Definition vneg (v : V3) : V3 := v3scale O mone v.
  Definition vnorm (v : V3) : T := nsqrt O (v3norm2 O v).
  (* rvector::unit() *)
  Definition vunit (v : V3) : V3 := let n := vnorm v in if nltb O zero n then vdiv v n else (one, zero, zero).
  Definition vcross (a b : V3) : V3 :=
    let '(ax, ay, az) := a in let '(bx, by_, bz) := b in
    (ay * bz - az * by_, az * bx - ax * bz, ax * by_ - ay * bx).
  Definition vsum (l : list V3) : V3 := fold_right (v3add O) vzero l.
  Definition tsum (l : list T) : T := fold_right (nadd O) zero l.

  (* cvm::integer_power (after the fix of integer_power(0,0)) *)
  Fixpoint powN (x : T) (n : nat) : T := match n with 0%nat => one | S m => x * powN x m end.
  Definition ipow (x : T) (n : Z) : T :=
    if neqb O x zero then (if Z.eqb n 0 then one else zero)
    else match n with
         | Z0 => one
         | Zpos p => powN x (Pos.to_nat p)
         | Zneg p => one / powN x (Pos.to_nat p)
         end.

  (* ---- the engine's atoms ---- *)
  Record atom := mkAtom { a_mass : T; a_charge : T; a_pos : V3 }.
  Definition sys := list atom.
  Definition atom0 : atom := mkAtom zero zero vzero.
  Definition atom_at (s : sys) (i : nat) : atom := nth i s atom0.
  Definition coord (s : sys) (a : nat) (k : axis) : T := vget k (a_pos (atom_at s a)).
  Fixpoint set_coord (s : sys) (a : nat) (k : axis) (t : T) : sys :=
    match s, a with
    | [], _ => []
    | x :: r, 0%nat => mkAtom (a_mass x) (a_charge x) (vset k (a_pos x) t) :: r
    | x :: r, S a' => x :: set_coord r a' k t
    end.

  (* ---- atom groups ---- *)
  Inductive group :=
  | GDummy (p : V3)                                   (* dummyAtom (x, y, z) *)
  | GAtoms (ids : list nat)                           (* atomNumbers (0-based here) *)
           (center : option V3)                       (* centerToReference: centre of the reference positions
                                                         (the origin for centerToOrigin) *)
           (fit : option (list nat))                  (* fittingGroup *)
           (fitgrad : bool).                          (* f_ag_fit_gradients *)

  Definition fit_ids (ids : list nat) (fit : option (list nat)) : list nat :=
    match fit with Some l => l | None => ids end.
  (* calc_center_of_geometry of the group used for the fit *)
  Definition cog_of (s : sys) (ids : list nat) : V3 :=
    vdiv (vsum (map (fun i => a_pos (atom_at s i)) ids)) (ofnat (length ids)).
  (* calc_apply_roto_translation without rotation: pos - cog(fit group) + ref_pos_cog *)
  Definition gshift (s : sys) (center : option V3) (fids : list nat) : V3 :=
    match center with None => vzero | Some rc => v3sub O rc (cog_of s fids) end.

  (* what a component sees of a group: (mass, charge, position in the fitted frame) of each atom *)
  Record gdata := mkGd { gd_atoms : list (T * T * V3); gd_dummy : option V3 }.
  Definition gdata_of (s : sys) (g : group) : gdata :=
    match g with
    | GDummy p => mkGd [] (Some p)
    | GAtoms ids c fit _ =>
      let sh := gshift s c (fit_ids ids fit) in
      mkGd (map (fun i => let a := atom_at s i in (a_mass a, a_charge a, v3add O (a_pos a) sh)) ids) None
    end.
  Definition gd0 : gdata := mkGd [] None.
  Definition gnth (gs : list gdata) (i : nat) : gdata := nth i gs gd0.
  Definition am (a : T * T * V3) : T := fst (fst a).
  Definition aq (a : T * T * V3) : T := snd (fst a).
  Definition ap (a : T * T * V3) : V3 := snd a.
  Definition gd_mass (g : gdata) : T := tsum (map am (gd_atoms g)).
  Definition gd_charge (g : gdata) : T := tsum (map aq (gd_atoms g)).
  Definition gd_pos (g : gdata) : list V3 := map ap (gd_atoms g).
  (* calc_center_of_mass *)
  Definition gd_com (g : gdata) : V3 :=
    match gd_dummy g with
    | Some p => p
    | None => vdiv (vsum (map (fun a => v3scale O (am a) (ap a)) (gd_atoms g))) (gd_mass g)
    end.
  (* set_weighted_gradient: grad_i = (m_i / M) * G; nothing for a dummy group (no atoms) *)
  Definition wgrad (g : gdata) (G : V3) : list V3 :=
    map (fun a => v3scale O (am a / gd_mass g) G) (gd_atoms g).

  (* minimum-image difference p2 - p1 as the components compute it *)
  Definition pdist (pbc : bool) (cell : option V3) (p1 p2 : V3) : V3 :=
    if pbc then position_distance O cell p1 p2 else v3sub O p2 p1.

  (* ---- components: kernel = value and per-group, per-atom gradients from the group data ---- *)
  Inductive ckind :=
  | KDistance (pbc : bool)
  | KDistanceZ (pbc : bool) (ax : V3)        (* groups: main, ref *)
  | KDistanceZ2 (pbc : bool)                 (* groups: main, ref, ref2 *)
  | KDistanceXY (pbc : bool) (ax : V3)
  | KDistanceXY2 (pbc : bool)
  | KDistanceInv (pbc : bool) (e : nat)      (* exponent = 2 e *)
  | KGyration
  | KInertia
  | KInertiaZ (ax : V3)
  | KAngle (pbc : bool)
  | KCoordNum (r0 : T) (en2 ed2 : nat) (g2center : bool)   (* expNumer = 2 en2, expDenom = 2 ed2 *)
  | KSelfCoordNum (r0 : T) (en2 ed2 : nat)
  | KDihedral (pbc : bool)
  | KDipoleMagnitude
  | KDipoleAngle (pbc : bool)
  | KPolarTheta
  | KPolarPhi
  (* rmsd with its default fit (centerToReference + rotateToReference on its own atoms, fit gradients disabled):
     reference positions, and the optimal-rotation solver (rotation::calc_optimal_rotation) as a function from the
     list of (centred position, centred reference position) pairs to a quaternion *)
  | KRmsd (ref : list V3) (qopt : list (V3 * V3) -> @quat T).

  Variable pi : T.
  Definition rad2deg : T := ofnat 180 / pi.
  Definition tw : T := ofnat 2.
  Definition hf : T := nhalf O.

  Definition k_distance (pbc : bool) (cell : option V3) (gs : list gdata) : T * list (list V3) :=
    let g1 := gnth gs 0 in let g2 := gnth gs 1 in
    let d := pdist pbc cell (gd_com g1) (gd_com g2) in
    let u := vunit d in
    (vnorm d, [wgrad g1 (vneg u); wgrad g2 u]).

  Definition k_distance_z (pbc : bool) (cell : option V3) (ax : V3) (gs : list gdata) : T * list (list V3) :=
    let gm := gnth gs 0 in let gr := gnth gs 1 in
    let d := pdist pbc cell (gd_com gr) (gd_com gm) in
    (v3dot O ax d, [wgrad gm ax; wgrad gr (vneg ax)]).

  (* distanceZ with ref2 (after the fix that gives ref and ref2 their own derivatives) *)
  Definition k_distance_z2 (pbc : bool) (cell : option V3) (gs : list gdata) : T * list (list V3) :=
    let gm := gnth gs 0 in let g1 := gnth gs 1 in let g2 := gnth gs 2 in
    let cm := gd_com gm in let c1 := gd_com g1 in let c2 := gd_com g2 in
    let a12 := pdist pbc cell c1 c2 in
    (* minimum-image branch: the midpoint follows the minimum-image vector joining the two reference centres *)
    let mid := if pbc then v3add O c1 (v3scale O hf a12) else v3scale O hf (v3add O c1 c2) in
    let d := pdist pbc cell mid cm in
    let L := vnorm a12 in
    let ax := vunit a12 in
    let x := v3dot O ax d in
    let xa := v3scale O x ax in
    (x, [wgrad gm ax;
         wgrad g1 (v3scale O (one / L) (v3add O (pdist pbc cell cm c1) xa));
         wgrad g2 (v3scale O (one / L) (v3sub O (pdist pbc cell c2 cm) xa))]).

  Definition k_distance_xy (pbc : bool) (cell : option V3) (ax : V3) (gs : list gdata) : T * list (list V3) :=
    let gm := gnth gs 0 in let gr := gnth gs 1 in
    let d := pdist pbc cell (gd_com gr) (gd_com gm) in
    let v := v3sub O d (v3scale O (v3dot O d ax) ax) in
    let x := vnorm v in
    if neqb O x zero then (x, [wgrad gm vzero; wgrad gr vzero])
    else let xi := one / x in
         (x, [wgrad gm (v3scale O xi v); wgrad gr (v3scale O (mone * xi) v)]).

  Definition k_distance_xy2 (pbc : bool) (cell : option V3) (gs : list gdata) : T * list (list V3) :=
    let gm := gnth gs 0 in let g1 := gnth gs 1 in let g2 := gnth gs 2 in
    let d := pdist pbc cell (gd_com g1) (gd_com gm) in
    let v12 := pdist pbc cell (gd_com g1) (gd_com g2) in
    let L := vnorm v12 in
    let ax := vunit v12 in
    let v := v3sub O d (v3scale O (v3dot O d ax) ax) in
    let x := vnorm v in
    if neqb O x zero then (x, [wgrad gm vzero; wgrad g1 vzero; wgrad g2 vzero])
    else let xi := one / x in
         let A := v3dot O d ax / L in
         (x, [wgrad gm (v3scale O (one * xi) v);
              wgrad g1 (v3scale O ((A - one) * xi) v);
              wgrad g2 (v3scale O (nneg O A * xi) v)]).

  (* pair loops: per-atom gradients accumulate over the partner atoms *)
  Definition pair_sum (f : V3 -> V3 -> T) (l1 l2 : list V3) : T :=
    tsum (map (fun p1 => tsum (map (fun p2 => f p1 p2) l2)) l1).
  Definition pair_grad1 (f : V3 -> V3 -> V3) (l1 l2 : list V3) : list V3 :=
    map (fun p1 => vsum (map (fun p2 => f p1 p2) l2)) l1.
  Definition pair_grad2 (f : V3 -> V3 -> V3) (l1 l2 : list V3) : list V3 :=
    map (fun p2 => vsum (map (fun p1 => f p1 p2) l1)) l2.

  Definition k_distance_inv (pbc : bool) (cell : option V3) (e : nat) (gs : list gdata) : T * list (list V3) :=
    let l1 := gd_pos (gnth gs 0) in let l2 := gd_pos (gnth gs 1) in
    let dinv p1 p2 := ipow (v3norm2 O (pdist pbc cell p1 p2)) (Z.opp (Z.of_nat e)) in
    let dsum p1 p2 :=
        let dv := pdist pbc cell p1 p2 in let d2 := v3norm2 O dv in
        v3scale O (mone * ofnat e * (dinv p1 p2 / d2) * tw) dv in
    let npairs := ofnat (length l1 * length l2) in
    let sum := pair_sum dinv l1 l2 * (one / npairs) in
    let ex := ofnat (2 * e) in
    let x := npow O sum (mone / ex) in
    let dxdsum := (mone / ex) * ipow x (Z.of_nat (2 * e + 1)) / npairs in
    (x, [map (v3scale O dxdsum) (pair_grad1 (fun p1 p2 => vneg (dsum p1 p2)) l1 l2);
         map (v3scale O dxdsum) (pair_grad2 dsum l1 l2)]).

  Definition k_gyration (gs : list gdata) : T * list (list V3) :=
    let l := gd_pos (gnth gs 0) in
    let n := ofnat (length l) in
    let x := nsqrt O (tsum (map (v3norm2 O) l) / n) in
    let drdx := one / (n * x) in
    (x, [map (v3scale O drdx) l]).

  Definition k_inertia (gs : list gdata) : T * list (list V3) :=
    let l := gd_pos (gnth gs 0) in
    (tsum (map (v3norm2 O) l), [map (v3scale O tw) l]).

  Definition k_inertia_z (ax : V3) (gs : list gdata) : T * list (list V3) :=
    let l := gd_pos (gnth gs 0) in
    (tsum (map (fun p => v3dot O p ax * v3dot O p ax) l),
     [map (fun p => v3scale O (tw * v3dot O p ax) ax) l]).

  Definition k_angle (pbc : bool) (cell : option V3) (gs : list gdata) : T * list (list V3) :=
    let g1 := gnth gs 0 in let g2 := gnth gs 1 in let g3 := gnth gs 2 in
    let r21 := pdist pbc cell (gd_com g2) (gd_com g1) in
    let r23 := pdist pbc cell (gd_com g2) (gd_com g3) in
    let l21 := vnorm r21 in let l23 := vnorm r23 in
    let c := v3dot O r21 r23 / (l21 * l23) in
    let dxdcos := mone / nsqrt O (one - c * c) in
    let d1 := v3scale O (rad2deg * dxdcos * (one / l21))
                      (v3add O (vdiv r23 l23) (vdiv (v3scale O (mone * c) r21) l21)) in
    let d3 := v3scale O (rad2deg * dxdcos * (one / l23))
                      (v3add O (vdiv r21 l21) (vdiv (v3scale O (mone * c) r23) l23)) in
    (rad2deg * nacos O c, [wgrad g1 d1; wgrad g2 (v3scale O mone (v3add O d1 d3)); wgrad g3 d3]).

  (* coordnum::switching_function with tolerance 0, isotropic cutoff; always minimum-image *)
  Definition sw_l2 (cell : option V3) (r0 : T) (p1 p2 : V3) : T :=
    let '(dx, dy, dz) := position_distance O cell p1 p2 in
    v3norm2 O (dx / r0, dy / r0, dz / r0).
  Definition sw_func (cell : option V3) (r0 : T) (en2 ed2 : nat) (p1 p2 : V3) : T :=
    let l2 := sw_l2 cell r0 p1 p2 in
    let f := (one - ipow l2 (Z.of_nat en2)) / (one - ipow l2 (Z.of_nat ed2)) in
    if nltb O f zero then zero else f.
  (* derivative with respect to p2 (p1 gets the opposite) *)
  Definition sw_grad (cell : option V3) (r0 : T) (en2 ed2 : nat) (p1 p2 : V3) : V3 :=
    let diff := position_distance O cell p1 p2 in
    let l2 := sw_l2 cell r0 p1 p2 in
    let xn := ipow l2 (Z.of_nat en2) in let xd := ipow l2 (Z.of_nat ed2) in
    let f := (one - xn) / (one - xd) in
    if nltb O f zero then vzero
    else let dFdl2 := f * (ofnat ed2 * xd / ((one - xd) * l2) - ofnat en2 * xn / ((one - xn) * l2)) in
         v3scale O dFdl2 (v3scale O (tw / (r0 * r0)) diff).

  Definition k_coordnum (cell : option V3) (r0 : T) (en2 ed2 : nat) (g2center : bool) (gs : list gdata)
    : T * list (list V3) :=
    let g1 := gnth gs 0 in let g2 := gnth gs 1 in
    let l1 := gd_pos g1 in
    if g2center then
      let c2 := gd_com g2 in
      (pair_sum (sw_func cell r0 en2 ed2) l1 [c2],
       [pair_grad1 (fun p1 p2 => vneg (sw_grad cell r0 en2 ed2 p1 p2)) l1 [c2];
        wgrad g2 (vsum (map (fun p1 => sw_grad cell r0 en2 ed2 p1 c2) l1))])
    else
      let l2 := gd_pos g2 in
      (pair_sum (sw_func cell r0 en2 ed2) l1 l2,
       [pair_grad1 (fun p1 p2 => vneg (sw_grad cell r0 en2 ed2 p1 p2)) l1 l2;
        pair_grad2 (sw_grad cell r0 en2 ed2) l1 l2]).

  (* selfCoordNum: pairs i < j of one group *)
  Fixpoint self_sum (f : V3 -> V3 -> T) (l : list V3) : T :=
    match l with [] => zero | p :: r => tsum (map (f p) r) + self_sum f r end.
  (* gradient of sum_{i<j} f(p_i, p_j) when g p q = d f(p,q)/dq = - d f(p,q)/dp *)
  Fixpoint self_grad (g : V3 -> V3 -> V3) (l : list V3) : list V3 :=
    match l with
    | [] => []
    | p :: r => vsum (map (fun q => vneg (g p q)) r) :: map (fun qg => v3add O (g p (fst qg)) (snd qg)) (combine r (self_grad g r))
    end.
  Definition k_selfcoordnum (cell : option V3) (r0 : T) (en2 ed2 : nat) (gs : list gdata) : T * list (list V3) :=
    let l := gd_pos (gnth gs 0) in
    (self_sum (sw_func cell r0 en2 ed2) l, [self_grad (sw_grad cell r0 en2 ed2) l]).

  Definition k_dihedral (pbc : bool) (cell : option V3) (gs : list gdata) : T * list (list V3) :=
    let g1 := gnth gs 0 in let g2 := gnth gs 1 in let g3 := gnth gs 2 in let g4 := gnth gs 3 in
    let r12 := pdist pbc cell (gd_com g1) (gd_com g2) in
    let r23 := pdist pbc cell (gd_com g2) (gd_com g3) in
    let r34 := pdist pbc cell (gd_com g3) (gd_com g4) in
    let A := vcross r12 r23 in let B := vcross r23 r34 in
    let cosphi := v3dot O A B in
    let nG := vnorm r23 in
    let sinphi := v3dot O A r34 * nG in
    let A2 := v3norm2 O A in let B2 := v3norm2 O B in
    let f1 := v3scale O (rad2deg * nG / A2) A in
    let f2 := v3scale O rad2deg (v3add O (v3scale O (v3dot O r12 r23 / (A2 * nG)) A)
                                         (v3scale O (v3dot O r34 r23 / (B2 * nG)) B)) in
    let f3 := v3scale O (rad2deg * nG / B2) B in
    (rad2deg * natan2 O sinphi cosphi,
     [wgrad g1 (vneg f1); wgrad g2 (v3add O f2 f1); wgrad g3 (v3sub O (vneg f3) f2); wgrad g4 f3]).

  Definition dipole (g : gdata) (c : V3) : V3 :=
    vsum (map (fun a => v3scale O (aq a) (v3sub O (ap a) c)) (gd_atoms g)).

  Definition k_dipole_magnitude (gs : list gdata) : T * list (list V3) :=
    let g := gnth gs 0 in
    let dv := dipole g (gd_com g) in
    let aux := gd_charge g / gd_mass g in
    let u := vunit dv in
    (vnorm dv, [map (fun a => v3scale O (aq a - aux * am a) u) (gd_atoms g)]).

  Definition k_dipole_angle (pbc : bool) (cell : option V3) (gs : list gdata) : T * list (list V3) :=
    let g1 := gnth gs 0 in let g2 := gnth gs 1 in let g3 := gnth gs 2 in
    let r21 := dipole g1 (gd_com g1) in
    let r23 := pdist pbc cell (gd_com g2) (gd_com g3) in
    let l21 := vnorm r21 in let l23 := vnorm r23 in
    let c := v3dot O r21 r23 / (l21 * l23) in
    let dxdcos := mone / nsqrt O (one - c * c) in
    let d1 := v3scale O (rad2deg * dxdcos * (one / l21))
                      (v3add O (vdiv r23 l23) (vdiv (v3scale O (mone * c) r21) l21)) in
    let d3 := v3scale O (rad2deg * dxdcos * (one / l23))
                      (v3add O (vdiv r21 l21) (vdiv (v3scale O (mone * c) r23) l23)) in
    let aux := gd_charge g1 / gd_mass g1 in
    (rad2deg * nacos O c,
     [map (fun a => v3scale O (aq a + mone * am a * aux) d1) (gd_atoms g1);
      wgrad g2 (v3scale O mone d3); wgrad g3 d3]).

  Definition k_polar_theta (gs : list gdata) : T * list (list V3) :=
    let g := gnth gs 0 in
    let '(x, y, z) := gd_com g in
    let r := vnorm (x, y, z) in
    let th := if nltb O zero r then nacos O (z / r) else zero in
    let ph := natan2 O y x in
    (rad2deg * th,
     [wgrad g (if neqb O r zero then vzero
               else (rad2deg * ncos O th * ncos O ph / r, rad2deg * ncos O th * nsin O ph / r,
                     rad2deg * nneg O (nsin O th) / r))]).

  Definition k_polar_phi (gs : list gdata) : T * list (list V3) :=
    let g := gnth gs 0 in
    let '(x, y, z) := gd_com g in
    let r := vnorm (x, y, z) in
    let th := if nltb O zero r then nacos O (z / r) else zero in
    let ph := natan2 O y x in
    (rad2deg * ph,
     [wgrad g (rad2deg * nneg O (nsin O ph) / (r * nsin O th), rad2deg * ncos O ph / (r * nsin O th), zero)]).

  (* quaternion::rotation_matrix applied to a vector, and the conjugate (= inverse rotation for unit quaternions) *)
  Definition qrot (q : @quat T) (v : V3) : V3 :=
    let '(q0, q1, q2, q3) := q in let '(x, y, z) := v in
    ((q0 * q0 + q1 * q1 - q2 * q2 - q3 * q3) * x + tw * (q1 * q2 - q0 * q3) * y + tw * (q0 * q2 + q1 * q3) * z,
     tw * (q0 * q3 + q1 * q2) * x + (q0 * q0 - q1 * q1 + q2 * q2 - q3 * q3) * y + tw * (q2 * q3 - q0 * q1) * z,
     tw * (q1 * q3 - q0 * q2) * x + tw * (q0 * q1 + q2 * q3) * y + (q0 * q0 - q1 * q1 - q2 * q2 + q3 * q3) * z).
  Definition qconj (q : @quat T) : @quat T := let '(q0, q1, q2, q3) := q in (q0, nneg O q1, nneg O q2, nneg O q3).
  (* positions minus their centre of geometry *)
  Definition centred (l : list V3) : list V3 :=
    let c := vdiv (vsum l) (ofnat (length l)) in map (fun p => v3sub O p c) l.
  (* deviations R(q) y_i - r_i *)
  Definition rdev (q : @quat T) (prs : list (V3 * V3)) : list V3 := map (fun yr => v3sub O (qrot q (fst yr)) (snd yr)) prs.

  (* rmsd::calc_value / calc_gradients on the group fitted by calc_apply_roto_translation, and apply_colvar_force's
     rotation back to the laboratory frame (rot.inverse()); the centre term of the fit vanishes and the rotation
     term is not computed ("derivatives of the optimal rotation ... cancel out in the gradients") *)
  Definition k_rmsd (ref : list V3) (qopt : list (V3 * V3) -> @quat T) (gs : list gdata) : T * list (list V3) :=
    let l := gd_pos (gnth gs 0) in
    let n := ofnat (length l) in
    let prs := combine (centred l) (centred ref) in
    let q := qopt prs in
    let dev := rdev q prs in
    let x := nsqrt O (tsum (map (v3norm2 O) dev) / n) in
    let c := (if nltb O zero x then hf / (x * n) else zero) * tw in
    (x, [map (fun d => qrot (qconj q) (v3scale O c d)) dev]).

  Definition keval (cell : option V3) (k : ckind) (gs : list gdata) : T * list (list V3) :=
    match k with
    | KDistance pbc => k_distance pbc cell gs
    | KDistanceZ pbc ax => k_distance_z pbc cell ax gs
    | KDistanceZ2 pbc => k_distance_z2 pbc cell gs
    | KDistanceXY pbc ax => k_distance_xy pbc cell ax gs
    | KDistanceXY2 pbc => k_distance_xy2 pbc cell gs
    | KDistanceInv pbc e => k_distance_inv pbc cell e gs
    | KGyration => k_gyration gs
    | KInertia => k_inertia gs
    | KInertiaZ ax => k_inertia_z ax gs
    | KAngle pbc => k_angle pbc cell gs
    | KCoordNum r0 en2 ed2 g2c => k_coordnum cell r0 en2 ed2 g2c gs
    | KSelfCoordNum r0 en2 ed2 => k_selfcoordnum cell r0 en2 ed2 gs
    | KDihedral pbc => k_dihedral pbc cell gs
    | KDipoleMagnitude => k_dipole_magnitude gs
    | KDipoleAngle pbc => k_dipole_angle pbc cell gs
    | KPolarTheta => k_polar_theta gs
    | KPolarPhi => k_polar_phi gs
    | KRmsd ref qopt => k_rmsd ref qopt gs
    end.

  (* ---- a component inside a variable ---- *)
  Record cvc := mkCvc { c_coeff : T; c_exp : Z; c_kind : ckind; c_groups : list group }.
  Definition cvc_eval (cell : option V3) (c : cvc) (s : sys) : T * list (list V3) :=
    keval cell (c_kind c) (map (gdata_of s) (c_groups c)).
  Definition cvc_value (cell : option V3) (c : cvc) (s : sys) : T := fst (cvc_eval cell c s).

  (* atom_group::apply_colvar_force: F * grad_i on every atom of the group, and (centred groups with fit
     gradients) F * (-1/N_fit) sum_i grad_i on every atom of the group used for the fit *)
  Definition apply_group (g : group) (gr : list V3) (F : T) : list (nat * V3) :=
    match g with
    | GDummy _ => []
    | GAtoms ids c fit fg =>
      combine ids (map (v3scale O F) gr) ++
      match c with
      | Some _ =>
        if fg then
          let fids := fit_ids ids fit in
          let ag := v3scale O (mone / ofnat (length fids)) (vsum gr) in
          map (fun j => (j, v3scale O F ag)) fids
        else []
      | None => []
      end
    end.
  Fixpoint apply_groups (gs : list group) (grs : list (list V3)) (F : T) : list (nat * V3) :=
    match gs, grs with
    | g :: gs', gr :: grs' => apply_group g gr F ++ apply_groups gs' grs' F
    | _, _ => []
    end.
  (* what reaches atom a from a list of (atom, force) contributions *)
  Definition scatter (l : list (nat * V3)) (a : nat) : V3 :=
    vsum (map snd (filter (fun p => Nat.eqb (fst p) a) l)).
  (* d(component)/d(position of atom a) as the force path realises it (unit force) *)
  Definition cvc_total_grad (cell : option V3) (c : cvc) (s : sys) (a : nat) : V3 :=
    scatter (apply_groups (c_groups c) (snd (cvc_eval cell c s)) one) a.

  (* ---- variables: colvar::collect_cvc_values / communicate_forces (scalar, polynomial) ---- *)
  (* cv_periodic/cv_period: the restraint metric (colvar::dist2 = cvcs[0]->dist2 for a homogeneous variable) *)
  Record cvar := mkCvar { cv_width : T; cv_periodic : bool; cv_period : T; cv_cvcs : list cvc }.
  Definition cvc_term (cell : option V3) (s : sys) (c : cvc) : T :=
    let q := cvc_value cell c s in
    c_coeff c * (if Z.eqb (c_exp c) 1 then q else ipow q (c_exp c)).
  Definition var_value (cell : option V3) (s : sys) (v : cvar) : T := tsum (map (cvc_term cell s) (cv_cvcs v)).
  (* force on component c when the variable receives f *)
  Definition cvc_force (cell : option V3) (s : sys) (f : T) (c : cvc) : T :=
    f * c_coeff c * nofZ O (c_exp c) * ipow (cvc_value cell c s) (Z.sub (c_exp c) 1).
  Definition var_contribs (cell : option V3) (s : sys) (f : T) (v : cvar) : list (nat * V3) :=
    concat (map (fun c => apply_groups (c_groups c) (snd (cvc_eval cell c s)) (cvc_force cell s f c)) (cv_cvcs v)).

  (* ---- biases (restraint potentials of C06.RestraintModel on non-periodic scalar variables) ---- *)
  Inductive bias :=
  | BHarmonic (k : T) (cs : list (nat * T))                                  (* variable index, centre *)
  | BWalls (k lk uk : T) (hl hu : bool) (ws : list (nat * (T * T)))          (* variable index, lower, upper *)
  | BLinear (k : T) (cs : list (nat * T))
  (* metadynamics without grids at a fixed set of hills (colvarbias_meta::calc_hills / calc_hills_force):
     each hill = weight and, per variable of the bias, (variable index, (centre, sigma)) *)
  | BMeta (hs : list (T * list (nat * (T * T))))
  (* ABMD at a fixed reference (colvarbias_abmd::update): force constant, decreasing flag, variable, reference *)
  | BAbmd (k : T) (dec : bool) (v : nat) (ref : T)
  (* histogramRestraint (colvarbias_restraint_histogram::update) on scalar variables / the elements of a vector variable:
     force constant, the normalisation 1/(sqrt(2 pi) sigma n) (computed by the caller), gaussian width, the grid as
     (bin centre, reference histogram value) pairs, and the element variables *)
  | BHist (k norm sigma : T) (grid : list (T * T)) (vs : list nat).

  Definition rvar (v : cvar) : var := mkVar (cv_width v) (cv_periodic v) (cv_period v) zero.
  Definition cvar0 : cvar := mkCvar one false zero [].
  Definition vat (l : list cvar) (i : nat) : cvar := nth i l cvar0.
  Definition xat (l : list T) (i : nat) : T := nth i l zero.
  (* cv_sqdev of a hill: sum_i dist2(x_i, c_i) / sigma_i^2 *)
  Definition hill_sqdev (ws : list cvar) (xs : list T) (terms : list (nat * (T * T))) : T :=
    tsum (map (fun t => dist2 O (rvar (vat ws (fst t))) (xat xs (fst t)) (fst (snd t)) / (snd (snd t) * snd (snd t))) terms).
  (* the hill value: exp(-s/2), set to zero beyond s = 23 *)
  Definition hill_value (ws : list cvar) (xs : list T) (terms : list (nat * (T * T))) : T :=
    let s := hill_sqdev ws xs terms in
    if nltb O (ofnat 23) s then zero else nexp O (nneg O hf * s).
  Definition abmd_diff (dec : bool) (x ref : T) : T := (x - ref) * (if dec then mone else one).

  (* one Gaussian of the histogram: norm * exp(-(xg - x)^2 / (2 sigma^2)) *)
  Definition hist_gauss (norm sigma xg x : T) : T :=
    norm * nexp O (mone * (xg - x) * (xg - x) / (tw * sigma * sigma)).
  Definition hist_p (norm sigma : T) (xs : list T) (vs : list nat) (xg : T) : T :=
    tsum (map (fun v => hist_gauss norm sigma xg (xat xs v)) vs).

  Definition bias_energy (b : bias) (ws : list cvar) (xs : list T) : T :=
    match b with
    | BHist k norm sigma grid vs =>
      hf * (k * ofnat (length vs)) *
      tsum (map (fun gr => (hist_p norm sigma xs vs (fst gr) - snd gr) * (hist_p norm sigma xs vs (fst gr) - snd gr)) grid)
    | BMeta hs => tsum (map (fun h => fst h * hill_value ws xs (snd h)) hs)
    | BAbmd k dec v ref =>
      let diff := abmd_diff dec (xat xs v) ref in
      if nltb O zero diff then zero else hf * k * diff * diff
    | BHarmonic k cs => tsum (map (fun ic => harm_potential O k (rvar (vat ws (fst ic))) (xat xs (fst ic)) (snd ic)) cs)
    | BWalls k lk uk hl hu l =>
      tsum (map (fun iw => walls_potential O k lk uk hl hu (rvar (vat ws (fst iw))) (xat xs (fst iw)) (fst (snd iw)) (snd (snd iw))) l)
    | BLinear k cs => tsum (map (fun ic => lin_potential O k (rvar (vat ws (fst ic))) (xat xs (fst ic)) (snd ic)) cs)
    end.
  (* colvar_forces[i] of the bias, summed on variable v (colvarbias::communicate_forces, time_step_factor 1) *)
  Definition bias_force (b : bias) (ws : list cvar) (xs : list T) (v : nat) : T :=
    match b with
    | BHist k norm sigma grid vs =>
      tsum (map (fun i => if Nat.eqb i v then
                  tsum (map (fun gr => (k * ofnat (length vs)) * (hist_p norm sigma xs vs (fst gr) - snd gr)
                                       * hist_gauss norm sigma (fst gr) (xat xs v)
                                       * (mone * (fst gr - xat xs v) / (sigma * sigma))) grid)
                else zero) vs)
    | BMeta hs =>
      tsum (map (fun h =>
                   let val := hill_value ws xs (snd h) in
                   if neqb O val zero then zero
                   else tsum (map (fun t => if Nat.eqb (fst t) v
                                            then fst h * val * (hf / (snd (snd t) * snd (snd t)))
                                                 * dist2_lgrad O (rvar (vat ws v)) (xat xs v) (fst (snd t))
                                            else zero) (snd h))) hs)
    | BAbmd k dec i ref =>
      if Nat.eqb i v then
        let diff := abmd_diff dec (xat xs v) ref in
        if nltb O zero diff then zero else nneg O (if dec then mone else one) * k * diff
      else zero
    | BHarmonic k cs =>
      tsum (map (fun ic => if Nat.eqb (fst ic) v then harm_force O k (rvar (vat ws v)) (xat xs v) (snd ic) else zero) cs)
    | BWalls k lk uk hl hu l =>
      tsum (map (fun iw => if Nat.eqb (fst iw) v
                           then walls_force O k lk uk hl hu (rvar (vat ws v)) (xat xs v) (fst (snd iw)) (snd (snd iw)) else zero) l)
    | BLinear k cs => tsum (map (fun ic => if Nat.eqb (fst ic) v then lin_force O k (rvar (vat ws v)) else zero) cs)
    end.

  (* ---- the whole configuration ---- *)
  Record config := mkConfig { cf_cell : option V3; cf_vars : list cvar; cf_biases : list bias }.
  Definition var_values (cf : config) (s : sys) : list T := map (var_value (cf_cell cf) s) (cf_vars cf).
  (* total_bias_energy, the argument of proxy->add_energy() *)
  Definition energy (cf : config) (s : sys) : T :=
    tsum (map (fun b => bias_energy b (cf_vars cf) (var_values cf s)) (cf_biases cf)).
  (* colvar::fb: sum of the biases' forces on variable v *)
  Definition var_force (cf : config) (s : sys) (v : nat) : T :=
    tsum (map (fun b => bias_force b (cf_vars cf) (var_values cf s) v) (cf_biases cf)).
  Fixpoint contribs_from (cf : config) (s : sys) (i : nat) (vs : list cvar) : list (nat * V3) :=
    match vs with
    | [] => []
    | v :: r => var_contribs (cf_cell cf) s (var_force cf s i) v ++ contribs_from cf s (S i) r
    end.
  Definition all_contribs (cf : config) (s : sys) : list (nat * V3) := contribs_from cf s 0 (cf_vars cf).
  (* atoms_new_colvar_forces *)
  Definition force_on (cf : config) (s : sys) (a : nat) : V3 := scatter (all_contribs cf s) a.
  Definition forces (cf : config) (s : sys) : list V3 :=
    let l := all_contribs cf s in map (scatter l) (seq 0 (length s)).
End Force.
