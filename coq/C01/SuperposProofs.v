(* C01 for every history of run-time modifications of the superposition (SuperposModel.v, R instance). *)
From Coq Require Import ZArith List Bool Reals Lra Lia.
From Coquelicot Require Import Coquelicot.
From CV Require Import Base.Num Base.RNum C18.ValueModel C06.RestraintModel C01.ForceModel C01.ForceProofs C01.PolarProofs C01.HistProofs C01.SuperposModel.
Import ListNotations.
Local Open Scope R_scope.

Notation VST := (@vstate R).
Notation SCVC := (@scvc R).
Notation EVT := (@event R).

(* ---- the flags computed by colvar::init survive every event unchanged (they go stale) ---- *)
(* width, linear and homogeneous: modifycvcs refreshes the periodicity only *)
Definition vflags (st : VST) : R * bool * bool := (vs_width st, vs_linear st, vs_homog st).

Lemma update_nth_map {A B : Type} (g : A -> B) (f : A -> A) n (l : list A) :
  (forall x, g (f x) = g x) -> map g (update_nth n f l) = map g l.
Proof.
  intros H. revert n. induction l as [|x r IH]; intros n; [reflexivity|].
  destruct n as [|m]; cbn [update_nth map]; [rewrite H; reflexivity|rewrite IH; reflexivity].
Qed.

Lemma apply_event_flags (e : EVT) sts : map vflags (apply_event Rops e sts) = map vflags sts.
Proof.
  destruct e as [v i coeff ex|v flags]; cbn [apply_event]; apply update_nth_map; intros st.
  - reflexivity.
  - destruct (Nat.eqb (length flags) (length (vs_comps st)) && existsb (fun b => b) flags); reflexivity.
Qed.

Theorem history_keeps_flags (h : list EVT) sts : map vflags (run_history Rops h sts) = map vflags sts.
Proof.
  unfold run_history. revert sts. induction h as [|e r IH]; intros sts; [reflexivity|].
  cbn [fold_left]. rewrite IH. apply apply_event_flags.
Qed.

(* ---- the property, for every initial superposition and every history ---- *)
Theorem history_forces_are_minus_gradient cell (descr : list (R * list SCVC)) bs (h : list EVT) (s : SYS) :
  let cf := effective cell (state_after Rops descr h) bs in
  (forall v c, In v (cf_vars cf) -> In c (cv_cvcs v) -> cvc_guard_w (cf_cell cf) c s) ->
  (forall b, In b (cf_biases cf) -> bias_guard_w b (cf_vars cf) (var_values Rops PI cf s)) ->
  forall a k, (a < length s)%nat ->
    is_derive (fun t => h_energy Rops PI cell descr bs h (set_coord s a k t)) (coord Rops s a k)
              (- vget k (nth a (h_forces Rops PI cell descr bs h s) (vzero Rops))).
Proof. intros cf Hc Hb a k Ha. unfold h_energy, h_forces. apply forces_are_minus_gradient_ww; assumption. Qed.

(* ---- a history that makes the flags stale, and for which every premise holds ----
   one variable, one distance component read with componentCoeff 1, componentExp 1 (linear, homogeneous); then
   modifycvcs "componentCoeff 2 componentExp 2": the state is that of ex_cf, with f_cv_linear still on *)
Definition ex_descr : list (R * list SCVC) := [(1, [mkScvc (mkCvc 1 1%Z (KDistance true) [ex_g1; ex_g2]) 0 true])].
Definition ex_hist : list EVT := [EvModify 0 0 (Some 2) (Some 2%Z)].

Lemma ex_init_flags : map vflags (map (init_var Rops) ex_descr) = [(1, true, true)].
Proof.
  assert (Hl : init_linear (T := R) [mkScvc (mkCvc 1 1%Z (KDistance true) [ex_g1; ex_g2]) 0 true] = true) by reflexivity.
  assert (Hu : unit_coeff Rops 1 = true).
  { unfold unit_coeff, nabs. cbn [nltb neqb n0 n1 nneg Rops].
    replace (Rltb 1 0) with false by (symmetry; apply Rltb_false; lra). apply Reqb_true. reflexivity. }
  assert (Hh : init_homog Rops [mkScvc (mkCvc 1 1%Z (KDistance true) [ex_g1; ex_g2]) 0 true] = true).
  { unfold init_homog. rewrite Hl. cbn [forallb sc_cvc c_coeff andb]. rewrite Hu. reflexivity. }
  cbn [map ex_descr]. unfold vflags, init_var. cbn [fst snd vs_width vs_linear vs_homog]. rewrite Hl, Hh. reflexivity.
Qed.

(* the live components after the history are not even linear: the refreshed periodicity is "not periodic" *)
Lemma ex_refreshed : init_periodic Rops [mkScvc (mkCvc 2 2%Z (KDistance true) [ex_g1; ex_g2]) 0 true] = false /\
                     init_period Rops [mkScvc (mkCvc 2 2%Z (KDistance true) [ex_g1; ex_g2]) 0 true] = 0.
Proof.
  assert (Hp : init_periodic Rops [mkScvc (mkCvc 2 2%Z (KDistance true) [ex_g1; ex_g2]) 0 true] = false) by reflexivity.
  split; [exact Hp|]. unfold init_period. rewrite Hp. reflexivity.
Qed.

Lemma ex_state : effective None (state_after Rops ex_descr ex_hist) (cf_biases ex_cf) = ex_cf.
Proof. reflexivity. Qed.

(* after the history the variable still carries f_cv_linear although its exponent is 2 *)
Lemma ex_stale : map (@vs_linear R) (state_after Rops ex_descr ex_hist) = [true] /\
                 map (fun st => map (fun c => c_exp (sc_cvc c)) (vs_comps st)) (state_after Rops ex_descr ex_hist) = [[2%Z]].
Proof.
  split.
  - pose proof (history_keeps_flags ex_hist (map (init_var Rops) ex_descr)) as H. rewrite ex_init_flags in H.
    unfold state_after. destruct (run_history Rops ex_hist (map (init_var Rops) ex_descr)) as [|st [|st2 r]]; try discriminate H.
    assert (Hv : vflags st = (1, true, true)) by (cbn [map] in H; congruence).
    pose proof (f_equal (fun p : R * bool * bool => snd (fst p)) Hv) as Hl.
    cbn [vflags fst snd] in Hl. cbn [map]. rewrite Hl. reflexivity.
  - reflexivity.
Qed.

Lemma ex_hist_guards :
  let cf := effective None (state_after Rops ex_descr ex_hist) (cf_biases ex_cf) in
  (forall v c, In v (cf_vars cf) -> In c (cv_cvcs v) -> cvc_guard_w (cf_cell cf) c ex_sys) /\
  (forall b, In b (cf_biases cf) -> bias_guard_w b (cf_vars cf) (var_values Rops PI cf ex_sys)).
Proof. cbv zeta. rewrite ex_state. exact ex_guards_ww. Qed.

(* ---- a force path that trusted the stale flag would be wrong ----
   the linear branch f * coeff for a variable flagged linear, against the branch that reads the exponent: with
   exponent 2 they differ whenever the force is non-zero and the component value is not 1/2 *)
Definition cvc_force_by_flag (linear : bool) cell (s : SYS) (f : R) (c : cvc) : R :=
  if linear then f * c_coeff c else cvc_force Rops PI cell s f c.
Lemma flag_branch_differs cell (s : SYS) f (c : cvc) :
  c_exp c = 2%Z -> f * c_coeff c <> 0 -> cvc_value Rops PI cell c s <> / 2 ->
  cvc_force_by_flag true cell s f c <> cvc_force Rops PI cell s f c.
Proof.
  intros He Hf Hq H. unfold cvc_force_by_flag, cvc_force in H. rewrite He in H.
  change (2 - 1)%Z with (Z.of_nat 1) in H. rewrite ipow_nat in H. cbn [nmul nofZ Rops] in H.
  apply Hq. apply (Rmult_eq_reg_l (2 * (f * c_coeff c))); [|lra]. rewrite pow_1 in H.
  transitivity (f * c_coeff c * 2 * cvc_value Rops PI cell c s); [ring|]. rewrite <- H. field.
Qed.
