(* C01 (statements only) -- work in progress *)
From Coq Require Import ZArith List Bool Reals Lra.
From CV Require Import Base.Num Base.RNum C18.ValueModel C01.ForceModel.
Theorem C01_wip : forall x : R, vget AX (x, 0%R, 0%R) = x.
Proof. reflexivity. Qed.
Print Assumptions C01_wip.
