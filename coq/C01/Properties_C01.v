(* C01: the atomic forces handed to the engine are minus the gradient of the energy reported to the engine.
   Statements only (proofs in ForceProofs.v, model in ForceModel.v); all over the real-number instance of the
   model.  energy = total_bias_energy passed to add_energy(); forces = atoms_new_colvar_forces.
   set_coord s a k t = the system s with coordinate k of atom a set to t. *)
From Coq Require Import ZArith List Bool Reals Lra Lia.
From Coquelicot Require Import Coquelicot.
From CV Require Import Base.Num Base.RNum C18.ValueModel C06.RestraintModel C01.ForceModel C01.ForceProofs.
From CV Require Import C01.PolarProofs C01.HistProofs C01.SuperposModel C01.SuperposProofs.
Import ListNotations.
Local Open Scope R_scope.

(* ---- the chain rule through variables (sum_i c_i q_i^n_i), biases and atom groups ----------------------------
   If every component used is gradient-correct at s (its model gradient, scattered to the atoms through
   apply_colvar_force, is the derivative of its model value in every atomic coordinate) and every bias is
   force-correct at the current values (along every differentiable path of the variables dU/dt = - sum_v F_v
   dxi_v/dt), then for EVERY atom index a and axis k the reported energy is differentiable in that coordinate
   and the derivative is minus the force component applied to that atom.  (atoms outside all groups: force 0,
   derivative 0; atoms in several groups / components / variables / biases: the contributions add.) *)
Theorem C01_chain_rule : forall (cf : config) (s : SYS),
  (forall v c, In v (cf_vars cf) -> In c (cv_cvcs v) -> cvc_ok (cf_cell cf) c s) ->
  (forall b, In b (cf_biases cf) -> bias_force_correct b (cf_vars cf) (var_values Rops PI cf s)) ->
  forall a k, is_derive (fun t => energy Rops PI cf (set_coord s a k t)) (coord Rops s a k)
                        (- vget k (force_on Rops PI cf s a)).
Proof. exact chain_rule. Qed.
Print Assumptions C01_chain_rule.

(* ---- C01_mass_weighting and C01_center_fit_term in one statement ---------------------------------------------
   A kernel whose per-atom gradients are the derivative of its value along every direction of displacement of
   the atoms of its groups (in the groups' fitted frames) is gradient-correct in every atomic coordinate of the
   system: (m_a/M) weighting of centres of mass, dummy atoms, atoms shared between groups, and the
   -(1/N_fit) sum_i grad_i term sent to the atoms of the group used for centring (own or fittingGroup). *)
Theorem C01_group_layer : forall cell (c : cvc) (s : SYS),
  List.Forall (wf_group s) (c_groups c) ->
  dir_correct (keval Rops PI cell (c_kind c)) (map (gdata_of Rops s) (c_groups c)) ->
  fit_ok (c_groups c) (snd (cvc_eval Rops PI cell c s)) ->
  cvc_grad_correct cell c s.
Proof. exact group_layer. Qed.
Print Assumptions C01_group_layer.

(* ---- gradient correctness of components, under their documented non-singularity guards ----------------------- *)
Theorem C01_grad_correct_distance : forall cell pbc co e g1 g2 (s : SYS),
  grp_ok s g1 -> grp_ok s g2 ->
  image_ok pbc cell (com_of s g1) (com_of s g2) ->                (* no cell / forceNoPBC, or no component on a cut of the cell *)
  v3norm2 Rops (pdist Rops pbc cell (com_of s g1) (com_of s g2)) <> 0 ->       (* centres (images) do not coincide *)
  cvc_grad_correct cell (mkCvc co e (KDistance pbc) [g1; g2]) s.
Proof. exact cvc_grad_correct_distance. Qed.
Print Assumptions C01_grad_correct_distance.

Theorem C01_grad_correct_distanceZ : forall cell pbc co e ax gm gr (s : SYS),
  grp_ok s gm -> grp_ok s gr -> image_ok pbc cell (com_of s gr) (com_of s gm) ->
  cvc_grad_correct cell (mkCvc co e (KDistanceZ pbc ax) [gm; gr]) s.
Proof. exact cvc_grad_correct_distanceZ. Qed.
Print Assumptions C01_grad_correct_distanceZ.

Theorem C01_grad_correct_distanceXY : forall cell pbc co e ax gm gr (s : SYS),
  grp_ok s gm -> grp_ok s gr -> image_ok pbc cell (com_of s gr) (com_of s gm) -> v3norm2 Rops ax = 1 ->
  v3norm2 Rops (vperp (pdist Rops pbc cell (com_of s gr) (com_of s gm)) ax) <> 0 ->     (* main is not on the axis through ref *)
  cvc_grad_correct cell (mkCvc co e (KDistanceXY pbc ax) [gm; gr]) s.
Proof. exact cvc_grad_correct_distanceXY. Qed.
Print Assumptions C01_grad_correct_distanceXY.

Theorem C01_grad_correct_distanceZ2 : forall cell pbc co e gm g1 g2 (s : SYS),
  grp_ok s gm -> grp_ok s g1 -> grp_ok s g2 -> plain pbc cell ->
  com_of s g2 <> com_of s g1 ->                                   (* the two points defining the axis do not coincide *)
  cvc_grad_correct cell (mkCvc co e (KDistanceZ2 pbc) [gm; g1; g2]) s.
Proof. exact cvc_grad_correct_distanceZ2. Qed.
Print Assumptions C01_grad_correct_distanceZ2.

Theorem C01_grad_correct_distanceXY2 : forall cell pbc co e gm g1 g2 (s : SYS),
  grp_ok s gm -> grp_ok s g1 -> grp_ok s g2 -> plain pbc cell ->
  com_of s g2 <> com_of s g1 ->
  v3norm2 Rops (vperp (v3sub Rops (com_of s gm) (com_of s g1)) (vunit Rops (v3sub Rops (com_of s g2) (com_of s g1)))) <> 0 ->
  cvc_grad_correct cell (mkCvc co e (KDistanceXY2 pbc) [gm; g1; g2]) s.
Proof. exact cvc_grad_correct_distanceXY2. Qed.
Print Assumptions C01_grad_correct_distanceXY2.

Theorem C01_grad_correct_angle : forall cell pbc co e g1 g2 g3 (s : SYS),
  grp_ok s g1 -> grp_ok s g2 -> grp_ok s g3 -> plain pbc cell ->
  com_of s g1 <> com_of s g2 -> com_of s g3 <> com_of s g2 ->
  -1 < cosang (v3sub Rops (com_of s g1) (com_of s g2)) (v3sub Rops (com_of s g3) (com_of s g2)) < 1 ->   (* arms not collinear *)
  cvc_grad_correct cell (mkCvc co e (KAngle pbc) [g1; g2; g3]) s.
Proof. exact cvc_grad_correct_angle. Qed.
Print Assumptions C01_grad_correct_angle.

Theorem C01_grad_correct_inertiaZ : forall cell co e ax ids (s : SYS),
  ids_ok s ids -> ids <> [] ->
  cvc_grad_correct cell (mkCvc co e (KInertiaZ ax) [self_centred ids]) s.
Proof. exact cvc_grad_correct_inertiaZ. Qed.
Print Assumptions C01_grad_correct_inertiaZ.

Theorem C01_grad_correct_coordNum : forall co e r0 n m g1 g2 (s : SYS),
  grp_ok0 s g1 -> grp_ok0 s g2 -> r0 <> 0 -> (1 <= n)%nat -> (1 <= m)%nat ->
  pairs_ok r0 (gd_pos (gdata_of Rops s g1)) (gd_pos (gdata_of Rops s g2)) ->   (* no pair coincident or exactly at the cut-off *)
  cvc_grad_correct None (mkCvc co e (KCoordNum r0 n m false) [g1; g2]) s.
Proof. exact cvc_grad_correct_coordNum. Qed.
Print Assumptions C01_grad_correct_coordNum.

Theorem C01_grad_correct_selfCoordNum : forall co e r0 n m g1 (s : SYS),
  grp_ok0 s g1 -> r0 <> 0 -> (1 <= n)%nat -> (1 <= m)%nat ->
  self_ok (fun p q => l2of r0 (v3sub Rops q p) <> 0 /\ l2of r0 (v3sub Rops q p) <> 1) (gd_pos (gdata_of Rops s g1)) ->
  cvc_grad_correct None (mkCvc co e (KSelfCoordNum r0 n m) [g1]) s.
Proof. exact cvc_grad_correct_selfCoordNum. Qed.
Print Assumptions C01_grad_correct_selfCoordNum.

Theorem C01_grad_correct_coordNum_group2CenterOnly : forall co e r0 n m g1 g2 (s : SYS),
  grp_ok0 s g1 -> grp_ok s g2 -> r0 <> 0 -> (1 <= n)%nat -> (1 <= m)%nat ->
  pairs_ok r0 (gd_pos (gdata_of Rops s g1)) [com_of s g2] ->
  cvc_grad_correct None (mkCvc co e (KCoordNum r0 n m true) [g1; g2]) s.
Proof. exact cvc_grad_correct_coordNum_g2c. Qed.
Print Assumptions C01_grad_correct_coordNum_group2CenterOnly.

Theorem C01_grad_correct_dipoleMagnitude : forall cell co e ids c fit (s : SYS),
  grp_ok s (GAtoms ids c fit true) ->
  v3norm2 Rops (dipole Rops (gdata_of Rops s (GAtoms ids c fit true)) (com_of s (GAtoms ids c fit true))) <> 0 ->   (* non-zero dipole *)
  cvc_grad_correct cell (mkCvc co e KDipoleMagnitude [GAtoms ids c fit true]) s.
Proof. exact cvc_grad_correct_dipoleMagnitude. Qed.
Print Assumptions C01_grad_correct_dipoleMagnitude.

Theorem C01_grad_correct_dipoleAngle : forall cell pbc co e ids c fit g2 g3 (s : SYS),
  grp_ok s (GAtoms ids c fit true) -> grp_ok s g2 -> grp_ok s g3 -> plain pbc cell ->
  let g1 := GAtoms ids c fit true in
  let r21 := dipole Rops (gdata_of Rops s g1) (com_of s g1) in
  let r23 := v3sub Rops (com_of s g3) (com_of s g2) in
  v3norm2 Rops r21 <> 0 -> v3norm2 Rops r23 <> 0 -> -1 < cosang r21 r23 < 1 ->
  cvc_grad_correct cell (mkCvc co e (KDipoleAngle pbc) [GAtoms ids c fit true; g2; g3]) s.
Proof. exact cvc_grad_correct_dipoleAngle. Qed.
Print Assumptions C01_grad_correct_dipoleAngle.

Theorem C01_grad_correct_distanceInv : forall cell pbc co e ex g1 g2 (s : SYS),
  grp_ok0 s g1 -> grp_ok0 s g2 -> plain pbc cell -> (1 <= ex)%nat ->
  inv_ok (gd_pos (gdata_of Rops s g1)) (gd_pos (gdata_of Rops s g2)) ->       (* non-empty groups, no two atoms coincide *)
  cvc_grad_correct cell (mkCvc co e (KDistanceInv pbc ex) [g1; g2]) s.
Proof. exact cvc_grad_correct_distanceInv. Qed.
Print Assumptions C01_grad_correct_distanceInv.

(* distancePairs, element (i, j): with or without the minimum image of an orthorhombic cell (off the cuts) *)
Theorem C01_grad_correct_distancePairs_element : forall cell pbc co e i j (s : SYS),
  (i < length s)%nat -> (j < length s)%nat -> a_mass (atom_at Rops s i) <> 0 -> a_mass (atom_at Rops s j) <> 0 ->
  let gi := GAtoms [i] None None true in let gj := GAtoms [j] None None true in
  image_ok pbc cell (com_of s gi) (com_of s gj) ->
  v3norm2 Rops (pdist Rops pbc cell (com_of s gi) (com_of s gj)) <> 0 ->
  cvc_grad_correct cell (mkCvc co e (KDistance pbc) [gi; gj]) s.
Proof. exact cvc_grad_correct_distancePairs_elem. Qed.
Print Assumptions C01_grad_correct_distancePairs_element.

(* rmsd with its optimal rotation (rotated frame): hypotheses = what the eigen-solver must deliver (an optimal unit quaternion;
   C02_eigen_decomposition_is_optimal shows the top eigenvector of the overlap matrix is one) and differentiability of the
   minimum rmsd at the configuration; conclusion = the applied forces (rotated back, without any derivative of the rotation)
   are the exact gradient *)
Theorem C01_grad_correct_rmsd : forall cell co e ref qopt ids (s : SYS),
  ids_ok s ids -> ids <> [] -> length ref = length ids -> qopt_ok ref qopt ->
  cvc_value Rops PI cell (mkCvc co e (KRmsd ref qopt) [plain_group ids]) s <> 0 ->
  (forall Ds, ex_derive (fun t => fst (k_rmsd Rops ref qopt (move_gs [gdata_of Rops s (plain_group ids)] t Ds))) 0) ->
  cvc_grad_correct cell (mkCvc co e (KRmsd ref qopt) [plain_group ids]) s.
Proof. exact cvc_grad_correct_rmsd. Qed.
Print Assumptions C01_grad_correct_rmsd.

Theorem C01_grad_correct_inertia : forall cell co e ids (s : SYS),
  ids_ok s ids -> ids <> [] ->
  cvc_grad_correct cell (mkCvc co e KInertia [self_centred ids]) s.
Proof. exact cvc_grad_correct_inertia. Qed.
Print Assumptions C01_grad_correct_inertia.

Theorem C01_grad_correct_gyration : forall cell co e ids (s : SYS),
  ids_ok s ids -> ids <> [] ->
  cvc_value Rops PI cell (mkCvc co e KGyration [self_centred ids]) s <> 0 ->   (* not all atoms at the centre *)
  cvc_grad_correct cell (mkCvc co e KGyration [self_centred ids]) s.
Proof. exact cvc_grad_correct_gyration. Qed.
Print Assumptions C01_grad_correct_gyration.

(* ---- restraint biases on non-periodic scalar variables -------------------------------------------------------- *)
Theorem C01_bias_force_correct_harmonic : forall k cs ws x0, terms_ok fst cs ws -> bias_force_correct (BHarmonic k cs) ws x0.
Proof. exact bias_force_correct_harmonic. Qed.
Print Assumptions C01_bias_force_correct_harmonic.
(* ... and on a periodic variable (restraint metric = shortest image of value - centre) away from the half-period cut *)
Theorem C01_bias_force_correct_harmonic_periodic : forall k cs ws x0, terms_ok_h cs ws x0 -> bias_force_correct (BHarmonic k cs) ws x0.
Proof. exact bias_force_correct_harmonic_gen. Qed.
Print Assumptions C01_bias_force_correct_harmonic_periodic.
Theorem C01_bias_force_correct_linear : forall k cs ws x0, terms_ok fst cs ws -> bias_force_correct (BLinear k cs) ws x0.
Proof. exact bias_force_correct_linear. Qed.
Print Assumptions C01_bias_force_correct_linear.
(* walls: away from the wall positions themselves *)
Theorem C01_bias_force_correct_walls : forall k lk uk hl hu l ws x0, terms_ok fst l ws -> walls_guard hl hu l x0 ->
  bias_force_correct (BWalls k lk uk hl hu l) ws x0.
Proof. exact bias_force_correct_walls. Qed.
Print Assumptions C01_bias_force_correct_walls.

(* metadynamics without grids at a fixed set of hills (sum of Gaussians truncated beyond exponent 23): no hill exactly at
   its truncation radius *)
Theorem C01_bias_force_correct_meta : forall hs ws x0, (forall h, In h hs -> hill_ok ws x0 h) -> bias_force_correct (BMeta hs) ws x0.
Proof. exact bias_force_correct_meta. Qed.
Print Assumptions C01_bias_force_correct_meta.
(* ABMD at a fixed reference: the variable is not exactly at the reference *)
Theorem C01_bias_force_correct_abmd : forall k dec v ref ws x0, (v < length ws)%nat -> abmd_diff Rops dec (xat Rops x0 v) ref <> 0 ->
  bias_force_correct (BAbmd k dec v ref) ws x0.
Proof. exact bias_force_correct_abmd. Qed.
Print Assumptions C01_bias_force_correct_abmd.

(* polarTheta (acos(z/r) of a centre of mass, degrees): off the z axis *)
Theorem C01_grad_correct_polarTheta : forall cell co e g (s : SYS), grp_ok s g ->
  (let c := com_of s g in vget AX c * vget AX c + vget AY c * vget AY c <> 0) ->
  cvc_grad_correct cell (mkCvc co e KPolarTheta [g]) s.
Proof. exact cvc_grad_correct_polarTheta. Qed.
Print Assumptions C01_grad_correct_polarTheta.
(* polarPhi (atan2(y, x), degrees): off the branch cut of atan2 (the half plane x <= 0, y = 0, which contains the z axis) *)
Theorem C01_grad_correct_polarPhi : forall cell co e g (s : SYS), grp_ok s g ->
  offcut (vget AX (com_of s g)) (vget AY (com_of s g)) ->
  cvc_grad_correct cell (mkCvc co e KPolarPhi [g]) s.
Proof. exact cvc_grad_correct_polarPhi. Qed.
Print Assumptions C01_grad_correct_polarPhi.
(* the guards of the closed statement: those of the earlier components, plus the two above (cvc_guard_w) *)
Theorem C01_guard_widen : forall cell c (s : SYS), cvc_guard cell c s -> cvc_guard_w cell c s.
Proof. exact cvc_guard_widen. Qed.
Print Assumptions C01_guard_widen.

(* histogramRestraint: E = 1/2 k n sum_g (p_g - ref_g)^2, p_g = sum of the Gaussians of the variables at grid point g *)
Theorem C01_bias_force_correct_histogramRestraint : forall k norm sigma grid vs ws x0,
  sigma <> 0 -> (forall v, In v vs -> (v < length ws)%nat) -> bias_force_correct (BHist k norm sigma grid vs) ws x0.
Proof. exact bias_force_correct_hist. Qed.
Print Assumptions C01_bias_force_correct_histogramRestraint.
Theorem C01_bias_guard_widen : forall b ws x0, bias_guard b ws x0 -> bias_guard_w b ws x0.
Proof. exact bias_guard_widen. Qed.
Print Assumptions C01_bias_guard_widen.

(* ---- closed statement: guards only --------------------------------------------------------------------------- *)
Theorem C01_forces_are_minus_gradient : forall (cf : config) (s : SYS),
  (forall v c, In v (cf_vars cf) -> In c (cv_cvcs v) -> cvc_guard_w (cf_cell cf) c s) ->
  (forall b, In b (cf_biases cf) -> bias_guard_w b (cf_vars cf) (var_values Rops PI cf s)) ->
  forall a k, (a < length s)%nat ->
    is_derive (fun t => energy Rops PI cf (set_coord s a k t)) (coord Rops s a k)
              (- vget k (nth a (forces Rops PI cf s) (vzero Rops))).
Proof. exact forces_are_minus_gradient_ww. Qed.
Print Assumptions C01_forces_are_minus_gradient.

(* ---- run-time modifications of the superposition (SuperposModel.v) ----------------------------------------------
   A state = live componentCoeff / componentExp / active flag of every component + the flags colvar::init computed
   once (linear, homogeneous, periodic, period).  Events: modifycvcs (coefficient and/or exponent of one component),
   cvcflags.  modifycvcs recomputes the periodicity from the live components (update_periodicity, repair 21b0745b); no event
   refreshes width, linear and homogeneous (vflags): after any history they are those of the initial parameters. *)
Theorem C01_history_keeps_flags : forall (h : list (@event R)) (sts : list (@vstate R)),
  map vflags (run_history Rops h sts) = map vflags sts.
Proof. exact history_keeps_flags. Qed.
Print Assumptions C01_history_keeps_flags.
(* For every initial superposition, every list of biases and EVERY history of modifications: the forces applied in the
   state reached are minus the gradient of the energy reported in that state (same guards as the closed statement,
   taken at the live parameters) -- whether or not the stored flags still describe the live parameters. *)
Theorem C01_history_forces_are_minus_gradient :
  forall cell (descr : list (R * list (@scvc R))) bs (h : list (@event R)) (s : SYS),
  let cf := effective cell (state_after Rops descr h) bs in
  (forall v c, In v (cf_vars cf) -> In c (cv_cvcs v) -> cvc_guard_w (cf_cell cf) c s) ->
  (forall b, In b (cf_biases cf) -> bias_guard_w b (cf_vars cf) (var_values Rops PI cf s)) ->
  forall a k, (a < length s)%nat ->
    is_derive (fun t => h_energy Rops PI cell descr bs h (set_coord s a k t)) (coord Rops s a k)
              (- vget k (nth a (h_forces Rops PI cell descr bs h s) (vzero Rops))).
Proof. exact history_forces_are_minus_gradient. Qed.
Print Assumptions C01_history_forces_are_minus_gradient.
(* why communicate_forces must read the exponent and not the stored flag: for exponent 2 the linear branch f * coeff
   differs from the force of the model whenever the force is non-zero and the component value is not 1/2 *)
Theorem C01_flag_branch_differs : forall cell (s : SYS) f (c : cvc),
  c_exp c = 2%Z -> f * c_coeff c <> 0 -> cvc_value Rops PI cell c s <> / 2 ->
  cvc_force_by_flag true cell s f c <> cvc_force Rops PI cell s f c.
Proof. exact flag_branch_differs. Qed.
Print Assumptions C01_flag_branch_differs.

(* ---- non-vacuity ------------------------------------------------------------------------------------------------ *)
Example C01_example_grp : grp_ok ex_sys ex_g1 /\ grp_ok ex_sys ex_g2.
Proof. exact ex_grp. Qed.
Example C01_example_terms : terms_ok fst [(0%nat, 1)] [mkCvar 1 false 0 [ex_cvc]].
Proof.
  intros a [<-|[]]. cbn [fst length]. split; [lia|]. unfold var_ok, vat. cbn. split; [lra|reflexivity].
Qed.
Example C01_example_exp : exp_ok_at 2 5 /\ exp_ok_at (-1) 5.
Proof. unfold exp_ok_at. split; [left; lia|right; lra]. Qed.
(* the premises of C01_forces_are_minus_gradient (hence of C01_chain_rule) hold for a concrete configuration:
   a squared distance between an atom and a centred mass-weighted pair with a separate fitting group, under a
   harmonic restraint and an upper wall *)
Example C01_example_guards :
  (forall v c, In v (cf_vars ex_cf) -> In c (cv_cvcs v) -> cvc_guard_w (cf_cell ex_cf) c ex_sys) /\
  (forall b, In b (cf_biases ex_cf) -> bias_guard_w b (cf_vars ex_cf) (var_values Rops PI ex_cf ex_sys)).
Proof. exact ex_guards_ww. Qed.
(* the periodic-cell case of image_ok is inhabited *)
Example C01_example_cell : image_ok true (Some (8, 8, 8)) (0, 0, 0) (5, 1, 1) /\ ~ plain true (Some (8, 8, 8)).
Proof. exact ex_image_cell. Qed.
Example C01_example_hill : hill_ok [mkCvar 1 false 0 []] [3] (2, [(0%nat, (1, 2))]) /\ abmd_diff Rops false 3 5 <> 0.
Proof. exact ex_hill. Qed.
(* the periodic disjunct of the harmonic guard is inhabited: value 10, centre 350, period 360 (image +20) *)
Example C01_example_periodic : var_ok_h (mkVar 1 true 360 0) 10 350.
Proof. exact ex_periodic. Qed.
(* the solver hypothesis of C01_grad_correct_rmsd is inhabited (all-zero reference: every unit quaternion is optimal) *)
Example C01_example_qopt : qopt_ok [vzero Rops; vzero Rops; vzero Rops] (fun _ => (1, 0, 0, 0)).
Proof. exact ex_qopt. Qed.
(* a non-empty history (modifycvcs "componentCoeff 2 componentExp 2" on a variable read as linear) after which the flag
   `linear` is stale, and for which all premises of C01_history_forces_are_minus_gradient hold *)
Example C01_example_stale :
  map (@vs_linear R) (state_after Rops ex_descr ex_hist) = [true] /\
  map (fun st => map (fun c => c_exp (sc_cvc c)) (vs_comps st)) (state_after Rops ex_descr ex_hist) = [[2%Z]].
Proof. exact ex_stale. Qed.
Example C01_example_history_guards :
  let cf := effective None (state_after Rops ex_descr ex_hist) (cf_biases ex_cf) in
  (forall v c, In v (cf_vars cf) -> In c (cv_cvcs v) -> cvc_guard_w (cf_cell cf) c ex_sys) /\
  (forall b, In b (cf_biases cf) -> bias_guard_w b (cf_vars cf) (var_values Rops PI cf ex_sys)).
Proof. exact ex_hist_guards. Qed.
(* an atom at (1, 2, 2) satisfies the guards of polarTheta and polarPhi *)
Example C01_example_polar :
  kind_guard_w None (mkCvc 1 1%Z KPolarTheta [exp_g]) exp_sys /\ kind_guard_w None (mkCvc 1 1%Z KPolarPhi [exp_g]) exp_sys.
Proof. exact ex_polar. Qed.

(* the guard of histogramRestraint is satisfiable *)
Example C01_example_hist : bias_guard_w (BHist 10 (1 / 2) 1 [(0, 1 / 4); (2, 1 / 8)] [0%nat]) [mkCvar 1 false 0 []] [3].
Proof. exact ex_hist_guard. Qed.
